/-
Helper lemmas for the request-level part of C10 (Model/FormLimitsRequest.lean). Core Lean only.
-/
import WzVerif.Model.FormLimitsRequest
import WzVerif.Lemmas.FormLimits
import WzVerif.Lemmas.MultipartChunks
namespace Wz.FormReq
open Wz Wz.Multipart

/-! ### the limits every parser run is given -/

/-- the limits (and declared length) a parser run was given are the request's -/
def ParserCall.Good (c : Cfg) (k : ParserCall) : Prop :=
  k.mm = c.mm ∧ k.mp = c.mp ∧ k.contentLength = c.declared

def CallsOk (c : Cfg) (w : RS) : Prop := ∀ k ∈ w.calls, k.Good c

theorem callOf_good (c : Cfg) (b : Bool) : ∀ k ∈ callOf c b, k.Good c := by
  intro k hk
  unfold callOf at hk
  split at hk
  · simp at hk; subst hk; exact ⟨rfl, rfl, rfl⟩
  · simp at hk

theorem callsOk_append {c : Cfg} {w : RS} (hw : CallsOk c w) (b : Bool) :
    ∀ k ∈ w.calls ++ callOf c b, k.Good c := by
  intro k hk
  rcases List.mem_append.1 hk with hk | hk
  · exact hw k hk
  · exact callOf_good c b k hk

theorem getStream_calls {c : Cfg} {w w' : RS} {s : Strm} (h : getStream c w = .ok (s, w')) :
    w'.calls = w.calls := by
  unfold getStream at h
  cases hs : w.stream with
  | some s0 => rw [hs] at h; simp at h; rw [← h.2]
  | none =>
    rw [hs] at h
    cases hc : chooseStream c with
    | none => rw [hc] at h; simp at h
    | some s1 => rw [hc] at h; simp at h; rw [← h.2]

theorem loadCached_calls {c : Cfg} {w : RS} (d : Bytes) (hw : CallsOk c w) :
    CallsOk c (loadCached c w d).2 := by
  unfold loadCached
  simp only []
  cases (parseFrom c (.bio d) w.input).1 with
  | error e => exact callsOk_append hw true
  | ok r => exact callsOk_append hw true

theorem loadStream_calls {c : Cfg} {w : RS} (hw : CallsOk c w) : CallsOk c (loadStream c w).2 := by
  unfold loadStream
  cases hg : getStream c w with
  | error e => exact hw
  | ok p =>
    rcases p with ⟨s, w1⟩
    have hc := getStream_calls hg
    have hw1 : CallsOk c w1 := by intro k hk; rw [hc] at hk; exact hw k hk
    simp only
    cases (parseFrom c s w1.input).1 with
    | error e => exact callsOk_append hw1 false
    | ok r => exact callsOk_append hw1 false

theorem loadPlain_calls {c : Cfg} {w : RS} (hw : CallsOk c w) : CallsOk c (loadPlain c w).2 := by
  unfold loadPlain
  cases hg : getStream c w with
  | error e => exact hw
  | ok p =>
    rcases p with ⟨s, w1⟩
    have hc := getStream_calls hg
    intro k hk
    simp only at hk
    rw [hc] at hk; exact hw k hk

theorem loadForm_calls {c : Cfg} {w : RS} (hw : CallsOk c w) : CallsOk c (loadForm c w).2 := by
  unfold loadForm
  split
  · exact hw
  · split
    · cases w.cached with
      | some d => exact loadCached_calls d hw
      | none => exact loadStream_calls hw
    · exact loadPlain_calls hw

theorem streamReadAll_calls {c : Cfg} {w : RS} (hw : CallsOk c w) : CallsOk c (streamReadAll c w).2 := by
  unfold streamReadAll
  cases hg : getStream c w with
  | error e => exact hw
  | ok p =>
    rcases p with ⟨s, w1⟩
    have hc := getStream_calls hg
    intro k hk
    simp only at hk
    rw [hc] at hk; exact hw k hk

theorem getData_calls {c : Cfg} {w : RS} (cache parse : Bool) (hw : CallsOk c w) :
    CallsOk c (getData c cache parse w).2 := by
  unfold getData
  cases w.cached with
  | some d => exact hw
  | none =>
    simp only
    have hl : CallsOk c (if parse then loadForm c w else (none, w)).2 := by
      split
      · exact loadForm_calls hw
      · exact hw
    cases (if parse then loadForm c w else (none, w)).1 with
    | some e => exact hl
    | none =>
      simp only
      have hs := streamReadAll_calls hl
      cases hr : streamReadAll c (if parse then loadForm c w else (none, w)).2 with
      | mk r w2 =>
        rw [hr] at hs
        cases r with
        | error e => exact hs
        | ok d =>
          simp only
          split
          · exact hs
          · exact hs

theorem stepOp_calls {c : Cfg} {w : RS} (op : Op) (hw : CallsOk c w) : CallsOk c (stepOp c w op).2 := by
  cases op with
  | getData cache parse => exact getData_calls cache parse hw
  | data =>
    simp only [stepOp]
    cases w.dataProp with
    | some d => exact hw
    | none =>
      simp only
      have h := getData_calls true true hw
      cases hr : getData c true true w with
      | mk r w2 =>
        rw [hr] at h
        cases r with
        | error e => exact h
        | ok d => exact h
  | streamRead => exact streamReadAll_calls hw
  | form =>
    simp only [stepOp]
    have h := loadForm_calls hw
    cases hr : loadForm c w with
    | mk e w2 => rw [hr] at h; cases e <;> exact h
  | values =>
    simp only [stepOp]
    have h := loadForm_calls hw
    cases hr : loadForm c w with
    | mk e w2 => rw [hr] at h; cases e <;> exact h
  | files =>
    simp only [stepOp]
    have h := loadForm_calls hw
    cases hr : loadForm c w with
    | mk e w2 => rw [hr] at h; cases e <;> exact h
  | json cache =>
    simp only [stepOp]
    split
    · exact hw
    · have h := getData_calls cache false hw
      cases hr : getData c cache false w with
      | mk r w2 =>
        rw [hr] at h
        cases r with
        | error e => exact h
        | ok d => exact h

theorem run_calls {c : Cfg} (ops : List Op) : ∀ {w : RS}, CallsOk c w → CallsOk c (run c w ops).2 := by
  induction ops with
  | nil => intro w hw; exact hw
  | cons op t ih => intro w hw; exact ih (stepOp_calls op hw)

/-! ### what an access can take from `wsgi.input` -/

/-- the most bytes the stream `get_input_stream` chooses will ever take from `wsgi.input`
(`none` = no bound: the raw stream of a terminated input without a maximum) -/
def cap (c : Cfg) : Option Nat :=
  match chooseStream c with
  | none => some 0
  | some .empty => some 0
  | some (.limited l _ _) => some l
  | some .raw => none
  | some (.bio _) => some 0

/-- consistency of a stream object with the input it reads: a `LimitedStream` has handed out exactly
what was taken from `wsgi.input`; the bytes taken never exceed `cap` -/
def SOk (c : Cfg) (body : Bytes) (s : Strm) (i : Bytes) : Prop :=
  i.length ≤ body.length ∧ (∀ l, cap c = some l → body.length - i.length ≤ l) ∧
  match s with
  | .empty => i.length = body.length
  | .raw => chooseStream c = some .raw
  | .limited l p m => chooseStream c = some (.limited l 0 m) ∧ p + i.length = body.length ∧ p ≤ l
  | .bio _ => True

theorem avail_length_le (s : Strm) (i : Bytes) :
    (match s with | .bio _ => True | _ => (avail s i).length ≤ i.length) := by
  cases s <;> simp [avail, List.length_take]
  omega

theorem advance_zero (s : Strm) (i : Bytes) : advance s i 0 = (s, i) := by
  cases s <;> simp [advance]

theorem advance_ok {c : Cfg} {body : Bytes} {s : Strm} {i : Bytes} {k : Nat}
    (h : SOk c body s i) (hk : k ≤ (avail s i).length) :
    SOk c body (advance s i k).1 (advance s i k).2 := by
  rcases h with ⟨h1, h2, h3⟩
  cases s with
  | empty => exact ⟨h1, h2, h3⟩
  | bio rest => exact ⟨h1, h2, trivial⟩
  | raw =>
    simp only [avail] at hk
    simp only [SOk, advance, List.length_drop]
    refine ⟨by omega, ?_, h3⟩
    intro l hl
    simp [cap, h3] at hl
  | limited l p m =>
    simp only [avail, List.length_take] at hk
    simp only [SOk, advance, List.length_drop]
    rcases h3 with ⟨hc, hp, hl⟩
    refine ⟨by omega, ?_, hc, by omega, by omega⟩
    intro l' hl'
    simp [cap, hc] at hl'
    omega

/-- every primitive leaves the stream / input pair either untouched or advanced by bytes that were
available -/
def Adv (s : Strm) (i : Bytes) (s' : Strm) (i' : Bytes) : Prop :=
  ∃ k, k ≤ (avail s i).length ∧ (s', i') = advance s i k

theorem adv_refl (s : Strm) (i : Bytes) : Adv s i s i := ⟨0, Nat.zero_le _, (advance_zero s i).symm⟩

theorem adv_ok {c : Cfg} {body : Bytes} {s s' : Strm} {i i' : Bytes} (h : SOk c body s i)
    (ha : Adv s i s' i') : SOk c body s' i' := by
  rcases ha with ⟨k, hk, he⟩
  have := advance_ok h hk
  rw [← he] at this
  exact this

theorem sReadAll_adv (s : Strm) (i : Bytes) : Adv s i (sReadAll s i).2.1 (sReadAll s i).2.2 := by
  unfold sReadAll
  cases s with
  | limited l p m =>
    simp only
    split
    · exact adv_refl _ _
    · split
      · refine ⟨l - p, ?_, rfl⟩
        simp [avail, List.length_take]; omega
      · split
        · refine ⟨i.length, ?_, rfl⟩
          simp [avail, List.length_take]; omega
        · refine ⟨i.length, ?_, rfl⟩
          simp [avail, List.length_take]; omega
  | empty => exact ⟨_, Nat.le_refl _, rfl⟩
  | raw => exact ⟨_, Nat.le_refl _, rfl⟩
  | bio r => exact ⟨_, Nat.le_refl _, rfl⟩

theorem lenSum_take_le (l : List Bytes) (k : Nat) : lenSum (l.take k) ≤ lenSum l := by
  unfold lenSum
  have h : l.flatten = (l.take k).flatten ++ (l.drop k).flatten := by
    rw [← List.flatten_append, List.take_append_drop]
  rw [h, List.length_append]
  exact Nat.le_add_right _ _

theorem lenSum_readChunks (D : Bytes) : lenSum (readChunks bufferSize D.length [] D) = D.length := by
  unfold lenSum
  rw [readChunks_flatten bufferSize D.length [] D (Nat.le_refl _)]

theorem parseMultipartS_adv (bnd : Bytes) (mm mp : Option Nat) (s : Strm) (i : Bytes) :
    Adv s i (parseMultipartS bnd mm mp s i).2.1 (parseMultipartS bnd mm mp s i).2.2 := by
  unfold parseMultipartS
  simp only []
  have hle : ∀ k, lenSum ((readChunks bufferSize (avail s i).length [] (avail s i)).take k) ≤ (avail s i).length := by
    intro k
    have := lenSum_take_le (readChunks bufferSize (avail s i).length [] (avail s i)) k
    rw [lenSum_readChunks] at this
    exact this
  cases endErr s i with
  | none => exact ⟨_, hle _, rfl⟩
  | some e =>
    simp only
    cases (formLoopN mm (mkDecoder bnd mm mp) {} ((readChunks bufferSize (avail s i).length [] (avail s i)).map some)).1 with
    | error e' => exact ⟨_, hle _, rfl⟩
    | ok st => exact ⟨_, Nat.le_refl _, rfl⟩

theorem parseUrlencodedS_adv (mm cl : Option Nat) (s : Strm) (i : Bytes) :
    Adv s i (parseUrlencodedS mm cl s i).2.1 (parseUrlencodedS mm cl s i).2.2 := by
  unfold parseUrlencodedS
  simp only []
  cases mm with
  | none =>
    simp only
    have h := sReadAll_adv s i
    rcases hr : sReadAll s i with ⟨r, s', i'⟩
    rw [hr] at h
    cases r <;> exact h
  | some m =>
    simp only
    split
    · exact adv_refl _ _
    · split
      · rename_i hlt
        exact ⟨m + 1, by omega, rfl⟩
      · cases endErr s i with
        | none => exact ⟨_, Nat.le_refl _, rfl⟩
        | some e => exact ⟨_, Nat.le_refl _, rfl⟩

/-- `silent=True` never moves the stream -/
theorem silentRes_snd (r : Except String FormRes × Strm × Bytes) : (silentRes r).2 = r.2 := by
  rcases r with ⟨r, s', i'⟩
  unfold silentRes
  cases r with
  | ok x => rfl
  | error e => simp only; split <;> rfl

/-- `silent=True`: a ValueError becomes the empty result, anything else escapes -/
def silence (r : Except String FormRes) : Except String FormRes :=
  match r with
  | .error e => if isValueError e then .ok ([], []) else .error e
  | .ok x => .ok x

theorem silentRes_fst (r : Except String FormRes × Strm × Bytes) : (silentRes r).1 = silence r.1 := by
  rcases r with ⟨r, s', i'⟩
  unfold silentRes silence
  cases r with
  | ok x => rfl
  | error e => simp only; split <;> rfl

theorem parseDispatch_adv (mime : Mime) (mm mp cl : Option Nat) (s : Strm) (i : Bytes) :
    Adv s i (parseDispatch mime mm mp cl s i).2.1 (parseDispatch mime mm mp cl s i).2.2 := by
  unfold parseDispatch
  cases mime with
  | multipart bnd =>
    simp only
    split
    · exact adv_refl _ _
    · rw [silentRes_snd]; exact parseMultipartS_adv bnd mm mp s i
  | urlencoded =>
    simp only
    rw [silentRes_snd]; exact parseUrlencodedS_adv mm cl s i
  | other => exact adv_refl _ _
  | absent => exact adv_refl _ _

/-! ### the request state never takes more than `cap` bytes -/

/-- invariant of the request state over `body` -/
def Inv (c : Cfg) (body : Bytes) (w : RS) : Prop :=
  match w.stream with
  | none => w.input.length = body.length
  | some s => SOk c body s w.input

theorem inv_base {c : Cfg} {body : Bytes} {w : RS} (h : Inv c body w) :
    w.input.length ≤ body.length ∧ (∀ l, cap c = some l → body.length - w.input.length ≤ l) := by
  unfold Inv at h
  cases hs : w.stream with
  | none => rw [hs] at h; simp only at h; exact ⟨by omega, fun l _ => by omega⟩
  | some s => rw [hs] at h; exact ⟨h.1, h.2.1⟩

theorem chooseStream_limited_pos {c : Cfg} {l p : Nat} {m : Bool}
    (h : chooseStream c = some (.limited l p m)) : p = 0 := by
  rcases c with ⟨mcl, mm, mp, mime, declared, terminated⟩
  cases mcl <;> cases declared <;> cases terminated <;> simp [chooseStream] at h <;> omega

theorem getStream_inv {c : Cfg} {body : Bytes} {w w1 : RS} {s : Strm} (h : Inv c body w)
    (hg : getStream c w = .ok (s, w1)) :
    SOk c body s w1.input ∧ w1.input = w.input ∧ w1.stream = some s ∧ w1.cached = w.cached ∧
      w1.form = w.form ∧ w1.dataProp = w.dataProp ∧ w1.jsonDone = w.jsonDone := by
  unfold getStream at hg
  cases hs : w.stream with
  | some s0 =>
    rw [hs] at hg; simp at hg
    rcases hg with ⟨rfl, rfl⟩
    unfold Inv at h; rw [hs] at h
    exact ⟨h, rfl, hs, rfl, rfl, rfl, rfl⟩
  | none =>
    rw [hs] at hg
    unfold Inv at h; rw [hs] at h; simp only at h
    cases hc : chooseStream c with
    | none => rw [hc] at hg; simp at hg
    | some s1 =>
      rw [hc] at hg; simp at hg
      rcases hg with ⟨rfl, rfl⟩
      refine ⟨⟨by simp only; omega, fun l _ => by simp only; omega, ?_⟩, rfl, rfl, rfl, rfl, rfl, rfl⟩
      cases s1 with
      | empty => exact h
      | raw => exact hc
      | bio r => trivial
      | limited l p m =>
        have hp := chooseStream_limited_pos hc
        subst hp
        refine ⟨hc, by simp only; omega, Nat.zero_le _⟩

theorem inv_of_sok {c : Cfg} {body : Bytes} {w : RS} {s : Strm} (hs : w.stream = some s)
    (h : SOk c body s w.input) : Inv c body w := by
  unfold Inv; rw [hs]; exact h

theorem loadCached_inv {c : Cfg} {body : Bytes} {w : RS} (d : Bytes) (h : Inv c body w) :
    Inv c body (loadCached c w d).2 := by
  have hb := inv_base h
  unfold loadCached
  simp only []
  cases hr : (parseFrom c (.bio d) w.input).1 with
  | error e =>
    simp only
    unfold Inv at h ⊢
    exact h
  | ok r =>
    simp only
    have ha := parseDispatch_adv c.mime c.mm c.mp c.declared (.bio d) w.input
    have hso : SOk c body (.bio d) w.input := ⟨hb.1, hb.2, trivial⟩
    have := adv_ok hso ha
    rcases ha with ⟨k, _, he⟩
    have hi : (parseFrom c (.bio d) w.input).2.2 = w.input := by
      have := congrArg Prod.snd he
      simpa [advance, parseFrom] using this
    refine inv_of_sok (s := (parseFrom c (.bio d) w.input).2.1) rfl ?_
    simp only
    unfold parseFrom at hi ⊢
    rw [hi] at this
    exact this

theorem loadStream_inv {c : Cfg} {body : Bytes} {w : RS} (h : Inv c body w) :
    Inv c body (loadStream c w).2 := by
  unfold loadStream
  cases hg : getStream c w with
  | error e => exact h
  | ok p =>
    rcases p with ⟨s, w1⟩
    rcases getStream_inv h hg with ⟨hso, _, _⟩
    simp only
    have ha := parseDispatch_adv c.mime c.mm c.mp c.declared s w1.input
    have hok := adv_ok hso ha
    cases hr : (parseFrom c s w1.input).1 with
    | error e => exact inv_of_sok rfl hok
    | ok r => exact inv_of_sok rfl hok

theorem loadPlain_inv {c : Cfg} {body : Bytes} {w : RS} (h : Inv c body w) :
    Inv c body (loadPlain c w).2 := by
  unfold loadPlain
  cases hg : getStream c w with
  | error e => exact h
  | ok p =>
    rcases p with ⟨s, w1⟩
    rcases getStream_inv h hg with ⟨hso, _, hst, _⟩
    exact inv_of_sok (s := s) hst hso

theorem loadForm_inv {c : Cfg} {body : Bytes} {w : RS} (h : Inv c body w) :
    Inv c body (loadForm c w).2 := by
  unfold loadForm
  split
  · exact h
  · split
    · cases w.cached with
      | some d => exact loadCached_inv d h
      | none => exact loadStream_inv h
    · exact loadPlain_inv h

theorem streamReadAll_inv {c : Cfg} {body : Bytes} {w : RS} (h : Inv c body w) :
    Inv c body (streamReadAll c w).2 := by
  unfold streamReadAll
  cases hg : getStream c w with
  | error e => exact h
  | ok p =>
    rcases p with ⟨s, w1⟩
    rcases getStream_inv h hg with ⟨hso, _, _⟩
    exact inv_of_sok rfl (adv_ok hso (sReadAll_adv s w1.input))

theorem inv_congr {c : Cfg} {body : Bytes} {w w' : RS} (h : Inv c body w) (h1 : w'.stream = w.stream)
    (h2 : w'.input = w.input) : Inv c body w' := by
  unfold Inv at h ⊢
  rw [h1, h2]; exact h

theorem getData_inv {c : Cfg} {body : Bytes} {w : RS} (cache parse : Bool) (h : Inv c body w) :
    Inv c body (getData c cache parse w).2 := by
  unfold getData
  cases w.cached with
  | some d => exact h
  | none =>
    simp only
    have hl : Inv c body (if parse then loadForm c w else (none, w)).2 := by
      split
      · exact loadForm_inv h
      · exact h
    cases (if parse then loadForm c w else (none, w)).1 with
    | some e => exact hl
    | none =>
      simp only
      have hs := streamReadAll_inv hl
      cases hr : streamReadAll c (if parse then loadForm c w else (none, w)).2 with
      | mk r w2 =>
        rw [hr] at hs
        cases r with
        | error e => exact hs
        | ok d =>
          simp only
          split
          · exact inv_congr hs rfl rfl
          · exact hs

theorem stepOp_inv {c : Cfg} {body : Bytes} {w : RS} (op : Op) (h : Inv c body w) :
    Inv c body (stepOp c w op).2 := by
  cases op with
  | getData cache parse => exact getData_inv cache parse h
  | data =>
    simp only [stepOp]
    cases w.dataProp with
    | some d => exact h
    | none =>
      simp only
      have h' := getData_inv true true h
      cases hr : getData c true true w with
      | mk r w2 =>
        rw [hr] at h'
        cases r with
        | error e => exact h'
        | ok d => exact inv_congr h' rfl rfl
  | streamRead => exact streamReadAll_inv h
  | form =>
    simp only [stepOp]
    have h' := loadForm_inv h
    cases hr : loadForm c w with
    | mk e w2 => rw [hr] at h'; cases e <;> exact h'
  | values =>
    simp only [stepOp]
    have h' := loadForm_inv h
    cases hr : loadForm c w with
    | mk e w2 => rw [hr] at h'; cases e <;> exact h'
  | files =>
    simp only [stepOp]
    have h' := loadForm_inv h
    cases hr : loadForm c w with
    | mk e w2 => rw [hr] at h'; cases e <;> exact h'
  | json cache =>
    simp only [stepOp]
    split
    · exact h
    · have h' := getData_inv cache false h
      cases hr : getData c cache false w with
      | mk r w2 =>
        rw [hr] at h'
        cases r with
        | error e => exact h'
        | ok d => exact inv_congr h' rfl rfl

theorem run_inv {c : Cfg} {body : Bytes} (ops : List Op) : ∀ {w : RS}, Inv c body w → Inv c body (run c w ops).2 := by
  induction ops with
  | nil => intro w hw; exact hw
  | cons op t ih => intro w hw; exact ih (stepOp_inv op hw)

theorem fresh_inv (c : Cfg) (body : Bytes) : Inv c body (fresh body) := by
  simp [Inv, fresh]

/-- with a maximum configured the chosen stream never takes more than the maximum -/
theorem mcl_cap {c : Cfg} {m : Nat} (h : c.mcl = some m) : ∃ l, cap c = some l ∧ l ≤ m := by
  unfold cap chooseStream
  simp only [h]
  cases hd : c.declared with
  | none =>
    simp only
    cases c.terminated with
    | true => exact ⟨m, by simp, Nat.le_refl _⟩
    | false => exact ⟨0, by simp, Nat.zero_le _⟩
  | some n =>
    simp only
    by_cases hov : n > m
    · exact ⟨0, by simp [hov], Nat.zero_le _⟩
    · cases c.terminated with
      | true => exact ⟨m, by simp [hov], Nat.le_refl _⟩
      | false => exact ⟨n, by simp [hov], by omega⟩

/-! ### a declared length above the maximum -/

/-- nothing has been read, cached or parsed yet -/
def Untouched (w : RS) : Prop :=
  w.stream = none ∧ w.cached = none ∧ w.form = none ∧ w.dataProp = none ∧ w.jsonDone = false

theorem getStream_tooLarge {c : Cfg} {w : RS} (hc : chooseStream c = none) (hw : w.stream = none) :
    getStream c w = .error "RequestEntityTooLarge" := by
  simp [getStream, hw, hc]

theorem loadForm_tooLarge {c : Cfg} {w : RS} (hc : chooseStream c = none) (hw : Untouched w) :
    loadForm c w = (some "RequestEntityTooLarge", w) := by
  rcases hw with ⟨h1, h2, h3, _, _⟩
  unfold loadForm
  simp only [h3, Option.isSome_none, Bool.false_eq_true, if_false]
  split
  · simp [h2, loadStream, getStream_tooLarge hc h1]
  · simp [loadPlain, getStream_tooLarge hc h1]

theorem getData_tooLarge {c : Cfg} {w : RS} (cache parse : Bool) (hc : chooseStream c = none)
    (hw : Untouched w) : getData c cache parse w = (.error "RequestEntityTooLarge", w) := by
  have hl := loadForm_tooLarge hc hw
  rcases hw with ⟨h1, h2, _, _, _⟩
  unfold getData
  cases parse <;> simp [h2, hl, streamReadAll, getStream_tooLarge hc h1]

theorem stepOp_tooLarge {c : Cfg} {w : RS} (op : Op) (hc : chooseStream c = none) (hw : Untouched w) :
    stepOp c w op = (.exc "RequestEntityTooLarge", w) := by
  have hl := loadForm_tooLarge hc hw
  have hg := fun a b => getData_tooLarge a b hc hw
  rcases hw with ⟨h1, h2, h3, h4, h5⟩
  cases op with
  | getData cache parse => simp [stepOp, hg, obsBytes]
  | data => simp [stepOp, h4, hg]
  | streamRead => simp [stepOp, streamReadAll, getStream_tooLarge hc h1, obsBytes]
  | form => simp [stepOp, hl]
  | values => simp [stepOp, hl]
  | files => simp [stepOp, hl]
  | json cache => simp [stepOp, h5, hg]

theorem run_tooLarge {c : Cfg} (ops : List Op) {w : RS} (hc : chooseStream c = none) (hw : Untouched w) :
    run c w ops = (ops.map fun _ => .exc "RequestEntityTooLarge", w) := by
  induction ops with
  | nil => rfl
  | cons op t ih => simp [run, stepOp_tooLarge op hc hw, ih]

/-! ### the parse functions only see what the stream can deliver -/

theorem formLoopN_fst (m : Option Nat) (cs : List (Option Bytes)) : ∀ (d : Decoder) (st : FormState),
    (formLoopN m d st cs).1 = formLoop m d st cs := by
  induction cs with
  | nil => intro d st; rfl
  | cons c t ih =>
    intro d st
    simp only [formLoopN, formLoop]
    cases formEvents m st (feed d c).events with
    | error e => rfl
    | ok st' =>
      simp only
      cases (feed d c).err with
      | some e => rfl
      | none => simp only; exact ih _ _

/-- **multipart at the request level is `formParse`.** When the read after the last byte returns
`b""` (`endErr = none`), `MultiPartParser.parse` over the stream is the C01 / C10 parser model applied
to the bytes the stream can deliver, with 64 KiB reads. -/
theorem parseMultipartS_clean (bnd : Bytes) (mm mp : Option Nat) {s : Strm} {i : Bytes}
    (h : endErr s i = none) :
    (parseMultipartS bnd mm mp s i).1 = formParse bnd mm mp bufferSize [] (avail s i) := by
  unfold parseMultipartS formParse
  simp only [h, formLoopN_fst]
  cases formLoop mm (mkDecoder bnd mm mp) {}
      ((readChunks bufferSize (avail s i).length [] (avail s i)).map some ++ [none]) with
  | error e => rfl
  | ok st => rfl

theorem sReadAll_clean {s : Strm} {i : Bytes} (h : endErr s i = none) :
    (sReadAll s i).1 = .ok (avail s i) := by
  cases s with
  | empty => rfl
  | raw => rfl
  | bio r => rfl
  | limited l p m =>
    simp only [endErr] at h
    simp only [sReadAll, avail]
    by_cases h1 : l ≤ p
    · have h0 : l - p = 0 := by omega
      simp only [h1, if_true]
      simp only [h0, Nat.zero_le, if_true] at h
      cases m with
      | true => simp at h
      | false => simp [h0]
    · simp only [h1, if_false]
      by_cases h2 : l - p ≤ i.length
      · simp only [h2, if_true]
      · simp only [h2, if_false] at h ⊢
        cases m with
        | false => simp at h
        | true =>
          simp only [if_true]
          rw [List.take_of_length_le (by omega)]

/-- the first component of a parse depends on the stream only through what it can deliver and how it
ends -/
theorem parseDispatch_fst_congr (mime : Mime) (mm mp cl : Option Nat) {s s' : Strm} {i i' : Bytes}
    (ha : avail s i = avail s' i') (he : endErr s i = endErr s' i')
    (hr : (sReadAll s i).1 = (sReadAll s' i').1) :
    (parseDispatch mime mm mp cl s i).1 = (parseDispatch mime mm mp cl s' i').1 := by
  have hmp : ∀ bnd, (parseMultipartS bnd mm mp s i).1 = (parseMultipartS bnd mm mp s' i').1 := by
    intro bnd
    unfold parseMultipartS
    simp only [ha, he]
    cases endErr s' i' with
    | none => rfl
    | some e =>
      simp only
      cases (formLoopN mm (mkDecoder bnd mm mp) {} ((readChunks bufferSize (avail s' i').length [] (avail s' i')).map some)).1 <;> rfl
  have hurl : (parseUrlencodedS mm cl s i).1 = (parseUrlencodedS mm cl s' i').1 := by
    unfold parseUrlencodedS
    simp only []
    cases mm with
    | none =>
      simp only
      rcases h1 : sReadAll s i with ⟨r1, s1, i1⟩
      rcases h2 : sReadAll s' i' with ⟨r2, s2, i2⟩
      rw [h1, h2] at hr
      simp only at hr
      subst hr
      cases r1 <;> rfl
    | some m =>
      simp only [ha, he]
      split
      · rfl
      · split
        · rfl
        · cases endErr s' i' <;> rfl
  unfold parseDispatch
  cases mime with
  | multipart bnd =>
    simp only
    split
    · rfl
    · rw [silentRes_fst, silentRes_fst, hmp bnd]
  | urlencoded =>
    simp only
    rw [silentRes_fst, silentRes_fst, hurl]
  | other => rfl
  | absent => rfl

/-- parsing the bytes cached by `get_data()` = parsing the stream itself, when the stream ends
cleanly -/
theorem parseFrom_cached_eq (c : Cfg) {s : Strm} {i : Bytes} (j : Bytes) (h : endErr s i = none) :
    (parseFrom c (.bio (avail s i)) j).1 = (parseFrom c s i).1 := by
  unfold parseFrom
  apply parseDispatch_fst_congr
  · rfl
  · rw [h]; rfl
  · rw [sReadAll_clean h]; rfl

/-! ### `get_data()` first, then the form -/

/-- the three accesses that go through `_load_form_data` and show its result -/
def Op.isFormAccess : Op → Bool
  | .form => true
  | .files => true
  | .values => true
  | _ => false

/-- what a form access shows for the outcome `r` of `_load_form_data`'s parse -/
def obsOf (op : Op) (r : Except String FormRes) : Obs :=
  match r with
  | .error e => .exc e
  | .ok res => match op with
    | .files => .files res.2
    | _ => .fields res.1

theorem stepOp_form_eq (c : Cfg) (w : RS) {op : Op} (h : op.isFormAccess = true) :
    (stepOp c w op).1 =
      match (loadForm c w).1 with
      | some e => .exc e
      | none => obsOf op (.ok ((loadForm c w).2.form.getD ([], []))) := by
  cases op <;> simp [Op.isFormAccess] at h <;>
    (simp only [stepOp]; rcases loadForm c w with ⟨e, w'⟩; cases e <;> rfl)

/-- a direct form access on a fresh request shows the parse of the stream -/
theorem formAccess_fresh (c : Cfg) (body : Bytes) {s0 : Strm} (hc : chooseStream c = some s0)
    (hm : c.mime ≠ .absent) {op : Op} (h : op.isFormAccess = true) :
    (stepOp c (fresh body) op).1 = obsOf op (parseFrom c s0 body).1 := by
  rw [stepOp_form_eq c _ h]
  have hl : loadForm c (fresh body) = loadStream c (fresh body) := by
    simp [loadForm, fresh, hm]
  rw [hl]
  simp only [loadStream, getStream, fresh, hc]
  cases (parseFrom c s0 body).1 with
  | error e => rfl
  | ok res => simp [obsOf]

/-- a form access on a request whose body was cached shows the parse of the cached bytes -/
theorem formAccess_cached (c : Cfg) {w : RS} {d : Bytes} (hcd : w.cached = some d) (hf : w.form = none)
    (hm : c.mime ≠ .absent) {op : Op} (h : op.isFormAccess = true) :
    (stepOp c w op).1 = obsOf op (parseFrom c (.bio d) w.input).1 := by
  rw [stepOp_form_eq c _ h]
  have hl : loadForm c w = loadCached c w d := by
    simp [loadForm, hf, hm, hcd]
  rw [hl]
  simp only [loadCached]
  cases (parseFrom c (.bio d) w.input).1 with
  | error e => rfl
  | ok res => simp [obsOf]

/-- without a content type the form is empty on either path -/
theorem formAccess_absent (c : Cfg) {w : RS} (hf : w.form = none) (hm : c.mime = .absent)
    {s : Strm} {w1 : RS} (hg : getStream c w = .ok (s, w1)) {op : Op} (h : op.isFormAccess = true) :
    (stepOp c w op).1 = obsOf op (.ok ([], [])) := by
  rw [stepOp_form_eq c _ h]
  have hl : loadForm c w = loadPlain c w := by
    simp [loadForm, hf, hm]
  rw [hl]
  simp [loadPlain, hg]

/-- `get_data()` on a fresh request whose stream ends cleanly returns and caches everything the
stream can deliver -/
theorem getData_fresh_clean (c : Cfg) (body : Bytes) {s0 : Strm} (hc : chooseStream c = some s0)
    (he : endErr s0 body = none) :
    ∃ w1, stepOp c (fresh body) (.getData true false) = (.bytes (avail s0 body), w1) ∧
      w1.cached = some (avail s0 body) ∧ w1.form = none ∧ w1.stream.isSome = true := by
  have hr := sReadAll_clean he
  have h1 : (stepOp c (fresh body) (.getData true false)).1 = .bytes (avail s0 body) := by
    simp [stepOp, getData, fresh, streamReadAll, getStream, hc, hr, obsBytes]
  have h2 : (stepOp c (fresh body) (.getData true false)).2.cached = some (avail s0 body) ∧
      (stepOp c (fresh body) (.getData true false)).2.form = none ∧
      (stepOp c (fresh body) (.getData true false)).2.stream.isSome = true := by
    simp [stepOp, getData, fresh, streamReadAll, getStream, hc, hr]
  exact ⟨_, Prod.ext h1 rfl, h2⟩

theorem stepOp_getData_cached (c : Cfg) {w : RS} {d : Bytes} (cache parse : Bool) (h : w.cached = some d) :
    stepOp c w (.getData cache parse) = (.bytes d, w) := by
  simp [stepOp, getData, h, obsBytes]

theorem run_append (c : Cfg) (a b : List Op) (w : RS) :
    run c w (a ++ b) = ((run c w a).1 ++ (run c (run c w a).2 b).1, (run c (run c w a).2 b).2) := by
  induction a generalizing w with
  | nil => simp [run]
  | cons op t ih => simp [run, ih]

theorem run_replicate_getData_cached (c : Cfg) {w : RS} {d : Bytes} (h : w.cached = some d) (k : Nat) :
    run c w (List.replicate k (.getData true false)) = (List.replicate k (.bytes d), w) := by
  induction k with
  | zero => rfl
  | succ n ih => simp [List.replicate_succ, run, stepOp_getData_cached c true false h, ih]

/-- **form_after_get_data (lemma).** -/
theorem form_after_get_data_lemma (c : Cfg) (body : Bytes) {s0 : Strm} (hc : chooseStream c = some s0)
    (he : endErr s0 body = none) (k : Nat) {op : Op} (h : op.isFormAccess = true) :
    (run c (fresh body) (List.replicate (k + 1) (.getData true false) ++ [op])).1 =
      List.replicate (k + 1) (.bytes (avail s0 body)) ++ (run c (fresh body) [op]).1 := by
  rcases getData_fresh_clean c body hc he with ⟨w1, hs, hcd, hf, hst⟩
  have hrun1 : run c (fresh body) (List.replicate (k + 1) (.getData true false)) =
      (List.replicate (k + 1) (.bytes (avail s0 body)), w1) := by
    simp only [List.replicate_succ, run, hs, run_replicate_getData_cached c hcd k]
  rw [run_append, hrun1]
  simp only [run, List.append_nil]
  congr 1
  congr 1
  by_cases hm : c.mime = .absent
  · have hg1 : ∃ s w2, getStream c w1 = .ok (s, w2) := by
      cases hs1 : w1.stream with
      | none => rw [hs1] at hst; simp at hst
      | some s1 => exact ⟨s1, w1, by simp [getStream, hs1]⟩
    rcases hg1 with ⟨s, w2, hg⟩
    rw [formAccess_absent c hf hm hg h]
    have hg0 : getStream c (fresh body) = .ok (s0, { fresh body with stream := some s0 }) := by
      simp [getStream, fresh, hc]
    rw [formAccess_absent c rfl hm hg0 h]
  · rw [formAccess_cached c hcd hf hm h, formAccess_fresh c body hc hm h, parseFrom_cached_eq c _ he]

/-! ### a form access on a fresh request in terms of the parser models -/

theorem parseDispatch_multipart_fst {bnd : Bytes} (hb : bnd ≠ []) (mm mp cl : Option Nat) (s : Strm) (i : Bytes) :
    (parseDispatch (.multipart bnd) mm mp cl s i).1 = silence (parseMultipartS bnd mm mp s i).1 := by
  have hb' : bnd.isEmpty = false := by cases bnd <;> simp at hb ⊢
  simp only [parseDispatch, hb', Bool.false_eq_true, if_false, silentRes_fst]

theorem parseDispatch_urlencoded_fst (mm mp cl : Option Nat) (s : Strm) (i : Bytes) :
    (parseDispatch .urlencoded mm mp cl s i).1 = silence (parseUrlencodedS mm cl s i).1 := by
  simp only [parseDispatch, silentRes_fst]

/-- the form `_parse_urlencoded` returns for the items of the C02 / C10 model -/
def urlForm (r : Except String (List (Urlencode.Str × Urlencode.Str))) : Except String FormRes :=
  match r with
  | .error e => .error e
  | .ok items => .ok (items.map (fun (k, v) => (some k, v)), [])

/-- **urlencoded at the request level is `parseUrlencoded`** (the bounded read of C10, fed by a stream
that ends cleanly) -/
theorem parseUrlencodedS_clean (mm cl : Option Nat) {s : Strm} {i : Bytes} (h : endErr s i = none) :
    (parseUrlencodedS mm cl s i).1 = urlForm (Urlencode.parseUrlencoded mm cl [] (avail s i)) := by
  unfold parseUrlencodedS Urlencode.parseUrlencoded
  simp only []
  cases mm with
  | none =>
    simp only [Urlencode.urlencodedRead]
    have hr := sReadAll_clean h
    rcases hs : sReadAll s i with ⟨r, s', i'⟩
    rw [hs] at hr
    simp only at hr
    subst hr
    simp only
    cases utf8Dec? (avail s i) <;> rfl
  | some m =>
    simp only [Urlencode.urlencodedRead]
    cases hd : Urlencode.declaredTooLarge m cl with
    | true => simp [urlForm]
    | false =>
      simp only [Bool.false_eq_true, if_false]
      rw [Urlencode.boundedLoop_result (m + 2) (m + 1) [] (avail s i) [] (by omega)]
      by_cases hl : (avail s i).length > m
      · have : ¬ ((avail s i).length < m + 1) := by omega
        simp [hl, this, urlForm]
      · have : (avail s i).length < m + 1 := by omega
        simp only [hl, if_false, h, this, if_true, List.nil_append]
        cases utf8Dec? (avail s i) <;> rfl

/-! ### what a form access shows in an arbitrary state -/

/-- a form access on a request that has nothing cached and no form yet shows the parse of what its
stream can still deliver -/
theorem formAccess_stream (c : Cfg) {w : RS} (hcd : w.cached = none) (hf : w.form = none)
    (hm : c.mime ≠ .absent) {op : Op} (h : op.isFormAccess = true) :
    (stepOp c w op).1 =
      match getStream c w with
      | .error e => .exc e
      | .ok (s, w1) => obsOf op (parseFrom c s w1.input).1 := by
  rw [stepOp_form_eq c _ h]
  have hl : loadForm c w = loadStream c w := by
    simp [loadForm, hf, hm, hcd]
  rw [hl]
  simp only [loadStream]
  cases hg : getStream c w with
  | error e => rfl
  | ok p =>
    rcases p with ⟨s, w1⟩
    simp only
    cases (parseFrom c s w1.input).1 with
    | error e => rfl
    | ok res => simp [obsOf]

/-- once the form is loaded every form access shows it -/
theorem formAccess_loaded (c : Cfg) {w : RS} {r : FormRes} (hf : w.form = some r) {op : Op}
    (h : op.isFormAccess = true) : (stepOp c w op).1 = obsOf op (.ok r) := by
  rw [stepOp_form_eq c _ h]
  simp [loadForm, hf]

end Wz.FormReq
