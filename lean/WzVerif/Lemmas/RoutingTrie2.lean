/-
Routing lemmas, part 2: `update` (stable sort of the dynamic transitions by weight) keeps the
stored rules and well-formedness; what `buildRoot` stores.
-/
import WzVerif.Lemmas.RoutingTrie
namespace Wz.Routing
open State

theorem insertDyn_perm (x : Part × State) (l : List (Part × State)) : (insertDyn x l).Perm (x :: l) := by
  induction l with
  | nil => simp [insertDyn]
  | cons y t ih =>
    simp only [insertDyn]
    split
    · exact (List.Perm.cons y ih).trans (List.Perm.swap x y t)
    · exact List.Perm.refl _

theorem sortDyn_perm (l : List (Part × State)) : (sortDyn l).Perm l := by
  induction l with
  | nil => simp [sortDyn]
  | cons x t ih =>
    simp only [sortDyn]
    exact (insertDyn_perm x (sortDyn t)).trans (List.Perm.cons x ih)

theorem updateS_eq (ss : List (Str × State)) : updateS ss = ss.map (fun e => (e.1, update e.2)) := by
  induction ss with
  | nil => simp [updateS]
  | cons x t ih => obtain ⟨k, s⟩ := x; simp [updateS, ih]

theorem updateD_eq (ds : List (Part × State)) : updateD ds = ds.map (fun e => (e.1, update e.2)) := by
  induction ds with
  | nil => simp [updateD]
  | cons x t ih => obtain ⟨k, s⟩ := x; simp [updateD, ih]

theorem update_node (rs ss ds) :
    update (.node rs ss ds) = .node rs (ss.map (fun e => (e.1, update e.2))) (sortDyn (ds.map (fun e => (e.1, update e.2)))) := by
  simp [update, updateS_eq, updateD_eq]

theorem mem_map_update {κ} {l : List (κ × State)} {k : κ} {s' : State} :
    (k, s') ∈ l.map (fun e => (e.1, update e.2)) ↔ ∃ s, (k, s) ∈ l ∧ s' = update s := by
  simp only [List.mem_map, Prod.mk.injEq, Prod.exists]
  constructor
  · rintro ⟨a, b, hm, rfl, rfl⟩; exact ⟨b, hm, rfl⟩
  · rintro ⟨s, hm, rfl⟩; exact ⟨k, s, hm, rfl, rfl⟩

theorem keys_map_update {κ} (l : List (κ × State)) : (l.map (fun e => (e.1, update e.2))).map (·.1) = l.map (·.1) := by
  simp [List.map_map, Function.comp_def]

theorem inTrie_update (st : State) : ∀ {ps r}, InTrie (update st) ps r ↔ InTrie st ps r := by
  induction st using State.induct with
  | h rs ss ds ihs ihd =>
    intro ps r
    rw [update_node]
    constructor
    · intro hi
      cases hi with
      | here hm => exact .here hm
      | viaStatic hm hi =>
        obtain ⟨s, hm', rfl⟩ := mem_map_update.1 hm
        exact .viaStatic hm' ((ihs _ s hm').1 hi)
      | viaDyn hm hd hi =>
        obtain ⟨s, hm', rfl⟩ := mem_map_update.1 ((sortDyn_perm _).mem_iff.1 hm)
        exact .viaDyn hm' hd ((ihd _ s hm').1 hi)
    · intro hi
      cases hi with
      | here hm => exact .here hm
      | viaStatic hm hi => exact .viaStatic (mem_map_update.2 ⟨_, hm, rfl⟩) ((ihs _ _ hm).2 hi)
      | viaDyn hm hd hi =>
        exact .viaDyn ((sortDyn_perm _).mem_iff.2 (mem_map_update.2 ⟨_, hm, rfl⟩)) hd ((ihd _ _ hm).2 hi)

theorem WF.update (st : State) : WF st → WF (update st) := by
  induction st using State.induct with
  | h rs ss ds ihs ihd =>
    intro h
    cases h with
    | node h1 h2 h3 h4 h5 =>
      rw [update_node]
      refine .node ?_ ?_ ?_ ?_ ?_
      · rw [keys_map_update]; exact h1
      · have := (sortDyn_perm (ds.map (fun e => (e.1, State.update e.2)))).map (·.1)
        rw [keys_map_update] at this
        exact this.nodup_iff.2 h2
      · intro p s hm
        obtain ⟨s0, hm', _⟩ := mem_map_update.1 ((sortDyn_perm _).mem_iff.1 hm)
        exact h3 p s0 hm'
      · intro k s hm
        obtain ⟨s0, hm', rfl⟩ := mem_map_update.1 hm
        exact ihs k s0 hm' (h4 k s0 hm')
      · intro p s hm
        obtain ⟨s0, hm', rfl⟩ := mem_map_update.1 ((sortDyn_perm _).mem_iff.1 hm)
        exact ihd p s0 hm' (h5 p s0 hm')

/-! ### `buildRoot` -/

def addAll (rules : List Rule) (st : State) : State :=
  rules.foldl (fun st r => if r.spec.buildOnly then st else State.add r.parts r st) st

theorem buildRoot_eq (rules : List Rule) : buildRoot rules = (addAll rules State.empty).update := rfl

theorem addAll_spec (rules : List Rule) : ∀ {st : State}, WF st →
    WF (addAll rules st) ∧ ∀ {ps r}, (InTrie (addAll rules st) ps r ↔
      InTrie st ps r ∨ (r ∈ rules ∧ r.spec.buildOnly = false ∧ ps = r.parts)) := by
  induction rules with
  | nil => intro st h; exact ⟨h, by simp [addAll]⟩
  | cons x t ih =>
    intro st h
    simp only [addAll, List.foldl_cons]
    by_cases hb : x.spec.buildOnly = true
    · simp only [hb, if_true]
      have := ih h
      refine ⟨this.1, ?_⟩
      intro ps r
      rw [show List.foldl _ st t = addAll t st from rfl, this.2]
      constructor
      · rintro (h | ⟨hm, hb', hp⟩)
        · exact .inl h
        · exact .inr ⟨List.mem_cons_of_mem _ hm, hb', hp⟩
      · rintro (h | ⟨hm, hb', hp⟩)
        · exact .inl h
        · rcases List.mem_cons.1 hm with rfl | hm
          · rw [hb] at hb'; cases hb'
          · exact .inr ⟨hm, hb', hp⟩
    · have hb : x.spec.buildOnly = false := by simpa using hb
      simp only [hb, Bool.false_eq_true, if_false]
      have := ih (WF.add (ps := x.parts) (r := x) h)
      refine ⟨this.1, ?_⟩
      intro ps r
      rw [show List.foldl _ (State.add x.parts x st) t = addAll t (State.add x.parts x st) from rfl, this.2, inTrie_add h]
      constructor
      · rintro ((h | ⟨rfl, rfl⟩) | ⟨hm, hb', hp⟩)
        · exact .inl h
        · exact .inr ⟨by simp, hb, rfl⟩
        · exact .inr ⟨List.mem_cons_of_mem _ hm, hb', hp⟩
      · rintro (h | ⟨hm, hb', hp⟩)
        · exact .inl (.inl h)
        · rcases List.mem_cons.1 hm with rfl | hm
          · exact .inl (.inr ⟨rfl, hp⟩)
          · exact .inr ⟨hm, hb', hp⟩

/-- the matcher's root stores exactly the non-`build_only` rules, each at its own parts -/
theorem inTrie_buildRoot (rules : List Rule) {ps r} :
    InTrie (buildRoot rules) ps r ↔ (r ∈ rules ∧ r.spec.buildOnly = false ∧ ps = r.parts) := by
  rw [buildRoot_eq, inTrie_update, (addAll_spec rules WF.empty).2]
  constructor
  · rintro (h | h)
    · exact absurd h InTrie.not_empty
    · exact h
  · exact .inr

theorem WF.buildRoot (rules : List Rule) : WF (buildRoot rules) := by
  rw [buildRoot_eq]; exact WF.update _ (addAll_spec rules WF.empty).1

end Wz.Routing
