/-
Routing lemmas, part 17 (C12): the defaults redirect — which rule `get_default_redirect` builds the
target from, and what the matched values look like after re-matching that target.
-/
import WzVerif.Lemmas.RoutingMatchBuild
namespace Wz.Routing

theorem getDefaultRedirect_inv {m : RMap} {a : Adapter} {rule : Rule} {meth : Str} {vals : List (Str × Value)}
    {qa : QueryArgs} {url : Str} : ∀ {l : List Rule},
    getDefaultRedirect m a rule meth vals qa l = .ok (some url) →
    ∃ r0 ∈ l, providesDefaultsFor m.cfg r0 rule = true ∧ r0.suitableFor vals (some meth) = true ∧
      ∃ dom path, r0.build m.cfg (dictUpdate vals r0.defaults) true = .ok (dom, path) ∧
        url = makeRedirectUrl m.cfg.hostMatching a path qa (some dom) := by
  intro l
  induction l with
  | nil => intro h; simp [getDefaultRedirect] at h
  | cons r t ih =>
    intro h
    simp only [getDefaultRedirect] at h
    split at h
    · cases h
    · split at h
      · rename_i hcond
        simp only [Bool.and_eq_true] at hcond
        split at h
        · cases h
        · rename_i dom path hb
          cases h
          exact ⟨r, by simp, hcond.1, hcond.2, dom, path, hb, rfl⟩
      · obtain ⟨r0, hr0, h'⟩ := ih h
        exact ⟨r0, List.mem_cons_of_mem _ hr0, h'⟩

theorem providesDefaultsFor_facts {cfg : MapCfg} {r0 rule : Rule} (h : providesDefaultsFor cfg r0 rule = true) :
    r0.spec.buildOnly = false ∧ r0.defaults ≠ [] ∧ r0.endpoint = rule.endpoint ∧ sameSet r0.arguments rule.arguments = true := by
  simp only [providesDefaultsFor, Bool.and_eq_true, Bool.not_eq_true', beq_iff_eq, bne_iff_ne, ne_eq] at h
  obtain ⟨⟨⟨⟨h1, h2⟩, h3⟩, _⟩, h5⟩ := h
  refine ⟨h1, ?_, h3, h5⟩
  intro he; rw [he] at h2; simp at h2

/-- `suitable_for`: every default of the rule that the values also carry is equal (Python `==`) to it -/
theorem suitableFor_defaults {r : Rule} {values : List (Str × Value)} {mth : Option Str} (h : r.suitableFor values mth = true) :
    ∀ kd ∈ r.defaults, ∀ v, lookupVal kd.1 values = some v → kd.2.pyEq v = true := by
  simp only [Rule.suitableFor, Bool.and_eq_true, List.all_eq_true] at h
  intro kd hkd v hv
  have := h.2 kd hkd
  obtain ⟨k, d⟩ := kd
  simp only [hv] at this
  exact this

/-- after the re-match, a variable without default carries the value the original match had -/
theorem rematch_value_nodefault (r0 : Rule) (vals : List (Str × Value)) (n : Str) (hn : n ∈ varNames r0.pathToks)
    (hd : lookupVal n r0.defaults = none) :
    lookupVal n (dictUpdate (builtPairs r0 (dictUpdate vals r0.defaults) r0.pathToks) r0.defaults) = lookupVal n vals := by
  rw [lookupVal_dictUpdate_notin n r0.defaults _ hd, lookupVal_builtPairs r0 _ n r0.pathToks hn]
  simp only [buildValue, hd]
  exact lookupVal_dictUpdate_notin n r0.defaults vals hd

end Wz.Routing
