/-
Routing lemmas, part 20 (C04): the URL text around the path — what `MapAdapter.build` wraps around
the rule's path (script root, scheme and host for external URLs, the query string) is undone by the
server side `readBuilt` (authority -> adapter, script root stripped, query cut, percent-decoding).
-/
import WzVerif.Lemmas.RoutingMatchBuild
namespace Wz.Routing

theorem takeWhile_append_stop {p : Char → Bool} : ∀ (a : Str) (x : Char) (b : Str), (∀ c ∈ a, p c = true) → p x = false →
    (a ++ x :: b).takeWhile p = a
  | [], x, b, _, hx => by simp [List.takeWhile, hx]
  | c :: t, x, b, ha, hx => by
    have hc := ha c (by simp)
    simp only [List.cons_append, List.takeWhile_cons, hc, if_true]
    rw [takeWhile_append_stop t x b (fun d hd => ha d (List.mem_cons_of_mem _ hd)) hx]

theorem takeWhile_all {p : Char → Bool} : ∀ (a : Str), (∀ c ∈ a, p c = true) → a.takeWhile p = a
  | [], _ => rfl
  | c :: t, ha => by
    have hc := ha c (by simp)
    simp only [List.takeWhile_cons, hc, if_true]
    rw [takeWhile_all t (fun d hd => ha d (List.mem_cons_of_mem _ hd))]

theorem dropWhile_append_stop {p : Char → Bool} : ∀ (a : Str) (x : Char) (b : Str), (∀ c ∈ a, p c = true) → p x = false →
    (a ++ x :: b).dropWhile p = x :: b
  | [], x, b, _, hx => by simp [List.dropWhile, hx]
  | c :: t, x, b, ha, hx => by
    have hc := ha c (by simp)
    simp only [List.cons_append, List.dropWhile_cons, hc, if_true]
    exact dropWhile_append_stop t x b (fun d hd => ha d (List.mem_cons_of_mem _ hd)) hx

theorem dropWhile_all {p : Char → Bool} : ∀ (a : Str), (∀ c ∈ a, p c = true) → a.dropWhile p = []
  | [], _ => rfl
  | c :: t, ha => by
    have hc := ha c (by simp)
    simp only [List.dropWhile_cons, hc, if_true]
    exact dropWhile_all t (fun d hd => ha d (List.mem_cons_of_mem _ hd))

/-- no character that ends the path part of a URL -/
def noCut (s : Str) : Prop := ∀ c ∈ s, c ≠ '?' ∧ c ≠ '#'

theorem cut_query (path q : Str) (h : noCut path) (hq : q = [] ∨ q.head? = some '?') :
    (path ++ q).takeWhile (fun c => c != '?' && c != '#') = path := by
  have hp : ∀ c ∈ path, (c != '?' && c != '#') = true := by
    intro c hc; have := h c hc; simp [this.1, this.2]
  rcases hq with rfl | hq
  · simp [takeWhile_all path hp]
  · cases q with
    | nil => cases hq
    | cons x t =>
      simp only [List.head?_cons, Option.some.injEq] at hq
      subst hq
      exact takeWhile_append_stop path '?' t hp (by decide)

end Wz.Routing

namespace Wz.Routing

theorem utf8Enc_cons_slash (t : Str) : utf8Enc ('/' :: t) = 47 :: utf8Enc t := by
  have : utf8Enc ['/'] = [47] := by decide +kernel
  rw [show ('/' :: t) = ['/'] ++ t from rfl, utf8Enc_append, this]; rfl

/-- a built path `'/' :: t` that decodes to `'/' :: text'`: the part after the slash decodes to `text'` -/
theorem Closed.tail_slash {t text' : Str} (h : Closed ('/' :: t) ('/' :: text')) : Closed t text' := by
  intro rest
  have := h rest
  rw [utf8Enc_cons_slash, utf8Enc_cons_slash, List.cons_append, unquoteBytes_cons_ne _ (by decide), List.cons_append] at this
  injection this

/-- the script root as `MapAdapter` stores it: ends with exactly one '/', starts with '/', contains no
'?' / '#', and is not followed by a second '/' at the front -/
structure ScriptOK (a : Adapter) : Prop where
  rstrip : rstripChar '/' a.scriptName ++ ['/'] = a.scriptName
  dropLast : a.scriptName.dropLast ++ ['/'] = a.scriptName
  head : a.scriptName.head? = some '/'
  second : (a.scriptName.drop 1).head? ≠ some '/' ∨ a.scriptName = ['/']
  nocut : noCut a.scriptName

theorem splitAuthority_relative {s : Str} (h0 : s.head? = some '/') (h1 : (s.drop 1).head? ≠ some '/') :
    splitAuthority s = none := by
  cases s with
  | nil => cases h0
  | cons c t =>
    simp only [List.head?_cons, Option.some.injEq] at h0
    subst h0
    cases t with
    | nil => rfl
    | cons d t' =>
      simp only [List.drop_succ_cons, List.drop_zero, List.head?_cons, ne_eq, Option.some.injEq] at h1
      simp only [splitAuthority]
      split
      · rename_i heq; injection heq with _ h2; injection h2 with h3 _; exact absurd h3 h1
      · rfl
      · rename_i _ hne2; exact absurd rfl (hne2 _)

/-- **reading a relative URL back**: script root, then a path `t` not starting with '/', then the query -/
theorem readBuilt_relative (cfg : MapCfg) (a : Adapter) (hs : ScriptOK a) (t q : Str)
    (ht : noCut t) (hq : q = [] ∨ q.head? = some '?')
    (hfront : a.scriptName ≠ ['/'] ∨ (t ++ q).head? ≠ some '/') :
    readBuilt cfg a (a.scriptName ++ t ++ q) = some (a, '/' :: unquote t) := by
  have hsplit : splitAuthority (a.scriptName ++ t ++ q) = none := by
    apply splitAuthority_relative
    · cases hsn : a.scriptName with
      | nil => have := hs.head; rw [hsn] at this; cases this
      | cons c r => have := hs.head; rw [hsn] at this; simpa using this
    · cases hsn : a.scriptName with
      | nil => have := hs.head; rw [hsn] at this; cases this
      | cons c r =>
        rcases hs.second with h2 | h2
        · rw [hsn] at h2
          cases r with
          | nil =>
            rcases hfront with hf | hf
            · have hc := hs.head; rw [hsn] at hc; simp at hc; subst hc; exact absurd hsn hf
            · simpa using hf
          | cons d r' => simpa using h2
        · rw [hsn] at h2
          injection h2 with _ hr
          subst hr
          rcases hfront with hf | hf
          · have hc := hs.head; rw [hsn] at hc; simp at hc; subst hc; exact absurd hsn hf
          · simpa using hf
  have hcut : (a.scriptName ++ t ++ q).takeWhile (fun c => c != '?' && c != '#') = a.scriptName ++ t := by
    apply cut_query _ _ _ hq
    intro c hc
    rcases List.mem_append.1 hc with hc | hc
    · exact hs.nocut c hc
    · exact ht c hc
  simp only [readBuilt, hsplit, hcut, stripPrefix_append]

end Wz.Routing

namespace Wz.Routing

theorem splitAuthority_scheme {s : Str} (hs : s ∈ ["http".toList, "https".toList, "ws".toList, "wss".toList]) (rest : Str) :
    splitAuthority (s ++ ':' :: '/' :: '/' :: rest) =
      some (rest.takeWhile (· != '/'), rest.dropWhile (· != '/')) := by
  simp only [List.mem_cons, List.mem_nil_iff, or_false] at hs
  rcases hs with rfl | rfl | rfl | rfl <;> simp [splitAuthority, List.dropWhile]

theorem splitAuthority_noscheme (rest : Str) :
    splitAuthority ('/' :: '/' :: rest) = some (rest.takeWhile (· != '/'), rest.dropWhile (· != '/')) := by
  simp [splitAuthority]

/-- host of the adapter a server binds for `get_host(dom)` (no host matching) -/
theorem host_to_adapter (a : Adapter) (dom : Str) (_hserver : a.serverName ≠ []) :
    (let host := getHost false a (some dom)
     if host == a.serverName then (some { a with subdomain := some [] } : Option Adapter)
     else match stripSuffix? ('.' :: a.serverName) host with
       | some sub => some { a with subdomain := some sub }
       | none => none) = some { a with subdomain := some dom } := by
  simp only [getHost, Bool.false_eq_true, if_false]
  cases hd : dom with
  | nil => simp
  | cons c d =>
    have hne : ¬ ((c :: d) ++ '.' :: a.serverName = a.serverName) := by
      intro h
      have := congrArg List.length h
      simp at this
      omega
    simp only [List.isEmpty_cons, Bool.false_eq_true, if_false, beq_iff_eq, hne, stripSuffix_append]

/-- **reading an external URL back**: scheme (or none), `//`, `get_host(dom)`, script root, path, query -/
theorem readBuilt_external (cfg : MapCfg) (hhm : cfg.hostMatching = false) (a : Adapter) (hs : ScriptOK a)
    (hserver : a.serverName ≠ []) (dom : Str) (hhost : ∀ c ∈ getHost false a (some dom), c ≠ '/')
    (sch : Str) (hsch : sch = [] ∨ ∃ s ∈ ["http".toList, "https".toList, "ws".toList, "wss".toList], sch = s ++ [':'])
    (t q : Str) (ht : noCut t) (hq : q = [] ∨ q.head? = some '?') :
    readBuilt cfg a (sch ++ '/' :: '/' :: getHost false a (some dom) ++ a.scriptName ++ t ++ q) =
      some ({ a with subdomain := some dom }, '/' :: unquote t) := by
  obtain ⟨sc, hsc⟩ : ∃ sc, a.scriptName = '/' :: sc := by
    cases hsn : a.scriptName with
    | nil => have := hs.head; rw [hsn] at this; cases this
    | cons c r => have := hs.head; rw [hsn] at this; simp at this; subst this; exact ⟨r, rfl⟩
  have hp : ∀ c ∈ getHost false a (some dom), (c != '/') = true := by
    intro c hc; simpa using hhost c hc
  have hsplit : splitAuthority (sch ++ '/' :: '/' :: getHost false a (some dom) ++ a.scriptName ++ t ++ q) =
      some (getHost false a (some dom), a.scriptName ++ t ++ q) := by
    have hrest : (getHost false a (some dom) ++ a.scriptName ++ t ++ q) =
        getHost false a (some dom) ++ '/' :: (sc ++ t ++ q) := by rw [hsc]; simp
    rcases hsch with rfl | ⟨s, hs', rfl⟩
    · simp only [List.nil_append]
      rw [show ('/' :: '/' :: getHost false a (some dom) ++ a.scriptName ++ t ++ q) =
            '/' :: '/' :: (getHost false a (some dom) ++ a.scriptName ++ t ++ q) by simp,
        splitAuthority_noscheme, hrest, takeWhile_append_stop _ _ _ hp (by decide),
        dropWhile_append_stop _ _ _ hp (by decide)]
      simp [hsc]
    · rw [show (s ++ [':'] ++ '/' :: '/' :: getHost false a (some dom) ++ a.scriptName ++ t ++ q) =
            s ++ ':' :: '/' :: '/' :: (getHost false a (some dom) ++ a.scriptName ++ t ++ q) by simp,
        splitAuthority_scheme hs', hrest, takeWhile_append_stop _ _ _ hp (by decide),
        dropWhile_append_stop _ _ _ hp (by decide)]
      simp [hsc]
  have hcut : (a.scriptName ++ t ++ q).takeWhile (fun c => c != '?' && c != '#') = a.scriptName ++ t := by
    apply cut_query _ _ _ hq
    intro c hc
    rcases List.mem_append.1 hc with hc | hc
    · exact hs.nocut c hc
    · exact ht c hc
  have hadapt := host_to_adapter a dom hserver
  simp only at hadapt
  simp only [readBuilt, hsplit, hhm, Bool.false_eq_true, if_false]
  split at hadapt
  · rename_i heq
    simp only [heq, if_true]
    injection hadapt with hadapt
    rw [hadapt, hcut, stripPrefix_append]
  · rename_i hne
    simp only [hne, Bool.false_eq_true, if_false]
    split at hadapt
    · rename_i sub hsub
      simp only [hsub]
      injection hadapt with hadapt
      rw [hadapt, hcut, stripPrefix_append]
    · cases hadapt

end Wz.Routing

namespace Wz.Routing

theorem lstripChar_of_head {c : Char} {s : Str} (h : s.head? ≠ some c) : lstripChar c s = s := by
  cases s with
  | nil => rfl
  | cons x t =>
    have hx : ¬ (x == c) = true := by
      intro hx; apply h; simp at hx; simp [hx]
    simp [lstripChar, List.dropWhile_cons, hx]

/-- **what `MapAdapter.build` returns reads back to the path it was built from**: whichever form `build`
chooses — relative (`script_root + path`) or external (`[scheme:]//host + script_root + path`), with or
without a query string — the server side recovers the adapter for the rule's domain part and the
percent-decoded path. -/
theorem readBuilt_adapterBuild {cfg : MapCfg} (hhm : cfg.hostMatching = false) {a : Adapter} (hs : ScriptOK a)
    (hserver : a.serverName ≠ []) {rules : List Rule} {ep : Str} {values : List (Str × Value)} {method : Option Str}
    {fe au : Bool} {dom : Str} {w : Bool} {t q : Str}
    (hp : partialBuild cfg a rules ep values method au = .ok (some (dom, '/' :: t ++ q, w)))
    (hhost : ∀ c ∈ getHost false a (some dom), c ≠ '/')
    (ht : noCut t) (hthead : t.head? ≠ some '/') (hq : q = [] ∨ q.head? = some '?') :
    ∃ url, adapterBuild cfg a rules ep values method fe au = .ok url ∧
      readBuilt cfg a url = some ({ a with subdomain := some dom }, '/' :: unquote t) := by
  have htq : (t ++ q).head? ≠ some '/' := by
    cases t with
    | nil =>
      rcases hq with rfl | hq
      · simp
      · simp only [List.nil_append, hq]; simp
    | cons x r => simpa using hthead
  have hl : lstripChar '/' ('/' :: t ++ q) = t ++ q := by
    have : lstripChar '/' ('/' :: t ++ q) = lstripChar '/' (t ++ q) := by simp [lstripChar, List.dropWhile_cons]
    rw [this, lstripChar_of_head htq]
  simp only [adapterBuild, hp, hhm, Bool.false_eq_true, Bool.false_and, Bool.false_or, Bool.not_false, Bool.true_and, hl]
  split
  · -- relative form
    rename_i hrel
    simp only [Bool.and_eq_true, beq_iff_eq, Bool.not_eq_true', Bool.or_eq_false_iff] at hrel
    refine ⟨_, rfl, ?_⟩
    have hsub : ({ a with subdomain := some dom } : Adapter) = a := by
      cases a; simp only at hrel ⊢; rw [hrel.2]
    have e : rstripChar '/' a.scriptName ++ '/' :: (t ++ q) = a.scriptName ++ t ++ q := by
      calc rstripChar '/' a.scriptName ++ '/' :: (t ++ q)
          = (rstripChar '/' a.scriptName ++ ['/']) ++ (t ++ q) := by simp
        _ = a.scriptName ++ t ++ q := by rw [hs.rstrip, List.append_assoc]
    rw [e, hsub]
    apply readBuilt_relative cfg a hs t q ht hq
    exact .inr htq
  · -- external form
    refine ⟨_, rfl, ?_⟩
    have hsch : ∀ (scheme : Str), (scheme = [] ∨ scheme ∈ ["http".toList, "https".toList, "ws".toList, "wss".toList]) →
        ((if scheme.isEmpty then [] else scheme ++ [':']) = [] ∨
         ∃ s ∈ ["http".toList, "https".toList, "ws".toList, "wss".toList], (if scheme.isEmpty then [] else scheme ++ [':']) = s ++ [':']) := by
      intro scheme h
      rcases h with rfl | h
      · left; rfl
      · right
        refine ⟨scheme, h, ?_⟩
        have : scheme.isEmpty = false := by
          simp only [List.mem_cons, List.mem_nil_iff, or_false] at h
          rcases h with rfl | rfl | rfl | rfl <;> rfl
        simp [this]
    have hscheme : ((if w = true then (if (a.urlScheme == "https".toList || a.urlScheme == "wss".toList) = true then "wss".toList else "ws".toList)
          else if (!a.urlScheme.isEmpty) = true then (if (a.urlScheme == "https".toList || a.urlScheme == "wss".toList) = true then "https".toList else "http".toList)
          else []) = [] ∨
        (if w = true then (if (a.urlScheme == "https".toList || a.urlScheme == "wss".toList) = true then "wss".toList else "ws".toList)
          else if (!a.urlScheme.isEmpty) = true then (if (a.urlScheme == "https".toList || a.urlScheme == "wss".toList) = true then "https".toList else "http".toList)
          else []) ∈ ["http".toList, "https".toList, "ws".toList, "wss".toList]) := by
      cases w <;> cases (a.urlScheme == "https".toList || a.urlScheme == "wss".toList) <;> cases a.urlScheme.isEmpty <;> simp
    have := readBuilt_external cfg hhm a hs hserver dom hhost _ (hsch _ hscheme) t q ht hq
    have e : ∀ (P : Str), P ++ a.scriptName.dropLast ++ '/' :: (t ++ q) = P ++ a.scriptName ++ t ++ q := by
      intro P
      calc P ++ a.scriptName.dropLast ++ '/' :: (t ++ q)
          = P ++ (a.scriptName.dropLast ++ ['/']) ++ (t ++ q) := by simp
        _ = P ++ a.scriptName ++ t ++ q := by rw [hs.dropLast]; simp
    rw [e]
    exact this

end Wz.Routing

namespace Wz.Routing

theorem noCut_append {a b : Str} (ha : noCut a) (hb : noCut b) : noCut (a ++ b) := by
  intro c hc
  rcases List.mem_append.1 hc with h | h
  · exact ha c h
  · exact hb c h

theorem noCut_quote (s : Str) : noCut (quote pathSafe s) := by
  intro c hc
  have := quote_pathSafe_chars s c hc
  simp only [pathChar, Bool.and_eq_true, bne_iff_ne, ne_eq, decide_eq_true_eq] at this
  exact ⟨this.1.1.1.1.1.2, this.1.1.1.1.2⟩

/-- every variable's `to_url` output is free of '?' and '#' (quoted text is; numbers and UUIDs are) -/
def UrlsNoCut (r : Rule) (values : List (Str × Value)) : List Tok → Prop
  | [] => True
  | .var _ n :: t =>
    (∀ c v s, lookupConv n r.convs = some c → buildValue r values n = some v → toUrl c v = .ok s → noCut s) ∧
    UrlsNoCut r values t
  | _ :: t => UrlsNoCut r values t

theorem buildSide_noCut (r : Rule) (values : List (Str × Value)) : ∀ (toks : List Tok) {u : Str},
    buildSide r values (traceToks toks) = .ok u → UrlsNoCut r values toks → noCut u := by
  intro toks
  induction toks with
  | nil =>
    intro u h _
    simp only [traceToks, buildSide, Except.ok.injEq] at h
    subst h; intro c hc; cases hc
  | cons t toks ih =>
    intro u h hc
    cases t with
    | slash =>
      simp only [traceToks, buildSide, bind, Except.bind] at h
      split at h
      · cases h
      · rename_i rest hrest
        simp only [pure, Except.pure, Except.ok.injEq] at h
        subst h
        exact noCut_append (noCut_quote _) (ih hrest hc)
    | lit s =>
      simp only [traceToks, buildSide, bind, Except.bind] at h
      split at h
      · cases h
      · rename_i rest hrest
        simp only [pure, Except.pure, Except.ok.injEq] at h
        subst h
        exact noCut_append (noCut_quote _) (ih hrest hc)
    | var c n =>
      simp only [UrlsNoCut] at hc
      simp only [traceToks, buildSide] at h
      cases hlc : lookupConv n r.convs with
      | none => simp [hlc, throw, throwThe, MonadExceptOf.throw, bind, Except.bind] at h
      | some c' =>
        simp only [hlc, pure_bind] at h
        have tail : ∀ v, buildValue r values n = some v →
            (toUrl c' v >>= fun s => buildSide r values (traceToks toks) >>= fun rest => pure (s ++ rest)) = (Except.ok u : Except String Str) →
            noCut u := by
          intro v hbv h
          cases hu : toUrl c' v with
          | error e => simp [hu, bind, Except.bind] at h
          | ok s =>
            cases hrest : buildSide r values (traceToks toks) with
            | error e => simp [hu, hrest, bind, Except.bind] at h
            | ok rest =>
              simp only [hu, hrest, bind, Except.bind, pure, Except.pure, Except.ok.injEq] at h
              subst h
              exact noCut_append (hc.1 c' v s hlc hbv hu) (ih hrest hc.2)
        cases hd : lookupVal n r.defaults with
        | some d =>
          simp only [hd] at h
          exact tail d (by simp [buildValue, hd]) h
        | none =>
          simp only [hd] at h
          cases hvv : lookupVal n values with
          | none => simp [hvv, throw, throwThe, MonadExceptOf.throw, bind, Except.bind] at h
          | some v =>
            simp only [hvv] at h
            exact tail v (by simp [buildValue, hd, hvv]) h

/-- the path a rule builds starts with the slash every rule string starts with -/
theorem buildSide_slash {r : Rule} {values : List (Str × Value)} {toks : List Tok} {u : Str}
    (h : buildSide r values (traceToks (.slash :: toks)) = .ok u) : ∃ t, u = '/' :: t := by
  simp only [traceToks, buildSide, bind, Except.bind] at h
  split at h
  · cases h
  · rename_i rest _
    simp only [pure, Except.pure, Except.ok.injEq] at h
    have hq : quote pathSafe ['/'] = ['/'] := by decide +kernel
    rw [hq] at h
    exact ⟨rest, h.symm⟩

end Wz.Routing
