/-
Helper lemmas for C18: the frame invariant of a copy-on-write call, lifted to event traces.
Core Lean only.
-/
import WzVerif.Model.Local
namespace Wz.Local
open Wz.Gen.LocalOps

/-- every reference held by a context points below the allocation counter -/
def WF (w : World) : Prop := ∀ c v id, w.ctxs c v = some id → id < w.next

theorem wf_init : WF World.init := by intro c v id h; simp [World.init] at h

/-- what a call in context `c` on var `v`, started in `w0`, may have done to the world -/
structure WorldInv (w0 : World) (c v : Nat) (w : World) : Prop where
  heapOld : ∀ i, i < w0.next → w.heap i = w0.heap i
  ctxOther : ∀ c' v', ¬(c' = c ∧ v' = v) → w.ctxs c' v' = w0.ctxs c' v'
  nextLe : w0.next ≤ w.next
  nctxEq : w.nctx = w0.nctx
  wf : WF w

/-- ... plus the registers: all below the counter, owned ones allocated in this call -/
structure FrameInv (w0 : World) (c v : Nat) (o : List Reg) (f : Frame) : Prop
    extends WorldInv w0 c v f.w where
  regsLt : ∀ r id, f.rg r = some id → id < f.w.next
  ownedNew : ∀ r, r ∈ o → ∃ id, f.rg r = some id ∧ w0.next ≤ id

theorem WorldInv.refl {w0 : World} (h : WF w0) (c v : Nat) : WorldInv w0 c v w0 :=
  ⟨fun _ _ => rfl, fun _ _ _ => rfl, Nat.le_refl _, rfl, h⟩

theorem wf_alloc {w : World} (h : WF w) (ob : Obj) : WF (alloc w ob) := by
  intro c v id hid
  have := h c v id hid
  simp [alloc]; omega

theorem worldInv_alloc {w0 w : World} {c v : Nat} (h : WorldInv w0 c v w) (ob : Obj) :
    WorldInv w0 c v (alloc w ob) := by
  refine ⟨?_, h.ctxOther, ?_, h.nctxEq, wf_alloc h.wf ob⟩
  · intro i hi
    have := h.nextLe
    have hne : i ≠ w.next := by omega
    simp [alloc, hne, h.heapOld i hi]
  · have := h.nextLe; simp [alloc]; omega

theorem worldInv_mutate {w0 w : World} {c v : Nat} (h : WorldInv w0 c v w) {id : Nat}
    (hid : w0.next ≤ id) (g : Obj → Obj) : WorldInv w0 c v (mutate w id g) := by
  refine ⟨?_, h.ctxOther, h.nextLe, h.nctxEq, h.wf⟩
  intro i hi
  have hne : i ≠ id := by omega
  simp [mutate, hne, h.heapOld i hi]

theorem worldInv_bindVar {w0 w : World} {c v : Nat} (h : WorldInv w0 c v w) {id : Nat}
    (hid : id < w.next) : WorldInv w0 c v (bindVar w c v id) := by
  refine ⟨h.heapOld, ?_, h.nextLe, h.nctxEq, ?_⟩
  · intro c' v' hne
    simp [bindVar, hne, h.ctxOther c' v' hne]
  · intro c' v' id' hid'
    simp only [bindVar] at hid'
    split at hid'
    · cases hid'; exact hid
    · exact h.wf c' v' id' hid'

/-- assigning a freshly allocated object to `d` -/
theorem frameInv_assign_new {w0 : World} {c v : Nat} {o : List Reg} {f : Frame}
    (h : FrameInv w0 c v o f) (d : Reg) (ob : Obj) :
    FrameInv w0 c v (d :: o) { f with w := alloc f.w ob, rg := setReg f.rg d f.w.next } := by
  refine ⟨worldInv_alloc h.toWorldInv ob, ?_, ?_⟩
  · intro r id hr
    simp only [setReg] at hr
    split at hr
    · cases hr; simp [alloc]
    · have := h.regsLt r id hr; simp [alloc]; omega
  · intro r hr
    by_cases hrd : r = d
    · subst hrd
      exact ⟨f.w.next, by simp [setReg], h.nextLe⟩
    · have hr' : r ∈ o := by
        rcases List.mem_cons.mp hr with e | e
        · exact absurd e hrd
        · exact e
      obtain ⟨id, h1, h2⟩ := h.ownedNew r hr'
      exact ⟨id, by simp [setReg, hrd, h1], h2⟩

/-- the conclusion of one step -/
def StepInv (w0 : World) (c v : Nat) (o : List Reg) : Step → Prop
  | .cont f => FrameInv w0 c v o f
  | .ret w _ => WorldInv w0 c v w
  | .skip => True

theorem frameInv_same_world {w0 : World} {c v : Nat} {o : List Reg} {f : Frame}
    (h : FrameInv w0 c v o f) (acc : Option Nat) : FrameInv w0 c v o { f with acc := acc } :=
  ⟨h.toWorldInv, h.regsLt, h.ownedNew⟩

theorem stepOp_inv {w0 : World} {c v : Nat} (a : Args) {o : List Reg} {f : Frame}
    (h : FrameInv w0 c v o f) (op : Op) (hok : opOk o op = true) :
    StepInv w0 c v (ownedAfter o op) (stepOp c v a f op) := by
  cases op with
  | load d isList =>
    simp only [stepOp, ownedAfter]
    split
    · rename_i id hid
      refine ⟨h.toWorldInv, ?_, ?_⟩
      · intro r id' hr
        simp only [setReg] at hr
        split at hr
        · cases hr; exact h.wf c v id hid
        · exact h.regsLt r id' hr
      · intro r hr
        have hr' := List.mem_filter.mp hr
        have hne : r ≠ d := by simpa using hr'.2
        obtain ⟨id', h1, h2⟩ := h.ownedNew r hr'.1
        exact ⟨id', by simp [setReg, hne, h1], h2⟩
    · have := frameInv_assign_new h d (Obj.empty isList)
      refine ⟨this.toWorldInv, this.regsLt, ?_⟩
      intro r hr
      have hr' := List.mem_filter.mp hr
      exact this.ownedNew r (List.mem_cons_of_mem _ hr'.1)
  | copy d s =>
    simp only [stepOp, ownedAfter]
    split
    · exact frameInv_assign_new h d _
    · exact h.toWorldInv
  | fresh d isList => exact frameInv_assign_new h d _
  | sliceInit d s =>
    simp only [stepOp, ownedAfter]
    split
    · split
      · exact frameInv_assign_new h d _
      · exact h.toWorldInv
    · exact h.toWorldInv
  | setItem r =>
    simp only [stepOp, ownedAfter]
    have hr : r ∈ o := by simpa [opOk] using hok
    obtain ⟨id, h1, h2⟩ := h.ownedNew r hr
    rw [h1]
    refine ⟨?_, h.regsLt, h.ownedNew⟩
    dsimp only
    apply worldInv_mutate h.toWorldInv h2
  | delItem r =>
    simp only [stepOp, ownedAfter]
    have hr : r ∈ o := by simpa [opOk] using hok
    obtain ⟨id, h1, h2⟩ := h.ownedNew r hr
    rw [h1]
    refine ⟨?_, h.regsLt, h.ownedNew⟩
    dsimp only
    apply worldInv_mutate h.toWorldInv h2
  | append r =>
    simp only [stepOp, ownedAfter]
    have hr : r ∈ o := by simpa [opOk] using hok
    obtain ⟨id, h1, h2⟩ := h.ownedNew r hr
    rw [h1]
    refine ⟨?_, h.regsLt, h.ownedNew⟩
    dsimp only
    apply worldInv_mutate h.toWorldInv h2
  | store r =>
    simp only [stepOp, ownedAfter]
    split
    · rename_i id hid
      exact ⟨worldInv_bindVar h.toWorldInv (h.regsLt r id hid), h.regsLt, h.ownedNew⟩
    · exact h.toWorldInv
  | assumeContains r b =>
    simp only [stepOp, ownedAfter]
    split
    · split
      · exact h
      · trivial
    · exact h.toWorldInv
  | assumeEmpty r b =>
    simp only [stepOp, ownedAfter]
    split
    · split
      · exact h
      · trivial
    · exact h.toWorldInv
  | peekLast r =>
    simp only [stepOp, ownedAfter]
    split
    · split
      · exact frameInv_same_world h _
      · exact h.toWorldInv
    · exact h.toWorldInv
  | retAcc => exact h.toWorldInv
  | retNone => exact h.toWorldInv
  | retItem r =>
    simp only [stepOp]
    split
    · split <;> exact h.toWorldInv
    · exact h.toWorldInv
  | retItems r =>
    simp only [stepOp]
    split
    · split <;> exact h.toWorldInv
    · exact h.toWorldInv
  | retLast r =>
    simp only [stepOp]
    split
    · split <;> exact h.toWorldInv
    · exact h.toWorldInv
  | retReg r =>
    simp only [stepOp]
    split
    · split <;> exact h.toWorldInv
    · exact h.toWorldInv
  | raiseAttr => exact h.toWorldInv

theorem runPath_inv {w0 : World} {c v : Nat} (a : Args) :
    ∀ (p : Path) {o : List Reg} {f : Frame}, FrameInv w0 c v o f → cbwPath o p = true →
      ∀ {w : World} {r : Res}, runPath c v a f p = some (w, r) → WorldInv w0 c v w
  | [], _, f, h, _, w, r, hr => by
    simp [runPath] at hr
    rw [← hr.1]; exact h.toWorldInv
  | op :: t, o, f, h, hc, w, r, hr => by
    simp only [cbwPath, Bool.and_eq_true] at hc
    have hs := stepOp_inv a h op hc.1
    simp only [runPath] at hr
    cases hstep : stepOp c v a f op with
    | cont f' =>
      rw [hstep] at hs hr
      exact runPath_inv a t hs hc.2 hr
    | ret w' r' =>
      rw [hstep] at hs hr
      simp at hr
      rw [← hr.1]; exact hs
    | skip =>
      rw [hstep] at hr
      cases hr

theorem runProg_inv {w0 : World} (hw : WF w0) (c v : Nat) (a : Args) :
    ∀ (p : Prog), cbwProg p = true → WorldInv w0 c v (runProg w0 c v a p).1
  | [], _ => WorldInv.refl hw c v
  | path :: rest, hc => by
    simp only [cbwProg, List.all_cons, Bool.and_eq_true] at hc
    simp only [runProg]
    cases hp : runPath c v a { w := w0, rg := fun _ => none } path with
    | some r =>
      obtain ⟨w, res⟩ := r
      have hf : FrameInv w0 c v [] { w := w0, rg := fun _ => none } :=
        ⟨WorldInv.refl hw c v, (by intro r id h; cases h), (by intro r hr; cases hr)⟩
      exact runPath_inv a path hf hc.1 hp
    | none => exact runProg_inv hw c v a rest hc.2

/-- what the invariant means for observers -/
theorem obs_of_worldInv {w0 w : World} {c v : Nat} (h : WorldInv w0 c v w) (hw : WF w0)
    {c' v' : Nat} (hne : ¬(c' = c ∧ v' = v)) : obs w c' v' = obs w0 c' v' := by
  unfold obs
  rw [h.ctxOther c' v' hne]
  cases hid : w0.ctxs c' v' with
  | none => rfl
  | some id => simp [h.heapOld id (hw c' v' id hid)]

/-! ### events and traces -/

/-- does event `e` run in context `c'` on var `v'`? -/
def Event.touches (e : Event) (c' v' : Nat) : Prop :=
  match e with
  | .call c v _ _ => c = c' ∧ v = v'
  | _ => False

theorem stepEvent_inv {w : World} (hw : WF w) (e : Event) (he : e.cbw) :
    WF (stepEvent w e) ∧ w.nctx ≤ (stepEvent w e).nctx ∧
    ∀ c' v', c' < w.nctx → ¬ e.touches c' v' → obs (stepEvent w e) c' v' = obs w c' v' := by
  cases e with
  | call c v p a =>
    simp only [stepEvent]
    split
    · have hinv := runProg_inv hw c v a p he
      refine ⟨hinv.wf, by rw [hinv.nctxEq]; exact Nat.le_refl _, ?_⟩
      intro c' v' _ hnt
      apply obs_of_worldInv hinv hw
      intro h; exact hnt ⟨h.1.symm, h.2.symm⟩
    · exact ⟨hw, Nat.le_refl _, fun _ _ _ _ => rfl⟩
  | copyCtx parent =>
    refine ⟨?_, by simp [stepEvent], ?_⟩
    · intro c v id hid
      simp only [stepEvent] at hid ⊢
      split at hid
      · split at hid
        · exact hw parent v id hid
        · cases hid
      · exact hw c v id hid
    · intro c' v' hc' _
      have : c' ≠ w.nctx := by omega
      simp [stepEvent, obs, this]
  | freshCtx =>
    refine ⟨?_, by simp [stepEvent], ?_⟩
    · intro c v id hid
      simp only [stepEvent] at hid ⊢
      split at hid
      · cases hid
      · exact hw c v id hid
    · intro c' v' hc' _
      have : c' ≠ w.nctx := by omega
      simp [stepEvent, obs, this]

theorem run_inv {w : World} (hw : WF w) :
    ∀ (es : List Event), (∀ e ∈ es, e.cbw) →
    WF (run w es) ∧ w.nctx ≤ (run w es).nctx ∧
    ∀ c' v', c' < w.nctx → (∀ e ∈ es, ¬ e.touches c' v') → obs (run w es) c' v' = obs w c' v' := by
  intro es
  induction es generalizing w with
  | nil => intro _; exact ⟨hw, Nat.le_refl _, fun _ _ _ _ => rfl⟩
  | cons e t ih =>
    intro hc
    obtain ⟨h1, h2, h3⟩ := stepEvent_inv hw e (hc e (by simp))
    obtain ⟨g1, g2, g3⟩ := ih h1 (fun x hx => hc x (List.mem_cons_of_mem _ hx))
    simp only [run, List.foldl_cons] at g1 g2 g3 ⊢
    refine ⟨g1, Nat.le_trans h2 g2, ?_⟩
    intro c' v' hc' hnt
    rw [g3 c' v' (by omega) (fun x hx => hnt x (List.mem_cons_of_mem _ hx))]
    exact h3 c' v' hc' (hnt e (by simp))

/-! ### the generated method bodies refine a per-context immutable reference -/

set_option linter.unusedSimpArgs false

def kvOf : Option Obj → List (Nat × Nat)
  | some (.dict kv) => kv
  | _ => []

def xsOf : Option Obj → List Nat
  | some (.list xs) => xs
  | _ => []

/-- the methods whose bodies are translated -/
inductive Method where
  | setattr | delattr | getattr | iter | release | push | pop | top | srelease
deriving DecidableEq, Repr

def Method.prog : Method → Prog
  | .setattr => localSetattr
  | .delattr => localDelattr
  | .getattr => localGetattr
  | .iter => localIter
  | .release => localRelease
  | .push => stackPush
  | .pop => stackPop
  | .top => stackTop
  | .srelease => stackRelease

def Method.onStack : Method → Bool
  | .push | .pop | .top | .srelease => true
  | _ => false

/-- the reference semantics: a pure function on the immutable payload one context sees -/
def refCall (m : Method) (a : Args) (o : Option Obj) : Option Obj × Res :=
  match m with
  | .setattr => (some (.dict (dictSet (kvOf o) a.key a.val)), .none)
  | .delattr =>
    match dictGet (kvOf o) a.key with
    | some _ => (some (.dict (dictDel (kvOf o) a.key)), .none)
    | none => (o, .attrError)
  | .getattr => (o, match dictGet (kvOf o) a.key with | some x => .val x | none => .attrError)
  | .iter => (o, .items (kvOf o))
  | .release => (some (.dict []), .none)
  | .push => (some (.list (xsOf o ++ [a.val])), .list (xsOf o ++ [a.val]))
  | .pop =>
    match (xsOf o).getLast? with
    | some x => (some (.list (xsOf o).dropLast), .val x)
    | none => (o, .none)
  | .top => (o, match (xsOf o).getLast? with | some x => .val x | none => .none)
  | .srelease => (some (.list []), .none)

/-- the payload has the kind the method expects (a `Local` holds a dict, a `LocalStack` a list) -/
def Typed (m : Method) (o : Option Obj) : Prop :=
  o = none ∨ (if m.onStack then ∃ xs, o = some (.list xs) else ∃ kv, o = some (.dict kv))

theorem refine_call (w : World) (c v : Nat) (a : Args) (m : Method) (ht : Typed m (obs w c v)) :
    obs (runProg w c v a m.prog).1 c v = (refCall m a (obs w c v)).1 ∧
    (runProg w c v a m.prog).2 = (refCall m a (obs w c v)).2 := by
  unfold obs at *
  cases h : w.ctxs c v with
  | none =>
    cases m <;>
    simp [Method.prog, refCall, localSetattr, localDelattr, localGetattr, localIter, localRelease,
      stackPush, stackPop, stackTop, stackRelease, runProg, runPath, stepOp, h, alloc, mutate,
      bindVar, setReg, kvOf, xsOf, Obj.empty, objContains, objEmpty, dictGet]
  | some id =>
    rw [h] at ht
    cases ho : w.heap id with
    | dict kv =>
      cases m <;> try (exfalso; simp [Typed, Method.onStack, ho] at ht; done)
      · simp [Method.prog, refCall, localSetattr, runProg, runPath, stepOp, h, ho, alloc, mutate,
          bindVar, setReg, kvOf]
      · cases hg : dictGet kv a.key <;>
        simp [Method.prog, refCall, localDelattr, runProg, runPath, stepOp, h, ho, hg, alloc, mutate,
          bindVar, setReg, kvOf, objContains]
      · cases hg : dictGet kv a.key <;>
        simp [Method.prog, refCall, localGetattr, runProg, runPath, stepOp, h, ho, hg, alloc, mutate,
          bindVar, setReg, kvOf, objContains]
      · simp [Method.prog, refCall, localIter, runProg, runPath, stepOp, h, ho, setReg, kvOf]
      · simp [Method.prog, refCall, localRelease, runProg, runPath, stepOp, h, ho, alloc, bindVar,
          setReg, Obj.empty]
    | list xs =>
      cases m <;> try (exfalso; simp [Typed, Method.onStack, ho] at ht; done)
      · simp [Method.prog, refCall, stackPush, runProg, runPath, stepOp, h, ho, alloc, mutate,
          bindVar, setReg, xsOf]
      · cases hx : xs.getLast? with
        | none =>
          have : xs = [] := List.getLast?_eq_none_iff.mp hx
          simp [Method.prog, refCall, stackPop, runProg, runPath, stepOp, h, ho, this, setReg, xsOf,
            objEmpty]
        | some x =>
          have hne : xs ≠ [] := by intro e; simp [e] at hx
          have hemp : xs.isEmpty = false := by cases xs <;> simp_all
          simp [Method.prog, refCall, stackPop, runProg, runPath, stepOp, h, ho, hx, hemp, alloc,
            bindVar, setReg, xsOf, objEmpty]
      · cases hx : xs.getLast? with
        | none =>
          have : xs = [] := List.getLast?_eq_none_iff.mp hx
          simp [Method.prog, refCall, stackTop, runProg, runPath, stepOp, h, ho, this, setReg, xsOf,
            objEmpty]
        | some x =>
          have hemp : xs.isEmpty = false := by cases xs <;> simp_all
          simp [Method.prog, refCall, stackTop, runProg, runPath, stepOp, h, ho, hx, hemp,
            setReg, xsOf, objEmpty]
      · simp [Method.prog, refCall, stackRelease, runProg, runPath, stepOp, h, ho, alloc, bindVar,
          setReg, Obj.empty]

/-! ### proxies -/

theorem resolve_attr_eq (w : World) (c v k : Nat) :
    resolve w c (.attr v k) = match obs w c v with | some (.dict kv) => dictGet kv k | _ => none := by
  unfold obs
  cases h : w.ctxs c v with
  | none =>
    simp [resolve, localGetattr, runProg, runPath, stepOp, h, alloc, setReg, Obj.empty, objContains, dictGet]
  | some id =>
    cases ho : w.heap id with
    | dict kv =>
      cases hg : dictGet kv k <;>
      simp [resolve, localGetattr, runProg, runPath, stepOp, h, ho, hg, setReg, objContains]
    | list xs =>
      by_cases hx : k ∈ xs
      · simp [resolve, localGetattr, runProg, runPath, stepOp, h, ho, hx, setReg, objContains]
      · simp [resolve, localGetattr, runProg, runPath, stepOp, h, ho, hx, setReg, objContains]

theorem resolve_top_eq (w : World) (c v : Nat) :
    resolve w c (.top v) = match obs w c v with | some (.list xs) => xs.getLast? | _ => none := by
  unfold obs
  cases h : w.ctxs c v with
  | none =>
    simp [resolve, stackTop, runProg, runPath, stepOp, h, alloc, setReg, Obj.empty, objEmpty]
  | some id =>
    cases ho : w.heap id with
    | list xs =>
      cases hx : xs.getLast? with
      | none =>
        have : xs = [] := List.getLast?_eq_none_iff.mp hx
        simp [resolve, stackTop, runProg, runPath, stepOp, h, ho, this, setReg, objEmpty]
      | some x =>
        have hemp : xs.isEmpty = false := by cases xs <;> simp_all
        simp [resolve, stackTop, runProg, runPath, stepOp, h, ho, hx, hemp, setReg, objEmpty]
    | dict kv =>
      cases kv with
      | nil => simp [resolve, stackTop, runProg, runPath, stepOp, h, ho, setReg, objEmpty]
      | cons x t => simp [resolve, stackTop, runProg, runPath, stepOp, h, ho, setReg, objEmpty]

/-- the var a proxy reads -/
def Proxy.var : Proxy → Nat
  | .attr v _ => v
  | .top v => v

theorem resolve_congr {w w' : World} {c : Nat} (p : Proxy) (h : obs w' c p.var = obs w c p.var) :
    resolve w' c p = resolve w c p := by
  cases p with
  | attr v k => simp only [Proxy.var] at h; rw [resolve_attr_eq, resolve_attr_eq, h]
  | top v => simp only [Proxy.var] at h; rw [resolve_top_eq, resolve_top_eq, h]

end Wz.Local
