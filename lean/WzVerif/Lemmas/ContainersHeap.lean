/-
Lemmas for the heap model of MultiDict: the heap-level mutators simulate the functional model, only
touch list objects the dict owns (or fresh ones), and therefore leave every separated object alone.
-/
import WzVerif.Model.ContainersHeap
import WzVerif.Lemmas.Containers
namespace Wz.HeapMD
open Wz PyDict

set_option linter.unusedSectionVars false
variable {κ ν : Type} [DecidableEq κ]

theorem mem_set_gen {α : Type} {d : Dict κ α} {k : κ} {x : α} {e : κ × α} (h : e ∈ PyDict.set d k x) :
    e ∈ d ∨ e = (k, x) := by
  induction d with
  | nil => simp [PyDict.set] at h; exact Or.inr h
  | cons a t ih =>
    obtain ⟨ak, av⟩ := a
    simp only [PyDict.set] at h
    by_cases hk : ak = k
    · simp only [hk, if_true, List.mem_cons] at h
      rcases h with h | h
      · right; rw [h]
      · left; exact List.mem_cons_of_mem _ h
    · simp only [hk, if_false, List.mem_cons] at h
      rcases h with h | h
      · left; rw [h]; exact List.mem_cons_self
      · rcases ih h with h' | h'
        · left; exact List.mem_cons_of_mem _ h'
        · right; exact h'

/-- distinct keys, distinct list objects, all addresses allocated -/
def WF (h : Heap ν) (o : Obj κ) : Prop :=
  NodupKeys o ∧ (addrs o).Nodup ∧ ∀ a ∈ addrs o, a < h.length

/-- what a step on object `o` may do to the heap: it grows, list objects that `o` does not own keep
their content, and the object afterwards owns old objects of `o` or fresh ones -/
def Good (h : Heap ν) (o : Obj κ) (h' : Heap ν) (o' : Obj κ) : Prop :=
  h.length ≤ h'.length ∧ (∀ a, a < h.length → a ∉ addrs o → cell h' a = cell h a) ∧
  (∀ a ∈ addrs o', a ∈ addrs o ∨ h.length ≤ a)

theorem good_refl (h : Heap ν) (o : Obj κ) : Good h o h o :=
  ⟨Nat.le_refl _, fun _ _ _ => rfl, fun _ ha => Or.inl ha⟩

theorem good_trans {h h1 h2 : Heap ν} {o o1 o2 : Obj κ} (g1 : Good h o h1 o1) (g2 : Good h1 o1 h2 o2) :
    Good h o h2 o2 := by
  obtain ⟨l1, c1, a1⟩ := g1
  obtain ⟨l2, c2, a2⟩ := g2
  refine ⟨Nat.le_trans l1 l2, fun a ha hn => ?_, fun a ha => ?_⟩
  · rw [c2 a (Nat.lt_of_lt_of_le ha l1) (fun hm => ?_), c1 a ha hn]
    rcases a1 a hm with h' | h'
    · exact hn h'
    · omega
  · rcases a2 a ha with h' | h'
    · exact a1 a h'
    · exact Or.inr (Nat.le_trans l1 h')

theorem cell_append_lt (h : Heap ν) (x : Heap ν) (a : Nat) (ha : a < h.length) : cell (h ++ x) a = cell h a := by
  simp [cell, List.getD_eq_getElem?_getD, List.getElem?_append_left ha]

theorem cell_append_self (h : Heap ν) (vs : List ν) : cell (h ++ [vs]) h.length = vs := by
  simp [cell, List.getD_eq_getElem?_getD]

theorem cell_set_self (h : Heap ν) (a : Nat) (x : List ν) (ha : a < h.length) : cell (h.set a x) a = x := by
  simp [cell, List.getD_eq_getElem?_getD, ha]

theorem cell_set_ne (h : Heap ν) (a b : Nat) (x : List ν) (hne : b ≠ a) : cell (h.set a x) b = cell h b := by
  simp [cell, List.getD_eq_getElem?_getD, List.getElem?_set_ne hne.symm]

theorem abs_congr (h h' : Heap ν) (o : Obj κ) (hc : ∀ a ∈ addrs o, cell h' a = cell h a) : abs h' o = abs h o := by
  unfold abs
  apply List.map_congr_left
  intro e he
  rw [hc e.2 (List.mem_map_of_mem (f := fun x => x.2) he)]

theorem keys_abs (h : Heap ν) (o : Obj κ) : keys (abs h o) = keys o := by
  simp [abs, keys, Function.comp_def]

theorem lookup_abs (h : Heap ν) (o : Obj κ) (k : κ) : (abs h o).lookup k = (o.lookup k).map (cell h) := by
  induction o with
  | nil => rfl
  | cons e t ih =>
    obtain ⟨ek, ea⟩ := e
    simp only [abs, List.map_cons, List.lookup] at ih ⊢
    cases k == ek <;> simp [ih]

theorem has_abs (h : Heap ν) (o : Obj κ) (k : κ) : has (abs h o) k = has o k := by
  simp [has, get?, lookup_abs]

theorem abs_erase (h : Heap ν) (o : Obj κ) (k : κ) : abs h (erase o k) = erase (abs h o) k := by
  induction o with
  | nil => rfl
  | cons e t ih =>
    obtain ⟨ek, ea⟩ := e
    simp only [abs, List.map_cons, erase] at ih ⊢
    by_cases hk : ek = k
    · simp [hk]
    · simp [hk, ih]

theorem abs_dropLast (h : Heap ν) (o : Obj κ) : abs h o.dropLast = (abs h o).dropLast := by
  simp [abs, List.map_dropLast]

theorem mem_addrs_of_lookup {o : Obj κ} {k : κ} {a : Nat} (hl : o.lookup k = some a) : a ∈ addrs o := by
  induction o with
  | nil => cases hl
  | cons e t ih =>
    obtain ⟨ek, ea⟩ := e
    simp only [List.lookup] at hl
    cases hb : k == ek with
    | true => rw [hb] at hl; simp only [Option.some.injEq] at hl; subst hl; simp [addrs]
    | false => rw [hb] at hl; simp only [addrs, List.map_cons, List.mem_cons]; right; exact ih hl

/-- a new list object under key `k` -/
theorem abs_putNew (h : Heap ν) (o : Obj κ) (k : κ) (vs : List ν) (hr : ∀ a ∈ addrs o, a < h.length) :
    abs (h ++ [vs]) (PyDict.set o k h.length) = PyDict.set (abs h o) k vs := by
  induction o with
  | nil => simp [abs, PyDict.set, cell_append_self]
  | cons e t ih =>
    obtain ⟨ek, ea⟩ := e
    have hea : ea < h.length := hr ea (by simp [addrs])
    have ht : ∀ a ∈ addrs t, a < h.length := fun a ha => hr a (by simp only [addrs, List.map_cons, List.mem_cons]; right; exact ha)
    by_cases hk : ek = k
    · subst hk
      simp only [PyDict.set, if_true, abs, List.map_cons, cell_append_self]
      congr 1
      exact abs_congr h (h ++ [vs]) t (fun a ha => cell_append_lt h _ a (ht a ha))
    · simp only [PyDict.set, hk, if_false, abs, List.map_cons, cell_append_lt h _ ea hea]
      congr 1
      exact ih ht

/-- in-place change of the list object of key `k` -/
theorem abs_write (h : Heap ν) (o : Obj κ) (k : κ) (a : Nat) (x : List ν) (hw : WF h o) (hl : o.lookup k = some a) :
    abs (h.set a x) o = PyDict.set (abs h o) k x := by
  obtain ⟨hnk, hna, hr⟩ := hw
  induction o with
  | nil => cases hl
  | cons e t ih =>
    obtain ⟨ek, ea⟩ := e
    simp only [NodupKeys, List.map_cons, List.nodup_cons] at hnk
    simp only [addrs, List.map_cons, List.nodup_cons] at hna
    have hea : ea < h.length := hr ea (by simp [addrs])
    have ht : ∀ b ∈ addrs t, b < h.length := fun b hb => hr b (by simp only [addrs, List.map_cons, List.mem_cons]; right; exact hb)
    by_cases hk : ek = k
    · subst hk
      simp only [List.lookup, beq_self_eq_true, Option.some.injEq] at hl
      subst hl
      simp only [abs, List.map_cons, PyDict.set, if_true, cell_set_self h ea x hea]
      congr 1
      exact abs_congr h (h.set ea x) t (fun b hb => cell_set_ne h ea b x (fun e => hna.1 (e ▸ hb)))
    · have hb : (k == ek) = false := by simpa using fun e => hk e.symm
      simp only [List.lookup, hb] at hl
      have hne : ea ≠ a := fun e => hna.1 (e ▸ mem_addrs_of_lookup hl)
      simp only [abs, List.map_cons, PyDict.set, hk, if_false, cell_set_ne h a ea x hne]
      congr 1
      exact ih hl hnk.2 hna.2 ht

theorem wf_putNew (h : Heap ν) (o : Obj κ) (k : κ) (vs : List ν) (hw : WF h o) :
    WF (h ++ [vs]) (PyDict.set o k h.length) ∧ Good h o (h ++ [vs]) (PyDict.set o k h.length) := by
  obtain ⟨hnk, hna, hr⟩ := hw
  have hmem : ∀ a ∈ addrs (PyDict.set o k h.length), a ∈ addrs o ∨ a = h.length := by
    intro a ha
    simp only [addrs, List.mem_map] at ha ⊢
    obtain ⟨e, he, rfl⟩ := ha
    rcases mem_set_gen he with h1 | h1
    · exact Or.inl ⟨e, h1, rfl⟩
    · right; rw [h1]
  have hnod : (addrs (PyDict.set o k h.length)).Nodup := by
    clear hmem
    induction o with
    | nil => simp [addrs, PyDict.set]
    | cons e t ih =>
      obtain ⟨ek, ea⟩ := e
      simp only [addrs, List.map_cons, List.nodup_cons] at hna
      simp only [NodupKeys, List.map_cons, List.nodup_cons] at hnk
      have ht : ∀ b ∈ addrs t, b < h.length := fun b hb => hr b (by simp only [addrs, List.map_cons, List.mem_cons]; right; exact hb)
      by_cases hk : ek = k
      · simp only [PyDict.set, hk, if_true, addrs, List.map_cons, List.nodup_cons]
        exact ⟨fun hm => absurd (ht _ hm) (Nat.lt_irrefl _), hna.2⟩
      · simp only [PyDict.set, hk, if_false, addrs, List.map_cons, List.nodup_cons]
        refine ⟨fun hm => ?_, ih hnk.2 hna.2 ht⟩
        have hea : ea < h.length := hr ea (by simp [addrs])
        simp only [List.mem_map] at hm
        obtain ⟨e', he', hea'⟩ := hm
        rcases mem_set_gen he' with h1 | h1
        · exact hna.1 (by simp only [addrs, List.mem_map]; exact ⟨e', h1, hea'⟩)
        · rw [h1] at hea'; simp only at hea'; omega
  refine ⟨⟨nodupKeys_set o k _ hnk, hnod, fun a ha => ?_⟩, by simp, fun a ha _ => cell_append_lt h _ a ha, fun a ha => ?_⟩
  · rcases hmem a ha with h1 | h1
    · have := hr a h1; simp; omega
    · simp [h1]
  · rcases hmem a ha with h1 | h1
    · exact Or.inl h1
    · exact Or.inr (by omega)

theorem wf_write (h : Heap ν) (o : Obj κ) (a : Nat) (x : List ν) (hw : WF h o) (ha : a ∈ addrs o) :
    WF (h.set a x) o ∧ Good h o (h.set a x) o :=
  ⟨⟨hw.1, hw.2.1, fun b hb => by simpa using hw.2.2 b hb⟩, by simp,
    fun b _ hn => cell_set_ne h a b x (fun e => hn (e ▸ ha)), fun _ hb => Or.inl hb⟩

theorem wf_sub (h : Heap ν) (o o' : Obj κ) (hw : WF h o) (hs : o'.Sublist o) : WF h o' ∧ Good h o h o' := by
  have hsa : (addrs o').Sublist (addrs o) := hs.map _
  refine ⟨⟨?_, hw.2.1.sublist hsa, fun a ha => hw.2.2 a (hsa.subset ha)⟩, Nat.le_refl _, fun _ _ _ => rfl,
    fun a ha => Or.inl (hsa.subset ha)⟩
  exact List.Nodup.sublist (hs.map _) hw.1

theorem erase_sublist (o : Obj κ) (k : κ) : (erase o k).Sublist o := by
  induction o with
  | nil => exact List.Sublist.slnil
  | cons e t ih =>
    obtain ⟨ek, ea⟩ := e
    simp only [erase]
    by_cases hk : ek = k
    · simp only [hk, if_true]; exact List.sublist_cons_self _ _
    · simp only [hk, if_false]; exact ih.cons_cons _

/-- `add` on the heap simulates `add` of the functional model -/
theorem addH_spec (h : Heap ν) (o : Obj κ) (k : κ) (v : ν) (hw : WF h o) :
    abs (addH h o k v).1 (addH h o k v).2 = MD.add (abs h o) k v ∧
    WF (addH h o k v).1 (addH h o k v).2 ∧ Good h o (addH h o k v).1 (addH h o k v).2 := by
  unfold addH MD.add PyDict.get?
  rw [lookup_abs]
  cases hl : o.lookup k with
  | none =>
    simp only [Option.map_none, putNew]
    exact ⟨abs_putNew h o k [v] hw.2.2, wf_putNew h o k [v] hw⟩
  | some a =>
    simp only [Option.map_some, appendAt]
    exact ⟨abs_write h o k a _ hw hl, wf_write h o a _ hw (mem_addrs_of_lookup hl)⟩

theorem addAllH_spec (h : Heap ν) (o : Obj κ) (ps : List (κ × ν)) (hw : WF h o) :
    abs (addAllH h o ps).1 (addAllH h o ps).2 = MD.addAll (abs h o) ps ∧
    WF (addAllH h o ps).1 (addAllH h o ps).2 ∧ Good h o (addAllH h o ps).1 (addAllH h o ps).2 := by
  induction ps generalizing h o with
  | nil => exact ⟨rfl, hw, good_refl h o⟩
  | cons p t ih =>
    obtain ⟨k, v⟩ := p
    obtain ⟨h1, h2, h3⟩ := addH_spec h o k v hw
    obtain ⟨i1, i2, i3⟩ := ih _ _ h2
    simp only [addAllH, MD.addAll]
    exact ⟨by rw [i1, h1], i2, good_trans h3 i3⟩

/-- **simulation + footprint of every mutator** -/
theorem step_spec (h : Heap ν) (o : Obj κ) (op : MD.Op κ ν) (hw : WF h o) :
    abs (step h o op).1 (step h o op).2 = (MD.step (abs h o) op).1 ∧
    WF (step h o op).1 (step h o op).2 ∧ Good h o (step h o op).1 (step h o op).2 := by
  have same : abs h o = abs h o ∧ WF h o ∧ Good h o h o := ⟨rfl, hw, good_refl h o⟩
  have er : ∀ k, abs h (erase o k) = erase (abs h o) k ∧ WF h (erase o k) ∧ Good h o h (erase o k) :=
    fun k => ⟨abs_erase h o k, wf_sub h o _ hw (erase_sublist o k)⟩
  have pn : ∀ k vs, abs (putNew h o k vs).1 (putNew h o k vs).2 = PyDict.set (abs h o) k vs ∧
      WF (putNew h o k vs).1 (putNew h o k vs).2 ∧ Good h o (putNew h o k vs).1 (putNew h o k vs).2 :=
    fun k vs => ⟨abs_putNew h o k vs hw.2.2, wf_putNew h o k vs hw⟩
  have dl : abs h o.dropLast = (abs h o).dropLast ∧ WF h o.dropLast ∧ Good h o h o.dropLast :=
    ⟨abs_dropLast h o, wf_sub h o _ hw (List.dropLast_sublist o)⟩
  cases op with
  | setitem k v => exact pn k [v]
  | setlist k vs => exact pn k vs
  | add k v => exact addH_spec h o k v hw
  | update a => exact addAllH_spec h o _ hw
  | ior a => exact addAllH_spec h o _ hw
  | clear =>
    simp only [step, MD.step]
    exact ⟨rfl, ⟨by simp [NodupKeys], by simp [addrs], by simp [addrs]⟩, Nat.le_refl _, fun _ _ _ => rfl, by simp [addrs]⟩
  | delitem k =>
    simp only [step, MD.step, has_abs]
    cases has o k
    · exact same
    · exact er k
  | setdefault k v =>
    simp only [step, MD.step, has_abs]
    cases has o k
    · exact pn k [v]
    · exact same
  | setlistdefault k vs =>
    simp only [step, MD.step, has_abs]
    cases has o k
    · exact pn k vs
    · exact same
  | pop k d =>
    simp only [step, MD.step]
    have hh : has o k = (PyDict.get? (abs h o) k).isSome := (has_abs h o k).symm
    cases hg : PyDict.get? (abs h o) k with
    | none =>
      rw [hg] at hh
      simp only [hh, Option.isSome_none, Bool.false_eq_true, if_false]; exact ⟨trivial, same.2⟩
    | some vs =>
      rw [hg] at hh
      simp only [hh, Option.isSome_some, if_true]
      cases vs <;> exact er k
  | poplist k =>
    simp only [step, MD.step]
    have hh : has o k = (PyDict.get? (abs h o) k).isSome := (has_abs h o k).symm
    cases hg : PyDict.get? (abs h o) k with
    | none =>
      rw [hg] at hh
      simp only [hh, Option.isSome_none, Bool.false_eq_true, if_false]; exact ⟨trivial, same.2⟩
    | some vs =>
      rw [hg] at hh
      simp only [hh, Option.isSome_some, if_true]; exact er k
  | popitem =>
    simp only [step, MD.step, PyDict.popitem]
    cases hg : (abs h o).getLast? with
    | none =>
      have : abs h o = [] := List.getLast?_eq_none_iff.1 hg
      have ho : o = [] := by simpa [abs] using this
      subst ho; exact same
    | some e =>
      obtain ⟨ek, evs⟩ := e
      cases evs <;> exact dl
  | popitemlist =>
    simp only [step, MD.step, PyDict.popitem]
    cases hg : (abs h o).getLast? with
    | none =>
      have : abs h o = [] := List.getLast?_eq_none_iff.1 hg
      have ho : o = [] := by simpa [abs] using this
      subst ho; exact same
    | some e => exact dl

theorem next_spec (h : Heap ν) (o : Obj κ) (e : Ev κ ν) (hw : WF h o) :
    abs (next h o e).1 (next h o e).2 = nextAbs (abs h o) e ∧
    WF (next h o e).1 (next h o e).2 ∧ Good h o (next h o e).1 (next h o e).2 := by
  cases e with
  | op op => exact step_spec h o op hw
  | via k vs =>
    simp only [next, nextAbs, PyDict.get?, lookup_abs]
    cases hl : o.lookup k with
    | none => exact ⟨rfl, hw, good_refl h o⟩
    | some a =>
      simp only [Option.map_some, appendAt]
      exact ⟨abs_write h o k a _ hw hl, wf_write h o a _ hw (mem_addrs_of_lookup hl)⟩

theorem run_spec (h : Heap ν) (o : Obj κ) (evs : List (Ev κ ν)) (hw : WF h o) :
    abs (run h o evs).1 (run h o evs).2 = runAbs (abs h o) evs ∧
    WF (run h o evs).1 (run h o evs).2 ∧ Good h o (run h o evs).1 (run h o evs).2 := by
  induction evs generalizing h o with
  | nil => exact ⟨rfl, hw, good_refl h o⟩
  | cons e t ih =>
    obtain ⟨n1, n2, n3⟩ := next_spec h o e hw
    obtain ⟨i1, i2, i3⟩ := ih _ _ n2
    simp only [run, runAbs]
    exact ⟨by rw [i1, n1], i2, good_trans n3 i3⟩

/-- two objects that share no list object -/
def Sep (h : Heap ν) (o1 o2 : Obj κ) : Prop :=
  WF h o1 ∧ WF h o2 ∧ ∀ a ∈ addrs o1, a ∉ addrs o2

/-- the frame rule: whatever happens to `o2`, a separated object `o1` keeps its value, stays
well-formed and separated -/
theorem frame (h : Heap ν) (o1 o2 : Obj κ) (h' : Heap ν) (o2' : Obj κ) (hs : Sep h o1 o2) (hw' : WF h' o2')
    (g : Good h o2 h' o2') : abs h' o1 = abs h o1 ∧ Sep h' o1 o2' := by
  obtain ⟨w1, w2, hd⟩ := hs
  obtain ⟨gl, gc, ga⟩ := g
  refine ⟨abs_congr h h' o1 (fun a ha => gc a (w1.2.2 a ha) (hd a ha)), ⟨w1.1, w1.2.1, fun a ha => ?_⟩, hw', fun a ha hm => ?_⟩
  · exact Nat.lt_of_lt_of_le (w1.2.2 a ha) gl
  · rcases ga a hm with h1 | h1
    · exact hd a ha h1
    · have := w1.2.2 a ha; omega

theorem copyObj_spec (h : Heap ν) (o : Obj κ) (hw : WF h o) :
    abs (copyObj h o).1 (copyObj h o).2 = abs h o ∧ abs (copyObj h o).1 o = abs h o ∧
    Sep (copyObj h o).1 o (copyObj h o).2 := by
  -- generalised over the part already copied
  have key : ∀ (rest : Obj κ) (hh : Heap ν) (done : Obj κ),
      h.length ≤ hh.length → (∀ a, a < h.length → cell hh a = cell h a) →
      (∀ a ∈ addrs done, h.length ≤ a ∧ a < hh.length) → (addrs done).Nodup →
      NodupKeys (done ++ rest) → (∀ a ∈ addrs rest, a < h.length) →
      let r := rest.foldl (fun acc e => (acc.1 ++ [cell h e.2], acc.2 ++ [(e.1, acc.1.length)])) (hh, done)
      h.length ≤ r.1.length ∧ (∀ a, a < h.length → cell r.1 a = cell h a) ∧
      (∀ a ∈ addrs r.2, h.length ≤ a ∧ a < r.1.length) ∧ (addrs r.2).Nodup ∧ NodupKeys r.2 ∧
      abs r.1 r.2 = abs hh done ++ abs h rest := by
    intro rest
    induction rest with
    | nil =>
      intro hh done hl hc hd hn hk _
      exact ⟨hl, hc, hd, hn, by simpa using hk, by simp [abs]⟩
    | cons e t ih =>
      intro hh done hl hc hd hn hk hr
      obtain ⟨ek, ea⟩ := e
      simp only [List.foldl_cons]
      have hea : ea < h.length := hr ea (by simp [addrs])
      have := ih (hh ++ [cell h ea]) (done ++ [(ek, hh.length)]) (by simp; omega)
        (fun a ha => by rw [cell_append_lt hh _ a (by omega)]; exact hc a ha)
        (fun a ha => by
          simp only [addrs, List.map_append, List.map_cons, List.map_nil, List.mem_append, List.mem_singleton] at ha
          rcases ha with h1 | h1
          · have := hd a h1; simp; omega
          · subst h1; simp; omega)
        (by
          simp only [addrs, List.map_append, List.map_cons, List.map_nil]
          rw [List.nodup_append]
          refine ⟨hn, by simp, fun a ha b hb => ?_⟩
          simp only [List.mem_singleton] at hb
          subst hb
          have := (hd a ha).2; omega)
        (by simpa [NodupKeys] using hk)
        (fun a ha => hr a (by simp only [addrs, List.map_cons, List.mem_cons]; right; exact ha))
      obtain ⟨r1, r2, r3, r4, r5, r6⟩ := this
      refine ⟨r1, r2, r3, r4, r5, ?_⟩
      rw [r6]
      have e1 : abs (hh ++ [cell h ea]) (done ++ [(ek, hh.length)]) = abs hh done ++ [(ek, cell h ea)] := by
        simp only [abs, List.map_append, List.map_cons, List.map_nil, cell_append_self]
        congr 1
        apply List.map_congr_left
        intro e he
        rw [cell_append_lt hh _ e.2 (hd e.2 (List.mem_map_of_mem (f := fun x => x.2) he)).2]
      rw [e1]
      simp [abs]
  obtain ⟨r1, r2, r3, r4, r5, r6⟩ := key o h [] (Nat.le_refl _) (fun _ _ => rfl) (by simp [addrs]) (by simp [addrs])
    (by simpa using hw.1) hw.2.2
  have habs : abs (copyObj h o).1 o = abs h o := abs_congr h _ o (fun a ha => r2 a (hw.2.2 a ha))
  refine ⟨by simpa [copyObj, abs] using r6, habs, ⟨hw.1, hw.2.1, fun a ha => ?_⟩, ⟨r5, r4, fun a ha => (r3 a ha).2⟩,
    fun a ha hm => ?_⟩
  · exact Nat.lt_of_lt_of_le (hw.2.2 a ha) r1
  · have := (r3 a hm).1
    have := hw.2.2 a ha
    omega

end Wz.HeapMD
