/-
PyFnsEq_AcceptHeader — `parse_accept_header` of `werkzeug.http` *as regenerated from the source* by
`tools/py2lean.py` (`Gen/PyFns_HttpOptions.lean`, rewritten on every check run) against the two
hand-written models of Accept-header parsing:
(a) C06/C07's `Http.parseAcceptHeader` (`Model/Http.lean`; quality kept as its text, range check
    `Http.qOutOfRange` = exact comparison against the IEEE rounding thresholds), and
(b) C17's `Accept.parseAcceptRaw` / `Accept.acceptItem` (`Model/Accept.lean`; quality as an exact
    decimal `Q`, own lexical layer) - the model the negotiation theorems are about.

The translation is polymorphic in the quality type `κ` (`float_of` = `float(q_str)`, `qle` = `<=`,
`qzero` / `qone` the literals); `q < 0 or q > 1` is `oor qle qzero qone q`.

Main theorems
* generic (every `κ`, every order, every `float_of`): `loop1_step` (one turn of the
  `for item in parse_list_header(value)` loop = `itemStep`), `loop1_eq` (the loop = `mapM itemStep`
  + `filterMap`), `parse_accept_header_gen`, `parse_accept_header_none`;
* part 3 (exceptions): `dictPop_of_has` (the `KeyError` arm of `options.pop("q")` is unreachable
  behind `"q" in options`), `itemStep_safe`, `parse_accept_header_total` (the function never raises,
  whatever the quality type);
* fuel: `parseListHeader_length` (no list item is longer than the header), so `len(value) ≤ fuel`
  is enough everywhere;
* part 1, model (a): instantiation `FQ` / `FQ.le` / `fqZero` / `fqOne` / `floatOf` (text + signed
  exact decimal snapped to the two IEEE rounding bands), `oor_floatOf` (the translated range check
  = `Http.qOutOfRange`), `acceptItem_eq`, `parse_accept_header_eq_http_of_items`,
  `parse_accept_header_eq_http`;
* part 2, model (b): instantiation `SQ` / `SQ.le` / `sqZero` / `sqOne` / `exactOf` (sign + exact
  decimal magnitude, no rounding), `parseQ_eq` (`Accept.parseQ` = `Http.qParts?` + range check),
  `itemOf_eq_accept` (the loop body on parsed options = `Accept.acceptItem`), `loop1_cons_accept`,
  `quoteHeaderValue_eq`, `dumpAgrees_of_keys` (the two `dump_options_header` models agree whenever
  no key is empty), `parse_accept_header_eq_raw_of_dump`, `parse_accept_header_eq_raw` (only
  hypothesis besides fuel: the two lexers agree on the header);
* float vs exact: `oor_snap_imp` (whatever the float comparison rejects the exact comparison
  rejects too; the converse fails exactly in the rounding bands, see the `example`s at the end).

Nothing is weakened for model (a). For model (b) the equality is relative to the hypothesis
`Accept.lexHeader v = (Http.parseListHeader v).mapM Http.parseOptionsHeader` (the C17 lexer answers
`UNSUPPORTED` for RFC 2231 `key*` parameters, so the hypothesis fails on such headers), and it is
about exact decimal comparison: model (b) - by its documented assumption - differs from CPython for
q texts inside the rounding bands (`q=1.0000000000000001`: CPython keeps the item with quality
1.0, model (b) drops it; a negative magnitude ≤ 2^-1075: CPython keeps it as -0.0, (b) drops it).

Helper lemmas that do not mention generated definitions (`httpListGo_length`, `stripDq_length`,
`parseListHeader_length`, `isQDigit_eq`, `digitsVal_eq`, `parseQ_eq`, `isToken_eq`,
`replaceAll_single`, `pyReplace_single`, `quoteHeaderValue_eq`, `mapM_optionSegment`,
`dumpAgrees_of_keys`, `mapM_map`, `mapM_congr_mem`, `filterMap_id_map`, `filterMap_some_fun`,
`dictHas_get`) are candidates for the shared libraries.
-/
import WzVerif.Props.C06T
import WzVerif.Lemmas.HttpSafeKeys
import WzVerif.Gen.PyFns_HttpOptions
import WzVerif.Lemmas.PyFnsEq_HttpOptions
import WzVerif.Lemmas.AcceptText
namespace Wz.PyFnsEq.AcceptHeader
open Wz Wz.Pre Wz.PyFnsHttp Wz.Gen.PyFns_HttpOptions

section generic
variable {κ : Type} (qle : κ → κ → Bool) (qzero qone : κ) (float_of : Str → κ)

/-- `q < 0 or q > 1`, as the translator spells it with the order `qle` and the literals: `not (0 <= q) or not (q <= 1)` -/
def oor (q : κ) : Bool := (!(qle qzero q)) || (!(qle q qone))

/-- the tail of the loop body: `if options: item = dump_options_header(item, options)`, then the pair
`(item, q)` that is appended; the only exception is the one `dump_options_header` raises -/
def finishItem (i : Str) (o : List (Str × Str)) (q : κ) : Except String (Option (Str × κ)) :=
  if o.isEmpty then .ok (some (i, q))
  else
    match Http.dumpOptionsHeader (some i) (o.map fun kv => (kv.1, some kv.2)) with
    | .ok t => .ok (some (t, q))
    | .error e => .error e

/-- what the loop body does with one item whose options are already parsed: `none` = `continue`
(the q text does not match `_q_value_re`, or the value is out of range), `some (item, q)` = appended -/
def itemOf (i : Str) (o : List (Str × Str)) : Except String (Option (Str × κ)) :=
  match Http.dictGet? o ['q'] with
  | some qs =>
    if (Http.qParts? (Py.strip qs)).isNone then .ok none
    else if oor qle qzero qone (float_of (Py.strip qs)) then .ok none
    else finishItem i (Http.dictPop o ['q']) (float_of (Py.strip qs))
  | none => finishItem i o qone

/-- the whole loop body: `parse_options_header(item)` (C06's model), then `itemOf` -/
def itemStep (item : Str) : Except String (Option (Str × κ)) :=
  match Http.parseOptionsHeader item with
  | .ok (i, o) => itemOf qle qzero qone float_of i o
  | .error e => .error e

/-- `k in d` is `d.get(k) is not None` on an item list -/
theorem dictHas_get {ν : Type} (o : List (Str × ν)) (k : Str) :
    Pre.dictHas o k = (Pre.dictGet? o k).isSome := by
  unfold Pre.dictHas Pre.dictGet?
  induction o with
  | nil => rfl
  | cons a t ih =>
    simp only [List.any_cons, List.find?_cons]
    cases h : (a.1 == k) <;> simp [ih]

/-- **Part 3.** `options.pop("q")` behind `if "q" in options:` cannot raise `KeyError`: when the
membership test succeeds the translated `dict.pop` returns the value `options.get("q")` finds and
the dict without the key. -/
theorem dictPop_of_has {ν : Type} (o : List (Str × ν)) (k : Str) (h : Pre.dictHas o k = true) :
    ∃ v, Pre.dictGet? o k = some v ∧ Pre.dictPop o k = .ok (v, Pre.dictDel o k) := by
  rw [dictHas_get] at h
  cases hq : Pre.dictGet? o k with
  | none => rw [hq] at h; cases h
  | some v => exact ⟨v, rfl, by simp only [Pre.dictPop, hq]⟩

/-- One turn of the `for item in parse_list_header(value):` loop of `parse_accept_header`, as
translated from the current source (`parse_options_header(item)` - itself translated, with the
fuel of its `while` loops -, `"q" in options`, `options.pop("q").strip()`, `_q_value_re.fullmatch`,
`float`, the range check, `dump_options_header` - itself translated - when options remain,
`result.append`), for every quality type, order and `float_of`, and every item that fits the fuel:
the turn either leaves the function with the exception of `parse_options_header` /
`dump_options_header`, or goes on with `result` unchanged (`continue`) or extended by the one pair
`itemStep` computes. No other exception occurs: the `KeyError` arm of `options.pop("q")` has
disappeared (`dictPop_of_has`), and "out of fuel" does not occur. -/
theorem loop1_step (fuel : Nat) (item : Str) (rest : List Str) (result : List (Str × κ))
    (hf : item.length ≤ fuel) :
    parse_accept_header.loop1 fuel qle qzero qone float_of (item :: rest) result =
      match itemStep qle qzero qone float_of item with
      | .ok none => parse_accept_header.loop1 fuel qle qzero qone float_of rest result
      | .ok (some p) => parse_accept_header.loop1 fuel qle qzero qone float_of rest (result ++ [p])
      | .error e => .ret (.error e) := by
  rw [parse_accept_header.loop1]
  simp only [Wz.PyFnsEq.HttpOptions.parse_options_header_eq fuel item hf,
    Wz.Props.C06T.dump_options_header_eq, itemStep]
  cases hp : Http.parseOptionsHeader item with
  | error e => rfl
  | ok io =>
    obtain ⟨i, o⟩ := io
    simp only [itemOf, dictHas_get, Pre.dictPop, qValueReFullmatch, Pre.strip, oor, finishItem]
    have e : Http.dictGet? o ['q'] = Pre.dictGet? o ['q'] := rfl
    rw [e]
    cases hq : Pre.dictGet? o ['q'] with
    | none =>
      simp only [Option.isSome_none, Bool.false_eq_true, if_false]
      by_cases ho : o.isEmpty = true
      · simp [ho]
      · simp only [ho, Bool.not_false, Bool.false_eq_true, if_true, if_false]
        cases Http.dumpOptionsHeader (some i) (o.map fun kv => (kv.1, some kv.2)) <;> rfl
    | some qs =>
      have ed : Pre.dictDel o ['q'] = Http.dictPop o ['q'] := rfl
      simp only [Option.isSome_some, if_true, ed, Option.isNone_map]
      by_cases h1 : (Http.qParts? (Py.strip qs)).isNone = true
      · simp only [h1, if_true]
      · simp only [h1, Bool.false_eq_true, if_false]
        by_cases h2 : (!qle qzero (float_of (Py.strip qs)) || !qle (float_of (Py.strip qs)) qone) = true
        · simp only [h2, if_true]
        · simp only [h2, Bool.false_eq_true, if_false]
          by_cases ho : (Http.dictPop o ['q']).isEmpty = true
          · simp [ho]
          · simp only [ho, Bool.not_false, Bool.false_eq_true, if_true, if_false]
            cases Http.dumpOptionsHeader (some i) ((Http.dictPop o ['q']).map fun kv => (kv.1, some kv.2)) <;> rfl


/-- The whole loop: for every list of items that fit the fuel and every accumulator, it falls
through with `result` extended by the pairs of the items that were not skipped, in order - or leaves
the function with the first exception a callee raised. -/
theorem loop1_eq (fuel : Nat) (items : List Str) : ∀ (result : List (Str × κ)),
    (∀ item ∈ items, item.length ≤ fuel) →
    parse_accept_header.loop1 fuel qle qzero qone float_of items result =
      match items.mapM (itemStep qle qzero qone float_of) with
      | .ok l => .fall (result ++ l.filterMap id)
      | .error e => .ret (.error e) := by
  induction items with
  | nil => intro result _; simp [parse_accept_header.loop1, pure, Except.pure]
  | cons item rest ih =>
    intro result hf
    rw [loop1_step qle qzero qone float_of fuel item rest result (hf item (by simp)), List.mapM_cons]
    have hr : ∀ item ∈ rest, item.length ≤ fuel := fun x hx => hf x (by simp [hx])
    cases hs : itemStep qle qzero qone float_of item with
    | error e => rfl
    | ok r =>
      cases r with
      | none =>
        simp only [ih result hr, bind, Except.bind]
        cases rest.mapM (itemStep qle qzero qone float_of) <;> simp [pure, Except.pure]
      | some p =>
        simp only [ih (result ++ [p]) hr, bind, Except.bind]
        cases rest.mapM (itemStep qle qzero qone float_of) <;> simp [pure, Except.pure]

/-- `parse_accept_header(value, cls)` for a `str`, as translated from the current source (`if not
value: return cls(None)`, `parse_list_header` - itself translated -, the loop, `cls(result)`; the
translation returns the argument handed to `cls`), for every quality type: `None` for the empty
text, else the list of pairs `itemStep` yields for the items of the comma list. -/
theorem parse_accept_header_gen (fuel : Nat) (v : Str)
    (hf : ∀ item ∈ Http.parseListHeader v, item.length ≤ fuel) :
    parse_accept_header fuel qle qzero qone float_of (some v) () =
      if v.isEmpty then .ok none
      else match (Http.parseListHeader v).mapM (itemStep qle qzero qone float_of) with
        | .ok l => .ok (some (l.filterMap id))
        | .error e => .error e := by
  unfold parse_accept_header
  simp only [Wz.Props.C06T.parse_list_header_eq, loop1_eq qle qzero qone float_of fuel _ [] hf, id,
    List.nil_append]
  by_cases hv : v.isEmpty = true
  · simp [hv]
  · simp only [hv, Bool.false_eq_true, if_false]
    cases (Http.parseListHeader v).mapM (itemStep qle qzero qone float_of) <;> rfl

/-- `parse_accept_header(None)` hands `None` to the class (an empty `Accept` object); no fuel is used. -/
theorem parse_accept_header_none (fuel : Nat) :
    parse_accept_header fuel qle qzero qone float_of none () = .ok none := rfl

/-! ### exceptions (part 3) and fuel -/

theorem finishItem_safe (i : Str) (o : List (Str × Str)) (q : κ) (hk : ∀ x ∈ o, x.1 ≠ []) :
    Http.Safe (finishItem i o q) := by
  unfold finishItem
  split
  · exact ⟨_, rfl⟩
  · obtain ⟨w, hw⟩ := Http.dumpOptionsHeader_safe (some i) (o.map fun kv => (kv.1, some kv.2)) (by
      intro x hx
      simp only [List.mem_map] at hx
      obtain ⟨y, hy, rfl⟩ := hx
      exact hk y hy)
    rw [hw]; exact ⟨_, rfl⟩

/-- The loop body never raises, whatever the quality type: `parse_options_header` is total on a
`str` (C07), `float` is only reached behind the regex, and `dump_options_header`'s `key[-1]` only
sees the non-empty parameter names `parse_options_header` produces (C07). -/
theorem itemStep_safe (item : Str) : Http.Safe (itemStep qle qzero qone float_of item) := by
  unfold itemStep
  obtain ⟨⟨i, o⟩, hp⟩ := Http.parseOptionsHeader_safe item
  have hk := Http.parseOptionsHeader_keys item i o hp
  rw [hp]
  simp only [itemOf]
  split
  · split
    · exact ⟨_, rfl⟩
    · split
      · exact ⟨_, rfl⟩
      · exact finishItem_safe i _ _ (fun x hx => hk x (List.mem_filter.mp hx).1)
  · exact finishItem_safe i o qone hk

/-- **Part 3.** `parse_accept_header(value, cls)`, as translated from the current source, returns
normally for every value (`None` or any text whose list items fit the fuel), every quality type,
every order and every `float_of`: it raises nothing - in particular not the `KeyError` of
`options.pop("q")`, not the `ValueError` of `float`, not the `IndexError` of `dump_options_header`,
and the translator's "out of fuel" marker does not occur (the real loops terminate). -/
theorem parse_accept_header_total_of_items (fuel : Nat) (v : Str)
    (hf : ∀ item ∈ Http.parseListHeader v, item.length ≤ fuel) :
    ∃ r, parse_accept_header fuel qle qzero qone float_of (some v) () = .ok r := by
  rw [parse_accept_header_gen qle qzero qone float_of fuel v hf]
  split
  · exact ⟨_, rfl⟩
  · obtain ⟨l, hl⟩ := Http.mapM_safe_mem (itemStep qle qzero qone float_of) (Http.parseListHeader v)
      (fun a _ => itemStep_safe qle qzero qone float_of a)
    rw [hl]; exact ⟨_, rfl⟩

end generic

/-! ### no item of the comma list is longer than the header -/

/-- every part `parse_http_list` cuts out is made of characters of the text -/
theorem httpListGo_length (s : Str) : ∀ (e q : Bool) (part p : Str),
    p ∈ Http.httpListGo e q s part → p.length ≤ part.length + s.length := by
  induction s with
  | nil =>
    intro e q part p h
    unfold Http.httpListGo at h
    split at h <;> simp_all
  | cons c t ih =>
    intro e q part p h
    cases e with
    | true =>
      rw [Http.httpListGo] at h
      have := ih _ _ _ _ h
      simp at this ⊢; omega
    | false =>
      cases q with
      | true =>
        rw [Http.httpListGo] at h
        split at h
        · have := ih _ _ _ _ h
          simp at this ⊢; omega
        · split at h <;> (have := ih _ _ _ _ h; simp at this ⊢; omega)
      | false =>
        rw [Http.httpListGo] at h
        split at h
        · rcases List.mem_cons.mp h with rfl | h
          · simp
          · have := ih _ _ _ _ h
            simp at this ⊢; omega
        · split at h <;> (have := ih _ _ _ _ h; simp at this ⊢; omega)

/-- removing a pair of surrounding quotes does not lengthen -/
theorem stripDq_length (s : Str) : ((Http.stripDq? s).getD s).length ≤ s.length := by
  unfold Http.stripDq?
  split
  · split <;> simp; omega
  · simp

/-- No item of `parse_list_header(value)` is longer than `value` (a part of the text, stripped,
possibly without its surrounding quotes): `len(value)` units of fuel are enough for every
`parse_options_header(item)` call of the loop. -/
theorem parseListHeader_length (v item : Str) (h : item ∈ Http.parseListHeader v) :
    item.length ≤ v.length := by
  unfold Http.parseListHeader Http.parseHttpList at h
  simp only [List.map_map, List.mem_map, Function.comp] at h
  obtain ⟨p, hp, rfl⟩ := h
  have h1 := httpListGo_length v false false [] p hp
  have h2 := Wz.PyFnsEq.HttpOptions.strip_length_le p
  have h3 := stripDq_length (Http.strip p)
  simp only [Http.strip] at h3 ⊢
  simp at h1
  omega

/-- `parse_accept_header` never raises: the same with the fuel bound `len(value) ≤ fuel`. -/
theorem parse_accept_header_total {κ : Type} (qle : κ → κ → Bool) (qzero qone : κ) (float_of : Str → κ)
    (fuel : Nat) (v : Str) (hf : v.length ≤ fuel) :
    ∃ r, parse_accept_header fuel qle qzero qone float_of (some v) () = .ok r :=
  parse_accept_header_total_of_items qle qzero qone float_of fuel v
    (fun item h => Nat.le_trans (parseListHeader_length v item h) hf)

/-! ### signed exact decimals -/

/-- a signed exact decimal: the minus sign (`true` = the text starts with `-`) and the magnitude
`num / 10^scale` (C17's `Accept.Q`); `(true, 0)` is the `-0.0` that `float("-0")` gives -/
abbrev SQ := Bool × Accept.Q

/-- `<=` on signed decimals (`-0 <= 0` and `0 <= -0` both hold, as for floats) -/
def SQ.le : SQ → SQ → Bool
  | (false, x), (false, y) => Accept.Q.le x y
  | (true, x), (true, y) => Accept.Q.le y x
  | (true, _), (false, _) => true
  | (false, x), (true, y) => x.num == 0 && y.num == 0

def sqZero : SQ := (false, Accept.Q.zero)
def sqOne : SQ := (false, Accept.Q.one)

/-- the exact value of a text `_q_value_re` matches (`-?\d+(\.\d+)?`): sign, and all digits over
`10^(number of fraction digits)`; irrelevant (zero) on other texts - the code calls `float` only
behind the regex -/
def exactOf (s : Str) : SQ :=
  match Http.qParts? s with
  | some (neg, ip, fp) => (neg, ⟨Http.digitsVal (ip ++ fp), fp.length⟩)
  | none => sqZero

/-- the range check on a value without minus sign: `q > 1` -/
theorem oor_pos (x : Accept.Q) : oor SQ.le sqZero sqOne (false, x) = !(Accept.Q.le x Accept.Q.one) := by
  simp [oor, SQ.le, sqZero, sqOne, Accept.Q.le, Accept.Q.zero]

/-- the range check on a value with minus sign: `q < 0`, i.e. the magnitude is not zero -/
theorem oor_neg (x : Accept.Q) : oor SQ.le sqZero sqOne (true, x) = (x.num != 0) := by
  cases h : x.num <;> simp [oor, SQ.le, sqZero, sqOne, Accept.Q.zero, h]

/-- IEEE rounding, as far as comparisons with `0.0` and `1.0` can see it: a negative value of
magnitude at most 2^-1075 becomes `-0.0`, a value in `(1, 1 + 2^-53]` becomes `1.0` (round to
nearest, ties to even), everything else is left alone. `float()` is monotone and fixes 0 and 1, so
`float(x) < 0` iff `snap x < 0` and `float(x) > 1` iff `snap x > 1` for correctly rounded `float()`
(the documented assumption of model (a)). -/
def snap : SQ → SQ
  | (true, q) => if q.num * 2 ^ 1075 > 10 ^ q.scale then (true, q) else (true, Accept.Q.zero)
  | (false, q) =>
    if q.num * 2 ^ 53 > (2 ^ 53 + 1) * 10 ^ q.scale then (false, q)
    else if q.num > 10 ^ q.scale then (false, Accept.Q.one) else (false, q)

/-- a snapped negative value is `< 0` iff the magnitude exceeds 2^-1075 -/
theorem oor_snap_neg (num scale : Nat) :
    oor SQ.le sqZero sqOne (snap (true, ⟨num, scale⟩)) = decide (num * 2 ^ 1075 > 10 ^ scale) := by
  have hd : 0 < 10 ^ scale := Nat.pow_pos (by decide)
  simp only [snap]
  generalize 2 ^ 1075 = P
  generalize 10 ^ scale = den at hd
  by_cases h : num * P > den
  · have : num ≠ 0 := by intro e; subst e; simp at h
    simp only [h, if_true, oor_neg, decide_true]; simpa using this
  · simp only [h, if_false, oor_neg, Accept.Q.zero, decide_false]; rfl

/-- a snapped non-negative value is `> 1` iff it exceeds 1 + 2^-53 -/
theorem oor_snap_pos (num scale : Nat) :
    oor SQ.le sqZero sqOne (snap (false, ⟨num, scale⟩)) = decide (num * 2 ^ 53 > (2 ^ 53 + 1) * 10 ^ scale) := by
  simp only [snap]
  generalize hden : 10 ^ scale = den
  by_cases h : num * 2 ^ 53 > (2 ^ 53 + 1) * den
  · have : ¬ num ≤ den := by
      intro hle
      have := Nat.mul_le_mul_right (2 ^ 53) hle
      simp only [Nat.reducePow] at h this
      omega
    simp only [h, if_true, oor_pos, decide_true]
    simpa [Accept.Q.le, Accept.Q.one, hden] using this
  · by_cases h2 : num > den
    · simp [h, h2, oor_pos, Accept.Q.le, Accept.Q.one]
    · simp only [h, h2, if_false, oor_pos, decide_false]
      simpa [Accept.Q.le, Accept.Q.one, hden] using h2

/-- The order comparison `not (0 <= q) or not (q <= 1)` on the snapped value of a regex match is
exactly C06's `Http.qOutOfRange` on the three groups of the match. -/
theorem oor_snap (neg : Bool) (ip fp : Str) :
    oor SQ.le sqZero sqOne (snap (neg, ⟨Http.digitsVal (ip ++ fp), fp.length⟩)) = Http.qOutOfRange neg ip fp := by
  unfold Http.qOutOfRange
  cases neg with
  | true => simp only [oor_snap_neg, if_true]
  | false => simp only [oor_snap_pos, Bool.false_eq_true, if_false]



/-- Float versus exact comparison: whatever the float range check rejects the exact decimal check
rejects too (rounding moves values *into* `[0, 1]`, never out of it). The converse fails exactly in
the two rounding bands. -/
theorem oor_snap_imp (x : SQ) (h : oor SQ.le sqZero sqOne (snap x) = true) :
    oor SQ.le sqZero sqOne x = true := by
  obtain ⟨neg, q⟩ := x
  cases neg with
  | true =>
    simp only [snap] at h
    split at h
    · exact h
    · rw [oor_neg] at h; cases h
  | false =>
    simp only [snap] at h
    split at h
    · exact h
    · split at h
      · rename_i h2
        rw [oor_pos] at h ⊢
        simp only [Accept.Q.le, Accept.Q.one] at h ⊢
        simp at h
      · exact h

/-! ### part 1: model (a), `Http.parseAcceptHeader` -/

/-- the quality type for model (a): what `float(q_str)` remembers for this function - the text it
came from (model (a) reports the quality as its text) and the value as far as `q < 0 or q > 1` can
see it (`snap` of the exact decimal) -/
abbrev FQ := Str × SQ
/-- `<=` on these floats: the order of the values (the text plays no role) -/
def FQ.le (a b : FQ) : Bool := SQ.le a.2 b.2
/-- the literal `0` -/
def fqZero : FQ := (['0'], sqZero)
/-- the literal `1` of `q = 1` (model (a) prints the default quality as `"1"`) -/
def fqOne : FQ := (['1'], sqOne)
/-- `float(q_str)`: correctly rounded, as far as the range check can see -/
def floatOf (s : Str) : FQ := (s, snap (exactOf s))
/-- forget the value, keep the text: the pair as model (a) reports it -/
def txt (p : Str × FQ) : Str × Str := (p.1, p.2.1)

/-- With this instantiation the translated range check `q < 0 or q > 1` is `Http.qOutOfRange` on
every text that `_q_value_re` matches. -/
theorem oor_floatOf (s : Str) (neg : Bool) (ip fp : Str) (h : Http.qParts? s = some (neg, ip, fp)) :
    oor FQ.le fqZero fqOne (floatOf s) = Http.qOutOfRange neg ip fp := by
  rw [← oor_snap]
  simp only [floatOf, exactOf, h]
  rfl

/-- the tail of model (a)'s `acceptItem`, as its `do` block elaborates -/
theorem finishItem_txt (i : Str) (o : List (Str × Str)) (q : FQ) :
    (if (!o.isEmpty) = true then do
        let item ← Http.dumpOptionsHeader (some i) (o.map fun (k, x) => (k, some x))
        pure (some (item, q.1))
      else pure (some (i, q.1)) : Except String (Option (Str × Str)))
      = (finishItem i o q).map (Option.map txt) := by
  unfold finishItem
  by_cases ho : o.isEmpty = true
  · simp [ho, txt, Except.map, pure, Except.pure]
  · simp only [ho, Bool.not_false, Bool.false_eq_true, if_true, if_false]
    cases Http.dumpOptionsHeader (some i) (o.map fun kv => (kv.1, some kv.2)) <;> rfl

/-- One item: model (a)'s `Http.acceptItem` is the translated loop body (`itemStep`) at the
instantiation `FQ`, value and exception. -/
theorem acceptItem_eq (item : Str) :
    Http.acceptItem item = (itemStep FQ.le fqZero fqOne floatOf item).map (Option.map txt) := by
  unfold Http.acceptItem itemStep
  cases hp : Http.parseOptionsHeader item with
  | error e => rfl
  | ok io =>
    obtain ⟨i, o⟩ := io
    simp only [Http.ok_bind, itemOf]
    cases hq : Http.dictGet? o ['q'] with
    | none =>
      simp only [Http.ok_bind, Http.pure_eq_ok]
      exact finishItem_txt i o fqOne
    | some qs =>
      simp only [Http.strip]
      cases hqp : Http.qParts? (Py.strip qs) with
      | none => rfl
      | some t =>
        obtain ⟨neg, ip, fp⟩ := t
        simp only [Option.isNone_some, Bool.false_eq_true, if_false, oor_floatOf _ _ _ _ hqp]
        by_cases hr : Http.qOutOfRange neg ip fp = true
        · simp only [hr, if_true]; rfl
        · simp only [hr, Bool.false_eq_true, if_false, Http.ok_bind, Http.pure_eq_ok]
          exact finishItem_txt i (Http.dictPop o ['q']) (floatOf (Py.strip qs))


/-- `mapM` of a post-composed function -/
theorem mapM_map {α β γ : Type} (f : α → Except String β) (g : β → γ) (l : List α) :
    l.mapM (fun a => (f a).map g) = (l.mapM f).map (List.map g) := by
  induction l with
  | nil => rfl
  | cons a t ih =>
    simp only [List.mapM_cons, ih]
    cases f a with
    | error e => rfl
    | ok b => cases t.mapM f <;> rfl

/-- dropping the `None`s commutes with mapping -/
theorem filterMap_id_map {β γ : Type} (g : β → γ) (l : List (Option β)) :
    l.filterMap (Option.map g) = (l.filterMap id).map g := by
  induction l with
  | nil => rfl
  | cons a t ih => cases a <;> simp [ih]

/-- **Part 1.** `parse_accept_header(value)`, as translated from the current source, at the
instantiation `FQ` (quality = text + correctly rounded value as far as `< 0` / `> 1` can see it),
for every header text whose list items fit the fuel: the items handed to the `Accept` class, with
the quality read back as its text, are exactly the pairs C06/C07's `Http.parseAcceptHeader`
returns, in the same order (the class sorts afterwards); exceptions included (there are none:
`parse_accept_header_total`). The empty text gives `cls(None)`. Every C06 / C07 / C15 theorem about
`Http.parseAcceptHeader` therefore speaks about the current source. Assumption that stays outside
(validated by the oracle): `float()` of a text matching `_q_value_re` is correctly rounded. -/
theorem parse_accept_header_eq_http_of_items (fuel : Nat) (v : Str)
    (hf : ∀ item ∈ Http.parseListHeader v, item.length ≤ fuel) :
    (parse_accept_header fuel FQ.le fqZero fqOne floatOf (some v) ()).map (Option.map (List.map txt))
      = if v.isEmpty then .ok none else (Http.parseAcceptHeader v).map some := by
  rw [parse_accept_header_gen FQ.le fqZero fqOne floatOf fuel v hf]
  by_cases hv : v.isEmpty = true
  · simp [hv, Except.map]
  · simp only [hv, Bool.false_eq_true, if_false]
    unfold Http.parseAcceptHeader
    have e : Http.acceptItem = fun a => (itemStep FQ.le fqZero fqOne floatOf a).map (Option.map txt) :=
      funext acceptItem_eq
    simp only [hv, Bool.false_eq_true, if_false, e, mapM_map]
    cases (Http.parseListHeader v).mapM (itemStep FQ.le fqZero fqOne floatOf) with
    | error e => rfl
    | ok l =>
      simp only [Except.map, bind, Except.bind, pure, Except.pure, List.filterMap_map, Function.comp_def, id]
      rw [Option.map_some, ← filterMap_id_map]


/-- **Part 1**, with the fuel bound `len(value) ≤ fuel`. -/
theorem parse_accept_header_eq_http (fuel : Nat) (v : Str) (hf : v.length ≤ fuel) :
    (parse_accept_header fuel FQ.le fqZero fqOne floatOf (some v) ()).map (Option.map (List.map txt))
      = if v.isEmpty then .ok none else (Http.parseAcceptHeader v).map some :=
  parse_accept_header_eq_http_of_items fuel v (fun item h => Nat.le_trans (parseListHeader_length v item h) hf)

/-! ### part 2: model (b), `Accept.acceptItem` / `Accept.parseAcceptRaw`

Instantiation: `κ := SQ` (sign and exact decimal magnitude), `qle := SQ.le`, `qzero := sqZero`,
`qone := sqOne`, `float_of := exactOf` - `float` and float comparison behave like exact decimal
arithmetic, which is the documented assumption of `Model/Accept.lean`. -/

/-- `\d` of `_q_value_re` (re.ASCII; table regenerated from the live pattern) is `[0-9]` -/
theorem qDigit_tbl : Gen.Http.qHigh = false ∧
    ∀ n, n < 256 → Http.tbl Gen.Http.qDigit n = (decide (48 ≤ n) && decide (n ≤ 57)) := by
  refine ⟨by decide, ?_⟩
  decide +kernel

/-- the digit class of model (a) (generated table) is the digit class of model (b) (`'0' ≤ c ≤ '9'`) -/
theorem isQDigit_eq (c : Char) : Http.isQDigit c = Accept.isDigitA c := by
  unfold Http.isQDigit Http.cls Accept.isDigitA
  have e0 : ('0' ≤ c) ↔ 48 ≤ c.toNat := by
    rw [Char.le_def]; exact UInt32.le_iff_toNat_le
  have e9 : (c ≤ '9') ↔ c.toNat ≤ 57 := by
    rw [Char.le_def]; exact UInt32.le_iff_toNat_le
  by_cases hlt : c.toNat < 256
  · simp only [hlt, if_true, qDigit_tbl.2 _ hlt, e0, e9]
  · simp only [hlt, if_false, qDigit_tbl.1, e0, e9]
    have : ¬ c.toNat ≤ 57 := by omega
    simp [this]

/-- the two models read a digit string as the same number -/
theorem digitsVal_eq (ds : Str) : Http.digitsVal ds = Accept.digitsVal ds := by
  unfold Http.digitsVal Accept.digitsVal Nat.ofDigitChars
  rfl

theorem isQDigit_fun : Http.isQDigit = Accept.isDigitA := funext isQDigit_eq

/-- model (b)'s range check on the three groups of a `_q_value_re` match: a minus sign only in front
of zero, and at most 1 -/
def rangeQ (t : Bool × Str × Str) : Option Accept.Q :=
  let q : Accept.Q := ⟨Http.digitsVal (t.2.1 ++ t.2.2), t.2.2.length⟩
  if t.1 && q.num != 0 then none else if q.le Accept.Q.one then some q else none

/-- `_q_value_re.fullmatch` after the optional sign -/
def qBody? (neg : Bool) (r : Str) : Option (Bool × Str × Str) :=
  let ip := r.takeWhile Http.isQDigit
  if ip.isEmpty then none else
  match r.dropWhile Http.isQDigit with
  | [] => some (neg, ip, [])
  | '.' :: f => if !f.isEmpty && f.all Http.isQDigit then some (neg, ip, f) else none
  | _ => none

/-- model (b)'s `parseQBody` is model (a)'s regex followed by the range check -/
theorem parseQBody_eq (neg : Bool) (body : Str) :
    Accept.parseQBody neg body = (qBody? neg body).bind rangeQ := by
  unfold Accept.parseQBody qBody?
  simp only [isQDigit_fun]
  generalize body.takeWhile Accept.isDigitA = ip
  generalize body.dropWhile Accept.isDigitA = rest
  by_cases hip : ip.isEmpty = true
  · simp [hip]
  · simp only [hip, Bool.false_eq_true, if_false]
    cases rest with
    | nil => simp [rangeQ, digitsVal_eq]
    | cons c fr =>
      by_cases hc : c = '.'
      · subst hc
        by_cases hf : (!fr.isEmpty && fr.all Accept.isDigitA) = true
        · simp only [hf, if_true, Option.bind_some, rangeQ, digitsVal_eq]
        · simp only [hf, Bool.false_eq_true, if_false, Option.bind_none]
      · have e2 : (match c :: fr with
            | [] => some (neg, ip, [])
            | '.' :: f => if (!f.isEmpty && f.all Accept.isDigitA) = true then some (neg, ip, f) else none
            | _ => none : Option (Bool × Str × Str)) = none := by
          split
          · rename_i h; cases h
          · rename_i h; simp only [List.cons.injEq] at h; exact absurd h.1 hc
          · rfl
        simp only [e2, Option.bind_none]
        split
        · rfl
        · rename_i fr' heq
          split at heq
          · rename_i h; cases h
          · rename_i h; simp only [List.cons.injEq] at h; exact absurd h.1 hc
          · cases heq

/-- model (a)'s `qParts?`: the optional sign, then `qBody?` -/
theorem qParts?_eq (s : Str) :
    Http.qParts? s = qBody? (s.head? == some '-') (if (s.head? == some '-') then s.drop 1 else s) := by
  unfold Http.qParts? qBody?
  cases s with
  | nil => rfl
  | cons c t =>
    by_cases hc : c = '-'
    · subst hc; rfl
    · have h1 : ((c :: t).head? == some '-') = false := by simpa using hc
      simp only [h1, Bool.false_eq_true, if_false]
      split
      · rename_i r heq; simp only [List.cons.injEq] at heq; exact absurd heq.1 hc
      · rfl

/-- C17's `Accept.parseQ` (regex + `float` + range check in one function) is C06's regex model
`Http.qParts?` - the `qValueReFullmatch` of the translation - followed by the exact range check. -/
theorem parseQ_eq (s : Str) : Accept.parseQ s = (Http.qParts? s).bind rangeQ := by
  rw [qParts?_eq, ← parseQBody_eq]; rfl

/-- model (b)'s range check is the translated `q < 0 or q > 1` on the signed exact decimal -/
theorem rangeQ_eq (t : Bool × Str × Str) :
    rangeQ t = if oor SQ.le sqZero sqOne (t.1, ⟨Http.digitsVal (t.2.1 ++ t.2.2), t.2.2.length⟩) then none
      else some ⟨Http.digitsVal (t.2.1 ++ t.2.2), t.2.2.length⟩ := by
  obtain ⟨neg, ip, fp⟩ := t
  unfold rangeQ
  cases neg with
  | true =>
    simp only [oor_neg, Bool.true_and]
    by_cases h : Http.digitsVal (ip ++ fp) = 0
    · simp [h, Accept.Q.le, Accept.Q.one]
    · simp [h]
  | false =>
    simp only [oor_pos, Bool.false_and, Bool.false_eq_true, if_false]
    cases Accept.Q.le ⟨Http.digitsVal (ip ++ fp), fp.length⟩ Accept.Q.one <;> rfl

/-- forget the sign (it is only ever in front of a zero): the pair as model (b) reports it -/
def mag (p : Str × SQ) : Str × Accept.Q := (p.1, p.2.2)

/-- the two `dump_options_header` models (C06's, which can raise `IndexError`, and C17's, which is
total) print the same text for this header and these options; holds whenever no key is empty:
`dumpAgrees_of_keys` -/
def DumpAgrees (i : Str) (o : List (Str × Str)) : Prop :=
  Http.dumpOptionsHeader (some i) (o.map fun kv => (kv.1, some kv.2)) = .ok (Accept.dumpOptionsHeader i o)

/-- the tail of the loop body under agreement of the dumpers -/
theorem finishItem_mag (i : Str) (o : List (Str × Str)) (q : SQ) (hd : o ≠ [] → DumpAgrees i o) :
    finishItem i o q = .ok (some (if o.isEmpty then i else Accept.dumpOptionsHeader i o, q)) := by
  unfold finishItem
  cases o with
  | nil => rfl
  | cons a t =>
    have := hd (by simp)
    unfold DumpAgrees at this
    simp only [List.isEmpty_cons, Bool.false_eq_true, if_false, this]

/-- removing a key that is not there changes nothing -/
theorem filter_of_get_none (o : List (Str × Str)) (k : Str) (h : Http.dictGet? o k = none) :
    o.filter (·.1 != k) = o := by
  unfold Http.dictGet? at h
  simp only [Option.map_eq_none_iff, List.find?_eq_none] at h
  apply List.filter_eq_self.mpr
  intro a ha
  have := h a ha
  simpa using this

/-- **Part 2, loop body.** With the options of the item already parsed - `parse_options_header(item)
= (i, o)` -, the translated loop body (`"q" in options`, `options.pop("q").strip()`,
`_q_value_re.fullmatch`, `float`, `q < 0 or q > 1`, `dump_options_header(item, options)` when
options remain) at the exact-decimal instantiation contributes exactly what C17's
`Accept.acceptItem i o` contributes: nothing for a malformed or out-of-range q, else the
reconstructed item with the quality as the exact decimal (sign forgotten: it only survives in front
of zero) - provided the two models of `dump_options_header` agree on the remaining options
(`dumpAgrees_of_keys`: they do when no key is empty). -/
theorem itemOf_eq_accept (i : Str) (o : List (Str × Str))
    (hd : o.filter (·.1 != Accept.qKey) ≠ [] → DumpAgrees i (o.filter (·.1 != Accept.qKey))) :
    (itemOf SQ.le sqZero sqOne exactOf i o).map (Option.map mag) = .ok (Accept.acceptItem i o) := by
  unfold itemOf Accept.acceptItem
  have e : Accept.dictGet o Accept.qKey = Http.dictGet? o ['q'] := rfl
  rw [e]
  cases hq : Http.dictGet? o ['q'] with
  | none =>
    have hfil := filter_of_get_none o ['q'] hq
    have hfil' : o.filter (·.1 != Accept.qKey) = o := hfil
    rw [hfil'] at hd
    simp only [finishItem_mag i o sqOne hd]
    rfl
  | some qs =>
    simp only [parseQ_eq]
    cases hqp : Http.qParts? (Py.strip qs) with
    | none => rfl
    | some t =>
      simp only [Option.isNone_some, Bool.false_eq_true, if_false, Option.bind_some, rangeQ_eq]
      have ex : exactOf (Py.strip qs) = (t.1, ⟨Http.digitsVal (t.2.1 ++ t.2.2), t.2.2.length⟩) := by
        simp only [exactOf, hqp]
      rw [ex]
      by_cases hr : oor SQ.le sqZero sqOne (t.1, ⟨Http.digitsVal (t.2.1 ++ t.2.2), t.2.2.length⟩) = true
      · simp only [hr, if_true]; rfl
      · simp only [hr, Bool.false_eq_true, if_false]
        have ep : Http.dictPop o ['q'] = o.filter (·.1 != Accept.qKey) := rfl
        rw [ep, finishItem_mag i _ _ hd]
        rfl


/-- what model (b) does with one lexed `(item, options)` pair -/
def accOf (io : Str × List (Str × Str)) : Option (Str × Accept.Q) := Accept.acceptItem io.1 io.2

/-- the loop body on an unparsed item: C06's `parseOptionsHeader`, then model (b)'s `acceptItem` -/
theorem itemStep_eq_accept (item : Str)
    (hd : ∀ i o, Http.parseOptionsHeader item = .ok (i, o) →
      o.filter (·.1 != Accept.qKey) ≠ [] → DumpAgrees i (o.filter (·.1 != Accept.qKey))) :
    (itemStep SQ.le sqZero sqOne exactOf item).map (Option.map mag)
      = (Http.parseOptionsHeader item).map accOf := by
  unfold itemStep
  cases hp : Http.parseOptionsHeader item with
  | error e => rfl
  | ok io =>
    obtain ⟨i, o⟩ := io
    exact itemOf_eq_accept i o (hd i o hp)

/-- `mapM` only looks at the function on the members -/
theorem mapM_congr_mem {α β : Type} (f g : α → Except String β) (l : List α) (h : ∀ a ∈ l, f a = g a) :
    l.mapM f = l.mapM g := by
  induction l with
  | nil => rfl
  | cons a t ih =>
    simp only [List.mapM_cons, h a (by simp), ih (fun x hx => h x (by simp [hx]))]

/-- model (b)'s `acceptItems` as map-then-drop -/
theorem acceptItems_eq (l : List (Str × List (Str × Str))) :
    Accept.acceptItems l = (l.map accOf).filterMap id := by
  unfold Accept.acceptItems
  simp only [List.filterMap_map, Function.comp_def, id, accOf]

/-- Composition, with the agreement of the dumpers still a hypothesis: see
`parse_accept_header_eq_raw_of_items` / `parse_accept_header_eq_raw`, where it is discharged. -/
theorem parse_accept_header_eq_raw_of_dump (fuel : Nat) (v : Str)
    (hf : ∀ item ∈ Http.parseListHeader v, item.length ≤ fuel)
    (hlex : Accept.lexHeader v = (Http.parseListHeader v).mapM Http.parseOptionsHeader)
    (hd : ∀ item ∈ Http.parseListHeader v, ∀ i o, Http.parseOptionsHeader item = .ok (i, o) →
      o.filter (·.1 != Accept.qKey) ≠ [] → DumpAgrees i (o.filter (·.1 != Accept.qKey))) :
    (parse_accept_header fuel SQ.le sqZero sqOne exactOf (some v) ()).map (Option.map (List.map mag))
      = if v.isEmpty then .ok none else (Accept.parseAcceptRaw v).map some := by
  rw [parse_accept_header_gen SQ.le sqZero sqOne exactOf fuel v hf]
  by_cases hv : v.isEmpty = true
  · simp [hv, Except.map]
  · unfold Accept.parseAcceptRaw
    simp only [hv, Bool.false_eq_true, if_false, hlex]
    have key : ((Http.parseListHeader v).mapM (itemStep SQ.le sqZero sqOne exactOf)).map (List.map (Option.map mag))
        = ((Http.parseListHeader v).mapM Http.parseOptionsHeader).map (List.map accOf) := by
      rw [← mapM_map, ← mapM_map]
      exact mapM_congr_mem _ _ _ (fun a ha => itemStep_eq_accept a (hd a ha))
    cases h1 : (Http.parseListHeader v).mapM (itemStep SQ.le sqZero sqOne exactOf) with
    | error e =>
      rw [h1] at key
      cases h2 : (Http.parseListHeader v).mapM Http.parseOptionsHeader with
      | error e' => rw [h2] at key; simp only [Except.map] at key ⊢; cases key; rfl
      | ok l' => rw [h2] at key; cases key
    | ok l =>
      rw [h1] at key
      cases h2 : (Http.parseListHeader v).mapM Http.parseOptionsHeader with
      | error e' => rw [h2] at key; cases key
      | ok l' =>
        rw [h2] at key
        simp only [Except.map, Except.ok.injEq] at key ⊢
        rw [acceptItems_eq, ← key, Option.map_some, List.filterMap_map, ← filterMap_id_map]
        rfl


/-! ### the two dumpers -/

/-- `_token_chars` (generated table) is C17's `[\w!#$%&'*+\-.^`|~]` under re.ASCII -/
theorem token_tbl : Gen.Http.tokenHigh = false ∧
    ∀ n, n < 256 → Http.tbl Gen.Http.tokenTbl n = Accept.isTokChar (Char.ofNat n) := by
  refine ⟨by decide, ?_⟩
  decide +kernel

/-- C17's token class is ASCII only -/
theorem isTokChar_high (c : Char) (h : ¬ c.toNat < 256) : Accept.isTokChar c = false := by
  have h' : 256 ≤ c.val.toNat := by
    have : c.toNat = c.val.toNat := rfl
    omega
  have hne : ∀ d : Char, d.toNat < 256 → (c == d) = false := by
    intro d hd
    rw [beq_eq_false_iff_ne]
    intro e; subst e; exact h hd
  unfold Accept.isTokChar Char.isAlphanum Char.isAlpha Char.isUpper Char.isLower Char.isDigit
  simp only [Accept.tokPunct, List.contains_cons, List.contains_nil, Bool.or_false,
    UInt32.le_iff_toNat_le, ge_iff_le]
  simp [hne]
  omega

/-- `c in _token_chars`: the two models agree on every character -/
theorem isToken_eq (c : Char) : Http.isToken c = Accept.isTokChar c := by
  unfold Http.isToken Http.cls
  by_cases hlt : c.toNat < 256
  · simp only [hlt, if_true, token_tbl.2 _ hlt, Char.ofNat_toNat]
  · simp only [hlt, if_false, token_tbl.1, isTokChar_high c hlt]

/-- `str.replace` with a one-character pattern: C17's fuelled scanner is C06's `flatMap` -/
theorem replaceAll_single (a : Char) (rep : Str) (s : Str) : ∀ fuel, s.length < fuel →
    Accept.replaceAll [a] rep fuel s = Http.replace1 a rep s := by
  induction s with
  | nil => intro fuel h; cases fuel <;> simp [Accept.replaceAll, Http.replace1]
  | cons c t ih =>
    intro fuel h
    cases fuel with
    | zero => simp at h
    | succ f =>
      have ht : t.length < f := by simp at h; omega
      have ih' := ih f ht
      unfold Http.replace1 at ih' ⊢
      rw [Accept.replaceAll]
      by_cases hc : a = c
      · subst hc; simp [ih']
      · have h2 : ¬ c = a := fun e => hc e.symm
        simp [hc, h2, ih']

/-- the same for C17's `pyReplace` (fuel `len(s) + 1`) -/
theorem pyReplace_single (a : Char) (rep s : Str) : Accept.pyReplace [a] rep s = Http.replace1 a rep s :=
  replaceAll_single a rep s _ (Nat.lt_succ_self _)

/-- `quote_header_value(value)`: the two models print the same text for every value -/
theorem quoteHeaderValue_eq (v : Str) : Accept.quoteHeaderValue v = Http.quoteHeaderValue v := by
  unfold Accept.quoteHeaderValue Http.quoteHeaderValue Http.escapeDq
  have e : Http.isToken = Accept.isTokChar := funext isToken_eq
  simp only [pyReplace_single, e, Bool.true_and]

/-- C06's `optionSegment` on `str` values with non-empty keys never raises and prints C17's segment -/
theorem mapM_optionSegment (o : List (Str × Str)) (hk : ∀ x ∈ o, x.1 ≠ []) :
    (o.map fun kv => (kv.1, some kv.2)).mapM Http.optionSegment =
      .ok (o.map fun kv => some (if kv.1.getLast? == some '*' then kv.1 ++ '=' :: kv.2
        else kv.1 ++ '=' :: Accept.quoteHeaderValue kv.2)) := by
  induction o with
  | nil => rfl
  | cons a t ih =>
    have ha : a.1 ≠ [] := hk a (by simp)
    have ih' := ih (fun x hx => hk x (by simp [hx]))
    simp only [List.map_cons, List.mapM_cons, ih']
    unfold Http.optionSegment Http.last!
    cases hl : a.1.getLast? with
    | none => rw [List.getLast?_eq_none_iff] at hl; exact absurd hl ha
    | some l =>
      by_cases hs : l = '*'
      · subst hs; simp [bind, Except.bind, pure, Except.pure]
      · simp [hs, bind, Except.bind, pure, Except.pure, quoteHeaderValue_eq]


/-- `filterMap` of a function that always answers `some` -/
theorem filterMap_some_fun {α β : Type} (g : α → β) (l : List α) :
    l.filterMap (fun a => some (g a)) = l.map g := by
  induction l <;> simp_all

/-- `dump_options_header(header, options)` for `str` values: C06's model (`Http.dumpOptionsHeader`,
proved equal to the translated source in `Props/C06T`) and C17's model
(`Accept.dumpOptionsHeader`) print the same text whenever no key is empty - which is what
`parse_options_header` guarantees (C07 `parseOptions_keys_nonempty`). `key*` parameters included. -/
theorem dumpAgrees_of_keys (i : Str) (o : List (Str × Str)) (hk : ∀ x ∈ o, x.1 ≠ []) : DumpAgrees i o := by
  unfold DumpAgrees Http.dumpOptionsHeader Accept.dumpOptionsHeader Http.join
  have e : "; ".toList = ([';', ' '] : Str) := by decide
  simp only [mapM_optionSegment o hk, bind, Except.bind, pure, Except.pure, e, List.filterMap_map,
    Function.comp_def, id, List.cons_append, List.nil_append, filterMap_some_fun]

/-- **Part 2, one turn of the loop.** If `parse_options_header(item)` is `(i, o)` (C06's model =
the translated function; when C17's lexer `Accept.parseOptionsHeader item` gives the same pair this
is what C17 feeds to `acceptItem`), then the turn of the translated loop for this item, at the
exact-decimal instantiation, appends exactly the contribution `Accept.acceptItem i o` of C17's model
(nothing or one pair, the sign forgotten) and goes on. No hypothesis about the dumpers is needed:
the keys `parse_options_header` returns are never empty. -/
theorem loop1_cons_accept (fuel : Nat) (item : Str) (rest : List Str) (result : List (Str × SQ))
    (i : Str) (o : List (Str × Str)) (hf : item.length ≤ fuel)
    (hp : Http.parseOptionsHeader item = .ok (i, o)) :
    ∃ c : Option (Str × SQ), c.map mag = Accept.acceptItem i o ∧
      parse_accept_header.loop1 fuel SQ.le sqZero sqOne exactOf (item :: rest) result =
        parse_accept_header.loop1 fuel SQ.le sqZero sqOne exactOf rest (result ++ c.toList) := by
  have hk := Http.parseOptionsHeader_keys item i o hp
  have h := itemOf_eq_accept i o (fun _ => dumpAgrees_of_keys i _
    (fun x hx => hk x (List.mem_filter.mp hx).1))
  rw [loop1_step SQ.le sqZero sqOne exactOf fuel item rest result hf]
  unfold itemStep
  rw [hp]
  cases hc : itemOf SQ.le sqZero sqOne exactOf i o with
  | error e => rw [hc] at h; cases h
  | ok c =>
    rw [hc] at h
    simp only [Except.map, Except.ok.injEq] at h
    refine ⟨c, h, ?_⟩
    cases c <;> simp [hc]

/-- **Part 2, composition** (list items fit the fuel). -/
theorem parse_accept_header_eq_raw_of_items (fuel : Nat) (v : Str)
    (hf : ∀ item ∈ Http.parseListHeader v, item.length ≤ fuel)
    (hlex : Accept.lexHeader v = (Http.parseListHeader v).mapM Http.parseOptionsHeader) :
    (parse_accept_header fuel SQ.le sqZero sqOne exactOf (some v) ()).map (Option.map (List.map mag))
      = if v.isEmpty then .ok none else (Accept.parseAcceptRaw v).map some := by
  apply parse_accept_header_eq_raw_of_dump fuel v hf hlex
  intro item _ i o hp _
  apply dumpAgrees_of_keys
  intro x hx
  exact Http.parseOptionsHeader_keys item i o hp x (List.mem_filter.mp hx).1


/-- **Part 2.** `parse_accept_header(value)`, as translated from the current source, at the
exact-decimal instantiation (`κ := SQ`: `float` and float comparison as exact signed decimal
arithmetic - the documented assumption of C17's model), for every header text with `len(value) ≤
fuel` on which C17's own lexical layer agrees with C06's (`Accept.lexHeader v` = C06's
`parse_list_header` followed by `parse_options_header` on every item; false e.g. for RFC 2231
`key*` parameters, where C17's lexer answers `UNSUPPORTED`): the items handed to the `Accept` class,
the sign of a `-0` forgotten, are exactly the list `Accept.parseAcceptRaw v` that C17's negotiation
theorems start from (the class sorts it: `Accept.parseAccept`). The empty text gives `cls(None)`. -/
theorem parse_accept_header_eq_raw (fuel : Nat) (v : Str) (hf : v.length ≤ fuel)
    (hlex : Accept.lexHeader v = (Http.parseListHeader v).mapM Http.parseOptionsHeader) :
    (parse_accept_header fuel SQ.le sqZero sqOne exactOf (some v) ()).map (Option.map (List.map mag))
      = if v.isEmpty then .ok none else (Accept.parseAcceptRaw v).map some :=
  parse_accept_header_eq_raw_of_items fuel v
    (fun item h => Nat.le_trans (parseListHeader_length v item h) hf) hlex

/-! ### examples -/

/-- the lexer hypothesis of part 2 on a concrete header -/
example : Accept.lexHeader "text/html;q=0.5, a/b;level=1".toList
    = (Http.parseListHeader "text/html;q=0.5, a/b;level=1".toList).mapM Http.parseOptionsHeader := by
  decide +kernel

/-- ... and where it fails: an RFC 2231 parameter (CPython: `[('a; x=A', 0.5)]`, which is what
model (a) and the translation give; C17's lexer is outside its domain) -/
example : Accept.lexHeader "a;x*=utf-8''%41;q=0.5".toList = .error "UNSUPPORTED" := by
  decide +kernel
example : (Http.parseListHeader "a;x*=utf-8''%41;q=0.5".toList).mapM Http.parseOptionsHeader
      = .ok [("a".toList, [("x".toList, "A".toList), ("q".toList, "0.5".toList)])] := by
  decide +kernel

/-- the rounding band above 1: `q=1.0000000000000001` is in range for the float comparison
(CPython keeps the item with quality 1.0) and out of range for exact decimals (model (b) drops it) -/
example : oor FQ.le fqZero fqOne (floatOf "1.0000000000000001".toList) = false ∧
    oor SQ.le sqZero sqOne (exactOf "1.0000000000000001".toList) = true ∧
    oor FQ.le fqZero fqOne (floatOf "1.0000000000000003".toList) = true := by
  decide +kernel

/-- `-0` passes both checks; `-0.1` neither -/
example : oor FQ.le fqZero fqOne (floatOf "-0".toList) = false ∧
    oor SQ.le sqZero sqOne (exactOf "-0".toList) = false ∧
    oor FQ.le fqZero fqOne (floatOf "-0.1".toList) = true ∧
    oor SQ.le sqZero sqOne (exactOf "-0.1".toList) = true := by
  decide +kernel

end Wz.PyFnsEq.AcceptHeader
