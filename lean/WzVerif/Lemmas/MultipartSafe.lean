/-
Which exceptions the decoder / parser model can raise, and how Field/File, Data and final Data events
alternate: the three model-internal error values ("AttributeError": `_parse_data(start=True)` on a
buffer that does not begin with a line break; "UnboundLocalError": a Data event before any Field/File
event; "FUEL": the event bound of `drain`) are unreachable from `mkDecoder`, and the number of fields
and files `MultiPartParser.parse` returns is bounded by the decoder's part counter. Core Lean only.
-/
import WzVerif.Lemmas.FormLimits
import WzVerif.Lemmas.Multipart
import WzVerif.Lemmas.MultipartChunks
namespace Wz.Multipart
open Wz

/-- the decoder is inside a part body -/
def openS (d : Decoder) : Bool := d.state == .dataStart || d.state == .data

def isFinal : Event → Bool
  | .data _ false => true
  | _ => false

def isData : Event → Bool
  | .data _ _ => true
  | _ => false

theorem dataStep_waiting {bnd buf p buf' : Bytes} {start : Bool} {nx : Option Bool}
    (h : dataStep bnd start buf = .ok (p, buf', true, nx)) : nx = none ∧ buf' = buf := by
  unfold dataStep at h
  cases hp : parseData bnd buf start with
  | error e => rw [hp] at h; simp at h
  | ok r =>
    rw [hp] at h
    simp only at h
    split at h
    · simp at h; exact ⟨h.2.2.symm, h.2.1.symm⟩
    · simp at h

theorem stepData_shape {d d' : Decoder} {start : Bool} {ev : Event} (h : stepData d start = .ok (ev, d')) :
    isPart ev = false ∧
    (∀ x more, ev = .data x more → openS d' = more) ∧
    (isData ev = false → openS d' = true) := by
  unfold stepData at h
  cases hds : dataStep d.boundary start d.buffer with
  | error e => rw [hds] at h; simp at h
  | ok r =>
    rcases r with ⟨p, buf', start', nx⟩
    rw [hds] at h
    simp only at h
    cases start' with
    | true =>
      have hnx := (dataStep_waiting hds).1
      subst hnx
      simp at h; rcases h with ⟨rfl, rfl⟩
      exact ⟨rfl, (fun x more he => by cases he), (fun _ => by simp [openS])⟩
    | false =>
      simp only [Bool.false_eq_true, if_false] at h
      split at h
      · simp at h; rcases h with ⟨rfl, rfl⟩
        refine ⟨rfl, ?_, (fun hh => by simp [isData] at hh)⟩
        intro x more he
        simp only [Event.data.injEq] at he
        rcases he with ⟨_, rfl⟩
        cases nx with
        | none => simp [openS]
        | some f => cases f <;> simp [openS, afterDelim]
      · rename_i hcond
        simp at h; rcases h with ⟨rfl, rfl⟩
        have hnx : nx = none := by
          cases nx with
          | none => rfl
          | some f => simp at hcond
        subst hnx
        exact ⟨rfl, (fun x more he => by cases he), (fun _ => by simp [openS])⟩

/-- how one `next_event` moves the decoder in and out of a part body -/
theorem step_shape {d d' : Decoder} {ev : Event} (h : step d = .ok (ev, d')) :
    (isPart ev = true → openS d = false ∧ openS d' = true) ∧
    (∀ x more, ev = .data x more → openS d = true ∧ openS d' = more) ∧
    (isPart ev = false → isData ev = false → openS d' = openS d) := by
  cases hst : d.state with
  | preamble =>
    simp only [step, hst] at h
    split at h <;> (simp at h; rcases h with ⟨rfl, rfl⟩)
    · refine ⟨(fun hp => by simp [isPart] at hp), (fun x more he => by cases he), (fun _ _ => ?_)⟩
      simp only [openS, afterDelim, hst]
      split <;> rfl
    · exact ⟨(fun hp => by simp [isPart] at hp), (fun x more he => by cases he), (fun _ _ => by simp [openS, hst])⟩
  | dataStart =>
    simp only [step, hst] at h
    rcases stepData_shape h with ⟨h1, h2, h3⟩
    refine ⟨(fun hp => by rw [h1] at hp; cases hp), (fun x more he => ⟨by simp [openS, hst], h2 x more he⟩),
      (fun _ hd => by rw [h3 hd]; simp [openS, hst])⟩
  | data =>
    simp only [step, hst] at h
    rcases stepData_shape h with ⟨h1, h2, h3⟩
    refine ⟨(fun hp => by rw [h1] at hp; cases hp), (fun x more he => ⟨by simp [openS, hst], h2 x more he⟩),
      (fun _ hd => by rw [h3 hd]; simp [openS, hst])⟩
  | epilogue =>
    simp only [step, hst] at h
    split at h <;> (simp at h; rcases h with ⟨rfl, rfl⟩) <;>
      exact ⟨(fun hp => by simp [isPart] at hp), (fun x more he => by cases he),
        (fun _ _ => by simp only [openS, hst] <;> rfl)⟩
  | complete =>
    simp only [step, hst] at h
    simp at h; rcases h with ⟨rfl, rfl⟩
    exact ⟨(fun hp => by simp [isPart] at hp), (fun x more he => by cases he), (fun _ _ => by simp [openS, hst])⟩
  | part =>
    simp only [step, hst] at h
    cases hsb : searchBlankFrom d.searchPos d.buffer with
    | none =>
      rw [hsb] at h; simp at h; rcases h with ⟨rfl, rfl⟩
      exact ⟨(fun hp => by simp [isPart] at hp), (fun x more he => by cases he), (fun _ _ => by simp [openS, hst])⟩
    | some r =>
      rcases r with ⟨s, e⟩
      rw [hsb] at h
      simp only at h
      cases hph : parseHeaders (d.buffer.take s) with
      | error er => rw [hph] at h; simp at h
      | ok headers =>
        rw [hph] at h
        simp only at h
        cases hcd : headerGet "content-disposition".toList headers with
        | none => rw [hcd] at h; simp at h
        | some cd =>
          rw [hcd] at h
          simp only at h
          cases hpo : FormOptions.parseOptionsHeader cd with
          | error er => rw [hpo] at h; simp at h
          | ok r =>
            rcases r with ⟨v, extra⟩
            rw [hpo] at h
            simp only at h
            have hfin : ∀ (d2 : Decoder) (e2 : Event), d2.state = .dataStart →
                (e2 = (match FormOptions.lookup "filename".toList extra with
                  | some fn => Event.file (FormOptions.lookup "name".toList extra) fn headers
                  | none => Event.field (FormOptions.lookup "name".toList extra) headers)) →
                (isPart e2 = true → openS d = false ∧ openS d2 = true) ∧
                (∀ x more, e2 = .data x more → openS d = true ∧ openS d2 = more) ∧
                (isPart e2 = false → isData e2 = false → openS d2 = openS d) := by
              intro d2 e2 hd2 he2
              have hp : isPart e2 = true := by
                rw [he2]; cases FormOptions.lookup "filename".toList extra <;> rfl
              refine ⟨(fun _ => ⟨by simp [openS, hst], by simp [openS, hd2]⟩), ?_, (fun hh => by rw [hp] at hh; cases hh)⟩
              intro x more he
              rw [he] at hp
              simp [isPart] at hp
            cases hmp : d.maxParts with
            | none =>
              rw [hmp] at h
              simp at h; rcases h with ⟨rfl, rfl⟩
              exact hfin _ _ rfl rfl
            | some m =>
              rw [hmp] at h
              simp only at h
              split at h
              · simp at h
              · simp at h; rcases h with ⟨rfl, rfl⟩
                exact hfin _ _ rfl rfl

/-! ### accounting over `drain` / `feed` -/

def b2n (b : Bool) : Nat := if b then 1 else 0

def countFinal (evs : List Event) : Nat := (evs.filter isFinal).length

/-- has a Field / File event been seen (initially `seen`)? -/
def seenAfter (seen : Bool) (evs : List Event) : Bool := seen || evs.any isPart

/-- every Data event comes after a Field / File event (or `seen` holds from the start) -/
def okData (seen : Bool) : List Event → Bool
  | [] => true
  | ev :: t => if isPart ev then okData true t else if isData ev then seen && okData seen t else okData seen t

theorem okData_snoc (seen : Bool) (l : List Event) (ev : Event) :
    okData seen (l ++ [ev]) = (okData seen l && (!isData ev || isPart ev || seenAfter seen l)) := by
  induction l generalizing seen with
  | nil =>
    simp only [List.nil_append, okData, seenAfter, List.any_nil, Bool.or_false]
    cases isPart ev <;> cases isData ev <;> cases seen <;> rfl
  | cons a t ih =>
    simp only [List.cons_append, okData]
    by_cases hp : isPart a = true
    · simp only [hp, if_true, ih]
      simp [seenAfter, hp]
    · have hp' : isPart a = false := by simpa using hp
      simp only [hp', Bool.false_eq_true, if_false]
      by_cases hd : isData a = true
      · simp only [hd, if_true, ih]
        cases seen <;> simp [seenAfter, hp']
      · have hd' : isData a = false := by simpa using hd
        simp only [hd', Bool.false_eq_true, if_false, ih]
        simp [seenAfter, hp']

theorem seenAfter_snoc (seen : Bool) (l : List Event) (ev : Event) :
    seenAfter seen (l ++ [ev]) = (seenAfter seen l || isPart ev) := by
  simp [seenAfter, Bool.or_assoc]

theorem countFinal_snoc (l : List Event) (ev : Event) :
    countFinal (l ++ [ev]) = countFinal l + b2n (isFinal ev) := by
  simp only [countFinal, List.filter_append, List.length_append, List.filter_cons, List.filter_nil]
  cases isFinal ev <;> simp [b2n]

theorem countParts_snoc (l : List Event) (ev : Event) :
    countParts (l ++ [ev]) = countParts l + b2n (isPart ev) := by
  simp only [countParts, List.filter_append, List.length_append, List.filter_cons, List.filter_nil]
  cases isPart ev <;> simp [b2n]

/-- one `next_event`: the balance of parts opened and closed -/
theorem nextEvent_balance {d d' : Decoder} {ev : Event} (h : nextEvent d = .ok (ev, d')) :
    b2n (openS d') + b2n (isFinal ev) = b2n (openS d) + b2n (isPart ev) ∧
    (isData ev = true → openS d = true) ∧
    (openS d' = true → openS d = true ∨ isPart ev = true) := by
  rcases step_shape (nextEvent_ok h) with ⟨h1, h2, h3⟩
  cases ev with
  | field n hd =>
    rcases h1 rfl with ⟨a, b⟩
    exact ⟨by simp [a, b, b2n, isFinal, isPart], (fun hh => by simp [isData] at hh), (fun _ => Or.inr rfl)⟩
  | file n f hd =>
    rcases h1 rfl with ⟨a, b⟩
    exact ⟨by simp [a, b, b2n, isFinal, isPart], (fun hh => by simp [isData] at hh), (fun _ => Or.inr rfl)⟩
  | data x more =>
    rcases h2 x more rfl with ⟨a, b⟩
    refine ⟨?_, (fun _ => a), (fun _ => Or.inl a)⟩
    cases more <;> simp [a, b, b2n, isFinal, isPart]
  | preamble x =>
    have := h3 rfl rfl
    exact ⟨by simp [this, b2n, isFinal, isPart], (fun hh => by simp [isData] at hh), (fun hh => Or.inl (this ▸ hh))⟩
  | epilogue x =>
    have := h3 rfl rfl
    exact ⟨by simp [this, b2n, isFinal, isPart], (fun hh => by simp [isData] at hh), (fun hh => Or.inl (this ▸ hh))⟩
  | needData =>
    have := h3 rfl rfl
    exact ⟨by simp [this, b2n, isFinal, isPart], (fun hh => by simp [isData] at hh), (fun hh => Or.inl (this ▸ hh))⟩

/-- what a drain adds to the events delivered so far (`acc`, newest first) -/
theorem drain_account (seen : Bool) (fuel : Nat) : ∀ (d : Decoder) (acc : List Event),
    okData seen acc.reverse = true → (openS d = true → seenAfter seen acc.reverse = true) →
    okData seen (drain fuel d acc).events = true ∧
    (openS (drain fuel d acc).dec = true → seenAfter seen (drain fuel d acc).events = true) ∧
    countFinal (drain fuel d acc).events + b2n (openS (drain fuel d acc).dec) + countParts acc.reverse =
      countParts (drain fuel d acc).events + b2n (openS d) + countFinal acc.reverse := by
  induction fuel with
  | zero => intro d acc h1 h2; exact ⟨by simpa [drain] using h1, by simpa [drain] using h2, by simp [drain]; omega⟩
  | succ fuel ih =>
    intro d acc h1 h2
    simp only [drain]
    cases hn : nextEvent d with
    | error e => exact ⟨by simpa using h1, by simpa using h2, by simp; omega⟩
    | ok v =>
      rcases v with ⟨ev, d'⟩
      rcases nextEvent_balance hn with ⟨hb, hdat, hop⟩
      have hok' : okData seen (ev :: acc).reverse = true := by
        rw [List.reverse_cons, okData_snoc, h1]
        simp only [Bool.true_and]
        cases hd : isData ev with
        | false => simp
        | true => simp [h2 (hdat hd)]
      have hseen' : openS d' = true → seenAfter seen (ev :: acc).reverse = true := by
        intro ho
        rw [List.reverse_cons, seenAfter_snoc]
        rcases hop ho with h | h
        · simp [h2 h]
        · simp [h]
      have hcount : ∀ (r : Run),
          countFinal r.events + b2n (openS r.dec) + countParts (ev :: acc).reverse =
            countParts r.events + b2n (openS d') + countFinal (ev :: acc).reverse →
          countFinal r.events + b2n (openS r.dec) + countParts acc.reverse =
            countParts r.events + b2n (openS d) + countFinal acc.reverse := by
        intro r hr
        rw [List.reverse_cons, countParts_snoc, countFinal_snoc] at hr
        omega
      have hterm : okData seen (ev :: acc).reverse = true ∧
          (openS d' = true → seenAfter seen (ev :: acc).reverse = true) ∧
          countFinal (ev :: acc).reverse + b2n (openS d') + countParts acc.reverse =
            countParts (ev :: acc).reverse + b2n (openS d) + countFinal acc.reverse := by
        refine ⟨hok', hseen', ?_⟩
        rw [List.reverse_cons, countParts_snoc, countFinal_snoc]
        omega
      cases ev with
      | needData =>
        simp only
        refine ⟨h1, ?_, ?_⟩
        · intro ho
          have := hseen' ho
          rw [List.reverse_cons, seenAfter_snoc] at this
          simpa [isPart] using this
        · have := hterm.2.2
          rw [List.reverse_cons, countParts_snoc, countFinal_snoc] at this
          simp only [isPart, isFinal, b2n, Bool.false_eq_true, if_false, Nat.add_zero] at this
          exact this
      | epilogue x => simpa using hterm
      | preamble x =>
        rcases ih d' _ hok' hseen' with ⟨a, b, c⟩
        exact ⟨a, b, hcount _ c⟩
      | field n hd =>
        rcases ih d' _ hok' hseen' with ⟨a, b, c⟩
        exact ⟨a, b, hcount _ c⟩
      | file n f hd =>
        rcases ih d' _ hok' hseen' with ⟨a, b, c⟩
        exact ⟨a, b, hcount _ c⟩
      | data x m =>
        rcases ih d' _ hok' hseen' with ⟨a, b, c⟩
        exact ⟨a, b, hcount _ c⟩

theorem receive_state {d d' : Decoder} {c : Option Bytes} (h : receive d c = .ok d') :
    d'.state = d.state ∧ d'.partsDecoded = d.partsDecoded := by
  cases c with
  | none => simp [receive] at h; subst h; exact ⟨rfl, rfl⟩
  | some c =>
    simp only [receive] at h
    split at h
    · split at h
      · simp at h
      · simp at h; subst h; exact ⟨rfl, rfl⟩
    · simp at h; subst h; exact ⟨rfl, rfl⟩

theorem feed_account (seen : Bool) (d : Decoder) (c : Option Bytes) (hs : openS d = true → seen = true) :
    okData seen (feed d c).events = true ∧
    (openS (feed d c).dec = true → seenAfter seen (feed d c).events = true) ∧
    countFinal (feed d c).events + b2n (openS (feed d c).dec) = countParts (feed d c).events + b2n (openS d) := by
  unfold feed
  cases hr : receive d c with
  | error e =>
    simp only
    exact ⟨rfl, (fun ho => by simp [seenAfter, hs ho]), by simp [countFinal, countParts]⟩
  | ok d' =>
    simp only
    have hst : openS d' = openS d := by simp [openS, (receive_state hr).1]
    have := drain_account seen (drainFuel d') d' [] rfl (by intro ho; rw [hst] at ho; simp [seenAfter, hs ho])
    rw [hst] at this
    simpa [countParts, countFinal] using this

/-! ### the parser loop -/

theorem processParts_error {ps opts : List (List Char × List Char)} {e : String}
    (h : FormOptions.processParts ps opts = .error e) : e = "UNMODELLED" := by
  induction ps generalizing opts with
  | nil => simp [FormOptions.processParts] at h
  | cons p t ih =>
    rcases p with ⟨pk, pv⟩
    simp only [FormOptions.processParts] at h
    split at h
    · simp at h; exact h.symm
    · split at h
      · split at h
        · exact ih h
        · exact ih h
      · exact ih h

theorem parseOptionsHeader_error {v : List Char} {e : String}
    (h : FormOptions.parseOptionsHeader v = .error e) : e = "UNMODELLED" := by
  unfold FormOptions.parseOptionsHeader at h
  simp only at h
  split at h
  · simp at h
  · cases hp : FormOptions.processParts (FormOptions.collectParts _ _) [] with
    | ok o => rw [hp] at h; simp at h
    | error e' => rw [hp] at h; simp at h; subst h; exact processParts_error hp

theorem partCharset_error {hs : Headers} {e : String} (h : partCharset hs = .error e) : e = "UNMODELLED" := by
  unfold partCharset at h
  split at h
  · simp at h
  · split at h
    · simp at h
    · cases hp : FormOptions.parseOptionsHeader _ with
      | error e' => rw [hp] at h; simp at h; subst h; exact parseOptionsHeader_error hp
      | ok r =>
        rw [hp] at h
        simp only at h
        split at h <;> simp at h

def formCount (st : FormState) : Nat := st.fields.length + st.files.length

/-- one event of the parser loop: the only exceptions are RequestEntityTooLarge and the model's
UNMODELLED (RFC 2231 charset parameter in a part's Content-Type), provided a Data event finds a current
part; a final Data event adds exactly one field or file -/
theorem formEvent_spec {m : Option Nat} {st : FormState} (ev : Event)
    (hsafe : isData ev = true → st.cur.isSome = true) :
    (∀ e, formEvent m st ev = .error e → e = "RequestEntityTooLarge" ∨ e = "UNMODELLED") ∧
    (∀ st', formEvent m st ev = .ok st' →
      st'.cur.isSome = (st.cur.isSome || isPart ev) ∧ formCount st' = formCount st + b2n (isFinal ev)) := by
  cases ev with
  | field n h => simp [formEvent, isPart, isFinal, formCount, b2n]
  | file n f h => simp [formEvent, isPart, isFinal, formCount, b2n]
  | preamble x => simp [formEvent, isPart, isFinal, formCount, b2n]
  | epilogue x => simp [formEvent, isPart, isFinal, formCount, b2n]
  | needData => simp [formEvent, isPart, isFinal, formCount, b2n]
  | data x more =>
    have hc := hsafe rfl
    cases hcur : st.cur with
    | none => rw [hcur] at hc; simp at hc
    | some p =>
      simp only [formEvent, hcur]
      cases hf : fieldSizeStep m st.fieldSize x.length with
      | error e =>
        have : e = "RequestEntityTooLarge" := by
          unfold fieldSizeStep at hf
          split at hf
          · split at hf
            · simp at hf; exact hf.symm
            · simp at hf
          · simp at hf
        subst this
        simp
      | ok fsz =>
        simp only
        cases more with
        | true => simp [isPart, isFinal, formCount, b2n]
        | false =>
          simp only [Bool.false_eq_true, if_false]
          split
          · simp [isPart, isFinal, formCount, b2n]; omega
          · cases hpc : partCharset p.headers with
            | error e =>
              have := partCharset_error hpc
              subst this
              simp
            | ok cs => simp [isPart, isFinal, formCount, b2n]; omega

theorem formEvents_spec {m : Option Nat} (evs : List Event) : ∀ {st : FormState},
    okData st.cur.isSome evs = true →
    (∀ e, formEvents m st evs = .error e → e = "RequestEntityTooLarge" ∨ e = "UNMODELLED") ∧
    (∀ st', formEvents m st evs = .ok st' →
      st'.cur.isSome = seenAfter st.cur.isSome evs ∧ formCount st' = formCount st + countFinal evs) := by
  induction evs with
  | nil => intro st _; simp [formEvents, seenAfter, countFinal]
  | cons ev t ih =>
    intro st hok
    have hsafe : isData ev = true → st.cur.isSome = true := by
      intro hd
      simp only [okData] at hok
      cases hp : isPart ev with
      | true => cases ev <;> simp [isPart, isData] at hp hd
      | false =>
        rw [hp] at hok
        simp only [Bool.false_eq_true, if_false, hd, if_true, Bool.and_eq_true] at hok
        exact hok.1
    rcases formEvent_spec (m := m) (st := st) ev hsafe with ⟨he, hk⟩
    simp only [formEvents]
    cases hf : formEvent m st ev with
    | error e => exact ⟨(fun e' h => by simp at h; subst h; exact he e hf), (fun st' h => by simp at h)⟩
    | ok st1 =>
      rcases hk st1 hf with ⟨hcur, hcnt⟩
      have hok1 : okData st1.cur.isSome t = true := by
        rw [hcur]
        simp only [okData] at hok
        cases hp : isPart ev with
        | true => rw [hp] at hok; simpa using hok
        | false =>
          rw [hp] at hok
          simp only [Bool.false_eq_true, if_false, Bool.or_false] at hok ⊢
          cases hd : isData ev with
          | true => rw [hd] at hok; simp only [if_true, Bool.and_eq_true] at hok; exact hok.2
          | false => rw [hd] at hok; simpa using hok
      rcases ih hok1 with ⟨he', hk'⟩
      refine ⟨he', ?_⟩
      intro st' h
      rcases hk' st' h with ⟨a, b⟩
      refine ⟨?_, ?_⟩
      · rw [a, hcur]; simp [seenAfter, Bool.or_assoc]
      · rw [b, hcnt]
        simp only [countFinal, List.filter_cons]
        cases isFinal ev <;> simp [b2n] <;> omega

/-- what links the decoder and the parser state between two reads of `MultiPartParser.parse` -/
def LoopInv (d : Decoder) (st : FormState) : Prop :=
  (openS d = true → st.cur.isSome = true) ∧ formCount st + b2n (openS d) = d.partsDecoded

theorem feed_parts {d0 d : Decoder} {evs : List Event} (c : Option Bytes) (h : Reach d0 d evs) :
    ∃ evs', Reach d0 (feed d c).dec evs' ∧
      (feed d c).dec.partsDecoded = d.partsDecoded + countParts (feed d c).events := by
  rcases reach_feed c h with ⟨evs', h1, h2⟩
  have a := (reach_invariant h).2.2.1
  have b := (reach_invariant h1).2.2.1
  exact ⟨evs', h1, by omega⟩

theorem formLoop_inv {m : Option Nat} {d0 : Decoder} (cs : List (Option Bytes)) :
    ∀ (d : Decoder) (st st' : FormState) (evs : List Event), Reach d0 d evs → LoopInv d st →
      formLoop m d st cs = .ok st' → ∃ d' evs', Reach d0 d' evs' ∧ LoopInv d' st' := by
  induction cs with
  | nil =>
    intro d st st' evs hr hi h
    simp [formLoop] at h; subst h
    exact ⟨d, evs, hr, hi⟩
  | cons c t ih =>
    intro d st st' evs hr hi h
    simp only [formLoop] at h
    rcases feed_account st.cur.isSome d c hi.1 with ⟨hok, hseen, hbal⟩
    rcases feed_parts c hr with ⟨evs1, hr1, hpd⟩
    cases hf : formEvents m st (feed d c).events with
    | error e => rw [hf] at h; simp at h
    | ok st1 =>
      rw [hf] at h
      simp only at h
      cases he : (feed d c).err with
      | some e => rw [he] at h; simp at h
      | none =>
        rw [he] at h
        simp only at h
        rcases (formEvents_spec (m := m) (feed d c).events hok).2 st1 hf with ⟨hcur, hcnt⟩
        have hi1 : LoopInv (feed d c).dec st1 := by
          refine ⟨(fun ho => by rw [hcur]; exact hseen ho), ?_⟩
          have := hi.2
          omega
        exact ih _ _ _ _ hr1 hi1 h

/-- **the number of fields and files `MultiPartParser.parse` returns never exceeds `max_form_parts`** -/
theorem formParse_parts_le {bnd : Bytes} {mm : Option Nat} {k bufSize : Nat} {sched : List Nat} {body : Bytes}
    {r : List (Option Str × Str) × List FileItem}
    (h : formParse bnd mm (some k) bufSize sched body = .ok r) : r.1.length + r.2.length ≤ k := by
  unfold formParse at h
  simp only at h
  cases hl : formLoop mm (mkDecoder bnd mm (some k)) {} ((readChunks bufSize body.length sched body).map some ++ [none]) with
  | error e => rw [hl] at h; simp at h
  | ok st =>
    rw [hl] at h
    simp at h; subst h
    have hinit : LoopInv (mkDecoder bnd mm (some k)) {} := by
      refine ⟨(fun ho => by simp [openS, mkDecoder] at ho), ?_⟩
      simp [formCount, b2n, openS, mkDecoder]
    rcases formLoop_inv _ _ _ _ [] Reach.init hinit hl with ⟨d', evs', hr, hi⟩
    have hb := (reach_invariant hr).2.2.2 k rfl (by simp [mkDecoder])
    have := hi.2
    simp only [formCount] at this
    show st.fields.length + st.files.length ≤ k
    omega

/-! ### which exceptions can be raised -/

/-- the exception classes the decoder / parser model can raise from `mkDecoder`: ValueError (malformed
body), UnicodeDecodeError (a header line that is not UTF-8), RequestEntityTooLarge (a limit), and the
model-only value UNMODELLED (RFC 2231 `key*=charset''…` parameters, outside the options-header model) -/
def Raisable (e : String) : Prop :=
  e = "ValueError" ∨ e = "UnicodeDecodeError" ∨ e = "RequestEntityTooLarge" ∨ e = "UNMODELLED"

/-- in DATA_START the buffer begins with the line break that ended the headers -/
def DS (d : Decoder) : Prop := d.state = .dataStart → 0 < lbLen d.buffer

theorem parseHeaders_error {data : Bytes} {e : String} (h : parseHeaders data = .error e) :
    e = "UnicodeDecodeError" := by
  unfold parseHeaders at h
  simp only at h
  generalize (((splitLines (foldContinuations data)).map stripBytes).filter (!·.isEmpty)) = lines at h
  induction lines generalizing e with
  | nil => simp at h
  | cons ln t ih =>
    simp only [List.foldr_cons] at h
    cases hd : utf8Dec? ln with
    | none => rw [hd] at h; simp at h; exact h.symm
    | some sx =>
      rw [hd] at h
      cases hr : List.foldr _ (Except.ok []) t with
      | error e' => rw [hr] at h; simp at h; subst h; exact ih hr
      | ok hs => rw [hr] at h; simp at h

theorem searchBlank_some_blankLen {S : Bytes} {s e : Nat} (h : searchBlank S = some (s, e)) :
    blankLen (S.drop s) = e - s ∧ 0 < blankLen (S.drop s) := by
  induction S generalizing s e with
  | nil => simp [searchBlank] at h
  | cons a t ih =>
    by_cases hb : 0 < blankLen (a :: t)
    · simp [searchBlank, hb] at h
      rcases h with ⟨rfl, rfl⟩
      simpa using hb
    · have h0 : blankLen (a :: t) = 0 := by omega
      rw [searchBlank_cons_zero h0] at h
      rcases shift2_eq_some h with ⟨s2, e2, ht, rfl, rfl⟩
      have := ih ht
      simp only [List.drop_succ_cons]
      refine ⟨by omega, this.2⟩

theorem blank_cut_lb {X : Bytes} (h : 0 < blankLen X) : 0 < lbLen (X.drop (blankLen X / 2)) := by
  unfold blankLen at h ⊢
  by_cases h4 : [13, 10, 13, 10].isPrefixOf X = true
  · rcases List.isPrefixOf_iff_prefix.1 h4 with ⟨t, rfl⟩
    simp [lbLen]
  · by_cases h2 : [13, 13].isPrefixOf X = true
    · rcases List.isPrefixOf_iff_prefix.1 h2 with ⟨t, rfl⟩
      simp only [h4, h2, if_true]
      simp [lbLen]
      cases t with
      | nil => simp
      | cons b tl => simp only; split <;> simp
    · by_cases h3 : [10, 10].isPrefixOf X = true
      · rcases List.isPrefixOf_iff_prefix.1 h3 with ⟨t, rfl⟩
        simp only [h4, h2, h3, if_true]
        simp [lbLen]
      · simp [h4, h2, h3] at h

theorem searchBlankFrom_cut {pos : Nat} {b : Bytes} {s e : Nat} (h : searchBlankFrom pos b = some (s, e)) :
    0 < lbLen (b.drop ((s + e) / 2)) := by
  rw [searchBlankFrom_eq_shift] at h
  rcases shift2_eq_some h with ⟨s2, e2, ht, rfl, rfl⟩
  rcases searchBlank_some_blankLen ht with ⟨h1, h2⟩
  have hb := searchBlank_bounds ht
  have hcut := blank_cut_lb h2
  rw [h1, List.drop_drop, List.drop_drop] at hcut
  have : (s2 + pos + (e2 + pos)) / 2 = pos + (s2 + (e2 - s2) / 2) := by omega
  rw [this]
  exact hcut

theorem receive_ds {d d' : Decoder} {c : Option Bytes} (hd : DS d) (h : receive d c = .ok d') : DS d' := by
  intro hs
  have hst := (receive_state h).1
  rw [hst] at hs
  have := hd hs
  cases c with
  | none => simp [receive] at h; subst h; exact this
  | some c =>
    have hb : d'.buffer = d.buffer ++ c := by
      simp only [receive] at h
      split at h
      · split at h
        · simp at h
        · simp at h; subst h; rfl
      · simp at h; subst h; rfl
    rw [hb]
    exact Nat.lt_of_lt_of_le this (lbLen_append_ge _ _)

theorem stepData_error {d : Decoder} {start : Bool} {e : String} (hlb : start = true → 0 < lbLen d.buffer)
    (h : stepData d start = .error e) : False := by
  unfold stepData at h
  cases hds : dataStep d.boundary start d.buffer with
  | ok r => rw [hds] at h; rcases r with ⟨p, b, s', nx⟩; simp only at h; split at h <;> (try split at h) <;> simp at h
  | error e' =>
    unfold dataStep at hds
    cases hp : parseData d.boundary d.buffer start with
    | ok r => rw [hp] at hds; simp only at hds; split at hds <;> simp at hds
    | error e2 =>
      cases start with
      | false => simp [parseData] at hp
      | true =>
        have := hlb rfl
        have hne : lbLen d.buffer ≠ 0 := by omega
        simp [parseData, hne] at hp

theorem step_error {d : Decoder} {e : String} (hd : DS d) (h : step d = .error e) : Raisable e := by
  cases hst : d.state with
  | preamble => simp only [step, hst] at h; split at h <;> simp at h
  | dataStart => simp only [step, hst] at h; exact (stepData_error (fun _ => hd hst) h).elim
  | data => simp only [step, hst] at h; exact (stepData_error (fun hh => by cases hh) h).elim
  | epilogue => simp only [step, hst] at h; split at h <;> simp at h
  | complete => simp [step, hst] at h
  | part =>
    simp only [step, hst] at h
    cases hsb : searchBlankFrom d.searchPos d.buffer with
    | none => rw [hsb] at h; simp at h
    | some r =>
      rcases r with ⟨s, e0⟩
      rw [hsb] at h
      simp only at h
      cases hph : parseHeaders (d.buffer.take s) with
      | error er => rw [hph] at h; simp at h; subst h; exact Or.inr (Or.inl (parseHeaders_error hph))
      | ok headers =>
        rw [hph] at h
        simp only at h
        cases hcd : headerGet "content-disposition".toList headers with
        | none => rw [hcd] at h; simp at h; exact Or.inl h.symm
        | some cd =>
          rw [hcd] at h
          simp only at h
          cases hpo : FormOptions.parseOptionsHeader cd with
          | error er =>
            rw [hpo] at h; simp at h; subst h
            exact Or.inr (Or.inr (Or.inr (parseOptionsHeader_error hpo)))
          | ok r =>
            rcases r with ⟨v, extra⟩
            rw [hpo] at h
            simp only at h
            cases hmp : d.maxParts with
            | none => rw [hmp] at h; simp at h
            | some m =>
              rw [hmp] at h
              simp only at h
              split at h
              · simp at h; exact Or.inr (Or.inr (Or.inl h.symm))
              · simp at h

theorem step_ds {d d' : Decoder} {ev : Event} (hd : DS d) (h : step d = .ok (ev, d')) : DS d' := by
  intro hs'
  cases hst : d.state with
  | preamble =>
    simp only [step, hst] at h
    split at h <;> (simp at h; rcases h with ⟨_, rfl⟩)
    · simp only [afterDelim] at hs'
      split at hs' <;> cases hs'
    · simp [hst] at hs'
  | epilogue =>
    simp only [step, hst] at h
    split at h <;> (simp at h; rcases h with ⟨_, rfl⟩) <;> simp [hst] at hs'
  | complete => simp [step, hst] at h; rcases h with ⟨_, rfl⟩; simp [hst] at hs'
  | part =>
    simp only [step, hst] at h
    cases hsb : searchBlankFrom d.searchPos d.buffer with
    | none => rw [hsb] at h; simp at h; rcases h with ⟨_, rfl⟩; simp [hst] at hs'
    | some r =>
      rcases r with ⟨s, e0⟩
      rw [hsb] at h
      simp only at h
      have hcut := searchBlankFrom_cut hsb
      cases hph : parseHeaders (d.buffer.take s) with
      | error er => rw [hph] at h; simp at h
      | ok headers =>
        rw [hph] at h
        simp only at h
        cases hcd : headerGet "content-disposition".toList headers with
        | none => rw [hcd] at h; simp at h
        | some cd =>
          rw [hcd] at h
          simp only at h
          cases hpo : FormOptions.parseOptionsHeader cd with
          | error er => rw [hpo] at h; simp at h
          | ok r =>
            rcases r with ⟨v, extra⟩
            rw [hpo] at h
            simp only at h
            cases hmp : d.maxParts with
            | none => rw [hmp] at h; simp at h; rcases h with ⟨_, rfl⟩; exact hcut
            | some m =>
              rw [hmp] at h
              simp only at h
              split at h
              · simp at h
              · simp at h; rcases h with ⟨_, rfl⟩; exact hcut
  | dataStart =>
    simp only [step, hst] at h
    unfold stepData at h
    cases hds : dataStep d.boundary true d.buffer with
    | error e => rw [hds] at h; simp at h
    | ok r =>
      rcases r with ⟨p, buf', start', nx⟩
      rw [hds] at h
      simp only at h
      cases start' with
      | true =>
        have hb := (dataStep_waiting hds).2
        simp at h; rcases h with ⟨_, rfl⟩
        simp only [hb]
        exact hd hst
      | false =>
        simp only [Bool.false_eq_true, if_false] at h
        split at h <;> (simp at h; rcases h with ⟨_, rfl⟩) <;>
          (simp only at hs'; cases nx with
            | none => simp at hs'
            | some f => cases f <;> simp [afterDelim] at hs')
  | data =>
    simp only [step, hst] at h
    unfold stepData at h
    cases hds : dataStep d.boundary false d.buffer with
    | error e => rw [hds] at h; simp at h
    | ok r =>
      rcases r with ⟨p, buf', start', nx⟩
      rw [hds] at h
      simp only at h
      cases start' with
      | true =>
        -- DATA never goes back to waiting
        unfold dataStep at hds
        cases hp : parseData d.boundary d.buffer false with
        | error e => rw [hp] at hds; simp at hds
        | ok r => rw [hp] at hds; simp at hds
      | false =>
        simp only [Bool.false_eq_true, if_false] at h
        split at h <;> (simp at h; rcases h with ⟨_, rfl⟩) <;>
          (simp only at hs'; cases nx with
            | none => simp at hs'
            | some f => cases f <;> simp [afterDelim] at hs')

theorem nextEvent_error {d : Decoder} {e : String} (hd : DS d) (h : nextEvent d = .error e) : Raisable e := by
  unfold nextEvent at h
  cases hs : step d with
  | error e' => rw [hs] at h; simp at h; subst h; exact step_error hd hs
  | ok p =>
    rcases p with ⟨ev, d'⟩
    rw [hs] at h
    simp only at h
    split at h
    · simp at h; exact Or.inl h.symm
    · simp at h

theorem nextEvent_ds {d d' : Decoder} {ev : Event} (hd : DS d) (h : nextEvent d = .ok (ev, d')) : DS d' :=
  step_ds hd (nextEvent_ok h)

/-- a drain with more fuel than buffered bytes never runs out of fuel; it ends normally or with one of
the raisable exceptions, and keeps the DATA_START invariant -/
theorem drain_raises (fuel : Nat) : ∀ (d : Decoder) (acc : List Event), DS d → d.buffer.length < fuel →
    (∀ e, (drain fuel d acc).err = some e → Raisable e) ∧ DS (drain fuel d acc).dec := by
  induction fuel with
  | zero => intro d acc _ h; omega
  | succ fuel ih =>
    intro d acc hd hf
    simp only [drain]
    cases hn : nextEvent d with
    | error e => exact ⟨(fun e' h => by simp at h; subst h; exact nextEvent_error hd hn), hd⟩
    | ok v =>
      rcases v with ⟨ev, d'⟩
      have hd' := nextEvent_ds hd hn
      cases ev with
      | needData => exact ⟨(fun e h => by simp at h), hd'⟩
      | epilogue x => exact ⟨(fun e h => by simp at h), hd'⟩
      | preamble x =>
        have := nextEvent_consumes hn (by simp) (by simp)
        exact ih d' _ hd' (by omega)
      | field n hh =>
        have := nextEvent_consumes hn (by simp) (by simp)
        exact ih d' _ hd' (by omega)
      | file n f hh =>
        have := nextEvent_consumes hn (by simp) (by simp)
        exact ih d' _ hd' (by omega)
      | data x m =>
        have := nextEvent_consumes hn (by simp) (by simp)
        exact ih d' _ hd' (by omega)

theorem feed_raises (d : Decoder) (c : Option Bytes) (hd : DS d) :
    (∀ e, (feed d c).err = some e → Raisable e) ∧ DS (feed d c).dec := by
  unfold feed
  cases hr : receive d c with
  | error e =>
    refine ⟨(fun e' h => ?_), hd⟩
    simp at h; subst h
    have : e = "RequestEntityTooLarge" := by
      cases c with
      | none => simp [receive] at hr
      | some c =>
        simp only [receive] at hr
        split at hr
        · split at hr
          · simp at hr; exact hr.symm
          · simp at hr
        · simp at hr
    exact Or.inr (Or.inr (Or.inl this))
  | ok d' =>
    exact drain_raises (drainFuel d') d' [] (receive_ds hd hr) (by simp [drainFuel])

/-- **`MultiPartParser.parse` raises only ValueError, UnicodeDecodeError, RequestEntityTooLarge** (and the
model-only UNMODELLED): the model-internal values AttributeError, UnboundLocalError and FUEL are
unreachable from any decoder / parser state satisfying the two invariants, in particular from
`mkDecoder` and the empty parser state -/
theorem formLoop_raises {m : Option Nat} (cs : List (Option Bytes)) : ∀ (d : Decoder) (st : FormState) (e : String),
    DS d → (openS d = true → st.cur.isSome = true) → formLoop m d st cs = .error e → Raisable e := by
  induction cs with
  | nil => intro d st e _ _ h; simp [formLoop] at h
  | cons c t ih =>
    intro d st e hd hi h
    simp only [formLoop] at h
    rcases feed_account st.cur.isSome d c hi with ⟨hok, hseen, _⟩
    rcases feed_raises d c hd with ⟨herr, hd'⟩
    rcases formEvents_spec (m := m) (feed d c).events hok with ⟨hfe, hfk⟩
    cases hf : formEvents m st (feed d c).events with
    | error e' =>
      rw [hf] at h; simp at h; subst h
      rcases hfe e' hf with h1 | h1
      · exact Or.inr (Or.inr (Or.inl h1))
      · exact Or.inr (Or.inr (Or.inr h1))
    | ok st1 =>
      rw [hf] at h
      simp only at h
      cases he : (feed d c).err with
      | some e' => rw [he] at h; simp at h; subst h; exact herr e' he
      | none =>
        rw [he] at h
        simp only at h
        rcases hfk st1 hf with ⟨hcur, _⟩
        exact ih _ _ _ hd' (fun ho => by rw [hcur]; exact hseen ho) h

theorem ds_mkDecoder (bnd : Bytes) (mm mp : Option Nat) : DS (mkDecoder bnd mm mp) := by
  intro h; simp [mkDecoder] at h

theorem formParse_raises {bnd : Bytes} {mm mp : Option Nat} {bufSize : Nat} {sched : List Nat} {body : Bytes}
    {e : String} (h : formParse bnd mm mp bufSize sched body = .error e) : Raisable e := by
  unfold formParse at h
  simp only at h
  cases hl : formLoop mm (mkDecoder bnd mm mp) {} ((readChunks bufSize body.length sched body).map some ++ [none]) with
  | ok st => rw [hl] at h; simp at h
  | error e' =>
    rw [hl] at h; simp at h; subst h
    exact formLoop_raises _ _ _ _ (ds_mkDecoder bnd mm mp) (fun ho => by simp [openS, mkDecoder] at ho) hl

end Wz.Multipart
