import WzVerif.Lemmas.HttpSafeOpt
set_option linter.unusedSimpArgs false
namespace Wz.Http
open Wz

/-! ### termination: the `while True` scanner of `parse_options_header` consumes input -/

theorem scanQuoted_shrinks (q acc qs r : Str) (h : scanQuoted q acc = some (qs, r)) : r.length < q.length := by
  fun_induction scanQuoted q acc with
  | case1 => simp at h
  | case2 t acc ih => have := ih h; simp; omega
  | case3 t acc ih => have := ih h; simp; omega
  | case4 t acc =>
    simp only [Option.some.injEq, Prod.mk.injEq] at h
    rw [← h.2]; simp
  | case5 c t acc _ _ _ ih => have := ih h; simp; omega

theorem length_dropWhile_le' (p : Char → Bool) (l : Str) : (l.dropWhile p).length ≤ l.length :=
  (List.dropWhile_sublist p).length_le

theorem optStep_shrinks (rest : Str) : (optStep rest).1.length ≤ rest.length := by
  unfold optStep
  simp only
  split
  · next rr hk heq =>
    have hr : rr.length < rest.length := by
      have := length_dropWhile_le' isKeyCh rest
      rw [heq] at this; simp at this; omega
    split
    · simp; omega
    · split
      · next q =>
        split
        · next qs r' hq =>
          have := scanQuoted_shrinks _ _ _ _ hq
          simp at hr ⊢; omega
        · simp at hr ⊢; omega
      · simp; omega
  · simp

theorem afterSemi_shrinks (s after : Str) (h : afterSemi? s = some after) : after.length < s.length := by
  unfold afterSemi? at h
  split at h
  · simp at h
  · next c r heq =>
    simp only [Option.some.injEq] at h
    have := length_dropWhile_le' (· != ';') s
    rw [heq] at this; simp at this
    rw [← h]; omega

/-- the fuel handed to the scanner (`len(rest) + 1`) is never exhausted: any larger fuel gives the
same result, i.e. the Python loop terminates after at most `len(rest)` iterations -/
theorem optScan_fuel_irrelevant (f1 f2 : Nat) (rest : Str) (acc : List (Str × Str))
    (h1 : rest.length < f1) (h2 : rest.length < f2) : optScan f1 rest acc = optScan f2 rest acc := by
  induction f1 generalizing f2 rest acc with
  | zero => omega
  | succ f ih =>
    cases f2 with
    | zero => omega
    | succ g =>
      rw [optScan, optScan]
      generalize hs : optStep rest = sr
      obtain ⟨rest1, part⟩ := sr
      simp only
      have hle : rest1.length ≤ rest.length := by
        have := optStep_shrinks rest; rw [hs] at this; exact this
      split
      · rfl
      · next after ha =>
        have h3 := afterSemi_shrinks _ _ ha
        have h4 : (lstrip after).length ≤ after.length := length_dropWhile_le' _ _
        exact ih g (lstrip after) _ (by omega) (by omega)

end Wz.Http
