import WzVerif.Lemmas.HttpRange
set_option linter.unusedSimpArgs false
namespace Wz.Http
open Wz

/-! ### Content-Security-Policy -/

/-- non-empty, first and last character not white space (`s.strip() == s`) -/
def isStripped (x : Str) : Bool :=
  !x.isEmpty && (x.head?.all fun c => !Py.isSpace c) && (x.getLast?.all fun c => !Py.isSpace c)

theorem tight_of_isStripped {x : Str} (h : isStripped x = true) : Tight x := by
  simp only [isStripped, Bool.and_eq_true] at h
  constructor
  · intro c hc; have := h.1.2; rw [hc] at this; simpa using this
  · intro c hc; have := h.2; rw [hc] at this; simpa using this

theorem ne_nil_of_isStripped {x : Str} (h : isStripped x = true) : x ≠ [] := by
  intro e; subst e; simp [isStripped] at h

def CspItemOk (kv : Str × Str) : Bool :=
  isStripped kv.1 && !kv.1.contains ' ' && !kv.1.contains ';' && isStripped kv.2 && !kv.2.contains ';'

def cspItemText (kv : Str × Str) : Str := kv.1 ++ ' ' :: kv.2

theorem intercalate_cons_sep (c : Char) (sep a : Str) (l : List Str) :
    List.intercalate (c :: sep) (a :: l) = List.intercalate [c] (a :: l.map (sep ++ ·)) := by
  induction l generalizing a with
  | nil => simp
  | cons b t ih =>
    rw [List.map_cons, List.intercalate_cons_cons, List.intercalate_cons_cons, ih b]
    cases t with
    | nil => simp
    | cons b' t' => simp [List.intercalate_cons_cons]

theorem cspItem_tight (kv : Str × Str) (h : CspItemOk kv = true) : Tight (cspItemText kv) := by
  simp only [CspItemOk, Bool.and_eq_true] at h
  obtain ⟨⟨⟨⟨hk, _⟩, _⟩, hv⟩, _⟩ := h
  have tk := tight_of_isStripped hk
  have tv := tight_of_isStripped hv
  apply tight_append (ne_nil_of_isStripped hk) (by simp) tk.1
  intro c hc
  have hne := ne_nil_of_isStripped hv
  cases hq : kv.2 with
  | nil => exact absurd hq hne
  | cons a t =>
    rw [hq, List.getLast?_cons_cons] at hc
    rw [hq] at tv
    exact tv.2 c hc

theorem cspStep (d : Dict Str) (pre : Str) (kv : Str × Str) (h : CspItemOk kv = true)
    (hpre : pre = [] ∨ pre = [' ']) (hd : dictHas d kv.1 = false) :
    (let policy := strip (pre ++ cspItemText kv)
     if policy.contains ' ' then
       let (directive, _, v) := partition ' ' policy
       dictSet d (strip directive) (strip v)
     else d) = d ++ [kv] := by
  have ht := cspItem_tight kv h
  have hs : strip (pre ++ cspItemText kv) = cspItemText kv := by
    rcases hpre with rfl | rfl
    · simpa using strip_tight ht
    · simpa using strip_space_tight ht
  simp only [hs]
  simp only [CspItemOk, Bool.and_eq_true, Bool.not_eq_true'] at h
  obtain ⟨⟨⟨⟨hk, hksp⟩, _⟩, hv⟩, _⟩ := h
  have hc : (cspItemText kv).contains ' ' = true := by simp [cspItemText]
  have hksp' : ' ' ∉ kv.1 := by simpa using hksp
  simp only [hc, if_true]
  simp only [cspItemText, partition_found hksp', strip_tight (tight_of_isStripped hk),
    strip_tight (tight_of_isStripped hv), dictSet, hd, Bool.false_eq_true, if_false]

theorem parseCsp_fold (items : List (Str × Str)) (d : Dict Str)
    (hok : ∀ x ∈ items, CspItemOk x = true) (hnd : (items.map (·.1)).Nodup)
    (hdis : ∀ x ∈ items, dictHas d x.1 = false) :
    (items.map (fun kv => [' '] ++ cspItemText kv)).foldl (fun d policy =>
      let policy := strip policy
      if policy.contains ' ' then
        let (directive, _, v) := partition ' ' policy
        dictSet d (strip directive) (strip v)
      else d) d = d ++ items := by
  induction items generalizing d with
  | nil => simp
  | cons kv t ih =>
    simp only [List.map_cons, List.foldl_cons]
    have := cspStep d [' '] kv (hok kv (by simp)) (Or.inr rfl) (hdis kv (by simp))
    simp only at this
    rw [this]
    simp only [List.map_cons, List.nodup_cons] at hnd
    rw [ih (d ++ [kv]) (fun x hx => hok x (by simp [hx])) hnd.2 (by
      intro y hy
      rw [dictHas_append_single, hdis y (by simp [hy])]
      simp
      intro e
      exact hnd.1 (by rw [e]; exact List.mem_map_of_mem hy))]
    simp

theorem csp_roundtrip_any (d : Dict Str) (hok : ∀ x ∈ d, CspItemOk x = true) (hnd : (d.map (·.1)).Nodup) :
    parseCsp (dumpCsp d) = d := by
  cases d with
  | nil => decide
  | cons kv t =>
    have hdump : dumpCsp (kv :: t) = List.intercalate [';'] (cspItemText kv :: t.map (fun x => [' '] ++ cspItemText x)) := by
      have e : "; ".toList = ';' :: [' '] := by decide
      simp only [dumpCsp, join, e, List.map_cons]
      rw [intercalate_cons_sep]
      simp [List.map_map, Function.comp_def, cspItemText]
    have hnosemi : ∀ x ∈ kv :: t, ';' ∉ cspItemText x := by
      intro x hx
      have := hok x hx
      simp only [CspItemOk, Bool.and_eq_true, Bool.not_eq_true'] at this
      obtain ⟨⟨⟨⟨_, _⟩, h1⟩, _⟩, h2⟩ := this
      simp only [cspItemText, List.mem_append, List.mem_cons, not_or]
      exact ⟨by simpa using h1, by decide, by simpa using h2⟩
    unfold parseCsp
    rw [hdump, splitOnChar_join ';' _ _ (by
      intro x hx
      simp only [List.mem_cons, List.mem_map] at hx
      rcases hx with rfl | ⟨y, hy, rfl⟩
      · exact hnosemi kv (by simp)
      · simp only [List.mem_append, List.mem_singleton, not_or]
        exact ⟨by decide, hnosemi y (by simp [hy])⟩)]
    simp only [List.foldl_cons]
    have h1 := cspStep [] [] kv (hok kv (by simp)) (Or.inl rfl) rfl
    simp only [List.nil_append] at h1
    rw [h1]
    simp only [List.map_cons, List.nodup_cons] at hnd
    have := parseCsp_fold t [kv] (fun x hx => hok x (by simp [hx])) hnd.2 (by
      intro y hy
      simp only [dictHas, List.any_cons, List.any_nil, Bool.or_false]
      simp
      intro e
      exact hnd.1 (by rw [e]; exact List.mem_map_of_mem hy))
    simpa using this

end Wz.Http
