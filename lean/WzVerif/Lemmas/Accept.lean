/-
Helper lemmas for C17 (generic sorting / selection facts, order facts for `Q` and `specLe`).
Core Lean only.
-/
import WzVerif.Model.Accept
namespace Wz.Accept

/-- a Bool-valued total preorder -/
structure TotalPre {α : Type} (ge : α → α → Bool) : Prop where
  total : ∀ a b, ge a b = true ∨ ge b a = true
  trans : ∀ a b c, ge a b = true → ge b c = true → ge a c = true

theorem TotalPre.refl {α : Type} {ge : α → α → Bool} (h : TotalPre ge) (a : α) : ge a a = true := by
  cases h.total a a <;> assumption

/-! ### insertion sort -/

section Sorting
variable {α : Type} (ge : α → α → Bool)

theorem insertDesc_perm (a : α) (l : List α) : (insertDesc ge a l).Perm (a :: l) := by
  induction l with
  | nil => simp [insertDesc]
  | cons b t ih =>
    simp only [insertDesc]
    split
    · exact List.Perm.refl _
    · exact (List.Perm.cons b ih).trans (List.Perm.swap a b t)

theorem sortDesc_perm (l : List α) : (sortDesc ge l).Perm l := by
  induction l with
  | nil => simp [sortDesc]
  | cons a t ih =>
    simp only [sortDesc]
    exact (insertDesc_perm ge a _).trans (List.Perm.cons a ih)

theorem mem_sortDesc {l : List α} {x : α} : x ∈ sortDesc ge l ↔ x ∈ l :=
  (sortDesc_perm ge l).mem_iff

theorem mem_insertDesc {l : List α} {a x : α} : x ∈ insertDesc ge a l ↔ x = a ∨ x ∈ l := by
  rw [(insertDesc_perm ge a l).mem_iff]; simp

theorem insertDesc_sorted (h : TotalPre ge) (a : α) (l : List α)
    (hl : l.Pairwise (fun x y => ge x y = true)) :
    (insertDesc ge a l).Pairwise (fun x y => ge x y = true) := by
  induction l with
  | nil => simp [insertDesc]
  | cons b t ih =>
    simp only [insertDesc]
    rw [List.pairwise_cons] at hl
    split
    · rename_i hab
      rw [List.pairwise_cons]
      refine ⟨?_, List.pairwise_cons.mpr hl⟩
      intro y hy
      rcases List.mem_cons.mp hy with rfl | hy
      · exact hab
      · exact h.trans _ _ _ hab (hl.1 y hy)
    · rename_i hab
      rw [List.pairwise_cons]
      refine ⟨?_, ih hl.2⟩
      intro y hy
      rcases (mem_insertDesc ge).mp hy with rfl | hy
      · cases h.total y b with
        | inl h1 => exact absurd h1 hab
        | inr h1 => exact h1
      · exact hl.1 y hy

theorem sortDesc_sorted (h : TotalPre ge) (l : List α) :
    (sortDesc ge l).Pairwise (fun x y => ge x y = true) := by
  induction l with
  | nil => simp [sortDesc]
  | cons a t ih => exact insertDesc_sorted ge h a _ ih

/-- stability: elements that are pairwise `ge` (same key) keep their relative order -/
theorem insertDesc_filter (p : α → Bool) (hp : ∀ a b, p a = true → p b = true → ge a b = true)
    (a : α) (l : List α) : (insertDesc ge a l).filter p = (a :: l).filter p := by
  induction l with
  | nil => simp [insertDesc]
  | cons b t ih =>
    simp only [insertDesc]
    split
    · rfl
    · rename_i hab
      by_cases hpa : p a = true
      · by_cases hpb : p b = true
        · exact absurd (hp a b hpa hpb) hab
        · simp [hpb, hpa] at ih ⊢
          exact ih
      · simp [List.filter_cons, hpa] at ih ⊢
        rw [ih]

theorem sortDesc_filter (p : α → Bool) (hp : ∀ a b, p a = true → p b = true → ge a b = true)
    (l : List α) : (sortDesc ge l).filter p = l.filter p := by
  induction l with
  | nil => simp [sortDesc]
  | cons a t ih =>
    simp only [sortDesc]
    rw [insertDesc_filter ge p hp, List.filter_cons, List.filter_cons, ih]

/-- in a list sorted descending, the first element satisfying `m` dominates every element
satisfying `m` -/
theorem find_sorted_max (m : α → Bool) (l : List α) (hl : l.Pairwise (fun x y => ge x y = true))
    (hrefl : ∀ a, ge a a = true) (x : α) (hx : l.find? m = some x) :
    ∀ y ∈ l, m y = true → ge x y = true := by
  induction l with
  | nil => simp at hx
  | cons b t ih =>
    rw [List.pairwise_cons] at hl
    rw [List.find?_cons] at hx
    split at hx
    · injection hx with hx
      subst hx
      intro y hy _
      rcases List.mem_cons.mp hy with rfl | hy
      · exact hrefl _
      · exact hl.1 y hy
    · rename_i hmb
      intro y hy hmy
      rcases List.mem_cons.mp hy with rfl | hy
      · rw [hmy] at hmb; cases hmb
      · exact ih hl.2 hx y hy hmy

end Sorting

/-! ### first maximum by a left fold -/

section Argmax
variable {α β : Type} (score : α → Option β) (ge : β → β → Bool)

/-- keep the current best unless the new element is strictly better -/
def argmaxStep (st : Option (α × β)) (a : α) : Option (α × β) :=
  match score a with
  | none => st
  | some s =>
    match st with
    | none => some (a, s)
    | some (_, t) => if ge t s then st else some (a, s)

/-- the result of the fold started from `(b, t)`: either still `(b, t)`, which then dominates the
whole list, or the first strict improvement chain's end, with everything before it strictly worse
and everything after it not better -/
theorem argmax_from_some (h : TotalPre ge) (l : List α) (b : α) (t : β) :
    ∃ r s, l.foldl (argmaxStep score ge) (some (b, t)) = some (r, s) ∧
      ((r = b ∧ s = t ∧ ∀ o ∈ l, ∀ sc, score o = some sc → ge t sc = true) ∨
       (∃ pre post, l = pre ++ r :: post ∧ score r = some s ∧ ge t s = false ∧
          (∀ o ∈ pre, ∀ sc, score o = some sc → ge sc s = false) ∧
          (∀ o ∈ post, ∀ sc, score o = some sc → ge s sc = true))) := by
  induction l generalizing b t with
  | nil => exact ⟨b, t, rfl, Or.inl ⟨rfl, rfl, by simp⟩⟩
  | cons a l ih =>
    rw [List.foldl_cons]
    cases hsa : score a with
    | none =>
      have hstep : argmaxStep score ge (some (b, t)) a = some (b, t) := by simp [argmaxStep, hsa]
      rw [hstep]
      obtain ⟨r, s, hres, hcase⟩ := ih b t
      refine ⟨r, s, hres, ?_⟩
      rcases hcase with ⟨rb, st, hall⟩ | ⟨pre, post, hl, hsr, hts, hpre, hpost⟩
      · left
        refine ⟨rb, st, ?_⟩
        intro o ho sc hsc
        rcases List.mem_cons.mp ho with rfl | ho
        · rw [hsa] at hsc; cases hsc
        · exact hall o ho sc hsc
      · right
        refine ⟨a :: pre, post, by simp [hl], hsr, hts, ?_, hpost⟩
        intro o ho sc hsc
        rcases List.mem_cons.mp ho with rfl | ho
        · rw [hsa] at hsc; cases hsc
        · exact hpre o ho sc hsc
    | some sa =>
      by_cases hge : ge t sa = true
      · have hstep : argmaxStep score ge (some (b, t)) a = some (b, t) := by
          simp [argmaxStep, hsa, hge]
        rw [hstep]
        obtain ⟨r, s, hres, hcase⟩ := ih b t
        refine ⟨r, s, hres, ?_⟩
        rcases hcase with ⟨rb, st, hall⟩ | ⟨pre, post, hl, hsr, hts, hpre, hpost⟩
        · left
          refine ⟨rb, st, ?_⟩
          intro o ho sc hsc
          rcases List.mem_cons.mp ho with rfl | ho
          · rw [hsa] at hsc; cases hsc; exact hge
          · exact hall o ho sc hsc
        · right
          refine ⟨a :: pre, post, by simp [hl], hsr, hts, ?_, hpost⟩
          intro o ho sc hsc
          rcases List.mem_cons.mp ho with rfl | ho
          · rw [hsa] at hsc; cases hsc
            cases hc : ge sa s with
            | false => rfl
            | true => rw [h.trans _ _ _ hge hc] at hts; cases hts
          · exact hpre o ho sc hsc
      · have hge' : ge t sa = false := by simpa using hge
        have hstep : argmaxStep score ge (some (b, t)) a = some (a, sa) := by
          simp [argmaxStep, hsa, hge']
        rw [hstep]
        obtain ⟨r, s, hres, hcase⟩ := ih a sa
        refine ⟨r, s, hres, Or.inr ?_⟩
        rcases hcase with ⟨ra, ssa, hall⟩ | ⟨pre, post, hl, hsr, hts, hpre, hpost⟩
        · rw [ra, ssa]
          exact ⟨[], l, rfl, hsa, hge', by simp, hall⟩
        · refine ⟨a :: pre, post, by simp [hl], hsr, ?_, ?_, hpost⟩
          · -- t < sa ≤ ... < s
            cases hc : ge t s with
            | false => rfl
            | true =>
              have h1 : ge s sa = true := by
                cases h.total s sa with
                | inl x => exact x
                | inr x => rw [x] at hts; cases hts
              rw [h.trans _ _ _ hc h1] at hge'; cases hge'
          · intro o ho sc hsc
            rcases List.mem_cons.mp ho with rfl | ho
            · rw [hsa] at hsc; cases hsc; exact hts
            · exact hpre o ho sc hsc

theorem argmax_from_none (h : TotalPre ge) (l : List α) :
    (l.foldl (argmaxStep score ge) none = none ∧ ∀ o ∈ l, score o = none) ∨
    (∃ r s pre post, l.foldl (argmaxStep score ge) none = some (r, s) ∧
        l = pre ++ r :: post ∧ score r = some s ∧
        (∀ o ∈ pre, ∀ sc, score o = some sc → ge sc s = false) ∧
        (∀ o ∈ post, ∀ sc, score o = some sc → ge s sc = true)) := by
  induction l with
  | nil => left; simp
  | cons a l ih =>
    rw [List.foldl_cons]
    cases hsa : score a with
    | none =>
      have hstep : argmaxStep score ge none a = none := by simp [argmaxStep, hsa]
      rw [hstep]
      rcases ih with ⟨hn, hall⟩ | ⟨r, s, pre, post, hres, hl, hsr, hpre, hpost⟩
      · left
        refine ⟨hn, ?_⟩
        intro o ho
        rcases List.mem_cons.mp ho with rfl | ho
        · exact hsa
        · exact hall o ho
      · right
        refine ⟨r, s, a :: pre, post, hres, by simp [hl], hsr, ?_, hpost⟩
        intro o ho sc hsc
        rcases List.mem_cons.mp ho with rfl | ho
        · rw [hsa] at hsc; cases hsc
        · exact hpre o ho sc hsc
    | some sa =>
      have hstep : argmaxStep score ge none a = some (a, sa) := by simp [argmaxStep, hsa]
      rw [hstep]
      right
      obtain ⟨r, s, hres, hcase⟩ := argmax_from_some score ge h l a sa
      rcases hcase with ⟨ra, ssa, hall⟩ | ⟨pre, post, hl, hsr, hts, hpre, hpost⟩
      · rw [ra, ssa] at hres
        exact ⟨a, sa, [], l, hres, rfl, hsa, by simp, hall⟩
      · refine ⟨r, s, a :: pre, post, hres, by simp [hl], hsr, ?_, hpost⟩
        intro o ho sc hsc
        rcases List.mem_cons.mp ho with rfl | ho
        · rw [hsa] at hsc; cases hsc; exact hts
        · exact hpre o ho sc hsc

end Argmax

/-! ### orders -/

theorem specLe_refl (a : List Bool) : specLe a a = true := by
  induction a with
  | nil => rfl
  | cons x t ih => simp [specLe, ih]

theorem specLe_total (a b : List Bool) : specLe a b = true ∨ specLe b a = true := by
  induction a generalizing b with
  | nil => left; rfl
  | cons x s ih =>
    cases b with
    | nil => right; rfl
    | cons y t =>
      cases x <;> cases y <;> simp [specLe] <;> exact ih t

theorem specLe_trans (a b c : List Bool) : specLe a b = true → specLe b c = true → specLe a c = true := by
  induction a generalizing b c with
  | nil => intros; rfl
  | cons x s ih =>
    cases b with
    | nil => intro h; simp [specLe] at h
    | cons y t =>
      cases c with
      | nil => intro _ h; simp [specLe] at h
      | cons z u =>
        cases x <;> cases y <;> cases z <;> simp [specLe] <;> exact ih t u

theorem specLe_antisymm (a b : List Bool) : specLe a b = true → specLe b a = true → a = b := by
  induction a generalizing b with
  | nil => cases b with
    | nil => intros; rfl
    | cons y t => intro _ h; simp [specLe] at h
  | cons x s ih =>
    cases b with
    | nil => intro h; simp [specLe] at h
    | cons y t =>
      cases x <;> cases y <;> simp [specLe] <;> exact ih t

theorem Q.le_total (a b : Q) : Q.le a b = true ∨ Q.le b a = true := by
  simp only [Q.le, decide_eq_true_eq]
  exact Nat.le_total _ _

theorem Q.le_trans (a b c : Q) : Q.le a b = true → Q.le b c = true → Q.le a c = true := by
  simp only [Q.le, decide_eq_true_eq]
  intro h1 h2
  have hpos : 0 < 10 ^ b.scale := Nat.pow_pos (by decide)
  apply Nat.le_of_mul_le_mul_right _ hpos
  calc a.num * 10 ^ c.scale * 10 ^ b.scale
      = a.num * 10 ^ b.scale * 10 ^ c.scale := by rw [Nat.mul_right_comm]
    _ ≤ b.num * 10 ^ a.scale * 10 ^ c.scale := Nat.mul_le_mul_right _ h1
    _ = b.num * 10 ^ c.scale * 10 ^ a.scale := by rw [Nat.mul_right_comm]
    _ ≤ c.num * 10 ^ b.scale * 10 ^ a.scale := Nat.mul_le_mul_right _ h2
    _ = c.num * 10 ^ a.scale * 10 ^ b.scale := by rw [Nat.mul_right_comm]

theorem specLe_totalPre : TotalPre specLe := ⟨specLe_total, specLe_trans⟩
theorem qle_totalPre : TotalPre Q.le := ⟨Q.le_total, Q.le_trans⟩

theorem zip_map_find {α β : Type} (f : α → β) (p : α × β → Bool) (l : List α) (x : α × β)
    (h : (l.zip (l.map f)).find? p = some x) : x.1 ∈ l ∧ x.2 = f x.1 ∧ p x = true := by
  have hm := List.mem_of_find?_eq_some h
  have hp := List.find?_some h
  refine ⟨?_, ?_, hp⟩
  · exact (List.of_mem_zip hm).1
  · have : ∀ (l : List α) (x : α × β), x ∈ l.zip (l.map f) → x.2 = f x.1 := by
      intro l
      induction l with
      | nil => intro x hx; simp at hx
      | cons a t ih =>
        intro x hx
        simp only [List.map_cons, List.zip_cons_cons, List.mem_cons] at hx
        rcases hx with rfl | hx
        · rfl
        · exact ih x hx
    exact this l x hm


/-! ### lexicographic order on pairs -/

/-- `a ≥ b` lexicographically, from two `≤` relations -/
def lexGe {α β : Type} (le1 : α → α → Bool) (le2 : β → β → Bool) (a b : α × β) : Bool :=
  if le1 a.1 b.1 then le1 b.1 a.1 && le2 b.2 a.2 else true

theorem lexGe_totalPre {α β : Type} (le1 : α → α → Bool) (le2 : β → β → Bool)
    (h1 : TotalPre le1) (h2 : TotalPre le2) : TotalPre (lexGe le1 le2) where
  total := by
    intro x y
    simp only [lexGe]
    have a1 := h1.total x.1 y.1
    have a2 := h2.total x.2 y.2
    cases c1 : le1 x.1 y.1 <;> cases c2 : le1 y.1 x.1 <;> cases c3 : le2 x.2 y.2 <;> cases c4 : le2 y.2 x.2 <;> simp_all
  trans := by
    intro x y z
    simp only [lexGe]
    have t1 := h1.trans x.1 y.1 z.1
    have t2 := h1.trans z.1 y.1 x.1
    have t3 := h1.trans y.1 z.1 x.1
    have t4 := h1.trans z.1 x.1 y.1
    have t5 := h1.trans y.1 x.1 z.1
    have t6 := h1.trans x.1 z.1 y.1
    have q1 := h2.trans z.2 y.2 x.2
    have o1 := h1.total x.1 y.1
    have o2 := h1.total y.1 z.1
    have o3 := h1.total x.1 z.1
    cases c1 : le1 x.1 y.1 <;> cases c2 : le1 y.1 x.1 <;> cases c3 : le1 y.1 z.1 <;>
      cases c4 : le1 z.1 y.1 <;> cases c5 : le1 x.1 z.1 <;> cases c6 : le1 z.1 x.1 <;> simp_all

/-! ### the class structure -/

section NegLemmas
variable {σ κ : Type} (N : Neg σ κ)

theorem keyGe_totalPre (hs : TotalPre N.sle) (hq : TotalPre N.qle) : TotalPre (keyGe N) where
  total := by
    intro x y
    exact (lexGe_totalPre N.sle N.qle hs hq).total (N.spec x.1, x.2) (N.spec y.1, y.2)
  trans := by
    intro x y z
    exact (lexGe_totalPre N.sle N.qle hs hq).trans (N.spec x.1, x.2) (N.spec y.1, y.2) (N.spec z.1, z.2)

/-- eligibility and rank of an offer: `(q, specificity)` of its first matching client item, when
that q is positive -/
def offerScore (self : List (Str × κ)) (o : Str) : Option (κ × σ) :=
  match bestSingle N self o with
  | none => none
  | some (ci, q) => if N.qle q N.zero then none else some (q, N.spec ci)

/-- `a ≥ b` for `(quality, specificity)` pairs, lexicographic -/
def rankGe (a b : κ × σ) : Bool :=
  if N.qle a.1 b.1 then N.qle b.1 a.1 && N.sle b.2 a.2 else true

theorem rankGe_totalPre (hs : TotalPre N.sle) (hq : TotalPre N.qle) : TotalPre (rankGe N) :=
  lexGe_totalPre N.qle N.sle hq hs

theorem bestStep_eq_argmaxStep (self : List (Str × κ)) (st : BestState σ κ) (o : Str) :
    bestStep N self st o = argmaxStep (offerScore N self) (rankGe N) st o := by
  unfold bestStep argmaxStep offerScore rankGe
  cases bestSingle N self o with
  | none => rfl
  | some m =>
    obtain ⟨ci, q⟩ := m
    cases h0 : N.qle q N.zero with
    | true => simp [h0]
    | false =>
      cases st with
      | none => simp [h0]
      | some b =>
        obtain ⟨r, bq, bs⟩ := b
        cases c1 : N.qle bq q <;> cases c2 : N.qle q bq <;> cases c3 : N.sle (N.spec ci) bs <;>
          simp [h0, c1, c2, c3]

theorem bestMatch_eq_argmax (self : List (Str × κ)) (offers : List Str) :
    offers.foldl (bestStep N self) none = offers.foldl (argmaxStep (offerScore N self) (rankGe N)) none := by
  congr 1
  funext st o
  exact bestStep_eq_argmaxStep N self st o

end NegLemmas

/-! ### well-formed media-range text -/

/-- no `/`, no `;`, no whitespace -/
def NoDelim (x : Str) : Prop := ∀ c ∈ x, c ≠ '/' ∧ c ≠ ';' ∧ Py.isSpace c = false

/-- no `/`, no `;` -/
def NoSlashSemi (x : Str) : Prop := ∀ c ∈ x, c ≠ '/' ∧ c ≠ ';'

theorem NoDelim.noSlashSemi {x : Str} (h : NoDelim x) : NoSlashSemi x := fun c hc => ⟨(h c hc).1, (h c hc).2.1⟩

def paramsText (ps : List Str) : Str := ps.flatMap fun p => ';' :: ' ' :: p

/-- `type/subtype; p1; p2 …` as `dump_options_header` writes it -/
def renderMime (t s : Str) (ps : List Str) : Str := t ++ '/' :: (s ++ paramsText ps)

def piecesOf (x : Str) : List Str → List (Str × Bool)
  | [] => [(x, false)]
  | p :: ps => (x, true) :: piecesOf (' ' :: p) ps

theorem mimePieces_run (x rest cur : Str) (h : NoSlashSemi x) :
    mimePieces (x ++ rest) cur = mimePieces rest (x.reverse ++ cur) := by
  induction x generalizing cur with
  | nil => rfl
  | cons c t ih =>
    have hc := h c (by simp)
    have h1 : (c == '/') = false := by simpa using hc.1
    have h2 : (c == ';') = false := by simpa using hc.2
    simp only [List.cons_append, mimePieces, h1, h2, Bool.false_eq_true, ↓reduceIte]
    rw [ih (c :: cur) (fun y hy => h y (by simp [hy]))]
    simp

theorem mimePieces_params (x cur : Str) (ps : List Str) (hx : NoSlashSemi x)
    (hps : ∀ p ∈ ps, NoSlashSemi p) :
    mimePieces (x ++ paramsText ps) cur = piecesOf (cur.reverse ++ x) ps := by
  induction ps generalizing x cur with
  | nil =>
    simp only [paramsText, List.flatMap_nil]
    rw [mimePieces_run x [] cur hx]
    simp [mimePieces, piecesOf]
  | cons p ps ih =>
    have hp : NoSlashSemi (' ' :: p) := by
      intro c hc
      rcases List.mem_cons.mp hc with rfl | hc
      · exact ⟨by decide, by decide⟩
      · exact hps p (by simp) c hc
    have e : paramsText (p :: ps) = ';' :: ((' ' :: p) ++ paramsText ps) := by
      simp [paramsText]
    rw [e, mimePieces_run x _ cur hx]
    simp only [mimePieces]
    have h1 : (';' == '/') = false := by decide
    simp only [h1, Bool.false_eq_true, ↓reduceIte, BEq.rfl, piecesOf]
    rw [ih (' ' :: p) [] hp (fun q hq => hps q (by simp [hq]))]
    simp

theorem dropWhile_head_false' {p : Char → Bool} {s : Str} (h : ∀ c, s.head? = some c → p c = false) :
    s.dropWhile p = s := by
  cases s with
  | nil => rfl
  | cons c t => simp [h c rfl]

theorem rstrip_noSpace (s : Str) (h : ∀ c ∈ s, Py.isSpace c = false) : Py.rstripBy Py.isSpace s = s := by
  unfold Py.rstripBy
  rw [dropWhile_head_false' (s := s.reverse)]
  · simp
  · intro c hc
    have : c ∈ s.reverse := List.mem_of_mem_head? hc
    exact h c (by simpa using this)

theorem mimeTrim_params (p : Str) (ps : List Str) (hp : ∀ c ∈ p, Py.isSpace c = false)
    (hps : ∀ q ∈ ps, ∀ c ∈ q, Py.isSpace c = false) :
    mimeTrim true (piecesOf (' ' :: p) ps) = p :: ps := by
  induction ps generalizing p with
  | nil =>
    have hsp : Py.isSpace ' ' = true := by decide
    have hd : p.dropWhile Py.isSpace = p := dropWhile_head_false' (fun c hc => hp c (List.mem_of_mem_head? hc))
    simp [piecesOf, mimeTrim, hsp, hd]
  | cons q qs ih =>
    have hsp : Py.isSpace ' ' = true := by decide
    have hd : p.dropWhile Py.isSpace = p := dropWhile_head_false' (fun c hc => hp c (List.mem_of_mem_head? hc))
    simp only [piecesOf, mimeTrim, ↓reduceIte, List.dropWhile_cons, hsp, hd, rstrip_noSpace p hp]
    rw [ih q (hps q (by simp)) (fun r hr => hps r (by simp [hr]))]

/-- `_mime_split_re.split` of a well-formed media type text gives its type, subtype and parameters -/
theorem mimeSplit_render (t s : Str) (ps : List Str) (ht : NoDelim t) (hs : NoDelim s)
    (hps : ∀ p ∈ ps, NoDelim p) : mimeSplit (renderMime t s ps) = t :: s :: ps := by
  unfold mimeSplit renderMime
  rw [mimePieces_run t _ [] ht.noSlashSemi]
  simp only [mimePieces, BEq.rfl, ↓reduceIte, List.append_nil, List.reverse_reverse]
  rw [mimePieces_params s [] ps hs.noSlashSemi (fun p hp => (hps p hp).noSlashSemi)]
  simp only [List.reverse_nil, List.nil_append, mimeTrim, Bool.false_eq_true, ↓reduceIte]
  have hsS : ∀ c ∈ s, Py.isSpace c = false := fun c hc => (hs c hc).2.2
  have hpS : ∀ q ∈ ps, ∀ c ∈ q, Py.isSpace c = false := fun q hq c hc => (hps q hq c hc).2.2
  cases ps with
  | nil => simp [piecesOf, mimeTrim]
  | cons p ps =>
    simp only [piecesOf, mimeTrim, Bool.false_eq_true, ↓reduceIte, rstrip_noSpace s hsS]
    rw [mimeTrim_params p ps (hpS p (by simp)) (fun r hr => hpS r (by simp [hr]))]

/-- ASCII-lower-case text: `str.lower()` leaves it alone -/
def IsLower (x : Str) : Prop := lowerA x = x

theorem lowerA_render (t s : Str) (ps : List Str) (ht : IsLower t) (hs : IsLower s)
    (hps : ∀ p ∈ ps, IsLower p) : lowerA (renderMime t s ps) = renderMime t s ps := by
  unfold IsLower lowerA at *
  have hpt : (paramsText ps).map Char.toLower = paramsText ps := by
    induction ps with
    | nil => rfl
    | cons p ps ih =>
      have h1 := hps p (by simp)
      have h2 := ih (fun q hq => hps q (by simp [hq]))
      simp only [paramsText, List.flatMap_cons, List.map_append, List.map_cons] at h2 ⊢
      rw [h1, h2]
      rfl
  simp only [renderMime, List.map_append, List.map_cons, ht, hs, hpt]
  rfl

theorem mimeNorm_render (t s : Str) (ps : List Str) (ht : NoDelim t) (hs : NoDelim s)
    (hps : ∀ p ∈ ps, NoDelim p) (lt : IsLower t) (ls : IsLower s) (lps : ∀ p ∈ ps, IsLower p) :
    mimeNorm (renderMime t s ps) = ⟨t, s, ps⟩ := by
  unfold mimeNorm
  rw [lowerA_render t s ps lt ls lps, mimeSplit_render t s ps ht hs hps]

theorem hasSlash_render (t s : Str) (ps : List Str) : hasSlash (renderMime t s ps) = true := by
  simp [hasSlash, renderMime]


/-! ### lexing of `value;q=text` -/

theorem isTokChar_props (c : Char) (h : isTokChar c = true) :
    Py.isSpace c = false ∧ c ≠ ',' ∧ c ≠ '"' ∧ c ≠ ';' ∧ c ≠ '=' := by
  unfold isTokChar at h
  simp only [Bool.or_eq_true] at h
  rcases h with (h | h) | h
  · have hn : (65 ≤ c.toNat ∧ c.toNat ≤ 90) ∨ (97 ≤ c.toNat ∧ c.toNat ≤ 122) ∨ (48 ≤ c.toNat ∧ c.toNat ≤ 57) := by
      simp only [Char.isAlphanum, Char.isAlpha, Char.isUpper, Char.isLower, Char.isDigit,
        Bool.or_eq_true, Bool.and_eq_true, decide_eq_true_eq] at h
      simp only [UInt32.le_iff_toNat_le] at h
      have e : c.val.toNat = c.toNat := rfl
      simp only [e] at h
      rcases h with (h | h) | h
      · left; exact ⟨h.1, h.2⟩
      · right; left; exact ⟨h.1, h.2⟩
      · right; right; exact ⟨h.1, h.2⟩
    refine ⟨?_, ?_, ?_, ?_, ?_⟩
    · simp only [Py.isSpace]; simp; omega
    all_goals (intro e; subst e; revert hn; decide)
  · have : c = '_' := by simpa using h
    subst this
    decide
  · have : c ∈ tokPunct := by simpa using h
    simp only [tokPunct, List.mem_cons, List.not_mem_nil, or_false] at this
    rcases this with rfl | rfl | rfl | rfl | rfl | rfl | rfl | rfl | rfl | rfl | rfl | rfl | rfl | rfl <;> decide

/-- a media range / tag / charset name as clients write it: token characters and `/` -/
def IsValueText (v : Str) : Prop := v ≠ [] ∧ ∀ c ∈ v, isTokChar c = true ∨ c = '/'

/-- a non-empty token -/
def IsToken (v : Str) : Prop := v ≠ [] ∧ ∀ c ∈ v, isTokChar c = true

theorem valueChar_props (c : Char) (h : isTokChar c = true ∨ c = '/') :
    Py.isSpace c = false ∧ c ≠ ',' ∧ c ≠ '"' ∧ c ≠ ';' := by
  rcases h with h | rfl
  · have := isTokChar_props c h
    exact ⟨this.1, this.2.1, this.2.2.1, this.2.2.2.1⟩
  · decide

theorem httpList_plain (s part : Str) (h : ∀ c ∈ s, c ≠ ',' ∧ c ≠ '"') (hne : part.reverse ++ s ≠ []) :
    httpList s part false false = [part.reverse ++ s] := by
  induction s generalizing part with
  | nil =>
    simp only [List.append_nil] at hne ⊢
    have : part.isEmpty = false := by
      cases part with
      | nil => simp at hne
      | cons _ _ => rfl
    simp [httpList, this]
  | cons c t ih =>
    have hc := h c (by simp)
    have h1 : (c == ',') = false := by simpa using hc.1
    have h2 : (c == '"') = false := by simpa using hc.2
    simp only [httpList, Bool.false_eq_true, ↓reduceIte, h1, h2]
    rw [ih (c :: part) (fun x hx => h x (by simp [hx])) (by simp)]
    simp

/-- the header element `value;q=qtext` -/
def qElement (v qs : Str) : Str := v ++ ';' :: 'q' :: '=' :: qs

theorem qElement_chars (v qs : Str) (hv : IsValueText v) (hq : IsToken qs) :
    ∀ c ∈ qElement v qs, Py.isSpace c = false ∧ c ≠ ',' ∧ c ≠ '"' := by
  intro c hc
  simp only [qElement, List.mem_append, List.mem_cons] at hc
  rcases hc with hc | rfl | rfl | rfl | hc
  · have := valueChar_props c (hv.2 c hc); exact ⟨this.1, this.2.1, this.2.2.1⟩
  · decide
  · decide
  · decide
  · have := isTokChar_props c (hq.2 c hc); exact ⟨this.1, this.2.1, this.2.2.1⟩

theorem dropWhile_head_false'' {p : Char → Bool} {s : Str} (h : ∀ c, s.head? = some c → p c = false) :
    s.dropWhile p = s := by
  cases s with
  | nil => rfl
  | cons c t => simp [h c rfl]

theorem strip_noSpace' (s : Str) (h : ∀ c ∈ s, Py.isSpace c = false) : Py.strip s = s := by
  unfold Py.strip
  rw [dropWhile_head_false'' (s := s) (fun c hc => h c (List.mem_of_mem_head? hc))]
  exact rstrip_noSpace s h

theorem parseListHeader_qElement (v qs : Str) (hv : IsValueText v) (hq : IsToken qs) :
    parseListHeader (qElement v qs) = [qElement v qs] := by
  have hch := qElement_chars v qs hv hq
  unfold parseListHeader
  rw [httpList_plain _ [] (fun c hc => ⟨(hch c hc).2.1, (hch c hc).2.2⟩) (by simp [qElement])]
  simp only [List.reverse_nil, List.nil_append, List.map_cons, List.map_nil]
  rw [strip_noSpace' _ (fun c hc => (hch c hc).1)]
  have hh : (qElement v qs).head? ≠ some '"' := by
    intro e
    have := List.mem_of_mem_head? e
    exact (hch '"' this).2.2 rfl
  have : ((qElement v qs).head? == some '"') = false := by simpa using hh
  simp [this]

theorem takeWhile_all_then {p : Char → Bool} (x : Str) (c : Char) (rest : Str)
    (hx : ∀ y ∈ x, p y = true) (hc : p c = false) :
    (x ++ c :: rest).takeWhile p = x ∧ (x ++ c :: rest).dropWhile p = c :: rest := by
  induction x with
  | nil => simp [hc]
  | cons a t ih =>
    have := ih (fun y hy => hx y (by simp [hy]))
    simp [hx a (by simp), this.1, this.2]

theorem takeWhile_all {p : Char → Bool} (x : Str) (hx : ∀ y ∈ x, p y = true) :
    x.takeWhile p = x ∧ x.dropWhile p = [] := by
  induction x with
  | nil => simp
  | cons a t ih =>
    have := ih (fun y hy => hx y (by simp [hy]))
    simp [hx a (by simp), this.1, this.2]

theorem paramParts_q (qs : Str) (hq : IsToken qs) (fuel : Nat) :
    paramParts (fuel + 1) ('q' :: '=' :: qs) = [(qKey, qs)] := by
  have hq1 : isTokChar 'q' = true := by decide
  have he : isTokChar '=' = false := by decide
  have hs : isTokChar ';' = false := by decide
  have tq := takeWhile_all qs (p := isTokChar) hq.2
  have hne : qs.isEmpty = false := by
    cases qs with
    | nil => exact absurd rfl hq.1
    | cons _ _ => rfl
  have hnosemi : ¬ (';' ∈ qs) := by
    intro hm
    have := hq.2 ';' hm
    rw [hs] at this; cases this
  have hl : lowerA ['q'] = qKey := by decide
  simp [paramParts, hq1, he, tq.1, hne, hnosemi, hl]

theorem processParts_q (qs : Str) (hq : IsToken qs) :
    processParts [(qKey, qs)] [] = .ok [(qKey, qs)] := by
  have hh : qs.head? ≠ some '"' := by
    intro e
    have := hq.2 '"' (List.mem_of_mem_head? e)
    revert this; decide
  have h1 : (qs.head? == some '"') = false := by simpa using hh
  have h2 : continuationBase qKey = none := by decide
  have h3 : (qKey.getLast? == some '*') = false := by decide
  simp [processParts, h1, h2, h3, dictSet]

theorem parseOptionsHeader_qElement (v qs : Str) (hv : IsValueText v) (hq : IsToken qs) :
    parseOptionsHeader (qElement v qs) = .ok (v, [(qKey, qs)]) := by
  have hvs : ∀ c ∈ v, (c != ';') = true := by
    intro c hc
    have := (valueChar_props c (hv.2 c hc)).2.2.2
    simpa using this
  have hsemi : ((';' : Char) != ';') = false := by decide
  have tw := takeWhile_all_then (p := fun c => c != ';') v ';' ('q' :: '=' :: qs) hvs hsemi
  have hsv := strip_noSpace' v (fun c hc => (valueChar_props c (hv.2 c hc)).1)
  have hrest : ∀ c ∈ 'q' :: '=' :: qs, Py.isSpace c = false := by
    intro c hc
    simp only [List.mem_cons] at hc
    rcases hc with rfl | rfl | hc
    · decide
    · decide
    · exact (isTokChar_props c (hq.2 c hc)).1
  have hsr := strip_noSpace' _ hrest
  have hve : v.isEmpty = false := by
    cases v with
    | nil => exact absurd rfl hv.1
    | cons _ _ => rfl
  unfold parseOptionsHeader qElement
  simp only [tw.1, tw.2, List.drop_succ_cons, List.drop_zero, hsv, hsr, hve, List.isEmpty_cons,
    Bool.or_self, Bool.false_eq_true, ↓reduceIte, List.length_cons]
  rw [paramParts_q qs hq, processParts_q qs hq]


end Wz.Accept
