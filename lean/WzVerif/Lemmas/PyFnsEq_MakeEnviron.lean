/-
PyFnsEq_MakeEnviron - `werkzeug.serving.WSGIRequestHandler.make_environ` *as regenerated from the source*
by `tools/py2lean.py` (`Gen/PyFns_MakeEnviron.lean`, rewritten on every check run: the function up to the
TLS client-certificate lookup, answering the text-valued part of the environ as an insertion-ordered dict
and whether `wsgi.input_terminated` was set) agrees, for all inputs, with the hand-written model
`DevServer.makeEnviron` (`Model/DevServer.lean`, header loop `Chunked.foldHeader` of `Model/Chunked.lean`)
that the C19 theorems are about.

The model keeps only the header-derived entries (`HTTP_*`, `CONTENT_TYPE`, `CONTENT_LENGTH`) in its
`headers` env, starting from the empty env; the real environ starts with twelve text-valued base entries
(`wsgi.url_scheme` ... `SERVER_PROTOCOL`). The bridge: no base key can be written by the header loop, so the
loop (and `environ["HTTP_HOST"] = netloc`, and the `HTTP_TRANSFER_ENCODING` lookup) acts on the header part
alone, and the translated environ is `baseOf ... E ++ E.headers`.

First section: facts about the prelude's kernels (`str.upper/lower/replace/strip`, `in`, the dict
operations) against the model's (`envName`, `dropCrlf`, `Env.get`, `Env.set`) - nothing there mentions a
generated definition. Second section: the header loop `make_environ.loop1`, the main equality
`make_environ_eq`, its corollaries, and two C19 theorems restated on the translated function.

No difference between translation and model was found: the equality holds without any hypothesis on the
inputs. (`str.upper()` / `str.lower()` are ASCII-only in the prelude *and* in the model; header names that
reach `make_environ` are ASCII - `email.feedparser` accepts only `[\041-\071\073-\176]` in a header name -
and header values are latin-1 text, where no character lower-cases to an ASCII letter.)
-/
import WzVerif.Gen.PyFns_MakeEnviron
import WzVerif.Lemmas.PyFns_Prelude
import WzVerif.Props.C19
namespace Wz.PyFnsEq.MakeEnviron
open Wz Wz.Pre Wz.Chunked Wz.DevServer

/-! ## kernels of the prelude against the kernels of the model -/

section kernels

/-- the code point of `Char.ofNat n` is `n` for `n` below the surrogate range -/
theorem ofNat_val_toNat (n : Nat) (h : n < 0xd800) : (Char.ofNat n).val.toNat = n := by
  have hv : n.isValidChar := Or.inl h
  simp only [Char.ofNat, hv, dite_true, Char.ofNatAux]
  simp

/-- Lean's `Char.toUpper` (what the prelude's `str.upper()` applies to every character: ASCII
letters only) is the model's `upperAscii`, for every character -/
theorem toUpper_eq (c : Char) : c.toUpper = upperAscii c := by
  unfold Char.toUpper upperAscii
  by_cases h : 'a' ≤ c ∧ c ≤ 'z'
  · have h' : 'a'.val ≤ c.val ∧ c.val ≤ 'z'.val := h
    simp only [h, h', dite_true, if_true, and_self]
    apply Char.ext
    apply UInt32.toNat_inj.mp
    have h1 : 97 ≤ c.toNat := by have := UInt32.le_iff_toNat_le.mp h'.1; simpa using this
    have h2 : c.toNat ≤ 122 := by have := UInt32.le_iff_toNat_le.mp h'.2; simpa using this
    rw [ofNat_val_toNat _ (by omega)]
    simp
    omega
  · have h' : ¬ ('a'.val ≤ c.val ∧ c.val ≤ 'z'.val) := h
    simp only [h, h', dite_false, if_false]

/-- Lean's `Char.toLower` (what the prelude's `str.lower()` applies to every character: ASCII
letters only) is the model's `lowerAscii`, for every character -/
theorem toLower_eq (c : Char) : c.toLower = lowerAscii c := by
  unfold Char.toLower lowerAscii
  by_cases h : 'A' ≤ c ∧ c ≤ 'Z'
  · have h' : c.val ≥ 'A'.val ∧ c.val ≤ 'Z'.val := h
    simp only [h, h', dite_true, if_true, and_self]
    apply Char.ext
    apply UInt32.toNat_inj.mp
    have h1 : 65 ≤ c.toNat := by have := UInt32.le_iff_toNat_le.mp h'.1; simpa using this
    have h2 : c.toNat ≤ 90 := by have := UInt32.le_iff_toNat_le.mp h'.2; simpa using this
    rw [ofNat_val_toNat _ (by omega)]
    simp
    omega
  · have h' : ¬ (c.val ≥ 'A'.val ∧ c.val ≤ 'Z'.val) := h
    simp only [h, h', dite_false, if_false]

/-- upper-casing neither produces nor removes a `-` -/
theorem upperAscii_eq_dash (c : Char) : (upperAscii c == '-') = (c == '-') := by
  unfold upperAscii
  by_cases h : 'a' ≤ c ∧ c ≤ 'z'
  · have h' : 'a'.val ≤ c.val ∧ c.val ≤ 'z'.val := h
    have h1 : 97 ≤ c.toNat := by have := UInt32.le_iff_toNat_le.mp h'.1; simpa using this
    have h2 : c.toNat ≤ 122 := by have := UInt32.le_iff_toNat_le.mp h'.2; simpa using this
    simp only [h, and_self, if_true]
    have e1 : (Char.ofNat (c.toNat - 32) == '-') = false := by
      rw [beq_eq_false_iff_ne]
      intro e
      have := congrArg (fun x => x.val.toNat) e
      simp only [ofNat_val_toNat _ (show c.toNat - 32 < 0xd800 by omega)] at this
      simp at this
      omega
    have e2 : (c == '-') = false := by
      rw [beq_eq_false_iff_ne]
      intro e
      subst e
      simp at h1
    rw [e1, e2]
  · simp only [h, if_false]

/-- `key.upper().replace("-", "_")` as computed by the prelude (`upper` = ASCII upper-casing, `replace` =
the general substring replacement) is the model's `envName`, for every header name -/
theorem replace_upper_eq_envName (k : List Char) :
    Pre.replace (Pre.upper k) ['-'] ['_'] = envName k := by
  rw [replace_singleton]
  unfold Pre.upper envName
  rw [List.map_map]
  apply List.map_congr_left
  intro c _
  simp only [Function.comp, toUpper_eq, upperAscii_eq_dash]

/-- `value.replace("\r\n", "")` as computed by the prelude's general left-to-right, non-overlapping
substring replacement is the model's `dropCrlf`, for every header value -/
theorem replace_crlf_eq_dropCrlf (v : List Char) :
    Pre.replace v ['\r', '\n'] [] = dropCrlf v := by
  have : ∀ v : List Char, replaceAux ['\r', '\n'] [] v 0 = dropCrlf v := by
    intro v
    induction v using dropCrlf.induct with
    | case1 t ih =>
      simp [replaceAux, dropCrlf, List.isPrefixOf, ih]
    | case2 c t hne ih =>
      rw [dropCrlf]
      · unfold replaceAux
        have hp : ['\r', '\n'].isPrefixOf (c :: t) = false := by
          cases t with
          | nil => simp [List.isPrefixOf]
          | cons d t' =>
            simp only [List.isPrefixOf, Bool.and_true, Bool.and_eq_false_imp, beq_iff_eq]
            intro hc
            rw [beq_eq_false_iff_ne]
            intro hd
            exact hne t' hc.symm (by rw [hd])
        simp only [hp, Bool.false_eq_true, if_false, ih]
      · exact hne
    | case3 => rfl
  simp [Pre.replace, this]


/-- `"_" in key` (substring search of the prelude) is membership of the character `_` -/
theorem contains_underscore (k : List Char) : Pre.contains k ['_'] = k.contains '_' :=
  contains_singleton k '_'

/-- `value.strip().lower()` of the prelude is the model's `lowerStr (Py.strip value)` -/
theorem lower_strip_eq (v : List Char) : Pre.lower (Pre.strip v) = lowerStr (Py.strip v) := by
  unfold Pre.lower Pre.strip lowerStr
  apply List.map_congr_left
  intro c _
  exact toLower_eq c

/-! ### the prelude's dict operations against `Env.get` / `Env.set` -/

/-- a `dict[str, str]` as the prelude keeps it: the `(key, value)` pairs in insertion order -/
abbrev Dict := List (List Char × List Char)

/-- `list(d)`: the keys in insertion order -/
def keys (d : Dict) : List (List Char) := d.map (·.1)

/-- `d.get(k)` of the prelude is the model's `Env.get` (first pair whose key is `k`) -/
theorem dictGet?_eq_get (d : Dict) (k : List Char) : Pre.dictGet? d k = Env.get d k := rfl

/-- `d.get(k, x)` of the prelude in terms of the model's `Env.get` -/
theorem dictGetD_eq_get (d : Dict) (k x : List Char) : Pre.dictGetD d k x = (Env.get d k).getD x := rfl

/-- `d[k]` does not raise and answers `v` when the model's `Env.get` finds `v` -/
theorem dictGetItem_of_get (d : Dict) (k v : List Char) (h : Env.get d k = some v) :
    Pre.dictGetItem d k = .ok v := by
  unfold Pre.dictGetItem
  rw [dictGet?_eq_get, h]

/-- `k in d` of the prelude holds exactly when the model's `Env.get` finds a value -/
theorem dictHas_eq_get (d : Dict) (k : List Char) : Pre.dictHas d k = (Env.get d k).isSome := by
  induction d with
  | nil => rfl
  | cons p t ih =>
    simp only [Pre.dictHas, List.any_cons, Env.get, List.find?_cons] at ih ⊢
    cases h : (p.1 == k) <;> simp [ih]

/-- `k in d` of the prelude is membership in the list of keys -/
theorem dictHas_eq_mem (d : Dict) (k : List Char) : Pre.dictHas d k = true ↔ k ∈ keys d := by
  simp only [Pre.dictHas, keys, List.any_eq_true, List.mem_map, beq_iff_eq]

/-- after a successful `k in d` test, `d[k]` cannot raise `KeyError`: it is `d.get(k, "")` -/
theorem dictGetItem_of_has (d : Dict) (k : List Char) (h : Pre.dictHas d k = true) :
    Pre.dictGetItem d k = .ok (Pre.dictGetD d k []) := by
  rw [dictHas_eq_get] at h
  rw [dictGetD_eq_get]
  cases hg : Env.get d k with
  | none => rw [hg] at h; cases h
  | some v => exact dictGetItem_of_get d k v hg

/-- the in-place update the prelude's `d[k] = v` performs changes nothing in a list of pairs in which
`k` is not a key -/
theorem map_set_of_not_mem (d : Dict) (k v : List Char) (h : k ∉ keys d) :
    d.map (fun p => if p.1 == k then (p.1, v) else p) = d := by
  induction d with
  | nil => rfl
  | cons p t ih =>
    simp only [keys, List.map_cons, List.mem_cons, not_or] at h
    have hp : (p.1 == k) = false := by rw [beq_eq_false_iff_ne]; exact fun e => h.1 e.symm
    simp only [List.map_cons, hp, Bool.false_eq_true, if_false, ih h.2]

/-- `d[k] = v` of the prelude (update *every* pair with key `k`, else append) is the model's `Env.set`
(update the *first* pair with key `k`, else append) on a dict whose keys are distinct -/
theorem dictSet_eq_set (d : Dict) (k v : List Char) (hn : (keys d).Nodup) :
    Pre.dictSet d k v = Env.set d k v := by
  induction d with
  | nil => rfl
  | cons p t ih =>
    obtain ⟨k', v'⟩ := p
    simp only [keys, List.map_cons, List.nodup_cons] at hn
    have iht := ih hn.2
    unfold Env.set
    unfold Pre.dictSet at iht ⊢
    by_cases hk : (k' == k) = true
    · have e : k' = k := by simpa using hk
      have hnot : k ∉ keys t := by rw [← e]; exact hn.1
      simp only [Pre.dictHas, List.any_cons, hk, Bool.true_or, if_true, List.map_cons,
        map_set_of_not_mem t k v hnot]
    · have hk' : (k' == k) = false := by simpa using hk
      simp only [hk', Bool.false_eq_true, if_false]
      rw [← iht]
      simp only [Pre.dictHas, List.any_cons, hk', Bool.false_or, List.map_cons, Bool.false_eq_true, if_false]
      split <;> simp [*]

/-- the distinct-keys hypothesis of `dictSet_eq_set` is needed: with a repeated key the prelude updates
both pairs, the model the first only (neither list is a Python dict) -/
example : Pre.dictSet [(['a'], ['1']), (['a'], ['2'])] ['a'] ['3'] ≠ Env.set [(['a'], ['1']), (['a'], ['2'])] ['a'] ['3'] := by
  decide

/-- the keys after the model's `environ[k] = v`: unchanged when `k` was a key, else `k` appended -/
theorem keys_set (d : Dict) (k v : List Char) :
    keys (Env.set d k v) = if k ∈ keys d then keys d else keys d ++ [k] := by
  induction d with
  | nil => simp [Env.set, keys]
  | cons p t ih =>
    obtain ⟨k', v'⟩ := p
    unfold Env.set
    by_cases hk : (k' == k) = true
    · have e : k' = k := by simpa using hk
      simp [keys, e]
    · have hk' : (k' == k) = false := by simpa using hk
      have hne : ¬ k = k' := by intro e; rw [e] at hk; simp at hk
      simp only [hk', Bool.false_eq_true, if_false]
      simp only [keys, List.map_cons, List.mem_cons, hne, false_or] at ih ⊢
      rw [ih]
      by_cases hm : k ∈ List.map (fun x => x.fst) t <;> simp [hm]

/-- the model's `environ[k] = v` keeps the keys distinct -/
theorem nodup_set (d : Dict) (k v : List Char) (hn : (keys d).Nodup) : (keys (Env.set d k v)).Nodup := by
  rw [keys_set]
  split
  · exact hn
  · rename_i h
    rw [List.nodup_append]
    refine ⟨hn, by simp, ?_⟩
    intro a ha b hb
    simp only [List.mem_singleton] at hb
    subst hb
    intro e; subst e; exact h ha

/-- `k in d` ignores a leading block of pairs in which `k` is not a key -/
theorem dictHas_append (base e : Dict) (k : List Char) (hb : k ∉ keys base) :
    Pre.dictHas (base ++ e) k = Pre.dictHas e k := by
  have : Pre.dictHas base k = false := by
    rw [← Bool.not_eq_true, dictHas_eq_mem]; exact hb
  simp only [Pre.dictHas] at this ⊢
  rw [List.any_append, this, Bool.false_or]

/-- the model's lookup ignores a leading block of pairs in which `k` is not a key -/
theorem get_append (base e : Dict) (k : List Char) (hb : k ∉ keys base) :
    Env.get (base ++ e) k = Env.get e k := by
  induction base with
  | nil => rfl
  | cons p t ih =>
    simp only [keys, List.map_cons, List.mem_cons, not_or] at hb
    have hp : (p.1 == k) = false := by rw [beq_eq_false_iff_ne]; exact fun e => hb.1 e.symm
    simp only [Env.get, List.cons_append, List.find?_cons, hp] at ih ⊢
    exact ih hb.2

/-- `d[k] = v` of the prelude leaves alone a leading block of pairs in which `k` is not a key -/
theorem dictSet_append (base e : Dict) (k v : List Char) (hb : k ∉ keys base) :
    Pre.dictSet (base ++ e) k v = base ++ Pre.dictSet e k v := by
  unfold Pre.dictSet
  rw [dictHas_append base e k hb]
  split
  · rw [List.map_append, map_set_of_not_mem base k v hb]
  · rw [List.append_assoc]

/-! ### the header loop on an environ with base entries -/

/-- the keys the header loop of `make_environ` can write: `HTTP_…`, `CONTENT_TYPE`, `CONTENT_LENGTH` -/
def isHeaderKey (k : List Char) : Bool := "HTTP_".toList.isPrefixOf k || isContentKey k

/-- no key of the dict is one the header loop can write -/
def HeaderFree (base : Dict) : Prop := ∀ k ∈ keys base, isHeaderKey k = false

/-- `"HTTP_" + key` is a key the header loop can write -/
theorem isHeaderKey_http (k : List Char) : isHeaderKey ("HTTP_".toList ++ k) = true := by
  simp [isHeaderKey]

/-- `CONTENT_TYPE` / `CONTENT_LENGTH` are keys the header loop can write -/
theorem isHeaderKey_content (k : List Char) (h : isContentKey k = true) : isHeaderKey k = true := by
  simp [isHeaderKey, h]

/-- a key the header loop can write is not a key of a header-free dict -/
theorem HeaderFree.not_mem {base : Dict} (hb : HeaderFree base) {k : List Char} (hk : isHeaderKey k = true) :
    k ∉ keys base := by
  intro hm
  have := hb k hm
  rw [hk] at this
  cases this

/-- one iteration of the header loop of `make_environ` as a total function on the whole environ -/
def stepT (environ : Dict) (x : List Char × List Char) : Dict :=
  if Pre.contains x.1 ['_'] then environ
  else
    let key := Pre.replace (Pre.upper x.1) ['-'] ['_']
    let value := Pre.replace x.2 ['\r', '\n'] []
    if !(key == ['C', 'O', 'N', 'T', 'E', 'N', 'T', '_', 'T', 'Y', 'P', 'E'] || key == ['C', 'O', 'N', 'T', 'E', 'N', 'T', '_', 'L', 'E', 'N', 'G', 'T', 'H']) then
      let key := ['H', 'T', 'T', 'P', '_'] ++ key
      if Pre.dictHas environ key then
        Pre.dictSet environ key (Pre.dictGetD environ key [] ++ [','] ++ value)
      else Pre.dictSet environ key value
    else Pre.dictSet environ key value

/-- one iteration of the header loop, with the prelude's string kernels replaced by the model's
(`envName`, `dropCrlf`, membership of `_`, `isContentKey`); the dict operations are still the prelude's -/
theorem stepT_eq (environ : Dict) (x : List Char × List Char) :
    stepT environ x =
      if x.1.contains '_' then environ
      else if isContentKey (envName x.1) then Pre.dictSet environ (envName x.1) (dropCrlf x.2)
      else if Pre.dictHas environ ("HTTP_".toList ++ envName x.1) then
        Pre.dictSet environ ("HTTP_".toList ++ envName x.1)
          (Pre.dictGetD environ ("HTTP_".toList ++ envName x.1) [] ++ ',' :: dropCrlf x.2)
      else Pre.dictSet environ ("HTTP_".toList ++ envName x.1) (dropCrlf x.2) := by
  unfold stepT
  simp only [contains_underscore, replace_upper_eq_envName, replace_crlf_eq_dropCrlf]
  by_cases h1 : x.1.contains '_' = true
  · simp only [h1, if_true]
  · simp only [h1, Bool.false_eq_true, if_false]
    have e : (envName x.1 == ['C', 'O', 'N', 'T', 'E', 'N', 'T', '_', 'T', 'Y', 'P', 'E'] || envName x.1 == ['C', 'O', 'N', 'T', 'E', 'N', 'T', '_', 'L', 'E', 'N', 'G', 'T', 'H']) = isContentKey (envName x.1) := rfl
    rw [e]
    by_cases h2 : isContentKey (envName x.1) = true
    · simp only [h2, Bool.not_true, Bool.false_eq_true, if_false, if_true]
    · simp only [h2, Bool.not_false, if_true, Bool.false_eq_true, if_false]
      have e2 : ['H', 'T', 'T', 'P', '_'] = "HTTP_".toList := rfl
      rw [e2]
      simp only [List.append_assoc, List.singleton_append]

/-- one iteration of the model's header loop keeps the keys distinct -/
theorem keys_nodup_foldHeader (e : Dict) (h : List Char × List Char) (hn : (keys e).Nodup) :
    (keys (foldHeader e h)).Nodup := by
  unfold foldHeader
  split
  · exact hn
  · simp only []
    split
    · exact nodup_set _ _ _ hn
    · split <;> exact nodup_set _ _ _ hn

/-- **one iteration**: on an environ that consists of a header-free block `base` (no key starts with
`HTTP_`, none is `CONTENT_TYPE` / `CONTENT_LENGTH`; its keys need not even be distinct) followed by header
entries `e` with distinct keys, one iteration of the loop of the Python code leaves `base` untouched and
does to `e` exactly what the model's `foldHeader` does - skip on `_`, `CONTENT_*` overwritten, `HTTP_*`
comma-joined onto the previous value -/
theorem stepT_append (base e : Dict) (h : List Char × List Char) (hb : HeaderFree base) (hn : (keys e).Nodup) :
    stepT (base ++ e) h = base ++ foldHeader e h := by
  rw [stepT_eq]
  unfold foldHeader
  by_cases h1 : h.1.contains '_' = true
  · simp only [h1, if_true]
  · simp only [h1, if_false, Bool.false_eq_true]
    by_cases h2 : isContentKey (envName h.1) = true
    · simp only [h2, if_true]
      rw [dictSet_append _ _ _ _ (hb.not_mem (isHeaderKey_content _ h2)), dictSet_eq_set _ _ _ hn]
    · simp only [h2, if_false, Bool.false_eq_true]
      have hk := hb.not_mem (isHeaderKey_http (envName h.1))
      rw [dictHas_append _ _ _ hk, dictHas_eq_get, dictGetD_eq_get, get_append _ _ _ hk]
      cases hg : Env.get e ("HTTP_".toList ++ envName h.1) with
      | none =>
        simp only [Option.isSome_none, Bool.false_eq_true, if_false]
        rw [dictSet_append _ _ _ _ hk, dictSet_eq_set _ _ _ hn]
      | some old =>
        simp only [Option.isSome_some, if_true, Option.getD_some]
        rw [dictSet_append _ _ _ _ hk, dictSet_eq_set _ _ _ hn]

/-- the header-free hypothesis of `stepT_append` is needed: were `HTTP_A` a base entry, a header `A`
would be joined onto it instead of starting a new entry -/
example : stepT ([("HTTP_A".toList, ['1'])] ++ []) (['A'], ['2']) ≠ [("HTTP_A".toList, ['1'])] ++ foldHeader [] (['A'], ['2']) := by
  decide +kernel

/-- the model's header loop keeps the keys distinct -/
theorem keys_nodup_foldl (hs : List (List Char × List Char)) (e : Dict) (hn : (keys e).Nodup) :
    (keys (hs.foldl foldHeader e)).Nodup := by
  induction hs generalizing e with
  | nil => exact hn
  | cons h t ih => exact ih _ (keys_nodup_foldHeader e h hn)

/-- the whole header loop on `base ++ e`: `base` untouched, `e` folded by the model's `foldHeader` -/
theorem foldl_stepT_append (base : Dict) (hb : HeaderFree base) (hs : List (List Char × List Char)) (e : Dict)
    (hn : (keys e).Nodup) :
    hs.foldl stepT (base ++ e) = base ++ hs.foldl foldHeader e := by
  induction hs generalizing e with
  | nil => rfl
  | cons h t ih =>
    simp only [List.foldl_cons]
    rw [stepT_append base e h hb hn]
    exact ih _ (keys_nodup_foldHeader e h hn)

/-! ### the parameters and the base entries of the main theorem -/

/-- the `urlsplit` parameter of the main theorem: the model's `urlsplit`, answering
`(scheme, netloc, path, query)`; the model's `none` (a target outside the modelled domain, or `[` / `]` in
the authority, where urllib raises) is presented as `ValueError` -/
def urlsplitOf (s : List Char) : Except String (List Char × List Char × List Char × List Char) :=
  match DevServer.urlsplit s with
  | some u => .ok (u.scheme, u.netloc, u.path, u.query)
  | none => .error "ValueError"

/-- the `unquote` parameter of the main theorem: `urllib.parse.unquote` as the model has it (percent-decode,
then decode as UTF-8 with replacement); the model's `unquoteDance s` is `dance (unquoteOf s)` -/
def unquoteOf (s : List Char) : List Char := Py.decodeReplace (pctDecode s)

/-- the twelve text-valued entries the environ literal of `make_environ` starts with, in the order of the
source (the non-text entries `wsgi.version`, `wsgi.input`, `wsgi.errors`, `wsgi.multithread`,
`wsgi.multiprocess`, `wsgi.run_once`, `werkzeug.socket`, `REMOTE_PORT` are not part of the translation) -/
def baseEntries (tls : Bool) (ra sn sp sv method pathInfo query rawUri protocol : List Char) : Dict :=
  [("wsgi.url_scheme".toList, if tls then "https".toList else "http".toList),
   ("SERVER_SOFTWARE".toList, sv), ("REQUEST_METHOD".toList, method), ("SCRIPT_NAME".toList, []),
   ("PATH_INFO".toList, pathInfo), ("QUERY_STRING".toList, query), ("REQUEST_URI".toList, rawUri),
   ("RAW_URI".toList, rawUri), ("REMOTE_ADDR".toList, ra), ("SERVER_NAME".toList, sn),
   ("SERVER_PORT".toList, sp), ("SERVER_PROTOCOL".toList, protocol)]

/-- the base entries written with the fields of the model's `Environ`: `REQUEST_METHOD = E.method`,
`PATH_INFO = E.pathInfo`, `QUERY_STRING = E.query`, `REQUEST_URI = RAW_URI = E.rawUri`,
`SERVER_PROTOCOL = E.protocol`; `tls` = `self.server.ssl_context is not None`, `ra` = `self.address_string()`,
`sn` / `sp` = the server address, `sv` = `self.server_version` -/
def baseOf (tls : Bool) (ra sn sp sv : List Char) (E : Environ) : Dict :=
  baseEntries tls ra sn sp sv E.method E.pathInfo E.query E.rawUri E.protocol

/-- none of the twelve base keys can be written by the header loop -/
theorem baseEntries_headerFree (tls : Bool) (ra sn sp sv m p q r pr : List Char) :
    HeaderFree (baseEntries tls ra sn sp sv m p q r pr) := by
  intro k hk
  simp only [baseEntries, keys, List.map_cons, List.map_nil, List.mem_cons, List.not_mem_nil, or_false] at hk
  rcases hk with h | h | h | h | h | h | h | h | h | h | h | h <;> subst h <;> decide

/-- none of the twelve base keys can be written by the header loop -/
theorem baseOf_headerFree (tls : Bool) (ra sn sp sv : List Char) (E : Environ) :
    HeaderFree (baseOf tls ra sn sp sv E) := baseEntries_headerFree tls ra sn sp sv _ _ _ _ _

/-- the header loop started on a header-free dict `base` ends with `base` followed by the model's
`foldHeaders` of the header list (`L` is there so that `rw` can pick up the literal environ of the
generated text and leave `L = base` as a side goal) -/
theorem foldl_stepT_base (base L : Dict) (hs : List (List Char × List Char)) (hL : L = base) (hb : HeaderFree base) :
    hs.foldl stepT L = base ++ foldHeaders hs := by
  subst hL
  have := foldl_stepT_append L hb hs [] List.nodup_nil
  rwa [List.append_nil] at this

/-- `environ.get("HTTP_TRANSFER_ENCODING", "").strip().lower() == "chunked"` on `base ++ fh` with a
header-free `base` is the model's `isChunkedRequest fh` (a missing key gives `""`, which is not `chunked`) -/
theorem chunked_test (base fh : Dict) (hb : HeaderFree base) :
    (Pre.lower (Pre.strip (Pre.dictGetD (base ++ fh)
        ['H', 'T', 'T', 'P', '_', 'T', 'R', 'A', 'N', 'S', 'F', 'E', 'R', '_', 'E', 'N', 'C', 'O', 'D', 'I', 'N', 'G'] []))
      == ['c', 'h', 'u', 'n', 'k', 'e', 'd']) = isChunkedRequest fh := by
  show (Pre.lower (Pre.strip (Pre.dictGetD (base ++ fh) "HTTP_TRANSFER_ENCODING".toList [])) == "chunked".toList) = _
  rw [dictGetD_eq_get, get_append _ _ _ (hb.not_mem (by decide)), lower_strip_eq]
  unfold isChunkedRequest
  cases Env.get fh "HTTP_TRANSFER_ENCODING".toList with
  | none => decide
  | some v => rfl

/-- `environ["HTTP_HOST"] = netloc` on the whole environ `base ++ fh` is the model's
`fh.set "HTTP_HOST" netloc` on the header part: `HTTP_HOST` is not a base key -/
theorem host_set (base fh : Dict) (v : List Char) (hb : HeaderFree base) (hn : (keys fh).Nodup) :
    Pre.dictSet (base ++ fh) ['H', 'T', 'T', 'P', '_', 'H', 'O', 'S', 'T'] v
      = base ++ Env.set fh "HTTP_HOST".toList v := by
  show Pre.dictSet (base ++ fh) "HTTP_HOST".toList v = _
  rw [dictSet_append _ _ _ _ (hb.not_mem (by decide)), dictSet_eq_set _ _ _ hn]

end kernels

/-! ## the translated `make_environ` -/

section translated
open Wz.Gen.PyFns_MakeEnviron

/-- **the header loop** `for key, value in self.headers.items():` of `make_environ`, as translated from
the current source, never returns from inside the loop and never raises - in particular the `KeyError`
arm of `environ[key]` is unreachable, the read being guarded by `key in environ` - and ends with the
environ folded by `stepT`; for every header list and every starting environ, whatever the other
parameters are -/
theorem loop1_eq_foldl urlsplit unquote tls ra sn sp sv headers (hs : List (List Char × List Char)) (environ : Dict) :
    make_environ.loop1 urlsplit unquote tls ra sn sp sv headers hs environ = .fall (hs.foldl stepT environ) := by
  induction hs generalizing environ with
  | nil => rfl
  | cons x rest ih =>
    rw [make_environ.loop1, List.foldl_cons]
    unfold stepT
    simp only []
    split
    · exact ih _
    · split
      · split
        · rename_i hh
          rw [dictGetItem_of_has _ _ hh]
          exact ih _
        · exact ih _
      · exact ih _

/-- **the header loop against the model's**: started on any dict `base` none of whose keys starts with
`HTTP_` or is `CONTENT_TYPE` / `CONTENT_LENGTH` (as the twelve base entries: `baseEntries_headerFree`), the
translated loop ends, without returning or raising, with `base` unchanged followed by exactly the entries
the model's `foldHeaders` computes from the empty env, in the same order -/
theorem loop1_from_base urlsplit unquote tls ra sn sp sv headers (hs : List (List Char × List Char)) (base : Dict)
    (hb : HeaderFree base) :
    make_environ.loop1 urlsplit unquote tls ra sn sp sv headers hs base = .fall (base ++ foldHeaders hs) := by
  rw [loop1_eq_foldl, foldl_stepT_base base base hs rfl hb]

/-- **`make_environ`, as translated from the current source, is the model's `makeEnviron`.** With
`urlsplit` / `unquote` instantiated by the model's (`urlsplitOf`, `unquoteOf`), for every TLS flag, peer
address, server name / port / version, header list, request target, method and protocol version:
when the model answers `none` (urlsplit refuses the target) the translated function raises `ValueError`
from its first statement; otherwise it does not raise and answers the dict that consists of the twelve
base entries - written with the model's `method`, `pathInfo`, `query`, `rawUri`, `protocol` - followed by
exactly the model's header env `E.headers` in the same order (`HTTP_HOST` overridden by the authority of
an absolute-form target), together with the model's `terminated` flag. No hypothesis on the inputs. -/
theorem make_environ_eq (tls : Bool) (ra sn sp sv : List Char) (headers : List (List Char × List Char))
    (path command version : List Char) :
    make_environ urlsplitOf unquoteOf tls ra sn sp sv headers path command version =
      match makeEnviron command path version headers with
      | none => .error "ValueError"
      | some E => .ok (baseOf tls ra sn sp sv E ++ E.headers, E.terminated) := by
  unfold make_environ makeEnviron urlsplitOf
  cases hu : DevServer.urlsplit path with
  | none => rfl
  | some u =>
    simp only [loop1_eq_foldl]
    have hnd : (keys (foldHeaders headers)).Nodup := keys_nodup_foldl headers [] List.nodup_nil
    have hfree := fun p => baseEntries_headerFree tls ra sn sp sv command (unquoteDance p) (dance u.query) (dance path) version
    have hfold : ∀ (L : Dict) (p : List Char),
        L = baseEntries tls ra sn sp sv command (unquoteDance p) (dance u.query) (dance path) version →
        headers.foldl stepT L
          = baseEntries tls ra sn sp sv command (unquoteDance p) (dance u.query) (dance path) version
            ++ foldHeaders headers :=
      fun L p hL => foldl_stepT_base _ L headers hL (hfree p)
    cases hs : u.scheme.isEmpty <;> cases hn : u.netloc.isEmpty <;>
      simp only [Bool.not_true, Bool.not_false, Bool.and_true, Bool.and_false, Bool.false_eq_true, if_true, if_false]
    · rw [hfold _ u.path, chunked_test _ _ (hfree _), host_set _ _ _ (hfree _) hnd]
      · cases isChunkedRequest (foldHeaders headers) <;> rfl
      · cases tls <;> rfl
    · rw [hfold _ u.path, chunked_test _ _ (hfree _)]
      · cases isChunkedRequest (foldHeaders headers) <;> rfl
      · cases tls <;> rfl
    · rw [hfold _ ('/' :: u.netloc ++ u.path), chunked_test _ _ (hfree _)]
      · cases isChunkedRequest (foldHeaders headers) <;> rfl
      · cases tls <;> rfl
    · rw [hfold _ u.path, chunked_test _ _ (hfree _)]
      · cases isChunkedRequest (foldHeaders headers) <;> rfl
      · cases tls <;> rfl

/-- **the only exception of the translated part of `make_environ` is the one `urlsplit` raises**, for
arbitrary `urlsplit` / `unquote` collaborators and all other inputs: the function raises `e` exactly when
`urlsplit(self.path)` raises `e`; neither `environ[key]` in the header loop nor anything else can raise -/
theorem make_environ_error_iff
    (us : List Char → Except String (List Char × List Char × List Char × List Char)) (uq : List Char → List Char)
    (tls : Bool) (ra sn sp sv : List Char) (headers : List (List Char × List Char))
    (path command version : List Char) (e : String) :
    make_environ us uq tls ra sn sp sv headers path command version = .error e ↔ us path = .error e := by
  unfold make_environ
  cases us path with
  | error e' => simp
  | ok v =>
    simp only [loop1_eq_foldl]
    repeat' split
    all_goals simp

/-- **what an application reads from the translated environ is what the model says**: when the model
answers `E`, the translated function answers a dict `d` (and the flag `E.terminated`) in which
`d.get("REQUEST_METHOD")`, `PATH_INFO`, `QUERY_STRING`, `SERVER_PROTOCOL`, `REQUEST_URI`, `RAW_URI` are the
model's `method`, `pathInfo`, `query`, `protocol`, `rawUri`, `rawUri`, and for every key that starts with
`HTTP_` or is `CONTENT_TYPE` / `CONTENT_LENGTH`, `d.get(key)` is the lookup in the model's header env -/
theorem make_environ_reads (tls : Bool) (ra sn sp sv : List Char) (headers : List (List Char × List Char))
    (path command version : List Char) (E : Environ)
    (h : makeEnviron command path version headers = some E) :
    ∃ d, make_environ urlsplitOf unquoteOf tls ra sn sp sv headers path command version = .ok (d, E.terminated) ∧
      Pre.dictGet? d "REQUEST_METHOD".toList = some E.method ∧
      Pre.dictGet? d "PATH_INFO".toList = some E.pathInfo ∧
      Pre.dictGet? d "QUERY_STRING".toList = some E.query ∧
      Pre.dictGet? d "SERVER_PROTOCOL".toList = some E.protocol ∧
      Pre.dictGet? d "REQUEST_URI".toList = some E.rawUri ∧
      Pre.dictGet? d "RAW_URI".toList = some E.rawUri ∧
      (∀ k, isHeaderKey k = true → Pre.dictGet? d k = Env.get E.headers k) := by
  refine ⟨baseOf tls ra sn sp sv E ++ E.headers, ?_, rfl, rfl, rfl, rfl, rfl, rfl, ?_⟩
  · rw [make_environ_eq, h]
  · intro k hk
    rw [dictGet?_eq_get, get_append _ _ _ ((baseOf_headerFree tls ra sn sp sv E).not_mem hk)]

/-- C19 **chunked_sets_terminated** on the translated function: whenever the regenerated
`make_environ` returns, `wsgi.input_terminated` is set exactly when the folded `Transfer-Encoding` value,
stripped and lower-cased, is `chunked`; a single dash-named `Transfer-Encoding: chunked` header (any
letter case) sets it, no such header leaves it unset -/
theorem chunked_sets_terminated_translated (tls : Bool) (ra sn sp sv : List Char)
    (headers : List (List Char × List Char)) (path command version : List Char) (d : Dict) (t : Bool)
    (h : make_environ urlsplitOf unquoteOf tls ra sn sp sv headers path command version = .ok (d, t)) :
    (t = isChunkedRequest (foldHeaders headers)) ∧
    (∀ v, valuesFor "TRANSFER_ENCODING".toList headers = [v] → lowerStr (Py.strip v) = "chunked".toList →
      t = true) ∧
    (valuesFor "TRANSFER_ENCODING".toList headers = [] → t = false) := by
  rw [make_environ_eq] at h
  cases hm : makeEnviron command path version headers with
  | none => rw [hm] at h; cases h
  | some E =>
    rw [hm] at h
    simp only [Except.ok.injEq, Prod.mk.injEq] at h
    rw [← h.2]
    exact Props.C19.chunked_sets_terminated command path version headers E hm

/-- C19 **header_folding** on the translated function: whenever the regenerated `make_environ` returns
the dict `d`, then for every environ name `k` other than `CONTENT_TYPE` / `CONTENT_LENGTH` / `HOST`
(`HTTP_HOST` may be overridden by an absolute-form target), `d.get("HTTP_" + k)` is absent when no
dash-named header maps to `k`, and otherwise the first such value followed by `"," + value` for each
later one (values with `\r\n` removed) -/
theorem header_folding_translated (tls : Bool) (ra sn sp sv : List Char)
    (headers : List (List Char × List Char)) (path command version : List Char) (d : Dict) (t : Bool)
    (h : make_environ urlsplitOf unquoteOf tls ra sn sp sv headers path command version = .ok (d, t))
    (k : List Char) (hk : isContentKey k = false) (hh : k ≠ "HOST".toList) :
    Pre.dictGet? d ("HTTP_".toList ++ k) =
      match valuesFor k headers with
      | [] => none
      | v :: vs => some (v ++ vs.flatMap (fun x => ',' :: x)) := by
  rw [make_environ_eq] at h
  cases hm : makeEnviron command path version headers with
  | none => rw [hm] at h; cases h
  | some E =>
    rw [hm] at h
    simp only [Except.ok.injEq, Prod.mk.injEq] at h
    rw [← h.1, dictGet?_eq_get,
      get_append _ _ _ ((baseOf_headerFree tls ra sn sp sv E).not_mem (isHeaderKey_http k))]
    have hE : Env.get E.headers ("HTTP_".toList ++ k) = Env.get (foldHeaders headers) ("HTTP_".toList ++ k) := by
      unfold makeEnviron at hm
      cases hu : DevServer.urlsplit path with
      | none => rw [hu] at hm; cases hm
      | some u =>
        rw [hu] at hm
        simp only [Option.some.injEq] at hm
        rw [← hm]
        simp only []
        split
        · apply Env.get_set_other
          intro e
          exact hh (List.append_cancel_left e)
        · rfl
    rw [hE]
    exact Props.C19.header_folding headers k hk

end translated
end Wz.PyFnsEq.MakeEnviron
