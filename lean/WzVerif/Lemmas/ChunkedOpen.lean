/-
The de-chunking state machine on a chunked body that was **cut before its terminating chunk** (what a
client sees when the development server's application failed mid-response): the delivered data is
read back exactly, and the first read that needs a byte beyond it raises OSError — it never ends in a
short read or a clean end of body.
-/
import WzVerif.Model.Chunked
import WzVerif.Lemmas.Chunked
namespace Wz.Chunked
open Wz

/-- the chunks on the wire, without a terminating zero chunk and with nothing after them -/
def openEnc : List (Bytes × Term × Bool) → Bytes
  | [] => []
  | (data, t, upper) :: rest => encodeChunk upper t data ++ openEnc rest

/-- how the de-chunker stands relative to such a body: `P` is the data still to be delivered -/
inductive RepT : DState → Bytes → Prop
  | start (rest : List (Bytes × Term × Bool)) (hne : ∀ c ∈ rest, c.1 ≠ []) :
      RepT { len := 0, done := false, wire := openEnc rest } (payload rest)
  | mid (cur : Bytes) (t : Term) (rest : List (Bytes × Term × Bool)) (hcur : cur ≠ [])
      (hne : ∀ c ∈ rest, c.1 ≠ []) :
      RepT { len := cur.length, done := false, wire := cur ++ t.bytes ++ openEnc rest } (cur ++ payload rest)

theorem openEnc_cons (d : Bytes) (t : Term) (up : Bool) (rest : List (Bytes × Term × Bool)) :
    openEnc ((d, t, up) :: rest) = hexOf up d.length ++ t.bytes ++ (d ++ t.bytes ++ openEnc rest) := by
  simp [openEnc, encodeChunk, List.append_assoc]

/-- what one loop run does from a state that represents the data `P`: with enough data left it returns
the next bytes; asked for more than is left it raises OSError -/
def LoopSpecT (f : Nat) : Prop :=
  ∀ (st : DState) (P : Bytes) (size : Nat) (acc : Bytes), RepT st P → acc.length ≤ size →
    st.wire.length < f →
    (size - acc.length ≤ P.length →
      ∃ st', readLoop f st size acc = (.ok (acc ++ P.take (size - acc.length)), st') ∧
        RepT st' (P.drop (size - acc.length))) ∧
    (P.length < size - acc.length → (readLoop f st size acc).1 = .error "OSError")

theorem mid_stepT (f : Nat) (ih : LoopSpecT f)
    (cur : Bytes) (t : Term) (rest : List (Bytes × Term × Bool)) (hcur : cur ≠ [])
    (hne : ∀ c ∈ rest, c.1 ≠ []) (size : Nat) (acc : Bytes) (hacc : acc.length < size)
    (hf : (cur ++ t.bytes ++ openEnc rest).length ≤ f) :
    (size - acc.length ≤ (cur ++ payload rest).length →
      ∃ st', afterHeader (fun s a => readLoop f s size a)
          { len := cur.length, done := false, wire := cur ++ t.bytes ++ openEnc rest } size acc
          = (.ok (acc ++ (cur ++ payload rest).take (size - acc.length)), st') ∧
        RepT st' ((cur ++ payload rest).drop (size - acc.length))) ∧
    ((cur ++ payload rest).length < size - acc.length →
      (afterHeader (fun s a => readLoop f s size a)
          { len := cur.length, done := false, wire := cur ++ t.bytes ++ openEnc rest } size acc).1
        = .error "OSError") := by
  rw [afterHeader_mid _ cur t _ size acc hcur]
  have hpos : 0 < cur.length := List.length_pos_iff.mpr hcur
  by_cases hlt : size - acc.length < cur.length
  · simp only [hlt, if_true]
    have hdne : cur.drop (size - acc.length) ≠ [] := by
      intro h
      have := congrArg List.length h
      simp at this; omega
    have hrep := RepT.mid (cur.drop (size - acc.length)) t rest hdne hne
    have hl : (cur.drop (size - acc.length)).length = cur.length - (size - acc.length) := by simp
    rw [hl] at hrep
    have hacc' : (acc ++ cur.take (size - acc.length)).length = size := by
      rw [List.length_append, List.length_take]; omega
    obtain ⟨hok, _⟩ := ih _ _ size (acc ++ cur.take (size - acc.length)) hrep (by omega) (by
      simp only [List.length_append, List.length_drop] at hf ⊢; omega)
    constructor
    · intro _
      obtain ⟨st', h1, h2⟩ := hok (by rw [hacc']; omega)
      refine ⟨st', ?_, ?_⟩
      · rw [h1, hacc']
        simp only [Nat.sub_self, List.take_zero, List.append_nil]
        rw [List.take_append_of_le_length (by omega)]
      · rw [hacc'] at h2
        simp only [Nat.sub_self, List.drop_zero] at h2
        rw [List.drop_append_of_le_length (by omega)]
        exact h2
    · intro hshort
      rw [List.length_append] at hshort
      omega
  · simp only [hlt, if_false]
    have hrep := RepT.start rest hne
    obtain ⟨hok, herr⟩ := ih _ _ size (acc ++ cur) hrep (by rw [List.length_append]; omega) (by
      simp only [List.length_append] at hf ⊢; omega)
    have hal : (acc ++ cur).length = acc.length + cur.length := List.length_append
    constructor
    · intro henough
      rw [List.length_append] at henough
      obtain ⟨st', h1, h2⟩ := hok (by rw [hal]; omega)
      have e1 : (cur ++ payload rest).take (size - acc.length)
          = cur ++ (payload rest).take (size - (acc ++ cur).length) := by
        rw [List.take_append, List.take_of_length_le (by omega), List.length_append]
        congr 2; omega
      have e2 : (cur ++ payload rest).drop (size - acc.length)
          = (payload rest).drop (size - (acc ++ cur).length) := by
        rw [List.drop_append, List.drop_of_length_le (by omega), List.length_append, List.nil_append]
        congr 1; omega
      exact ⟨st', by rw [h1, e1, List.append_assoc], by rw [e2]; exact h2⟩
    · intro hshort
      rw [List.length_append] at hshort
      exact herr (by rw [hal]; omega)

theorem readLoop_repT : ∀ f, LoopSpecT f := by
  intro f
  induction f with
  | zero => intro st P size acc _ _ h; omega
  | succ f ih =>
    intro st P size acc hrep hacc hfuel
    unfold readLoop
    cases hrep with
    | start rest hne =>
      by_cases hsz : size ≤ acc.length
      · simp only [hsz, decide_true, Bool.or_true, if_true]
        have h0 : size - acc.length = 0 := by omega
        constructor
        · intro _
          exact ⟨{ len := 0, done := false, wire := openEnc rest }, by simp [h0],
            by rw [h0]; exact RepT.start rest hne⟩
        · intro h; omega
      · simp only [hsz, decide_false, Bool.or_false, Bool.false_eq_true, if_false]
        cases rest with
        | nil =>
          -- the wire has ended where a size line is due
          have hrl : readline ([] : Bytes) = ([], []) := rfl
          simp only [readHeader, beq_self_eq_true, if_true, openEnc, hrl, chunkLenOf_nil]
          constructor
          · intro h
            simp only [payload, List.flatMap_nil, List.length_nil] at h
            omega
          · intro _; trivial
        | cons c rest' =>
          obtain ⟨d, t, up⟩ := c
          have hd : d ≠ [] := hne (d, t, up) List.mem_cons_self
          have hne' : ∀ c ∈ rest', c.1 ≠ [] := fun c hc => hne c (List.mem_cons_of_mem _ hc)
          have hw := openEnc_cons d t up rest'
          have hrl := readline_term t (hexOf up d.length) (d ++ t.bytes ++ openEnc rest') (hexOf_no_lf up d.length)
          have hcl := chunkLenOf_hexLine up d.length t
          have hdl : (d.length == 0) = false := by
            simp only [beq_eq_false_iff_ne, ne_eq]
            exact fun h => hd (List.length_eq_zero_iff.mp h)
          simp only [readHeader, beq_self_eq_true, if_true, hw, hrl, hcl, markDone, hdl, Bool.false_eq_true,
            if_false]
          have hf : (d ++ t.bytes ++ openEnc rest').length ≤ f := by
            have hfuel : (openEnc ((d, t, up) :: rest')).length < f + 1 := hfuel
            rw [hw] at hfuel
            simp only [List.length_append] at hfuel ⊢
            omega
          have := mid_stepT f ih d t rest' hd hne' size acc (by omega) hf
          rw [payload_cons]
          exact this
    | mid cur t rest hcur hne =>
      by_cases hsz : size ≤ acc.length
      · simp only [hsz, decide_true, Bool.or_true, if_true]
        have h0 : size - acc.length = 0 := by omega
        constructor
        · intro _
          exact ⟨{ len := cur.length, done := false, wire := cur ++ t.bytes ++ openEnc rest },
            by simp [h0], by rw [h0]; exact RepT.mid cur t rest hcur hne⟩
        · intro h; omega
      · simp only [hsz, decide_false, Bool.or_false, Bool.false_eq_true, if_false]
        have hcl : (cur.length == 0) = false := by
          simp only [beq_eq_false_iff_ne, ne_eq]
          exact fun h => hcur (List.length_eq_zero_iff.mp h)
        simp only [readHeader, hcl, Bool.false_eq_true, if_false, markDone]
        have hfuel' : (cur ++ t.bytes ++ openEnc rest).length < f + 1 := hfuel
        exact mid_stepT f ih cur t rest hcur hne size acc (by omega) (by omega)

/-- one `readinto(size)` on a cut body that still holds the data `P` -/
theorem readinto_repT (st : DState) (P : Bytes) (size : Nat) (h : RepT st P) :
    (size ≤ P.length → ∃ st', readinto st size = (.ok (P.take size), st') ∧ RepT st' (P.drop size)) ∧
    (P.length < size → (readinto st size).1 = .error "OSError") := by
  obtain ⟨h1, h2⟩ := readLoop_repT (st.wire.length + 1) st P size [] h (by simp) (by omega)
  constructor
  · intro hle
    obtain ⟨st', e1, e2⟩ := h1 (by simpa using hle)
    exact ⟨st', by simpa [readinto] using e1, by simpa using e2⟩
  · intro hlt
    have := h2 (by simpa using hlt)
    simpa [readinto] using this

/-- a sequence of reads that stays inside the delivered data, followed by one that reaches beyond it -/
theorem readMany_cut : ∀ (sizes : List Nat) (st : DState) (P : Bytes) (n : Nat), RepT st P →
    sizes.sum ≤ P.length → P.length < sizes.sum + n →
    (readMany st (sizes ++ [n])).1 = (slices P sizes).map .ok ++ [.error "OSError"] := by
  intro sizes
  induction sizes with
  | nil =>
    intro st P n h _ hn
    have := (readinto_repT st P n h).2 (by simpa using hn)
    simp only [List.nil_append, readMany, slices, List.map_nil]
    rw [← this]
  | cons m ms ih =>
    intro st P n h hsum hn
    simp only [List.sum_cons] at hsum hn
    obtain ⟨st', h1, h2⟩ := (readinto_repT st P m h).1 (by omega)
    simp only [List.cons_append, readMany, h1, slices, List.map_cons, List.cons.injEq, true_and]
    exact ih st' _ n h2 (by rw [List.length_drop]; omega) (by rw [List.length_drop]; omega)

end Wz.Chunked
