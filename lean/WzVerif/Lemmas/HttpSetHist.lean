/-
C06 on *reachable* header sets: a `HeaderSet` that was reached through a mutation history
(`add`, `update`, `remove`, `discard`, `clear`, `del hs[i]`, `hs[i] = v`) is serialised by
`to_header()` from `_headers` alone, while `len`, `in`, `bool`, `as_set()` read the case-folded
index `_set`. `parse_set_header(hs.to_header())` equals `hs` exactly when the two agree — which is
C08's invariant `HS.Inv`, proved there for every history (Lemmas/Containers.lean, read-only here).

The mutators are taken in the form regenerated from `structures.py` by `tools/py2lean.py`
(`Gen/PyFns_HeaderSet.lean`): `stepT` runs the *translated* `update` / `add` / `remove` / `discard` /
`__setitem__` and is proved equal to the hand model below (the same equalities as Props/C08T, proved
here again so that this file depends on no other property's Props file) — a re-ordering of the
statements of a mutator changes the generated definition and breaks that proof, hence this file.
-/
import WzVerif.Lemmas.Http
import WzVerif.Lemmas.HttpSet
import WzVerif.Model.HeaderSetCtor
import WzVerif.Lemmas.Containers
import WzVerif.Lemmas.PyFns_Headers
import WzVerif.Gen.PyFns_HeaderSet
namespace Wz.Http
open Wz

/-! ### the two transcriptions of `quote_header_value` (C08's and C06's) agree -/

theorem hsTokenChars_lt : Gen.Containers.tokenChars.all (fun n => decide (n < 256)) = true := by decide +kernel

theorem hsTokenChars_tbl : ∀ n, n < 256 → Gen.Containers.tokenChars.contains n = tbl Gen.Http.tokenTbl n := by
  decide +kernel

theorem hsTokenChar_eq (c : Char) : Gen.Containers.tokenChars.contains c.toNat = isToken c := by
  unfold isToken cls
  by_cases h : c.toNat < 256
  · simp only [h, if_true]
    exact hsTokenChars_tbl _ h
  · simp only [h, if_false, tokenHigh_false]
    have hall := hsTokenChars_lt
    rw [List.all_eq_true] at hall
    cases hc : Gen.Containers.tokenChars.contains c.toNat with
    | false => rfl
    | true =>
      have hm : c.toNat ∈ Gen.Containers.tokenChars := by simpa using hc
      have := hall _ hm
      simp at this
      exact absurd this h

theorem hsIsToken_eq (s : Str) : HS.isToken s = s.all isToken := by
  unfold HS.isToken
  congr 1
  funext c
  exact hsTokenChar_eq c

theorem hsEscape_eq (s : Str) :
    (s.flatMap fun ch => if ch == '\\' then ['\\', '\\'] else if ch == '"' then ['\\', '"'] else [ch]) = escapeDq s := by
  induction s with
  | nil => simp [escapeDq_nil]
  | cons c t ih =>
    rw [escapeDq_cons, List.flatMap_cons, ih]
    congr 1
    unfold escUnit
    by_cases h1 : c = '\\'
    · subst h1; simp
    · by_cases h2 : c = '"'
      · subst h2; simp
      · simp [h1, h2]

theorem hsQuote_eq (s : Str) : HS.quoteHeaderValue s = quoteHeaderValue s true := by
  unfold HS.quoteHeaderValue quoteHeaderValue
  rw [hsIsToken_eq, hsEscape_eq]
  simp

theorem hsToHeader_eq (c : HS.St) : HS.toHeader c = headerSetToHeader c.headers := by
  unfold HS.toHeader headerSetToHeader join
  congr 1
  apply List.map_congr_left
  intro s _
  exact hsQuote_eq s

/-- the list `parse_set_header(to_header())` hands to the constructor is the `_headers` list — for
every state, consistent or not -/
theorem parseSet_hsToHeader (c : HS.St) : parseSetHeader (HS.toHeader c) = c.headers := by
  rw [hsToHeader_eq]
  exact parseSet_list_dump_any c.headers

/-! ### the translated mutators are C08's hand model -/

namespace HsT
open Wz Wz.Hdr Wz.HS Wz.C08L Wz.PyFnsHeaders

/-- the loop of `HeaderSet.update` -/
theorem hs_update_loop_eq (n : Bool) (it : List (List Char)) : ∀ (h s : List (List Char)) (ia : Bool),
    Gen.PyFns_HeaderSet.hs_update.loop1 n it h s ia =
      .fall ((updateLoop ⟨h, s⟩ it).1.headers, (updateLoop ⟨h, s⟩ it).1.set, ia || (updateLoop ⟨h, s⟩ it).2) := by
  induction it with
  | nil => intro h s ia; simp [Gen.PyFns_HeaderSet.hs_update.loop1, updateLoop]
  | cons x t ih =>
    intro h s ia
    unfold Gen.PyFns_HeaderSet.hs_update.loop1 updateLoop
    have hl : Pre.lower x = Hdr.lower x := rfl
    by_cases hm : Hdr.lower x ∈ s
    · simp [hl, hm, ih]
    · simp [hl, hm, ih, Pre.setAdd, Pre.listAppend]

/-- `HeaderSet.update(iterable)`, as translated: the model's `update` (final `_headers`, `_set`; the
flag is raised when something was inserted). -/
theorem hs_update_eq (h s : List (List Char)) (n : Bool) (it : List (List Char)) :
    Gen.PyFns_HeaderSet.hs_update h s n it =
      ((HS.update ⟨h, s⟩ it).st.headers, (HS.update ⟨h, s⟩ it).st.set, n || (HS.update ⟨h, s⟩ it).notified) := by
  unfold Gen.PyFns_HeaderSet.hs_update HS.update
  simp only [hs_update_loop_eq, Bool.false_or]
  cases (updateLoop ⟨h, s⟩ it).2 <;> simp

/-- `HeaderSet.add(header)` is `update((header,))`. -/
theorem hs_add_eq (h s : List (List Char)) (n : Bool) (x : List Char) :
    Gen.PyFns_HeaderSet.hs_add h s n x =
      ((HS.update ⟨h, s⟩ [x]).st.headers, (HS.update ⟨h, s⟩ [x]).st.set, n || (HS.update ⟨h, s⟩ [x]).notified) := by
  unfold Gen.PyFns_HeaderSet.hs_add
  simp only [hs_update_eq]

/-- the `enumerate` loop of `HeaderSet.remove` with its `del self._headers[idx]; break`: whether it
breaks or runs out, the first member equal to `key` ignoring case is gone. -/
theorem hs_remove_loop_eq (s : List (List Char)) (n : Bool) (key : List Char) (t : List (List Char)) :
    ∀ (pre : List (List Char)),
      (Gen.PyFns_HeaderSet.hs_remove.loop1 s n key (Pre.enumerateFrom (pre.length : Int) t) (pre ++ t)
          = .fall (pre ++ dropFirst key t)) ∨
      (Gen.PyFns_HeaderSet.hs_remove.loop1 s n key (Pre.enumerateFrom (pre.length : Int) t) (pre ++ t)
          = .brk (pre ++ dropFirst key t)) := by
  induction t with
  | nil => intro pre; left; simp [Pre.enumerateFrom, Gen.PyFns_HeaderSet.hs_remove.loop1, dropFirst]
  | cons x t ih =>
    intro pre
    unfold Pre.enumerateFrom Gen.PyFns_HeaderSet.hs_remove.loop1 dropFirst
    have hl : Pre.lower x = Hdr.lower x := rfl
    by_cases hk : (Hdr.lower x == key) = true
    · right
      have hlt : pre.length < (pre ++ x :: t).length := by simp
      simp only [hl, hk, if_true, Pre.delItem_lt _ _ hlt]
      simp [List.eraseIdx_append_of_length_le]
    · have hk' : (Hdr.lower x == key) = false := by simpa using hk
      have e : ((pre.length : Int) + 1) = (((pre ++ [x]).length : Nat) : Int) := by simp
      have e2 : pre ++ x :: t = (pre ++ [x]) ++ t := by simp
      simp only [hl, hk', Bool.false_eq_true, if_false]
      rw [e, e2]
      rcases ih (pre ++ [x]) with h | h
      · left; rw [h]; simp
      · right; rw [h]; simp

/-- `HeaderSet.remove(header)`, as translated (KeyError for a non-member, `_set.remove`, the
deletion loop, `on_update`), is the model's `remove`. -/
theorem hs_remove_eq (h s : List (List Char)) (n : Bool) (x : List Char) :
    Gen.PyFns_HeaderSet.hs_remove h s n x =
      (((remove ⟨h, s⟩ x).st.headers, (remove ⟨h, s⟩ x).st.set, n || (remove ⟨h, s⟩ x).notified),
        (remove ⟨h, s⟩ x).res) := by
  unfold Gen.PyFns_HeaderSet.hs_remove remove
  have hl : Pre.lower x = Hdr.lower x := rfl
  by_cases hm : Hdr.lower x ∈ s
  · have hc : s.contains (Hdr.lower x) = true := by simpa using hm
    simp only [hl, hc, Bool.not_true, Bool.false_eq_true, if_false, Pre.setRemove, if_true, Pre.enumerate]
    have := hs_remove_loop_eq (s.erase (Hdr.lower x)) n (Hdr.lower x) h []
    simp only [List.length_nil, Int.natCast_zero, List.nil_append] at this
    rcases this with h1 | h1 <;> rw [h1] <;> simp
  · simp [hl, hm]

/-- `HeaderSet.discard(header)`, as translated (`try: self.remove(header) except KeyError: pass`). -/
theorem hs_discard_eq (h s : List (List Char)) (n : Bool) (x : List Char) :
    Gen.PyFns_HeaderSet.hs_discard h s n x =
      ((HS.discard ⟨h, s⟩ x).st.headers, (HS.discard ⟨h, s⟩ x).st.set, n || (HS.discard ⟨h, s⟩ x).notified) := by
  unfold Gen.PyFns_HeaderSet.hs_discard HS.discard
  simp only [hs_remove_eq]
  cases (remove ⟨h, s⟩ x).res <;> rfl

/-- `hs[idx] = value`, as translated (`_headers[idx]` may raise IndexError, `_set.remove` KeyError,
then both containers are updated and `on_update` runs), is the model's `setitem`. -/
theorem hs_setitem_eq (h s : List (List Char)) (n : Bool) (i : Int) (v : List Char) :
    Gen.PyFns_HeaderSet.hs_setitem h s n i v =
      (((setitem ⟨h, s⟩ i v).st.headers, (setitem ⟨h, s⟩ i v).st.set, n || (setitem ⟨h, s⟩ i v).notified),
        (setitem ⟨h, s⟩ i v).res) := by
  unfold Gen.PyFns_HeaderSet.hs_setitem setitem
  cases hp : Hdr.pyIdx h.length i with
  | none => simp [pyIdx_none h i hp]
  | some k =>
    obtain ⟨hk, hg, hs⟩ := pyIdx_some h i k hp
    have hget : h[k]? = some h[k] := by simp [hk]
    have hl : ∀ t : List Char, Pre.lower t = Hdr.lower t := fun _ => rfl
    simp only [hg, hs, hget, hl, Pre.setRemove]
    by_cases hm : Hdr.lower h[k] ∈ s
    · simp [hm, Pre.setAdd, setAdd]
    · simp [hm]

end HsT

/-! ### one mutator, through the definitions regenerated from the source -/

open Gen.PyFns_HeaderSet in
/-- the state after one mutator; `update`, `add`, `remove`, `discard`, `__setitem__` are the
*translated* methods (`on_update` flag dropped), `clear` / `__delitem__` are C08's hand model -/
def stepT (c : HS.St) : HS.Op → HS.St
  | .add h => let r := hs_add c.headers c.set false h; ⟨r.1, r.2.1⟩
  | .remove h => let r := (hs_remove c.headers c.set false h).1; ⟨r.1, r.2.1⟩
  | .discard h => let r := hs_discard c.headers c.set false h; ⟨r.1, r.2.1⟩
  | .update hs => let r := hs_update c.headers c.set false hs; ⟨r.1, r.2.1⟩
  | .setitem i v => let r := (hs_setitem c.headers c.set false i v).1; ⟨r.1, r.2.1⟩
  | .clear => ⟨[], []⟩
  | .delitem i => (HS.delitem c i).st

def runT (c : HS.St) : List HS.Op → HS.St
  | [] => c
  | op :: t => runT (stepT c op) t

theorem stepT_eq (c : HS.St) (op : HS.Op) : stepT c op = (HS.step c op).st := by
  cases op with
  | add h => simp [stepT, HS.step, HsT.hs_add_eq]
  | remove h => simp [stepT, HS.step, HsT.hs_remove_eq]
  | discard h => simp [stepT, HS.step, HsT.hs_discard_eq]
  | update hs => simp [stepT, HS.step, HsT.hs_update_eq]
  | setitem i v => simp [stepT, HS.step, HsT.hs_setitem_eq]
  | clear => rfl
  | delitem i => rfl

theorem runT_eq (c : HS.St) (ops : List HS.Op) : runT c ops = HS.run c ops := by
  induction ops generalizing c with
  | nil => rfl
  | cons op t ih => simp only [runT, HS.run, stepT_eq, ih]

/-! ### the round trip on every reachable header set -/

/-- two `HeaderSet` objects are equal as values: same members in the same order (what iteration,
indexing, `find`, `to_header` and `as_set(preserve_casing=True)` see) and the same case-folded index
(what `len`, `in`, `bool`, `as_set()` see; a Python `set`, so order and multiplicity do not count) -/
def HsEquiv (a b : HS.St) : Prop :=
  a.headers = b.headers ∧ (∀ x, x ∈ a.set ↔ x ∈ b.set) ∧ HS.len a = HS.len b

/-- the constructor used here is C08's model of the repaired constructor -/
theorem hsCtor_eq_construct (l : List Str) : hsCtor l = HS.construct l := rfl

theorem inv_empty : HS.Inv ⟨[], []⟩ := by
  refine ⟨by simp, by simp, ?_⟩
  intro x; simp

/-- the repaired constructor establishes the invariant for **every** input (F08c is gone) -/
theorem hsCtor_inv (l : List Str) : HS.Inv (hsCtor l) := C08L.inv_updateLoop _ inv_empty l

theorem insertAll_of_nodup (s l : List Str) (h : ((s ++ l).map Hdr.lower).Nodup) : HSSpec.insertAll s l = s ++ l := by
  induction l generalizing s with
  | nil => simp [HSSpec.insertAll]
  | cons x t ih =>
    have hx : HSSpec.mem s x = false := by
      simp only [List.map_append, List.map_cons] at h
      have := (List.nodup_append.1 h).2.2
      simp only [HSSpec.mem]
      cases hc : (s.map Hdr.lower).contains (Hdr.lower x) with
      | false => rfl
      | true =>
        exfalso
        have hm : Hdr.lower x ∈ s.map Hdr.lower := by simpa using hc
        exact this _ hm _ List.mem_cons_self rfl
    simp only [HSSpec.insertAll, HSSpec.insert, hx, Bool.false_eq_true, if_false]
    rw [ih (s ++ [x]) (by simpa using h)]
    simp

/-- on a list without case-duplicates the constructor keeps every member -/
theorem hsCtor_headers_of_nodup (l : List Str) (h : (l.map Hdr.lower).Nodup) : (hsCtor l).headers = l := by
  unfold hsCtor
  rw [C08L.updateLoop_spec _ inv_empty l]
  simpa using insertAll_of_nodup [] l (by simpa using h)

theorem construct_equiv_of_inv (c : HS.St) (h : HS.Inv c) : HsEquiv (hsCtor c.headers) c := by
  have hi := hsCtor_inv c.headers
  have hh := hsCtor_headers_of_nodup c.headers h.1
  refine ⟨hh, ?_, ?_⟩
  · intro x
    rw [hi.2.2 x, h.2.2 x, hh]
  · rw [C08L.hs_len_eq _ hi, C08L.hs_len_eq _ h, hh]

theorem parseSet_toHeader_of_inv (c : HS.St) (h : HS.Inv c) : HsEquiv (parseSetObj (HS.toHeader c)) c := by
  unfold parseSetObj
  rw [parseSet_hsToHeader]
  exact construct_equiv_of_inv c h

/-- every header set reachable from a consistent one by a history of (translated) mutators
round-trips through `to_header` / `parse_set_header` -/
theorem headerSet_history_roundtrip_any (c : HS.St) (h : HS.Inv c) (ops : List HS.Op)
    (hok : C08L.hsOkHist c ops = true) :
    HsEquiv (parseSetObj (HS.toHeader (runT c ops))) (runT c ops) := by
  rw [runT_eq]
  exact parseSet_toHeader_of_inv _ (C08L.hs_run_refines c h ops hok).1

instance (a b : HS.St) : Decidable (HsEquiv a b) := by
  unfold HsEquiv
  have : Decidable (∀ x, x ∈ a.set ↔ x ∈ b.set) :=
    decidable_of_iff ((∀ x ∈ a.set, x ∈ b.set) ∧ (∀ x ∈ b.set, x ∈ a.set))
      ⟨fun h x => ⟨h.1 x, h.2 x⟩, fun h => ⟨fun x hx => (h x).1 hx, fun x hx => (h x).2 hx⟩⟩
  exact inferInstance

end Wz.Http
