/-
PyFnsEq_LimitedStream — the methods of `werkzeug.wsgi.LimitedStream` *as regenerated from werkzeug's
source* by `tools/py2lean.py` (`Gen/PyFns_Length.lean`, rewritten on every check run: `is_exhausted`,
`on_exhausted`, `on_disconnect`, `tell`, `readinto`, `readall`, `exhaust`, plus the hand-written glue
`ls_raw_read` = CPython's `RawIOBase.read(n)` on top of `readinto`) are equal, for all inputs, to the
hand-written model functions the C09 theorems are about (`Model/LimitedStream.lean`: `onExhausted`,
`onDisconnect`, `hook`, `request`, `readinto`, `read`, `readallLoop`, `readall`, `exhaust`). A change
of the Python source changes the generated definition and breaks these obligations.

How the two sides are related. The translated methods take the object's attributes as arguments
(`_pos`, `limit` as `Int`s, `_limit_is_max`, `hasattr(_stream, "readinto")`) and thread the wrapped
stream as the model's `LS.Under`; `readinto` also hands back the caller's bytearray. The model's state
`LS.St` has naturals and three ghost fields (`out`, `u.taken`, `u.log`; the last two live inside
`LS.Under`, which both sides share, so they are compared too; `out` has no counterpart). A model
outcome `(r, s') : LS.Res × LS.St` is *read as* a translated outcome by `view` (for `readinto`: new
`_pos`, new `u`, new buffer, returned count / exception) and `viewRead` (for `read`, `readall`,
`exhaust`: new `_pos`, new `u`, returned bytes / exception). All theorems are plain equalities
`translated … = view (model …)`, for every model state (also states outside C09's invariant, e.g.
`pos > limit`) and every buffer.

Main theorems: `ls_is_exhausted_eq`, `ls_tell_eq`, `ls_on_exhausted_eq`, `ls_on_disconnect_eq`
(+ `hook_raised`), `ls_readinto_eq`, `ls_raw_read_eq` (`ls_raw_read_eq_int`), `ls_readall_loop_eq`,
`ls_readall_eq`, `ls_exhaust_eq`; corollaries `ls_readall_fuel_irrelevant`, `ls_readinto_no_overread`,
`ls_readall_no_overread`, `ls_readinto_errors`, `ls_readinto_ok_bounds`. No input was found on which
translation and model differ; nothing is weakened or left open.
Candidates for a shared library: `setSlice_none_nat` (→ Lemmas/PyFns_Prelude.lean),
`bytearrayZeros_length`.
-/
import WzVerif.Gen.PyFns_Length
import WzVerif.Lemmas.LimitedStream
import WzVerif.Lemmas.PyFns_Prelude
namespace Wz.PyFnsEq.LimitedStream
open Wz Wz.Pre Wz.Gen.PyFns_Length

/-! ## helpers -/

/-- `b[:n] = xs` for a natural `n`: `xs` followed by `b[n:]` - whatever the three lengths are (in
particular for `len(xs) = n ≤ len(b)`, the in-place overwrite of the first `n` bytes) -/
theorem setSlice_none_nat (b xs : List α) (n : Nat) :
    Pre.setSlice b none (some (n : Int)) xs = xs ++ b.drop n := by
  simp only [Pre.setSlice, clamp_natCast, List.take_zero, List.nil_append, Nat.zero_max]
  rcases Nat.le_total n b.length with h | h
  · rw [Nat.min_eq_left h]
  · rw [Nat.min_eq_right h, List.drop_eq_nil_of_le (Nat.le_refl _), List.drop_eq_nil_of_le h]

/-- `len(bytearray(n))` -/
theorem bytearrayZeros_length (n : Nat) : (Pre.bytearrayZeros (n : Int)).length = n := by
  simp [Pre.bytearrayZeros]

/-- A model outcome `(r, s')` of `LS.readinto s (len b)` read as the outcome of the translated
`readinto(b)`: the new `_pos` is `s'.pos`, the wrapped stream is `s'.u`; on a normal return of the
bytes `d` the method returns `len(d)` and the buffer holds `d` followed by its own untouched rest
`b[len(d):]`; on an exception the buffer is exactly as the caller passed it. -/
def view (b : Bytes) (m : LS.Res × LS.St) : (Int × LS.Under × Bytes) × Except String Int :=
  match m.1 with
  | .ok d => (((m.2.pos : Int), m.2.u, d ++ b.drop d.length), .ok (d.length : Int))
  | .error e => (((m.2.pos : Int), m.2.u, b), .error e)

/-- A model outcome `(r, s')` of `read` / `readall` / `exhaust` read as the outcome of the translated
method: new `(_pos, u)` and the same bytes, or the same exception. -/
def viewRead (m : LS.Res × LS.St) : (Int × LS.Under) × Except String Bytes :=
  (((m.2.pos : Int), m.2.u), m.1)

/-- A model outcome of the `readall` loop read as the outcome of the translated `while` loop:
`.ok acc` = the loop was left (test false or `break`) with the accumulated bytes `acc`;
`.error e` = the exception `e` escaped from inside the loop. -/
def viewLoop (m : LS.Res × LS.St) :
    Pre.Loop ((Int × LS.Under) × Except String Bytes) (Int × LS.Under × Bytes) :=
  match m.1 with
  | .ok acc => .fall ((m.2.pos : Int), m.2.u, acc)
  | .error e => .ret (((m.2.pos : Int), m.2.u), .error e)

theorem view_pos (b : Bytes) (m : LS.Res × LS.St) : (view b m).1.1 = (m.2.pos : Int) := by
  unfold view; cases m.1 <;> rfl

theorem view_u (b : Bytes) (m : LS.Res × LS.St) : (view b m).1.2.1 = m.2.u := by
  unfold view; cases m.1 <;> rfl

theorem view_result (b : Bytes) (m : LS.Res × LS.St) :
    (view b m).2 = m.1.map (fun d => (d.length : Int)) := by
  unfold view; cases m.1 <;> rfl

/-- a hook's outcome `some e` (raises `e`) / `none` (returns) as the translated hook's `Except` -/
def raised : Option String → Except String Unit
  | some e => .error e
  | none => .ok ()

/-- the model's `hook` is "call the hook, then `return 0`" (zero bytes written) -/
theorem hook_raised (o : Option String) : LS.hook o = (raised o).map (fun _ => ([] : Bytes)) := by
  cases o <;> rfl

/-! ## `is_exhausted`, `tell`, the two hooks -/

/-- `LimitedStream.is_exhausted`, as translated from the current source (`self._pos >= self.limit`),
is the model's test `limit ≤ pos` (`LS.isExhausted`) that guards `readinto`, `readall`, `exhaust`,
for every position and limit. -/
theorem ls_is_exhausted_eq (s : LS.St) :
    ls_is_exhausted (s.pos : Int) (s.limit : Int) = decide (s.limit ≤ s.pos) := by
  unfold ls_is_exhausted
  rw [Bool.eq_iff_iff]; simp

/-- the same, against the model's observer `LS.isExhausted` -/
theorem ls_is_exhausted_eq' (s : LS.St) :
    ls_is_exhausted (s.pos : Int) (s.limit : Int) = LS.isExhausted s := ls_is_exhausted_eq s

/-- `LimitedStream.tell()`, as translated from the current source, returns the model's `pos`. -/
theorem ls_tell_eq (s : LS.St) : ls_tell (s.pos : Int) = (LS.tell s : Int) := rfl

/-- `LimitedStream.on_exhausted()`, as translated from the current source, raises
`RequestEntityTooLarge` exactly when the limit is a maximum and otherwise returns: the model's
`LS.onExhausted`. -/
theorem ls_on_exhausted_eq (s : LS.St) : ls_on_exhausted s.isMax = raised (LS.onExhausted s) := by
  unfold ls_on_exhausted LS.onExhausted
  cases s.isMax <;> rfl

/-- `LimitedStream.on_disconnect(error)`, as translated from the current source, raises
`ClientDisconnected` unless the limit is a maximum and no error was passed: the model's
`LS.onDisconnect s err`, `err` = "`error is not None`". -/
theorem ls_on_disconnect_eq (s : LS.St) (err : Option Unit) :
    ls_on_disconnect s.isMax err = raised (LS.onDisconnect s err.isSome) := by
  unfold ls_on_disconnect LS.onDisconnect
  cases err <;> cases s.isMax <;> rfl

/-! ## `readinto` -/

/-- **`LimitedStream.readinto(b)`, as translated from the current source, is the model's
`LS.readinto`** - for every object state `s` (position, limit, `is_max`, with or without
`_stream.readinto`, any wrapped stream: any data, any script of short reads / empty reads / raises)
and every buffer `b`:
the new `_pos`, the wrapped stream after the call (including the ghost log of the request made), the
returned count and the escaping exception are the model's, and the caller's buffer afterwards is the
bytes the model hands out followed by the untouched rest of `b` (unchanged on an exception or a zero
return). The three paths of the code - `_stream.readinto(b)` when the buffer fits into the remaining
limit, a temporary `bytearray(remaining)` copied into `b[:out_size]` when it does not,
`_stream.read(min(size, remaining))` for a stream without `readinto` - collapse into the model's one
underlying call of size `LS.request s (len b)`; `on_exhausted` runs iff `limit ≤ pos`,
`on_disconnect(error=e)` iff the stream raised, `on_disconnect()` iff it gave zero bytes. -/
theorem ls_readinto_eq (s : LS.St) (b : Bytes) :
    ls_readinto s.hasReadinto (s.pos : Int) (s.limit : Int) s.isMax s.u b
      = view b (LS.readinto s b.length) := by
  obtain ⟨limit, isMax, ri, pos, out, u⟩ := s
  unfold ls_readinto LS.readinto
  simp only
  by_cases hlim : limit ≤ pos
  · have h1 : decide ((limit : Int) - (pos : Int) ≤ 0) = true := by simp; omega
    simp only [h1, hlim, if_true]
    cases isMax <;> simp [ls_on_exhausted, LS.onExhausted, LS.hook, view]
  · have h1 : decide ((limit : Int) - (pos : Int) ≤ 0) = false := by simp; omega
    simp only [h1, hlim, if_false, Bool.false_eq_true]
    cases ri with
    | false =>
      -- `self._stream.read(min(size, remaining))`, then `b[:len(data)] = data`
      have hreq : (min (Int.ofNat b.length) ((limit : Int) - (pos : Int))).toNat
          = min b.length (limit - pos) := by
        rw [Int.ofNat_eq_natCast]; omega
      simp only [Bool.false_eq_true, if_false, underRead, hreq, LS.request]
      rcases hc : u.call (min b.length (limit - pos)) with ⟨o, u'⟩
      cases o with
      | raised => cases isMax <;> simp [ls_on_disconnect, LS.onDisconnect, LS.hook, view]
      | got d =>
        simp only [Int.ofNat_eq_natCast, setSlice_none_nat]
        cases d with
        | nil => cases isMax <;> simp [ls_on_disconnect, LS.onDisconnect, LS.hook, view]
        | cons x t =>
          have h0 : (((x :: t).length : Int) == 0) = false := by simp; omega
          simp only [h0, Bool.false_eq_true, if_false, List.isEmpty_cons, view, Int.natCast_add]
    | true =>
      by_cases hfit : b.length ≤ limit - pos
      · -- `self._stream.readinto(b)`: the caller's buffer is used directly
        have h2 : decide (Int.ofNat b.length ≤ (limit : Int) - (pos : Int)) = true := by
          rw [Int.ofNat_eq_natCast]; simp; omega
        simp only [if_true, h2, underReadinto, LS.request, hfit]
        rcases hc : u.call b.length with ⟨o, u'⟩
        cases o with
        | raised => cases isMax <;> simp [ls_on_disconnect, LS.onDisconnect, LS.hook, view]
        | got d =>
          simp only []
          cases d with
          | nil => cases isMax <;> simp [ls_on_disconnect, LS.onDisconnect, LS.hook, view]
          | cons x t =>
            have h0 : (((x :: t).length : Int) == 0) = false := by simp; omega
            simp only [h0, Bool.false_eq_true, if_false, List.isEmpty_cons, view, Int.natCast_add]
      · -- `temp_b = bytearray(remaining)`, `b[:out_size] = temp_b[:out_size]`
        have h2 : decide (Int.ofNat b.length ≤ (limit : Int) - (pos : Int)) = false := by
          rw [Int.ofNat_eq_natCast]; simp; omega
        have hz : (bytearrayZeros ((limit : Int) - (pos : Int))).length = limit - pos := by
          simp [bytearrayZeros]
        simp only [if_true, h2, underReadinto, LS.request, hfit, Bool.false_eq_true, if_false, hz]
        rcases hc : u.call (limit - pos) with ⟨o, u'⟩
        cases o with
        | raised => cases isMax <;> simp [ls_on_disconnect, LS.onDisconnect, LS.hook, view]
        | got d =>
          simp only []
          cases d with
          | nil => cases isMax <;> simp [ls_on_disconnect, LS.onDisconnect, LS.hook, view]
          | cons x t =>
            have h0 : (((x :: t).length : Int) == 0) = false := by simp; omega
            simp only [h0, Bool.false_eq_true, if_false, List.isEmpty_cons, view, Int.natCast_add,
              Bool.not_false, if_true]
            rw [slice_none_nat, setSlice_none_nat, List.take_left']
            rfl

/-- the real class on the same inputs (limit 3, five bytes behind a stream that gives 2 per call, a
5-byte buffer of `9`s; both kinds of stream): returns 2, buffer `[1, 2, 9, 9, 9]`, `tell() == 2`, one
underlying request `(0, 3)` -/
example : ∀ ri, ls_readinto ri 0 3 false { data := [1, 2, 3, 4, 5], script := [.give 2] } [9, 9, 9, 9, 9]
    = ((2, { data := [3, 4, 5], taken := [1, 2], script := [], log := [(0, 3)] }, [1, 2, 9, 9, 9]), .ok 2) := by
  intro ri; cases ri <;> rfl

/-! ## `read(n)` -/

/-- **`read(n)` (CPython's `RawIOBase.read` glue over the translated `readinto`: allocate `n` zero
bytes, `readinto`, truncate to the returned count) returns exactly the model's `LS.read s n`**: the
same bytes or the same exception, the same new position and wrapped stream - for every state and every
`n ≥ 0`. -/
theorem ls_raw_read_eq (s : LS.St) (n : Nat) :
    ls_raw_read s.hasReadinto (s.limit : Int) s.isMax (s.pos : Int) s.u (n : Int)
      = viewRead (LS.read s n) := by
  have h := ls_readinto_eq s (bytearrayZeros (n : Int))
  rw [bytearrayZeros_length] at h
  unfold ls_raw_read LS.read
  simp only [h, view, viewRead]
  rcases LS.readinto s n with ⟨r, s'⟩
  cases r with
  | error e => rfl
  | ok d => simp

/-- the same for an integer argument `n ≥ 0` -/
theorem ls_raw_read_eq_int (s : LS.St) (n : Int) (hn : 0 ≤ n) :
    ls_raw_read s.hasReadinto (s.limit : Int) s.isMax (s.pos : Int) s.u n
      = viewRead (LS.read s n.toNat) := by
  obtain ⟨k, rfl⟩ := Int.eq_ofNat_of_zero_le hn
  simpa using ls_raw_read_eq s k

/-! ## `readall` and `exhaust`

The `while not self.is_exhausted` loop is translated with explicit fuel (one unit per iteration,
running out = the marker error "py2lean: out of fuel"). The model's `readallLoop` has a fuel argument
of its own and `LS.readall` runs it with `limit - pos + 1`. Every iteration that does not leave the
loop appends at least one byte and advances `_pos` by as many (`LS.readinto_adv`), and the loop is
left as soon as `_pos >= limit`: with more than `limit - pos` units neither side runs out, whatever
the wrapped stream does. The bound is sharp (`ls_readall_fuel_sharp`): `limit - pos` one-byte
iterations need one more unit for the final, failing loop test. -/

/-- The translated `while not self.is_exhausted: data = self.read(1024 * 64); if not data: break;
out.extend(data)` loop agrees with the model's `readallLoop` from every state and every accumulator,
whenever both have more fuel than `limit - pos`: same accumulated bytes / same escaping exception,
same position and wrapped stream; the marker error does not occur. -/
theorem ls_readall_loop_eq : ∀ (f g : Nat) (s : LS.St) (acc : Bytes),
    s.limit - s.pos < f → s.limit - s.pos < g →
    ls_readall.loop1 s.hasReadinto (s.limit : Int) s.isMax f (s.pos : Int) s.u acc
      = viewLoop (LS.readallLoop g s acc) := by
  intro f
  induction f with
  | zero => intro g s acc hf; omega
  | succ f ih =>
    intro g s acc hf hg
    cases g with
    | zero => omega
    | succ g =>
      unfold ls_readall.loop1 LS.readallLoop
      rw [ls_is_exhausted_eq]
      by_cases hlim : s.limit ≤ s.pos
      · simp [hlim, viewLoop]
      · have h64 : (1024 * 64 : Int) = ((65536 : Nat) : Int) := by decide
        simp only [hlim, decide_false, Bool.not_false, if_true, if_false, h64, ls_raw_read_eq, viewRead]
        have hadv := LS.readinto_adv s 65536
        unfold LS.read
        rcases hr : LS.readinto s 65536 with ⟨r, s'⟩
        rw [hr] at hadv
        cases r with
        | error e => rfl
        | ok d =>
          simp only [LS.given] at hadv
          simp only []
          by_cases hd : d.isEmpty = true
          · simp [hd, viewLoop]
          · simp only [hd, Bool.false_eq_true, if_false, bytesExtend]
            have hpos : 0 < d.length := by
              cases d with
              | nil => simp at hd
              | cons => simp
            have := ih g s' (acc ++ d) (by rw [hadv.limit_eq, hadv.pos_eq]; omega)
              (by rw [hadv.limit_eq, hadv.pos_eq]; omega)
            rw [hadv.limit_eq, hadv.isMax_eq, hadv.ri_eq] at this
            exact this

/-- **`LimitedStream.readall()` (= `read()` / `read(-1)`), as translated from the current source, is
the model's `LS.readall`** - for every object state and every amount of fuel `≥ limit - pos + 1`: the
function terminates (the marker error "py2lean: out of fuel" does not occur) and returns exactly the
model's bytes, or raises exactly the model's exception (`on_exhausted` when already exhausted, what
escapes from `read` otherwise), leaving the same position and the same wrapped stream. All C09
theorems about `LS.readall` therefore speak about the current source. -/
theorem ls_readall_eq (fuel : Nat) (s : LS.St) (hf : s.limit - s.pos + 1 ≤ fuel) :
    ls_readall fuel s.hasReadinto (s.pos : Int) s.u (s.limit : Int) s.isMax = viewRead (LS.readall s) := by
  unfold ls_readall LS.readall
  rw [ls_is_exhausted_eq]
  by_cases hlim : s.limit ≤ s.pos
  · simp only [hlim, decide_true, if_true]
    cases hm : s.isMax <;> simp [ls_on_exhausted, LS.onExhausted, LS.hook, viewRead, hm]
  · simp only [hlim, decide_false, Bool.false_eq_true, if_false]
    rw [ls_readall_loop_eq fuel (s.limit - s.pos + 1) s [] (by omega) (by omega)]
    rcases LS.readallLoop (s.limit - s.pos + 1) s [] with ⟨r, s'⟩
    cases r <;> rfl

/-- **`LimitedStream.exhaust()`, as translated from the current source, is the model's `LS.exhaust`**
(`b""` without touching anything when already exhausted - no `on_exhausted`, unlike `readall` - else
`readall()`), for every object state and every amount of fuel `≥ limit - pos + 1`. -/
theorem ls_exhaust_eq (fuel : Nat) (s : LS.St) (hf : s.limit - s.pos + 1 ≤ fuel) :
    ls_exhaust fuel s.hasReadinto (s.pos : Int) s.u (s.limit : Int) s.isMax = viewRead (LS.exhaust s) := by
  unfold ls_exhaust LS.exhaust
  rw [ls_is_exhausted_eq]
  by_cases hlim : s.limit ≤ s.pos
  · simp [hlim, viewRead]
  · simp only [hlim, decide_false, Bool.not_false, if_true, if_false, ls_readall_eq fuel s hf, viewRead]
    cases (LS.readall s).1 <;> rfl

/-- The result of the translated `readall` does not depend on the fuel once it exceeds `limit - pos`. -/
theorem ls_readall_fuel_irrelevant (f1 f2 : Nat) (s : LS.St)
    (h1 : s.limit - s.pos + 1 ≤ f1) (h2 : s.limit - s.pos + 1 ≤ f2) :
    ls_readall f1 s.hasReadinto (s.pos : Int) s.u (s.limit : Int) s.isMax
      = ls_readall f2 s.hasReadinto (s.pos : Int) s.u (s.limit : Int) s.isMax := by
  rw [ls_readall_eq f1 s h1, ls_readall_eq f2 s h2]

/-- one iteration of the translated loop from an unexhausted state, in terms of the model's `read` -/
theorem ls_readall_loop_step (f : Nat) (s : LS.St) (acc : Bytes) (hlim : ¬ s.limit ≤ s.pos) :
    ls_readall.loop1 s.hasReadinto (s.limit : Int) s.isMax (f + 1) (s.pos : Int) s.u acc
      = match (LS.read s 65536).1 with
        | .error e => .ret ((((LS.read s 65536).2.pos : Int), (LS.read s 65536).2.u), .error e)
        | .ok d =>
          if d.isEmpty then .fall (((LS.read s 65536).2.pos : Int), (LS.read s 65536).2.u, acc)
          else ls_readall.loop1 s.hasReadinto (s.limit : Int) s.isMax f
            ((LS.read s 65536).2.pos : Int) (LS.read s 65536).2.u (acc ++ d) := by
  have h64 : (1024 * 64 : Int) = ((65536 : Nat) : Int) := by decide
  rw [ls_readall.loop1, ls_is_exhausted_eq]
  simp only [hlim, decide_false, Bool.not_false, if_true, h64, ls_raw_read_eq, viewRead]
  cases (LS.read s 65536).1 <;> rfl

/-- the object of the sharpness example: limit 2 (a maximum), two bytes behind a stream that gives one
byte per call -/
def sharpSt (ri : Bool) : LS.St :=
  { limit := 2, isMax := true, hasReadinto := ri, u := { data := [1, 2], script := [.give 1, .give 1] } }

/-- The bound `limit - pos + 1` is sharp: on `sharpSt` the loop makes two productive iterations and
needs a third unit for the final (failing) loop test, so with 2 units the marker error appears, and
with 3 the result is the real one (`LimitedStream(u, 2, is_max=True).exhaust() == b"\x01\x02"`,
`tell() == 2`, underlying requests `(0, 2)` then `(1, 1)`; replayed on CPython with both kinds of
stream). -/
theorem ls_readall_fuel_sharp (ri : Bool) :
    (ls_exhaust 2 ri 0 (sharpSt ri).u 2 true).2 = .error "py2lean: out of fuel" ∧
    ls_exhaust 3 ri 0 (sharpSt ri).u 2 true
      = ((2, { data := [], taken := [1, 2], script := [], log := [(1, 1), (0, 2)] }), .ok [1, 2]) := by
  have hx : ls_is_exhausted 0 2 = false := by decide
  have key : ∀ (s : LS.St), ¬ s.limit ≤ s.pos → (LS.read s 65536).1 = .ok [1] →
      ¬ (LS.read s 65536).2.limit ≤ (LS.read s 65536).2.pos →
      (LS.read (LS.read s 65536).2 65536).1 = .ok [2] →
      ∃ p u, ls_readall.loop1 s.hasReadinto (s.limit : Int) s.isMax 2 (s.pos : Int) s.u []
        = .ret ((p, u), .error "py2lean: out of fuel") := by
    intro s h0 e1 h1 e2
    have hadv := LS.readinto_adv s 65536
    have s1 := ls_readall_loop_step 1 s [] h0
    have s2 := ls_readall_loop_step 0 (LS.read s 65536).2 [1] h1
    rw [e1] at s1
    rw [e2] at s2
    simp only [List.isEmpty_cons, Bool.false_eq_true, if_false, List.nil_append] at s1 s2
    unfold LS.read at s1 s2 h1 e1 e2
    rw [hadv.limit_eq, hadv.isMax_eq, hadv.ri_eq] at s2
    rw [s1, s2]
    exact ⟨_, _, rfl⟩
  constructor
  · obtain ⟨p, u, h⟩ := key (sharpSt ri) (by cases ri <;> decide) (by cases ri <;> rfl)
      (by cases ri <;> decide) (by cases ri <;> rfl)
    have h' : ls_readall.loop1 ri 2 true 2 0 (sharpSt ri).u []
        = .ret ((p, u), .error "py2lean: out of fuel") := h
    unfold ls_exhaust ls_readall
    simp only [hx, Bool.not_false, if_true, Bool.false_eq_true, if_false, h']
  · exact (ls_exhaust_eq 3 (sharpSt ri) (by cases ri <;> decide)).trans (by cases ri <;> rfl)

/-! ## consequences for the translated methods -/

/-- **No over-read, for the translated `readinto`**: on an object that satisfies C09's invariant
(every state reachable from a fresh object does, `LS.fresh_inv` / `LS.readinto_adv`), after the
translated `readinto(b)` every request the wrapped stream has ever received - including the one just
made, on whichever of the three paths - asked for at most `limit - (bytes consumed before it)` bytes. -/
theorem ls_readinto_no_overread (s : LS.St) (b : Bytes) (hinv : LS.Inv s) :
    ∀ p ∈ (ls_readinto s.hasReadinto (s.pos : Int) (s.limit : Int) s.isMax s.u b).1.2.1.log,
      p.1 + p.2 ≤ s.limit := by
  rw [ls_readinto_eq, view_u]
  have h := LS.readinto_adv s b.length
  intro p hp
  exact h.limit_eq ▸ (h.inv hinv).no_overread p hp

/-- **No over-read, for the translated `readall`** (hence `exhaust`, `read()`): the same bound for
every request made by all the iterations of the loop together. -/
theorem ls_readall_no_overread (fuel : Nat) (s : LS.St) (hf : s.limit - s.pos + 1 ≤ fuel) (hinv : LS.Inv s) :
    ∀ p ∈ (ls_readall fuel s.hasReadinto (s.pos : Int) s.u (s.limit : Int) s.isMax).1.2.log,
      p.1 + p.2 ≤ s.limit := by
  rw [ls_readall_eq fuel s hf]
  obtain ⟨d, h, _, _⟩ := LS.readall_spec s
  intro p hp
  exact h.limit_eq ▸ (h.inv hinv).no_overread p hp

/-- The only exceptions that escape from the translated `readinto` are `RequestEntityTooLarge` (only
at or past a maximum) and `ClientDisconnected`: an `OSError` / `ValueError` of the wrapped stream never
gets through. -/
theorem ls_readinto_errors (s : LS.St) (b : Bytes) (e : String)
    (h : (ls_readinto s.hasReadinto (s.pos : Int) (s.limit : Int) s.isMax s.u b).2 = .error e) :
    LS.GoodErr s e := by
  rw [ls_readinto_eq, view_result] at h
  cases hm : (LS.readinto s b.length).1 with
  | ok d => rw [hm] at h; cases h
  | error e' =>
    rw [hm] at h
    simp only [Except.map, Except.error.injEq] at h
    exact h ▸ LS.readinto_error hm

/-- A normal return `n` of the translated `readinto(b)` satisfies `0 ≤ n ≤ len(b)`, the position
advances by exactly `n`, and the buffer keeps its length. -/
theorem ls_readinto_ok_bounds (s : LS.St) (b : Bytes) (n : Int)
    (h : (ls_readinto s.hasReadinto (s.pos : Int) (s.limit : Int) s.isMax s.u b).2 = .ok n) :
    0 ≤ n ∧ n ≤ b.length
    ∧ (ls_readinto s.hasReadinto (s.pos : Int) (s.limit : Int) s.isMax s.u b).1.1 = (s.pos : Int) + n
    ∧ (ls_readinto s.hasReadinto (s.pos : Int) (s.limit : Int) s.isMax s.u b).1.2.2.length = b.length := by
  rw [ls_readinto_eq] at h ⊢
  have hadv := LS.readinto_adv s b.length
  have hle := LS.readinto_length_le s b.length
  unfold view at h ⊢
  cases hm : (LS.readinto s b.length).1 with
  | error e => rw [hm] at h; cases h
  | ok d =>
    rw [hm] at h hadv
    simp only [Except.ok.injEq] at h
    simp only [LS.given] at hadv
    have hd := hle d hm
    subst h
    refine ⟨by omega, by omega, ?_, ?_⟩
    · simp only [hadv.pos_eq]; omega
    · simp only [List.length_append, List.length_drop]; omega

end Wz.PyFnsEq.LimitedStream
