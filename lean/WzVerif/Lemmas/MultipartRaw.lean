/-
Parts with an arbitrary header block (C01): the PART branch of `next_event` as a function of the
header block, bodies made of raw parts, and the bridge from the encoder-shaped parts of
`MultipartCodec`. Core only.
-/
import WzVerif.Lemmas.MultipartCodec
namespace Wz.Multipart
open Wz

variable {nl : Nl} {ep : Bytes}

/-- a part on the wire: the bytes of its header block (without the blank line), its payload, and the
transport padding (RFC 2046) that follows `--boundary` on the delimiter line in front of it -/
structure RawPart where
  hdr : Bytes
  payload : Bytes
  pad : Bytes
deriving Repr, DecidableEq

/-- the PART branch of `next_event` once BLANK_LINE_RE has matched: from the header block to the
Field / File event (or the exception) -/
def headEvent (H : Bytes) : Except String Event :=
  match parseHeaders H with
  | .error err => .error err
  | .ok headers =>
    match headerGet "content-disposition".toList headers with
    | none => .error "ValueError"
    | some cd =>
      match FormOptions.parseOptionsHeader cd with
      | .error err => .error err
      | .ok (_, extra) =>
        .ok (match FormOptions.lookup "filename".toList extra with
             | some fn => .file (FormOptions.lookup "name".toList extra) fn headers
             | none => .field (FormOptions.lookup "name".toList extra) headers)

/-- `step` in state PART, in terms of `headEvent` -/
theorem step_part_of_headEvent {d : Decoder} {s e : Nat} {ev : Event} (hst : d.state = .part)
    (hmp : d.maxParts = none) (hsb : searchBlankFrom d.searchPos d.buffer = some (s, e))
    (hev : headEvent (d.buffer.take s) = .ok ev) :
    step d = .ok (ev, { d with buffer := d.buffer.drop ((s + e) / 2), state := .dataStart, searchPos := 0,
                               partsDecoded := d.partsDecoded + 1 }) := by
  unfold step
  rw [hst]
  simp only
  rw [hsb]
  simp only
  unfold headEvent at hev
  cases hp : parseHeaders (d.buffer.take s) with
  | error err => rw [hp] at hev; simp at hev
  | ok headers =>
    rw [hp] at hev
    simp only at hev ⊢
    cases hg : headerGet "content-disposition".toList headers with
    | none => rw [hg] at hev; simp at hev
    | some cd =>
      rw [hg] at hev
      simp only at hev ⊢
      cases ho : FormOptions.parseOptionsHeader cd with
      | error err => rw [ho] at hev; simp at hev
      | ok v =>
        rcases v with ⟨v0, extra⟩
        rw [ho] at hev
        simp only at hev ⊢
        rw [hmp]
        simp only [Except.ok.injEq] at hev
        rw [← hev]
        rfl

/-- the part (without payload) a Field / File event stands for -/
def partOfEvent : Event → Part
  | .file n f h => ⟨true, n, some f, h, []⟩
  | .field n h => ⟨false, n, none, h, []⟩
  | _ => ⟨false, none, none, [], []⟩

/-- the part (without payload) the decoder reports for a header block -/
def headOut (H : Bytes) : Part :=
  match headEvent H with
  | .ok ev => partOfEvent ev
  | .error _ => ⟨false, none, none, [], []⟩

/-- the part the decoder reports for a raw part -/
def RawPart.out (r : RawPart) : Part := { headOut r.hdr with payload := r.payload }

theorem headEvent_shape {H : Bytes} {ev : Event} (h : headEvent H = .ok ev) :
    (∃ n f hs, ev = .file n f hs) ∨ (∃ n hs, ev = .field n hs) := by
  unfold headEvent at h
  cases hp : parseHeaders H with
  | error err => rw [hp] at h; simp at h
  | ok headers =>
    rw [hp] at h
    simp only at h
    cases hg : headerGet "content-disposition".toList headers with
    | none => rw [hg] at h; simp at h
    | some cd =>
      rw [hg] at h
      simp only at h
      cases ho : FormOptions.parseOptionsHeader cd with
      | error err => rw [ho] at h; simp at h
      | ok v =>
        rcases v with ⟨v0, extra⟩
        rw [ho] at h
        simp only [Except.ok.injEq] at h
        cases hf : FormOptions.lookup "filename".toList extra with
        | none => rw [hf] at h; exact Or.inr ⟨_, _, h.symm⟩
        | some fn => rw [hf] at h; exact Or.inl ⟨_, _, _, h.symm⟩

theorem headOut_spec {H : Bytes} {ev : Event} (h : headEvent H = .ok ev) :
    partHeadEvent (headOut H) = ev ∧ (headOut H).isFile = (headOut H).filename.isSome ∧
      (headOut H).payload = [] := by
  unfold headOut
  rw [h]
  rcases headEvent_shape h with ⟨n, f, hs, rfl⟩ | ⟨n, hs, rfl⟩
  · exact ⟨rfl, rfl, rfl⟩
  · exact ⟨rfl, rfl, rfl⟩

/-- a raw part the theorems cover (decidable): the header block starts with a byte that is not white
space (so not with a line break either), its first blank line is the one that ends it, the decoder
makes a Field / File event of it (`headEvent`: `_parse_headers`, Content-Disposition present,
`parse_options_header` succeeds), the transport padding on its delimiter line is horizontal white
space (any amount), and the payload has no line starting with `--boundary` and is free of the other
newline kind. Header lines may be folded, padded with white space, broken with any line
break, come in any order and number. -/
def RawOk (nl : Nl) (bnd : Bytes) (r : RawPart) : Prop :=
  isNl (r.hdr.headD 10) = false ∧
  searchBlank (r.hdr ++ (nl.bytes ++ nl.bytes)) = some (r.hdr.length, r.hdr.length + 2 * nl.len) ∧
  (headEvent r.hdr).toOption.isSome = true ∧
  (∀ x ∈ r.pad, isHws x = true) ∧
  PayloadOkNl nl bnd r.payload

instance (nl : Nl) (bnd : Bytes) (r : RawPart) : Decidable (RawOk nl bnd r) := by
  unfold RawOk; infer_instance

theorem rawOk_head {bnd : Bytes} {r : RawPart} (h : RawOk nl bnd r) :
    ∃ x t, r.hdr = x :: t ∧ isNl x = false := by
  have h1 := h.1
  cases hh : r.hdr with
  | nil => rw [hh] at h1; simp [isNl] at h1
  | cons x t => rw [hh] at h1; exact ⟨x, t, rfl, by simpa using h1⟩

theorem rawOk_event {bnd : Bytes} {r : RawPart} (h : RawOk nl bnd r) :
    headEvent r.hdr = .ok (partHeadEvent r.out) ∧ r.out.isFile = r.out.filename.isSome := by
  have h3 := h.2.2.1
  cases he : headEvent r.hdr with
  | error e => rw [he] at h3; simp [Except.toOption] at h3
  | ok ev =>
    have := headOut_spec he
    refine ⟨?_, this.2.1⟩
    rw [← this.1]
    unfold RawPart.out partHeadEvent
    rfl

/-! ### bodies made of raw parts -/

def rawPartBytes (nl : Nl) (bnd : Bytes) (r : RawPart) : Bytes :=
  nl.bytes ++ (delim bnd ++ (r.pad ++ (nl.bytes ++ (r.hdr ++ (nl.bytes ++ framedNl nl r.payload)))))

/-- `NL--boundary pad NL headers NL NL payload … NL--boundary--` + `ep` -/
def rawBody (nl : Nl) (bnd ep : Bytes) : List RawPart → Bytes
  | [] => closing nl bnd ep
  | r :: rs => rawPartBytes nl bnd r ++ rawBody nl bnd ep rs

/-- the buffer after the line break that ends the last header line of part `r` -/
def rDataOf (nl : Nl) (bnd ep : Bytes) (r : RawPart) (rs : List RawPart) : Bytes :=
  framedNl nl r.payload ++ rawBody nl bnd ep rs

/-- what follows `NL--boundary` in the body for the remaining parts -/
def rTailOf (nl : Nl) (bnd ep : Bytes) : List RawPart → Bytes
  | [] => 45 :: 45 :: ep
  | r :: rs => r.pad ++ (nl.bytes ++ (r.hdr ++ (nl.bytes ++ rDataOf nl bnd ep r rs)))

/-- the buffer once that delimiter has been consumed -/
def rAfterOf (nl : Nl) (bnd ep : Bytes) : List RawPart → Bytes
  | [] => epiOf ep
  | r :: rs => r.hdr ++ (nl.bytes ++ rDataOf nl bnd ep r rs)

theorem rawBody_eq (bnd : Bytes) (rs : List RawPart) :
    rawBody nl bnd ep rs = nl.bytes ++ (delim bnd ++ rTailOf nl bnd ep rs) := by
  cases rs with
  | nil => rfl
  | cons r rs => simp [rawBody, rawPartBytes, rTailOf, rDataOf]

theorem rAfterDelim_tailOf {bnd : Bytes} (rs : List RawPart) (hv : ∀ q ∈ rs, RawOk nl bnd q) :
    AfterDelimNl nl (rTailOf nl bnd ep rs) rs.isEmpty (rAfterOf nl bnd ep rs) := by
  cases rs with
  | nil => exact Or.inl ⟨rfl, ep, rfl, rfl⟩
  | cons r rs =>
    rcases rawOk_head (hv r (by simp)) with ⟨x, t, hx, hsp⟩
    have hx10 : x ≠ 10 := by intro e; subst e; simp [isNl] at hsp
    refine Or.inr ⟨rfl, r.pad, x, t ++ (nl.bytes ++ rDataOf nl bnd ep r rs), (hv r (by simp)).2.2.2.1, hx10, ?_, ?_⟩
    · simp only [rTailOf, hx, List.cons_append]
    · simp only [rAfterOf, hx, List.cons_append]

theorem rAfterOf_cons (bnd : Bytes) (r : RawPart) (rs : List RawPart) :
    rAfterOf nl bnd ep (r :: rs) = r.hdr ++ (nl.bytes ++ rDataOf nl bnd ep r rs) := rfl

theorem rDataOf_blank (bnd : Bytes) (r : RawPart) (rs : List RawPart) :
    ∃ Z, rDataOf nl bnd ep r rs = nl.bytes ++ Z := by
  unfold rDataOf framedNl
  cases hp : r.payload.isEmpty with
  | true => simp only [if_true, List.nil_append]; rw [rawBody_eq]; exact ⟨_, rfl⟩
  | false => exact ⟨r.payload ++ rawBody nl bnd ep rs, by simp⟩

/-- reference semantics of the data stretch of part `r` -/
theorem dataSpec_rDataOf {bnd : Bytes} (hb : BoundaryOk bnd) (r : RawPart) (rs : List RawPart)
    (hv : RawOk nl bnd r) (hvs : ∀ q ∈ rs, RawOk nl bnd q) :
    dataSpec bnd true (rDataOf nl bnd ep r rs) = some (r.payload, rs.isEmpty, rAfterOf nl bnd ep rs) := by
  unfold rDataOf framedNl
  rw [rawBody_eq]
  cases hp : r.payload with
  | nil =>
    simp only [List.isEmpty_nil, if_true, List.nil_append]
    exact dataSpec_encoded_empty_nl (bnd := bnd) _ (rAfterDelim_tailOf rs hvs)
  | cons a t =>
    simp only [List.isEmpty_cons, Bool.false_eq_true, if_false]
    exact dataSpec_encoded_nl hb (a :: t) (rTailOf nl bnd ep rs) (by rw [← hp]; exact hv.2.2.2.2)
      (rAfterDelim_tailOf rs hvs)

/-- the data stretch starts with exactly the line break -/
theorem lbLen_rDataOf {bnd : Bytes} (r : RawPart) (rs : List RawPart) (hv : RawOk nl bnd r) :
    lbLen (rDataOf nl bnd ep r rs) = nl.len := by
  unfold rDataOf framedNl
  rw [rawBody_eq]
  cases hp : r.payload.isEmpty with
  | true => simp only [if_true, List.nil_append]; exact nl.lbLen_delim bnd _
  | false =>
    simp only [Bool.false_eq_true, if_false]
    exact Nl.lbLen_data _ _ hv.2.2.2.2.2

/-! ### encoder-shaped parts are raw parts -/

/-- the raw form of a part with `Name: value` header lines -/
def rawOf (nl : Nl) (p : Part) : RawPart := ⟨hdrBlock nl (nameOf p) p, p.payload, []⟩

theorem rawBody_map (bnd : Bytes) (ps : List Part) :
    rawBody nl bnd ep (ps.map (rawOf nl)) = encBody nl bnd ep ps := by
  induction ps with
  | nil => rfl
  | cons p ps ih => simp only [List.map_cons, rawBody, encBody, ih]; rfl

theorem headEvent_hdrBlock {bnd : Bytes} {p : Part} (hv : ValidPart nl bnd p) :
    headEvent (hdrBlock nl (nameOf p) p) = .ok (partHeadEvent (decodedPart p)) := by
  have hf := validPart_facts hv
  have hok := allHeadersOk hv
  have hparse : parseHeaders (hdrBlock nl (nameOf p) p) = .ok (cdHeader (nameOf p) p.filename :: p.headers) :=
    parseHeaders_block nl _ hok
  have hopt := FormOptions.parseOptions_disposition_lemma (nameOf p) p.filename hf.1
    (fun x hx => (hf.2.2.1 x hx).1)
  have hnm := validPart_name hv
  unfold headEvent
  rw [hparse]
  simp only
  rw [headerGet_cd]
  simp only
  rw [hopt]
  simp only
  rw [lookup_name, lookup_filename]
  cases hfn : p.filename with
  | none => simp [partHeadEvent, decodedPart, hfn, hnm]
  | some x => simp [partHeadEvent, decodedPart, hfn, hnm]

theorem rawOf_out {bnd : Bytes} {p : Part} (hv : ValidPart nl bnd p) : (rawOf nl p).out = decodedPart p := by
  have hf := validPart_facts hv
  have he := headEvent_hdrBlock hv
  unfold RawPart.out headOut rawOf
  simp only
  rw [he]
  rcases p with ⟨isFile, name, filename, headers, payload⟩
  simp only at hf
  cases filename with
  | none =>
    have : isFile = false := by simpa using hf.2.2.2.1
    subst this
    simp [partHeadEvent, decodedPart, partOfEvent]
  | some f =>
    have : isFile = true := by simpa using hf.2.2.2.1
    subst this
    simp [partHeadEvent, decodedPart, partOfEvent]

theorem rawOk_of_validPart {bnd : Bytes} {p : Part} (hv : ValidPart nl bnd p) : RawOk nl bnd (rawOf nl p) := by
  have hf := validPart_facts hv
  have hok := allHeadersOk hv
  have hlines : ∀ l ∈ (cdHeader (nameOf p) p.filename :: p.headers).map lineOf, LineOk l := by
    intro l hl
    rcases List.mem_map.1 hl with ⟨kv, hkv, rfl⟩
    exact lineOk_of_headerOk (hok kv hkv)
  refine ⟨?_, ?_, ?_, by simp [rawOf], hf.2.2.2.2.2⟩
  · rcases hdrBlock_head nl (nameOf p) p with ⟨r, hr⟩
    simp only [rawOf, hr, List.headD_cons]
    decide
  · have := searchBlank_block nl _ [] (by simp) hlines
    simpa [rawOf, hdrBlock] using this
  · simp only [rawOf]
    rw [headEvent_hdrBlock hv]
    rfl

theorem map_rawOf_out {bnd : Bytes} (ps : List Part) (hv : ∀ p ∈ ps, ValidPart nl bnd p) :
    (ps.map (rawOf nl)).map RawPart.out = ps.map decodedPart := by
  induction ps with
  | nil => rfl
  | cons p ps ih =>
    simp only [List.map_cons]
    rw [rawOf_out (hv p (by simp)), ih (fun q hq => hv q (by simp [hq]))]

end Wz.Multipart
