/-
Helper lemmas for the Request glue part of C09 (Model/InputStreamReq.lean).
-/
import WzVerif.Model.InputStreamReq
import WzVerif.Lemmas.LimitedStream
namespace Wz.RB
open Wz Wz.LS

/-- the number of bytes the chosen wrapper may take from a `wsgi.input` that will deliver `data` -/
def limitFor (c : Choice) (data : Bytes) : Nat :=
  match c with
  | .limited n _ => n
  | .raw => data.length
  | _ => 0

/-- the choice `get_input_stream` makes for this request (constant over the object's life) -/
def choiceOf (r : RSt) : Choice := getInputStream r.cl r.chunked r.terminated r.max true

/-- invariant of a `Request` object whose `wsgi.input` was created holding `data0` -/
structure RInv (data0 : Bytes) (r : RSt) : Prop where
  orig : r.input.taken ++ r.input.data = data0
  bound : r.input.taken.length ≤ limitFor (choiceOf r) data0
  log : ∀ p ∈ r.input.log, p.1 + p.2 ≤ limitFor (choiceOf r) data0
  live : ∀ st, r.stream = some (true, st) →
    st.u = r.input ∧ Inv st ∧ st.limit = limitFor (choiceOf r) data0
  unborn : r.stream = none → r.input.taken = [] ∧ r.input.log = []

theorem freshReq_inv (cl : Option (List Char)) (chunked terminated : Bool) (max : Option Nat)
    (ri wantForm : Bool) (data : Bytes) (script : List Beh) :
    RInv data (freshReq cl chunked terminated max ri wantForm data script) := by
  constructor <;> simp [freshReq]

/-- the stream object `accessStream` answers with is in `__dict__` afterwards, and the invariant holds -/
theorem accessStream_inv {data0 : Bytes} {r : RSt} (h : RInv data0 r) :
    RInv data0 (accessStream r).2 ∧ choiceOf (accessStream r).2 = choiceOf r ∧
    (accessStream r).2.input = r.input ∧ (accessStream r).2.cached = r.cached ∧
    (accessStream r).2.formLoaded = r.formLoaded ∧ (accessStream r).2.wantForm = r.wantForm ∧
    (∀ p, (accessStream r).1 = .ok p → (accessStream r).2.stream = some p) ∧
    (∀ e, (accessStream r).1 = .error e → (accessStream r).2 = r) := by
  unfold accessStream
  cases hs : r.stream with
  | some st => exact ⟨h, rfl, rfl, rfl, rfl, rfl, fun p hp => by simp at hp; rw [← hp, hs], by simp⟩
  | none =>
    simp only
    cases hm : makeStream r with
    | error e => exact ⟨h, rfl, rfl, rfl, rfl, rfl, by simp, by simp⟩
    | ok p =>
      refine ⟨?_, rfl, rfl, rfl, rfl, rfl, fun q hq => by simp at hq; simp [hq], by simp⟩
      obtain ⟨ht, hl⟩ := h.unborn hs
      have hd : r.input.data = data0 := by have := h.orig; rw [ht] at this; simpa using this
      constructor
      · exact h.orig
      · exact h.bound
      · exact h.log
      · intro st hst
        simp only [Option.some.injEq] at hst
        subst hst
        unfold makeStream at hm
        have hc : choiceOf { r with stream := some (true, st) } = choiceOf r := rfl
        rw [hc]
        unfold choiceOf
        cases hg : getInputStream r.cl r.chunked r.terminated r.max true with
        | tooLarge => simp [hg] at hm
        | empty => simp [hg, memStream] at hm
        | limited n m =>
          simp only [hg, Except.ok.injEq, Prod.mk.injEq, true_and] at hm
          subst hm
          refine ⟨rfl, ?_, rfl⟩
          constructor <;> simp [ht, hl]
        | raw =>
          simp only [hg, Except.ok.injEq, Prod.mk.injEq, true_and] at hm
          subst hm
          refine ⟨rfl, ?_, by simp [limitFor, hd]⟩
          constructor <;> simp [ht, hl]
      · intro hn; simp at hn

/-- using the stream object that is in `__dict__` and storing it back keeps the invariant -/
theorem putStream_inv {data0 : Bytes} {r : RSt} {live : Bool} {st st' : St} {d : Bytes}
    (h : RInv data0 r) (hs : r.stream = some (live, st)) (ha : Adv st st' d) :
    RInv data0 (putStream r live st') := by
  have hc : choiceOf (putStream r live st') = choiceOf r := rfl
  cases live with
  | false =>
    constructor
    · exact h.orig
    · rw [hc]; exact h.bound
    · rw [hc]; exact h.log
    · intro x hx; simp [putStream] at hx
    · intro hn; simp [putStream] at hn
  | true =>
    obtain ⟨hu, hi, hl⟩ := h.live st hs
    have hi' := ha.inv hi
    have hlim : st'.limit = limitFor (choiceOf r) data0 := by rw [ha.limit_eq, hl]
    constructor
    · show st'.u.taken ++ st'.u.data = data0
      have := ha.orig_eq
      unfold orig at this
      rw [this, hu]; exact h.orig
    · rw [hc]
      show st'.u.taken.length ≤ _
      rw [hi'.consumed, ← hlim]; exact hi'.pos_le
    · rw [hc]
      intro p hp
      have := hi'.no_overread p hp
      rw [hlim] at this; exact this
    · intro x hx
      simp only [putStream, Option.some.injEq, Prod.mk.injEq, true_and] at hx
      subst hx
      exact ⟨rfl, hi', by rw [hc]; exact hlim⟩
    · intro hn; simp [putStream] at hn

theorem runParser_adv : ∀ (ops : List Op) (st : St), ∃ d, Adv st (runParser st ops).2 d := by
  intro ops
  induction ops with
  | nil => intro st; exact ⟨[], Adv.refl st⟩
  | cons op ops ih =>
    intro st
    obtain ⟨d1, h1, _, _⟩ := runOp_spec st op
    rcases hr : runOp st op with ⟨r, st'⟩
    rw [hr] at h1
    cases r with
    | error e => exact ⟨d1, by simpa [runParser, hr] using h1⟩
    | ok bs =>
      obtain ⟨d2, h2⟩ := ih st'
      exact ⟨d1 ++ d2, by simpa [runParser, hr] using h1.trans h2⟩

/-- facts every step keeps: the invariant and the configuration -/
structure Keeps (data0 : Bytes) (r r' : RSt) : Prop where
  inv : RInv data0 r'
  choice : choiceOf r' = choiceOf r
  want : r'.wantForm = r.wantForm

theorem Keeps.refl {data0 : Bytes} {r : RSt} (h : RInv data0 r) : Keeps data0 r r := ⟨h, rfl, rfl⟩

theorem loadForm_keeps {data0 : Bytes} {r : RSt} (h : RInv data0 r) (pops : List Op) :
    Keeps data0 r (loadForm r pops).2 := by
  unfold loadForm
  by_cases hf : r.formLoaded = true
  · simp only [hf, if_true]; exact Keeps.refl h
  · simp only [hf, Bool.false_eq_true, if_false]
    obtain ⟨ha, hch, hin, hca, hfl, hwf, hok, herr⟩ := accessStream_inv h
    by_cases hw : r.wantForm = true
    · simp only [hw, if_true]
      cases hc : r.cached with
      | some c =>
        simp only
        rcases hp : runParser (memStream c) pops with ⟨e, st'⟩
        cases e with
        | some e => simp only; exact Keeps.refl h
        | none =>
          simp only
          refine ⟨?_, rfl, hw.symm ▸ rfl⟩
          constructor
          · exact h.orig
          · exact h.bound
          · exact h.log
          · intro x hx; simp at hx
          · intro hn; simp at hn
      | none =>
        simp only
        rcases hacc : accessStream r with ⟨res, r'⟩
        rw [hacc] at ha hch hin hca hfl hwf hok herr
        cases res with
        | error e => exact ⟨ha, hch, hwf⟩
        | ok p =>
          obtain ⟨live, st⟩ := p
          simp only
          obtain ⟨d, hadv⟩ := runParser_adv pops st
          rcases hp : runParser st pops with ⟨e, st'⟩
          rw [hp] at hadv
          have hput := putStream_inv ha (hok _ rfl) hadv
          cases e with
          | some e => exact ⟨hput, hch, hwf⟩
          | none =>
            refine ⟨?_, hch, hwf⟩
            constructor
            · exact hput.orig
            · exact hput.bound
            · exact hput.log
            · exact hput.live
            · exact hput.unborn
    · simp only [hw, Bool.false_eq_true, if_false]
      rcases hacc : accessStream r with ⟨res, r'⟩
      rw [hacc] at ha hch hin hca hfl hwf hok herr
      cases res with
      | error e => exact ⟨ha, hch, hwf⟩
      | ok p =>
        refine ⟨?_, hch, hwf⟩
        constructor
        · exact ha.orig
        · exact ha.bound
        · exact ha.log
        · exact ha.live
        · exact ha.unborn

theorem getData_keeps {data0 : Bytes} {r : RSt} (h : RInv data0 r) (cache parse : Bool) (pops : List Op) :
    Keeps data0 r (getData r cache parse pops).2 := by
  unfold getData
  cases hc : r.cached with
  | some c => exact Keeps.refl h
  | none =>
    simp only
    have h1 : Keeps data0 r (if parse = true then loadForm r pops else (none, r)).2 := by
      cases parse with
      | true => exact loadForm_keeps h pops
      | false => exact Keeps.refl h
    rcases hl : (if parse = true then loadForm r pops else (none, r)) with ⟨e, r1⟩
    rw [hl] at h1
    cases e with
    | some e => exact h1
    | none =>
      simp only
      obtain ⟨ha, hch, hin, hca, hfl, hwf, hok, herr⟩ := accessStream_inv h1.inv
      rcases hacc : accessStream r1 with ⟨res, r2⟩
      rw [hacc] at ha hch hin hca hfl hwf hok herr
      cases res with
      | error e => exact ⟨ha, hch.trans h1.choice, hwf.trans h1.want⟩
      | ok p =>
        obtain ⟨live, st⟩ := p
        simp only
        obtain ⟨d, hadv, _, _⟩ := readall_spec st
        rcases hra : readall st with ⟨res2, st'⟩
        rw [hra] at hadv
        have hput := putStream_inv ha (hok _ rfl) hadv
        cases res2 with
        | error e => exact ⟨hput, hch.trans h1.choice, hwf.trans h1.want⟩
        | ok b =>
          simp only
          cases cache with
          | false => exact ⟨hput, hch.trans h1.choice, hwf.trans h1.want⟩
          | true =>
            refine ⟨?_, hch.trans h1.choice, hwf.trans h1.want⟩
            constructor
            · exact hput.orig
            · exact hput.bound
            · exact hput.log
            · exact hput.live
            · exact hput.unborn

theorem runROp_keeps {data0 : Bytes} {r : RSt} (h : RInv data0 r) (op : ROp) :
    Keeps data0 r (runROp r op).2 := by
  cases op with
  | close => exact Keeps.refl h
  | form pops =>
    have := loadForm_keeps h pops
    simp only [runROp]
    rcases hl : loadForm r pops with ⟨e, r'⟩
    rw [hl] at this
    cases e <;> exact this
  | getData cache parse pops =>
    have := getData_keeps h cache parse pops
    simp only [runROp]
    rcases hl : getData r cache parse pops with ⟨res, r'⟩
    rw [hl] at this
    cases res <;> exact this
  | stream op =>
    simp only [runROp]
    obtain ⟨ha, hch, hin, hca, hfl, hwf, hok, herr⟩ := accessStream_inv h
    rcases hacc : accessStream r with ⟨res, r'⟩
    rw [hacc] at ha hch hin hca hfl hwf hok herr
    cases res with
    | error e => exact ⟨ha, hch, hwf⟩
    | ok p =>
      obtain ⟨live, st⟩ := p
      simp only
      obtain ⟨d, hadv, _, _⟩ := runOp_spec st op
      exact ⟨putStream_inv ha (hok _ rfl) hadv, hch, hwf⟩

theorem runROps_keeps {data0 : Bytes} : ∀ (ops : List ROp) (r : RSt), RInv data0 r →
    Keeps data0 r (runROps r ops).2 := by
  intro ops
  induction ops with
  | nil => intro r h; exact Keeps.refl h
  | cons op ops ih =>
    intro r h
    have h1 := runROp_keeps h op
    have h2 := ih _ h1.inv
    simp only [runROps]
    exact ⟨h2.inv, h2.choice.trans h1.choice, h2.want.trans h1.want⟩

/-! ### plain histories are stream histories -/

/-- a step that neither caches nor parses -/
inductive Plain where
  | s (op : Op)      -- `request.stream.<op>`
  | d                -- `request.get_data(cache=False)`

def Plain.toR : Plain → ROp
  | .s op => .stream op
  | .d => .getData false false []

def Plain.toOp : Plain → Op
  | .s op => op
  | .d => .readall

theorem runROp_plain {r : RSt} {live : Bool} {st : St} (hs : r.stream = some (live, st))
    (hc : r.cached = none) (p : Plain) :
    (runROp r p.toR).1 = (runOp st p.toOp).1 ∧
    (runROp r p.toR).2.stream = some (live, (runOp st p.toOp).2) ∧ (runROp r p.toR).2.cached = none := by
  cases p with
  | s op =>
    simp [Plain.toR, Plain.toOp, runROp, accessStream, hs, putStream, hc]
  | d =>
    simp only [Plain.toR, Plain.toOp, runROp, getData, hc, accessStream, hs, Bool.false_eq_true, if_false,
      runOp]
    rcases readall st with ⟨res, st'⟩
    cases res with
    | error e => exact ⟨rfl, rfl, hc⟩
    | ok b => exact ⟨rfl, rfl, hc⟩

theorem runROps_plain : ∀ (ps : List Plain) (r : RSt) (live : Bool) (st : St),
    r.stream = some (live, st) → r.cached = none →
    (runROps r (ps.map Plain.toR)).1 = (runOps st (ps.map Plain.toOp)).1 := by
  intro ps
  induction ps with
  | nil => intro r live st _ _; rfl
  | cons p ps ih =>
    intro r live st hs hc
    obtain ⟨h1, h2, h3⟩ := runROp_plain hs hc p
    simp only [List.map_cons, runROps, runOps]
    rw [h1, ih _ live _ h2 h3]

/-- the first access creates the stream object; afterwards the step is the same -/
theorem runROp_plain_unborn {r : RSt} {p0 : Bool × St} (hs : r.stream = none) (hc : r.cached = none)
    (hm : makeStream r = .ok p0) (p : Plain) : runROp r p.toR = runROp { r with stream := some p0 } p.toR := by
  cases p with
  | s op => simp [Plain.toR, runROp, accessStream, hs, hm]
  | d => simp [Plain.toR, runROp, getData, accessStream, hs, hm, hc]

end Wz.RB
