/-
Lemmas for the static-file glue (Model/StaticFiles.lean): `posixpath.join` of a trusted prefix with
a `safe_join` result (`_root_path`, package directory), the lexical containment predicate `Inside`,
and the first-match reading of the export loop.
-/
import WzVerif.Lemmas.Paths
import WzVerif.Model.StaticFiles
namespace Wz.Paths

/-- `p` is lexically inside directory `d`: the normalised segments of `d` are a prefix of those of
`p`, what follows is clean (no `..`), and the root class is the same -/
def Inside (d p : Str) : Prop :=
  ∃ extra, segments (normpath p) = segments (normpath d) ++ extra ∧ (∀ c ∈ extra, Clean c) ∧
    initialSlashes (normpath p) = initialSlashes (normpath d)

theorem inside_of_normSegs {d p : Str}
    (h : ∃ extra, normSegs p = normSegs d ++ extra ∧ (∀ c ∈ extra, Clean c) ∧
      initialSlashes p = initialSlashes d) : Inside d p := by
  obtain ⟨extra, h1, h2, h3⟩ := h
  exact ⟨extra, by rw [segments_normpath, segments_normpath, h1], h2,
    by rw [initialSlashes_normpath, initialSlashes_normpath, h3]⟩

/-- `Inside d p` in terms of the normal-form components -/
theorem inside_iff (d p : Str) : Inside d p ↔
    ∃ extra, normSegs p = normSegs d ++ extra ∧ (∀ c ∈ extra, Clean c) ∧
      initialSlashes p = initialSlashes d := by
  constructor
  · rintro ⟨extra, h1, h2, h3⟩
    exact ⟨extra, by rw [← segments_normpath, ← segments_normpath, h1], h2,
      by rw [← initialSlashes_normpath, h3, initialSlashes_normpath]⟩
  · exact inside_of_normSegs

theorem inside_refl (d : Str) : Inside d d := ⟨[], by simp, by simp, rfl⟩

/-! ### `join` with a trusted prefix -/

theorem joinStep_ne_nil {path b : Str} (hb : b ≠ []) : joinStep path b ≠ [] := by
  unfold joinStep
  split
  · exact hb
  · split <;> simp [hb]

/-- joining relative components never touches what precedes a non-empty first argument -/
theorem join_append (x : Str) (fs : List Str) (hfs : ∀ f ∈ fs, f.head? ≠ some sep) :
    ∀ {b : Str}, b ≠ [] → join (x ++ b) fs = x ++ join b fs := by
  induction fs with
  | nil => intro b _; rfl
  | cons f t ih =>
    intro b hb
    have hf := hfs f (by simp)
    have hstep : joinStep (x ++ b) f = x ++ joinStep b f := by
      unfold joinStep
      rw [if_neg hf, if_neg hf]
      have hl : (x ++ b).getLast? = b.getLast? := by
        rw [List.getLast?_append]
        cases hbl : b.getLast? with
        | none => exact absurd (List.getLast?_eq_none_iff.mp hbl) hb
        | some c => simp
      have e1 : (x ++ b = [] ∨ (x ++ b).getLast? = some sep) ↔ (b = [] ∨ b.getLast? = some sep) := by
        rw [hl]; simp [hb]
      by_cases hc : b = [] ∨ b.getLast? = some sep
      · rw [if_pos (e1.mpr hc), if_pos hc]; simp
      · rw [if_neg (fun h => hc (e1.mp h)), if_neg hc]; simp
    have hne : joinStep b f ≠ [] := by
      unfold joinStep
      rw [if_neg hf]
      split <;> simp [hb]
    simp only [join, List.foldl_cons] at ih ⊢
    rw [hstep]
    exact ih (fun g hg => hfs g (List.mem_cons_of_mem _ hg)) hne

theorem join_has_prefix (fs : List Str) (hfs : ∀ f ∈ fs, f.head? ≠ some sep) :
    ∀ (b : Str), ∃ t, join b fs = b ++ t := by
  induction fs with
  | nil => intro b; exact ⟨[], by simp [join]⟩
  | cons f t ih =>
    intro b
    obtain ⟨u, hu⟩ := ih (fun g hg => hfs g (List.mem_cons_of_mem _ hg)) (joinStep b f)
    simp only [join, List.foldl_cons] at hu ⊢
    rw [hu]
    unfold joinStep
    rw [if_neg (hfs f (by simp))]
    split
    · exact ⟨f ++ u, by simp⟩
    · exact ⟨sep :: f ++ u, by simp⟩

/-- **joining a prefix commutes with joining relative components**:
`join(r, join(b, *fs)) = join(join(r, b), *fs)` for non-empty `b` and relative `fs` -/
theorem join_prefix (r : Str) {b : Str} (hb : b ≠ []) (fs : List Str)
    (hfs : ∀ f ∈ fs, f.head? ≠ some sep) :
    joinStep r (join b fs) = join (joinStep r b) fs := by
  obtain ⟨t, ht⟩ := join_has_prefix fs hfs b
  have hhead : (join b fs).head? = b.head? := by
    rw [ht]; cases b with
    | nil => exact absurd rfl hb
    | cons c u => simp
  by_cases habs : b.head? = some sep
  · have e1 : joinStep r b = b := by unfold joinStep; rw [if_pos habs]
    have e2 : joinStep r (join b fs) = join b fs := by unfold joinStep; rw [if_pos (hhead ▸ habs)]
    rw [e1, e2]
  · have hj : (join b fs).head? ≠ some sep := by rw [hhead]; exact habs
    unfold joinStep
    rw [if_neg habs, if_neg hj]
    by_cases hc : r = [] ∨ r.getLast? = some sep
    · rw [if_pos hc, if_pos hc]
      exact (join_append r fs hfs hb).symm
    · rw [if_neg hc, if_neg hc]
      have := join_append (r ++ [sep]) fs hfs hb
      simp only [List.append_assoc, List.singleton_append] at this
      exact this.symm

/-- **containment below a trusted prefix**: whatever `safe_join(d, *ps)` returns, joined onto any
prefix `r` (`_root_path`, the package directory), lies inside `join(r, d)` (`d` read as `"."` when
empty, as `safe_join` does) -/
theorem safeJoinWith_inside_under {alts : List Char} {d : Str} {ps : List Str} {p : Str}
    (h : safeJoinWith alts d ps = some p) (r : Str) :
    Inside (join r [if d = [] then dot else d]) (join r [p]) := by
  unfold safeJoinWith at h
  cases hc : checkAll alts ps with
  | none => simp [hc] at h
  | some fs =>
    simp only [hc, Option.map_some, Option.some.injEq] at h
    subst h
    have hspec := checkAll_spec hc
    have hd' : (if d = [] then dot else d) ≠ [] := by
      by_cases hd : d = []
      · simp [hd, dot]
      · simp [hd]
    generalize (if d = [] then dot else d) = d' at hd' ⊢
    have e : join r [join d' fs] = join (join r [d']) fs := by
      simp only [join, List.foldl_cons, List.foldl_nil]
      exact join_prefix r hd' fs (fun f hf => (hspec f hf).1)
    rw [e]
    apply inside_of_normSegs
    have hne : join r [d'] ≠ [] := by
      simp only [join, List.foldl_cons, List.foldl_nil]
      exact joinStep_ne_nil hd'
    exact join_contained hne hspec

/-! ### `join` with an absolute or empty `_root_path` is idempotent -/

theorem joinStep_abs_idem {r : Str} (hr : r = [] ∨ isabs r = true) (p : Str) :
    joinStep r (joinStep r p) = joinStep r p := by
  rcases hr with rfl | hr
  · simp [joinStep]
  · have hh : r.head? = some sep := by simpa [isabs] using hr
    obtain ⟨t, rfl⟩ : ∃ t, r = sep :: t := by
      cases r with
      | nil => simp at hh
      | cons c t => simp at hh; exact ⟨t, by rw [hh]⟩
    have : (joinStep (sep :: t) p).head? = some sep := by
      unfold joinStep
      split
      · assumption
      · split <;> simp
    generalize joinStep (sep :: t) p = q at this
    unfold joinStep
    rw [if_pos this]

/-! ### the export loop: first match in list order -/

theorem findExport_eq_some_iff (isfile : Str → Bool) (exports : List (Str × Export)) (path : Str)
    (r : Str × Str) :
    findExport isfile exports path = some r ↔
      ∃ pre e post, exports = pre ++ e :: post ∧
        (∀ e' ∈ pre, tryExport isfile e'.1 e'.2 path = none) ∧ tryExport isfile e.1 e.2 path = some r := by
  induction exports with
  | nil => simp [findExport]
  | cons e rest ih =>
    obtain ⟨s, ex⟩ := e
    simp only [findExport]
    cases ht : tryExport isfile s ex path with
    | some r' =>
      constructor
      · intro h
        cases h
        exact ⟨[], (s, ex), rest, rfl, by simp, ht⟩
      · rintro ⟨pre, e, post, heq, hpre, he⟩
        cases pre with
        | nil =>
          simp only [List.nil_append, List.cons.injEq] at heq
          obtain ⟨rfl, _⟩ := heq
          rw [ht] at he; exact he
        | cons q pre' =>
          simp only [List.cons_append, List.cons.injEq] at heq
          obtain ⟨rfl, _⟩ := heq
          have := hpre (s, ex) (by simp)
          rw [ht] at this; cases this
    | none =>
      simp only
      rw [ih]
      constructor
      · rintro ⟨pre, e, post, rfl, hpre, he⟩
        refine ⟨(s, ex) :: pre, e, post, rfl, ?_, he⟩
        intro e' he'
        rcases List.mem_cons.mp he' with rfl | he'
        · exact ht
        · exact hpre e' he'
      · rintro ⟨pre, e, post, heq, hpre, he⟩
        cases pre with
        | nil =>
          simp only [List.nil_append, List.cons.injEq] at heq
          obtain ⟨rfl, _⟩ := heq
          rw [ht] at he; cases he
        | cons q pre' =>
          simp only [List.cons_append, List.cons.injEq] at heq
          obtain ⟨rfl, rfl⟩ := heq
          exact ⟨pre', e, post, rfl, fun e' he' => hpre e' (List.mem_cons_of_mem _ he'), he⟩

theorem findExport_eq_none_iff (isfile : Str → Bool) (exports : List (Str × Export)) (path : Str) :
    findExport isfile exports path = none ↔ ∀ e ∈ exports, tryExport isfile e.1 e.2 path = none := by
  induction exports with
  | nil => simp [findExport]
  | cons e rest ih =>
    obtain ⟨s, ex⟩ := e
    simp only [findExport, List.mem_cons, forall_eq_or_imp]
    cases ht : tryExport isfile s ex path with
    | some r' => simp
    | none => simp [ih]

/-! ### one export: what a successful loader call means -/

/-- how file `p` is related to export `e = (search_path, export)` for request path `path`:
* directory export: `p` exists and is either the directory value itself requested by its exact key,
  or `safe_join(directory, rest)` for the rest of the request path behind `search_path + "/"` -
  hence inside the directory;
* single-file export: `p` is that file (for the key and for everything below `key/`);
* package export: `p` can be opened and is `pkgDir/safe_join(package_path, rest)` - hence inside
  `pkgDir/package_path`. -/
def ServedFrom (isfile : Str → Bool) (e : Str × Export) (path p : Str) : Prop :=
  match e.2 with
  | .dir d => isfile p = true ∧ ((e.1 = path ∧ p = d) ∨
      ∃ rel, path = withSlash e.1 ++ rel ∧ safeJoin d [rel] = some p ∧ Inside d p)
  | .file f => p = f ∧ (e.1 = path ∨ ∃ rel, path = withSlash e.1 ++ rel)
  | .pkg pd pp => isfile p = true ∧ ∃ rel rp, path = withSlash e.1 ++ rel ∧
      safeJoin pp [rel] = some rp ∧ p = join pd [rp] ∧ Inside (Export.root (.pkg pd pp)) p

theorem startsWith_split {s pre : Str} (h : startsWith s pre = true) : s = pre ++ s.drop pre.length := by
  have : pre <+: s := List.isPrefixOf_iff_prefix.mp h
  obtain ⟨t, rfl⟩ := this
  simp

theorem joinIfFile_spec {isfile : Str → Bool} {d rel p : Str} (h : joinIfFile isfile d rel = some p) :
    safeJoin d [rel] = some p ∧ isfile p = true := by
  unfold joinIfFile at h
  cases hj : safeJoin d [rel] with
  | none => simp [hj] at h
  | some q =>
    simp only [hj] at h
    split at h
    · rename_i hf; cases h; exact ⟨rfl, hf⟩
    · cases h

theorem safeJoin_inside {d : Str} {ps : List Str} {p : Str} (h : safeJoin d ps = some p) : Inside d p :=
  inside_of_normSegs (safeJoinWith_contained h)

theorem loader_prefix_spec {isfile : Str → Bool} {s : Str} {ex : Export} {path rel : Str} {r : Str × Str}
    (hpath : path = withSlash s ++ rel) (h : loaderOf isfile ex (some rel) = some r) :
    ServedFrom isfile (s, ex) path r.2 := by
  cases ex with
  | dir d =>
    simp only [loaderOf, directoryLoader, Option.map_eq_some_iff] at h
    obtain ⟨p, hp, rfl⟩ := h
    obtain ⟨h1, h2⟩ := joinIfFile_spec hp
    exact ⟨h2, Or.inr ⟨rel, hpath, h1, safeJoin_inside h1⟩⟩
  | file f =>
    simp only [loaderOf, fileLoader, Option.some.injEq] at h
    subst h
    exact ⟨rfl, Or.inr ⟨rel, hpath⟩⟩
  | pkg pd pp =>
    simp only [loaderOf, packageLoader] at h
    cases hj : safeJoin pp [rel] with
    | none => simp [hj] at h
    | some rp =>
      simp only [hj] at h
      split at h
      · rename_i hf
        cases h
        exact ⟨hf, rel, rp, hpath, hj, rfl, safeJoinWith_inside_under hj pd⟩
      · cases h

theorem tryExport_served {isfile : Str → Bool} {s : Str} {ex : Export} {path : Str} {r : Str × Str}
    (h : tryExport isfile s ex path = some r) : ServedFrom isfile (s, ex) path r.2 := by
  unfold tryExport at h
  simp only at h
  split at h
  · rename_i r' hexact
    cases h
    split at hexact
    · rename_i heq
      cases ex with
      | dir d =>
        simp only [loaderOf, directoryLoader] at hexact
        split at hexact
        · rename_i hf
          cases hexact
          exact ⟨hf, Or.inl ⟨heq, rfl⟩⟩
        · cases hexact
      | file f =>
        simp only [loaderOf, fileLoader, Option.some.injEq] at hexact
        subst hexact
        exact ⟨rfl, Or.inl heq⟩
      | pkg pd pp => simp [loaderOf, packageLoader] at hexact
    · cases hexact
  · split at h
    · rename_i hsw
      exact loader_prefix_spec (startsWith_split hsw) h
    · cases h

/-- the `real_filename` a loader reports is the base name of the file it opens -/
theorem tryExport_name_dir_file {isfile : Str → Bool} {s : Str} {ex : Export} {path : Str} {r : Str × Str}
    (h : tryExport isfile s ex path = some r) (hex : ∀ pd pp, ex ≠ .pkg pd pp) : r.1 = basename r.2 := by
  unfold tryExport at h
  simp only at h
  cases ex with
  | pkg pd pp => exact absurd rfl (hex pd pp)
  | file f =>
    simp only [loaderOf, fileLoader] at h
    split at h
    · rename_i r' hexact
      cases h
      split at hexact
      · cases hexact; rfl
      · cases hexact
    · split at h
      · cases h; rfl
      · cases h
  | dir d =>
    simp only [loaderOf, directoryLoader] at h
    split at h
    · rename_i r' hexact
      cases h
      split at hexact
      · split at hexact
        · cases hexact; rfl
        · cases hexact
      · cases hexact
    · split at h
      · simp only [Option.map_eq_some_iff] at h
        obtain ⟨p, _, rfl⟩ := h
        rfl
      · cases h

end Wz.Paths
