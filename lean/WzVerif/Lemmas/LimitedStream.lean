/-
Helper lemmas for C09 (Model/LimitedStream.lean).
-/
import WzVerif.Model.LimitedStream
namespace Wz.LS
open Wz

/-- everything the client sent: what was taken so far followed by what is still unread -/
def orig (s : St) : Bytes := s.u.taken ++ s.u.data

/-- the invariant of the `LimitedStream` object -/
structure Inv (s : St) : Prop where
  pos_le : s.pos ≤ s.limit
  consumed : s.u.taken.length = s.pos
  out_eq : s.out = s.u.taken
  no_overread : ∀ p ∈ s.u.log, p.1 + p.2 ≤ s.limit

/-- `s'` results from `s` by calls of `readinto` that handed out exactly `d` -/
structure Adv (s s' : St) (d : Bytes) : Prop where
  limit_eq : s'.limit = s.limit
  isMax_eq : s'.isMax = s.isMax
  ri_eq : s'.hasReadinto = s.hasReadinto
  pos_eq : s'.pos = s.pos + d.length
  out_eq : s'.out = s.out ++ d
  taken_eq : s'.u.taken = s.u.taken ++ d
  data_eq : s.u.data = d ++ s'.u.data
  inv : Inv s → Inv s'

theorem Adv.refl (s : St) : Adv s s [] := by
  constructor <;> simp

theorem Adv.trans {s s' s'' : St} {d e : Bytes} (h1 : Adv s s' d) (h2 : Adv s' s'' e) :
    Adv s s'' (d ++ e) := by
  constructor
  · rw [h2.limit_eq, h1.limit_eq]
  · rw [h2.isMax_eq, h1.isMax_eq]
  · rw [h2.ri_eq, h1.ri_eq]
  · rw [h2.pos_eq, h1.pos_eq, List.length_append]; omega
  · rw [h2.out_eq, h1.out_eq, List.append_assoc]
  · rw [h2.taken_eq, h1.taken_eq, List.append_assoc]
  · rw [h1.data_eq, h2.data_eq, List.append_assoc]
  · exact fun h => h2.inv (h1.inv h)

theorem Adv.orig_eq {s s' : St} {d : Bytes} (h : Adv s s' d) : orig s' = orig s := by
  simp [orig, h.taken_eq, h.data_eq]

theorem request_le (s : St) (size : Nat) : request s size ≤ s.limit - s.pos := by
  unfold request
  dsimp only
  split
  · split <;> omega
  · exact Nat.min_le_right ..

theorem request_le_size (s : St) (size : Nat) : request s size ≤ size := by
  unfold request
  dsimp only
  split
  · split <;> omega
  · exact Nat.min_le_left ..

/-- what one underlying call can do: it is given `k ≤ n` bytes, or it raises (and nothing moves) -/
theorem Under.call_cases (u : Under) (n : Nat) :
    (∃ k, k ≤ n ∧ u.call n = (.got (u.data.take k), u.after n k))
    ∨ u.call n = (.raised, u.after n 0) := by
  unfold Under.call
  cases h : u.script.head? with
  | none => left; exact ⟨n, Nat.le_refl _, rfl⟩
  | some b =>
    cases b with
    | give k => left; exact ⟨min k n, Nat.min_le_right .., rfl⟩
    | eof => left; exact ⟨0, Nat.zero_le _, by simp⟩
    | raise => right; rfl

/-- the bytes a result hands out -/
def given : Res → Bytes
  | .ok b => b
  | .error _ => []

@[simp] theorem given_hook (o : Option String) : given (hook o) = [] := by
  cases o <;> rfl

theorem adv_got {s : St} {size k : Nat} (hlim : ¬ s.limit ≤ s.pos) (hk : k ≤ request s size) :
    Adv s { s with u := s.u.after (request s size) k, pos := s.pos + (s.u.data.take k).length,
                   out := s.out ++ s.u.data.take k } (s.u.data.take k) := by
  have hr := request_le s size
  have hbl : (s.u.data.take k).length ≤ k := by rw [List.length_take]; exact Nat.min_le_left ..
  constructor <;> simp only [Under.after, List.take_append_drop]
  intro h
  constructor
  · simp only; omega
  · simp only [List.length_append]; have := h.consumed; omega
  · simp only; rw [h.out_eq]
  · intro p hp
    simp only [List.mem_cons] at hp
    rcases hp with rfl | hp
    · simp only; have := h.consumed; omega
    · exact h.no_overread p hp

theorem adv_none {s : St} {size k : Nat} (hlim : ¬ s.limit ≤ s.pos) (hb : s.u.data.take k = []) :
    Adv s { s with u := s.u.after (request s size) k } [] := by
  have hr := request_le s size
  have hd : s.u.data.drop k = s.u.data := by
    have := List.take_append_drop k s.u.data
    rw [hb] at this; simpa using this
  constructor <;> simp only [Under.after, hb, hd, List.append_nil, List.length_nil, Nat.add_zero, List.nil_append]
  intro h
  constructor
  · exact h.pos_le
  · exact h.consumed
  · exact h.out_eq
  · intro p hp
    simp only [List.mem_cons] at hp
    rcases hp with rfl | hp
    · simp only; have := h.consumed; omega
    · exact h.no_overread p hp

/-- the step lemma: one `readinto` call advances the object by exactly the bytes it hands out -/
theorem readinto_adv (s : St) (size : Nat) :
    Adv s (readinto s size).2 (given (readinto s size).1) := by
  unfold readinto
  by_cases hlim : s.limit ≤ s.pos
  · simp only [hlim, if_true, given_hook]
    exact Adv.refl s
  · simp only [hlim, if_false]
    rcases Under.call_cases s.u (request s size) with ⟨k, hk, hc⟩ | hc
    · rw [hc]
      by_cases hb : (s.u.data.take k).isEmpty = true
      · simp only [hb, if_true, given_hook]
        exact adv_none hlim (List.isEmpty_iff.mp hb)
      · simp only [hb, Bool.false_eq_true, if_false, given]
        exact adv_got hlim hk
    · rw [hc]
      simp only [given_hook]
      exact adv_none hlim (by simp)

/-! ### exceptions -/

/-- the only exceptions `LimitedStream` itself raises -/
def GoodErr (s : St) (e : String) : Prop :=
  (e = "RequestEntityTooLarge" ∧ s.isMax = true ∧ s.limit ≤ s.pos) ∨ e = "ClientDisconnected"

/-- `GoodErr` without the position (stable along `Adv`) -/
def OkErr (s : St) (e : String) : Prop :=
  (e = "RequestEntityTooLarge" ∧ s.isMax = true) ∨ e = "ClientDisconnected"

theorem GoodErr.ok {s : St} {e : String} (h : GoodErr s e) : OkErr s e := by
  rcases h with ⟨h1, h2, _⟩ | h
  · exact Or.inl ⟨h1, h2⟩
  · exact Or.inr h

theorem OkErr.of_adv {s s' : St} {d : Bytes} {e : String} (h : Adv s s' d) (he : OkErr s' e) : OkErr s e := by
  rcases he with ⟨h1, h2⟩ | he
  · exact Or.inl ⟨h1, by rw [← h.isMax_eq]; exact h2⟩
  · exact Or.inr he

theorem hook_onExhausted_error {s : St} {e : String} (h : hook (onExhausted s) = .error e) :
    e = "RequestEntityTooLarge" ∧ s.isMax = true := by
  unfold onExhausted at h
  split at h
  · simp only [hook, Except.error.injEq] at h; exact ⟨h.symm, by assumption⟩
  · simp [hook] at h

theorem hook_onDisconnect_error {s : St} {b : Bool} {e : String} (h : hook (onDisconnect s b) = .error e) :
    e = "ClientDisconnected" := by
  unfold onDisconnect at h
  split at h
  · simp only [hook, Except.error.injEq] at h; exact h.symm
  · simp [hook] at h

theorem readinto_error {s : St} {size : Nat} {e : String} (h : (readinto s size).1 = .error e) :
    GoodErr s e := by
  unfold readinto at h
  by_cases hlim : s.limit ≤ s.pos
  · simp only [hlim, if_true] at h
    have := hook_onExhausted_error h
    exact Or.inl ⟨this.1, this.2, hlim⟩
  · simp only [hlim, if_false] at h
    rcases Under.call_cases s.u (request s size) with ⟨k, hk, hc⟩ | hc
    · rw [hc] at h
      by_cases hb : (s.u.data.take k).isEmpty = true
      · simp only [hb, if_true] at h
        exact Or.inr (hook_onDisconnect_error h)
      · simp [hb] at h
    · rw [hc] at h
      exact Or.inr (hook_onDisconnect_error h)

/-- reading at or past a maximum raises RequestEntityTooLarge and leaves the object alone -/
theorem readinto_at_max {s : St} (size : Nat) (hm : s.isMax = true) (hlim : s.limit ≤ s.pos) :
    readinto s size = (.error "RequestEntityTooLarge", s) := by
  simp [readinto, hlim, onExhausted, hm, hook]

/-- reading at the end of a declared length returns no bytes -/
theorem readinto_at_end {s : St} (size : Nat) (hm : s.isMax = false) (hlim : s.limit ≤ s.pos) :
    readinto s size = (.ok [], s) := by
  simp [readinto, hlim, onExhausted, hm, hook]

/-- for a declared length (`is_max = False`) an unexhausted `readinto` never returns zero bytes:
it hands out at least one byte or raises ClientDisconnected -/
theorem readinto_declared_nonempty {s : St} {size : Nat} {b : Bytes} (hm : s.isMax = false)
    (hlim : ¬ s.limit ≤ s.pos) (h : (readinto s size).1 = .ok b) : b ≠ [] := by
  unfold readinto at h
  simp only [hlim, if_false] at h
  rcases Under.call_cases s.u (request s size) with ⟨k, hk, hc⟩ | hc
  · rw [hc] at h
    by_cases hb : (s.u.data.take k).isEmpty = true
    · simp [hb, onDisconnect, hm, hook] at h
    · simp only [hb, Bool.false_eq_true, if_false, Except.ok.injEq] at h
      rw [← h]; simpa using hb
  · rw [hc] at h
    simp [onDisconnect, hook] at h

/-- a starved or failing underlying call on a declared length surfaces as ClientDisconnected -/
theorem readinto_starved {s : St} {size : Nat} (hm : s.isMax = false) (hlim : ¬ s.limit ≤ s.pos)
    (h : (s.u.call (request s size)).1 = .raised ∨ (s.u.call (request s size)).1 = .got []) :
    (readinto s size).1 = .error "ClientDisconnected" := by
  unfold readinto
  simp only [hlim, if_false]
  rcases hc : s.u.call (request s size) with ⟨o, u'⟩
  rw [hc] at h
  rcases h with h | h <;> simp only at h <;> subst h <;> simp [onDisconnect, hm, hook]

/-- a failing underlying call surfaces as ClientDisconnected also under a maximum -/
theorem readinto_raised {s : St} {size : Nat} (hlim : ¬ s.limit ≤ s.pos)
    (h : (s.u.call (request s size)).1 = .raised) :
    (readinto s size).1 = .error "ClientDisconnected" := by
  unfold readinto
  simp only [hlim, if_false]
  rcases hc : s.u.call (request s size) with ⟨o, u'⟩
  rw [hc] at h
  simp only at h; subst h; simp [onDisconnect, hook]

/-! ### the loops -/

theorem readallLoop_spec : ∀ (f : Nat) (s : St) (acc : Bytes),
    ∃ d, Adv s (readallLoop f s acc).2 d ∧
      (∀ r, (readallLoop f s acc).1 = .ok r → r = acc ++ d) ∧
      (∀ e, (readallLoop f s acc).1 = .error e → OkErr s e) := by
  intro f
  induction f with
  | zero => intro s acc; exact ⟨[], Adv.refl s, by simp [readallLoop], by simp [readallLoop]⟩
  | succ f ih =>
    intro s acc
    unfold readallLoop
    by_cases hlim : s.limit ≤ s.pos
    · simp only [hlim, if_true]
      exact ⟨[], Adv.refl s, by simp, by simp⟩
    · simp only [hlim, if_false, read]
      have h := readinto_adv s 65536
      have he := @readinto_error s 65536
      rcases hr : readinto s 65536 with ⟨r, s'⟩
      rw [hr] at h he
      cases r with
      | error e =>
        simp only
        exact ⟨_, h, by simp, fun e' h' => by simp only [Except.error.injEq] at h'; subst h'; exact (he rfl).ok⟩
      | ok d =>
        simp only [given] at h ⊢
        by_cases hd : d.isEmpty = true
        · simp only [hd, if_true]
          exact ⟨d, h, by simp [List.isEmpty_iff.mp hd], by simp⟩
        · simp only [hd, Bool.false_eq_true, if_false]
          obtain ⟨d2, h2, hok, herr⟩ := ih s' (acc ++ d)
          refine ⟨d ++ d2, h.trans h2, ?_, ?_⟩
          · intro r hr'; rw [hok r hr', List.append_assoc]
          · intro e he'; exact OkErr.of_adv h (herr e he')

theorem readall_spec (s : St) :
    ∃ d, Adv s (readall s).2 d ∧ (∀ r, (readall s).1 = .ok r → r = d) ∧
      (∀ e, (readall s).1 = .error e → OkErr s e) := by
  unfold readall
  by_cases hlim : s.limit ≤ s.pos
  · simp only [hlim, if_true]
    refine ⟨[], Adv.refl s, ?_, ?_⟩
    · intro r h; cases ho : onExhausted s <;> simp [ho, hook] at h; exact h
    · intro e h; exact Or.inl (hook_onExhausted_error h)
  · simp only [hlim, if_false]
    obtain ⟨d, h, hok, herr⟩ := readallLoop_spec (s.limit - s.pos + 1) s []
    exact ⟨d, h, by simpa using hok, herr⟩

theorem exhaust_spec (s : St) :
    ∃ d, Adv s (exhaust s).2 d ∧ (∀ r, (exhaust s).1 = .ok r → r = d) ∧
      (∀ e, (exhaust s).1 = .error e → OkErr s e) := by
  unfold exhaust
  by_cases hlim : s.limit ≤ s.pos
  · simp only [hlim, if_true]
    exact ⟨[], Adv.refl s, by simp, by simp⟩
  · simp only [hlim, if_false]
    exact readall_spec s

theorem readlineLoop_spec : ∀ (f : Nat) (s : St) (lim : Option Nat) (acc : Bytes),
    ∃ d, Adv s (readlineLoop f s lim acc).2 d ∧
      (∀ r, (readlineLoop f s lim acc).1 = .ok r → r = acc ++ d) ∧
      (∀ e, (readlineLoop f s lim acc).1 = .error e → OkErr s e) := by
  intro f
  induction f with
  | zero => intro s lim acc; exact ⟨[], Adv.refl s, by simp [readlineLoop], by simp [readlineLoop]⟩
  | succ f ih =>
    intro s lim acc
    unfold readlineLoop
    by_cases hl : reachedLimit lim acc.length = true
    · simp only [hl, if_true]
      exact ⟨[], Adv.refl s, by simp, by simp⟩
    · simp only [hl, Bool.false_eq_true, if_false, read]
      have h := readinto_adv s 1
      have he := @readinto_error s 1
      rcases hr : readinto s 1 with ⟨r, s'⟩
      rw [hr] at h he
      cases r with
      | error e =>
        simp only
        exact ⟨_, h, by simp, fun e' h' => by simp only [Except.error.injEq] at h'; subst h'; exact (he rfl).ok⟩
      | ok d =>
        simp only [given] at h ⊢
        by_cases hd : d.isEmpty = true
        · simp only [hd, if_true]
          exact ⟨d, h, by simp [List.isEmpty_iff.mp hd], by simp⟩
        · simp only [hd, Bool.false_eq_true, if_false]
          by_cases hn : (d.getLast? == some 10) = true
          · simp only [hn, if_true]
            exact ⟨d, h, by simp, by simp⟩
          · simp only [hn, Bool.false_eq_true, if_false]
            obtain ⟨d2, h2, hok, herr⟩ := ih s' lim (acc ++ d)
            refine ⟨d ++ d2, h.trans h2, ?_, ?_⟩
            · intro r hr'; rw [hok r hr', List.append_assoc]
            · intro e he'; exact OkErr.of_adv h (herr e he')

theorem readline_spec (s : St) (lim : Option Nat) :
    ∃ d, Adv s (readline s lim).2 d ∧ (∀ r, (readline s lim).1 = .ok r → r = d) ∧
      (∀ e, (readline s lim).1 = .error e → OkErr s e) := by
  obtain ⟨d, h, hok, herr⟩ := readlineLoop_spec (s.limit - s.pos + 2) s lim []
  exact ⟨d, h, by simpa [readline] using hok, herr⟩

theorem next_spec (s : St) :
    ∃ d, Adv s (next s).2 d ∧ (∀ r, (next s).1 = .ok r → r = d) ∧
      (∀ e, (next s).1 = .error e → OkErr s e ∨ (e = "StopIteration" ∧ d = [])) := by
  obtain ⟨d, h, hok, herr⟩ := readline_spec s none
  unfold next
  rcases hr : readline s none with ⟨r, s'⟩
  rw [hr] at h hok herr
  cases r with
  | error e => exact ⟨d, h, by simp, fun e' h' => Or.inl (herr e' h')⟩
  | ok l =>
    simp only
    by_cases hl : l.isEmpty = true
    · simp only [hl, if_true]
      have hd : d = [] := by rw [← hok l rfl]; exact List.isEmpty_iff.mp hl
      exact ⟨d, h, by simp, fun e' h' => by simp only [Except.error.injEq] at h'; exact Or.inr ⟨h'.symm, hd⟩⟩
    · simp only [hl, Bool.false_eq_true, if_false]
      exact ⟨d, h, fun r hr' => by simp only [Except.ok.injEq] at hr'; subst hr'; exact hok l rfl, by simp⟩

theorem readlinesLoop_spec : ∀ (f : Nat) (s : St) (hint : Option Nat) (len : Nat) (acc : List Bytes),
    ∃ d, Adv s (readlinesLoop f s hint len acc).2 d ∧
      (∀ r, (readlinesLoop f s hint len acc).1 = .ok r → ∃ ls, r = acc ++ ls ∧ d = ls.flatten) ∧
      (∀ e, (readlinesLoop f s hint len acc).1 = .error e → OkErr s e) := by
  intro f
  induction f with
  | zero =>
    intro s hint len acc
    exact ⟨[], Adv.refl s, by simp [readlinesLoop], by simp [readlinesLoop]⟩
  | succ f ih =>
    intro s hint len acc
    unfold readlinesLoop
    obtain ⟨d, h, hok, herr⟩ := next_spec s
    rcases hr : next s with ⟨r, s'⟩
    rw [hr] at h hok herr
    cases r with
    | error e =>
      simp only
      by_cases hs : (e == "StopIteration") = true
      · simp only [hs, if_true]
        -- the bytes `next` took before StopIteration: none are lost only if d = []; they are
        -- accounted to the advance, not to the result
        refine ⟨d, h, ?_, by simp⟩
        intro r hr'
        simp only [Except.ok.injEq] at hr'
        -- next raised StopIteration: readline returned the empty line, so d = []
        have hd : d = [] := by
          rcases herr e rfl with h1 | h1
          · rcases h1 with ⟨h1, _⟩ | h1 <;> simp [h1] at hs
          · exact h1.2
        exact ⟨[], by simp [hr'], by simp [hd]⟩
      · simp only [hs, Bool.false_eq_true, if_false]
        refine ⟨d, h, by simp, ?_⟩
        intro e' h'
        simp only [Except.error.injEq] at h'; subst h'
        rcases herr e rfl with h1 | h1
        · exact h1
        · simp [h1.1] at hs
    | ok l =>
      have hl := hok l rfl
      subst hl
      simp only
      cases hint with
      | none =>
        simp only
        obtain ⟨d2, h2, hok2, herr2⟩ := ih s' none len (acc ++ [l])
        refine ⟨l ++ d2, h.trans h2, ?_, fun e he => OkErr.of_adv h (herr2 e he)⟩
        intro r hr'
        obtain ⟨ls, h3, h4⟩ := hok2 r hr'
        exact ⟨l :: ls, by simp [h3], by simp [h4]⟩
      | some hh =>
        simp only
        by_cases hc : l.length > hh - len
        · simp only [hc, if_true]
          exact ⟨l, h, fun r hr' => ⟨[l], by simpa using hr'.symm, by simp⟩, by simp⟩
        · simp only [hc, if_false]
          obtain ⟨d2, h2, hok2, herr2⟩ := ih s' (some hh) (len + l.length) (acc ++ [l])
          refine ⟨l ++ d2, h.trans h2, ?_, fun e he => OkErr.of_adv h (herr2 e he)⟩
          intro r hr'
          obtain ⟨ls, h3, h4⟩ := hok2 r hr'
          exact ⟨l :: ls, by simp [h3], by simp [h4]⟩

theorem readlines_spec (s : St) (hint : Option Nat) :
    ∃ d, Adv s (readlines s hint).2 d ∧
      (∀ r, (readlines s hint).1 = .ok r → d = r.flatten) ∧
      (∀ e, (readlines s hint).1 = .error e → OkErr s e) := by
  unfold readlines
  obtain ⟨d, h, hok, herr⟩ := readlinesLoop_spec (s.limit - s.pos + 2) s
    (match hint with | some 0 => none | h => h) 0 []
  refine ⟨d, h, ?_, herr⟩
  intro r hr
  obtain ⟨ls, h1, h2⟩ := hok r hr
  simp only [List.nil_append] at h1
  rw [h2, h1]

/-! ### operations and operation sequences -/

theorem single_spec {p : Res × St} {s : St} {d : Bytes} (h : Adv s p.2 d)
    (hok : ∀ r, p.1 = .ok r → r = d) :
    Adv s (single p).2 d ∧ (∀ rs, (single p).1 = .ok rs → d = rs.flatten) := by
  rcases p with ⟨r, s'⟩
  cases r with
  | error e => exact ⟨h, by simp [single]⟩
  | ok b =>
    refine ⟨h, ?_⟩
    intro rs hrs
    simp only [single, Except.ok.injEq] at hrs
    subst hrs
    simp [hok b rfl]

theorem single_err {p : Res × St} {e : String} (h : (single p).1 = .error e) : p.1 = .error e := by
  rcases p with ⟨r, s'⟩
  cases r with
  | error e' => simpa [single] using h
  | ok b => simp [single] at h

/-- every operation advances the object by some bytes `d`; when it returns normally, `d` is exactly
what it returned; when it raises, the exception is one of the two `LimitedStream` raises
(or `StopIteration` from `__next__`) -/
theorem runOp_spec (s : St) (op : Op) :
    ∃ d, Adv s (runOp s op).2 d ∧ (∀ rs, (runOp s op).1 = .ok rs → d = rs.flatten) ∧
      (∀ e, (runOp s op).1 = .error e → OkErr s e ∨ e = "StopIteration") := by
  cases op with
  | read n =>
    have h := readinto_adv s n
    have := single_spec (p := read s n) h (by intro r hr; simp only [read] at hr; simp [hr, given])
    exact ⟨_, this.1, this.2, fun e he => Or.inl (readinto_error (single_err he)).ok⟩
  | readinto n =>
    have h := readinto_adv s n
    have := single_spec (p := readinto s n) h (by intro r hr; simp [hr, given])
    exact ⟨_, this.1, this.2, fun e he => Or.inl (readinto_error (single_err he)).ok⟩
  | readall =>
    obtain ⟨d, h, hok, herr⟩ := readall_spec s
    have := single_spec h hok
    exact ⟨d, this.1, this.2, fun e he => Or.inl (herr e (single_err he))⟩
  | exhaust =>
    obtain ⟨d, h, hok, herr⟩ := exhaust_spec s
    have := single_spec h hok
    exact ⟨d, this.1, this.2, fun e he => Or.inl (herr e (single_err he))⟩
  | readline l =>
    obtain ⟨d, h, hok, herr⟩ := readline_spec s l
    have := single_spec h hok
    exact ⟨d, this.1, this.2, fun e he => Or.inl (herr e (single_err he))⟩
  | next =>
    obtain ⟨d, h, hok, herr⟩ := next_spec s
    have := single_spec h hok
    refine ⟨d, this.1, this.2, fun e he => ?_⟩
    rcases herr e (single_err he) with h1 | h1
    · exact Or.inl h1
    · exact Or.inr h1.1
  | readlines hint =>
    obtain ⟨d, h, hok, herr⟩ := readlines_spec s hint
    exact ⟨d, h, hok, fun e he => Or.inl (herr e he)⟩

/-- all bytes the operations returned normally, in order -/
def yielded : List LRes → Bytes
  | [] => []
  | .ok bs :: rest => bs.flatten ++ yielded rest
  | .error _ :: rest => yielded rest

def allOk : List LRes → Bool
  | [] => true
  | .ok _ :: rest => allOk rest
  | .error _ :: _ => false

theorem runOps_spec : ∀ (ops : List Op) (s : St),
    ∃ d, Adv s (runOps s ops).2 d ∧ (yielded (runOps s ops).1).length ≤ d.length ∧
      (allOk (runOps s ops).1 = true → yielded (runOps s ops).1 = d) := by
  intro ops
  induction ops with
  | nil => intro s; exact ⟨[], Adv.refl s, by simp [runOps, yielded], by simp [runOps, yielded]⟩
  | cons op ops ih =>
    intro s
    obtain ⟨d1, h1, hok1, _⟩ := runOp_spec s op
    rcases hr : runOp s op with ⟨r, s'⟩
    rw [hr] at h1 hok1
    obtain ⟨d2, h2, hlen, hall⟩ := ih s'
    simp only [runOps, hr]
    refine ⟨d1 ++ d2, h1.trans h2, ?_, ?_⟩
    · cases r with
      | error e => simp only [yielded, List.length_append]; omega
      | ok bs =>
        have := hok1 bs rfl
        simp only [yielded, List.length_append, this]; omega
    · cases r with
      | error e => simp [allOk]
      | ok bs =>
        intro ha
        simp only [allOk] at ha
        simp only [yielded, hok1 bs rfl, hall ha]

theorem fresh_inv (data : Bytes) (script : List Beh) (limit : Nat) (isMax ri : Bool) :
    Inv (fresh data script limit isMax ri) := by
  constructor <;> simp [fresh]

/-- everything known about a fresh object after a run of operations that advanced it by `d` -/
structure FreshRun (data : Bytes) (limit : Nat) (isMax : Bool) (rs : List LRes) (s : St) (d : Bytes) : Prop where
  inv : Inv s
  limit_eq : s.limit = limit
  isMax_eq : s.isMax = isMax
  pos_eq : s.pos = d.length
  out_eq : s.out = d
  taken_eq : s.u.taken = d
  data_eq : data = d ++ s.u.data
  ylen : (yielded rs).length ≤ d.length
  yall : allOk rs = true → yielded rs = d

theorem fresh_run (data : Bytes) (script : List Beh) (limit : Nat) (isMax ri : Bool) (ops : List Op) :
    ∃ d, FreshRun data limit isMax (runOps (fresh data script limit isMax ri) ops).1
      (runOps (fresh data script limit isMax ri) ops).2 d := by
  obtain ⟨d, h, hlen, hall⟩ := runOps_spec ops (fresh data script limit isMax ri)
  refine ⟨d, h.inv (fresh_inv ..), ?_, ?_, ?_, ?_, ?_, ?_, hlen, hall⟩
  · rw [h.limit_eq]; rfl
  · rw [h.isMax_eq]; rfl
  · rw [h.pos_eq]; simp [fresh]
  · rw [h.out_eq]; simp [fresh]
  · rw [h.taken_eq]; simp [fresh]
  · have := h.data_eq; simpa [fresh] using this

/-! ### `readall` is exact -/

/-- with enough fuel, a `readall` loop on a declared length that returns normally stops exactly at
the limit -/
theorem readallLoop_declared : ∀ (f : Nat) (s : St) (acc : Bytes), s.isMax = false → Inv s →
    s.limit - s.pos < f → ∀ r, (readallLoop f s acc).1 = .ok r → (readallLoop f s acc).2.pos = s.limit := by
  intro f
  induction f with
  | zero => intro s acc _ _ hf; omega
  | succ f ih =>
    intro s acc hm hinv hf r
    unfold readallLoop
    by_cases hlim : s.limit ≤ s.pos
    · simp only [hlim, if_true]
      intro _; have := hinv.pos_le; omega
    · simp only [hlim, if_false, read]
      have h := readinto_adv s 65536
      have hne := fun b => @readinto_declared_nonempty s 65536 b hm hlim
      rcases hr : readinto s 65536 with ⟨r1, s'⟩
      rw [hr] at h hne
      cases r1 with
      | error e => simp
      | ok d =>
        have hd : d ≠ [] := hne d rfl
        have hd' : d.isEmpty = false := by
          cases d with
          | nil => exact absurd rfl hd
          | cons => rfl
        have hpos : 0 < d.length := List.length_pos_iff.mpr hd
        simp only [hd', Bool.false_eq_true, if_false]
        simp only [given] at h
        intro hok
        have := ih s' (acc ++ d) (by rw [h.isMax_eq]; exact hm) (h.inv hinv)
          (by rw [h.limit_eq, h.pos_eq]; omega) r hok
        rw [this, h.limit_eq]

/-- more fuel than `limit - pos` never changes the result of the `readall` loop: the bound
`limit - pos + 1` used by `readall` is not a truncation -/
theorem readallLoop_fuel : ∀ (f g : Nat) (s : St) (acc : Bytes), Inv s →
    s.limit - s.pos < f → s.limit - s.pos < g → readallLoop f s acc = readallLoop g s acc := by
  intro f
  induction f with
  | zero => intro g s acc _ hf; omega
  | succ f ih =>
    intro g s acc hinv hf hg
    cases g with
    | zero => omega
    | succ g =>
      unfold readallLoop
      by_cases hlim : s.limit ≤ s.pos
      · simp only [hlim, if_true]
      · simp only [hlim, if_false, read]
        have h := readinto_adv s 65536
        rcases hr : readinto s 65536 with ⟨r1, s'⟩
        rw [hr] at h
        cases r1 with
        | error e => rfl
        | ok d =>
          simp only
          by_cases hd : d.isEmpty = true
          · simp only [hd, if_true]
          · simp only [hd, Bool.false_eq_true, if_false]
            simp only [given] at h
            have hpos : 0 < d.length := by
              cases d with
              | nil => simp at hd
              | cons => simp
            exact ih g s' (acc ++ d) (h.inv hinv) (by rw [h.limit_eq, h.pos_eq]; omega)
              (by rw [h.limit_eq, h.pos_eq]; omega)

/-! ### a delivering underlying stream -/

/-- the underlying stream never fails and never returns zero bytes while data remain
(it may still fragment arbitrarily) -/
def Faithful (script : List Beh) : Prop := ∀ b ∈ script, ∃ k, b = .give k ∧ 0 < k

theorem Faithful.tail {l : List Beh} (h : Faithful l) : Faithful l.tail :=
  fun b hb => h b (List.mem_of_mem_tail hb)

theorem call_faithful (u : Under) (n : Nat) (hf : Faithful u.script) (hn : 0 < n) :
    ∃ k, 0 < k ∧ k ≤ n ∧ u.call n = (.got (u.data.take k), u.after n k) := by
  unfold Under.call
  cases h : u.script.head? with
  | none => exact ⟨n, hn, Nat.le_refl _, rfl⟩
  | some b =>
    have hb : b ∈ u.script := List.mem_of_head? h
    obtain ⟨k, rfl, hk⟩ := hf b hb
    exact ⟨min k n, by omega, Nat.min_le_right .., rfl⟩

theorem request_pos {s : St} {size : Nat} (hlim : ¬ s.limit ≤ s.pos) (hs : 0 < size) :
    0 < request s size := by
  unfold request
  dsimp only
  split
  · split <;> omega
  · omega

theorem take_take_drop (l : Bytes) (k L : Nat) (hk : k ≤ L) :
    l.take k ++ (l.drop k).take (L - (l.take k).length) = l.take L := by
  by_cases h : k ≤ l.length
  · have : (l.take k).length = k := by rw [List.length_take]; omega
    rw [this]
    have hL : L = k + (L - k) := by omega
    conv => rhs; rw [hL, List.take_add]
  · have h1 : l.take k = l := List.take_of_length_le (by omega)
    have h2 : l.drop k = [] := List.drop_of_length_le (by omega)
    have h3 : l.take L = l := List.take_of_length_le (by omega)
    rw [h1, h2, h3]; simp

theorem readallLoop_faithful : ∀ (f : Nat) (s : St) (acc : Bytes), Faithful s.u.script → Inv s →
    s.limit - s.pos < f → (s.isMax = true ∨ s.limit - s.pos ≤ s.u.data.length) →
    (readallLoop f s acc).1 = .ok (acc ++ s.u.data.take (s.limit - s.pos)) := by
  intro f
  induction f with
  | zero => intro s acc _ _ hf; omega
  | succ f ih =>
    intro s acc hfa hinv hf hcase
    unfold readallLoop
    by_cases hlim : s.limit ≤ s.pos
    · have : s.limit - s.pos = 0 := by omega
      simp [hlim, this]
    · simp only [hlim, if_false, read]
      have hreq := request_pos (size := 65536) hlim (by omega)
      obtain ⟨k, hk0, hk, hc⟩ := call_faithful s.u (request s 65536) hfa hreq
      have hkl : k ≤ s.limit - s.pos := Nat.le_trans hk (request_le s 65536)
      unfold readinto
      simp only [hlim, if_false, hc]
      by_cases hb : (s.u.data.take k).isEmpty = true
      · have hb' : s.u.data.take k = [] := List.isEmpty_iff.mp hb
        have hdata : s.u.data = [] := by
          cases hd : s.u.data with
          | nil => rfl
          | cons a t =>
            rw [hd] at hb'
            cases k with
            | zero => omega
            | succ k => simp at hb'
        simp only [hb, if_true]
        rcases hcase with hm | hlen
        · simp [onDisconnect, hm, hook, hdata]
        · rw [hdata] at hlen; simp at hlen; omega
      · simp only [hb, Bool.false_eq_true, if_false]
        have hadv := adv_got (size := 65536) hlim hk
        have hne : s.u.data.take k ≠ [] := by simpa using hb
        have hpos : 0 < (s.u.data.take k).length := List.length_pos_iff.mpr hne
        have hble : (s.u.data.take k).length ≤ k := by rw [List.length_take]; exact Nat.min_le_left ..
        have := ih _ (acc ++ s.u.data.take k) (by simpa [Under.after] using hfa.tail) (hadv.inv hinv)
          (by simp only; omega)
          (by
            rcases hcase with hm | hlen
            · exact Or.inl hm
            · right
              simp only [Under.after, List.length_drop, List.length_take]
              omega)
        rw [this]
        simp only [Under.after, List.append_assoc]
        have e : s.limit - (s.pos + (List.take k s.u.data).length)
            = (s.limit - s.pos) - (List.take k s.u.data).length := by omega
        rw [e, take_take_drop _ _ _ hkl]

/-! ### line structure of readline / next / readlines -/

/-- a line as `readline` returns it: a newline can only be its last byte -/
def LineShaped (l : Bytes) : Prop := 10 ∉ l.dropLast

theorem readinto_length_le (s : St) (size : Nat) (b : Bytes) (h : (readinto s size).1 = .ok b) :
    b.length ≤ size := by
  unfold readinto at h
  by_cases hlim : s.limit ≤ s.pos
  · simp only [hlim, if_true] at h
    cases ho : onExhausted s <;> simp [ho, hook] at h
    subst h; simp
  · simp only [hlim, if_false] at h
    rcases Under.call_cases s.u (request s size) with ⟨k, hk, hc⟩ | hc
    · rw [hc] at h
      have hks : k ≤ size := Nat.le_trans hk (request_le_size s size)
      by_cases hb : (s.u.data.take k).isEmpty = true
      · simp only [hb, if_true] at h
        cases ho : onDisconnect s false <;> simp [ho, hook] at h
        subst h; simp
      · simp only [hb, Bool.false_eq_true, if_false, Except.ok.injEq] at h
        rw [← h, List.length_take]; omega
    · rw [hc] at h
      cases ho : onDisconnect s true <;> simp [ho, hook] at h
      subst h; simp

theorem readlineLoop_shape : ∀ (f : Nat) (s : St) (lim : Option Nat) (acc l : Bytes), 10 ∉ acc →
    (∀ n, lim = some n → acc.length ≤ n) →
    (readlineLoop f s lim acc).1 = .ok l → LineShaped l ∧ (∀ n, lim = some n → l.length ≤ n) := by
  intro f
  induction f with
  | zero =>
    intro s lim acc l hacc hlen h
    simp only [readlineLoop, Except.ok.injEq] at h
    subst h
    exact ⟨fun hm => hacc (List.dropLast_subset _ hm), hlen⟩
  | succ f ih =>
    intro s lim acc l hacc hlen h
    unfold readlineLoop at h
    by_cases hl : reachedLimit lim acc.length = true
    · simp only [hl, if_true, Except.ok.injEq] at h
      subst h
      exact ⟨fun hm => hacc (List.dropLast_subset _ hm), hlen⟩
    · simp only [hl, Bool.false_eq_true, if_false, read] at h
      have hlt : ∀ n, lim = some n → acc.length < n := by
        intro n hn
        subst hn
        simp only [reachedLimit, decide_eq_true_eq, Nat.not_le] at hl
        exact hl
      have hle := readinto_length_le s 1
      rcases hr : readinto s 1 with ⟨r, s'⟩
      rw [hr] at h hle
      cases r with
      | error e => simp at h
      | ok d =>
        have hd1 := hle d rfl
        simp only at h
        by_cases hd : d.isEmpty = true
        · simp only [hd, if_true, Except.ok.injEq] at h
          subst h
          exact ⟨fun hm => hacc (List.dropLast_subset _ hm), hlen⟩
        · simp only [hd, Bool.false_eq_true, if_false] at h
          -- d is a single byte
          obtain ⟨x, rfl⟩ : ∃ x, d = [x] := by
            cases d with
            | nil => simp at hd
            | cons x t =>
              cases t with
              | nil => exact ⟨x, rfl⟩
              | cons y t => simp at hd1
          have hlen' : ∀ n, lim = some n → (acc ++ [x]).length ≤ n := by
            intro n hn; have := hlt n hn; simp; omega
          by_cases hn : (([x] : Bytes).getLast? == some 10) = true
          · simp only [hn, if_true, Except.ok.injEq] at h
            subst h
            refine ⟨?_, hlen'⟩
            simp only [LineShaped, List.dropLast_concat]
            exact hacc
          · simp only [hn, Bool.false_eq_true, if_false] at h
            have hx : x ≠ 10 := by simpa using hn
            exact ih s' lim (acc ++ [x]) l (by simp [hacc, hx.symm]) hlen' h

theorem readline_shape (s : St) (lim : Option Nat) (l : Bytes) (h : (readline s lim).1 = .ok l) :
    LineShaped l ∧ (∀ n, lim = some n → l.length ≤ n) :=
  readlineLoop_shape _ s lim [] l (by simp) (by simp) h

theorem next_shape (s : St) (l : Bytes) (h : (next s).1 = .ok l) : l ≠ [] ∧ LineShaped l := by
  unfold next at h
  have hs := readline_shape s none
  rcases hr : readline s none with ⟨r, s'⟩
  rw [hr] at h hs
  cases r with
  | error e => simp at h
  | ok l' =>
    simp only at h
    by_cases he : l'.isEmpty = true
    · simp [he] at h
    · simp only [he, Bool.false_eq_true, if_false, Except.ok.injEq] at h
      subst h
      exact ⟨by simpa using he, (hs l' rfl).1⟩

theorem readlinesLoop_shape : ∀ (f : Nat) (s : St) (hint : Option Nat) (len : Nat) (acc ls : List Bytes),
    (∀ l ∈ acc, l ≠ [] ∧ LineShaped l) → (readlinesLoop f s hint len acc).1 = .ok ls →
    ∀ l ∈ ls, l ≠ [] ∧ LineShaped l := by
  intro f
  induction f with
  | zero => intro s hint len acc ls hacc h; simp only [readlinesLoop, Except.ok.injEq] at h; subst h; exact hacc
  | succ f ih =>
    intro s hint len acc ls hacc h
    unfold readlinesLoop at h
    have hn := next_shape s
    rcases hr : next s with ⟨r, s'⟩
    rw [hr] at h hn
    cases r with
    | error e =>
      simp only at h
      split at h
      · simp only [Except.ok.injEq] at h; subst h; exact hacc
      · simp at h
    | ok l =>
      have hl := hn l rfl
      have hacc' : ∀ x ∈ acc ++ [l], x ≠ [] ∧ LineShaped x := by
        intro x hx
        simp only [List.mem_append, List.mem_singleton] at hx
        rcases hx with hx | rfl
        · exact hacc x hx
        · exact hl
      simp only at h
      cases hint with
      | none => exact ih s' none len _ ls hacc' h
      | some hh =>
        simp only at h
        split at h
        · simp only [Except.ok.injEq] at h; subst h; exact hacc'
        · exact ih s' (some hh) _ _ ls hacc' h

/-! ### iteration (`for line in stream`) -/

/-- one successful `__next__`: a single non-empty line, the object advanced by exactly that line -/
theorem runOp_next_ok {s s' : St} {bs : List Bytes} (h : runOp s .next = (.ok bs, s')) :
    ∃ l, bs = [l] ∧ l ≠ [] ∧ LineShaped l ∧ Adv s s' l := by
  obtain ⟨d, hadv, hok, _⟩ := next_spec s
  have hsh := next_shape s
  simp only [runOp] at h
  rcases hn : next s with ⟨r, s1⟩
  rw [hn] at h hadv hok hsh
  cases r with
  | error e => simp [single] at h
  | ok l =>
    simp only [single, Prod.mk.injEq, Except.ok.injEq] at h
    obtain ⟨h1, h2⟩ := h
    subst h1 h2
    have hd := hok l rfl
    subst hd
    exact ⟨l, rfl, (hsh l rfl).1, (hsh l rfl).2, hadv⟩

/-- `for line in stream` is nothing but a run of `__next__` calls: every theorem about operation
sequences applies to it -/
theorem iterLoop_eq_runOps : ∀ (f : Nat) (s : St),
    iterLoop f s = runOps s (List.replicate (iterLoop f s).1.length Op.next) := by
  intro f
  induction f with
  | zero => intro s; simp [iterLoop, runOps]
  | succ f ih =>
    intro s
    rcases hr : runOp s .next with ⟨r, s'⟩
    cases r with
    | error e => simp [iterLoop, hr, runOps, List.replicate]
    | ok l =>
      have h1 : iterLoop (f + 1) s = (.ok l :: (iterLoop f s').1, (iterLoop f s').2) := by
        simp [iterLoop, hr]
      rw [h1]
      simp only [List.length_cons, List.replicate_succ, runOps, hr]
      rw [← ih s']

/-- the loop always ends in an exception (`StopIteration` or one of the documented ones), never
because the fuel of the model ran out; every line before it is non-empty and line-shaped -/
theorem iterLoop_ends : ∀ (f : Nat) (s : St), Inv s → s.limit - s.pos < f →
    ∃ (ls : List Bytes) (e : String), (iterLoop f s).1 = ls.map (fun l => (Except.ok [l] : LRes)) ++ [.error e] ∧
      (∀ l ∈ ls, l ≠ [] ∧ LineShaped l) ∧ (OkErr s e ∨ e = "StopIteration") := by
  intro f
  induction f with
  | zero => intro s _ hf; omega
  | succ f ih =>
    intro s hi hf
    rcases hr : runOp s .next with ⟨r, s'⟩
    cases r with
    | error e =>
      obtain ⟨_, _, _, herr⟩ := runOp_spec s .next
      exact ⟨[], e, by simp [iterLoop, hr], by simp, herr e (by rw [hr])⟩
    | ok bs =>
      obtain ⟨l, hbs, hne, hsh, hadv⟩ := runOp_next_ok hr
      subst hbs
      have hpos : 0 < l.length := List.length_pos_iff.mpr hne
      have hi' := hadv.inv hi
      have hlt : s'.limit - s'.pos < f := by
        rw [hadv.limit_eq, hadv.pos_eq]
        have := hi'.pos_le
        rw [hadv.limit_eq, hadv.pos_eq] at this
        omega
      obtain ⟨ls, e, h1, h2, h3⟩ := ih s' hi' hlt
      refine ⟨l :: ls, e, ?_, ?_, ?_⟩
      · simp [iterLoop, hr, h1]
      · intro x hx
        simp only [List.mem_cons] at hx
        rcases hx with rfl | hx
        · exact ⟨hne, hsh⟩
        · exact h2 x hx
      · rcases h3 with h3 | h3
        · exact Or.inl (OkErr.of_adv hadv h3)
        · exact Or.inr h3

/-- running `a ++ b` is running `a`, then `b` on the object as `a` left it -/
theorem runOps_append (s : St) : ∀ (a b : List Op),
    (runOps s (a ++ b)).1 = (runOps s a).1 ++ (runOps (finalState s a) b).1 := by
  intro a
  induction a generalizing s with
  | nil => intro b; simp [runOps, finalState]
  | cons op ops ih =>
    intro b
    simp only [List.cons_append, runOps, finalState]
    rw [ih]
    simp [finalState]

end Wz.LS
