/-
Relations between `Request.url`, `base_url`, `root_url` (`url_root`) and `host_url` (C15): the text
`get_current_url` returns, for all four ways it is called. Core Lean only.
-/
import WzVerif.Lemmas.UrlDenote
namespace Wz.Url
open Wz

theorem unquotePartial_isEmpty (keep : List Bool) (s : Str) :
    (unquotePartial keep s).isEmpty = s.isEmpty := by
  cases s with
  | nil => rfl
  | cons c t =>
    have := unquotePartial_ne (keep := keep) (s := c :: t) (by simp)
    cases h : unquotePartial keep (c :: t) with
    | nil => exact absurd h this
    | cons _ _ => rfl

/-- **The text `get_current_url` returns**: `scheme://` + decoded host with its port + the partially
unquoted path text + (for a non-empty query) `?` + the partially unquoted query text. -/
theorem getCurrentUrl_text {o : UrlOpaque} (laws : HostLaws o)
    (kt : KeepOK Gen.UrlTables.keepPath ∧ KeepOK Gen.UrlTables.keepQuery ∧
      KeepOK Gen.UrlTables.keepFragment ∧ KeepOK Gen.UrlTables.keepUser)
    {scheme ha hu root path : Str} {port : Option Nat} {q : Bytes}
    (ci : CurInput o scheme ha port root q) (hconv : o.hostToUnicode ha = some hu) :
    getCurrentUrl o scheme (hostBr ha ++ portText port) root path q = .ok
      (scheme ++ "://".toList ++ (hostBr hu ++ portText port)
        ++ unquotePartial Gen.UrlTables.keepPath (curPathText root path)
        ++ (if q.isEmpty then [] else
              '?' :: unquotePartial Gen.UrlTables.keepQuery (quoteBytes Gen.UrlTables.curQuerySafe q))) := by
  let p0 : Parts := { scheme := scheme, host := ha, port := port }
  let F0 : Conv :=
    { fu := id, fp := id, fpath := fun _ => curPathText root path,
      fquery := fun _ => quoteBytes Gen.UrlTables.curQuerySafe q, ffrag := fun _ => [] }
  obtain ⟨pf1, pf2, pf3, pf4, pf5⟩ := curPathText_facts root path ci.root_form
  have hq : ∀ c ∈ quoteBytes Gen.UrlTables.curQuerySafe q, c ≠ '#' ∧ isTabCrLf c = false := fun c hc =>
    quoted_char_ok (P := fun c => c ≠ '#' ∧ isTabCrLf c = false) ⟨by decide, by decide⟩
      (fun n hn h => (cur_path_ok n hn).2.2 h) hc
  have np0 : NetlocParts F0.fu F0.fp p0 :=
    ⟨ci.host_ne, ci.host_chars, fun u hu => by simp [p0, truthy] at hu, fun u hu => by simp [p0, truthy] at hu,
      ci.port⟩
  have g0 : GoodSplit o (F0.apply p0) :=
    good_apply np0 ci.scheme ci.bracket (netlocOk_of_law laws.nfkc _)
      ⟨Or.inr pf1, pf2, pf3, pf4⟩ ⟨fun hm => (hq _ hm).1 rfl, fun c hc => (hq c hc).2⟩
      (fun c hc => by cases hc)
  have hnet0 : netloc F0.fu F0.fp p0 = hostBr ha ++ portText port := by
    rw [netloc_eq]; simp [authText, p0, truthy]
  have htext : scheme ++ "://".toList ++ (hostBr ha ++ portText port)
      ++ quote Gen.UrlTables.curRootSafe (rstripSlash root) ++ ['/']
      ++ quote Gen.UrlTables.curPathSafe (lstripSlash path)
      ++ (if q.isEmpty then [] else '?' :: quoteBytes Gen.UrlTables.curQuerySafe q)
      = urlunsplit (F0.apply p0) := by
    rw [urlunsplit_good g0]
    simp only [Conv.apply, hnet0, tailOf, F0, p0, curPathText, quoteBytes_isEmpty, List.isEmpty_nil,
      if_true, List.append_nil]
    by_cases hqe : q.isEmpty = true <;> simp [hqe, List.append_assoc]
  obtain ⟨s1, r1⟩ := pass_reparse (conv' := o.hostToUnicode) (h' := hu) g0 np0 hconv
  have b1 : PartsBase (reparsed F0 p0 hu) :=
    ⟨ci.scheme, (laws.u_chars _ _ hconv).1, (laws.u_chars _ _ hconv).2, by
      intro k hk
      simp only [reparsed, p0] at hk
      cases hp : port with
      | none => simp [hp] at hk
      | some j =>
        cases j with
        | zero => simp [hp] at hk
        | succ j => simp only [hp, Option.some.injEq] at hk; rw [← hk]; exact ci.port _ hp,
      Or.inr pf1⟩
  have ui1 : UriInput (reparsed F0 p0 hu) :=
    ⟨fun u hu' => by simp [reparsed, p0, truthy] at hu', fun u hu' => by simp [reparsed, p0, truthy] at hu',
      ⟨pf5, pf2, pf3, pf4⟩, ⟨ci.query_wf, fun hm => (hq _ hm).1 rfl, fun c hc => (hq c hc).2⟩,
      ⟨rfl, fun c hc => by cases hc⟩⟩
  obtain ⟨np1, g1⟩ := uri_pass laws b1 ui1 (laws.bracket_u _ _ hconv) kt
  have hnet1 : netloc uriConv.fu uriConv.fp (reparsed F0 p0 hu) = hostBr hu ++ portText port := by
    rw [netloc_eq]
    have : portText (reparsed F0 p0 hu).port = portText port := portText_norm port
    rw [this]
    simp [authText, reparsed, p0, truthy]
  unfold getCurrentUrl
  simp only
  rw [htext, uriToIriText_unfold, s1]
  simp only [r1]
  rw [urlunsplit_good g1]
  simp only [Conv.apply, hnet1, tailOf]
  simp only [uriConv, reparsed, F0, p0, unquotePartial_isEmpty, quoteBytes_isEmpty]
  by_cases hqe : q.isEmpty = true <;> simp [hqe, List.append_assoc]

theorem getCurrentUrlOpt_root (o : UrlOpaque) (scheme host root : Str) :
    getCurrentUrlOpt o scheme host (some root) none [] = getCurrentUrl o scheme host root [] [] := by
  simp [getCurrentUrl, getCurrentUrlOpt, lstripSlash, quote, quoteBytes, utf8Enc]

theorem getCurrentUrlOpt_host (o : UrlOpaque) (scheme host : Str) :
    getCurrentUrlOpt o scheme host none none [] = getCurrentUrl o scheme host [] [] [] := by
  simp [getCurrentUrl, getCurrentUrlOpt, lstripSlash, rstripSlash, quote, quoteBytes, utf8Enc]

/-- **`Request.url`, `base_url`, `root_url` (`url_root`), `host_url` as text.** For an environ whose
SCRIPT_NAME / PATH_INFO / QUERY_STRING are the dances of `root`, `p`, `qs` and whose host is a
URI-form netloc that `get_host` leaves alone, with `H = scheme://<decoded host>[:port]`:
`host_url = H/`, `root_url = H + <root text>/`, `base_url = H + <root text>/<path text>`,
`url = base_url` followed by `?<query text>` exactly when the query string is not empty. -/
theorem request_url_family {o : UrlOpaque} (laws : HostLaws o)
    (kt : KeepOK Gen.UrlTables.keepPath ∧ KeepOK Gen.UrlTables.keepQuery ∧
      KeepOK Gen.UrlTables.keepFragment ∧ KeepOK Gen.UrlTables.keepUser)
    {scheme ha hu root p qs : Str} {port : Option Nat}
    (ci : CurInput o scheme ha port (rstripSlash root) (utf8Enc qs)) (hconv : o.hostToUnicode ha = some hu)
    (hgh : getHost scheme (hostBr ha ++ portText port) = hostBr ha ++ portText port) :
    requestUrls o (danceEnviron scheme (hostBr ha ++ portText port) root p qs) = .ok
      (scheme ++ "://".toList ++ (hostBr hu ++ portText port)
          ++ unquotePartial Gen.UrlTables.keepPath (curPathText (rstripSlash root) ('/' :: lstripSlash p))
          ++ (if (utf8Enc qs).isEmpty then [] else
                '?' :: unquotePartial Gen.UrlTables.keepQuery (quote Gen.UrlTables.curQuerySafe qs)),
       scheme ++ "://".toList ++ (hostBr hu ++ portText port)
          ++ unquotePartial Gen.UrlTables.keepPath (curPathText (rstripSlash root) ('/' :: lstripSlash p)),
       scheme ++ "://".toList ++ (hostBr hu ++ portText port)
          ++ unquotePartial Gen.UrlTables.keepPath (curPathText (rstripSlash root) []),
       scheme ++ "://".toList ++ (hostBr hu ++ portText port) ++ ['/']) := by
  have ci0 : CurInput o scheme ha port (rstripSlash root) [] :=
    ⟨ci.scheme, ci.host_ne, ci.host_chars, ci.port, ci.bracket, ci.root_form, rfl⟩
  have ci00 : CurInput o scheme ha port [] [] :=
    ⟨ci.scheme, ci.host_ne, ci.host_chars, ci.port, ci.bracket, Or.inl rfl, rfl⟩
  have h1 := getCurrentUrl_text laws kt (path := '/' :: lstripSlash p) ci hconv
  have h2 := getCurrentUrl_text laws kt (path := '/' :: lstripSlash p) ci0 hconv
  have h3 := getCurrentUrl_text laws kt (path := []) ci0 hconv
  have h4 := getCurrentUrl_text laws kt (path := []) ci00 hconv
  have hslash : unquotePartial Gen.UrlTables.keepPath (curPathText [] []) = ['/'] := by decide
  unfold requestUrls danceEnviron
  simp only [dance_roundtrip']
  have hq : Py.latin1Enc (encodingDance qs) = some (utf8Enc qs) := latin1Enc_latin1Dec _
  simp only [hq, hgh, ← getCurrentUrl_eq_opt, getCurrentUrlOpt_root, getCurrentUrlOpt_host, h1, h2, h3, h4,
    hslash]
  simp [quote]

end Wz.Url
