/-
Helper lemmas for C19 (Model/Chunked.lean).
-/
import WzVerif.Model.Chunked
namespace Wz.Chunked
open Wz

/-! ### hexadecimal size lines -/

def toChar (b : UInt8) : Char := Char.ofNat b.toNat

theorem latin1Dec_eq (bs : Bytes) : Py.latin1Dec bs = bs.map toChar := rfl

theorem hexDigit_facts (up : Bool) (d : Nat) (hd : d < 16) :
    hexVal (toChar (hexDigitChar up d)) = some d ∧ Py.isSpace (toChar (hexDigitChar up d)) = false ∧
    (toChar (hexDigitChar up d) == '_') = false ∧ toChar (hexDigitChar up d) ≠ '+' ∧
    toChar (hexDigitChar up d) ≠ '-' ∧ (toChar (hexDigitChar up d) == 'x') = false ∧
    (toChar (hexDigitChar up d) == 'X') = false ∧ hexDigitChar up d ≠ 10 ∧ hexDigitChar up d ≠ 13 := by
  have h1 : ∀ d, d < 16 →
      hexVal (toChar (hexDigitChar true d)) = some d ∧ Py.isSpace (toChar (hexDigitChar true d)) = false ∧
      (toChar (hexDigitChar true d) == '_') = false ∧ toChar (hexDigitChar true d) ≠ '+' ∧
      toChar (hexDigitChar true d) ≠ '-' ∧ (toChar (hexDigitChar true d) == 'x') = false ∧
      (toChar (hexDigitChar true d) == 'X') = false ∧ hexDigitChar true d ≠ 10 ∧ hexDigitChar true d ≠ 13 := by
    decide
  have h2 : ∀ d, d < 16 →
      hexVal (toChar (hexDigitChar false d)) = some d ∧ Py.isSpace (toChar (hexDigitChar false d)) = false ∧
      (toChar (hexDigitChar false d) == '_') = false ∧ toChar (hexDigitChar false d) ≠ '+' ∧
      toChar (hexDigitChar false d) ≠ '-' ∧ (toChar (hexDigitChar false d) == 'x') = false ∧
      (toChar (hexDigitChar false d) == 'X') = false ∧ hexDigitChar false d ≠ 10 ∧ hexDigitChar false d ≠ 13 := by
    decide
  cases up
  · exact h2 d hd
  · exact h1 d hd

theorem hexNums_lt : ∀ (f n : Nat), ∀ d ∈ hexNums f n, d < 16 := by
  intro f
  induction f with
  | zero => intro n d h; simp [hexNums] at h
  | succ f ih =>
    intro n d h
    unfold hexNums at h
    split at h
    · simp only [List.mem_singleton] at h; omega
    · simp only [List.mem_append, List.mem_singleton] at h
      rcases h with h | h
      · exact ih _ d h
      · omega

theorem hexNums_ne_nil (f n : Nat) : hexNums (f + 1) n ≠ [] := by
  unfold hexNums
  split <;> simp

theorem hexNums_value : ∀ (f n : Nat), n < f → (hexNums f n).foldl (fun a d => 16 * a + d) 0 = n := by
  intro f
  induction f with
  | zero => intro n h; omega
  | succ f ih =>
    intro n h
    unfold hexNums
    split
    · simp
    · rename_i h16
      have : n / 16 < f := by omega
      rw [List.foldl_append, ih _ this]
      simp only [List.foldl_cons, List.foldl_nil]
      omega

/-- digits without underscores are read left to right -/
theorem digitsVal_digits (up : Bool) : ∀ (ds : List Nat) (rest : List Char) (acc : Nat),
    (∀ d ∈ ds, d < 16) →
    digitsVal (ds.map (fun d => toChar (hexDigitChar up d)) ++ rest) false acc
      = digitsVal rest false (ds.foldl (fun a d => 16 * a + d) acc) := by
  intro ds
  induction ds with
  | nil => intro rest acc _; rfl
  | cons d ds ih =>
    intro rest acc h
    have hf := hexDigit_facts up d (h d List.mem_cons_self)
    simp only [List.map_cons, List.cons_append, digitsVal, hf.2.2.1, hf.1, Bool.false_eq_true, if_false,
      List.foldl_cons]
    exact ih rest _ (fun x hx => h x (List.mem_cons_of_mem _ hx))

/-- the characters of `"%x" % n` -/
def hexChars (up : Bool) (n : Nat) : List Char := (hexNums (n + 1) n).map (fun d => toChar (hexDigitChar up d))

theorem hexOf_chars (up : Bool) (n : Nat) : (hexOf up n).map toChar = hexChars up n := by
  simp [hexOf, hexChars, List.map_map, Function.comp_def]

theorem hexChars_cons (_up : Bool) (n : Nat) :
    ∃ d ds, d < 16 ∧ (∀ x ∈ ds, x < 16) ∧ hexNums (n + 1) n = d :: ds := by
  have hlt := hexNums_lt (n + 1) n
  cases h : hexNums (n + 1) n with
  | nil => exact absurd h (hexNums_ne_nil n n)
  | cons d ds =>
    rw [h] at hlt
    exact ⟨d, ds, hlt d List.mem_cons_self, fun x hx => hlt x (List.mem_cons_of_mem _ hx), rfl⟩

theorem digitBody_hexChars (up : Bool) (n : Nat) : digitBody (hexChars up n) = some n := by
  obtain ⟨d, ds, hd, hds, he⟩ := hexChars_cons up n
  have hval := hexNums_value (n + 1) n (by omega)
  have hall : ∀ x ∈ hexNums (n + 1) n, x < 16 := hexNums_lt _ _
  have key := digitsVal_digits up (hexNums (n + 1) n) [] 0 hall
  simp only [List.append_nil, hval, digitsVal] at key
  unfold hexChars
  rw [he] at key ⊢
  have hf := hexDigit_facts up d hd
  simp only [List.map_cons] at key ⊢
  unfold digitBody
  split
  · rename_i h; simp at h
  · rename_i h
    simp only [List.cons.injEq] at h
    have := hf.2.2.1
    rw [h.1] at this
    simp at this
  · simpa using key

theorem unsignedVal_hexChars (up : Bool) (n : Nat) : unsignedVal (hexChars up n) = some n := by
  have hb := digitBody_hexChars up n
  obtain ⟨d, ds, hd, hds, he⟩ := hexChars_cons up n
  unfold unsignedVal
  split
  · rename_i x rest h
    -- the second character is a hex digit, never `x` / `X`
    unfold hexChars at h
    rw [he] at h
    cases ds with
    | nil => simp at h
    | cons d2 ds2 =>
      simp only [List.map_cons, List.cons.injEq] at h
      have hf := hexDigit_facts up d2 (hds d2 List.mem_cons_self)
      have hx : (x == 'x' || x == 'X') = false := by
        rw [← h.2.1]; simp [hf.2.2.2.2.2.1, hf.2.2.2.2.2.2.1]
      simp only [hx, Bool.false_eq_true, if_false]
      exact hb
  · exact hb

theorem strip_hexChars (up : Bool) (n : Nat) (t : Term) :
    Py.strip (hexChars up n ++ t.bytes.map toChar) = hexChars up n := by
  obtain ⟨d, ds, hd, hds, he⟩ := hexChars_cons up n
  have hns : ∀ c ∈ hexChars up n, Py.isSpace c = false := by
    intro c hc
    unfold hexChars at hc
    simp only [List.mem_map] at hc
    obtain ⟨x, hx, rfl⟩ := hc
    exact (hexDigit_facts up x (hexNums_lt _ _ x hx)).2.1
  have hne : hexChars up n ≠ [] := by unfold hexChars; rw [he]; simp
  -- leading: the first character is not a space
  have hhead : (hexChars up n ++ t.bytes.map toChar).dropWhile Py.isSpace = hexChars up n ++ t.bytes.map toChar := by
    cases hh : hexChars up n with
    | nil => exact absurd hh hne
    | cons c cs =>
      have : Py.isSpace c = false := hns c (by rw [hh]; exact List.mem_cons_self)
      simp [this]
  unfold Py.strip
  rw [hhead]
  unfold Py.rstripBy
  -- trailing: the terminator is whitespace, the last hex digit is not
  have hrev : (hexChars up n).reverse ≠ [] := by simpa using hne
  cases hr : (hexChars up n).reverse with
  | nil => exact absurd hr hrev
  | cons c cs =>
    have hc : Py.isSpace c = false := hns c (by
      have : c ∈ (hexChars up n).reverse := by rw [hr]; exact List.mem_cons_self
      simpa using this)
    have hback : hexChars up n = (c :: cs).reverse := by rw [← hr]; simp
    cases t with
    | crlf =>
      have e : (Term.crlf.bytes.map toChar) = ['\r', '\n'] := by decide
      rw [e, List.reverse_append, hr]
      simp only [List.reverse_cons, List.reverse_nil, List.nil_append, List.cons_append, List.dropWhile]
      have h1 : Py.isSpace '\n' = true := by decide
      have h2 : Py.isSpace '\r' = true := by decide
      simp only [h1, h2, hc, hback]
    | lf =>
      have e : (Term.lf.bytes.map toChar) = ['\n'] := by decide
      rw [e, List.reverse_append, hr]
      simp only [List.reverse_cons, List.reverse_nil, List.nil_append, List.cons_append, List.dropWhile]
      have h1 : Py.isSpace '\n' = true := by decide
      simp only [h1, hc, hback]

theorem pyInt16_hexLine (up : Bool) (n : Nat) (t : Term) :
    pyInt16 (Py.latin1Dec (hexOf up n ++ t.bytes)) = some (Int.ofNat n) := by
  rw [latin1Dec_eq, List.map_append, hexOf_chars]
  unfold pyInt16
  rw [strip_hexChars]
  have hu := unsignedVal_hexChars up n
  obtain ⟨d, ds, hd, hds, he⟩ := hexChars_cons up n
  have hf := hexDigit_facts up d hd
  split
  · rename_i tl h
    unfold hexChars at h; rw [he] at h
    simp only [List.map_cons, List.cons.injEq] at h
    exact absurd h.1 hf.2.2.2.1
  · rename_i tl h
    unfold hexChars at h; rw [he] at h
    simp only [List.map_cons, List.cons.injEq] at h
    exact absurd h.1 hf.2.2.2.2.1
  · simp [hu]

/-- **size lines round-trip**: the size line a client writes for a chunk of `n` bytes — lower or
upper case hex, CRLF or bare LF — is read back as `n` -/
theorem chunkLenOf_hexLine (up : Bool) (n : Nat) (t : Term) :
    chunkLenOf (hexOf up n ++ t.bytes) = .ok n := by
  unfold chunkLenOf
  rw [pyInt16_hexLine]
  simp

/-! ### readline -/

theorem readline_lf : ∀ (a b : Bytes), (∀ x ∈ a, x ≠ 10) → readline (a ++ 10 :: b) = (a ++ [10], b) := by
  intro a
  induction a with
  | nil => intro b _; simp [readline]
  | cons x a ih =>
    intro b h
    have hx : (x == 10) = false := by simpa using h x List.mem_cons_self
    simp only [List.cons_append, readline, hx, Bool.false_eq_true, if_false]
    rw [ih b (fun y hy => h y (List.mem_cons_of_mem _ hy))]

theorem readline_term (t : Term) (a b : Bytes) (h : ∀ x ∈ a, x ≠ 10) :
    readline (a ++ t.bytes ++ b) = (a ++ t.bytes, b) := by
  cases t with
  | lf =>
    have := readline_lf a b h
    simpa [Term.bytes] using this
  | crlf =>
    have := readline_lf (a ++ [13]) b (by
      intro x hx
      simp only [List.mem_append, List.mem_singleton] at hx
      rcases hx with hx | hx
      · exact h x hx
      · rw [hx]; decide)
    simpa [Term.bytes] using this

theorem hexOf_no_lf (up : Bool) (n : Nat) : ∀ x ∈ hexOf up n, x ≠ 10 := by
  intro x hx
  unfold hexOf at hx
  simp only [List.mem_map] at hx
  obtain ⟨d, hd, rfl⟩ := hx
  exact (hexDigit_facts up d (hexNums_lt _ _ d hd)).2.2.2.2.2.2.2.1

theorem isTerminator_term (t : Term) : isTerminator t.bytes = true := by
  cases t <;> decide

theorem readline_term_only (t : Term) (b : Bytes) : readline (t.bytes ++ b) = (t.bytes, b) := by
  have := readline_term t [] b (by simp)
  simpa using this

/-! ### the round trip -/

/-- the chunks (data, terminator style, hex case) of an encoded body carry this payload -/
def payload (chunks : List (Bytes × Term × Bool)) : Bytes := chunks.flatMap (·.1)

/-- how `DechunkedInput` stands relative to an encoded body: `P` is the payload still to be
delivered (`tf` / `tail`: terminator of the zero chunk / whatever follows the body on the wire) -/
inductive Rep (tf : Term) (tail : Bytes) : DState → Bytes → Prop
  | start (rest : List (Bytes × Term × Bool)) (hne : ∀ c ∈ rest, c.1 ≠ []) :
      Rep tf tail { len := 0, done := false, wire := encode rest tf ++ tail } (payload rest)
  | mid (cur : Bytes) (t : Term) (rest : List (Bytes × Term × Bool)) (hcur : cur ≠ [])
      (hne : ∀ c ∈ rest, c.1 ≠ []) :
      Rep tf tail { len := cur.length, done := false, wire := cur ++ t.bytes ++ (encode rest tf ++ tail) }
        (cur ++ payload rest)
  | fin : Rep tf tail { len := 0, done := true, wire := tail } []

/-- the copy + terminator phase inside a chunk of which `cur` is still to come -/
theorem afterHeader_mid (k : DState → Bytes → Res × DState) (cur : Bytes) (t : Term) (W : Bytes)
    (size : Nat) (acc : Bytes) (hcur : cur ≠ []) :
    afterHeader k { len := cur.length, done := false, wire := cur ++ t.bytes ++ W } size acc =
      if size - acc.length < cur.length then
        k { len := cur.length - (size - acc.length), done := false,
            wire := cur.drop (size - acc.length) ++ t.bytes ++ W } (acc ++ cur.take (size - acc.length))
      else k { len := 0, done := false, wire := W } (acc ++ cur) := by
  unfold afterHeader
  have hpos : 0 < cur.length := List.length_pos_iff.mpr hcur
  by_cases hlt : size - acc.length < cur.length
  · have hn : min (size - acc.length) cur.length = size - acc.length := by omega
    simp only [hn, hlt, if_true]
    have htake : (cur ++ t.bytes ++ W).take (size - acc.length) = cur.take (size - acc.length) := by
      rw [List.append_assoc, List.take_append_of_le_length (by omega)]
    have hdrop : (cur ++ t.bytes ++ W).drop (size - acc.length) = cur.drop (size - acc.length) ++ t.bytes ++ W := by
      rw [List.append_assoc, List.drop_append_of_le_length (by omega), List.append_assoc]
    have hlen : (cur.take (size - acc.length)).length = size - acc.length := by
      rw [List.length_take]; omega
    simp only [htake, hdrop, hlen, bne_self_eq_false, Bool.false_eq_true, if_false]
    have hne0 : (cur.length - (size - acc.length) == 0) = false := by
      simp only [beq_eq_false_iff_ne, ne_eq]; omega
    simp only [hne0, Bool.false_eq_true, if_false]
  · have hn : min (size - acc.length) cur.length = cur.length := by omega
    simp only [hn, hlt, if_false]
    have htake : (cur ++ t.bytes ++ W).take cur.length = cur := by
      rw [List.append_assoc, List.take_left']
      rfl
    have hdrop : (cur ++ t.bytes ++ W).drop cur.length = t.bytes ++ W := by
      rw [List.append_assoc, List.drop_left']
      rfl
    simp only [htake, hdrop, bne_self_eq_false, Bool.false_eq_true, if_false, Nat.sub_self, beq_self_eq_true,
      if_true, readline_term_only, isTerminator_term]

/-- what the loop promises from a state that represents payload `P` -/
def LoopSpec (tf : Term) (tail : Bytes) (f : Nat) : Prop :=
  ∀ (st : DState) (P : Bytes) (size : Nat) (acc : Bytes), Rep tf tail st P → acc.length ≤ size →
    st.wire.length < f →
    ∃ st', readLoop f st size acc = (.ok (acc ++ P.take (size - acc.length)), st') ∧
      Rep tf tail st' (P.drop (size - acc.length))

theorem payload_cons (d : Bytes) (t : Term) (up : Bool) (rest : List (Bytes × Term × Bool)) :
    payload ((d, t, up) :: rest) = d ++ payload rest := by
  simp [payload]

theorem mid_step (tf : Term) (tail : Bytes) (f : Nat) (ih : LoopSpec tf tail f)
    (cur : Bytes) (t : Term) (rest : List (Bytes × Term × Bool)) (hcur : cur ≠ [])
    (hne : ∀ c ∈ rest, c.1 ≠ []) (size : Nat) (acc : Bytes) (hacc : acc.length < size)
    (hf : (cur ++ t.bytes ++ (encode rest tf ++ tail)).length ≤ f) :
    ∃ st', afterHeader (fun s a => readLoop f s size a)
        { len := cur.length, done := false, wire := cur ++ t.bytes ++ (encode rest tf ++ tail) } size acc
        = (.ok (acc ++ (cur ++ payload rest).take (size - acc.length)), st') ∧
      Rep tf tail st' ((cur ++ payload rest).drop (size - acc.length)) := by
  rw [afterHeader_mid _ cur t _ size acc hcur]
  by_cases hlt : size - acc.length < cur.length
  · simp only [hlt, if_true]
    have hdne : cur.drop (size - acc.length) ≠ [] := by
      intro h
      have := congrArg List.length h
      simp at this; omega
    have hrep := Rep.mid (tf := tf) (tail := tail) (cur.drop (size - acc.length)) t rest hdne hne
    have hl : (cur.drop (size - acc.length)).length = cur.length - (size - acc.length) := by simp
    rw [hl] at hrep
    have hacc' : (acc ++ cur.take (size - acc.length)).length = size := by
      rw [List.length_append, List.length_take]; omega
    obtain ⟨st', h1, h2⟩ := ih _ _ size (acc ++ cur.take (size - acc.length)) hrep (by omega) (by
      simp only [List.length_append, List.length_drop] at hf ⊢; omega)
    refine ⟨st', ?_, ?_⟩
    · rw [h1, hacc']
      simp only [Nat.sub_self, List.take_zero, List.append_nil]
      rw [List.take_append_of_le_length (by omega)]
    · rw [hacc'] at h2
      simp only [Nat.sub_self, List.drop_zero] at h2
      rw [List.drop_append_of_le_length (by omega)]
      exact h2
  · simp only [hlt, if_false]
    have hrep := Rep.start (tf := tf) (tail := tail) rest hne
    obtain ⟨st', h1, h2⟩ := ih _ _ size (acc ++ cur) hrep (by rw [List.length_append]; omega) (by
      have hpos : 0 < cur.length := List.length_pos_iff.mpr hcur
      simp only [List.length_append] at hf ⊢; omega)
    have e1 : (cur ++ payload rest).take (size - acc.length)
        = cur ++ (payload rest).take (size - (acc ++ cur).length) := by
      rw [List.take_append, List.take_of_length_le (by omega), List.length_append]
      congr 2; omega
    have e2 : (cur ++ payload rest).drop (size - acc.length)
        = (payload rest).drop (size - (acc ++ cur).length) := by
      rw [List.drop_append, List.drop_of_length_le (by omega), List.length_append, List.nil_append]
      congr 1; omega
    exact ⟨st', by rw [h1, e1, List.append_assoc], by rw [e2]; exact h2⟩

theorem hexOf_zero (up : Bool) : hexOf up 0 = [48] := by cases up <;> decide

theorem readLoop_rep (tf : Term) (tail : Bytes) : ∀ f, LoopSpec tf tail f := by
  intro f
  induction f with
  | zero => intro st P size acc _ _ h; omega
  | succ f ih =>
    intro st P size acc hrep hacc hfuel
    unfold readLoop
    cases hrep with
    | fin =>
      simp only [Bool.true_or, if_true]
      exact ⟨{ len := 0, done := true, wire := tail }, by simp, by rw [List.drop_nil]; exact Rep.fin⟩
    | start rest hne =>
      by_cases hsz : size ≤ acc.length
      · simp only [hsz, decide_true, Bool.or_true, if_true]
        have : size - acc.length = 0 := by omega
        exact ⟨{ len := 0, done := false, wire := encode rest tf ++ tail }, by simp [this],
          by rw [this]; exact Rep.start rest hne⟩
      · simp only [hsz, decide_false, Bool.or_false, Bool.false_eq_true, if_false]
        cases rest with
        | nil =>
          have hw : encode [] tf ++ tail = hexOf false 0 ++ tf.bytes ++ (tf.bytes ++ tail) := by
            simp [encode, hexOf_zero]
          have hrl := readline_term tf (hexOf false 0) (tf.bytes ++ tail) (hexOf_no_lf false 0)
          have hcl := chunkLenOf_hexLine false 0 tf
          simp only [readHeader, beq_self_eq_true, if_true, hw, hrl, hcl, markDone]
          unfold afterHeader
          simp only [Nat.min_zero, List.take_zero, List.length_nil, bne_self_eq_false, Bool.false_eq_true,
            if_false, Nat.sub_self, beq_self_eq_true, if_true, List.drop_zero, readline_term_only,
            isTerminator_term, List.append_nil]
          have hlen : tail.length < f := by
            have hfuel : (encode [] tf ++ tail).length < f + 1 := hfuel
            rw [hw] at hfuel
            simp only [List.length_append, hexOf_zero, List.length_cons, List.length_nil] at hfuel
            omega
          obtain ⟨st', h1, h2⟩ := ih _ _ size acc (Rep.fin (tf := tf) (tail := tail)) hacc hlen
          exact ⟨st', by simpa [payload] using h1, by simpa [payload] using h2⟩
        | cons c rest' =>
          obtain ⟨d, t, up⟩ := c
          have hd : d ≠ [] := hne (d, t, up) List.mem_cons_self
          have hne' : ∀ c ∈ rest', c.1 ≠ [] := fun c hc => hne c (List.mem_cons_of_mem _ hc)
          have hw : encode ((d, t, up) :: rest') tf ++ tail
              = hexOf up d.length ++ t.bytes ++ (d ++ t.bytes ++ (encode rest' tf ++ tail)) := by
            simp [encode, encodeChunk, List.append_assoc]
          have hrl := readline_term t (hexOf up d.length) (d ++ t.bytes ++ (encode rest' tf ++ tail))
            (hexOf_no_lf up d.length)
          have hcl := chunkLenOf_hexLine up d.length t
          have hdl : (d.length == 0) = false := by
            simp only [beq_eq_false_iff_ne, ne_eq]
            exact fun h => hd (List.length_eq_zero_iff.mp h)
          simp only [readHeader, beq_self_eq_true, if_true, hw, hrl, hcl, markDone, hdl, Bool.false_eq_true,
            if_false]
          have hf : (d ++ t.bytes ++ (encode rest' tf ++ tail)).length ≤ f := by
            have hfuel : (encode ((d, t, up) :: rest') tf ++ tail).length < f + 1 := hfuel
            rw [hw] at hfuel
            simp only [List.length_append] at hfuel ⊢
            omega
          have := mid_step tf tail f ih d t rest' hd hne' size acc (by omega) hf
          rw [payload_cons]
          exact this
    | mid cur t rest hcur hne =>
      by_cases hsz : size ≤ acc.length
      · simp only [hsz, decide_true, Bool.or_true, if_true]
        have : size - acc.length = 0 := by omega
        exact ⟨{ len := cur.length, done := false, wire := cur ++ t.bytes ++ (encode rest tf ++ tail) },
          by simp [this], by rw [this]; exact Rep.mid cur t rest hcur hne⟩
      · simp only [hsz, decide_false, Bool.or_false, Bool.false_eq_true, if_false]
        have hcl : (cur.length == 0) = false := by
          simp only [beq_eq_false_iff_ne, ne_eq]
          exact fun h => hcur (List.length_eq_zero_iff.mp h)
        simp only [readHeader, hcl, Bool.false_eq_true, if_false, markDone]
        have hfuel' : (cur ++ t.bytes ++ (encode rest tf ++ tail)).length < f + 1 := hfuel
        exact mid_step tf tail f ih cur t rest hcur hne size acc (by omega) (by omega)

/-- one `readinto(size)` on a body that still owes payload `P` returns exactly the next
`min size |P|` bytes of `P` -/
theorem readinto_rep (tf : Term) (tail : Bytes) (st : DState) (P : Bytes) (size : Nat)
    (h : Rep tf tail st P) :
    ∃ st', readinto st size = (.ok (P.take size), st') ∧ Rep tf tail st' (P.drop size) := by
  obtain ⟨st', h1, h2⟩ := readLoop_rep tf tail (st.wire.length + 1) st P size [] h (by simp) (by omega)
  exact ⟨st', by simpa [readinto] using h1, by simpa using h2⟩

/-- reading from `BytesIO(P)` with the given sizes -/
def slices (P : Bytes) : List Nat → List Bytes
  | [] => []
  | n :: ns => P.take n :: slices (P.drop n) ns

theorem readMany_rep (tf : Term) (tail : Bytes) : ∀ (sizes : List Nat) (st : DState) (P : Bytes),
    Rep tf tail st P → (readMany st sizes).1 = (slices P sizes).map .ok := by
  intro sizes
  induction sizes with
  | nil => intro st P _; rfl
  | cons n ns ih =>
    intro st P h
    obtain ⟨st', h1, h2⟩ := readinto_rep tf tail st P n h
    simp only [readMany, h1, slices, List.map_cons]
    rw [ih st' _ h2]

theorem slices_flatten : ∀ (sizes : List Nat) (P : Bytes), (slices P sizes).flatten = P.take sizes.sum := by
  intro sizes
  induction sizes with
  | nil => intro P; simp [slices]
  | cons n ns ih =>
    intro P
    simp only [slices, List.flatten_cons, ih, List.sum_cons]
    rw [List.take_add]

/-! ### every wire: only OSError, only received bytes, EOF only after a final chunk -/

theorem readline_split : ∀ (w : Bytes), (readline w).1 ++ (readline w).2 = w := by
  intro w
  induction w with
  | nil => rfl
  | cons b t ih =>
    unfold readline
    by_cases hb : (b == 10) = true
    · simp [hb]
    · simp only [hb, Bool.false_eq_true, if_false, List.cons_append, ih]

theorem chunkLenOf_error {line : Bytes} {e : String} (h : chunkLenOf line = .error e) : e = "OSError" := by
  unfold chunkLenOf at h
  split at h
  · simp only [Except.error.injEq] at h; exact h.symm
  · split at h
    · simp only [Except.error.injEq] at h; exact h.symm
    · simp at h

theorem chunkLenOf_nil : chunkLenOf [] = .error "OSError" := by rfl

theorem isTerminator_ne_nil {l : Bytes} (h : isTerminator l = true) : l ≠ [] := by
  intro he; subst he; simp [isTerminator] at h

/-- `readHeader` either fails with OSError or consumes one non-empty size line (when `_len = 0`) -/
theorem readHeader_cases (st : DState) :
    (∃ e, readHeader st = .error e ∧ e = "OSError" ∧ st.len = 0) ∨
    (∃ st1 L, readHeader st = .ok st1 ∧ st.wire = L ++ st1.wire ∧ st1.done = st.done ∧
      ((st.len = 0 ∧ L ≠ [] ∧ chunkLenOf L = .ok st1.len) ∨ (st.len ≠ 0 ∧ st1 = st ∧ L = []))) := by
  unfold readHeader
  by_cases h0 : st.len = 0
  · simp only [h0, beq_self_eq_true, if_true]
    cases hc : chunkLenOf (readline st.wire).1 with
    | error e => exact Or.inl ⟨e, rfl, chunkLenOf_error hc, trivial⟩
    | ok n =>
      right
      refine ⟨_, (readline st.wire).1, rfl, (readline_split st.wire).symm, rfl, Or.inl ⟨trivial, ?_, hc⟩⟩
      intro he
      rw [he, chunkLenOf_nil] at hc
      cases hc
  · have : (st.len == 0) = false := by simpa using h0
    simp only [this, Bool.false_eq_true, if_false]
    exact Or.inr ⟨st, [], rfl, by simp, rfl, Or.inr ⟨h0, rfl, rfl⟩⟩

/-- the copy / terminator phase either fails with OSError or hands `k` a state that is strictly
further along the wire, having copied a piece `D` of the wire -/
theorem afterHeader_cases (k : DState → Bytes → Res × DState) (st : DState) (size : Nat) (acc : Bytes) :
    (∃ st_e pre, afterHeader k st size acc = (.error "OSError", st_e) ∧ st.wire = pre ++ st_e.wire ∧
      st_e.done = st.done) ∨
    (∃ st_n D T, afterHeader k st size acc = k st_n (acc ++ D) ∧ st.wire = D ++ T ++ st_n.wire ∧
      st_n.done = st.done ∧ D.length = min (size - acc.length) st.len ∧
      (st.len ≤ size - acc.length → T ≠ [])) := by
  unfold afterHeader
  by_cases hshort : ((st.wire.take (min (size - acc.length) st.len)).length != min (size - acc.length) st.len) = true
  · simp only [hshort, if_true]
    exact Or.inl ⟨_, st.wire.take (min (size - acc.length) st.len), rfl, by simp, rfl⟩
  · simp only [hshort, Bool.false_eq_true, if_false]
    have hlen : (st.wire.take (min (size - acc.length) st.len)).length = min (size - acc.length) st.len := by
      simpa using hshort
    by_cases hz : (st.len - min (size - acc.length) st.len == 0) = true
    · simp only [hz, if_true]
      by_cases ht : isTerminator (readline (st.wire.drop (min (size - acc.length) st.len))).1 = true
      · simp only [ht, if_true]
        right
        refine ⟨_, st.wire.take (min (size - acc.length) st.len),
          (readline (st.wire.drop (min (size - acc.length) st.len))).1, rfl, ?_, rfl, hlen,
          fun _ => isTerminator_ne_nil ht⟩
        simp only [List.append_assoc, readline_split, List.take_append_drop]
      · simp only [ht, Bool.false_eq_true, if_false]
        left
        refine ⟨_, st.wire.take (min (size - acc.length) st.len)
          ++ (readline (st.wire.drop (min (size - acc.length) st.len))).1, rfl, ?_, rfl⟩
        simp only [List.append_assoc, readline_split, List.take_append_drop]
    · simp only [hz, Bool.false_eq_true, if_false]
      right
      refine ⟨_, st.wire.take (min (size - acc.length) st.len), [], rfl, by simp, rfl, hlen, ?_⟩
      intro hle
      exfalso
      apply hz
      simp only [beq_iff_eq]
      omega

/-- summary of one `readLoop` run on an arbitrary wire -/
structure LoopFacts (st : DState) (acc : Bytes) (size : Nat) (r : Res) (st' : DState) : Prop where
  /-- only OSError escapes -/
  err : ∀ e, r = .error e → e = "OSError"
  /-- the wire is consumed from the front; what is delivered was copied from the consumed part, in order -/
  prov : ∃ pre, st.wire = pre ++ st'.wire ∧ ∀ out, r = .ok out → ∃ d, out = acc ++ d ∧ d.Sublist pre
  /-- never more than asked -/
  le : ∀ out, r = .ok out → acc.length ≤ size → out.length ≤ size
  /-- a short result means the final chunk has been seen -/
  eof : ∀ out, r = .ok out → out.length < size → st'.done = true
  /-- `_done` is only ever set after a size line that reads as 0 -/
  fin : st'.done = true → st.done = true ∨ ∃ a line b, st.wire = a ++ line ++ b ∧ chunkLenOf line = .ok 0

theorem readLoop_facts : ∀ (f : Nat) (st : DState) (size : Nat) (acc : Bytes), st.wire.length < f →
    LoopFacts st acc size (readLoop f st size acc).1 (readLoop f st size acc).2 := by
  intro f
  induction f with
  | zero => intro st size acc h; omega
  | succ f ih =>
    intro st size acc hfuel
    unfold readLoop
    by_cases hstop : (st.done || decide (size ≤ acc.length)) = true
    · simp only [hstop, if_true]
      refine ⟨by simp, ⟨[], by simp, fun out h => ⟨[], by simpa using h.symm, List.Sublist.refl _⟩⟩, ?_, ?_,
        fun h => Or.inl h⟩
      · intro out h _; simp only [Except.ok.injEq] at h; subst h; simp at hstop; omega
      · intro out h hlt
        simp only [Except.ok.injEq] at h; subst h
        simp only [Bool.or_eq_true, decide_eq_true_eq] at hstop
        rcases hstop with h | h
        · exact h
        · omega
    · simp only [hstop, Bool.false_eq_true, if_false]
      simp only [Bool.or_eq_true, decide_eq_true_eq, not_or, Bool.not_eq_true] at hstop
      obtain ⟨hnd, hsz⟩ := hstop
      rcases readHeader_cases st with ⟨e, he, hee, _⟩ | ⟨st1, L, he, hw1, hd1, hcase⟩
      · simp only [he]
        refine ⟨fun e' h => by simp only [Except.error.injEq] at h; rw [← h, hee],
          ⟨(readline st.wire).1, (readline_split st.wire).symm, by simp⟩, by simp, by simp, ?_⟩
        intro h; simp only at h; exact Or.inl h
      · simp only [he]
        -- the state after the header and `markDone`
        have hmd_wire : (markDone st1).wire = st1.wire := by unfold markDone; split <;> rfl
        have hmd_len : (markDone st1).len = st1.len := by unfold markDone; split <;> rfl
        have hfin0 : (markDone st1).done = true →
            st.done = true ∨ ∃ a line b, st.wire = a ++ line ++ b ∧ chunkLenOf line = .ok 0 := by
          intro h
          unfold markDone at h
          split at h
          · rename_i hl0
            have hl0 : st1.len = 0 := by simpa using hl0
            rcases hcase with ⟨_, _, hc⟩ | ⟨hne, hst, _⟩
            · exact Or.inr ⟨[], L, st1.wire, by simpa using hw1, by rw [hc, hl0]⟩
            · rw [hst] at hl0; exact absurd hl0 hne
          · rw [hd1] at h; exact Or.inl h
        rcases afterHeader_cases (fun s a => readLoop f s size a) (markDone st1) size acc with
          ⟨st_e, pre, hr, hw2, hde⟩ | ⟨st_n, D, T, hr, hw2, hdn, hDlen, hT⟩
        · rw [hr]
          refine ⟨by simp, ⟨L ++ pre, by rw [hw1, ← hmd_wire, hw2, List.append_assoc], by simp⟩, by simp,
            by simp, ?_⟩
          intro h
          exact hfin0 (by rw [← hde]; exact h)
        · rw [hr]
          have hwire : st.wire = L ++ D ++ T ++ st_n.wire := by
            rw [hw1, ← hmd_wire, hw2]; simp [List.append_assoc]
          have hprog : 0 < L.length + D.length + T.length := by
            rcases hcase with ⟨_, hL, _⟩ | ⟨hne, hst, _⟩
            · have := List.length_pos_iff.mpr hL; omega
            · rw [hmd_len, hst] at hDlen
              omega
          have hfuel' : st_n.wire.length < f := by
            have := congrArg List.length hwire
            simp only [List.length_append] at this
            omega
          have hrec := ih st_n size (acc ++ D) hfuel'
          have hDle : D.length ≤ size - acc.length := by rw [hDlen]; exact Nat.min_le_left ..
          refine ⟨hrec.err, ?_, ?_, hrec.eof, ?_⟩
          · obtain ⟨pre', hp1, hp2⟩ := hrec.prov
            refine ⟨L ++ D ++ T ++ pre', by rw [hwire, hp1]; simp [List.append_assoc], ?_⟩
            intro out ho
            obtain ⟨d', hd1', hd2'⟩ := hp2 out ho
            refine ⟨D ++ d', by rw [hd1', List.append_assoc], ?_⟩
            have h1 : (D ++ d').Sublist (D ++ (T ++ pre')) :=
              List.Sublist.append (List.Sublist.refl D) (hd2'.trans (List.sublist_append_right T pre'))
            have h2 : (D ++ (T ++ pre')).Sublist (L ++ (D ++ (T ++ pre'))) := List.sublist_append_right L _
            simpa [List.append_assoc] using h1.trans h2
          · intro out ho _
            exact hrec.le out ho (by rw [List.length_append]; omega)
          · intro h
            rcases hrec.fin h with h' | ⟨a, line, b, hw3, hz⟩
            · exact hfin0 (by rw [← hdn]; exact h')
            · exact Or.inr ⟨L ++ D ++ T ++ a, line, b, by rw [hwire, hw3]; simp [List.append_assoc], hz⟩

/-- `readinto` on an arbitrary state (any wire, well-formed or not) -/
theorem readinto_facts (st : DState) (size : Nat) :
    LoopFacts st [] size (readinto st size).1 (readinto st size).2 :=
  readLoop_facts (st.wire.length + 1) st size [] (by omega)

/-! ### header folding -/

theorem Env.get_set_same : ∀ (env : Env) (k v : Str), (env.set k v).get k = some v := by
  intro env
  induction env with
  | nil => intro k v; simp [Env.set, Env.get]
  | cons p rest ih =>
    intro k v
    obtain ⟨k', v'⟩ := p
    unfold Env.set
    by_cases h : (k' == k) = true
    · simp [h, Env.get]
    · simp only [h, Bool.false_eq_true, if_false]
      have := ih k v
      simp only [Env.get, List.find?_cons, h] at this ⊢
      exact this

theorem Env.get_set_other : ∀ (env : Env) (k k' v : Str), k' ≠ k → (env.set k v).get k' = env.get k' := by
  intro env
  induction env with
  | nil =>
    intro k k' v h
    have : (k == k') = false := by simpa using fun e => h e.symm
    simp [Env.set, Env.get, this]
  | cons p rest ih =>
    intro k k' v h
    obtain ⟨k0, v0⟩ := p
    unfold Env.set
    by_cases h0 : (k0 == k) = true
    · have e : k0 = k := by simpa using h0
      have : (k0 == k') = false := by rw [e]; simpa using fun x => h x.symm
      simp [h0, Env.get, this]
    · simp only [h0, Bool.false_eq_true, if_false]
      have := ih k k' v h
      by_cases h1 : (k0 == k') = true
      · simp [Env.get, h1]
      · simp only [Env.get, List.find?_cons, h1] at this ⊢
        exact this

/-- the values (with `\r\n` removed) of the dash-named headers whose environ name is `k`, in order -/
def valuesFor (k : Str) (hs : List (Str × Str)) : List Str :=
  (hs.filter fun h => !h.1.contains '_' && envName h.1 == k).map fun h => dropCrlf h.2

/-- comma-joining onto an optional previous value -/
def joinStep (o : Option Str) (v : Str) : Option Str :=
  match o with
  | some x => some (x ++ ',' :: v)
  | none => some v

def joinFrom (o : Option Str) (vs : List Str) : Option Str := vs.foldl joinStep o

theorem joinFrom_some (x : Str) : ∀ vs : List Str, joinFrom (some x) vs = some (x ++ vs.flatMap (fun v => ',' :: v)) := by
  intro vs
  induction vs generalizing x with
  | nil => simp [joinFrom]
  | cons v vs ih =>
    simp only [joinFrom, List.foldl_cons, joinStep] at ih ⊢
    rw [ih]
    simp [List.append_assoc]

theorem http_ne_content (k key : Str) (h : isContentKey key = true) : "HTTP_".toList ++ k ≠ key := by
  intro e
  subst e
  simp [isContentKey] at h

theorem foldl_foldHeader_get (k : Str) (hk : isContentKey k = false) : ∀ (hs : List (Str × Str)) (env : Env),
    (hs.foldl foldHeader env).get ("HTTP_".toList ++ k)
      = joinFrom (env.get ("HTTP_".toList ++ k)) (valuesFor k hs) := by
  intro hs
  induction hs with
  | nil => intro env; rfl
  | cons h t ih =>
    intro env
    simp only [List.foldl_cons]
    rw [ih]
    by_cases hu : h.1.contains '_' = true
    · have hm : '_' ∈ h.1 := by simpa using hu
      simp [foldHeader, hm, valuesFor]
    · have hu' : h.1.contains '_' = false := by simpa using hu
      have hm : '_' ∉ h.1 := by simpa using hu
      by_cases hc : isContentKey (envName h.1) = true
      · have hne : envName h.1 ≠ k := by intro e; rw [e, hk] at hc; cases hc
        have hb : (envName h.1 == k) = false := by simpa using hne
        simp only [foldHeader, hu', Bool.false_eq_true, if_false, hc, if_true]
        rw [Env.get_set_other _ _ _ _ (http_ne_content k _ hc)]
        simp [valuesFor, hm, hb]
      · have hc' : isContentKey (envName h.1) = false := by simpa using hc
        simp only [foldHeader, hu', Bool.false_eq_true, if_false, hc']
        by_cases hkey : envName h.1 = k
        · have hb : (envName h.1 == k) = true := by simpa using hkey
          have hv : valuesFor k (h :: t) = dropCrlf h.2 :: valuesFor k t := by
            simp [valuesFor, hm, hkey]
          rw [hv, hkey]
          cases hg : env.get ("HTTP_".toList ++ k) with
          | none => simp [Env.get_set_same, joinFrom, joinStep]
          | some old => simp [Env.get_set_same, joinFrom, joinStep]
        · have hb : (envName h.1 == k) = false := by simpa using hkey
          have hv : valuesFor k (h :: t) = valuesFor k t := by simp [valuesFor, hm, hkey]
          have hne : "HTTP_".toList ++ k ≠ "HTTP_".toList ++ envName h.1 := by
            intro e; exact hkey (List.append_cancel_left e).symm
          rw [hv]
          cases hg : env.get ("HTTP_".toList ++ envName h.1) with
          | none => simp only; rw [Env.get_set_other _ _ _ _ hne]
          | some old => simp only; rw [Env.get_set_other _ _ _ _ hne]

theorem foldl_foldHeader_filter : ∀ (hs : List (Str × Str)) (env : Env),
    hs.foldl foldHeader env = (hs.filter fun h => !h.1.contains '_').foldl foldHeader env := by
  intro hs
  induction hs with
  | nil => intro env; rfl
  | cons h t ih =>
    intro env
    by_cases hu : h.1.contains '_' = true
    · simp only [List.foldl_cons, List.filter_cons, hu, Bool.not_true, Bool.false_eq_true, if_false]
      rw [← ih]
      have hm : '_' ∈ h.1 := by simpa using hu
      simp [foldHeader, hm]
    · have hu' : h.1.contains '_' = false := by simpa using hu
      simp only [List.foldl_cons, List.filter_cons, hu', Bool.not_false, if_true]
      exact ih _

end Wz.Chunked
