/-
Routing lemmas, part 16 (C04): from the rule level to the map level — when rule `r` admits an input
directly and no other rule of the map admits it in any way (non-overlapping maps), the search returns
`r` with `r`'s groups; converting the groups a rule built gives the built values back.
-/
import WzVerif.Lemmas.RoutingRender3
import WzVerif.Lemmas.RoutingConverge
namespace Wz.Routing

/-- the only rule that admits the input is the one the search returns -/
theorem search_unique {cfg : MapCfg} {specs : List RuleSpec} {m : RMap} (hm : mkMap cfg specs = some m)
    {r : Rule} (hr : r ∈ m.rules) (hbo : r.spec.buildOnly = false) {q : Req} (hok : ruleOK q r = true)
    {input ts : List Str} (hadm : walkVia .direct r.parts input = some ts)
    (hothers : ∀ r' ∈ m.rules, r' ≠ r → ∀ via, walkVia via r'.parts input = none) :
    (dfs q m.root input []).res = .found r ts := by
  have hb := mkMap_built hm
  have hwf : WF m.root := by rw [hb.root_eq]; exact WF.buildRoot _
  have hi : InTrie m.root r.parts r := by rw [hb.root_eq, inTrie_buildRoot]; exact ⟨hr, hbo, rfl⟩
  have hs := dfs_sound q m.root input []
  cases hres : (dfs q m.root input []).res with
  | none =>
    have := dfs_complete q m.root hwf input [] hres r.parts r .direct hi hok (by intro h; cases h)
    rw [hadm] at this; cases this
  | slash =>
    exfalso
    rw [hres] at hs
    obtain ⟨r2, ps, vs', hi2, _, _, hw⟩ := hs
    rw [hb.root_eq, inTrie_buildRoot] at hi2
    obtain ⟨hm2, _, rfl⟩ := hi2
    by_cases h2 : r2 = r
    · subst h2
      have := walkVia_exclusive hw hadm
      cases this
    · rw [hothers r2 hm2 h2 .noslash] at hw; cases hw
  | found r2 vs =>
    rw [hres] at hs
    obtain ⟨_, ps, vs', via, hi2, hv, hw, _⟩ := hs
    rw [hb.root_eq, inTrie_buildRoot] at hi2
    obtain ⟨hm2, _, rfl⟩ := hi2
    by_cases h2 : r2 = r
    · subst h2
      have hvia := walkVia_exclusive hw hadm
      subst hvia
      rw [hadm] at hw
      cases hw
      simp only [List.nil_append] at hv
      rw [hv]
    · rw [hothers r2 hm2 h2 via] at hw; cases hw

/-- a rule whose first literal segment differs from the input's does not admit it in any way
(maps with pairwise distinct literal first segments are non-overlapping) -/
theorem walkVia_none_of_first_literal {ps : List Part} {a b : Part} {c' : Str} {rest : List Part}
    (hparts : ps = a :: b :: .static c' :: rest) (hshape : FinalShape ps)
    (hfa : a.isFinal = false) (hfb : b.isFinal = false)
    {x0 x1 c : Str} {xs : List Str} (hne : c' ≠ c) (via : Via) :
    walkVia via ps (x0 :: x1 :: c :: xs) = none := by
  subst hparts
  cases hw : walkVia via (a :: b :: .static c' :: rest) (x0 :: x1 :: c :: xs) with
  | none => rfl
  | some w =>
    exfalso
    rcases walkVia_cons_inv hw with ⟨_, _, _, hin, _⟩ | ⟨a1, rem1, vs1, hs1, hw1, _⟩
    · cases hin
    · obtain ⟨hrem1, hshape1⟩ := step_nonfinal_rem hfa hshape hs1
      subst hrem1
      rcases walkVia_cons_inv hw1 with ⟨_, _, _, hin, _⟩ | ⟨a2, rem2, vs2, hs2, hw2, _⟩
      · cases hin
      · obtain ⟨hrem2, _⟩ := step_nonfinal_rem hfb hshape1 hs2
        subst hrem2
        rcases walkVia_cons_inv hw2 with ⟨_, _, _, hin, _⟩ | ⟨a3, rem3, vs3, hs3, _, _⟩
        · cases hin
        · simp only [step_static] at hs3
          split at hs3
          · rename_i hc; exact hne (by simpa using hc)
          · cases hs3

/-! ### converting what was built -/

/-- (name, converter) of the variable tokens, in order -/
def tokVars : List Tok → List (Str × Conv)
  | [] => []
  | .var c n :: t => (n, c) :: tokVars t
  | _ :: t => tokVars t

/-- (name, value built from) of the variable tokens, in order -/
def builtPairs (r : Rule) (values : List (Str × Value)) : List Tok → List (Str × Value)
  | [] => []
  | .var _ n :: t =>
    (match buildValue r values n with | some v => [(n, v)] | none => []) ++ builtPairs r values t
  | _ :: t => builtPairs r values t

theorem parseToks_convs : ∀ (toks : List Tok) (p : PState) {parts convs},
    parseToks toks p = some (parts, convs) → convs = pendingConvs p ++ tokVars toks := by
  intro toks
  induction toks with
  | nil =>
    intro p parts convs h
    simp only [parseToks, Option.some.injEq, Prod.mk.injEq] at h
    rw [← h.2]
    simp only [pendingConvs, tokVars, List.append_nil]
    cases p.conv with
    | none => rfl
    | some cn => rfl
  | cons t toks ih =>
    intro p parts convs h
    cases t with
    | lit s =>
      simp only [parseToks] at h
      split at h
      · rename_i hc; have := ih _ h; simpa [pendingConvs, hc, tokVars] using this
      · rename_i cn hc; have := ih _ h; simpa [pendingConvs, hc, tokVars] using this
    | var c n =>
      simp only [parseToks] at h
      split at h
      · cases h
      · rename_i hc
        have := ih _ h
        simpa [pendingConvs, hc, tokVars] using this
    | slash =>
      simp only [parseToks] at h
      split at h
      · have := ih _ h; simpa [pendingConvs, tokVars] using this
      · cases hrec : parseToks toks {} with
        | none => simp [hrec] at h
        | some pc =>
          obtain ⟨parts', convs'⟩ := pc
          simp only [hrec, Option.some.injEq, Prod.mk.injEq] at h
          have := ih {} hrec
          simp only [pendingConvs, List.nil_append] at this
          rw [← h.2, this]
          simp only [pendingConvs, tokVars]
          cases p.conv with
          | none => rfl
          | some cn => rfl

/-- every variable of the tokens resolves (by name) to its own converter and round-trips:
`to_python(unquote(to_url(v))) = v` for the value it is built from (the converters' canonical domain,
`C04.toPython_toUrl_*`) -/
def VarsRoundTrip (r : Rule) (values : List (Str × Value)) : List Tok → Prop
  | [] => True
  | .var c n :: t =>
    (lookupConv n r.convs = some c ∧
      ∀ v s, buildValue r values n = some v → toUrl c v = .ok s → toPython c (unquote s) = some v) ∧
    VarsRoundTrip r values t
  | _ :: t => VarsRoundTrip r values t

theorem convert_built (r : Rule) (values : List (Str × Value)) : ∀ (toks : List Tok) {ts : List Str},
    valueTexts r values toks = some ts → VarsRoundTrip r values toks →
    convertValues (tokVars toks) ts = some (builtPairs r values toks) := by
  intro toks
  induction toks with
  | nil =>
    intro ts h _
    simp only [valueTexts, Option.some.injEq] at h
    subst h
    simp [tokVars, convertValues, builtPairs]
  | cons t toks ih =>
    intro ts h hrt
    cases t with
    | slash => exact ih h hrt
    | lit s => exact ih h hrt
    | var c n =>
      simp only [VarsRoundTrip] at hrt
      obtain ⟨⟨hlc, hround⟩, hrt'⟩ := hrt
      simp only [valueTexts, hlc] at h
      cases hbv : buildValue r values n with
      | none => simp [hbv] at h
      | some v =>
        simp only [hbv] at h
        cases hu : toUrl c v with
        | error e => simp [hu] at h
        | ok s =>
          simp only [hu, Option.map_eq_some_iff] at h
          obtain ⟨ts', hts', rfl⟩ := h
          simp only [tokVars, convertValues, hround v s hbv hu, ih hts' hrt', builtPairs, hbv, Option.map_some,
            List.singleton_append]

end Wz.Routing

namespace Wz.Routing

/-- a rule bound without subdomain / host rule: empty static domain part, then the parsed path -/
theorem bindRule_nodomain {cfg : MapCfg} {i : Nat} {s : RuleSpec} {r : Rule} (h : bindRule cfg i s = some r)
    (hdom : (if cfg.hostMatching then s.domain.getD [] else s.domain.getD cfg.defaultSubdomain) = []) :
    ∃ pp pc, r.parts = .static [] :: pp ∧ parseRule r.pathToks = some (pp, pc) ∧ r.convs = pc := by
  simp only [bindRule, hdom, List.isEmpty_nil, if_true] at h
  split at h
  · rename_i dp dc pp pc hd hpath
    cases h
    cases hd
    exact ⟨pp, pc, rfl, hpath, rfl⟩
  · cases h

theorem mem_insertRule {x y : Rule} {l : List Rule} : y ∈ insertRule x l ↔ y = x ∨ y ∈ l := by
  induction l with
  | nil => simp [insertRule]
  | cons z t ih =>
    simp only [insertRule]
    split
    · simp only [List.mem_cons, ih]
      constructor
      · rintro (h | h | h)
        · exact .inr (.inl h)
        · exact .inl h
        · exact .inr (.inr h)
      · rintro (h | h | h)
        · exact .inr (.inl h)
        · exact .inl h
        · exact .inr (.inr h)
    · simp

theorem mem_sortRules {y : Rule} {l : List Rule} : y ∈ sortRules l ↔ y ∈ l := by
  induction l with
  | nil => simp [sortRules]
  | cons x t ih => simp [sortRules, mem_insertRule, ih]

/-- without host matching `_partial_build` returns the URL of the first suitable rule -/
theorem partialBuild1_some {cfg : MapCfg} {a : Adapter} {values : List (Str × Value)} {method : Option Str} {au : Bool}
    (hhm : cfg.hostMatching = false) : ∀ {cands : List Rule} {d u : Str} {w : Bool},
    partialBuild1 cfg a cands values method au none = .ok (some (d, u, w)) →
    ∃ r ∈ cands, r.suitableFor values method = true ∧ r.build cfg values au = .ok (d, u) ∧ w = r.websocket := by
  intro cands
  induction cands with
  | nil => intro d u w h; simp [partialBuild1] at h
  | cons r t ih =>
    intro d u w h
    simp only [partialBuild1] at h
    split at h
    · rename_i hs
      split at h
      · cases h
      · rename_i d' u' hb
        simp only [hhm, Bool.false_eq_true, if_false, Except.ok.injEq, Option.some.injEq, Prod.mk.injEq] at h
        obtain ⟨rfl, rfl, rfl⟩ := h
        exact ⟨r, by simp, hs, hb, rfl⟩
    · obtain ⟨r', hr', h'⟩ := ih h
      exact ⟨r', List.mem_cons_of_mem _ hr', h'⟩

/-- `MapAdapter.build` (no host matching): the URL comes from a rule of the map with that endpoint that
is suitable for the values -/
theorem partialBuild_some {cfg : MapCfg} {a : Adapter} {rules : List Rule} {ep : Str} {values : List (Str × Value)}
    {method : Option Str} {au : Bool} (hhm : cfg.hostMatching = false) {d u : Str} {w : Bool}
    (h : partialBuild cfg a rules ep values method au = .ok (some (d, u, w))) :
    ∃ r ∈ rules, r.endpoint = ep ∧ (∃ mth, r.suitableFor values mth = true) ∧ r.build cfg values au = .ok (d, u) := by
  have lift : ∀ mth, partialBuild1 cfg a (rulesByEndpoint rules ep) values mth au none = .ok (some (d, u, w)) →
      ∃ r ∈ rules, r.endpoint = ep ∧ (∃ mth, r.suitableFor values mth = true) ∧ r.build cfg values au = .ok (d, u) := by
    intro mth h
    obtain ⟨r, hr, hs, hb, _⟩ := partialBuild1_some hhm h
    simp only [rulesByEndpoint, mem_sortRules, List.mem_filter, beq_iff_eq] at hr
    exact ⟨r, hr.1, hr.2, ⟨mth, hs⟩, hb⟩
  simp only [partialBuild] at h
  cases method with
  | some mth => exact lift _ h
  | none =>
    simp only at h
    split at h
    · cases h
    · rename_i rv hrv
      cases h
      exact lift _ hrv
    · exact lift _ h

/-- the path text inside what `Rule.build` returns -/
theorem rule_build_path {cfg : MapCfg} {r : Rule} {values : List (Str × Value)} {au : Bool} {d u : Str}
    (h : r.build cfg values au = .ok (d, u)) :
    ∃ upath, buildSide r values (traceToks r.pathToks) = .ok upath ∧ (u = upath ∨ ∃ params, u = upath ++ '?' :: params) := by
  simp only [Rule.build, bind, Except.bind] at h
  split at h
  · cases h
  · split at h
    · cases h
    · rename_i dom _ upath hup
      simp only [pure, Except.pure, Except.ok.injEq, Prod.mk.injEq] at h
      refine ⟨upath, hup, ?_⟩
      obtain ⟨_, hu⟩ := h
      generalize (if (au && !(r.leftover values).isEmpty) = true then encodeQueryVars (r.leftover values) else []) = params at hu
      cases params with
      | nil => exact .inl (by simpa using hu.symm)
      | cons x t => exact .inr ⟨x :: t, by simpa using hu.symm⟩

end Wz.Routing

namespace Wz.Routing

/-! ### rebuilding from the match result -/

def varNames : List Tok → List Str
  | [] => []
  | .var _ n :: t => n :: varNames t
  | _ :: t => varNames t

theorem lookupVal_append (k : Str) (a b : List (Str × Value)) :
    lookupVal k (a ++ b) = (lookupVal k a).orElse (fun _ => lookupVal k b) := by
  induction a with
  | nil => simp [lookupVal]
  | cons x t ih =>
    obtain ⟨k', v⟩ := x
    simp only [List.cons_append, lookupVal]
    split
    · simp
    · exact ih

theorem lookupVal_builtPairs_notin (r : Rule) (values : List (Str × Value)) (n : Str) :
    ∀ toks, n ∉ varNames toks → lookupVal n (builtPairs r values toks) = none := by
  intro toks
  induction toks with
  | nil => intro _; rfl
  | cons t toks ih =>
    intro h
    cases t with
    | slash => exact ih h
    | lit s => exact ih h
    | var c n' =>
      simp only [varNames, List.mem_cons, not_or] at h
      simp only [builtPairs, lookupVal_append]
      have hne : ¬ (n' == n) = true := by simpa using fun h' => h.1 h'.symm
      cases buildValue r values n' with
      | none => simp [lookupVal, ih h.2]
      | some v => simp [lookupVal, hne, ih h.2]

theorem lookupVal_builtPairs (r : Rule) (values : List (Str × Value)) (n : Str) :
    ∀ toks, n ∈ varNames toks → lookupVal n (builtPairs r values toks) = buildValue r values n := by
  intro toks
  induction toks with
  | nil => intro h; cases h
  | cons t toks ih =>
    intro h
    cases t with
    | slash => exact ih h
    | lit s => exact ih h
    | var c n' =>
      simp only [varNames, List.mem_cons] at h
      simp only [builtPairs, lookupVal_append]
      by_cases hn : n' = n
      · subst hn
        cases hb : buildValue r values n' with
        | some v => simp [lookupVal]
        | none =>
          simp only [lookupVal, Option.orElse_none]
          by_cases hin : n' ∈ varNames toks
          · rw [ih hin, hb]
          · exact lookupVal_builtPairs_notin r values n' toks hin
      · have hne : ¬ (n' == n) = true := by simpa using hn
        have hin : n ∈ varNames toks := by
          rcases h with h | h
          · exact absurd h.symm hn
          · exact h
        cases buildValue r values n' with
        | none => simp [lookupVal, ih hin]
        | some v => simp [lookupVal, hne, ih hin]

theorem lookupVal_map_set_ne (k n : Str) (v : Value) (h : k ≠ n) : ∀ (d : List (Str × Value)),
    lookupVal n (d.map (fun e => if e.1 == k then (k, v) else e)) = lookupVal n d := by
  intro d
  induction d with
  | nil => rfl
  | cons x t ih =>
    obtain ⟨k', v'⟩ := x
    simp only [List.map_cons]
    by_cases hk : k' = k
    · subst hk
      have : ¬ (k' == n) = true := by simpa using h
      simp only [beq_self_eq_true, if_true, lookupVal, this, Bool.false_eq_true, if_false]
      exact ih
    · have hk' : ¬ (k' == k) = true := by simpa using hk
      simp only [hk', Bool.false_eq_true, if_false, lookupVal]
      split
      · rfl
      · exact ih

theorem lookupVal_dictSet_ne (d : List (Str × Value)) (k n : Str) (v : Value) (h : k ≠ n) :
    lookupVal n (dictSet d k v) = lookupVal n d := by
  simp only [dictSet]
  split
  · exact lookupVal_map_set_ne k n v h d
  · rw [lookupVal_append]
    have : ¬ (k == n) = true := by simpa using h
    cases lookupVal n d <;> simp [lookupVal, this]

theorem lookupVal_dictUpdate_notin (n : Str) : ∀ (u d : List (Str × Value)), lookupVal n u = none →
    lookupVal n (dictUpdate d u) = lookupVal n d := by
  intro u
  induction u with
  | nil => intro d _; rfl
  | cons x t ih =>
    intro d h
    obtain ⟨k, v⟩ := x
    simp only [lookupVal] at h
    split at h
    · cases h
    · rename_i hk
      have hk : k ≠ n := by simpa using hk
      simp only [dictUpdate, List.foldl_cons]
      have := ih (dictSet d k v) h
      simp only [dictUpdate] at this
      rw [this, lookupVal_dictSet_ne d k n v hk]

/-- the value a variable is rebuilt from after a match is the value it was built from -/
theorem buildValue_matched (r : Rule) (values : List (Str × Value)) (toks : List Tok) (n : Str) (hn : n ∈ varNames toks) :
    buildValue r (dictUpdate (builtPairs r values toks) r.defaults) n = buildValue r values n := by
  simp only [buildValue]
  cases hd : lookupVal n r.defaults with
  | some d => rfl
  | none =>
    simp only
    rw [lookupVal_dictUpdate_notin n r.defaults _ hd, lookupVal_builtPairs r values n toks hn]
    simp [buildValue, hd]

theorem buildSide_congr (r : Rule) (v1 v2 : List (Str × Value)) : ∀ (toks : List Tok),
    (∀ n ∈ varNames toks, buildValue r v1 n = buildValue r v2 n) →
    buildSide r v1 (traceToks toks) = buildSide r v2 (traceToks toks) := by
  intro toks
  induction toks with
  | nil => intro _; rfl
  | cons t toks ih =>
    intro h
    cases t with
    | slash =>
      simp only [traceToks, buildSide, varNames] at h ⊢
      rw [ih h]
    | lit s =>
      simp only [traceToks, buildSide, varNames] at h ⊢
      rw [ih h]
    | var c n =>
      simp only [varNames, List.mem_cons, forall_eq_or_imp] at h
      simp only [traceToks, buildSide]
      rw [ih h.2]
      have hv := h.1
      simp only [buildValue] at hv
      cases hd : lookupVal n r.defaults with
      | some d => rfl
      | none =>
        simp only [hd] at hv
        simp only [hv]

end Wz.Routing
