/-
The jar as a container, its invariant over whole histories, and what a request then carries.
-/
import WzVerif.Lemmas.CookieMatch
namespace Wz.Cookie
open Wz

/-- a stored cookie whose raw pair is what `dump_cookie` emits for its decoded pair -/
def GoodCookie (c : JarCookie) : Prop :=
  ValidKey c.key ∧ asciiText c.key = true ∧ c.decodedKey = c.key ∧ dumpValue c.decodedValue = .ok c.value

def GoodJar (j : Jar) : Prop := ∀ e ∈ j, GoodCookie e.2

/-- a `Set-Cookie` header that starts with a pair `dump_cookie` emitted for a valid ASCII name;
whatever follows the pair (any attribute text at all) starts with `;` -/
def GoodHeader (h : Str) : Prop :=
  ∃ k v hv rest, ValidKey k ∧ asciiText k = true ∧ dumpValue v = .ok hv ∧
    h = k ++ '=' :: hv ++ rest ∧ (rest = [] ∨ ∃ r, rest = ';' :: r)

theorem goodJar_nil : GoodJar [] := by intro e he; simp at he

theorem goodJar_pop (j : Jar) (k : Str × Str × Str) (h : GoodJar j) : GoodJar (j.pop k) := by
  intro e he
  exact h e (List.mem_filter.mp he).1

theorem goodJar_store (j : Jar) (c : JarCookie) (h : GoodJar j) (hc : GoodCookie c) : GoodJar (j.store c) := by
  unfold Jar.store
  split
  · intro e he
    simp only [List.mem_map] at he
    obtain ⟨e0, he0, rfl⟩ := he
    split
    · exact hc
    · exact h e0 he0
  · intro e he
    simp only [List.mem_append, List.mem_singleton] at he
    rcases he with he | rfl
    · exact h e he
    · exact hc

theorem goodJar_put (j : Jar) (c : JarCookie) (h : GoodJar j) (hc : GoodCookie c) : GoodJar (j.put c) := by
  unfold Jar.put
  split
  · exact goodJar_pop j _ h
  · exact goodJar_store j c h hc

theorem valid_key_seps (k : Str) (hk : ValidKey k) : (∀ c ∈ k, c ≠ ';') ∧ (∀ c ∈ k, c ≠ '=') := by
  have hkc : ∀ c ∈ k, isSep c = false := by
    intro c hcm
    have := List.all_eq_true.mp hk.2 c hcm
    simp only [keyChar, Bool.and_eq_true, Bool.not_eq_true'] at this
    exact this.1
  constructor
  · intro c hcm e; subst e; have := hkc _ hcm; simp [isSep] at this
  · intro c hcm e; subst e; have := hkc _ hcm; simp [isSep] at this

/-- whatever attributes follow it, the jar reads the pair `dump_cookie` wrote back to exactly the
name and value that were dumped -/
theorem fromHeader_good (lib : Lib) (s p h : Str) (c : JarCookie) (hg : GoodHeader h)
    (hc : fromResponseHeader lib s p h = .ok c) :
    GoodCookie c ∧ ∃ k v hv rest, h = k ++ '=' :: hv ++ rest ∧ dumpValue v = .ok hv ∧
      c.key = k ∧ c.value = hv ∧ c.decodedKey = k ∧ c.decodedValue = v := by
  obtain ⟨k, v, hv, rest, hk, hka, hdv, rfl, hrest⟩ := hg
  obtain ⟨hks, hke⟩ := valid_key_seps k hk
  have hpair : ∀ c ∈ k ++ '=' :: hv, c ≠ ';' := by
    intro c hcm
    simp only [List.mem_append, List.mem_cons] at hcm
    rcases hcm with hcm | rfl | hcm
    · exact hks c hcm
    · decide
    · exact dumpValue_no_semi v hv hdv c hcm
  have hpart : ∃ b r, partitionAt ';' (k ++ '=' :: hv ++ rest) = (k ++ '=' :: hv, b, r) := by
    rcases hrest with rfl | ⟨r, rfl⟩
    · exact ⟨false, [], by simpa using partitionAt_none ';' (k ++ '=' :: hv) hpair⟩
    · exact ⟨true, r, by simpa using partitionAt_found ';' (k ++ '=' :: hv) r hpair⟩
  obtain ⟨b, r, hp⟩ := hpart
  unfold fromResponseHeader at hc
  rw [hp] at hc
  simp only at hc
  rw [partitionAt_found '=' k hv hke, pair_roundtrip_env k v hv hk hka hdv] at hc
  simp only [strip_key k hk.2, dumpValue_strip v hv hdv] at hc
  split at hc
  · simp at hc
  · simp only [Except.ok.injEq] at hc
    subst hc
    exact ⟨⟨hk, hka, rfl, hdv⟩, k, v, hv, rest, rfl, hdv, rfl, rfl, rfl, rfl⟩

theorem goodJar_update (lib : Lib) (j : Jar) (s p : Str) (hs : List Str) (hj : GoodJar j)
    (hh : ∀ h ∈ hs, GoodHeader h) : GoodJar (j.update lib s p hs).1 := by
  induction hs generalizing j with
  | nil => exact hj
  | cons h t ih =>
    unfold Jar.update
    cases hc : fromResponseHeader lib s p h with
    | error e => exact hj
    | ok c =>
      simp only
      exact ih (j.put c) (goodJar_put j c hj (fromHeader_good lib s p h c (hh h (by simp)) hc).1)
        (fun x hx => hh x (by simp [hx]))

/-- a header `dump_cookie` produced is a good header -/
theorem dumpCookie_goodHeader (k v h : Str) (a : Attrs) (hk : ValidKey k) (hka : asciiText k = true)
    (hd : dumpCookie k v a = .ok h) : GoodHeader h := by
  obtain ⟨hv, ss, hdv, _, rfl⟩ := dumpCookie_ok k v h a hd
  rw [key_dance_ascii k hka]
  cases attrParts a ss with
  | nil => exact ⟨k, v, hv, [], hk, hka, hdv, by simp [List.intercalate], Or.inl rfl⟩
  | cons q r =>
    exact ⟨k, v, hv, ';' :: ' ' :: List.intercalate "; ".toList (q :: r), hk, hka, hdv,
      (by rw [intercalate_cons2] <;> simp), Or.inr ⟨_, rfl⟩⟩

theorem dumpCookieFull_goodHeader (lib : Lib) (a : DumpArgs) (h : Str) (w : Bool)
    (hk : ValidKey a.key) (hka : asciiText a.key = true) (hd : dumpCookieFull lib a = .ok (h, w)) :
    GoodHeader h := by
  unfold dumpCookieFull at hd
  cases hr : resolveAttrs lib a with
  | error e => simp [hr] at hd
  | ok at' =>
    simp only [hr] at hd
    cases hdc : dumpCookie a.key a.value at' with
    | error e => simp [hdc] at hd
    | ok h' =>
      simp only [hdc, Except.ok.injEq, Prod.mk.injEq] at hd
      rw [← hd.1]
      exact dumpCookie_goodHeader a.key a.value h' at' hk hka hdc

/-- the steps for which the history theorem is stated -/
def GoodStep : JarStep → Prop
  | .response _ _ hs => ∀ h ∈ hs, GoodHeader h
  | .clientSet _ _ _ a => ValidKey a.key ∧ asciiText a.key = true
  | .clientDelete _ _ _ => True

theorem goodJar_step (lib : Lib) (j : Jar) (st : JarStep) (hj : GoodJar j) (hs : GoodStep st) :
    GoodJar (j.step lib st) := by
  cases st with
  | response s p hs' => exact goodJar_update lib j s p hs' hj hs
  | clientSet d oo p a =>
    simp only [Jar.step]
    cases hc : clientSetCookie lib j d oo p a with
    | error e => exact hj
    | ok j' =>
      simp only
      unfold clientSetCookie at hc
      cases hd : dumpCookieFull lib { a with domain := some d, path := some p } with
      | error e => simp [hd] at hc
      | ok r =>
        obtain ⟨h, w⟩ := r
        simp only [hd] at hc
        cases hf : fromResponseHeader lib d ['/'] h with
        | error e => simp [hf] at hc
        | ok c =>
          simp only [hf, Except.ok.injEq] at hc
          subst hc
          have hg := dumpCookieFull_goodHeader lib { a with domain := some d, path := some p } h w hs.1 hs.2 hd
          obtain ⟨⟨g1, g2, g3, g4⟩, _⟩ := fromHeader_good lib d ['/'] h c hg hf
          exact goodJar_put j _ hj ⟨g1, g2, g3, g4⟩
  | clientDelete k d p => exact goodJar_pop j _ hj

theorem goodJar_run (lib : Lib) (steps : List JarStep) (hs : ∀ st ∈ steps, GoodStep st) :
    GoodJar (Jar.run lib steps) := by
  unfold Jar.run
  have : ∀ (j : Jar), GoodJar j → GoodJar (steps.foldl (Jar.step lib) j) := by
    induction steps with
    | nil => intro j hj; exact hj
    | cons st t ih =>
      intro j hj
      exact ih (fun x hx => hs x (by simp [hx])) (j.step lib st) (goodJar_step lib j st hj (hs st (by simp)))
  exact this [] goodJar_nil

/-! ### what a request carries -/

theorem jarText_ne_nil (p : Str × Str) (t : List (Str × Str)) (hp : p.1 ≠ []) : (jarText (p :: t)).isEmpty = false := by
  obtain ⟨k, hv⟩ := p
  cases k with
  | nil => exact absurd rfl hp
  | cons c r => cases t <;> simp [jarText]

theorem requestCookies_good (j : Jar) (hj : GoodJar j) (s p : Str) :
    j.requestCookies s p = (j.matching s p).map (fun c => (c.decodedKey, c.decodedValue)) := by
  have hm : ∀ c ∈ j.matching s p, GoodCookie c := by
    intro c hc
    unfold Jar.matching at hc
    have := (List.mem_filter.mp hc).1
    simp only [List.mem_map] at this
    obtain ⟨e, he, rfl⟩ := this
    exact hj e he
  unfold Jar.requestCookies Jar.cookieHeader
  generalize j.matching s p = m at hm
  cases m with
  | nil => simp [jarText]
  | cons c t =>
    have hne : (jarText ((c :: t).map fun c => (c.key, c.value))).isEmpty = false :=
      jarText_ne_nil _ _ (hm c (by simp)).1.1
    simp only [hne, Bool.false_eq_true, if_false]
    have := jarText_roundtrip ((c :: t).map fun c => (c.key, c.decodedValue, c.value)) (by simp)
      (by
        intro it hit
        simp only [List.mem_map] at hit
        obtain ⟨c', hc', rfl⟩ := hit
        exact ⟨(hm c' hc').1, (hm c' hc').2.2.2⟩)
    simp only [List.map_map] at this
    have e1 : ((fun it : Str × Str × Str => (it.1, it.2.2)) ∘ fun c : JarCookie => (c.key, c.decodedValue, c.value))
        = fun c => (c.key, c.value) := rfl
    have e2 : ((fun it : Str × Str × Str => (it.1, it.2.1)) ∘ fun c : JarCookie => (c.key, c.decodedValue, c.value))
        = fun c => (c.key, c.decodedValue) := rfl
    rw [e1, e2] at this
    rw [this]
    apply List.map_congr_left
    intro c' hc'
    rw [(hm c' hc').2.2.1]

/-! ### the slot a cookie is filed under -/

theorem get_put_store (j : Jar) (c : JarCookie) (h : c.shouldDelete = false) :
    clientGetCookie (j.put c) c.decodedKey c.domain c.path = some c := by
  unfold Jar.put clientGetCookie
  simp only [h, Bool.false_eq_true, if_false]
  unfold Jar.store
  have hk : c.storageKey = (c.domain, c.path, c.decodedKey) := rfl
  rw [← hk]
  split
  · rename_i hany
    induction j with
    | nil => simp at hany
    | cons e t ih =>
      simp only [List.map_cons, List.find?_cons]
      by_cases he : (e.1 == c.storageKey) = true
      · simp [he]
      · have he' : (e.1 == c.storageKey) = false := by simpa using he
        simp only [he', Bool.false_eq_true, if_false]
        simp only [List.any_cons, he', Bool.false_or] at hany
        exact ih hany
  · rename_i hany
    have hnone : j.find? (fun e => e.1 == c.storageKey) = none := by
      apply List.find?_eq_none.mpr
      intro e he
      intro hh
      exact hany (List.any_eq_true.mpr ⟨e, he, hh⟩)
    rw [List.find?_append, hnone]
    simp

theorem get_put_delete (j : Jar) (c : JarCookie) (h : c.shouldDelete = true) :
    clientGetCookie (j.put c) c.decodedKey c.domain c.path = none := by
  unfold Jar.put clientGetCookie Jar.pop
  simp only [h, if_true]
  have hk : c.storageKey = (c.domain, c.path, c.decodedKey) := rfl
  rw [← hk]
  simp only [Option.map_eq_none_iff]
  apply List.find?_eq_none.mpr
  intro e he
  have := (List.mem_filter.mp he).2
  simpa using this

theorem mem_store (j : Jar) (c : JarCookie) : c ∈ (j.store c).map (·.2) := by
  unfold Jar.store
  split
  · rename_i hany
    obtain ⟨e, he, hk⟩ := List.any_eq_true.mp hany
    simp only [List.map_map, List.mem_map, Function.comp]
    exact ⟨e, he, by simp [hk]⟩
  · simp

/-- a cookie that was just stored and matches the request is among the cookies the request carries -/
theorem put_then_request (j : Jar) (c : JarCookie) (hj : GoodJar j) (hc : GoodCookie c)
    (hd : c.shouldDelete = false) (s p : Str) (hm : c.matchesRequest s p = true) :
    (c.decodedKey, c.decodedValue) ∈ (j.put c).requestCookies s p := by
  rw [requestCookies_good _ (goodJar_put j c hj hc)]
  simp only [List.mem_map]
  refine ⟨c, ?_, rfl⟩
  unfold Jar.matching
  apply List.mem_filter.mpr
  refine ⟨?_, hm⟩
  unfold Jar.put
  simp only [hd, Bool.false_eq_true, if_false]
  exact mem_store j c

end Wz.Cookie
