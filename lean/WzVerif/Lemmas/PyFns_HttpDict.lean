/-
Helper lemmas for Props/C06T / C16T, third part (translated `parse_age`, `dump_age`,
`parse_content_range_header`, `ContentRange.*`, `parse_csp_header`, `parse_dict_header` against
`Model/Http.lean`): the model's `plainInt` is the prelude's, error classes of the modelled
primitives, `str.partition` / `split(sep, 1)` under a membership guard.
Nothing here mentions generated definitions.
-/
import WzVerif.Model.Http
import WzVerif.Lemmas.PyFns_HttpList
import WzVerif.Lemmas.PyFns_Range
import WzVerif.Lemmas.HttpInt
namespace Wz.PyFnsHttp
open Wz Wz.Pre Wz.PyFnsRange

/-! ### `_plain_int`: C06's model is the prelude's -/

theorem isPlainDigit_eq (c : Char) : Http.isPlainDigit c = Pre.isDigitA c := by
  unfold Http.isPlainDigit Http.cls Pre.isDigitA
  have h0 : ('0' ≤ c) ↔ (48 ≤ c.toNat) := UInt32.le_iff_toNat_le
  have h9 : (c ≤ '9') ↔ (c.toNat ≤ 57) := UInt32.le_iff_toNat_le
  by_cases h : c.toNat < 256
  · simp only [h, if_true, Http.plainDigit_tbl.2 _ h]
    simp only [h0, h9]
  · simp only [h, if_false, Http.plainDigit_tbl.1]
    have : ¬ (c ≤ '9') := by rw [h9]; omega
    simp [this]

theorem http_plainInt_eq (v : Str) : Http.plainInt v = Pre.plainInt v := by
  unfold Http.plainInt Pre.plainInt Pre.isPlainIntText Pre.plainIntVal Http.strip Http.signSplit
  generalize Py.strip v = s
  have hf : Http.isPlainDigit = Pre.isDigitA := funext isPlainDigit_eq
  have hd : Http.digitsVal = Pre.digitsVal := rfl
  match s with
  | [] => simp
  | c :: t =>
    by_cases hc : c = '-'
    · subst hc; simp [hf, hd]
    · simp [hc, hf, hd]

/-! ### error classes of modelled primitives -/

theorem plainInt_error (s : Str) (e : String) (h : Pre.plainInt s = .error e) : e = "ValueError" := by
  unfold Pre.plainInt at h
  simp only [] at h
  split at h <;> cases h
  rfl

theorem pyInt_error (v : Str) (e : String) (h : Http.pyInt v = .error e) : e = "ValueError" := by
  unfold Http.pyInt at h
  simp only [] at h
  split at h
  · cases h
  · cases h; rfl

theorem splitWs2_error (s : Str) (e : String) (h : Http.splitWs2 s = .error e) : e = "ValueError" := by
  unfold Http.splitWs2 at h; simp only [] at h; split at h <;> cases h; rfl

/-! ### splitting -/

/-- `a, b = s.split(None, 1)`: the prelude's is the model's -/
theorem splitWsOnce_eq (s : Str) : Pre.splitWsOnce s = Http.splitWs2 s := rfl

/-- the model's `partition` when the separator occurs -/
theorem partition_eq_of_mem (c : Char) (s : Str) (h : c ∈ s) :
    Http.partition c s = (s.takeWhile (· != c), true, (s.dropWhile (· != c)).drop 1) := by
  unfold Http.partition
  rcases split_at_first c s with ⟨h1, _, _⟩ | ⟨pre, post, h1, h2, h3, h4⟩
  · exact absurd h h1
  · simp [h3, h4]

/-- the model's `partition` when the separator does not occur -/
theorem partition_eq_of_not_mem (c : Char) (s : Str) (h : c ∉ s) :
    Http.partition c s = (s, false, []) := by
  unfold Http.partition
  rcases split_at_first c s with ⟨_, h2, h3⟩ | ⟨pre, post, h1, _, _, _⟩
  · simp [h2, h3]
  · exact absurd (h1 ▸ (by simp : c ∈ pre ++ c :: post)) h

/-- the length field of Content-Range through the prelude's `_plain_int` -/
theorem parseLength_eq (ls : Str) :
    Http.parseLength ls = if ls == ['*'] then .ok (some none) else
      match Pre.plainInt ls with
      | .ok l => .ok (some (some l))
      | .error _ => .ok none := by
  unfold Http.parseLength
  by_cases h : ls = ['*']
  · simp [h, pure, Except.pure]
  · simp only [h, beq_iff_eq, if_false, http_plainInt_eq]
    unfold Pre.plainInt
    simp only []
    split <;> simp [Http.catching, Except.map]

/-- `ContentRangeV` as the tuple the translation builds -/
def crTup (c : Http.ContentRangeV) : Option Str × Option Int × Option Int × Option Int :=
  (c.units, c.start, c.stop, c.length)

/-- the part of `parse_content_range_header` after the length field, for either form of the length,
as the translator emits it (left) and as the model writes it (right) -/
theorem cr_tail (units rng : Str) (length : Option Int) :
    (if rng == ['*'] then
      if !(Http.isByteRangeValid none none length) then (.ok none : Except String (Option (Option Str × Option Int × Option Int × Option Int)))
      else
        match (if Http.isByteRangeValid none none length then (.ok (some units, none, none, length) : Except String _) else .error "AssertionError") with
        | .error e_ => .error e_
        | .ok v5_ => .ok (some v5_)
    else
      if !(rng.contains '-') then .ok none
      else
        match splitOnce rng ['-'] with
        | .error e_ => .error e_
        | .ok v6_ =>
          match plainInt v6_.1 with
          | .error _ => .ok none
          | .ok v8_ =>
            match plainInt v6_.2 with
            | .error _ => .ok none
            | .ok v9_ =>
              if Http.isByteRangeValid (some v8_) (some (v9_ + 1)) length then
                match (if Http.isByteRangeValid (some v8_) (some (v9_ + 1)) length then (.ok (some units, some v8_, some (v9_ + 1), length) : Except String _) else .error "AssertionError") with
                | .error e_ => .error e_
                | .ok v5_ => .ok (some v5_)
              else .ok none) =
    Except.map (Option.map crTup) (do
      if rng == ['*'] then
        if !Http.isByteRangeValid none none length then return none
        return some ⟨some units, none, none, length⟩
      if !rng.contains '-' then return none
      let (startStr, _, stopStr) := Http.partition '-' rng
      let se ← Http.catching ["ValueError"] (do
        let s ← Http.plainInt startStr
        let e ← Http.plainInt stopStr
        pure (some (s, e + 1))) none
      match se with
      | none => return none
      | some (s, e) =>
        if Http.isByteRangeValid (some s) (some e) length then return some ⟨some units, some s, some e, length⟩
        return none) := by
  by_cases hr : rng = ['*']
  · subst hr
    by_cases hv : Http.isByteRangeValid none none length = true <;> simp [hv, crTup, Except.map, pure, Except.pure]
  · simp only [hr, beq_iff_eq, if_false]
    by_cases hd : '-' ∈ rng
    · have hdc : rng.contains '-' = true := by simpa using hd
      simp only [hdc, Bool.not_true, Bool.false_eq_true, if_false, splitOnce_singleton_mem rng '-' hd,
        partition_eq_of_mem '-' rng hd, http_plainInt_eq]
      cases h1 : plainInt (rng.takeWhile (· != '-')) with
      | error e =>
        have := plainInt_error _ _ h1; subst this
        simp [Http.catching, Except.map, bind, Except.bind, pure, Except.pure]
      | ok a =>
        cases h2 : plainInt ((rng.dropWhile (· != '-')).drop 1) with
        | error e =>
          have := plainInt_error _ _ h2; subst this
          simp [Http.catching, Except.map, bind, Except.bind, pure, Except.pure]
        | ok b =>
          by_cases hv : Http.isByteRangeValid (some a) (some (b + 1)) length = true <;>
            simp [hv, crTup, Http.catching, Except.map, bind, Except.bind, pure, Except.pure]
    · have hdc : rng.contains '-' = false := by simpa using hd
      simp [hdc, hd, Except.map, pure, Except.pure, bind, Except.bind]

end Wz.PyFnsHttp
