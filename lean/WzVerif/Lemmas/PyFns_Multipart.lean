/-
Helper lemmas for Props/C01T (translated `MultipartDecoder.last_newline` against the hand-written
recursive model `lastNewline` of `Model/Multipart.lean`): `bytes.rfind` of one byte, the index `L`
of the last LF or CR, and the body `G` of `last_newline` after that index was computed, related to
the model by induction from the front of the buffer. Nothing here mentions the generated definitions.
-/
import WzVerif.Model.Multipart
import WzVerif.Lemmas.PyFns_Prelude
open Wz Wz.Pre

namespace Wz.PyFnsMultipart

theorem rfindIdx?_singleton_cons_some [BEq α] (c a : α) (t : List α) (i : Nat)
    (h : rfindIdx? [c] t = some i) : rfindIdx? [c] (a :: t) = some (i + 1) := by
  simp [rfindIdx?, h]

theorem rfindIdx?_singleton_cons_none [BEq α] (c a : α) (t : List α)
    (h : rfindIdx? [c] t = none) : rfindIdx? [c] (a :: t) = if c == a then some 0 else none := by
  simp [rfindIdx?, h, List.isPrefixOf]

theorem rfindIdx?_singleton_nil [BEq α] (c : α) : rfindIdx? [c] ([] : List α) = none := by
  simp [rfindIdx?]

/-- `s.rfind(c)` one element further to the left -/
theorem rfind_cons [BEq α] (c a : α) (t : List α) :
    rfind (a :: t) [c] = if 0 ≤ rfind t [c] then rfind t [c] + 1 else if c == a then 0 else -1 := by
  unfold rfind
  cases h : rfindIdx? [c] t with
  | none =>
    rw [rfindIdx?_singleton_cons_none c a t h]
    by_cases hc : (c == a) = true <;> simp [hc]
  | some i =>
    rw [rfindIdx?_singleton_cons_some c a t i h]
    have : (0 : Int) ≤ (i : Int) := by omega
    simp [this]

theorem rfind_ge [BEq α] (c : α) (t : List α) : -1 ≤ rfind t [c] := by
  unfold rfind; cases rfindIdx? [c] t <;> simp <;> omega

theorem rfind_neg_iff [BEq α] [LawfulBEq α] (c : α) (t : List α) : rfind t [c] = -1 ↔ c ∉ t := by
  induction t with
  | nil => simp [rfind, rfindIdx?_singleton_nil]
  | cons a t ih =>
    rw [rfind_cons]
    have := rfind_ge c t
    by_cases h0 : 0 ≤ rfind t [c]
    · have hm : c ∈ t := Classical.byContradiction fun hn => by
        have := ih.mpr hn; omega
      simp only [h0, if_true, List.mem_cons, not_or]
      constructor
      · intro h; omega
      · intro h; exact absurd hm h.2
    · have h1 : rfind t [c] = -1 := by omega
      have hn : c ∉ t := ih.mp h1
      by_cases hc : c = a
      · subst hc; simp [h0]
      · have hb : (c == a) = false := by simpa using hc
        simp [h0, hb, hn, hc]

open Wz.Multipart

/-- index of the last LF or CR, or -1 -/
def L (d : Bytes) : Int := max (rfind d [10]) (rfind d [13])

theorem L_ge (d : Bytes) : -1 ≤ L d := by
  unfold L; have := rfind_ge (10 : UInt8) d; omega

theorem hasNl_iff (d : Bytes) : hasNl d = true ↔ (10 : UInt8) ∈ d ∨ (13 : UInt8) ∈ d := by
  simp only [hasNl, isNl, List.any_eq_true, Bool.or_eq_true, beq_iff_eq]
  constructor
  · rintro ⟨x, hx, h | h⟩
    · left; exact h ▸ hx
    · right; exact h ▸ hx
  · rintro (h | h)
    · exact ⟨10, h, Or.inl rfl⟩
    · exact ⟨13, h, Or.inr rfl⟩

theorem L_neg_iff (d : Bytes) : L d = -1 ↔ hasNl d = false := by
  have h1 := rfind_neg_iff (10 : UInt8) d
  have h2 := rfind_neg_iff (13 : UInt8) d
  have g1 := rfind_ge (10 : UInt8) d
  have g2 := rfind_ge (13 : UInt8) d
  have hh := hasNl_iff d
  unfold L
  constructor
  · intro h
    have a1 : rfind d [10] = -1 := by omega
    have a2 : rfind d [13] = -1 := by omega
    cases hb : hasNl d with
    | false => rfl
    | true => rcases hh.mp hb with h | h
              · exact absurd h (h1.mp a1)
              · exact absurd h (h2.mp a2)
  · intro h
    have n1 : (10 : UInt8) ∉ d := fun hm => by have := hh.mpr (Or.inl hm); simp [h] at this
    have n2 : (13 : UInt8) ∉ d := fun hm => by have := hh.mpr (Or.inr hm); simp [h] at this
    have a1 := h1.mpr n1
    have a2 := h2.mpr n2
    omega

theorem L_cons_has (a : UInt8) (t : Bytes) (h : hasNl t = true) : L (a :: t) = L t + 1 := by
  have hne : L t ≠ -1 := fun e => by have := (L_neg_iff t).mp e; simp [h] at this
  have hge := L_ge t
  have g1 := rfind_ge (10 : UInt8) t
  have g2 := rfind_ge (13 : UInt8) t
  unfold L at *
  rw [rfind_cons, rfind_cons]
  by_cases c1 : 0 ≤ rfind t [10] <;> by_cases c2 : 0 ≤ rfind t [13] <;> simp only [c1, c2, if_true, if_false]
  · omega
  · split <;> omega
  · split <;> omega
  · omega

theorem L_cons_no (a : UInt8) (t : Bytes) (h : hasNl t = false) :
    L (a :: t) = if isNl a then 0 else -1 := by
  have he := (L_neg_iff t).mpr h
  have g1 := rfind_ge (10 : UInt8) t
  have g2 := rfind_ge (13 : UInt8) t
  unfold L at *
  have a1 : rfind t [10] = -1 := by omega
  have a2 : rfind t [13] = -1 := by omega
  rw [rfind_cons, rfind_cons, a1, a2]
  simp only [isNl]
  by_cases h10 : a = 10
  · subst h10; decide
  · by_cases h13 : a = 13
    · subst h13; decide
    · have b1 : ((10 : UInt8) == a) = false := by simpa using fun e => h10 e.symm
      have b2 : ((13 : UInt8) == a) = false := by simpa using fun e => h13 e.symm
      have b3 : (a == 10) = false := by simpa using h10
      have b4 : (a == 13) = false := by simpa using h13
      simp [b1, b2, b3, b4]


/-- the body of `last_newline` after `last` was computed -/
def G (d : Bytes) (last : Int) : Int :=
  if last == -1 then (d.length : Int)
  else if decide (last > 0) && (slice d (some (last - 1)) (some (last + 1)) == [13, 10]) then last - 1
  else last

theorem L_zero_tail (t : Bytes) (h : L t = 0) : hasNl t.tail = false := by
  cases t with
  | nil => rfl
  | cons x t' =>
    cases hb : hasNl t' with
    | false => simpa using hb
    | true =>
      exfalso
      have h1 := L_cons_has x t' hb
      have h2 := L_ge t'
      have h3 : L t' ≠ -1 := fun e => by have := (L_neg_iff t').mp e; simp [hb] at this
      omega

theorem L_pos_tail (t : Bytes) (h : 1 ≤ L t) : hasNl t.tail = true := by
  cases t with
  | nil => simp [L, rfind, rfindIdx?] at h
  | cons x t' =>
    cases hb : hasNl t' with
    | true => simpa using hb
    | false =>
      rw [L_cons_no x t' hb] at h
      split at h <;> omega

theorem slice_cons_shift (a : UInt8) (t : Bytes) (n : Nat) :
    slice (a :: t) (some ((n + 1 : Nat) : Int)) (some ((n + 3 : Nat) : Int))
      = slice t (some ((n : Nat) : Int)) (some ((n + 2 : Nat) : Int)) := by
  rw [slice_nat, slice_nat]
  simp

theorem G_eq (d : Bytes) : G d (L d) = (lastNewline d : Int) := by
  induction d with
  | nil => simp [G, L, rfind, rfindIdx?, lastNewline]
  | cons a t ih =>
    unfold lastNewline
    cases hb : hasNl t with
    | true =>
      have hl := L_cons_has a t hb
      have hne : L t ≠ -1 := fun e => by have := (L_neg_iff t).mp e; simp [hb] at this
      have hge := L_ge t
      obtain ⟨n, hn⟩ : ∃ n : Nat, L t = (n : Int) := ⟨(L t).toNat, by omega⟩
      simp only [if_true]
      rw [hl, hn]
      cases n with
      | zero =>
        -- the last line break of `t` is its first byte
        have htl := L_zero_tail t (by simpa using hn)
        have ih0 : (lastNewline t : Int) = 0 := by rw [← ih, hn]; simp [G]
        obtain ⟨x, t', rfl⟩ : ∃ x t', t = x :: t' := by
          cases t with
          | nil => simp [hasNl] at hb
          | cons x t' => exact ⟨x, t', rfl⟩
        have e : slice (a :: x :: t') (some ((0 : Nat) : Int)) (some ((2 : Nat) : Int)) = [a, x] := by
          rw [slice_nat]; simp
        simp only [List.tail_cons] at htl
        simp only [G, isLastCrlf, List.head?_cons, List.tail_cons, htl]
        have e' : slice (a :: x :: t') (some (((0 : Nat) : Int) + 1 - 1)) (some (((0 : Nat) : Int) + 1 + 1)) = [a, x] := by
          simpa using e
        rw [e']
        by_cases h1 : a = 13 <;> by_cases h2 : x = 10
        · subst h1; subst h2; simp
        · subst h1
          have : ((13 : UInt8) :: [x] == [13, 10]) = false := by simp [h2]
          simp [this, h2]; omega
        · have : (a :: [x] == [13, 10]) = false := by simp [h1]
          simp [this, h1]; omega
        · have : (a :: [x] == [13, 10]) = false := by simp [h1]
          simp [this, h1]; omega
      | succ m =>
        have htl := L_pos_tail t (by omega)
        have hcr : isLastCrlf a t = false := by simp [isLastCrlf, htl]
        have es := slice_cons_shift a t m
        simp only [hcr, Bool.false_eq_true, if_false]
        have hc : ((1 + lastNewline t : Nat) : Int) = 1 + (lastNewline t : Int) := by omega
        rw [hc, ← ih, hn]
        unfold G
        have e1 : (((m + 1 : Nat) : Int) + 1 - 1) = ((m + 1 : Nat) : Int) := by omega
        have e2 : (((m + 1 : Nat) : Int) + 1 + 1) = ((m + 3 : Nat) : Int) := by omega
        have e3 : (((m + 1 : Nat) : Int) - 1) = ((m : Nat) : Int) := by omega
        have e4 : (((m + 1 : Nat) : Int) + 1) = ((m + 2 : Nat) : Int) := by omega
        rw [e1, e2, e3, e4, es]
        have n1 : ¬ (((m + 1 : Nat) : Int) + 1 = -1) := by omega
        have n2 : ¬ (((m + 1 : Nat) : Int) = -1) := by omega
        cases hX : (slice t (some ((m : Nat) : Int)) (some ((m + 2 : Nat) : Int)) == [13, 10]) <;>
          simp [n1, n2] <;> omega
    | false =>
      have hl := L_cons_no a t hb
      simp only [Bool.false_eq_true, if_false]
      rw [hl]
      cases hn : isNl a <;> simp [G]
      omega

end Wz.PyFnsMultipart
