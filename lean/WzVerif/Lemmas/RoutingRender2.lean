/-
Routing lemmas, part 13 (C04): percent-decoding the text `Rule.build` assembles gives the rendered path
(`buildSide_unquote`): every piece the builder concatenates is self-delimiting for the decoder —
quoted text, or text without a percent sign.
-/
import WzVerif.Lemmas.RoutingRender
import WzVerif.Lemmas.RoutingBuild
namespace Wz.Routing

/-- `u` decodes to `t` whatever follows it -/
def Closed (u t : Str) : Prop :=
  ∀ rest : List UInt8, unquoteBytes (utf8Enc u ++ rest) = utf8Enc t ++ unquoteBytes rest

theorem Closed.nil : Closed [] [] := by intro rest; simp [utf8Enc]

theorem Closed.append {u1 t1 u2 t2 : Str} (h1 : Closed u1 t1) (h2 : Closed u2 t2) : Closed (u1 ++ u2) (t1 ++ t2) := by
  intro rest
  rw [utf8Enc_append, List.append_assoc, h1, h2, utf8Enc_append, List.append_assoc]

theorem Closed.unquote {u t : Str} (h : Closed u t) : unquote u = t := by
  have := h []
  simp only [List.append_nil, unquoteBytes] at this
  simp only [Wz.Routing.unquote, this, Py.decodeReplace_utf8Enc]

theorem closed_quoteBytes (bs : List UInt8) (rest : List UInt8) :
    unquoteBytes (utf8Enc (bs.flatMap (quoteByte (pathSafe.toList.map Char.toNat))) ++ rest) = bs ++ unquoteBytes rest := by
  induction bs with
  | nil => simp [utf8Enc]
  | cons b t ih =>
    simp only [List.flatMap_cons, utf8Enc_append, List.append_assoc]
    have := quoteByte_pathSafe_ok ⟨b.toNat, b.toNat_lt⟩
    simp only [UInt8.ofNat_toNat] at this
    rw [unquoteBytes_okQuote this, ih]
    rfl

theorem closed_quote (s : Str) : Closed (quote pathSafe s) s := by
  intro rest
  simp only [quote]
  exact closed_quoteBytes (utf8Enc s) rest

theorem unquoteBytes_no37_append : ∀ (bs rest : List UInt8), (37 : UInt8) ∉ bs →
    unquoteBytes (bs ++ rest) = bs ++ unquoteBytes rest
  | [], rest, _ => rfl
  | b :: t, rest, h => by
    have hb : b ≠ 37 := fun hb => h (by simp [hb])
    rw [List.cons_append, unquoteBytes_cons_ne _ hb, unquoteBytes_no37_append t rest (fun h' => h (List.mem_cons_of_mem _ h'))]
    rfl

theorem closed_noPercent (s : Str) (h : '%' ∉ s) : Closed s s := by
  intro rest
  have : (37 : UInt8) ∉ utf8Enc s := by
    simp only [utf8Enc, List.mem_flatMap, not_exists, not_and]
    intro c hc
    exact utf8EncodeChar_no37 c (fun hcc => h (hcc ▸ hc))
  exact unquoteBytes_no37_append _ rest this

/-- converters whose `to_url` percent-quotes the value -/
def Conv.quotes : Conv → Bool
  | .string .. => true
  | .path => true
  | .any _ => true
  | _ => false

theorem toUrl_closed {c : Conv} {v : Value} {s : Str} (h : toUrl c v = .ok s) (hq : c.quotes = true ∨ '%' ∉ s) :
    Closed s (unquote s) := by
  cases c with
  | string mn mx ln =>
    simp only [toUrl, Except.ok.injEq] at h; subst h
    rw [unquote_quote_pathSafe]; exact closed_quote _
  | path =>
    simp only [toUrl, Except.ok.injEq] at h; subst h
    rw [unquote_quote_pathSafe]; exact closed_quote _
  | any items =>
    cases v with
    | str t =>
      simp only [toUrl] at h
      split at h
      · simp only [Except.ok.injEq] at h; subst h
        rw [unquote_quote_pathSafe]; exact closed_quote _
      · cases h
    | int i => simp [toUrl] at h
    | float t => simp [toUrl] at h
    | uuid t => simp [toUrl] at h
  | uuid =>
    have hp : '%' ∉ s := by
      rcases hq with hq | hq
      · cases hq
      · exact hq
    rw [unquote_noPercent s hp]; exact closed_noPercent s hp
  | int fx sg mn mx =>
    have hp : '%' ∉ s := by
      rcases hq with hq | hq
      · cases hq
      · exact hq
    rw [unquote_noPercent s hp]; exact closed_noPercent s hp
  | float sg mn mx =>
    have hp : '%' ∉ s := by
      rcases hq with hq | hq
      · cases hq
      · exact hq
    rw [unquote_noPercent s hp]; exact closed_noPercent s hp

/-- the value a variable is built from: a default of the rule wins over the given value -/
def buildValue (r : Rule) (values : List (Str × Value)) (n : Str) : Option Value :=
  match lookupVal n r.defaults with
  | some d => some d
  | none => lookupVal n values

/-- decoded texts of the variables of `toks`, in order: `unquote (to_url value)` -/
def valueTexts (r : Rule) (values : List (Str × Value)) : List Tok → Option (List Str)
  | [] => some []
  | .var _ n :: t =>
    match lookupConv n r.convs, buildValue r values n with
    | some c, some v =>
      match toUrl c v with
      | .ok s => (valueTexts r values t).map (unquote s :: ·)
      | .error _ => none
    | _, _ => none
  | _ :: t => valueTexts r values t

/-- every variable's `to_url` output is quoted or free of percent signs -/
def UrlsClosed (r : Rule) (values : List (Str × Value)) : List Tok → Prop
  | [] => True
  | .var _ n :: t =>
    (∀ c v s, lookupConv n r.convs = some c → buildValue r values n = some v → toUrl c v = .ok s →
      (c.quotes = true ∨ '%' ∉ s)) ∧ UrlsClosed r values t
  | _ :: t => UrlsClosed r values t

/-- **percent-decoding the built text gives the rendered path** -/
theorem buildSide_closed (r : Rule) (values : List (Str × Value)) : ∀ (toks : List Tok) {u : Str},
    buildSide r values (traceToks toks) = .ok u → UrlsClosed r values toks →
    ∃ ts text, valueTexts r values toks = some ts ∧ renderToks toks ts = some text ∧ Closed u text := by
  intro toks
  induction toks with
  | nil =>
    intro u h _
    simp only [traceToks, buildSide, Except.ok.injEq] at h
    subst h
    exact ⟨[], [], rfl, rfl, Closed.nil⟩
  | cons t toks ih =>
    intro u h hc
    cases t with
    | slash =>
      simp only [traceToks, buildSide, bind, Except.bind] at h
      split at h
      · cases h
      · rename_i rest hrest
        simp only [pure, Except.pure, Except.ok.injEq] at h
        subst h
        obtain ⟨ts, text, h1, h2, h3⟩ := ih hrest hc
        refine ⟨ts, '/' :: text, h1, by simp [renderToks, h2], ?_⟩
        have hq : quote pathSafe ['/'] = ['/'] := by decide +kernel
        rw [hq]
        exact (closed_noPercent ['/'] (by decide)).append h3
    | lit s =>
      simp only [traceToks, buildSide, bind, Except.bind] at h
      split at h
      · cases h
      · rename_i rest hrest
        simp only [pure, Except.pure, Except.ok.injEq] at h
        subst h
        obtain ⟨ts, text, h1, h2, h3⟩ := ih hrest hc
        exact ⟨ts, s ++ text, h1, by simp [renderToks, h2], (closed_quote s).append h3⟩
    | var c n =>
      simp only [UrlsClosed] at hc
      simp only [traceToks, buildSide] at h
      cases hlc : lookupConv n r.convs with
      | none => simp [hlc, throw, throwThe, MonadExceptOf.throw, bind, Except.bind] at h
      | some c' =>
        simp only [hlc, pure_bind] at h
        -- the tail shared by both sources of the value
        have tail : ∀ v, buildValue r values n = some v →
            (toUrl c' v >>= fun s => buildSide r values (traceToks toks) >>= fun rest => pure (s ++ rest)) = (Except.ok u : Except String Str) →
            ∃ ts text, valueTexts r values (Tok.var c n :: toks) = some ts ∧
              renderToks (Tok.var c n :: toks) ts = some text ∧ Closed u text := by
          intro v hbv h
          cases hu : toUrl c' v with
          | error e => simp [hu, bind, Except.bind] at h
          | ok s =>
            cases hrest : buildSide r values (traceToks toks) with
            | error e => simp [hu, hrest, bind, Except.bind] at h
            | ok rest =>
              simp only [hu, hrest, bind, Except.bind, pure, Except.pure, Except.ok.injEq] at h
              subst h
              obtain ⟨ts, text, h1, h2, h3⟩ := ih hrest hc.2
              refine ⟨unquote s :: ts, unquote s ++ text, by simp [valueTexts, hlc, hbv, hu, h1], by simp [renderToks, h2], ?_⟩
              exact (toUrl_closed hu (hc.1 c' v s hlc hbv hu)).append h3
        cases hd : lookupVal n r.defaults with
        | some d =>
          simp only [hd] at h
          exact tail d (by simp [buildValue, hd]) h
        | none =>
          simp only [hd] at h
          cases hvv : lookupVal n values with
          | none => simp [hvv, throw, throwThe, MonadExceptOf.throw, bind, Except.bind] at h
          | some v =>
            simp only [hvv] at h
            exact tail v (by simp [buildValue, hd, hvv]) h

end Wz.Routing

namespace Wz.Routing

/-! ### decidable forms of the hypotheses (for concrete examples) -/

def isoToksB : List Tok → Bool
  | [] => true
  | .slash :: t => isoToksB t
  | .lit s :: t => !s.contains '/' && isoToksB t
  | .var c _ :: t => c.partIsolating && isoToksB t

theorem isoToksB_sound : ∀ toks, isoToksB toks = true → IsoToks toks
  | [], _ => trivial
  | .slash :: t, h => isoToksB_sound t h
  | .lit s :: t, h => by
    simp only [isoToksB, Bool.and_eq_true, Bool.not_eq_true', List.contains_eq_mem, decide_eq_false_iff_not] at h
    exact ⟨h.1, isoToksB_sound t h.2⟩
  | .var c _ :: t, h => by
    simp only [isoToksB, Bool.and_eq_true] at h
    exact ⟨h.1, isoToksB_sound t h.2⟩

def allAcceptB : List RKind → List Str → Bool
  | [], [] => true
  | k :: ks, v :: vs => k.accepts v && allAcceptB ks vs
  | _, _ => false

theorem allAcceptB_sound : ∀ ks vs, allAcceptB ks vs = true → AllAccept ks vs
  | [], [], _ => trivial
  | k :: ks, v :: vs, h => by
    simp only [allAcceptB, Bool.and_eq_true] at h
    exact ⟨h.1, allAcceptB_sound ks vs h.2⟩
  | [], _ :: _, h => by simp [allAcceptB] at h
  | _ :: _, [], h => by simp [allAcceptB] at h

def urlsClosedB (r : Rule) (values : List (Str × Value)) : List Tok → Bool
  | [] => true
  | .var _ n :: t =>
    (match lookupConv n r.convs, buildValue r values n with
     | some c, some v => (match toUrl c v with | .ok s => c.quotes || !s.contains '%' | .error _ => true)
     | _, _ => true) && urlsClosedB r values t
  | _ :: t => urlsClosedB r values t

theorem urlsClosedB_sound (r : Rule) (values : List (Str × Value)) : ∀ toks, urlsClosedB r values toks = true →
    UrlsClosed r values toks
  | [], _ => trivial
  | .slash :: t, h => urlsClosedB_sound r values t h
  | .lit _ :: t, h => urlsClosedB_sound r values t h
  | .var _ n :: t, h => by
    simp only [urlsClosedB, Bool.and_eq_true] at h
    refine ⟨?_, urlsClosedB_sound r values t h.2⟩
    intro c v s hc hv hs
    have h1 := h.1
    simp only [hc, hv, hs, Bool.or_eq_true, Bool.not_eq_true', List.contains_eq_mem, decide_eq_false_iff_not] at h1
    exact h1

/-- all hypotheses of `rule_build_match_partial` about the values, as one computation -/
def buildDomainB (r : Rule) (values : List (Str × Value)) : Bool :=
  isoToksB r.pathToks && urlsClosedB r values r.pathToks &&
  (match valueTexts r values r.pathToks with
   | some ts => ts.all (fun t => !t.contains '/') && allAcceptB ((tokConvs r.pathToks).map Conv.kind) ts
   | none => true)

theorem buildDomainB_sound (r : Rule) (values : List (Str × Value)) (h : buildDomainB r values = true) :
    IsoToks r.pathToks ∧ UrlsClosed r values r.pathToks ∧
    (∀ ts, valueTexts r values r.pathToks = some ts →
      (∀ t ∈ ts, noSlash t) ∧ AllAccept ((tokConvs r.pathToks).map Conv.kind) ts) := by
  simp only [buildDomainB, Bool.and_eq_true] at h
  refine ⟨isoToksB_sound _ h.1.1, urlsClosedB_sound r values _ h.1.2, ?_⟩
  intro ts hts
  have h2 := h.2
  simp only [hts, Bool.and_eq_true, List.all_eq_true, Bool.not_eq_true', List.contains_eq_mem, decide_eq_false_iff_not] at h2
  exact ⟨fun t ht => h2.1 t ht, allAcceptB_sound _ _ h2.2⟩

end Wz.Routing
