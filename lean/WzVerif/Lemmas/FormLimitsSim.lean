/-
C10: limits only add raise points, in both directions — a run under limits either raises
RequestEntityTooLarge or is, event for event and *error for error*, the run without limits.
(Lemmas/FormLimits.lean has the success direction; this file adds the failing runs, which the
request level needs because `silent=True` turns a ValueError into an empty form.) Core Lean only.
-/
import WzVerif.Lemmas.FormLimits
import WzVerif.Model.FormLimitsRequest
namespace Wz.Multipart
open Wz

def R413 : String := "RequestEntityTooLarge"

def mapDec (f : Decoder → Decoder) : Except String (Event × Decoder) → Except String (Event × Decoder)
  | .error e => .error e
  | .ok (ev, d) => .ok (ev, f d)

theorem receive_unl' (d : Decoder) (c : Option Bytes) :
    receive d c = .error R413 ∨ receive (unl d) c = (receive d c).map unl := by
  rcases d with ⟨bnd, buf, st, cpl, sp, pd, mm, mp⟩
  cases c with
  | none => right; simp [receive, unl, Except.map]
  | some c =>
    cases mm with
    | none => right; simp [receive, unl, Except.map]
    | some m =>
      by_cases h : buf.length + c.length > m
      · left; simp [receive, h, R413]
      · right; simp [receive, h, unl, Except.map]

theorem stepData_unl' (d : Decoder) (start : Bool) :
    stepData (unl d) start = mapDec unl (stepData d start) := by
  rcases d with ⟨bnd, buf, st, cpl, sp, pd, mm, mp⟩
  simp only [stepData, unl]
  cases dataStep bnd start buf with
  | error e => rfl
  | ok r =>
    rcases r with ⟨p, buf', start', nx⟩
    simp only
    split
    · rfl
    · split <;> rfl

theorem step_unl' (d : Decoder) :
    step d = .error R413 ∨ step (unl d) = mapDec unl (step d) := by
  rcases d with ⟨bnd, buf, st, cpl, sp, pd, mm, mp⟩
  cases st with
  | preamble =>
    right
    simp only [step, unl]
    cases searchDelimFrom bnd true sp buf with
    | none => rfl
    | some r => rcases r with ⟨s, e, f⟩; rfl
  | dataStart => right; exact stepData_unl' _ true
  | data => right; exact stepData_unl' _ false
  | epilogue => right; simp only [step, unl]; cases cpl <;> rfl
  | complete => right; rfl
  | part =>
    simp only [step, unl]
    cases searchBlankFrom sp buf with
    | none => right; rfl
    | some r =>
      rcases r with ⟨s, e⟩
      simp only
      cases parseHeaders (buf.take s) with
      | error er => right; rfl
      | ok headers =>
        simp only
        cases headerGet "content-disposition".toList headers with
        | none => right; rfl
        | some cd =>
          simp only
          cases FormOptions.parseOptionsHeader cd with
          | error er => right; rfl
          | ok r =>
            rcases r with ⟨v, extra⟩
            simp only
            cases mp with
            | none => right; rfl
            | some m =>
              simp only
              by_cases h : pd + 1 > m
              · left; simp [h, R413]
              · right; simp [h, mapDec, unl]

theorem nextEvent_unl' (d : Decoder) :
    nextEvent d = .error R413 ∨ nextEvent (unl d) = mapDec unl (nextEvent d) := by
  rcases step_unl' d with h | h
  · left; simp [nextEvent, h]
  · right
    have hc : (unl d).complete = d.complete := rfl
    simp only [nextEvent, h, hc]
    cases step d with
    | error e => rfl
    | ok p =>
      rcases p with ⟨ev, d'⟩
      simp only [mapDec]
      split <;> rfl

theorem drain_events_prefix (fuel : Nat) : ∀ (d : Decoder) (acc : List Event),
    ∃ more, (drain fuel d acc).events = acc.reverse ++ more := by
  induction fuel with
  | zero => intro d acc; exact ⟨[], by simp [drain]⟩
  | succ fuel ih =>
    intro d acc
    simp only [drain]
    cases nextEvent d with
    | error e => exact ⟨[], by simp⟩
    | ok v =>
      rcases v with ⟨ev, d'⟩
      cases ev with
      | needData => exact ⟨[], by simp⟩
      | epilogue x => exact ⟨[.epilogue x], by simp⟩
      | preamble x => rcases ih d' (.preamble x :: acc) with ⟨m, hm⟩; exact ⟨.preamble x :: m, by simp [hm]⟩
      | field n hd => rcases ih d' (.field n hd :: acc) with ⟨m, hm⟩; exact ⟨.field n hd :: m, by simp [hm]⟩
      | file n f hd => rcases ih d' (.file n f hd :: acc) with ⟨m, hm⟩; exact ⟨.file n f hd :: m, by simp [hm]⟩
      | data x mo => rcases ih d' (.data x mo :: acc) with ⟨m, hm⟩; exact ⟨.data x mo :: m, by simp [hm]⟩

/-- a drain under limits either ends in RequestEntityTooLarge — and then the events it delivered are a
prefix of the events without limits — or is the drain without limits -/
theorem drain_unl' (fuel : Nat) : ∀ (d : Decoder) (acc : List Event),
    ((drain fuel d acc).err = some R413 ∧ ∃ more, (drain fuel (unl d) acc).events = (drain fuel d acc).events ++ more) ∨
    drain fuel (unl d) acc = (drain fuel d acc).unl := by
  induction fuel with
  | zero => intro d acc; right; simp [drain, Run.unl]
  | succ fuel ih =>
    intro d acc
    rcases nextEvent_unl' d with h | h
    · left
      refine ⟨by simp [drain, h], ?_⟩
      rcases drain_events_prefix (fuel + 1) (unl d) acc with ⟨more, hm⟩
      exact ⟨more, by rw [hm]; simp [drain, h]⟩
    · simp only [drain]
      rw [h]
      cases hn : nextEvent d with
      | error e => right; simp [mapDec, Run.unl]
      | ok v =>
        rcases v with ⟨ev, d'⟩
        simp only [mapDec]
        cases ev with
        | needData => right; simp [Run.unl]
        | epilogue x => right; simp [Run.unl]
        | preamble x => exact ih d' _
        | field n hd => exact ih d' _
        | file n f hd => exact ih d' _
        | data x m => exact ih d' _

theorem feed_unl' (d : Decoder) (c : Option Bytes) :
    ((feed d c).err = some R413 ∧ ∃ more, (feed (unl d) c).events = (feed d c).events ++ more) ∨
    feed (unl d) c = (feed d c).unl := by
  unfold feed
  rcases receive_unl' d c with h | h
  · left; simp [h]
  · rw [h]
    cases hr : receive d c with
    | error e => right; simp [Except.map, Run.unl]
    | ok d' =>
      simp only [Except.map]
      have : drainFuel (unl d') = drainFuel d' := rfl
      rw [this]
      exact drain_unl' _ d' []

/-! ### the parser loop -/

/-- two outcomes of the parser loop agree: both succeed with states that differ at most in the running
field size, or both fail with the same exception -/
def ESim : Except String FormState → Except String FormState → Prop
  | .ok a, .ok b => FormState.Sim a b
  | .error e, .error e' => e = e'
  | _, _ => False

theorem formEvent_unl' {m : Option Nat} {st st1 : FormState} (ev : Event) (hs : FormState.Sim st st1) :
    formEvent m st ev = .error R413 ∨ ESim (formEvent m st ev) (formEvent none st1 ev) := by
  rcases hs with ⟨h1, h2, h3⟩
  cases ev with
  | field n h => right; simp [formEvent, ESim, FormState.Sim, h2, h3]
  | file n f h => right; simp [formEvent, ESim, FormState.Sim, h2, h3]
  | preamble x => right; exact ⟨h1, h2, h3⟩
  | epilogue x => right; exact ⟨h1, h2, h3⟩
  | needData => right; exact ⟨h1, h2, h3⟩
  | data x more =>
    simp only [formEvent]
    have hfree : ∀ fs, fieldSizeStep none fs x.length = .ok fs := by intro fs; cases fs <;> rfl
    rw [hfree]
    simp only [h1]
    cases hf : fieldSizeStep m st.fieldSize x.length with
    | error e =>
      left
      unfold fieldSizeStep at hf
      split at hf
      · split at hf
        · simp at hf; subst hf; rfl
        · simp at hf
      · simp at hf
    | ok fsz =>
      right
      simp only
      cases st.cur with
      | none => simp [ESim]
      | some p =>
        simp only
        cases more with
        | true => simp [ESim, FormState.Sim, h2, h3]
        | false =>
          simp only [Bool.false_eq_true, if_false]
          split
          · simp [ESim, FormState.Sim, h2, h3]
          · cases partCharset p.headers with
            | error e => simp [ESim]
            | ok cs => simp [ESim, FormState.Sim, h2, h3]

theorem formEvents_unl' {m : Option Nat} (evs : List Event) : ∀ {st st1 : FormState}, FormState.Sim st st1 →
    formEvents m st evs = .error R413 ∨ ESim (formEvents m st evs) (formEvents none st1 evs) := by
  induction evs with
  | nil => intro st st1 hs; right; exact hs
  | cons ev t ih =>
    intro st st1 hs
    simp only [formEvents]
    rcases formEvent_unl' (m := m) ev hs with h | h
    · left; simp [h]
    · cases h1 : formEvent m st ev with
      | error e =>
        rw [h1] at h
        cases h2 : formEvent none st1 ev with
        | error e' => rw [h2] at h; right; exact h
        | ok b => rw [h2] at h; exact absurd h id
      | ok a =>
        rw [h1] at h
        cases h2 : formEvent none st1 ev with
        | error e' => rw [h2] at h; exact absurd h id
        | ok b => rw [h2] at h; exact ih h

theorem formEvents_append_error {m : Option Nat} (a b : List Event) : ∀ {st : FormState} {e : String},
    formEvents m st a = .error e → formEvents m st (a ++ b) = .error e := by
  induction a with
  | nil => intro st e h; simp [formEvents] at h
  | cons ev t ih =>
    intro st e h
    simp only [List.cons_append, formEvents] at h ⊢
    cases hf : formEvent m st ev with
    | error e' => rw [hf] at h; exact h
    | ok st' => rw [hf] at h; exact ih h

open Wz.FormReq in
/-- **the parser loop under limits** either raises RequestEntityTooLarge or ends exactly like the loop
without limits: same fields and files or same exception, after the same number of chunks -/
theorem formLoopN_unl' {m : Option Nat} (cs : List (Option Bytes)) : ∀ (d : Decoder) {st st1 : FormState},
    FormState.Sim st st1 →
    (formLoopN m d st cs).1 = .error R413 ∨
    (ESim (formLoopN m d st cs).1 (formLoopN none (unl d) st1 cs).1 ∧
      (formLoopN m d st cs).2 = (formLoopN none (unl d) st1 cs).2) := by
  induction cs with
  | nil => intro d st st1 hs; right; exact ⟨hs, rfl⟩
  | cons c t ih =>
    intro d st st1 hs
    simp only [formLoopN]
    rcases feed_unl' d c with ⟨herr, more, hmore⟩ | hfeed
    · -- the feed itself ends in 413: whatever the events so far do, the limited loop stops here
      rcases formEvents_unl' (m := m) (feed d c).events hs with h | h
      · left; simp [h]
      · cases h1 : formEvents m st (feed d c).events with
        | ok a => left; simp [herr]
        | error e =>
          rw [h1] at h
          cases h2 : formEvents none st1 (feed d c).events with
          | ok b => rw [h2] at h; exact absurd h id
          | error e' =>
            rw [h2] at h
            have : e = e' := h
            subst this
            right
            rw [hmore, formEvents_append_error _ more h2]
            exact ⟨rfl, rfl⟩
    · rw [hfeed]
      have hev : (feed d c).unl.events = (feed d c).events := rfl
      have her : (feed d c).unl.err = (feed d c).err := rfl
      have hdc : (feed d c).unl.dec = unl (feed d c).dec := rfl
      rw [hev, her, hdc]
      rcases formEvents_unl' (m := m) (feed d c).events hs with h | h
      · left; simp [h]
      · cases h1 : formEvents m st (feed d c).events with
        | error e =>
          rw [h1] at h
          cases h2 : formEvents none st1 (feed d c).events with
          | ok b => rw [h2] at h; exact absurd h id
          | error e' => rw [h2] at h; right; exact ⟨h, rfl⟩
        | ok a =>
          rw [h1] at h
          cases h2 : formEvents none st1 (feed d c).events with
          | error e' => rw [h2] at h; exact absurd h id
          | ok b =>
            rw [h2] at h
            simp only
            cases (feed d c).err with
            | some e => right; exact ⟨rfl, rfl⟩
            | none =>
              simp only
              rcases ih (feed d c).dec h with h' | ⟨h', hn⟩
              · left; exact h'
              · right; exact ⟨h', by rw [hn]⟩

/-! ### the guards are exact -/

theorem fieldSizeStep_exact (m sz n : Nat) :
    (fieldSizeStep (some m) (some sz) n = .error "RequestEntityTooLarge" ↔ sz + n > m) ∧
    (fieldSizeStep (some m) (some sz) n = .ok (some (sz + n)) ↔ sz + n ≤ m) := by
  unfold fieldSizeStep
  by_cases h : sz + n > m
  · simp [h]
  · simp [h]; omega

/-- the part counter refuses exactly the (max_parts + 1)-th part -/
theorem step_part_exact {d : Decoder} {k : Nat} {ev : Event} {d' : Decoder} (hk : d.maxParts = some k)
    (hfree : step { d with maxParts := none } = .ok (ev, d')) (hp : isPart ev = true) :
    (step d = .error "RequestEntityTooLarge" ↔ d.partsDecoded + 1 > k) ∧
    (step d = .ok (ev, { d' with maxParts := some k }) ↔ d.partsDecoded + 1 ≤ k) := by
  rcases d with ⟨bnd, buf, st, cpl, sp, pd, mm, mp⟩
  simp only at hk
  subst hk
  cases st with
  | preamble =>
    simp only [step] at hfree
    split at hfree <;> (simp at hfree; rcases hfree with ⟨rfl, _⟩; simp [isPart] at hp)
  | dataStart =>
    simp only [step] at hfree
    have := (stepData_ok hfree).2.2.2.1
    rw [hp] at this; cases this
  | data =>
    simp only [step] at hfree
    have := (stepData_ok hfree).2.2.2.1
    rw [hp] at this; cases this
  | epilogue =>
    simp only [step] at hfree
    split at hfree <;> (simp at hfree; rcases hfree with ⟨rfl, _⟩; simp [isPart] at hp)
  | complete =>
    simp [step] at hfree; rcases hfree with ⟨rfl, _⟩; simp [isPart] at hp
  | part =>
    simp only [step] at hfree ⊢
    cases hsb : searchBlankFrom sp buf with
    | none => rw [hsb] at hfree; simp at hfree; rcases hfree with ⟨rfl, _⟩; simp [isPart] at hp
    | some r =>
      rcases r with ⟨s, e⟩
      rw [hsb] at hfree
      simp only at hfree ⊢
      cases hph : parseHeaders (buf.take s) with
      | error er => rw [hph] at hfree; simp at hfree
      | ok headers =>
        rw [hph] at hfree
        simp only at hfree ⊢
        cases hcd : headerGet "content-disposition".toList headers with
        | none => rw [hcd] at hfree; simp at hfree
        | some cd =>
          rw [hcd] at hfree
          simp only at hfree ⊢
          cases hpo : FormOptions.parseOptionsHeader cd with
          | error er => rw [hpo] at hfree; simp at hfree
          | ok r =>
            rcases r with ⟨v, extra⟩
            rw [hpo] at hfree
            simp only at hfree ⊢
            simp only [Except.ok.injEq, Prod.mk.injEq] at hfree
            rcases hfree with ⟨rfl, rfl⟩
            by_cases h : pd + 1 > k
            · simp [h]
            · simp [h]; omega
end Wz.Multipart
