import WzVerif.Lemmas.HttpEtag
set_option linter.unusedSimpArgs false
namespace Wz.Http
open Wz

/-! ### parse_etags is a normal form on arbitrary header text -/

/-- after optional white space comes a comma -/
def commaNext (x : Str) : Bool :=
  match x.dropWhile Py.isSpace with
  | ',' :: _ => true
  | _ => false

theorem commaNext_cons_space {c : Char} (x : Str) (h : Py.isSpace c = true) : commaNext (c :: x) = commaNext x := by
  simp [commaNext, List.dropWhile_cons, h]

theorem commaNext_cons_nonspace {c : Char} (x : Str) (h : Py.isSpace c = false) : commaNext (c :: x) = (c == ',') := by
  simp only [commaNext, List.dropWhile_cons, h, Bool.false_eq_true, if_false]
  by_cases hc : c = ','
  · subst hc; rfl
  · have : (c == ',') = false := by simpa using hc
    rw [this]
    split
    · next heq => simp at heq; exact absurd heq.1 hc
    · rfl

theorem commaNext_append (b y : Str) : commaNext (b ++ y) = if b.all Py.isSpace then commaNext y else commaNext b := by
  induction b with
  | nil => simp
  | cons c t ih =>
    by_cases hc : Py.isSpace c = true
    · simp only [List.cons_append, commaNext_cons_space _ hc, ih, List.all_cons, hc, Bool.true_and]
    · have hc' : Py.isSpace c = false := by simpa using hc
      simp [commaNext_cons_nonspace _ hc', hc']

theorem commaNext_dq (b r1 r2 : Str) : commaNext (b ++ '"' :: r1) = commaNext (b ++ '"' :: r2) := by
  rw [commaNext_append, commaNext_append]
  have : ∀ r, commaNext ('"' :: r) = false := fun r => by
    rw [commaNext_cons_nonspace _ (by decide)]; decide
  simp [this]

theorem etagTerm_none_of (x : Str) (h1 : commaNext x = false) (h2 : x ≠ []) (h3 : x ≠ ['\n']) : etagTerm? x = none := by
  unfold etagTerm?
  unfold commaNext at h1
  split
  · next r2 heq => rw [heq] at h1; simp at h1
  · have e1 : x.isEmpty = false := by cases x <;> simp_all
    have e2 : (x == ['\n']) = false := by simpa using h3
    simp [e1, e2]

theorem commaNext_of_etagTerm_none (x : Str) (h : etagTerm? x = none) : commaNext x = false := by
  unfold etagTerm? at h
  unfold commaNext
  split at h
  · simp at h
  · next hno =>
    split
    · next r heq => exact absurd heq (hno r)
    · rfl

/-- a tag whose quoted form `"t"` is read back whole: no LF, and no inner `"` is followed by
(white space and) a comma -/
def Closed (t : Str) : Prop :=
  '\n' ∉ t ∧ ∀ a b, t = a ++ '"' :: b → ∀ r, commaNext (b ++ '"' :: r) = false

theorem closed_tail {c : Char} {t : Str} (h : Closed (c :: t)) : Closed t :=
  ⟨fun hm => h.1 (by simp [hm]), fun a b hab r => h.2 (c :: a) b (by simp [hab]) r⟩

theorem closed_of_tagOk {t : Str} (h : TagOk t = true) : Closed t := by
  simp only [TagOk, Bool.and_eq_true, Bool.not_eq_true'] at h
  refine ⟨by simpa using h.2, ?_⟩
  intro a b hab r
  exfalso
  have : '"' ∈ t := by rw [hab]; simp
  simp [List.contains_iff_mem] at h
  exact h.1 this

theorem etagAlt1_closed (t rest rest' acc : Str) (hc : Closed t) (ht : etagTerm? rest = some rest') :
    etagAlt1 (t ++ '"' :: rest) acc = some (acc.reverse ++ t, rest') := by
  induction t generalizing acc with
  | nil => simp [etagAlt1, ht]
  | cons c u ih =>
    have hn : c ≠ '\n' := fun e => hc.1 (by simp [e])
    have := ih (c :: acc) (closed_tail hc)
    by_cases hq : c = '"'
    · subst hq
      have hcn := hc.2 [] u rfl rest
      have hne : u ++ '"' :: rest ≠ [] := by simp
      have hne2 : u ++ '"' :: rest ≠ ['\n'] := by
        intro e
        have : ('"' : Char) ∈ u ++ '"' :: rest := by simp
        rw [e] at this; simp at this
      have htn := etagTerm_none_of _ hcn hne hne2
      simp [etagAlt1, htn, this]
    · simp [etagAlt1, hq, dotCh, hn, this]

end Wz.Http
namespace Wz.Http
open Wz

/-- what `"(.*?)"` + terminator captures is closed -/
theorem etagAlt1_out (body acc t rest : Str) (h : etagAlt1 body acc = some (t, rest)) :
    ∃ u rest0, t = acc.reverse ++ u ∧ body = u ++ '"' :: rest0 ∧ '\n' ∉ u ∧
      ∀ a b, u = a ++ '"' :: b → ∀ r, commaNext (b ++ '"' :: r) = false := by
  induction body generalizing acc with
  | nil => simp [etagAlt1] at h
  | cons c t' ih =>
    rw [etagAlt1] at h
    split at h
    · next hq =>
      have hq' : c = '"' := by simpa using hq
      subst hq'
      split at h
      · next rest1 ht =>
        simp only [Option.some.injEq, Prod.mk.injEq] at h
        exact ⟨[], t', by simp [h.1], rfl, by simp, by intro a b hab; cases a <;> simp at hab⟩
      · next ht =>
        obtain ⟨u, rest0, h1, h2, h3, h4⟩ := ih _ h
        refine ⟨'"' :: u, rest0, by simp [h1], by simp [h2], by simp [h3], ?_⟩
        intro a b hab r
        cases a with
        | nil =>
          simp only [List.nil_append, List.cons.injEq, true_and] at hab
          subst hab
          have := commaNext_of_etagTerm_none _ ht
          rw [h2] at this
          rw [commaNext_dq u r rest0]; exact this
        | cons x a' =>
          simp only [List.cons_append, List.cons.injEq] at hab
          exact h4 a' b hab.2 r
    · next hq =>
      split at h
      · next hd =>
        have hcq : c ≠ '"' := by simpa using hq
        have hcn : c ≠ '\n' := by simpa [dotCh] using hd
        obtain ⟨u, rest0, h1, h2, h3, h4⟩ := ih _ h
        refine ⟨c :: u, rest0, by simp [h1], by simp [h2], by simp [h3, Ne.symm hcn], ?_⟩
        intro a b hab r
        cases a with
        | nil => simp at hab; exact absurd hab.1 hcq
        | cons x a' =>
          simp only [List.cons_append, List.cons.injEq] at hab
          exact h4 a' b hab.2 r
      · simp at h

theorem commaNext_all_space {b : Str} (h : b.all Py.isSpace = true) : commaNext b = false := by
  have : b.dropWhile Py.isSpace = [] := by
    induction b with
    | nil => rfl
    | cons c t ih =>
      simp only [List.all_cons, Bool.and_eq_true] at h
      simp [List.dropWhile_cons, h.1, ih h.2]
  simp [commaNext, this]

/-- what `(.*?)` + terminator captures has no comma after optional white space anywhere -/
theorem etagAlt2_out (q acc t rest : Str) (h : etagAlt2 q acc = some (t, rest)) :
    ∃ u rest0, t = acc.reverse ++ u ∧ q = u ++ rest0 ∧ '\n' ∉ u ∧ ∀ a b, u = a ++ b → b ≠ [] → commaNext b = false := by
  induction q generalizing acc with
  | nil =>
    unfold etagAlt2 at h
    simp only [Option.some.injEq, Prod.mk.injEq] at h
    exact ⟨[], [], by simp [h.1], rfl, by simp, by intro a b hab hb; exact absurd (List.append_eq_nil_iff.mp hab.symm).2 hb⟩
  | cons c q' ih =>
    unfold etagAlt2 at h
    split at h
    · simp only [Option.some.injEq, Prod.mk.injEq] at h
      exact ⟨[], c :: q', by simp [h.1], rfl, by simp, by intro a b hab hb; exact absurd (List.append_eq_nil_iff.mp hab.symm).2 hb⟩
    · next ht =>
      split at h
      · next hd =>
        have hcn : c ≠ '\n' := by simpa [dotCh] using hd
        obtain ⟨u, rest0, h1, h2, h3, h4⟩ := ih _ h
        refine ⟨c :: u, rest0, by simp [h1], by simp [h2], by simp [h3, Ne.symm hcn], ?_⟩
        intro a b hab hb
        cases a with
        | nil =>
          simp only [List.nil_append] at hab
          subst hab
          have hcn2 := commaNext_of_etagTerm_none _ ht
          rw [h2, ← List.cons_append, commaNext_append] at hcn2
          by_cases hall : (c :: u).all Py.isSpace = true
          · exact commaNext_all_space hall
          · simpa [hall] using hcn2
        | cons x a' =>
          simp only [List.cons_append, List.cons.injEq] at hab
          exact h4 a' b hab.2 hb
      · simp at h

/-- `elif quoted is not None: raw = quoted` -/
def storedTag (a b : Option Str) : Option Str :=
  match a with
  | some x => some x
  | none => b

/-- the element `parse_etags` stores for one regex match is a closed tag -/
theorem etagBody_closed (q rest : Str) (a b : Option Str) (h : etagBody q = some (a, b, rest)) :
    ∃ t, storedTag a b = some t ∧ Closed t := by
  unfold etagBody at h
  simp only at h
  split at h
  · next x hx =>
    split at hx
    · next body =>
      cases ha : etagAlt1 body [] with
      | none => rw [ha] at hx; simp at hx
      | some br =>
        obtain ⟨b0, r0⟩ := br
        rw [ha] at hx
        simp only [Option.map_some, Option.some.injEq] at hx
        rw [← hx] at h
        simp only [Option.some.injEq, Prod.mk.injEq] at h
        obtain ⟨u, rest0, h1, _, h3, h4⟩ := etagAlt1_out body [] b0 r0 ha
        simp only [List.reverse_nil, List.nil_append] at h1
        refine ⟨b0, by rw [← h.1]; rfl, ?_⟩
        rw [h1]; exact ⟨h3, h4⟩
    · simp at hx
  · cases ha : etagAlt2 q [] with
    | none => rw [ha] at h; simp at h
    | some br =>
      obtain ⟨b0, r0⟩ := br
      rw [ha] at h
      simp only [Option.map_some, Option.some.injEq, Prod.mk.injEq] at h
      obtain ⟨u, rest0, h1, _, h3, h4⟩ := etagAlt2_out q [] b0 r0 ha
      simp only [List.reverse_nil, List.nil_append] at h1
      refine ⟨b0, by rw [← h.1, ← h.2.1]; rfl, ?_⟩
      rw [h1]
      refine ⟨h3, ?_⟩
      intro a' b' hab r
      rw [commaNext_append]
      have hd : commaNext ('"' :: r) = false := by rw [commaNext_cons_nonspace _ (by decide)]; decide
      split
      · exact hd
      · next hns =>
        have hb' : b' ≠ [] := by intro e; rw [e] at hns; simp at hns
        exact h4 (a' ++ ['"']) b' (by simp [hab]) hb'

end Wz.Http

namespace Wz.Http
open Wz

theorem etagMatch_item_closed (it : Bool × Str) (rest rest' : Str) (hok : Closed it.2)
    (ht : etagTerm? rest = some rest') :
    etagMatch (etagItemText it ++ rest) = some (it.1, some it.2, none, rest') := by
  obtain ⟨w, x⟩ := it
  have hb : etagBody ('"' :: (x ++ '"' :: rest)) = some (some x, none, rest') := by
    simp [etagBody, etagAlt1_closed x rest rest' [] hok ht]
  cases w with
  | true =>
    simp only [etagItemText, if_true, List.cons_append, List.nil_append, List.append_assoc]
    simp [etagMatch, hb]
  | false =>
    simp only [etagItemText, Bool.false_eq_true, if_false, List.nil_append, List.cons_append, List.append_assoc]
    unfold etagMatch
    split
    · next w q heq =>
      simp at heq
      have hw : (w == 'W' || w == 'w') = false := by rw [← heq.1]; decide
      simp only [hw, Bool.false_eq_true, if_false]
      rw [← heq.1] at *
      simp [hb]
    · simp [hb]


theorem parseEtagsGo_items_closed (it : Bool × Str) (items : List (Bool × Str)) (fuel : Nat)
    (sacc wacc : List (Option Str))
    (hok : ∀ x ∈ it :: items, Closed x.2) (hf : items.length < fuel) :
    parseEtagsGo fuel (join ", " ((it :: items).map etagItemText)) sacc wacc
      = ⟨sacc.reverse ++ etagStrongs (it :: items), wacc.reverse ++ etagWeaks (it :: items), false⟩ := by
  induction items generalizing it fuel sacc wacc with
  | nil =>
    cases fuel with
    | zero => simp at hf
    | succ f =>
      obtain ⟨c, t, hct, _⟩ := etagItemText_head it
      have hm := etagMatch_item_closed it [] [] (hok it (by simp)) etagTerm_nil
      simp only [List.append_nil] at hm
      have hne : (etagItemText it).isEmpty = false := by rw [hct]; rfl
      simp only [join, List.map_cons, List.map_nil, List.intercalate_singleton, parseEtagsGo, hne,
        Bool.false_eq_true, if_false, hm]
      obtain ⟨w, x⟩ := it
      cases f with
      | zero => cases w <;> simp [parseEtagsGo, etagStrongs, etagWeaks]
      | succ f' => cases w <;> simp [parseEtagsGo, etagStrongs, etagWeaks]
  | cons y ys ih =>
    cases fuel with
    | zero => simp at hf
    | succ f =>
      have hj : join ", " ((it :: y :: ys).map etagItemText)
          = etagItemText it ++ (", ".toList ++ join ", " ((y :: ys).map etagItemText)) := by
        simp [join, List.intercalate_cons_cons]
      obtain ⟨c, t, hct, _⟩ := etagItemText_head it
      have hhead : ∀ c, (join ", " ((y :: ys).map etagItemText)).head? = some c → Py.isSpace c = false := by
        intro c hc
        obtain ⟨c', t', hct', hsp⟩ := etagItemText_head y
        cases ys with
        | nil => simp [join, hct'] at hc; subst hc; exact hsp
        | cons z zs =>
          simp [join, List.intercalate_cons_cons, hct'] at hc; subst hc; exact hsp
      have hm := etagMatch_item_closed it _ _ (hok it (by simp)) (etagTerm_sep _ hhead)
      have hne : (etagItemText it ++ (", ".toList ++ join ", " ((y :: ys).map etagItemText))).isEmpty = false := by
        rw [hct]; rfl
      rw [hj]
      simp only [parseEtagsGo, hne, Bool.false_eq_true, if_false, hm]
      obtain ⟨w, x⟩ := it
      have hok' : ∀ x ∈ y :: ys, Closed x.2 := fun z hz => hok z (by simp at hz ⊢; right; exact hz)
      have hf' : ys.length < f := by simp at hf; omega
      cases w with
      | true =>
        simp only [if_true]
        rw [ih y f sacc (some x :: wacc) hok' hf']
        simp [etagStrongs, etagWeaks]
      | false =>
        simp only [Bool.false_eq_true, if_false]
        rw [ih y f (some x :: sacc) wacc hok' hf']
        simp [etagStrongs, etagWeaks]


theorem etags_roundtrip_closed (strong weak : List Str)
    (hs : ∀ x ∈ strong, Closed x) (hw : ∀ x ∈ weak, Closed x) :
    parseEtags (etagsToHeader ⟨strong.map some, weak.map some, false⟩)
      = ⟨strong.map some, weak.map some, false⟩ := by
  let items : List (Bool × Str) := strong.map (fun x => (false, x)) ++ weak.map (fun x => (true, x))
  have hhdr : etagsToHeader ⟨strong.map some, weak.map some, false⟩ = join ", " (items.map etagItemText) := by
    simp [etagsToHeader, items, etagItemText, etagElemText, Function.comp_def]
  have hS : etagStrongs items = strong.map some := by
    have f1 : ∀ l : List Str, l.filter (fun _ => true) = l := fun l => by induction l <;> simp_all
    have f2 : ∀ l : List Str, l.filter (fun _ => false) = [] := fun l => by induction l <;> simp_all
    simp [etagStrongs, items, List.filter_append, List.filter_map, Function.comp_def, f1, f2]
  have hW : etagWeaks items = weak.map some := by
    have f1 : ∀ l : List Str, l.filter (fun _ => true) = l := fun l => by induction l <;> simp_all
    have f2 : ∀ l : List Str, l.filter (fun _ => false) = [] := fun l => by induction l <;> simp_all
    simp [etagWeaks, items, List.filter_append, List.filter_map, Function.comp_def, f1, f2]
  have hok : ∀ x ∈ items, Closed x.2 := by
    intro x hx
    simp only [items, List.mem_append, List.mem_map] at hx
    rcases hx with ⟨y, hy, rfl⟩ | ⟨y, hy, rfl⟩
    · exact hs y hy
    · exact hw y hy
  rw [hhdr]
  unfold parseEtags
  cases hi : items with
  | nil =>
    simp [join, parseEtagsGo]
    have h1 : strong = [] := by
      cases strong with
      | nil => rfl
      | cons _ _ => simp [items] at hi
    have h2 : weak = [] := by
      cases weak with
      | nil => rfl
      | cons _ _ => simp [items] at hi
    simp [h1, h2]
  | cons it rest =>
    have hlen := length_intercalate_ge ", ".toList ((it :: rest).map etagItemText) (by
      intro x hx
      simp only [List.mem_map] at hx
      obtain ⟨y, _, rfl⟩ := hx
      obtain ⟨c, t, h, _⟩ := etagItemText_head y
      rw [h]; simp)
    rw [parseEtagsGo_items_closed it rest _ [] [] (by rw [← hi]; exact hok) (by
      simp only [join]; simp at hlen ⊢; omega)]
    rw [← hi, hS, hW]
    simp


end Wz.Http
namespace Wz.Http
open Wz

def GoodElem (x : Option Str) : Prop := ∃ t, x = some t ∧ Closed t

theorem etagMatch_closed (s rest : Str) (w : Bool) (a b : Option Str) (h : etagMatch s = some (w, a, b, rest)) :
    GoodElem (storedTag a b) := by
  have hplain : ∀ {x : Option (Option Str × Option Str × Str)},
      (x.map fun (a, b, r) => (false, a, b, r)) = some (w, a, b, rest) → x = some (a, b, rest) := by
    intro x hx
    cases x with
    | none => simp at hx
    | some y => obtain ⟨a', b', r'⟩ := y; simp at hx; simp [hx]
  unfold etagMatch at h
  simp only at h
  split at h
  · next w0 q =>
    split at h
    · split at h
      · next a' b' r' hq =>
        simp only [Option.some.injEq, Prod.mk.injEq] at h
        rw [← h.2.1, ← h.2.2.1]
        exact etagBody_closed q r' a' b' hq
      · exact etagBody_closed _ rest a b (hplain h)
    · exact etagBody_closed _ rest a b (hplain h)
  · exact etagBody_closed _ rest a b (hplain h)

theorem done_good (st wk : List (Option Str)) (hs : ∀ x ∈ st, GoodElem x) (hw : ∀ x ∈ wk, GoodElem x) :
    (⟨st.reverse, wk.reverse, false⟩ : ETags).star = false ∧
      (∀ x ∈ (⟨st.reverse, wk.reverse, false⟩ : ETags).strong, GoodElem x) ∧
      ∀ x ∈ (⟨st.reverse, wk.reverse, false⟩ : ETags).weak, GoodElem x :=
  ⟨rfl, fun x hx => hs x (by simpa using hx), fun x hx => hw x (by simpa using hx)⟩

theorem good_cons {x : Option Str} {l : List (Option Str)} (hx : GoodElem x) (hl : ∀ y ∈ l, GoodElem y) :
    ∀ y ∈ x :: l, GoodElem y := by
  intro y hy
  rw [List.mem_cons] at hy
  rcases hy with rfl | hy
  · exact hx
  · exact hl y hy

theorem parseEtagsGo_good (fuel : Nat) (s : Str) (st wk : List (Option Str))
    (hs : ∀ x ∈ st, GoodElem x) (hw : ∀ x ∈ wk, GoodElem x) :
    (parseEtagsGo fuel s st wk = ⟨[], [], true⟩) ∨
    ((parseEtagsGo fuel s st wk).star = false ∧ (∀ x ∈ (parseEtagsGo fuel s st wk).strong, GoodElem x)
      ∧ ∀ x ∈ (parseEtagsGo fuel s st wk).weak, GoodElem x) := by
  induction fuel generalizing s st wk with
  | zero => right; simpa [parseEtagsGo] using done_good st wk hs hw
  | succ f ih =>
    rw [parseEtagsGo]
    split
    · right; exact done_good st wk hs hw
    · split
      · right; exact done_good st wk hs hw
      · next w a b rest hm =>
        have hg := etagMatch_closed s rest w a b hm
        cases a with
        | none =>
          simp only [storedTag] at hg
          split
          · left; rfl
          · simp only []
            split
            · exact ih rest st _ hs (good_cons hg hw)
            · exact ih rest _ wk (good_cons hg hs) hw
        | some q =>
          simp only [storedTag] at hg
          split
          · left; rfl
          · simp only []
            split
            · exact ih rest st _ hs (good_cons hg hw)
            · exact ih rest _ wk (good_cons hg hs) hw

theorem good_list (l : List (Option Str)) (h : ∀ x ∈ l, GoodElem x) :
    ∃ ts : List Str, l = ts.map some ∧ ∀ t ∈ ts, Closed t := by
  induction l with
  | nil => exact ⟨[], rfl, by simp⟩
  | cons x t ih =>
    obtain ⟨ts, h1, h2⟩ := ih (fun y hy => h y (by simp [hy]))
    obtain ⟨u, hu, hc⟩ := h x (by simp)
    refine ⟨u :: ts, by simp [hu, h1], ?_⟩
    intro y hy
    simp only [List.mem_cons] at hy
    rcases hy with rfl | hy
    · exact hc
    · exact h2 y hy

/-- `parse_etags` is a normal form for **arbitrary** header text: re-serialising the parsed
collection and parsing again gives the same collection -/
theorem etags_normal_form_any (h : Str) :
    parseEtags (etagsToHeader (parseEtags h)) = parseEtags h := by
  unfold parseEtags
  rcases parseEtagsGo_good (h.length + 1) h [] [] (by simp) (by simp) with hstar | ⟨h0, h1, h2⟩
  · rw [hstar]
    decide
  · generalize hr : parseEtagsGo (h.length + 1) h [] [] = r at h0 h1 h2
    obtain ⟨S, W, st⟩ := r
    simp only at h0 h1 h2
    subst h0
    obtain ⟨ss, hS, hSc⟩ := good_list S h1
    obtain ⟨ws, hW, hWc⟩ := good_list W h2
    subst hS hW
    have := etags_roundtrip_closed ss ws hSc hWc
    unfold parseEtags at this
    exact this

end Wz.Http
