/-
Routing lemmas, part 5: completeness of the search — a `None` result means that no stored rule
admits the input for the request, and the bookkeeping (`have_match_for`, `websocket_mismatch`)
has seen every rule that admits the input for another method / the other protocol.
-/
import WzVerif.Lemmas.RoutingSound
namespace Wz.Routing
open State

/-- a `None` result of the loop over the dynamic transitions: every transition whose pattern
matched led to a `None` sub-search, whose bookkeeping is included -/
theorem dfsDyn_none {q : Req} {ds : List (Part × State)} {x : Str} {xs vals : List Str}
    (h : (dfsDyn q ds x xs vals).res = .none) :
    ∀ p s, (p, s) ∈ ds → p.isDyn = true → ∀ a rem, step p (x :: xs) = some (a, rem) →
      (dfs q s rem (vals ++ a)).res = .none ∧
      (∀ m ∈ (dfs q s rem (vals ++ a)).ms, m ∈ (dfsDyn q ds x xs vals).ms) ∧
      ((dfs q s rem (vals ++ a)).wsm = true → (dfsDyn q ds x xs vals).wsm = true) := by
  induction ds with
  | nil => intro p s hm; cases hm
  | cons e t ih =>
    obtain ⟨p0, s0⟩ := e
    intro p s hm hd a rem hs
    cases p0 with
    | static c =>
      simp only [dfsDyn] at h ⊢
      rcases List.mem_cons.1 hm with heq | hm
      · cases heq; cases hd
      · exact ih h p s hm hd a rem hs
    | dyn pre kind post final suffixed w =>
      rw [dfsDyn.eq_3] at h ⊢
      cases hs0 : step (Part.dyn pre kind post final suffixed w) (x :: xs) with
      | none =>
        simp only [hs0] at h ⊢
        rcases List.mem_cons.1 hm with heq | hm
        · cases heq; rw [hs0] at hs; cases hs
        · exact ih h p s hm hd a rem hs
      | some ar =>
        obtain ⟨a0, rem0⟩ := ar
        simp only [hs0] at h ⊢
        cases ho : (dfs q s0 rem0 (vals ++ a0)).res with
        | found r vs => simp [ho] at h
        | slash => simp [ho] at h
        | none =>
          simp only [ho] at h ⊢
          rcases List.mem_cons.1 hm with heq | hm
          · cases heq
            rw [hs0] at hs; cases hs
            refine ⟨ho, ?_, ?_⟩
            · intro m hm; exact List.mem_append_left _ hm
            · intro hw; simp [hw]
          · obtain ⟨h1, h2, h3⟩ := ih h p s hm hd a rem hs
            refine ⟨h1, ?_, ?_⟩
            · intro m hm; exact List.mem_append_right _ (h2 m hm)
            · intro hw; simp [h3 hw]

theorem slashCheck_none {q : Req} {vals : List Str} {rs : List Rule} (h : slashCheck q vals rs = .none) :
    ∀ r ∈ rs, ruleOK q r = false := by
  simp only [slashCheck] at h
  cases hf : List.find? (ruleOK q) rs with
  | none =>
    intro r hr
    have := List.find?_eq_none.1 hf r hr
    simpa using this
  | some r =>
    simp only [hf] at h
    split at h <;> cases h

/-- `_match` returned `None` ⇒ no stored rule that is fit for the request admits the input, in any
of the three ways (for `noslash` a strict rule would have raised `SlashRequired`) -/
theorem dfs_complete (q : Req) (st : State) : WF st → ∀ input vals, (dfs q st input vals).res = .none →
    ∀ ps r via, InTrie st ps r → ruleOK q r = true → (via = .trailing → r.strict = false) →
      walkVia via ps input = none := by
  induction st using State.induct with
  | h rs ss ds ihs ihd =>
    intro hwf input vals hres ps r via hi hok hvia
    cases hwf with
    | node h1 h2 h3 h4 h5 =>
    cases input with
    | nil =>
      rw [dfs_nil_res] at hres
      have hscan : (scanRules q false vals rs).res = .none := by
        cases hsc : (scanRules q false vals rs).res with
        | none => rfl
        | found r vs => simp [hsc] at hres
        | slash => simp [hsc] at hres
      simp only [hscan] at hres
      cases hi with
      | here hm =>
        cases via with
        | direct => have := scanRules_none hscan r hm hok; simp at this
        | trailing => simp [walkVia]
        | noslash => simp [walkVia]
      | @viaStatic _ _ _ k s ps' _ hm hi' =>
        simp only [walkVia, step_nil]
        split
        · rename_i hc
          obtain ⟨_, hps, hk, _⟩ := hc
          injection hk with hk
          subst hps hk
          have hl := lookupStatic_of_mem h1 hm
          rw [hl] at hres
          have := slashCheck_none hres r (inTrie_nil_rules.1 hi')
          rw [hok] at this; cases this
        · rfl
      | @viaDyn _ _ _ p s ps' _ hm hd hi' =>
        simp only [walkVia, step_nil]
        split
        · rename_i hc
          obtain ⟨_, _, hk, _⟩ := hc
          subst hk; cases hd
        · rfl
    | cons x xs =>
      obtain ⟨hst, hdy, hfb, _, _⟩ := dfs_cons_none hres
      cases hi with
      | here hm =>
        cases via with
        | direct => simp [walkVia]
        | noslash => simp [walkVia]
        | trailing =>
          simp only [walkVia]
          split
          · rename_i heq
            simp only [fallback, heq, if_true] at hfb
            have := scanRules_none hfb r hm hok
            rw [hvia rfl] at this
            simp at this
          · rfl
      | @viaStatic _ _ _ k s ps' _ hm hi' =>
        simp only [walkVia, step_static]
        rw [if_neg (by simp)]
        by_cases hk : k = x
        · subst hk
          have hl := lookupStatic_of_mem h1 hm
          rw [dfsStatic_eq, hl] at hst
          have := ihs k s hm (h4 k s hm) xs vals hst ps' r via hi' hok hvia
          simp [this]
        · simp [hk]
      | @viaDyn _ _ _ p s ps' _ hm hd hi' =>
        simp only [walkVia]
        rw [if_neg (by simp)]
        cases hs : step p (x :: xs) with
        | none => rfl
        | some ar =>
          obtain ⟨a, rem⟩ := ar
          obtain ⟨hn, _, _⟩ := dfsDyn_none hdy p s hm hd a rem hs
          have := ihd p s hm (h5 p s hm) rem (vals ++ a) hn ps' r via hi' hok hvia
          simp [this]

/-- the ways of admitting a path that the bookkeeping of `_match` looks at -/
def Counted (r : Rule) (via : Via) : Prop := via = .direct ∨ (via = .trailing ∧ r.strict = false)

/-- `_match` returned `None` ⇒ `have_match_for` contains the methods of every stored rule that
admits the input (directly / with an extra final slash) but not for the request method, and
`websocket_mismatch` is set when such a rule fails only on the protocol -/
theorem dfs_acc_complete (q : Req) (st : State) : WF st → ∀ input vals, (dfs q st input vals).res = .none →
    ∀ ps r via, InTrie st ps r → Counted r via → (walkVia via ps input).isSome = true →
      (methodOK q r = false → ∀ m ∈ r.methods.getD [], m ∈ (dfs q st input vals).ms) ∧
      (methodOK q r = true → r.websocket ≠ q.websocket → (dfs q st input vals).wsm = true) := by
  induction st using State.induct with
  | h rs ss ds ihs ihd =>
    intro hwf input vals hres ps r via hi hcnt hw
    cases hwf with
    | node h1 h2 h3 h4 h5 =>
    cases input with
    | nil =>
      have hres' := hres
      rw [dfs_nil_res] at hres'
      have hscan : (scanRules q false vals rs).res = .none := by
        cases hsc : (scanRules q false vals rs).res with
        | none => rfl
        | found r vs => simp [hsc] at hres'
        | slash => simp [hsc] at hres'
      rw [dfs_nil_ms, dfs_nil_wsm]
      cases hi with
      | here hm =>
        rcases hcnt with rfl | ⟨rfl, hstr⟩
        · exact ⟨fun hmo => scanRules_ms_complete hscan r hm hmo (by simp),
                 fun hmo hws => scanRules_wsm_complete hscan r hm hmo hws (by simp)⟩
        · simp [walkVia] at hw
      | @viaStatic _ _ _ k s ps' _ hm hi' =>
        rcases hcnt with rfl | ⟨rfl, hstr⟩ <;> simp [walkVia, step_nil] at hw
      | @viaDyn _ _ _ p s ps' _ hm hd hi' =>
        rcases hcnt with rfl | ⟨rfl, hstr⟩ <;> simp [walkVia, step_nil] at hw
    | cons x xs =>
      obtain ⟨hst, hdy, hfb, hms, hwsm⟩ := dfs_cons_none hres
      rw [hms, hwsm]
      cases hi with
      | here hm =>
        rcases hcnt with rfl | ⟨rfl, hstr⟩
        · simp [walkVia] at hw
        · simp only [walkVia] at hw
          split at hw
          · rename_i heq
            simp only [fallback, heq, if_true] at hfb ⊢
            refine ⟨fun hmo m hmm => ?_, fun hmo hws => ?_⟩
            · exact List.mem_append_right _ (scanRules_ms_complete hfb r hm hmo (fun _ => hstr) m hmm)
            · simp [scanRules_wsm_complete hfb r hm hmo hws (fun _ => hstr)]
          · cases hw
      | @viaStatic _ _ _ k s ps' _ hm hi' =>
        have hcond : ¬ (via = Via.noslash ∧ ps' = [] ∧ Part.static k = Part.static [] ∧ x :: xs = []) := by simp
        simp only [walkVia, if_neg hcond, step_static] at hw
        by_cases hk : k = x
        · subst hk
          have hl := lookupStatic_of_mem h1 hm
          simp only [beq_self_eq_true, if_true, List.nil_append, Option.isSome_map] at hw
          have hcnt' : Counted r via := hcnt
          rw [dfsStatic_eq, hl] at hst
          obtain ⟨ha, hb⟩ := ihs k s hm (h4 k s hm) xs vals hst ps' r via hi' hcnt' hw
          rw [dfsStatic_eq, hl]
          refine ⟨fun hmo m hmm => ?_, fun hmo hws => ?_⟩
          · exact List.mem_append_left _ (List.mem_append_left _ (ha hmo m hmm))
          · simp [hb hmo hws]
        · simp [hk] at hw
      | @viaDyn _ _ _ p s ps' _ hm hd hi' =>
        have hcond : ¬ (via = Via.noslash ∧ ps' = [] ∧ p = Part.static [] ∧ x :: xs = []) := by simp
        simp only [walkVia, if_neg hcond] at hw
        cases hs : step p (x :: xs) with
        | none => simp [hs] at hw
        | some ar =>
          obtain ⟨a, rem⟩ := ar
          simp only [hs, Option.isSome_map] at hw
          obtain ⟨hn, hmsd, hwsd⟩ := dfsDyn_none hdy p s hm hd a rem hs
          obtain ⟨ha, hb⟩ := ihd p s hm (h5 p s hm) rem (vals ++ a) hn ps' r via hi' hcnt hw
          refine ⟨fun hmo m hmm => ?_, fun hmo hws => ?_⟩
          · exact List.mem_append_left _ (List.mem_append_right _ (hmsd m (ha hmo m hmm)))
          · simp [hwsd (hb hmo hws)]



theorem dfsDyn_ms_sub {q : Req} {ds : List (Part × State)} {x : Str} {xs vals : List Str} {m : Str}
    (h : m ∈ (dfsDyn q ds x xs vals).ms) :
    ∃ p s a rem, (p, s) ∈ ds ∧ p.isDyn = true ∧ step p (x :: xs) = some (a, rem) ∧
      m ∈ (dfs q s rem (vals ++ a)).ms := by
  induction ds with
  | nil => simp [dfsDyn] at h
  | cons e t ih =>
    obtain ⟨p0, s0⟩ := e
    cases p0 with
    | static c =>
      simp only [dfsDyn] at h
      obtain ⟨p, s, a, rem, hm, h1, h2, h3⟩ := ih h
      exact ⟨p, s, a, rem, List.mem_cons_of_mem _ hm, h1, h2, h3⟩
    | dyn pre kind post final suffixed w =>
      rw [dfsDyn.eq_3] at h
      cases hs0 : step (Part.dyn pre kind post final suffixed w) (x :: xs) with
      | none =>
        simp only [hs0] at h
        obtain ⟨p, s, a, rem, hm, h1, h2, h3⟩ := ih h
        exact ⟨p, s, a, rem, List.mem_cons_of_mem _ hm, h1, h2, h3⟩
      | some ar =>
        obtain ⟨a0, rem0⟩ := ar
        simp only [hs0] at h
        cases ho : (dfs q s0 rem0 (vals ++ a0)).res with
        | found r vs =>
          simp only [ho] at h
          exact ⟨_, s0, a0, rem0, by simp, rfl, hs0, h⟩
        | slash =>
          simp only [ho] at h
          exact ⟨_, s0, a0, rem0, by simp, rfl, hs0, h⟩
        | none =>
          simp only [ho, List.mem_append] at h
          rcases h with h | h
          · exact ⟨_, s0, a0, rem0, by simp, rfl, hs0, h⟩
          · obtain ⟨p, s, a, rem, hm, h1, h2, h3⟩ := ih h
            exact ⟨p, s, a, rem, List.mem_cons_of_mem _ hm, h1, h2, h3⟩

theorem walkVia_cons_isSome {via p ps input a rem} (hs : step p input = some (a, rem))
    (hw : (walkVia via ps rem).isSome = true) : (walkVia via (p :: ps) input).isSome = true := by
  obtain ⟨vs, hv⟩ := Option.isSome_iff_exists.1 hw
  rw [walkVia_cons_of_step hs hv]; rfl

/-- everything in `have_match_for` comes from a stored rule that admits the input (directly or with an
extra final slash) and does not list the request method -/
theorem dfs_ms_sound (q : Req) (st : State) : ∀ input vals m, m ∈ (dfs q st input vals).ms →
    ∃ ps r via, InTrie st ps r ∧ methodOK q r = false ∧ m ∈ r.methods.getD [] ∧ Counted r via ∧
      (walkVia via ps input).isSome = true := by
  induction st using State.induct with
  | h rs ss ds ihs ihd =>
    intro input vals m hm
    cases input with
    | nil =>
      rw [dfs_nil_ms] at hm
      obtain ⟨r, hr, hmo, hmm, _⟩ := scanRules_ms_sound hm
      exact ⟨[], r, .direct, .here hr, hmo, hmm, .inl rfl, by simp [walkVia]⟩
    | cons x xs =>
      rcases dfs_cons_ms_sub hm with h | h | h
      · rw [dfsStatic_eq] at h
        cases hl : lookupStatic x ss with
        | none => simp [hl] at h
        | some s =>
          simp only [hl] at h
          have hmem := mem_of_lookupStatic hl
          obtain ⟨ps, r, via, hi, hmo, hmm, hc, hw⟩ := ihs x s hmem xs vals m h
          exact ⟨.static x :: ps, r, via, .viaStatic hmem hi, hmo, hmm, hc,
            walkVia_cons_isSome (a := []) (rem := xs) (by simp [step_static]) hw⟩
      · obtain ⟨p, s, a, rem, hmem, hd, hs, hin⟩ := dfsDyn_ms_sub h
        obtain ⟨ps, r, via, hi, hmo, hmm, hc, hw⟩ := ihd p s hmem rem (vals ++ a) m hin
        exact ⟨p :: ps, r, via, .viaDyn hmem hd hi, hmo, hmm, hc, walkVia_cons_isSome hs hw⟩
      · simp only [fallback] at h
        split at h
        · rename_i heq
          obtain ⟨r, hr, hmo, hmm, hst⟩ := scanRules_ms_sound h
          injection heq with hx hxs
          subst hx hxs
          exact ⟨[], r, .trailing, .here hr, hmo, hmm, .inr ⟨rfl, hst rfl⟩, by simp [walkVia]⟩
        · simp at h

end Wz.Routing
