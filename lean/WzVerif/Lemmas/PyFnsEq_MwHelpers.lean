/-
PyFnsEq_MwHelpers — helper lemmas shared by PyFnsEq_Middleware (dispatcher, C15) and PyFnsEq_SharedData
(C14): `rfind` / `rsplit(sep, 1)` for a one-character separator, dict primitives. Nothing here mentions
generated definitions.
-/
import WzVerif.Lemmas.PyFns_Prelude
namespace Wz.PyFnsEq.Middleware
open Wz Wz.Pre

/-! ## `rfind` / `rsplit(sep, 1)` for a one-character separator -/

section rsplit
variable {α : Type} [BEq α] [LawfulBEq α]

/-- `s.rfind(c)` for a one-character `c` that does not occur -/
theorem rfindIdx?_singleton_not_mem (c : α) (s : List α) (h : c ∉ s) : rfindIdx? [c] s = none := by
  induction s with
  | nil => simp [rfindIdx?]
  | cons x t ih =>
    have hx : (c == x) = false := by
      simp only [List.mem_cons, not_or] at h
      simpa using h.1
    have ht : c ∉ t := fun hm => h (List.mem_cons_of_mem _ hm)
    simp [rfindIdx?, ih ht, isPrefixOf_singleton, hx]

/-- `s.rfind(c)` is the position of the `c` after which no `c` occurs -/
theorem rfindIdx?_singleton_append (c : α) (pre post : List α) (h : c ∉ post) :
    rfindIdx? [c] (pre ++ c :: post) = some pre.length := by
  induction pre with
  | nil => simp [rfindIdx?, rfindIdx?_singleton_not_mem c post h]
  | cons x t ih => simp [rfindIdx?, ih]

/-- `s.rsplit(c, 1)` for a one-character `c` that occurs in `s`, in terms of the reversed text: the
last item is what precedes the first `c` of `reversed(s)`, the head is what follows it. In
particular the two-way unpacking `a, b = s.rsplit(c, 1)` cannot fail under `c in s`. -/
theorem rsplitOnce_singleton (c : α) (s : List α) (h : c ∈ s) :
    rsplitOnce s [c] = .ok (((s.reverse.dropWhile (· != c)).drop 1).reverse,
      (s.reverse.takeWhile (· != c)).reverse) := by
  rcases split_at_first c s.reverse with ⟨h1, _, _⟩ | ⟨pre, post, h1, h2, h3, h4⟩
  · exact absurd (by simpa using h) h1
  · have hs : s = post.reverse ++ c :: pre.reverse := by
      have := congrArg List.reverse h1
      simpa using this
    rw [h3, h4]
    unfold rsplitOnce
    have hp : c ∉ pre.reverse := by simpa using h2
    rw [hs, rfindIdx?_singleton_append c _ _ hp]
    have e1 : post.reverse ++ c :: pre.reverse = (post.reverse ++ [c]) ++ pre.reverse := by simp
    have e2 : post.reverse.length + [c].length = (post.reverse ++ [c]).length := by simp
    simp only [List.take_left', e2]
    rw [e1, List.drop_left' rfl]
    simp

end rsplit

/-! ## dict primitives -/

section dict
variable {κ ν : Type} [BEq κ] [LawfulBEq κ]

/-- `k in d` is membership in the list of keys -/
theorem dictHas_eq_contains (d : List (κ × ν)) (k : κ) :
    dictHas d k = (d.map (·.1)).contains k := by
  induction d with
  | nil => rfl
  | cons x t ih =>
    simp only [dictHas, List.any_cons, List.map_cons, List.contains_cons] at ih ⊢
    rw [ih]
    rw [BEq.comm]

omit [LawfulBEq κ] in
/-- `d[k]` under `k in d` does not raise and is `d.get(k, default)` for every default -/
theorem dictGetItem_of_has (d : List (κ × ν)) (k : κ) (dflt : ν) (h : dictHas d k = true) :
    dictGetItem d k = .ok (dictGetD d k dflt) := by
  unfold dictGetItem dictGetD dictGet?
  unfold dictHas at h
  obtain ⟨x, hx, hk⟩ := List.any_eq_true.mp h
  cases hf : d.find? (·.1 == k) with
  | none =>
    have := List.find?_eq_none.mp hf x hx
    exact absurd hk this
  | some y => simp

/-- `d.get(k, default)` is the default when `k not in d` -/
theorem dictGetD_of_not_has (d : List (κ × ν)) (k : κ) (dflt : ν) (h : dictHas d k = false) :
    dictGetD d k dflt = dflt := by
  unfold dictGetD dictGet?
  unfold dictHas at h
  have : d.find? (·.1 == k) = none := by
    rw [List.find?_eq_none]
    intro x hx
    have := List.any_eq_false.mp h x hx
    simpa using this
  simp [this]

/-- for a dict (distinct keys): `d.get(k, default)` is the value stored under `k` -/
theorem dictGetD_of_mem_nodup (d : List (κ × ν)) (k : κ) (v dflt : ν)
    (hn : (d.map (·.1)).Nodup) (hm : (k, v) ∈ d) : dictGetD d k dflt = v := by
  induction d with
  | nil => simp at hm
  | cons x t ih =>
    simp only [List.map_cons, List.nodup_cons] at hn
    unfold dictGetD dictGet?
    rcases List.mem_cons.mp hm with hx | ht
    · subst hx; simp
    · have hne : x.1 ≠ k := by
        intro he
        apply hn.1
        rw [he]
        exact List.mem_map.mpr ⟨(k, v), ht, rfl⟩
      have : (x.1 == k) = false := by simpa using hne
      simp only [List.find?_cons, this]
      exact ih hn.2 ht

end dict

end Wz.PyFnsEq.Middleware
