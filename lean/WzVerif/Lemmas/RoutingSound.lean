/-
Routing lemmas, part 4: soundness of the search — every result of `_match` is justified by a
stored rule whose own recogniser admits the input.
-/
import WzVerif.Lemmas.RoutingDfs
namespace Wz.Routing
open State

theorem inTrie_nil_rules {st : State} {r : Rule} : InTrie st [] r ↔ r ∈ st.rules := by
  cases st with
  | node rs ss ds => exact InTrie.nil_iff

/-- a `found` result is justified: the rule is stored below `st`, is fit for the request, and its own
recogniser admits the input with the returned groups in an allowed way -/
def Justified (q : Req) (st : State) (input vals : List Str) (r : Rule) (vs : List Str) : Prop :=
  ruleOK q r = true ∧ ∃ ps vs' via, InTrie st ps r ∧ vs = vals ++ vs' ∧ walkVia via ps input = some vs' ∧
    viaAllowed r via = true

/-- `SlashRequired` is justified: a strict branch rule admits the input but for its final slash -/
def SlashJust (q : Req) (st : State) (input : List Str) : Prop :=
  ∃ r ps vs', InTrie st ps r ∧ ruleOK q r = true ∧ r.strict = true ∧ walkVia .noslash ps input = some vs'

def ResJust (q : Req) (st : State) (input vals : List Str) : Res → Prop
  | .none => True
  | .found r vs => Justified q st input vals r vs
  | .slash => SlashJust q st input

theorem ResJust.lift {q : Req} {st s : State} {p : Part} {input vals a rem : List Str} {R : Res}
    (hlink : ∀ ps r, InTrie s ps r → InTrie st (p :: ps) r)
    (hs : step p input = some (a, rem)) (h : ResJust q s rem (vals ++ a) R) : ResJust q st input vals R := by
  cases R with
  | none => trivial
  | found r vs =>
    obtain ⟨hok, ps, vs', via, hi, hv, hw, ha⟩ := h
    exact ⟨hok, p :: ps, a ++ vs', via, hlink _ _ hi, by rw [hv, List.append_assoc], walkVia_cons_of_step hs hw, ha⟩
  | slash =>
    obtain ⟨r, ps, vs', hi, hok, hst, hw⟩ := h
    exact ⟨r, p :: ps, a ++ vs', hlink _ _ hi, hok, hst, walkVia_cons_of_step hs hw⟩

/-- a non-`None` result of the loop over the dynamic transitions comes from one of them -/
theorem dfsDyn_res {q : Req} {ds : List (Part × State)} {x : Str} {xs vals : List Str} {R : Res}
    (h : (dfsDyn q ds x xs vals).res = R) (hne : R ≠ .none) :
    ∃ p s a rem, (p, s) ∈ ds ∧ p.isDyn = true ∧ step p (x :: xs) = some (a, rem) ∧
      (dfs q s rem (vals ++ a)).res = R := by
  induction ds with
  | nil => simp [dfsDyn] at h; exact absurd h.symm hne
  | cons e t ih =>
    obtain ⟨p, s⟩ := e
    cases p with
    | static c =>
      simp only [dfsDyn] at h
      obtain ⟨p', s', a, rem, hm, h1, h2, h3⟩ := ih h
      exact ⟨p', s', a, rem, List.mem_cons_of_mem _ hm, h1, h2, h3⟩
    | dyn pre kind post final suffixed w =>
      rw [dfsDyn.eq_3] at h
      cases hs : step (Part.dyn pre kind post final suffixed w) (x :: xs) with
      | none =>
        simp only [hs] at h
        obtain ⟨p', s', a, rem, hm, h1, h2, h3⟩ := ih h
        exact ⟨p', s', a, rem, List.mem_cons_of_mem _ hm, h1, h2, h3⟩
      | some ar =>
        obtain ⟨a, rem⟩ := ar
        simp only [hs] at h
        cases ho : (dfs q s rem (vals ++ a)).res with
        | none =>
          simp only [ho] at h
          obtain ⟨p', s', a', rem', hm, h1, h2, h3⟩ := ih h
          exact ⟨p', s', a', rem', List.mem_cons_of_mem _ hm, h1, h2, h3⟩
        | found r vs =>
          simp only [ho] at h
          exact ⟨_, s, a, rem, by simp, rfl, hs, by rw [ho, ← h]⟩
        | slash =>
          simp only [ho] at h
          exact ⟨_, s, a, rem, by simp, rfl, hs, by rw [ho, ← h]⟩

theorem walkVia_noslash_base : walkVia .noslash [.static []] [] = some [] := by
  simp [walkVia]

theorem dfs_sound (q : Req) (st : State) : ∀ input vals, ResJust q st input vals (dfs q st input vals).res := by
  induction st using State.induct with
  | h rs ss ds ihs ihd =>
    intro input vals
    cases input with
    | nil =>
      rw [dfs_nil_res]
      rcases scanRules_res q false vals rs with hn | ⟨r, hf, hm, hok, _⟩
      · rw [hn]
        cases hl : lookupStatic [] ss with
        | none => trivial
        | some child =>
          simp only [slashCheck]
          cases hfind : List.find? (ruleOK q) child.rules with
          | none => trivial
          | some r =>
            have hmem := List.mem_of_find?_eq_some hfind
            have hok : ruleOK q r = true := by simpa using List.find?_some hfind
            have hi : InTrie (.node rs ss ds) [.static []] r :=
              .viaStatic (mem_of_lookupStatic hl) (inTrie_nil_rules.2 hmem)
            by_cases hst : r.strict = true
            · simp only [hst, if_true]
              exact ⟨r, _, [], hi, hok, hst, walkVia_noslash_base⟩
            · simp only [hst, Bool.false_eq_true, if_false]
              exact ⟨hok, _, [], .noslash, hi, by simp, walkVia_noslash_base, by simpa [viaAllowed] using hst⟩
      · rw [hf]
        exact ⟨hok, [], [], .direct, .here hm, by simp, by simp [walkVia], rfl⟩
    | cons x xs =>
      rw [dfs_cons_res]
      have hstatic : ResJust q (.node rs ss ds) (x :: xs) vals (dfsStatic q ss x xs vals).res := by
        rw [dfsStatic_eq]
        cases hl : lookupStatic x ss with
        | none => trivial
        | some s =>
          have hm := mem_of_lookupStatic hl
          have := ihs x s hm xs vals
          refine ResJust.lift (p := .static x) (a := []) (rem := xs) (fun ps r hi => .viaStatic hm hi) (by simp [step_static]) ?_
          simpa using this
      cases h1 : (dfsStatic q ss x xs vals).res with
      | found r vs => rw [h1] at hstatic; exact hstatic
      | slash => rw [h1] at hstatic; exact hstatic
      | none =>
        have hdyn : ResJust q (.node rs ss ds) (x :: xs) vals (dfsDyn q ds x xs vals).res := by
          cases h2 : (dfsDyn q ds x xs vals).res with
          | none => trivial
          | found r vs =>
            obtain ⟨p, s, a, rem, hm, hd, hs, hr⟩ := dfsDyn_res h2 (by simp)
            have := ihd p s hm rem (vals ++ a)
            rw [hr] at this
            exact ResJust.lift (fun ps r hi => .viaDyn hm hd hi) hs this
          | slash =>
            obtain ⟨p, s, a, rem, hm, hd, hs, hr⟩ := dfsDyn_res h2 (by simp)
            have := ihd p s hm rem (vals ++ a)
            rw [hr] at this
            exact ResJust.lift (fun ps r hi => .viaDyn hm hd hi) hs this
        cases h2 : (dfsDyn q ds x xs vals).res with
        | found r vs => rw [h2] at hdyn; exact hdyn
        | slash => rw [h2] at hdyn; exact hdyn
        | none =>
          simp only [fallback]
          split
          · rename_i heq
            rcases scanRules_res q true vals rs with hn | ⟨r, hf, hm, hok, hst⟩
            · rw [hn]; trivial
            · rw [hf]
              injection heq with hx hxs
              subst hx hxs
              exact ⟨hok, [], [], .trailing, .here hm, by simp, by simp [walkVia], by simp [viaAllowed, hst rfl]⟩
          · trivial

end Wz.Routing
