import WzVerif.Lemmas.HttpOpt
set_option linter.unusedSimpArgs false
namespace Wz.Http
open Wz

def rawPart (kv : Str × Str) : Str × Str := (kv.1, quoteHeaderValue kv.2)

theorem seg_head_token (kv : Str × Str) (hk : OptKeyOk kv.1 = true) :
    ∃ c t, seg kv = c :: t ∧ isToken c = true := by
  obtain ⟨k, v⟩ := kv
  have hK := optKeyOk_keyOk hk
  cases k with
  | nil => exact absurd rfl (keyOk_ne_nil hK)
  | cons c t =>
    have := keyOk_all hK
    simp only [List.all_cons, Bool.and_eq_true] at this
    exact ⟨c, _, rfl, this.1⟩

theorem join_head_token (s : Str × Str) (ss : List (Str × Str)) (hk : OptKeyOk s.1 = true) :
    ∃ c t, join "; " ((s :: ss).map seg) = c :: t ∧ isToken c = true := by
  obtain ⟨c, t, h, hc⟩ := seg_head_token s hk
  cases ss with
  | nil => exact ⟨c, t, by simp [join, h], hc⟩
  | cons x xs =>
    refine ⟨c, t ++ "; ".toList ++ join "; " ((x :: xs).map seg), ?_, hc⟩
    simp [join, List.intercalate_cons_cons, h]

theorem optScan_join (s : Str × Str) (ss : List (Str × Str)) (fuel : Nat) (acc : List (Str × Str))
    (hk : ∀ x ∈ s :: ss, OptKeyOk x.1 = true) (hf : ss.length < fuel) :
    optScan fuel (join "; " ((s :: ss).map seg)) acc = acc.reverse ++ (s :: ss).map rawPart := by
  induction ss generalizing s fuel acc with
  | nil =>
    cases fuel with
    | zero => simp at hf
    | succ f =>
      obtain ⟨r1, h1, h2⟩ := optStep_seg s.1 s.2 [] (hk s (by simp)) (Or.inl rfl)
      simp only [List.append_nil] at h1
      have h3 : afterSemi? r1 = none := by rw [h2]; rfl
      simp only [join, List.map_cons, List.map_nil, List.intercalate_singleton, optScan]
      rw [show seg s = seg (s.1, s.2) from rfl, h1]
      simp [h3, rawPart]
  | cons x xs ih =>
    cases fuel with
    | zero => simp at hf
    | succ f =>
      have hj : join "; " ((s :: x :: xs).map seg) = seg s ++ (';' :: ' ' :: join "; " ((x :: xs).map seg)) := by
        have e : "; ".toList = [';', ' '] := by decide
        simp [join, List.intercalate_cons_cons, e]
      obtain ⟨r1, h1, h2⟩ := optStep_seg s.1 s.2 (';' :: ' ' :: join "; " ((x :: xs).map seg))
        (hk s (by simp)) (Or.inr ⟨_, rfl⟩)
      rw [hj]
      simp only [optScan]
      rw [show seg s = seg (s.1, s.2) from rfl, h1]
      simp only [h2]
      have ha : afterSemi? (';' :: ' ' :: join "; " ((x :: xs).map seg)) = some (' ' :: join "; " ((x :: xs).map seg)) := by
        simp [afterSemi?]
      rw [ha]
      simp only []
      obtain ⟨c, t, hct, hc⟩ := join_head_token x xs (hk x (by simp))
      have hl : lstrip (' ' :: join "; " ((x :: xs).map seg)) = join "; " ((x :: xs).map seg) := by
        rw [hct]
        simp [lstrip, List.dropWhile_cons, show Py.isSpace ' ' = true from by decide, isToken_not_space hc]
      rw [hl, ih x f _ (fun y hy => hk y (by simp at hy ⊢; right; exact hy)) (by simp at hf; omega)]
      simp [rawPart]

theorem continuation_none {k : Str} (h : '*' ∉ k) : continuation? k = none := by
  unfold continuation?
  simp only []
  split
  · next hds heq =>
    exfalso
    apply h
    have : '*' ∈ k.reverse.dropWhile isContDigit := by rw [heq]; simp
    have := (List.dropWhile_sublist _).subset this
    simpa using this
  · rfl

theorem optPart_raw (st : OptState) (k v : Str) (hk : OptKeyOk k = true) (hv : hasPct22 v = false) :
    optPart st k (quoteHeaderValue v) = .ok { st with options := dictSet st.options k v } := by
  have hK := optKeyOk_keyOk hk
  obtain ⟨l, hl, hne, _⟩ := keyOk_last hK
  have hc := continuation_none (keyOk_no_star hK)
  rcases quote_cases v with ⟨hv0, hv1, hq⟩ | hq
  · cases v with
    | nil => exact absurd rfl hv0
    | cons c t =>
      simp only [List.all_cons, Bool.and_eq_true] at hv1
      have hcq := isToken_ne_dq hv1.1
      rw [hq]
      simp [optPart, optUnquote, optStore, last!_of_getLast? hl, hne, first!, hc, hcq]
      cases hg : (c :: t).getLast? with
      | none => simp at hg
      | some e => simp [last!, hg]
  · rw [hq]
    have hlast : last! ('"' :: (escapeDq v ++ ['"'])) = .ok '"' := by
      have : ('"' :: (escapeDq v ++ ['"'])).getLast? = some '"' := by
        rw [← List.cons_append, List.getLast?_concat]
      simp [last!, this]
    simp [optPart, optUnquote, optStore, last!_of_getLast? hl, hne, first!, hc, hlast, unescape_escape,
      replace3_id v hv]

end Wz.Http
