import WzVerif.Lemmas.HttpOpt2
set_option linter.unusedSimpArgs false
namespace Wz.Http
open Wz

def HdrOk (h : Str) : Bool := !h.isEmpty && !h.contains ';' && (strip h == h)

theorem dumpOptions_ok (h : Str) (opts : List (Str × Str)) (hk : ∀ x ∈ opts, OptKeyOk x.1 = true) :
    dumpOptionsHeader (some h) (opts.map fun kv => (kv.1, some kv.2)) = .ok (join "; " (h :: opts.map seg)) := by
  unfold dumpOptionsHeader
  rw [mapM_ok _ (fun kv => some (kv.1 ++ '=' :: quoteHeaderValue (kv.2.getD [])))]
  · simp [List.filterMap_map, Function.comp_def]
    rfl
  · intro x hx
    simp only [List.mem_map] at hx
    obtain ⟨kv, hkv, rfl⟩ := hx
    obtain ⟨l, hl, hne, _⟩ := keyOk_last (optKeyOk_keyOk (hk kv hkv))
    simp [optionSegment, last!_of_getLast? hl, hne]

theorem quote_ne_nil (v : Str) : quoteHeaderValue v ≠ [] := by
  rcases quote_cases v with ⟨h0, _, hq⟩ | hq <;> rw [hq]
  · exact h0
  · simp

theorem quote_last_nonspace (v : Str) : ∀ c, (quoteHeaderValue v).getLast? = some c → Py.isSpace c = false := by
  intro c hc
  rcases quote_cases v with ⟨h0, h1, hq⟩ | hq <;> rw [hq] at hc
  · exact isToken_not_space ((List.all_eq_true.mp h1) c (List.mem_of_getLast? hc))
  · rw [← List.cons_append, List.getLast?_concat] at hc
    simp at hc; subst hc; decide

theorem seg_ne_nil (kv : Str × Str) : seg kv ≠ [] := by simp [seg]

theorem seg_last (kv : Str × Str) : (seg kv).getLast? = (quoteHeaderValue kv.2).getLast? := by
  unfold seg
  rw [List.getLast?_append]
  have hne := quote_ne_nil kv.2
  cases hq : quoteHeaderValue kv.2 with
  | nil => exact absurd hq hne
  | cons a t =>
    cases hg : (a :: t).getLast? with
    | none => simp at hg
    | some e =>
      have : ('=' :: a :: t).getLast? = some e := by rw [List.getLast?_cons_cons, hg]
      simp [this]

theorem join_segs_last (s : Str × Str) (ss : List (Str × Str)) :
    ∃ x ∈ s :: ss, (join "; " ((s :: ss).map seg)).getLast? = (seg x).getLast? := by
  induction ss generalizing s with
  | nil => exact ⟨s, by simp, by simp [join]⟩
  | cons y ys ih =>
    obtain ⟨x, hx, h⟩ := ih y
    refine ⟨x, by simp at hx ⊢; right; exact hx, ?_⟩
    have hne : join "; " ((y :: ys).map seg) ≠ [] := by
      obtain ⟨c, t, hct, _⟩ : ∃ c t, join "; " ((y :: ys).map seg) = c :: t ∧ True := by
        cases hj : join "; " ((y :: ys).map seg) with
        | nil =>
          exfalso
          rw [hj] at h
          cases hs : (seg x).getLast? with
          | none => simp [List.getLast?_eq_none_iff] at hs; exact seg_ne_nil x hs
          | some e => rw [hs] at h; simp at h
        | cons c t => exact ⟨c, t, rfl, trivial⟩
      rw [hct]; simp
    simp only [join, List.map_cons, List.intercalate_cons_cons] at h hne ⊢
    rw [List.getLast?_append]
    cases hg : (List.intercalate "; ".toList (seg y :: ys.map seg)).getLast? with
    | none => simp [List.getLast?_eq_none_iff] at hg; exact absurd hg hne
    | some e => rw [← h, hg]; simp

theorem join_segs_tight (s : Str × Str) (ss : List (Str × Str)) (hk : OptKeyOk s.1 = true) :
    Tight (join "; " ((s :: ss).map seg)) := by
  constructor
  · intro c hc
    obtain ⟨c', t, hct, htok⟩ := join_head_token s ss hk
    rw [hct] at hc; simp at hc; subst hc
    exact isToken_not_space htok
  · intro c hc
    obtain ⟨x, _, h⟩ := join_segs_last s ss
    rw [h, seg_last] at hc
    exact quote_last_nonspace _ c hc

theorem length_join_ge (l : List Str) (h : ∀ x ∈ l, x ≠ []) : l.length ≤ (join "; " l).length := by
  induction l with
  | nil => simp
  | cons a t ih =>
    cases t with
    | nil =>
      have := h a (by simp)
      cases a with
      | nil => exact absurd rfl this
      | cons _ _ => simp [join]
    | cons b u =>
      have := ih (fun x hx => h x (by simp at hx ⊢; right; exact hx))
      simp only [join, List.intercalate_cons_cons, List.length_append, List.length_cons] at this ⊢
      have e : "; ".toList.length = 2 := by decide
      omega

theorem foldlM_optParts (opts : List (Str × Str)) (st : OptState)
    (hk : ∀ x ∈ opts, OptKeyOk x.1 = true) (hv : ∀ x ∈ opts, hasPct22 x.2 = false)
    (hnd : (opts.map (·.1)).Nodup) (hdis : ∀ x ∈ opts, dictHas st.options x.1 = false) :
    (opts.map rawPart).foldlM optFold st = .ok { st with options := st.options ++ opts } := by
  induction opts generalizing st with
  | nil => simp
  | cons x t ih =>
    obtain ⟨k, v⟩ := x
    simp only [List.map_cons, List.foldlM_cons, optFold, rawPart]
    rw [optPart_raw st k v (hk (k, v) (by simp)) (hv (k, v) (by simp))]
    simp only [ok_bind]
    have hk0 : dictHas st.options k = false := hdis (k, v) (by simp)
    simp only [dictSet, hk0, Bool.false_eq_true, if_false]
    simp only [List.map_cons, List.nodup_cons] at hnd
    have := ih { st with options := st.options ++ [(k, v)] }
      (fun y hy => hk y (by simp [hy])) (fun y hy => hv y (by simp [hy])) hnd.2 (by
        intro y hy
        simp only [dictHas_append_single, hdis y (by simp [hy]), Bool.false_or]
        simp
        intro e
        exact hnd.1 (by rw [e]; exact List.mem_map_of_mem hy))
    simp only [optFold, rawPart] at this
    rw [this]
    simp

theorem parseOptions_dump_any (h : Str) (opts : List (Str × Str)) (hh : HdrOk h = true)
    (hk : ∀ x ∈ opts, OptKeyOk x.1 = true) (hv : ∀ x ∈ opts, hasPct22 x.2 = false)
    (hnd : (opts.map (·.1)).Nodup) :
    (dumpOptionsHeader (some h) (opts.map fun kv => (kv.1, some kv.2)) >>= parseOptionsHeader) = .ok (h, opts) := by
  rw [dumpOptions_ok h opts hk]
  simp only [ok_bind]
  simp only [HdrOk, Bool.and_eq_true, Bool.not_eq_true', beq_iff_eq] at hh
  obtain ⟨⟨hne, hsemi⟩, hstrip⟩ := hh
  have hsemi' : ';' ∉ h := by simpa using hsemi
  cases opts with
  | nil =>
    have hs2 : strip ([] : Str) = [] := by decide
    simp [join, parseOptionsHeader, partition_notfound hsemi', hstrip, hs2]
  | cons s ss =>
    have hj : join "; " (h :: (s :: ss).map seg) = h ++ ';' :: (' ' :: join "; " ((s :: ss).map seg)) := by
      have e : "; ".toList = [';', ' '] := by decide
      simp [join, List.intercalate_cons_cons, e]
    have ht := join_segs_tight s ss (hk s (by simp))
    obtain ⟨c, t, hct, _⟩ := join_head_token s ss (hk s (by simp))
    have hlen : ss.length < (join "; " ((s :: ss).map seg)).length + 1 := by
      have := length_join_ge ((s :: ss).map seg) (by
        intro x hx
        simp only [List.mem_map] at hx
        obtain ⟨y, _, rfl⟩ := hx
        exact seg_ne_nil y)
      simp at this ⊢
      omega
    unfold parseOptionsHeader
    rw [hj, partition_found hsemi']
    simp only [hstrip, strip_space_tight ht, hne]
    have hJ : (join "; " ((s :: ss).map seg)).isEmpty = false := by rw [hct]; rfl
    simp only [hJ, Bool.or_self, Bool.false_eq_true, if_false]
    rw [optScan_join s ss _ [] hk hlen]
    simp only [List.reverse_nil, List.nil_append]
    have := foldlM_optParts (s :: ss) {} hk hv hnd (by intro x _; rfl)
    simp only [bind_pure_comp, pure_bind]
    rw [this]
    simp
    rfl

end Wz.Http
