/-
Helper lemmas for C05: every Headers mutator keeps the stored values free of CR / LF.
-/
import WzVerif.Model.Response
import WzVerif.Lemmas.Views
import WzVerif.Lemmas.Url
namespace Wz.C05L
open Wz Hdr

/-- every stored value is free of CR and LF -/
def Clean (l : HList) : Prop := ∀ p ∈ l, hasNL p.2 = false

theorem clean_nil : Clean [] := by intro p hp; cases hp

theorem clean_append {a b : HList} (ha : Clean a) (hb : Clean b) : Clean (a ++ b) := by
  intro p hp
  rcases List.mem_append.1 hp with h | h
  · exact ha p h
  · exact hb p h

theorem clean_single {k v : Str} (hv : hasNL v = false) : Clean [(k, v)] := by
  intro p hp; simp at hp; subst hp; exact hv

theorem clean_sub {a b : HList} (h : ∀ p ∈ a, p ∈ b) (hb : Clean b) : Clean a :=
  fun p hp => hb p (h p hp)

theorem clean_filter {l : HList} (f : Pair → Bool) (h : Clean l) : Clean (l.filter f) :=
  clean_sub (fun _ hp => (List.mem_filter.1 hp).1) h

theorem clean_cons {p : Pair} {l : HList} (hp : hasNL p.2 = false) (h : Clean l) : Clean (p :: l) := by
  intro q hq
  rcases List.mem_cons.1 hq with e | e
  · subst e; exact hp
  · exact h q e

theorem clean_tail {p : Pair} {l : HList} (h : Clean (p :: l)) : Clean l :=
  fun q hq => h q (List.mem_cons_of_mem _ hq)

theorem strHeaderValue_clean {v vs : Str} (h : strHeaderValue v = .ok vs) : hasNL vs = false ∧ vs = v := by
  unfold strHeaderValue at h
  cases hv : hasNL v with
  | true => simp [hv] at h
  | false => simp [hv] at h; subst h; exact ⟨hv, rfl⟩

theorem add_clean (l : HList) (k v : Str) (h : Clean l) : Clean (add l k v).1 := by
  unfold add
  cases hs : strHeaderValue v with
  | error e => exact h
  | ok vs => exact clean_append h (clean_single (strHeaderValue_clean hs).1)

theorem setLoop_clean (k vs : Str) (hv : hasNL vs = false) (l r : HList) (h : Clean l)
    (hs : setLoop k vs l = some r) : Clean r := by
  induction l generalizing r with
  | nil => simp [setLoop] at hs
  | cons p t ih =>
    simp only [setLoop] at hs
    cases hp : keyEq k p with
    | true =>
      simp only [hp, if_true, Option.some.injEq] at hs
      subst hs
      exact clean_cons hv (clean_filter _ (clean_tail h))
    | false =>
      simp only [hp, Bool.false_eq_true, if_false] at hs
      cases hs' : setLoop k vs t with
      | none => simp [hs'] at hs
      | some r' =>
        simp only [hs', Option.map_some, Option.some.injEq] at hs
        subst hs
        exact clean_cons (h p List.mem_cons_self) (ih r' (clean_tail h) hs')

theorem set_clean (l : HList) (k v : Str) (h : Clean l) : Clean (Hdr.set l k v).1 := by
  unfold Hdr.set
  cases hs : strHeaderValue v with
  | error e => exact h
  | ok vs =>
    have hv := (strHeaderValue_clean hs).1
    simp only
    split
    · exact clean_single hv
    · split
      · rename_i r hr; exact setLoop_clean k vs hv l r h hr
      · exact clean_append h (clean_single hv)

theorem addAll_clean (l : HList) (k : Str) (vs : List Str) (h : Clean l) : Clean (addAll l k vs).1 := by
  induction vs generalizing l with
  | nil => exact h
  | cons v t ih =>
    simp only [addAll]
    have := add_clean l k v h
    cases ha : add l k v with
    | mk l' res =>
      rw [ha] at this
      cases res with
      | ok _ => exact ih l' this
      | error e => exact this

theorem delKey_clean (l : HList) (k : Str) (h : Clean l) : Clean (delKey l k) := clean_filter _ h

theorem setlist_clean (l : HList) (k : Str) (vs : List Str) (h : Clean l) : Clean (setlist l k vs).1 := by
  cases vs with
  | nil => exact delKey_clean l k h
  | cons v t =>
    simp only [setlist]
    have := set_clean l k v h
    cases hs : Hdr.set l k v with
    | mk l' res =>
      rw [hs] at this
      cases res with
      | ok _ => exact addAll_clean l' k t this
      | error e => exact this

theorem setdefault_clean (l : HList) (k v : Str) (h : Clean l) : Clean (setdefault l k v).1 := by
  unfold setdefault
  cases getKey l k with
  | ok x => exact h
  | error e =>
    simp only
    have := set_clean l k v h
    cases hs : Hdr.set l k v with
    | mk l' res => rw [hs] at this; cases res <;> exact this

theorem setlistdefault_clean (l : HList) (k : Str) (vs : List Str) (h : Clean l) :
    Clean (setlistdefault l k vs).1 := by
  unfold setlistdefault
  split
  · exact h
  · have := setlist_clean l k vs h
    cases hs : setlist l k vs with
    | mk l' res => rw [hs] at this; cases res <;> exact this

theorem addPairs_clean (l : HList) (ps : List Pair) (h : Clean l) : Clean (addPairs l ps).1 := by
  induction ps generalizing l with
  | nil => exact h
  | cons p t ih =>
    obtain ⟨k, v⟩ := p
    simp only [addPairs]
    have := add_clean l k v h
    cases ha : add l k v with
    | mk l' res =>
      rw [ha] at this
      cases res with
      | ok _ => exact ih l' this
      | error e => exact this

theorem andThen_clean (r : Res Unit) (f : HList → Res Unit) (h : Clean r.1)
    (hf : ∀ l, Clean l → Clean (f l).1) : Clean (andThen r f).1 := by
  obtain ⟨l', res⟩ := r
  cases res with
  | ok _ => exact hf l' h
  | error e => exact h

theorem extend_clean (l : HList) (a : Option Arg) (kw : MapArg) (h : Clean l) : Clean (extend l a kw).1 := by
  unfold extend
  apply andThen_clean
  · cases a with
    | none => exact h
    | some a => exact addPairs_clean l _ h
  · intro l' hl'; exact addPairs_clean l' _ hl'

theorem setPairs_clean (l : HList) (ps : List Pair) (h : Clean l) : Clean (setPairs l ps).1 := by
  induction ps generalizing l with
  | nil => exact h
  | cons p t ih =>
    obtain ⟨k, v⟩ := p
    simp only [setPairs]
    have := set_clean l k v h
    cases hs : Hdr.set l k v with
    | mk l' res =>
      rw [hs] at this
      cases res with
      | ok _ => exact ih l' this
      | error e => exact this

theorem updateMap_clean (l : HList) (m : MapArg) (h : Clean l) : Clean (updateMap l m).1 := by
  induction m generalizing l with
  | nil => exact h
  | cons e t ih =>
    obtain ⟨k, mv⟩ := e
    cases mv with
    | one v =>
      simp only [updateMap]
      have := set_clean l k v h
      cases hs : Hdr.set l k v with
      | mk l' res =>
        rw [hs] at this
        cases res with
        | ok _ => exact ih l' this
        | error e => exact this
    | many vs =>
      simp only [updateMap]
      have := setlist_clean l k vs h
      cases hs : setlist l k vs with
      | mk l' res =>
        rw [hs] at this
        cases res with
        | ok _ => exact ih l' this
        | error e => exact this

theorem updateKeys_clean (look : Str → List Str) (l : HList) (ks : List Str) (h : Clean l) :
    Clean (updateKeys look l ks).1 := by
  induction ks generalizing l with
  | nil => exact h
  | cons k t ih =>
    simp only [updateKeys]
    have := setlist_clean l k (look k) h
    cases hs : setlist l k (look k) with
    | mk l' res =>
      rw [hs] at this
      cases res with
      | ok _ => exact ih l' this
      | error e => exact this

theorem update_clean (l : HList) (a : Option Arg) (kw : MapArg) (h : Clean l) : Clean (update l a kw).1 := by
  unfold update
  apply andThen_clean
  · cases a with
    | none => exact h
    | some a =>
      cases a with
      | headers hh => exact updateKeys_clean _ l _ h
      | multi m => exact updateKeys_clean _ l _ h
      | mapping m => exact updateMap_clean l m h
      | pairs ps => exact setPairs_clean l ps h
  · intro l' hl'; exact updateMap_clean l' kw hl'

theorem clean_set_idx (l : HList) (n : Nat) (p : Pair) (hp : hasNL p.2 = false) (h : Clean l) : Clean (l.set n p) := by
  intro q hq
  rcases List.mem_or_eq_of_mem_set hq with e | e
  · exact h q e
  · subst e; exact hp

theorem clean_eraseIdx (l : HList) (n : Nat) (h : Clean l) : Clean (l.eraseIdx n) :=
  clean_sub (fun _ hp => List.mem_of_mem_eraseIdx hp) h

theorem setIdx_clean (l : HList) (i : Int) (p : Pair) (h : Clean l) : Clean (setIdx l i p).1 := by
  unfold setIdx
  cases hs : strHeaderValue p.2 with
  | error e => exact h
  | ok vs =>
    simp only
    cases pyIdx l.length i with
    | none => exact h
    | some n => exact clean_set_idx l n _ (strHeaderValue_clean hs).1 h

theorem cleanPairs_clean (ps r : List Pair) (h : cleanPairs ps = .ok r) : Clean r := by
  induction ps generalizing r with
  | nil => simp [cleanPairs] at h; subst h; exact clean_nil
  | cons p t ih =>
    obtain ⟨k, v⟩ := p
    simp only [cleanPairs] at h
    cases hs : strHeaderValue v with
    | error e => simp [hs] at h
    | ok vs =>
      simp only [hs] at h
      cases hr : cleanPairs t with
      | error e => simp [hr] at h
      | ok r' =>
        simp only [hr, Except.ok.injEq] at h
        subst h
        exact clean_cons (strHeaderValue_clean hs).1 (ih r' hr)

theorem setSlice_clean (l new : HList) (s : Slice) (h : Clean l) (hn : Clean new) : Clean (setSlice l s new) := by
  unfold setSlice
  simp only
  exact clean_append (clean_append (clean_sub (fun _ hp => List.mem_of_mem_take hp) h) hn)
    (clean_sub (fun _ hp => List.mem_of_mem_drop hp) h)

theorem setSliceOp_clean (l : HList) (s : Slice) (ps : List Pair) (h : Clean l) : Clean (setSliceOp l s ps).1 := by
  unfold setSliceOp
  cases hc : cleanPairs ps with
  | error e => exact h
  | ok r => exact setSlice_clean l r s h (cleanPairs_clean ps r hc)

theorem delIdx_clean (l : HList) (i : Int) (h : Clean l) : Clean (delIdx l i).1 := by
  unfold delIdx
  cases pyIdx l.length i with
  | none => exact h
  | some n => exact clean_eraseIdx l n h

theorem popIdx_clean (l : HList) (i : Int) (h : Clean l) : Clean (popIdx l i).1 := by
  unfold popIdx
  cases pyIdx l.length i with
  | none => exact h
  | some n =>
    simp only
    cases l[n]? with
    | none => exact h
    | some p => exact clean_eraseIdx l n h

theorem popKey_clean (l : HList) (k : Str) (d : Option Str) (h : Clean l) : Clean (popKey l k d).1 := by
  unfold popKey
  cases getKey l k with
  | ok v => exact delKey_clean l k h
  | error e => cases d <;> exact h

/-- every public mutator keeps the values CR/LF-free, whether it succeeds or raises -/
theorem step_clean (l : HList) (op : Op) (h : Clean l) : Clean (step l op).1 := by
  cases op with
  | add k v => exact add_clean l k v h
  | set k v => exact set_clean l k v h
  | setlist k vs => exact setlist_clean l k vs h
  | setdefault k v => exact setdefault_clean l k v h
  | setlistdefault k vs => exact setlistdefault_clean l k vs h
  | extend a kw => exact extend_clean l a kw h
  | update a kw => exact update_clean l a kw h
  | setitemKey k v => exact set_clean l k v h
  | setitemIdx i p => exact setIdx_clean l i p h
  | setitemSlice s ps => exact setSliceOp_clean l s ps h
  | delitemKey k => exact delKey_clean l k h
  | delitemIdx i => exact delIdx_clean l i h
  | delitemSlice s => exact setSlice_clean l [] s h clean_nil
  | remove k => exact delKey_clean l k h
  | popLast => exact popIdx_clean l (-1) h
  | popKey k d => exact popKey_clean l k d h
  | popIdx i => exact popIdx_clean l i h
  | popitem => exact popIdx_clean l (-1) h
  | clear => exact clean_nil
  | ior a => exact update_clean l (some a) [] h

theorem run_clean (l : HList) (ops : List Op) (h : Clean l) : Clean (run l ops) := by
  induction ops generalizing l with
  | nil => exact h
  | cons op t ih => exact ih _ (step_clean l op h)

end Wz.C05L

/-! ### what `get_wsgi_headers` leaves under a header name -/
namespace Wz.C05L
open Wz Hdr Resp Wz.C16L Wz.C08L

theorem set_getlist_ne (l : HList) (k k' v : Str) (hne : lower k' ≠ lower k) :
    getlist (Hdr.set l k v).1 k' = getlist l k' := by
  cases hv : hasNL v with
  | true => simp [Hdr.set, strHeaderValue, hv]
  | false =>
    unfold getlist
    rw [filter_other_key k k' hne]
    have : (Hdr.set l k v).1.filter (fun p => !keyEq k p) = l.filter (fun p => !keyEq k p) := by
      rcases set_cases l k v hv with ⟨r, hs, he⟩ | ⟨_, he⟩
      · rw [he]; exact setLoop_filter_other k v l r hs
      · rw [he]; simp [List.filter_append, keyEq_self]
    rw [this, ← filter_other_key k k' hne]

theorem filter_getlist (l : HList) (p : Pair → Bool) (k : Str) (h : ∀ q ∈ l, keyEq k q = true → p q = true) :
    getlist (l.filter p) k = getlist l k := by
  unfold getlist
  rw [List.filter_filter]
  congr 1
  apply List.filter_congr
  intro q hq
  cases hk : keyEq k q with
  | false => simp
  | true => simp [h q hq hk]

theorem delKey_getlist_ne (l : HList) (k k' : Str) (hne : lower k' ≠ lower k) :
    getlist (delKey l k) k' = getlist l k' := by
  apply filter_getlist
  intro q _ hq
  simp only [keyEq, beq_iff_eq] at hq
  simp only [keyEq, Bool.not_eq_true', beq_eq_false_iff_ne]
  intro e; exact hne (e ▸ hq.symm ▸ rfl)


theorem removeEntity_getlist (l : HList) (k : Str)
    (hk : Gen.Response.entityHeaders.contains (String.ofList (lower k)) = false ∨
      lower k = "expires".toList ∨ lower k = "content-location".toList) :
    getlist (removeEntityHeaders l) k = getlist l k := by
  apply filter_getlist
  intro q _ hq
  simp only [keyEq, beq_iff_eq] at hq
  simp only [isEntity, hq, Bool.or_eq_true, Bool.not_eq_true', beq_iff_eq]
  rcases hk with h | h | h
  · exact Or.inl (Or.inl h)
  · exact Or.inl (Or.inr h)
  · exact Or.inr h

/-- what `get_wsgi_headers` leaves under a name that is not Content-Length: the entries after the
Location / Content-Location stores, untouched by the stripping and the automatic length -/
theorem wsgi_getlist_of (r : R) (lo co : Str) (k : Str)
    (hcl : lower k ≠ lower "Content-Length".toList)
    (hent : Gen.Response.entityHeaders.contains (String.ofList (lower k)) = false ∨
      lower k = "expires".toList ∨ lower k = "content-location".toList) :
    getlist (getWsgiHeaders r lo co) k =
      getlist (if (getlist r.headers "content-location".toList).isEmpty then
          (if (getlist r.headers "location".toList).isEmpty then r.headers else (Hdr.set r.headers "Location".toList lo).1)
        else (Hdr.set (if (getlist r.headers "location".toList).isEmpty then r.headers
          else (Hdr.set r.headers "Location".toList lo).1) "Content-Location".toList co).1) k := by
  unfold getWsgiHeaders
  simp only
  generalize (if (getlist r.headers "content-location".toList).isEmpty then
          (if (getlist r.headers "location".toList).isEmpty then r.headers else (Hdr.set r.headers "Location".toList lo).1)
        else (Hdr.set (if (getlist r.headers "location".toList).isEmpty then r.headers
          else (Hdr.set r.headers "Location".toList lo).1) "Content-Location".toList co).1) = hb
  have h3 : getlist (if (decide (100 ≤ r.status) && decide (r.status < 200) || r.status == 204) = true then
      delKey hb "Content-Length".toList else if (r.status == 304) = true then removeEntityHeaders hb else hb) k
      = getlist hb k := by
    split
    · exact delKey_getlist_ne _ _ _ hcl
    · split
      · exact removeEntity_getlist hb k hent
      · rfl
  split
  · rw [set_getlist_ne _ _ _ _ hcl, h3]
  · exact h3


end Wz.C05L

/-! ### `iri_to_uri` yields ASCII (same statement and proof as `Props.C15.iriToUri_ascii`; restated
here on top of Lemmas/Url.lean so that C05 does not depend on another property's Props file) -/
namespace Wz.C05L
open Wz Wz.Url

theorem iriToUri_ascii (p : Parts) (hs : ∀ c ∈ p.scheme, c.toNat < 128) (hh : ∀ c ∈ p.host, c.toNat < 128) :
    let u := iriToUri p
    (∀ c ∈ u.scheme, c.toNat < 128) ∧ (∀ c ∈ u.netloc, c.toNat < 128) ∧ (∀ c ∈ u.path, c.toNat < 128) ∧
    (∀ c ∈ u.query, c.toNat < 128) ∧ (∀ c ∈ u.fragment, c.toNat < 128) := by
  refine ⟨hs, ?_, (fun c hc => Url.quoteBytes_ascii _ _ c hc), (fun c hc => Url.quoteBytes_ascii _ _ c hc), (fun c hc => Url.quoteBytes_ascii _ _ c hc)⟩
  have hdig : ∀ k : Nat, ∀ c ∈ (toString k).toList, c.toNat < 128 := by
    intro k c hc
    rw [Nat.toString_eq_repr, Nat.toList_repr] at hc
    have := Char.isDigit_iff_toNat.mp (Nat.isDigit_of_mem_toDigits (by decide) (by decide) hc)
    have h9 : '9'.toNat = 57 := by decide
    omega
  intro c hc
  simp only [iriToUri, netloc] at hc
  have hhost : ∀ c ∈ (if p.host.contains ':' = true then '[' :: p.host ++ [']'] else p.host), c.toNat < 128 := by
    intro c hc
    split at hc
    · simp only [List.cons_append, List.mem_cons, List.mem_append, List.mem_nil_iff, or_false] at hc
      rcases hc with rfl | hc | rfl
      · decide
      · exact hh c hc
      · decide
    · exact hh c hc
  have hport : ∀ c ∈ (match p.port with
      | some 0 => (if p.host.contains ':' = true then '[' :: p.host ++ [']'] else p.host)
      | some k => (if p.host.contains ':' = true then '[' :: p.host ++ [']'] else p.host) ++ ':' :: (toString k).toList
      | none => (if p.host.contains ':' = true then '[' :: p.host ++ [']'] else p.host)), c.toNat < 128 := by
    intro c hc
    split at hc
    · exact hhost c hc
    · rcases List.mem_append.mp hc with hc | hc
      · exact hhost c hc
      · rcases List.mem_cons.mp hc with rfl | hc
        · decide
        · exact hdig _ c hc
    · exact hhost c hc
  split at hc
  · rcases List.mem_append.mp hc with hc | hc
    · split at hc
      · rcases List.mem_append.mp hc with hc | hc
        · exact (fun c hc => Url.quoteBytes_ascii _ _ c hc) c hc
        · rcases List.mem_cons.mp hc with rfl | hc
          · decide
          · exact (fun c hc => Url.quoteBytes_ascii _ _ c hc) c hc
      · exact (fun c hc => Url.quoteBytes_ascii _ _ c hc) c hc
    · rcases List.mem_cons.mp hc with rfl | hc
      · decide
      · exact hport c hc
  · exact hport c hc

end Wz.C05L
