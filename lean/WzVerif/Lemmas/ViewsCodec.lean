/-
C16 ↔ C06 bridge: the views of Model/Views.lean use the codecs of Model/Http.lean; this file turns
the round-trip theorems of the C06 slice into "a view that wrote itself back re-reads equal" under
explicit domain predicates on the view, and shows that the serialised text is free of CR/LF (so
that `Headers.set` accepts it) when the view's keys and values are.
-/
import WzVerif.Lemmas.Views
import WzVerif.Lemmas.Http
import WzVerif.Lemmas.HttpAuth
import WzVerif.Lemmas.HttpDigest
import WzVerif.Lemmas.HttpCC
import WzVerif.Lemmas.HttpCRange
import WzVerif.Lemmas.HttpCsp
import WzVerif.Lemmas.HttpOpt3
namespace Wz.C16L
open Wz Hdr Views

/-! ### CR/LF-freeness of serialised text -/

theorem hasNL_append (a b : Str) : hasNL (a ++ b) = (hasNL a || hasNL b) := by simp [hasNL]

theorem hasNL_cons (c : Char) (t : Str) : hasNL (c :: t) = (isNL c || hasNL t) := by simp [hasNL]

theorem hasNL_intercalate (sep : Str) (parts : List Str) (hs : hasNL sep = false)
    (hp : ∀ p ∈ parts, hasNL p = false) : hasNL (List.intercalate sep parts) = false := by
  induction parts with
  | nil => rfl
  | cons a t ih =>
    cases t with
    | nil => simpa using hp a List.mem_cons_self
    | cons b r =>
      rw [List.intercalate_cons_cons, hasNL_append, hasNL_append, hp a List.mem_cons_self, hs,
        ih (fun p h => hp p (List.mem_cons_of_mem _ h))]
      rfl

theorem hasNL_join (sep : String) (parts : List Str) (hs : hasNL sep.toList = false)
    (hp : ∀ p ∈ parts, hasNL p = false) : hasNL (Http.join sep parts) = false :=
  hasNL_intercalate _ _ hs hp

theorem hasNL_replace1 (c : Char) (r s : Str) (hr : hasNL r = false) (hs : hasNL s = false) :
    hasNL (Http.replace1 c r s) = false := by
  induction s with
  | nil => rfl
  | cons x t ih =>
    rw [hasNL_cons, Bool.or_eq_false_iff] at hs
    simp only [Http.replace1, List.flatMap_cons] at ih ⊢
    rw [hasNL_append, ih hs.2]
    by_cases hx : (x == c) = true
    · simp [hx, hr]
    · simp [hx, hasNL, hs.1]

theorem hasNL_quote (v : Str) (b : Bool) (hv : hasNL v = false) : hasNL (Http.quoteHeaderValue v b) = false := by
  unfold Http.quoteHeaderValue
  split
  · decide
  · split
    · exact hv
    · have : hasNL (Http.escapeDq v) = false := by
        unfold Http.escapeDq
        exact hasNL_replace1 _ _ _ (by decide) (hasNL_replace1 _ _ _ (by decide) hv)
      rw [hasNL_append, hasNL_cons, this]
      decide

theorem isNL_isSpace {c : Char} (h : isNL c = true) : Py.isSpace c = true := by
  simp only [isNL, Bool.or_eq_true, beq_iff_eq] at h
  rcases h with e | e <;> subst e <;> decide

theorem hasNL_of_noSpace (s : Str) (h : ∀ c ∈ s, Py.isSpace c = false) : hasNL s = false := by
  unfold hasNL
  rw [Bool.eq_false_iff]
  intro hc
  rw [List.any_eq_true] at hc
  obtain ⟨c, hm, hn⟩ := hc
  have := isNL_isSpace hn
  rw [h c hm] at this
  exact Bool.noConfusion this

theorem hasNL_token (k : Str) (h : k.all Http.isToken = true) : hasNL k = false :=
  hasNL_of_noSpace k (fun c hc => Http.isToken_not_space (List.all_eq_true.1 h c hc))

theorem httpIntText_eq (i : Int) : Http.intText i = CC.intText i := by
  cases i <;> rfl

/-! ### HeaderSet views -/

/-- the members carry no CR / LF -/
def setGood (c : HS.St) : Bool := c.headers.all (fun w => !hasNL w)

theorem setDump_noNL (c : HS.St) (h : setGood c = true) : hasNL (SetView.dump c) = false := by
  unfold SetView.dump Http.headerSetToHeader
  apply hasNL_join _ _ (by decide)
  intro p hp
  obtain ⟨w, hw, he⟩ := List.mem_map.1 hp
  subst he
  have := List.all_eq_true.1 h w hw
  exact hasNL_quote w true (by simpa using this)

/-- equality of HeaderSet views: same member list, same lookup set (a Python set: order-free) -/
def hsEq (a b : HS.St) : Bool :=
  decide (a.headers = b.headers) && a.set.all (b.set.contains ·) && b.set.all (a.set.contains ·)

theorem hsEq_construct (c : HS.St) (hI : HS.Inv c) : hsEq (HS.construct c.headers) c = true := by
  rw [C08L.construct_of_nodup c.headers hI.1]
  simp only [hsEq, decide_true, Bool.true_and, Bool.and_eq_true, List.all_eq_true, List.contains_iff_mem]
  exact ⟨fun x hx => (hI.2.2 x).2 hx, fun x hx => (hI.2.2 x).1 hx⟩

/-- `parse_set_header(HeaderSet(items).to_header())` gives back `items` (as `Props.C06.parseSet_dump`,
restated on top of Lemmas/Http.lean) -/
theorem parseSet_dump (items : List Str) : Http.parseSetHeader (Http.headerSetToHeader items) = items := by
  unfold Http.parseSetHeader Http.headerSetToHeader
  have h := Http.parseList_dump_any items
  unfold Http.dumpHeaderList at h
  split
  · next he =>
    cases items with
    | nil => rfl
    | cons v vs =>
      exfalso
      rw [List.isEmpty_iff] at he
      rw [he] at h
      simp [Http.parseListHeader, Http.parseHttpList, Http.httpListGo] at h
  · exact h

/-- a HeaderSet view (any members, any Unicode) that wrote itself back re-reads equal -/
theorem set_roundtrip (h : HList) (name : Str) (c : HS.St) (hI : HS.Inv c) (hg : setGood c = true) :
    hsEq (SetView.load (SetView.write h name c) name) c = true := by
  cases he : c.set.isEmpty with
  | true =>
    have hset : c.set = [] := by simpa using he
    have hh : c.headers = [] := by
      cases hc : c.headers with
      | nil => rfl
      | cons w r =>
        have := (hI.2.2 (lower w)).2 (by rw [hc]; simp)
        rw [hset] at this; cases this
    have : SetView.load (SetView.write h name c) name = HS.construct [] := by
      simp only [SetView.write, he, if_true, SetView.load, absent_getKey]
    rw [this]
    simp [hsEq, HS.construct, HS.updateLoop, hh, hset]
  | false =>
    have : SetView.load (SetView.write h name c) name = HS.construct c.headers := by
      simp only [SetView.write, he, Bool.false_eq_true, if_false, SetView.load,
        set_getKey h name _ (setDump_noNL c hg)]
      unfold SetView.dump
      rw [parseSet_dump]
    rw [this]
    exact hsEq_construct c hI

/-! ### reading back what `Headers.set` stored, under another spelling of the name -/

theorem getKey_congr (l : HList) {k k' : Str} (h : lower k = lower k') : getKey l k = getKey l k' := by
  simp [getKey, keyEq_congr h]

theorem set_getKey' (l : HList) (k k' v : Str) (hk : lower k = lower k') (hv : hasNL v = false) :
    getKey (Hdr.set l k' v).1 k = .ok v := by
  rw [getKey_congr _ hk]; exact set_getKey l k' v hv

theorem delKey_getKey (l : HList) (k : Str) : getKey (delKey l k) k = .error "BadRequestKeyError" := by
  have := delKey_getlist l k
  simp only [getlist] at this
  simp only [getKey]
  cases hf : (delKey l k).find? (keyEq k) with
  | none => rfl
  | some p =>
    have hm := List.mem_of_find?_eq_some hf
    have hkp := List.find?_some hf
    have : p ∈ (delKey l k).filter (keyEq k) := List.mem_filter.2 ⟨hm, hkp⟩
    simp_all

theorem writeText_ok (h : HList) (name t : Str) : (writeText h name (.ok t)).1 = (Hdr.set h name t).1 := rfl

/-! ### Cache-Control (and every `key[=value]` dict) -/

def valNoNL : Option Str → Bool
  | none => true
  | some v => !hasNL v

/-- distinct non-empty token keys without `*`; values `None` or text without CR / LF -/
def dictGood (d : ODict) : Bool :=
  d.all (fun e => Http.KeyOk e.1 && valNoNL e.2) && decide ((d.map (·.1)).Nodup)

theorem dictGood_keys {d : ODict} (h : dictGood d = true) : ∀ x ∈ d, Http.KeyOk x.1 = true := by
  intro x hx
  simp only [dictGood, Bool.and_eq_true, List.all_eq_true] at h
  exact (h.1 x hx).1

theorem dictGood_nodup {d : ODict} (h : dictGood d = true) : (d.map (·.1)).Nodup := by
  simp only [dictGood, Bool.and_eq_true, decide_eq_true_eq] at h
  exact h.2

theorem dictText_noNL (d : ODict) (h : dictGood d = true) :
    hasNL (Http.join ", " (d.map Http.dictItemText)) = false := by
  apply hasNL_join _ _ (by decide)
  intro p hp
  obtain ⟨e, he, hpe⟩ := List.mem_map.1 hp
  subst hpe
  simp only [dictGood, Bool.and_eq_true, List.all_eq_true] at h
  have hk := hasNL_token e.1 (Http.keyOk_all (h.1 e he).1)
  have hv := (h.1 e he).2
  obtain ⟨k, v⟩ := e
  cases v with
  | none => simpa [Http.dictItemText] using hk
  | some v =>
    simp only [valNoNL, Bool.not_eq_true'] at hv
    simp only [Http.dictItemText, hasNL_append, hasNL_cons]
    simp only at hk
    rw [hk, hasNL_quote v true hv]
    decide

theorem dictText_ne_nil (x : Str × Option Str) (d : ODict) (hk : Http.KeyOk x.1 = true) :
    Http.join ", " ((x :: d).map Http.dictItemText) ≠ [] := by
  have hx : Http.dictItemText x ≠ [] := by
    obtain ⟨k, v⟩ := x
    have : k ≠ [] := by
      intro e; subst e; simp [Http.KeyOk] at hk
    cases v <;> cases k <;> simp_all [Http.dictItemText]
  exact Http.intercalate_ne_nil _ _ _ hx

/-- a cache-control view in the domain re-reads equal after it wrote itself back -/
theorem cc_roundtrip (h : HList) (d : ODict) (hg : dictGood d = true) : CC.load (CC.write h d).1 = d := by
  cases d with
  | nil => simp only [CC.write, List.isEmpty_nil, if_true, CC.load, absent_getKey]
  | cons x r =>
    have hk := dictGood_keys hg
    have hdump : CC.dump (x :: r) = .ok (Http.join ", " ((x :: r).map Http.dictItemText)) :=
      Http.dumpHeaderDict_ok _ hk
    have hrt := Http.parseDict_dump_any (x :: r) hk (dictGood_nodup hg)
    rw [Http.dumpHeaderDict_ok _ hk] at hrt
    simp only [Http.ok_bind] at hrt
    have hne := dictText_ne_nil x r (hk x List.mem_cons_self)
    have hemp : (Http.join ", " ((x :: r).map Http.dictItemText)).isEmpty = false := by
      cases hj : Http.join ", " ((x :: r).map Http.dictItemText) with
      | nil => exact absurd hj hne
      | cons _ _ => rfl
    simp only [CC.write, List.isEmpty_cons, Bool.false_eq_true, if_false, hdump, writeText_ok, CC.load,
      set_getKey' _ "cache-control".toList "Cache-Control".toList _ (by decide) (dictText_noNL _ hg),
      Http.parseCacheControl, hemp, hrt]

/-! ### Content-Security-Policy -/

/-- directives and values in the domain of `csp_roundtrip`, distinct directives, no CR / LF -/
def cspGood (d : CSP.St) : Bool :=
  d.all (fun e => Http.CspItemOk e && !hasNL e.1 && !hasNL e.2) && decide ((d.map (·.1)).Nodup)

theorem cspText_noNL (d : CSP.St) (h : cspGood d = true) : hasNL (CSP.dump d) = false := by
  unfold CSP.dump Http.dumpCsp
  apply hasNL_join _ _ (by decide)
  intro p hp
  obtain ⟨e, he, hpe⟩ := List.mem_map.1 hp
  subst hpe
  simp only [cspGood, Bool.and_eq_true, List.all_eq_true, Bool.not_eq_true'] at h
  obtain ⟨⟨_, h1⟩, h2⟩ := h.1 e he
  obtain ⟨k, v⟩ := e
  simp only at h1 h2
  simp only [hasNL_append, hasNL_cons, h1, h2]
  decide

theorem csp_roundtrip (h : HList) (name writeName : Str) (hk : lower name = lower writeName) (d : CSP.St)
    (hg : cspGood d = true) : CSP.load (CSP.write h name writeName d) name = d := by
  cases d with
  | nil => simp only [CSP.write, List.isEmpty_nil, if_true, CSP.load, delKey_getKey]
  | cons x r =>
    have hok : ∀ e ∈ x :: r, Http.CspItemOk e = true := by
      intro e he
      simp only [cspGood, Bool.and_eq_true, List.all_eq_true] at hg
      exact (hg.1 e he).1.1
    have hnd : ((x :: r).map (·.1)).Nodup := by
      simp only [cspGood, Bool.and_eq_true, decide_eq_true_eq] at hg; exact hg.2
    simp only [CSP.write, List.isEmpty_cons, Bool.false_eq_true, if_false, CSP.load,
      set_getKey' _ name writeName _ hk (cspText_noNL _ hg)]
    exact Http.csp_roundtrip_any (x :: r) hok hnd

/-! ### Content-Range -/

/-- the unset range, or a range `is_byte_range_valid` accepts with units free of white space -/
def crGood (c : CR.St) : Bool := decide (c = CR.empty) || Http.CRangeOk c

theorem crText_noNL (c : CR.St) (h : Http.CRangeOk c = true) : hasNL (Http.contentRangeToHeader c) = false := by
  obtain ⟨units, start, stop, length⟩ := c
  simp only [Http.CRangeOk, Bool.and_eq_true] at h
  cases units with
  | none => simp at h
  | some u =>
    have hu : hasNL u = false := by
      apply hasNL_of_noSpace
      intro ch hch
      have := h.1
      simp only [Http.CUnitsOk, Bool.and_eq_true, List.all_eq_true, Bool.not_eq_true'] at this
      exact this.2 ch hch
    have hlen : hasNL (Http.lenText length) = false := by
      cases length with
      | none => decide
      | some l => simp only [Http.lenText, httpIntText_eq]; exact intText_noNL l
    simp only [Http.contentRangeToHeader]
    cases start <;> cases stop <;>
      simp only [hasNL_append, hasNL_cons, hu, hlen, httpIntText_eq, intText_noNL] <;> decide

theorem cr_roundtrip (h : HList) (c : CR.St) (hg : crGood c = true) : CR.load (CR.write h c).1 = c := by
  simp only [crGood, Bool.or_eq_true, decide_eq_true_eq] at hg
  rcases hg with he | hok
  · subst he
    simp only [CR.write, CR.empty, CR.load, delKey_getKey]
  · have hu : ∃ u, c.units = some u := by
      simp only [Http.CRangeOk, Bool.and_eq_true] at hok
      cases hc : c.units with
      | none => rw [hc] at hok; simp at hok
      | some u => exact ⟨u, rfl⟩
    obtain ⟨u, hu⟩ := hu
    have hth : CR.toHeader c = .ok (Http.contentRangeToHeader c) := by
      simp only [Http.CRangeOk, Bool.and_eq_true] at hok
      unfold CR.toHeader
      cases hs : c.start <;> cases he : c.stop <;> simp only [hu]
      have := hok.2
      rw [hs, he] at this
      simp [Http.isByteRangeValid] at this
    simp only [CR.write, hu, hth, writeText_ok, CR.load,
      set_getKey' _ "content-range".toList "Content-Range".toList _ (by decide) (crText_noNL c hok),
      CR.parse, Http.contentRange_roundtrip_any c hok]
    rfl

/-! ### WWW-Authenticate -/

/-- the scheme survives `.title()` (no space appears) followed by `.lower()` -/
def WwwSchemeOk (t : Str) : Bool :=
  !(Http.pyTitle t).contains ' ' && (Http.pyLower (Http.pyTitle t) == t)

theorem wwwFrom_token (t tok : Str) (hs : WwwSchemeOk t = true) (htok : Http.AuthTokenOk tok = true) :
    Http.wwwFromHeader (Http.pyTitle t ++ ' ' :: tok) = .ok (some ⟨t, [], some tok⟩) := by
  simp only [WwwSchemeOk, Bool.and_eq_true, Bool.not_eq_true', beq_iff_eq] at hs
  obtain ⟨hsp, hlow⟩ := hs
  have hsp' : ' ' ∉ Http.pyTitle t := by simpa using hsp
  unfold Http.wwwFromHeader
  have hne : (Http.pyTitle t ++ ' ' :: tok).isEmpty = false := by cases Http.pyTitle t <;> rfl
  have hstrip : Http.strip tok = tok := by
    simp only [Http.AuthTokenOk, Bool.and_eq_true, beq_iff_eq] at htok; exact htok.1
  simp only [hne, Bool.false_eq_true, if_false, Http.partition_found hsp', hlow, hstrip,
    Http.authRest_token t tok htok, Http.ok_bind, Http.pure_eq_ok]

theorem wwwFrom_params (t : Str) (x : Str × Option Str) (d : ODict) (hs : WwwSchemeOk t = true)
    (hk : ∀ y ∈ x :: d, Http.KeyOk y.1 = true) (hnd : ((x :: d).map (·.1)).Nodup) (hv : x.2.isSome = true) :
    Http.wwwFromHeader (Http.pyTitle t ++ ' ' :: Http.join ", " ((x :: d).map Http.dictItemText))
      = .ok (some ⟨t, x :: d, none⟩) := by
  simp only [WwwSchemeOk, Bool.and_eq_true, Bool.not_eq_true', beq_iff_eq] at hs
  obtain ⟨hsp, hlow⟩ := hs
  have hsp' : ' ' ∉ Http.pyTitle t := by simpa using hsp
  unfold Http.wwwFromHeader
  have hne : (Http.pyTitle t ++ ' ' :: Http.join ", " ((x :: d).map Http.dictItemText)).isEmpty = false := by
    cases Http.pyTitle t <;> rfl
  simp only [hne, Bool.false_eq_true, if_false, Http.partition_found hsp', hlow,
    Http.authRest_params t x d hk hnd hv, Http.ok_bind, Http.pure_eq_ok]

/-- parameters of a `Digest` challenge in the domain of `www_digest_roundtrip` (C06): distinct
non-empty token keys without `*`, every value a text (the digest dumper writes `None` as the text
`None`) without CR / LF -/
def digestOk (d : ODict) : Bool :=
  d.all (fun e => Http.KeyOk e.1 && e.2.isSome && valNoNL e.2) && decide ((d.map (·.1)).Nodup)

/-- the text values of a digest parameter dict -/
def digestVals (d : ODict) : List (Str × Str) := d.map fun e => (e.1, e.2.getD [])

theorem digestVals_back (d : ODict) (h : digestOk d = true) :
    (digestVals d).map (fun kv => (kv.1, some kv.2)) = d := by
  simp only [digestOk, Bool.and_eq_true, List.all_eq_true] at h
  simp only [digestVals, List.map_map]
  conv => rhs; rw [← List.map_id d]
  apply List.map_congr_left
  intro e he
  obtain ⟨k, v⟩ := e
  have := (h.1 (k, v) he).1.2
  cases v with
  | none => simp at this
  | some t => rfl

theorem digestText_noNL (ps : List (Str × Str)) (hk : ∀ y ∈ ps, Http.KeyOk y.1 = true)
    (hv : ∀ y ∈ ps, hasNL y.2 = false) :
    hasNL ("Digest".toList ++ ' ' :: Http.join ", " (ps.map Http.digestItemText)) = false := by
  rw [hasNL_append, hasNL_cons]
  have : hasNL (Http.join ", " (ps.map Http.digestItemText)) = false := by
    apply hasNL_join _ _ (by decide)
    intro p hp
    obtain ⟨y, hy, rfl⟩ := List.mem_map.1 hp
    have hky := hk y hy
    simp only [Http.KeyOk, Bool.and_eq_true] at hky
    simp only [Http.digestItemText, hasNL_append, hasNL_cons, hasNL_token y.1 hky.1.2, hasNL_quote y.2 _ (hv y hy)]
    decide
  rw [this]; decide

/-- a challenge in the domain: a scheme that survives title/lower-casing, and either a token
(stripped, `=` only as trailing padding, no CR/LF) with no parameters, or a non-empty dict of
parameters with no token - in the domain of `dictGood` with the first value present, or for the
scheme `digest` (always-quoted parameters) in the domain `digestOk` -/
def authGood (c : Auth.St) : Bool :=
  WwwSchemeOk c.type && !hasNL (Http.pyTitle c.type) &&
  (match c.token, c.params with
   | some tok, [] => Http.AuthTokenOk tok && !hasNL tok
   | none, x :: d =>
     if c.type == "digest".toList then digestOk (x :: d) else dictGood (x :: d) && x.2.isSome
   | _, _ => false)

theorem auth_roundtrip (h : HList) (c : Auth.St) (hg : authGood c = true) : Auth.load (Auth.write h c).1 = c := by
  obtain ⟨t, params, token⟩ := c
  simp only [authGood, Bool.and_eq_true, Bool.not_eq_true'] at hg
  obtain ⟨⟨hs, hnt⟩, hm⟩ := hg
  cases token with
  | some tok =>
    cases params with
    | cons x d => simp at hm
    | nil =>
      simp only [Bool.and_eq_true, Bool.not_eq_true'] at hm
      have hth : Auth.toHeader ⟨t, [], some tok⟩ = .ok (Http.pyTitle t ++ ' ' :: tok) := by
        simp [Auth.toHeader, Http.wwwToHeader]
      have hnl : hasNL (Http.pyTitle t ++ ' ' :: tok) = false := by
        simp only [hasNL_append, hasNL_cons, hnt, hm.2]; decide
      have hne : (Http.pyTitle t ++ ' ' :: tok).isEmpty = false := by cases Http.pyTitle t <;> rfl
      simp only [Auth.write, hth, writeText_ok, Auth.load, set_getKey _ _ _ hnl, wwwFrom_token t tok hs hm.1]
  | none =>
    cases params with
    | nil => simp at hm
    | cons x d =>
      by_cases hdig : (t == "digest".toList) = true
      · -- Digest: C06's `www_digest_roundtrip`
        simp only [hdig, if_true] at hm
        have ht : t = "digest".toList := by simpa using hdig
        subst ht
        have hback := digestVals_back (x :: d) hm
        have hall := hm
        simp only [digestOk, Bool.and_eq_true, List.all_eq_true, decide_eq_true_eq] at hall
        have hk : ∀ y ∈ digestVals (x :: d), Http.KeyOk y.1 = true := by
          intro y hy
          obtain ⟨e, he, rfl⟩ := List.mem_map.1 hy
          exact (hall.1 e he).1.1
        have hvv : ∀ y ∈ digestVals (x :: d), hasNL y.2 = false := by
          intro y hy
          obtain ⟨e, he, rfl⟩ := List.mem_map.1 hy
          have h1 := (hall.1 e he).2
          have h2 := (hall.1 e he).1.2
          obtain ⟨k, v⟩ := e
          cases v with
          | none => simp at h2
          | some tt => simpa [valNoNL] using h1
        have hnd : ((digestVals (x :: d)).map (·.1)).Nodup := by
          simpa [digestVals, Function.comp_def] using hall.2
        have hrt := Http.www_digest_roundtrip_any (x.1, x.2.getD []) (digestVals d) (by simpa [digestVals] using hk)
          (by simpa [digestVals] using hnd)
        have hcons : (x.1, x.2.getD []) :: digestVals d = digestVals (x :: d) := rfl
        rw [hcons, hback] at hrt
        have hdump : Http.wwwToHeader ⟨"digest".toList, x :: d, none⟩
            = .ok ("Digest".toList ++ ' ' :: Http.join ", " ((digestVals (x :: d)).map Http.digestItemText)) := by
          conv => lhs; rw [← hback]
          unfold Http.wwwToHeader
          simp only [beq_self_eq_true, if_true, List.map_map, Function.comp_def, Http.optText]
          rfl
        rw [hdump] at hrt
        simp only [Http.ok_bind] at hrt
        simp only [Auth.write, Auth.toHeader, hdump, writeText_ok, Auth.load,
          set_getKey _ _ _ (digestText_noNL _ hk hvv), hrt]
      have hdig' : (t == "digest".toList) = false := by simpa using hdig
      simp only [hdig', Bool.false_eq_true, if_false, Bool.and_eq_true] at hm
      have hnd := hdig'
      obtain ⟨hdg, hv⟩ := hm
      have hk := dictGood_keys hdg
      have hth : Auth.toHeader ⟨t, x :: d, none⟩
          = .ok (Http.pyTitle t ++ ' ' :: Http.join ", " ((x :: d).map Http.dictItemText)) := by
        unfold Auth.toHeader Http.wwwToHeader
        simp only [hnd, Bool.false_eq_true, if_false, Http.dumpHeaderDict_ok _ hk]
        rfl
      have hnl : hasNL (Http.pyTitle t ++ ' ' :: Http.join ", " ((x :: d).map Http.dictItemText)) = false := by
        simp only [hasNL_append, hasNL_cons, hnt, dictText_noNL _ hdg]; decide
      simp only [Auth.write, hth, writeText_ok, Auth.load, set_getKey _ _ _ hnl,
        wwwFrom_params t x d hs hk (dictGood_nodup hdg) hv]

/-! ### mimetype_params -/

/-- the Content-Type currently has a primary value `m` (non-empty, stripped, no `;`, no CR/LF) and
the parameters are in the domain of `parseOptions_dump`: distinct lower-case token names without
`*`, values without the literal `%22` and without CR/LF -/
def mpGood (h : HList) (d : MP.St) : Bool :=
  match MP.mimetype h with
  | none => false
  | some m =>
    Http.HdrOk m && !hasNL m &&
    d.all (fun e => Http.OptKeyOk e.1 && !Http.hasPct22 e.2 && !hasNL e.2) && decide ((d.map (·.1)).Nodup)

theorem mp_roundtrip (h : HList) (d : MP.St) (hg : mpGood h d = true) : MP.load (MP.write h d).1 = d := by
  unfold mpGood at hg
  cases hm : MP.mimetype h with
  | none => rw [hm] at hg; exact absurd hg (by simp)
  | some m =>
    rw [hm] at hg
    simp only [Bool.and_eq_true, Bool.not_eq_true', List.all_eq_true, decide_eq_true_eq] at hg
    obtain ⟨⟨⟨hh, hmn⟩, hall⟩, hnd⟩ := hg
    have hk : ∀ x ∈ d, Http.OptKeyOk x.1 = true := fun x hx => (hall x hx).1.1
    have hv : ∀ x ∈ d, Http.hasPct22 x.2 = false := fun x hx => (hall x hx).1.2
    have hdump := Http.dumpOptions_ok m d hk
    have hrt := Http.parseOptions_dump_any m d hh hk hv hnd
    rw [hdump] at hrt
    simp only [Http.ok_bind] at hrt
    have hnl : hasNL (Http.join "; " (m :: d.map Http.seg)) = false := by
      apply hasNL_join _ _ (by decide)
      intro p hp
      rcases List.mem_cons.1 hp with e | e
      · subst e; exact hmn
      · obtain ⟨x, hx, hpx⟩ := List.mem_map.1 e
        subst hpx
        have hkx := hasNL_token x.1 (Http.keyOk_all (Http.optKeyOk_keyOk (hk x hx)))
        simp only [Http.seg, hasNL_append, hasNL_cons, hkx, hasNL_quote x.2 true (hall x hx).2]
        decide
    simp only [MP.write, MP.dumpOptions, hm, hdump, writeText_ok, MP.load,
      set_getKey' _ "content-type".toList "Content-Type".toList _ (by decide) hnl, hrt]

end Wz.C16L
