/-
Routing lemmas, part 11 (C04): `unquote ∘ quote = id`, decimal printing / reading of integers, and the
per-converter round trip `to_python(unquote(to_url(v))) = v`.
-/
import WzVerif.Model.RoutingRoundtrip
import WzVerif.Util.Py
namespace Wz.Routing

/-! ### `unquote (quote s) = s` -/

def decodeHex (h l : UInt8) : Option UInt8 :=
  match hexNibble? (Char.ofNat h.toNat), hexNibble? (Char.ofNat l.toNat) with
  | some x, some y => some (UInt8.ofNat (16 * x + y))
  | _, _ => none

/-- the UTF-8 bytes of what `quote` emits for byte `b` decode back to `b` -/
def okQuote (q : List UInt8) (b : UInt8) : Bool :=
  match q with
  | [c] => c == b && b != 37
  | [p, h, l] => p == 37 && decodeHex h l == some b
  | _ => false

theorem quoteByte_pathSafe_ok : ∀ b : Fin 256,
    okQuote (utf8Enc (quoteByte (pathSafe.toList.map Char.toNat) (UInt8.ofNat b.val))) (UInt8.ofNat b.val) = true := by
  decide +kernel

theorem unquoteBytes_cons_ne {c : UInt8} (t : List UInt8) (h : c ≠ 37) : unquoteBytes (c :: t) = c :: unquoteBytes t := by
  rw [unquoteBytes.eq_def]
  split
  · rename_i heq
    injection heq with h1 _
    exact absurd h1 h
  · rename_i heq
    injection heq with h1 h2
    subst h1 h2; rfl
  · rename_i heq; cases heq

theorem unquoteBytes_escape {h l b : UInt8} (t : List UInt8) (hd : decodeHex h l = some b) :
    unquoteBytes (37 :: h :: l :: t) = b :: unquoteBytes t := by
  rw [unquoteBytes.eq_def]
  simp only [decodeHex] at hd
  split
  · rename_i a' b' t' heq
    injection heq with _ h2
    injection h2 with h2 h3
    injection h3 with h3 h4
    subst h2 h3 h4
    split at hd
    · rename_i x y hx hy
      simp only [hx, hy]
      injection hd with hd
      rw [hd]
    · cases hd
  · rename_i c t' hne heq
    injection heq with h1 h2
    exact (hne h l t h1.symm h2.symm).elim
  · rename_i heq; cases heq

theorem unquoteBytes_okQuote {q : List UInt8} {b : UInt8} (h : okQuote q b = true) (rest : List UInt8) :
    unquoteBytes (q ++ rest) = b :: unquoteBytes rest := by
  match q, h with
  | [c], h =>
    simp only [okQuote, Bool.and_eq_true, beq_iff_eq, bne_iff_ne, ne_eq] at h
    obtain ⟨rfl, hne⟩ := h
    exact unquoteBytes_cons_ne rest hne
  | [p, hh, l], h =>
    simp only [okQuote, Bool.and_eq_true, beq_iff_eq] at h
    obtain ⟨rfl, hd⟩ := h
    exact unquoteBytes_escape rest hd

theorem utf8Enc_append (a b : Str) : utf8Enc (a ++ b) = utf8Enc a ++ utf8Enc b := by
  simp [utf8Enc]

theorem unquoteBytes_quote_pathSafe (bs : List UInt8) :
    unquoteBytes (utf8Enc (bs.flatMap (quoteByte (pathSafe.toList.map Char.toNat)))) = bs := by
  induction bs with
  | nil => simp [utf8Enc, unquoteBytes]
  | cons b t ih =>
    simp only [List.flatMap_cons, utf8Enc_append]
    have := quoteByte_pathSafe_ok ⟨b.toNat, b.toNat_lt⟩
    simp only [UInt8.ofNat_toNat] at this
    rw [unquoteBytes_okQuote this, ih]

/-- percent-decoding what `quote(_, safe="!$&'()*+,/:;=@")` produced gives the text back, for every text -/
theorem unquote_quote_pathSafe (s : Str) : unquote (quote pathSafe s) = s := by
  simp only [unquote, quote, unquoteBytes_quote_pathSafe, Py.decodeReplace_utf8Enc]

end Wz.Routing

namespace Wz.Routing

/-! ### text without `%` is left alone by `unquote` -/

theorem or80_ne (x : UInt8) : x &&& 0x3f ||| 0x80 ≠ 37 := by
  have h : ∀ n : Fin 256, (UInt8.ofNat n.val) &&& 0x3f ||| 0x80 ≠ 37 := by decide +kernel
  have := h ⟨x.toNat, x.toNat_lt⟩
  simpa using this
theorem orc0_ne (x : UInt8) : x &&& 0x1f ||| 0xc0 ≠ 37 := by
  have h : ∀ n : Fin 256, (UInt8.ofNat n.val) &&& 0x1f ||| 0xc0 ≠ 37 := by decide +kernel
  have := h ⟨x.toNat, x.toNat_lt⟩
  simpa using this
theorem ore0_ne (x : UInt8) : x &&& 0x0f ||| 0xe0 ≠ 37 := by
  have h : ∀ n : Fin 256, (UInt8.ofNat n.val) &&& 0x0f ||| 0xe0 ≠ 37 := by decide +kernel
  have := h ⟨x.toNat, x.toNat_lt⟩
  simpa using this
theorem orf0_ne (x : UInt8) : x &&& 0x07 ||| 0xf0 ≠ 37 := by
  have h : ∀ n : Fin 256, (UInt8.ofNat n.val) &&& 0x07 ||| 0xf0 ≠ 37 := by decide +kernel
  have := h ⟨x.toNat, x.toNat_lt⟩
  simpa using this

theorem utf8EncodeChar_no37 (c : Char) (h : c ≠ '%') : (37 : UInt8) ∉ String.utf8EncodeChar c := by
  rcases Char.utf8Size_eq c with h1 | h2 | h3 | h4
  · rw [String.utf8EncodeChar_eq_singleton h1]
    simp only [List.mem_singleton]
    intro heq
    apply h
    have hle := Char.utf8Size_eq_one_iff.1 h1
    apply Char.ext
    have : c.val.toNat = 37 := by
      have h2 := congrArg UInt8.toNat heq
      simp only [UInt32.toNat_toUInt8] at h2
      have h3 : c.val.toNat ≤ 127 := by simpa [UInt32.le_iff_toNat_le] using hle
      have h4 : (37 : UInt8).toNat = 37 := rfl
      omega
    exact UInt32.toNat_inj.1 (by simpa using this)
  · rw [String.utf8EncodeChar_eq_cons_cons h2]
    simp only [List.mem_cons, List.not_mem_nil, or_false, not_or]
    exact ⟨fun h => orc0_ne _ h.symm, fun h => or80_ne _ h.symm⟩
  · rw [String.utf8EncodeChar_eq_cons_cons_cons h3]
    simp only [List.mem_cons, List.not_mem_nil, or_false, not_or]
    exact ⟨fun h => ore0_ne _ h.symm, fun h => or80_ne _ h.symm, fun h => or80_ne _ h.symm⟩
  · rw [String.utf8EncodeChar_eq_cons_cons_cons_cons h4]
    simp only [List.mem_cons, List.not_mem_nil, or_false, not_or]
    exact ⟨fun h => orf0_ne _ h.symm, fun h => or80_ne _ h.symm, fun h => or80_ne _ h.symm, fun h => or80_ne _ h.symm⟩

theorem unquoteBytes_no37 : ∀ (bs : List UInt8), (37 : UInt8) ∉ bs → unquoteBytes bs = bs
  | [], _ => by simp [unquoteBytes]
  | b :: t, h => by
    have hb : b ≠ 37 := fun hb => h (by simp [hb])
    rw [unquoteBytes_cons_ne t hb, unquoteBytes_no37 t (fun h' => h (List.mem_cons_of_mem _ h'))]

/-- `unquote` leaves text without a percent sign alone -/
theorem unquote_noPercent (s : Str) (h : '%' ∉ s) : unquote s = s := by
  have : (37 : UInt8) ∉ utf8Enc s := by
    simp only [utf8Enc, List.mem_flatMap, not_exists, not_and]
    intro c hc
    exact utf8EncodeChar_no37 c (fun hcc => h (hcc ▸ hc))
  simp only [unquote, unquoteBytes_no37 _ this, Py.decodeReplace_utf8Enc]

/-! ### decimal integers -/

theorem digitVal_digitChar : ∀ d : Fin 10, digitVal? (Nat.digitChar d.val) = some d.val := by
  decide +kernel

theorem digitsVal_append (l : Str) (c : Char) : digitsVal (l ++ [c]) = digitsVal l * 10 + (digitVal? c).getD 0 := by
  simp [digitsVal, List.foldl_append]

theorem digitsVal_toDigits (n : Nat) : digitsVal (Nat.toDigits 10 n) = n := by
  induction n using Nat.strongRecOn with
  | _ n ih =>
    rw [Nat.toDigits_eq_if (by omega)]
    split
    · rename_i h
      have := digitVal_digitChar ⟨n, h⟩
      simp [digitsVal, this]
    · rename_i h
      have hd := digitVal_digitChar ⟨n % 10, Nat.mod_lt _ (by omega)⟩
      rw [digitsVal_append, ih (n / 10) (by omega)]
      simp only at hd
      rw [hd]
      simp only [Option.getD_some]
      omega

theorem toDigits_head_ne_minus (n : Nat) : (Nat.toDigits 10 n).head? ≠ some '-' := by
  intro h
  have hne := @Nat.toDigits_ne_nil n 10
  cases hl : Nat.toDigits 10 n with
  | nil => exact hne hl
  | cons c t =>
    rw [hl] at h
    simp only [List.head?_cons, Option.some.injEq] at h
    subst h
    have := Nat.isDigit_of_mem_toDigits (b := 10) (n := n) (c := '-') (by omega) (by omega) (by rw [hl]; simp)
    simp [Char.isDigit] at this

/-- reading back what `str(int)` prints -/
theorem intOfText_toString (i : Int) : intOfText (toString i).toList = i := by
  rw [Int.toString_eq_repr, Int.repr_eq_if]
  split
  · rename_i h
    rw [Nat.toList_repr]
    have hh := toDigits_head_ne_minus i.toNat
    simp only [intOfText]
    split
    · rename_i t heq
      rw [heq] at hh; simp at hh
    · rw [digitsVal_toDigits]; omega
  · rename_i h
    simp only [String.toList_append, Nat.toList_repr]
    show intOfText ('-' :: Nat.toDigits 10 (-i).toNat) = i
    simp only [intOfText, digitsVal_toDigits]
    omega

end Wz.Routing

namespace Wz.Routing

/-! ### zero padding -/

theorem zfill_length (w : Nat) (s : Str) (h : s.length ≤ w) : (zfill w s).length = w := by
  unfold zfill
  split
  · rename_i t
    simp only [List.length_cons, List.length_append, List.length_replicate] at h ⊢
    omega
  · simp only [List.length_append, List.length_replicate]
    omega

theorem digitsVal_zeros (k : Nat) (l : Str) : digitsVal (List.replicate k '0' ++ l) = digitsVal l := by
  have h0 : (digitVal? '0').getD 0 = 0 := by decide +kernel
  induction k with
  | zero => rfl
  | succ k ih =>
    simp only [List.replicate_succ, List.cons_append, digitsVal, List.foldl_cons, h0, Nat.zero_mul, Nat.add_zero] at ih ⊢
    exact ih

theorem intOfText_zfill (w : Nat) (s : Str) : intOfText (zfill w s) = intOfText s := by
  unfold zfill
  split
  · rename_i t
    simp only [intOfText, digitsVal_zeros]
  · rename_i hnm
    cases hk : w - s.length with
    | zero => simp
    | succ k =>
      have : intOfText (List.replicate (k + 1) '0' ++ s) = (digitsVal (List.replicate (k + 1) '0' ++ s) : Int) := by
        simp [List.replicate_succ, intOfText]
      rw [this, digitsVal_zeros]
      cases s with
      | nil => simp [intOfText, digitsVal]
      | cons c t =>
        by_cases hc : c = '-'
        · subst hc; exact absurd rfl (hnm t)
        · simp only [intOfText]

theorem percent_not_in_toString (i : Int) : '%' ∉ (toString i).toList := by
  rw [Int.toString_eq_repr, Int.repr_eq_if]
  have hd : ∀ n : Nat, '%' ∉ Nat.toDigits 10 n := by
    intro n h
    have := Nat.isDigit_of_mem_toDigits (b := 10) (n := n) (c := '%') (by omega) (by omega) h
    simp [Char.isDigit] at this
  split
  · rw [Nat.toList_repr]; exact hd _
  · simp only [String.toList_append, Nat.toList_repr]
    intro h
    rcases List.mem_append.1 h with h | h
    · simp at h
    · exact hd _ h

theorem percent_not_in_zfill (w : Nat) (s : Str) (h : '%' ∉ s) : '%' ∉ zfill w s := by
  unfold zfill
  split
  · rename_i t
    intro hm
    rcases List.mem_cons.1 hm with hm | hm
    · cases hm
    · rcases List.mem_append.1 hm with hm | hm
      · simp [List.mem_replicate] at hm
      · exact h (List.mem_cons_of_mem _ hm)
  · intro hm
    rcases List.mem_append.1 hm with hm | hm
    · simp [List.mem_replicate] at hm
    · exact h hm

end Wz.Routing
