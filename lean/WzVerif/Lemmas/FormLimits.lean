/-
Helper lemmas and definitions for C10 (limits of the form parsers). Core Lean only.
-/
import WzVerif.Model.Multipart
import WzVerif.Model.Urlencode
namespace Wz.Multipart
open Wz

/-! ### what a single operation does to the bookkeeping fields -/

def isPart : Event → Bool
  | .field _ _ => true
  | .file _ _ _ => true
  | _ => false

def countParts (evs : List Event) : Nat := (evs.filter isPart).length

/-- fields of the decoder that no operation changes -/
def SameConfig (d d' : Decoder) : Prop :=
  d'.boundary = d.boundary ∧ d'.maxMem = d.maxMem ∧ d'.maxParts = d.maxParts

theorem receive_ok {d d' : Decoder} {c : Option Bytes} (h : receive d c = .ok d') :
    SameConfig d d' ∧ d'.partsDecoded = d.partsDecoded ∧
      (∀ m, d.maxMem = some m → d.buffer.length ≤ m → d'.buffer.length ≤ m) := by
  cases c with
  | none =>
    simp [receive] at h; subst h
    exact ⟨⟨rfl, rfl, rfl⟩, rfl, fun m _ hm => hm⟩
  | some c =>
    simp only [receive] at h
    cases hm : d.maxMem with
    | none =>
      rw [hm] at h; simp at h; subst h
      exact ⟨⟨rfl, hm.symm ▸ rfl, rfl⟩, rfl, fun m h' => by simp at h'⟩
    | some m =>
      rw [hm] at h
      simp only at h
      split at h
      · simp at h
      · rename_i hle
        simp at h; subst h
        refine ⟨⟨rfl, by simp [hm], rfl⟩, rfl, ?_⟩
        intro m' hm' _
        injection hm' with hm'; subst hm'
        simp at hle ⊢; omega

theorem dataStep_buffer_le {bnd buf p buf' : Bytes} {start start' : Bool} {nx : Option Bool}
    (h : dataStep bnd start buf = .ok (p, buf', start', nx)) : buf'.length ≤ buf.length := by
  unfold dataStep at h
  split at h
  · simp at h
  · split at h
    · simp at h; rw [← h.2.1]; exact Nat.le_refl _
    · simp at h; rw [← h.2.1]; simp

theorem stepData_ok {d d' : Decoder} {start : Bool} {ev : Event} (h : stepData d start = .ok (ev, d')) :
    SameConfig d d' ∧ d'.buffer.length ≤ d.buffer.length ∧ d'.partsDecoded = d.partsDecoded ∧
      isPart ev = false ∧ d'.complete = d.complete := by
  unfold stepData at h
  split at h
  · simp at h
  · rename_i p buf' start' nx hds
    have hle := dataStep_buffer_le hds
    simp only at h
    split at h
    · simp at h; rcases h with ⟨rfl, rfl⟩
      exact ⟨⟨rfl, rfl, rfl⟩, hle, rfl, rfl, rfl⟩
    · split at h
      · simp at h; rcases h with ⟨rfl, rfl⟩
        exact ⟨⟨rfl, rfl, rfl⟩, hle, rfl, rfl, rfl⟩
      · simp at h; rcases h with ⟨rfl, rfl⟩
        exact ⟨⟨rfl, rfl, rfl⟩, hle, rfl, rfl, rfl⟩

/-- one `next_event` body: the configuration is untouched, the buffer does not grow, the part
counter moves exactly when a Field/File event is produced and then respects `max_parts` -/
theorem step_ok {d d' : Decoder} {ev : Event} (h : step d = .ok (ev, d')) :
    SameConfig d d' ∧ d'.buffer.length ≤ d.buffer.length ∧
      d'.partsDecoded = d.partsDecoded + (if isPart ev then 1 else 0) ∧
      (∀ m, d.maxParts = some m → isPart ev = true → d'.partsDecoded ≤ m) ∧
      d'.complete = d.complete := by
  unfold step at h
  split at h
  · -- preamble
    split at h
    · simp at h; rcases h with ⟨rfl, rfl⟩
      exact ⟨⟨rfl, rfl, rfl⟩, by simp, by simp [isPart], by simp [isPart], rfl⟩
    · simp at h; rcases h with ⟨rfl, rfl⟩
      exact ⟨⟨rfl, rfl, rfl⟩, by simp, by simp [isPart], by simp [isPart], rfl⟩
  · -- part
    split at h
    · split at h
      · simp at h
      · split at h
        · simp at h
        · split at h
          · simp at h
          · rename_i ex hpo
            simp only at h
            split at h
            · rename_i m hm
              split at h
              · simp at h
              · rename_i hle
                simp at h; rcases h with ⟨rfl, rfl⟩
                refine ⟨⟨rfl, rfl, rfl⟩, by simp, ?_, ?_, rfl⟩
                · split <;> simp [isPart]
                · intro m' hm' _
                  rw [hm] at hm'; injection hm' with hm'; subst hm'
                  simp at hle ⊢; omega
            · rename_i hm
              simp at h; rcases h with ⟨rfl, rfl⟩
              refine ⟨⟨rfl, rfl, rfl⟩, by simp, ?_, ?_, rfl⟩
              · split <;> simp [isPart]
              · intro m' hm'; rw [hm] at hm'; simp at hm'
    · simp at h; rcases h with ⟨rfl, rfl⟩
      exact ⟨⟨rfl, rfl, rfl⟩, by simp, by simp [isPart], by simp [isPart], rfl⟩
  · -- dataStart
    rcases stepData_ok h with ⟨h1, h2, h3, h4, h5⟩
    exact ⟨h1, h2, by simp [h3, h4], by simp [h4], h5⟩
  · -- data
    rcases stepData_ok h with ⟨h1, h2, h3, h4, h5⟩
    exact ⟨h1, h2, by simp [h3, h4], by simp [h4], h5⟩
  · -- epilogue
    split at h
    · simp at h; rcases h with ⟨rfl, rfl⟩
      exact ⟨⟨rfl, rfl, rfl⟩, by simp, by simp [isPart], by simp [isPart], rfl⟩
    · simp at h; rcases h with ⟨rfl, rfl⟩
      exact ⟨⟨rfl, rfl, rfl⟩, by simp, by simp [isPart], by simp [isPart], rfl⟩
  · -- complete
    simp at h; rcases h with ⟨rfl, rfl⟩
    exact ⟨⟨rfl, rfl, rfl⟩, by simp, by simp [isPart], by simp [isPart], rfl⟩

theorem nextEvent_ok {d d' : Decoder} {ev : Event} (h : nextEvent d = .ok (ev, d')) :
    step d = .ok (ev, d') := by
  unfold nextEvent at h
  split at h
  · simp at h
  · rename_i ev0 d0 hs
    split at h
    · simp at h
    · simp at h; rcases h with ⟨rfl, rfl⟩; exact hs

/-! ### every operation sequence -/

/-- the decoder configurations reachable from `d0` by any sequence of the two public operations
`receive_data` / `next_event` (non-raising calls), with the events delivered so far -/
inductive Reach (d0 : Decoder) : Decoder → List Event → Prop
  | init : Reach d0 d0 []
  | recv {d d' : Decoder} {evs : List Event} {c : Option Bytes} :
      Reach d0 d evs → receive d c = .ok d' → Reach d0 d' evs
  | next {d d' : Decoder} {evs : List Event} {ev : Event} :
      Reach d0 d evs → nextEvent d = .ok (ev, d') → Reach d0 d' (evs ++ [ev])

theorem countParts_append (a b : List Event) : countParts (a ++ b) = countParts a + countParts b := by
  simp [countParts]

theorem reach_invariant {d0 d : Decoder} {evs : List Event} (h : Reach d0 d evs) :
    SameConfig d0 d ∧
    (∀ m, d0.maxMem = some m → d0.buffer.length ≤ m → d.buffer.length ≤ m) ∧
    d.partsDecoded = d0.partsDecoded + countParts evs ∧
    (∀ m, d0.maxParts = some m → d0.partsDecoded ≤ m → d.partsDecoded ≤ m) := by
  induction h with
  | init => exact ⟨⟨rfl, rfl, rfl⟩, fun _ _ h => h, by simp [countParts], fun _ _ h => h⟩
  | recv _ hr ih =>
    rcases ih with ⟨⟨c1, c2, c3⟩, ib, ip, iq⟩
    rcases receive_ok hr with ⟨⟨r1, r2, r3⟩, rp, rb⟩
    refine ⟨⟨r1.trans c1, r2.trans c2, r3.trans c3⟩, ?_, by rw [rp, ip], ?_⟩
    · intro m hm h0
      exact rb m (c2.trans hm) (ib m hm h0)
    · intro m hm h0; rw [rp]; exact iq m hm h0
  | @next dd dd' evs0 ev _ hn ih =>
    rcases ih with ⟨⟨c1, c2, c3⟩, ib, ip, iq⟩
    rcases step_ok (nextEvent_ok hn) with ⟨⟨s1, s2, s3⟩, sb, sp, sq, _⟩
    refine ⟨⟨s1.trans c1, s2.trans c2, s3.trans c3⟩, ?_, ?_, ?_⟩
    · intro m hm h0
      exact Nat.le_trans sb (ib m hm h0)
    · rw [sp, ip, countParts_append]
      simp only [countParts, List.filter_cons, List.filter_nil]
      split <;> simp <;> omega
    · intro m hm h0
      cases hp : isPart ev with
      | true => exact sq m (c3.trans hm) hp
      | false => rw [sp, hp]; simpa using iq m hm h0

/-! ### the model's own loops stay inside `Reach` -/

theorem countParts_cons (ev : Event) (l : List Event) :
    countParts (ev :: l) = (if isPart ev then 1 else 0) + countParts l := by
  simp only [countParts, List.filter_cons]
  split <;> simp <;> omega

theorem countParts_reverse (l : List Event) : countParts l.reverse = countParts l := by
  simp [countParts, List.filter_reverse]

/-- `drain` stays inside `Reach`; the part events it reports are the part events of the trace -/
theorem reach_drain {d0 : Decoder} (fuel : Nat) :
    ∀ (d : Decoder) (evs acc : List Event), Reach d0 d evs →
      ∃ evs', Reach d0 (drain fuel d acc).dec evs' ∧
        countParts evs' + countParts acc = countParts evs + countParts (drain fuel d acc).events := by
  induction fuel with
  | zero =>
    intro d evs acc h
    exact ⟨evs, by simpa [drain] using h, by simp [drain, countParts_reverse]⟩
  | succ fuel ih =>
    intro d evs acc h
    simp only [drain]
    cases hn : nextEvent d with
    | error e => exact ⟨evs, by simpa using h, by simp [countParts_reverse]⟩
    | ok v =>
      rcases v with ⟨ev, d'⟩
      have h' := Reach.next h hn
      have hstep : ∀ ev0 : Event, (∃ evs', Reach d0 (drain fuel d' (ev0 :: acc)).dec evs' ∧
          countParts evs' + countParts (ev0 :: acc) =
            countParts (evs ++ [ev0]) + countParts (drain fuel d' (ev0 :: acc)).events) →
          ∃ evs', Reach d0 (drain fuel d' (ev0 :: acc)).dec evs' ∧
            countParts evs' + countParts acc = countParts evs + countParts (drain fuel d' (ev0 :: acc)).events := by
        intro ev0 ⟨evs', hr, hc⟩
        refine ⟨evs', hr, ?_⟩
        rw [countParts_cons, countParts_append, countParts_cons] at hc
        simp only [countParts, List.filter_nil, List.length_nil] at hc ⊢
        omega
      cases ev with
      | needData =>
        refine ⟨_, by simpa using h', ?_⟩
        simp [countParts_append, countParts_reverse, countParts_cons, isPart]
        simp [countParts]
      | epilogue x =>
        refine ⟨_, by simpa using h', ?_⟩
        simp only [countParts_append, countParts_reverse, countParts_cons, isPart, List.reverse_cons]
        simp [countParts]
      | preamble x => exact hstep _ (ih d' _ _ h')
      | field n hd => exact hstep _ (ih d' _ _ h')
      | file n f hd => exact hstep _ (ih d' _ _ h')
      | data x m => exact hstep _ (ih d' _ _ h')

theorem reach_feed {d0 d : Decoder} {evs : List Event} (c : Option Bytes) (h : Reach d0 d evs) :
    ∃ evs', Reach d0 (feed d c).dec evs' ∧
      countParts evs' = countParts evs + countParts (feed d c).events := by
  unfold feed
  cases hr : receive d c with
  | error e => exact ⟨evs, by simpa using h, by simp [countParts]⟩
  | ok d' =>
    rcases reach_drain (drainFuel d') d' evs [] (Reach.recv h hr) with ⟨evs', h1, h2⟩
    exact ⟨evs', h1, by simpa [countParts] using h2⟩

theorem reach_feedAll {d0 : Decoder} (chunks : List Bytes) :
    ∀ (d : Decoder) (evs : List Event), Reach d0 d evs →
      ∃ evs', Reach d0 (feedAll d chunks).dec evs' ∧
        countParts evs' = countParts evs + countParts (feedAll d chunks).events := by
  induction chunks with
  | nil => intro d evs h; exact reach_feed none h
  | cons c cs ih =>
    intro d evs h
    simp only [feedAll]
    rcases reach_feed (some c) h with ⟨evs1, h1, hc1⟩
    split
    · exact ⟨evs1, h1, hc1⟩
    · rcases ih _ evs1 h1 with ⟨evs2, h2, hc2⟩
      refine ⟨evs2, by simpa using h2, ?_⟩
      simp only [countParts_append]
      omega

/-! ### limits only add raise points (simulation) -/

/-- the same decoder without limits -/
def unl (d : Decoder) : Decoder := { d with maxMem := none, maxParts := none }

theorem receive_unl {d d' : Decoder} {c : Option Bytes} (h : receive d c = .ok d') :
    receive (unl d) c = .ok (unl d') := by
  cases c with
  | none => simp [receive] at h; subst h; rfl
  | some c =>
    simp only [receive] at h
    cases hm : d.maxMem with
    | none => rw [hm] at h; simp at h; subst h; simp [receive, unl]
    | some m =>
      rw [hm] at h
      simp only at h
      split at h
      · simp at h
      · simp at h; subst h; simp [receive, unl]

theorem stepData_unl {d d' : Decoder} {start : Bool} {ev : Event} (h : stepData d start = .ok (ev, d')) :
    stepData (unl d) start = .ok (ev, unl d') := by
  unfold stepData at h ⊢
  have hb : (unl d).boundary = d.boundary := rfl
  have hbuf : (unl d).buffer = d.buffer := rfl
  rw [hb, hbuf]
  cases hds : dataStep d.boundary start d.buffer with
  | error e => rw [hds] at h; simp at h
  | ok v =>
    rcases v with ⟨p, buf', start', nx⟩
    rw [hds] at h
    simp only at h ⊢
    cases hs : start' with
    | true =>
      rw [hs] at h; simp at h; rcases h with ⟨rfl, rfl⟩; simp [unl]
    | false =>
      rw [hs] at h
      simp only [Bool.false_eq_true, if_false] at h ⊢
      split at h
      · rename_i hc; simp at h; rcases h with ⟨rfl, rfl⟩; simp [unl, hc]
      · rename_i hc; simp at h; rcases h with ⟨rfl, rfl⟩; simp [unl, hc]

theorem step_unl {d d' : Decoder} {ev : Event} (h : step d = .ok (ev, d')) :
    step (unl d) = .ok (ev, unl d') := by
  cases hst : d.state with
  | preamble =>
    simp only [step, hst] at h
    simp only [step, unl, hst]
    cases hs : searchDelimFrom d.boundary true d.searchPos d.buffer with
    | none => rw [hs] at h; simp at h; rcases h with ⟨rfl, rfl⟩; simp
    | some v =>
      rcases v with ⟨s, e, f⟩
      rw [hs] at h; simp at h; rcases h with ⟨rfl, rfl⟩; simp
  | part =>
    simp only [step, hst] at h
    simp only [step, unl, hst]
    cases hs : searchBlankFrom d.searchPos d.buffer with
    | none => rw [hs] at h; simp at h; rcases h with ⟨rfl, rfl⟩; simp
    | some v =>
      rcases v with ⟨s, e⟩
      rw [hs] at h
      simp only at h ⊢
      cases hh : parseHeaders (d.buffer.take s) with
      | error err => rw [hh] at h; simp at h
      | ok headers =>
        rw [hh] at h
        simp only at h ⊢
        cases hcd : headerGet "content-disposition".toList headers with
        | none => rw [hcd] at h; simp at h
        | some cd =>
          rw [hcd] at h
          simp only at h ⊢
          cases hpo : FormOptions.parseOptionsHeader cd with
          | error err => rw [hpo] at h; simp at h
          | ok v =>
            rcases v with ⟨v0, ex⟩
            rw [hpo] at h
            simp only at h ⊢
            cases hm : d.maxParts with
            | none => rw [hm] at h; simp at h; rcases h with ⟨rfl, rfl⟩; simp
            | some m =>
              rw [hm] at h
              simp only at h
              split at h
              · simp at h
              · simp at h; rcases h with ⟨rfl, rfl⟩; simp
  | dataStart =>
    simp only [step, hst] at h
    have := stepData_unl h
    simpa [step, unl, hst] using this
  | data =>
    simp only [step, hst] at h
    have := stepData_unl h
    simpa [step, unl, hst] using this
  | epilogue =>
    simp only [step, hst] at h
    simp only [step, unl, hst]
    cases hc : d.complete with
    | true => rw [hc] at h; simp at h; rcases h with ⟨rfl, rfl⟩; simp
    | false => rw [hc] at h; simp at h; rcases h with ⟨rfl, rfl⟩; simp [hst, hc]
  | complete =>
    simp only [step, hst] at h
    simp at h; rcases h with ⟨rfl, rfl⟩
    simp [step, unl, hst]

theorem nextEvent_unl {d d' : Decoder} {ev : Event} (h : nextEvent d = .ok (ev, d')) :
    nextEvent (unl d) = .ok (ev, unl d') := by
  have hs := nextEvent_ok h
  unfold nextEvent at h ⊢
  rw [hs] at h
  rw [step_unl hs]
  simp only at h ⊢
  have : (unl d).complete = d.complete := rfl
  rw [this]
  split at h
  · simp at h
  · rename_i hc; simp [hc]

def Run.unl (r : Run) : Run := { r with dec := Wz.Multipart.unl r.dec }

theorem drain_unl (fuel : Nat) : ∀ (d : Decoder) (acc : List Event),
    (drain fuel d acc).err = none → drain fuel (unl d) acc = (drain fuel d acc).unl := by
  induction fuel with
  | zero => intro d acc h; simp [drain] at h
  | succ fuel ih =>
    intro d acc h
    simp only [drain] at h ⊢
    cases hn : nextEvent d with
    | error e => rw [hn] at h; simp at h
    | ok v =>
      rcases v with ⟨ev, d'⟩
      rw [hn] at h
      rw [nextEvent_unl hn]
      cases ev with
      | needData => simp [Run.unl]
      | epilogue x => simp [Run.unl]
      | preamble x => simp only at h ⊢; exact ih d' _ h
      | field n hd => simp only at h ⊢; exact ih d' _ h
      | file n f hd => simp only at h ⊢; exact ih d' _ h
      | data x m => simp only at h ⊢; exact ih d' _ h

theorem feed_unl {d : Decoder} {c : Option Bytes} (h : (feed d c).err = none) :
    feed (unl d) c = (feed d c).unl := by
  unfold feed at h ⊢
  cases hr : receive d c with
  | error e => rw [hr] at h; simp at h
  | ok d' =>
    rw [hr] at h
    rw [receive_unl hr]
    simp only at h ⊢
    have : drainFuel (unl d') = drainFuel d' := rfl
    rw [this]
    exact drain_unl _ d' [] h

theorem feedAll_unl (chunks : List Bytes) : ∀ (d : Decoder),
    (feedAll d chunks).err = none → feedAll (unl d) chunks = (feedAll d chunks).unl := by
  induction chunks with
  | nil => intro d h; simp only [feedAll] at h ⊢; exact feed_unl h
  | cons c cs ih =>
    intro d h
    simp only [feedAll] at h ⊢
    cases he : (feed d (some c)).err with
    | some e => rw [he] at h; simp at h; rw [he] at h; simp at h
    | none =>
      rw [he] at h
      simp only at h
      rw [feed_unl he]
      have hdec : (feed d (some c)).unl.dec = unl (feed d (some c)).dec := rfl
      have herr : (feed d (some c)).unl.err = none := he
      have hev : (feed d (some c)).unl.events = (feed d (some c)).events := rfl
      rw [herr]
      simp only [hdec, hev]
      rw [ih _ h]
      simp [Run.unl]

/-! ### `MultiPartParser.parse`: the field-size guard -/

/-- two parser states that differ at most in the running field size -/
def FormState.Sim (a b : FormState) : Prop := b.cur = a.cur ∧ b.fields = a.fields ∧ b.files = a.files

theorem formEvent_unl {m : Option Nat} {st st1 st' : FormState} {ev : Event}
    (h : formEvent m st ev = .ok st1) (hs : st.Sim st') :
    ∃ st1', formEvent none st' ev = .ok st1' ∧ st1.Sim st1' := by
  rcases hs with ⟨hc, hf, hg⟩
  cases ev with
  | preamble x => simp [formEvent] at h ⊢; subst h; exact ⟨hc, hf, hg⟩
  | epilogue x => simp [formEvent] at h ⊢; subst h; exact ⟨hc, hf, hg⟩
  | needData => simp [formEvent] at h ⊢; subst h; exact ⟨hc, hf, hg⟩
  | field n hd =>
    simp [formEvent] at h ⊢; subst h; exact ⟨rfl, hf, hg⟩
  | file n f hd =>
    simp [formEvent] at h ⊢; subst h; exact ⟨rfl, hf, hg⟩
  | data x more =>
    simp only [formEvent] at h ⊢
    rw [hc]
    cases hfs : fieldSizeStep m st.fieldSize x.length with
    | error e => rw [hfs] at h; simp at h
    | ok fsz =>
      rw [hfs] at h
      have hfs' : fieldSizeStep none st'.fieldSize x.length = .ok st'.fieldSize := by
        simp [fieldSizeStep]
      rw [hfs']
      cases hcur : st.cur with
      | none => rw [hcur] at h; simp at h
      | some p =>
        rw [hcur] at h
        simp only at h ⊢
        cases more with
        | true => simp at h ⊢; subst h; exact ⟨rfl, hf, hg⟩
        | false =>
          simp only [Bool.false_eq_true, if_false] at h ⊢
          cases hfile : p.isFile with
          | true =>
            simp [hfile] at h ⊢; subst h
            exact ⟨rfl, hf, by simp [hg]⟩
          | false =>
            simp only [hfile, Bool.false_eq_true, if_false] at h ⊢
            cases hcs : partCharset p.headers with
            | error e => rw [hcs] at h; simp at h
            | ok cs =>
              rw [hcs] at h
              simp at h ⊢; subst h
              exact ⟨rfl, by simp [hf], hg⟩

theorem formEvents_unl {m : Option Nat} (evs : List Event) : ∀ {st st1 st' : FormState},
    formEvents m st evs = .ok st1 → st.Sim st' →
    ∃ st1', formEvents none st' evs = .ok st1' ∧ st1.Sim st1' := by
  induction evs with
  | nil => intro st st1 st' h hs; simp [formEvents] at h ⊢; subst h; exact hs
  | cons ev t ih =>
    intro st st1 st' h hs
    simp only [formEvents] at h ⊢
    cases he : formEvent m st ev with
    | error e => rw [he] at h; simp at h
    | ok st2 =>
      rw [he] at h
      rcases formEvent_unl he hs with ⟨st2', he', hs'⟩
      rw [he']
      exact ih h hs'

theorem formLoop_unl {m : Option Nat} (chunks : List (Option Bytes)) :
    ∀ {d : Decoder} {st st1 st' : FormState},
    formLoop m d st chunks = .ok st1 → st.Sim st' →
    ∃ st1', formLoop none (unl d) st' chunks = .ok st1' ∧ st1.Sim st1' := by
  induction chunks with
  | nil => intro d st st1 st' h hs; simp [formLoop] at h ⊢; subst h; exact hs
  | cons c cs ih =>
    intro d st st1 st' h hs
    simp only [formLoop] at h ⊢
    cases hev : formEvents m st (feed d c).events with
    | error e => rw [hev] at h; simp at h
    | ok st2 =>
      rw [hev] at h
      simp only at h
      cases herr : (feed d c).err with
      | some e => rw [herr] at h; simp at h
      | none =>
        rw [herr] at h
        simp only at h
        rw [feed_unl herr]
        have h1 : (feed d c).unl.events = (feed d c).events := rfl
        have h2 : (feed d c).unl.err = none := herr
        have h3 : (feed d c).unl.dec = unl (feed d c).dec := rfl
        rw [h1, h2, h3]
        rcases formEvents_unl _ hev hs with ⟨st2', hev', hs'⟩
        rw [hev']
        exact ih h hs'

/-- the payload of every completed or current non-file part stays within the limit -/
def FormState.FieldOk (m : Nat) (st : FormState) : Prop :=
  ∀ p, st.cur = some p → p.isFile = false → st.fieldSize = some p.payload.length ∧ p.payload.length ≤ m

theorem formEvent_fieldOk {m : Nat} {st st1 : FormState} {ev : Event}
    (h : formEvent (some m) st ev = .ok st1) (hok : st.FieldOk m) : st1.FieldOk m := by
  cases ev with
  | preamble x => simp [formEvent] at h; subst h; exact hok
  | epilogue x => simp [formEvent] at h; subst h; exact hok
  | needData => simp [formEvent] at h; subst h; exact hok
  | field n hd =>
    simp [formEvent] at h; subst h
    intro p hp _; simp at hp; subst hp; simp
  | file n f hd =>
    simp [formEvent] at h; subst h
    intro p hp hf; simp at hp; subst hp; simp at hf
  | data x more =>
    simp only [formEvent] at h
    cases hfs : fieldSizeStep (some m) st.fieldSize x.length with
    | error e => rw [hfs] at h; simp at h
    | ok fsz =>
      rw [hfs] at h
      cases hcur : st.cur with
      | none => rw [hcur] at h; simp at h
      | some p =>
        rw [hcur] at h
        simp only at h
        -- the new current part, whichever branch is taken
        have key : ∀ q : Part, q = { p with payload := p.payload ++ x } → q.isFile = false →
            fsz = some q.payload.length ∧ q.payload.length ≤ m := by
          intro q hq hqf
          subst hq
          rcases hok p hcur hqf with ⟨hsz, _⟩
          rw [hsz] at hfs
          simp only [fieldSizeStep] at hfs
          split at hfs
          · simp at hfs
          · rename_i hgt
            simp at hfs hgt ⊢
            exact ⟨by rw [← hfs], by omega⟩
        cases more with
        | true =>
          simp at h; subst h
          intro q hq hqf; simp at hq
          exact key q hq.symm hqf
        | false =>
          simp only [Bool.false_eq_true, if_false] at h
          cases hfile : p.isFile with
          | true =>
            simp [hfile] at h; subst h
            intro q hq hqf; simp at hq; subst hq; simp at hqf
          | false =>
            simp only [hfile, Bool.false_eq_true, if_false] at h
            cases hcs : partCharset p.headers with
            | error e => rw [hcs] at h; simp at h
            | ok cs =>
              rw [hcs] at h; simp at h; subst h
              intro q hq hqf; simp at hq
              exact key q (by rw [← hq, hfile]) hqf

end Wz.Multipart

namespace Wz.Urlencode
open Wz

/-! ### the bounded read of `_parse_urlencoded` -/

/-- how many bytes one `read(n)` asks the stream for -/
def readSize (n : Nat) (sched : List Nat) : Nat :=
  match sched with
  | [] => n
  | s :: _ => min n (max 1 s)

theorem streamRead_eq (n : Nat) (sched : List Nat) (body : Bytes) :
    streamRead n sched body = (body.take (readSize n sched), sched.tail, body.drop (readSize n sched)) := by
  cases sched <;> rfl

theorem readSize_le (n : Nat) (sched : List Nat) : readSize n sched ≤ n := by
  cases sched with
  | nil => simp [readSize]
  | cons s t => simp only [readSize]; exact Nat.min_le_left _ _

theorem readSize_pos {n : Nat} (sched : List Nat) (h : 0 < n) : 0 < readSize n sched := by
  cases sched with
  | nil => simpa [readSize] using h
  | cons s t =>
    simp only [readSize]
    have : 1 ≤ max 1 s := Nat.le_max_left _ _
    exact Nat.lt_of_lt_of_le Nat.zero_lt_one (Nat.le_min.2 ⟨h, this⟩)

/-- the loop never holds more than what it was allowed to read -/
theorem boundedLoop_taken (fuel : Nat) : ∀ (rem : Nat) (sched : List Nat) (body held : Bytes),
    (boundedLoop fuel rem sched body held).2 ≤ held.length + rem := by
  induction fuel with
  | zero => intro rem sched body held; simp [boundedLoop]
  | succ fuel ih =>
    intro rem sched body held
    simp only [boundedLoop]
    split
    · simp
    · rw [streamRead_eq]
      simp only
      split
      · simp
      · have hk := readSize_le rem sched
        have := ih (rem - (body.take (readSize rem sched)).length) sched.tail
          (body.drop (readSize rem sched)) (held ++ body.take (readSize rem sched))
        have hl : (body.take (readSize rem sched)).length ≤ rem := by
          simp [List.length_take]; omega
        simp only [List.length_append] at this
        omega

/-- with enough fuel the loop returns the whole body when it is shorter than `remaining`, and
raises otherwise -/
theorem boundedLoop_result (fuel : Nat) : ∀ (rem : Nat) (sched : List Nat) (body held : Bytes),
    rem < fuel →
    (boundedLoop fuel rem sched body held).1 =
      if body.length < rem then .ok (held ++ body) else .error "RequestEntityTooLarge" := by
  induction fuel with
  | zero => intro rem sched body held h; omega
  | succ fuel ih =>
    intro rem sched body held hf
    simp only [boundedLoop]
    by_cases h0 : rem = 0
    · subst h0; simp
    · have hr : (rem == 0) = false := by simp [h0]
      rw [hr]
      simp only [Bool.false_eq_true, if_false]
      rw [streamRead_eq]
      simp only
      have hk := readSize_le rem sched
      have hkp := readSize_pos sched (Nat.pos_of_ne_zero h0)
      cases body with
      | nil => simp; omega
      | cons b t =>
        have hne : ((b :: t).take (readSize rem sched)).isEmpty = false := by
          cases hrs : readSize rem sched with
          | zero => omega
          | succ k => simp
        rw [hne]
        simp only [Bool.false_eq_true, if_false]
        rw [ih _ _ _ _ (by
          have : 0 < ((b :: t).take (readSize rem sched)).length := by
            cases hrs : readSize rem sched with
            | zero => omega
            | succ k => simp
          omega)]
        have hlt : ((b :: t).take (readSize rem sched)).length = min (readSize rem sched) (b :: t).length := by
          simp [List.length_take]
        have hld : ((b :: t).drop (readSize rem sched)).length = (b :: t).length - readSize rem sched := by
          simp
        rw [List.append_assoc, List.take_append_drop]
        by_cases hc : (b :: t).length < rem
        · have : ((b :: t).drop (readSize rem sched)).length < rem - ((b :: t).take (readSize rem sched)).length := by
            rw [hlt, hld]; omega
          rw [if_pos this, if_pos hc]
        · have : ¬ ((b :: t).drop (readSize rem sched)).length < rem - ((b :: t).take (readSize rem sched)).length := by
            rw [hlt, hld]; omega
          rw [if_neg this, if_neg hc]

end Wz.Urlencode
