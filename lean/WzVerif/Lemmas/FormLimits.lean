/-
Helper lemmas and definitions for C10 (limits of the form parsers). Core Lean only.
-/
import WzVerif.Model.Multipart
import WzVerif.Model.Urlencode
namespace Wz.Multipart
open Wz

/-! ### what a single operation does to the bookkeeping fields -/

def isPart : Event → Bool
  | .field _ _ => true
  | .file _ _ _ => true
  | _ => false

def countParts (evs : List Event) : Nat := (evs.filter isPart).length

/-- fields of the decoder that no operation changes -/
def SameConfig (d d' : Decoder) : Prop :=
  d'.boundary = d.boundary ∧ d'.maxMem = d.maxMem ∧ d'.maxParts = d.maxParts

theorem receive_ok {d d' : Decoder} {c : Option Bytes} (h : receive d c = .ok d') :
    SameConfig d d' ∧ d'.partsDecoded = d.partsDecoded ∧
      (∀ m, d.maxMem = some m → d.buffer.length ≤ m → d'.buffer.length ≤ m) := by
  cases c with
  | none =>
    simp [receive] at h; subst h
    exact ⟨⟨rfl, rfl, rfl⟩, rfl, fun m _ hm => hm⟩
  | some c =>
    simp only [receive] at h
    cases hm : d.maxMem with
    | none =>
      rw [hm] at h; simp at h; subst h
      exact ⟨⟨rfl, hm.symm ▸ rfl, rfl⟩, rfl, fun m h' => by simp at h'⟩
    | some m =>
      rw [hm] at h
      simp only at h
      split at h
      · simp at h
      · rename_i hle
        simp at h; subst h
        refine ⟨⟨rfl, by simp [hm], rfl⟩, rfl, ?_⟩
        intro m' hm' _
        injection hm' with hm'; subst hm'
        simp at hle ⊢; omega

theorem dataStep_buffer_le {bnd buf p buf' : Bytes} {start start' : Bool} {nx : Option Bool}
    (h : dataStep bnd start buf = .ok (p, buf', start', nx)) : buf'.length ≤ buf.length := by
  unfold dataStep at h
  split at h
  · simp at h
  · split at h
    · simp at h; rw [← h.2.1]; exact Nat.le_refl _
    · simp at h; rw [← h.2.1]; simp

theorem stepData_ok {d d' : Decoder} {start : Bool} {ev : Event} (h : stepData d start = .ok (ev, d')) :
    SameConfig d d' ∧ d'.buffer.length ≤ d.buffer.length ∧ d'.partsDecoded = d.partsDecoded ∧
      isPart ev = false ∧ d'.complete = d.complete := by
  unfold stepData at h
  split at h
  · simp at h
  · rename_i p buf' start' nx hds
    have hle := dataStep_buffer_le hds
    simp only at h
    split at h
    · simp at h; rcases h with ⟨rfl, rfl⟩
      exact ⟨⟨rfl, rfl, rfl⟩, hle, rfl, rfl, rfl⟩
    · split at h
      · simp at h; rcases h with ⟨rfl, rfl⟩
        exact ⟨⟨rfl, rfl, rfl⟩, hle, rfl, rfl, rfl⟩
      · simp at h; rcases h with ⟨rfl, rfl⟩
        exact ⟨⟨rfl, rfl, rfl⟩, hle, rfl, rfl, rfl⟩

/-- one `next_event` body: the configuration is untouched, the buffer does not grow, the part
counter moves exactly when a Field/File event is produced and then respects `max_parts` -/
theorem step_ok {d d' : Decoder} {ev : Event} (h : step d = .ok (ev, d')) :
    SameConfig d d' ∧ d'.buffer.length ≤ d.buffer.length ∧
      d'.partsDecoded = d.partsDecoded + (if isPart ev then 1 else 0) ∧
      (∀ m, d.maxParts = some m → isPart ev = true → d'.partsDecoded ≤ m) ∧
      d'.complete = d.complete := by
  unfold step at h
  split at h
  · -- preamble
    split at h
    · simp at h; rcases h with ⟨rfl, rfl⟩
      exact ⟨⟨rfl, rfl, rfl⟩, by simp, by simp [isPart], by simp [isPart], rfl⟩
    · simp at h; rcases h with ⟨rfl, rfl⟩
      exact ⟨⟨rfl, rfl, rfl⟩, by simp, by simp [isPart], by simp [isPart], rfl⟩
  · -- part
    split at h
    · split at h
      · simp at h
      · split at h
        · simp at h
        · split at h
          · simp at h
          · rename_i ex hpo
            simp only at h
            split at h
            · rename_i m hm
              split at h
              · simp at h
              · rename_i hle
                simp at h; rcases h with ⟨rfl, rfl⟩
                refine ⟨⟨rfl, rfl, rfl⟩, by simp, ?_, ?_, rfl⟩
                · split <;> simp [isPart]
                · intro m' hm' _
                  rw [hm] at hm'; injection hm' with hm'; subst hm'
                  simp at hle ⊢; omega
            · rename_i hm
              simp at h; rcases h with ⟨rfl, rfl⟩
              refine ⟨⟨rfl, rfl, rfl⟩, by simp, ?_, ?_, rfl⟩
              · split <;> simp [isPart]
              · intro m' hm'; rw [hm] at hm'; simp at hm'
    · simp at h; rcases h with ⟨rfl, rfl⟩
      exact ⟨⟨rfl, rfl, rfl⟩, by simp, by simp [isPart], by simp [isPart], rfl⟩
  · -- dataStart
    rcases stepData_ok h with ⟨h1, h2, h3, h4, h5⟩
    exact ⟨h1, h2, by simp [h3, h4], by simp [h4], h5⟩
  · -- data
    rcases stepData_ok h with ⟨h1, h2, h3, h4, h5⟩
    exact ⟨h1, h2, by simp [h3, h4], by simp [h4], h5⟩
  · -- epilogue
    split at h
    · simp at h; rcases h with ⟨rfl, rfl⟩
      exact ⟨⟨rfl, rfl, rfl⟩, by simp, by simp [isPart], by simp [isPart], rfl⟩
    · simp at h; rcases h with ⟨rfl, rfl⟩
      exact ⟨⟨rfl, rfl, rfl⟩, by simp, by simp [isPart], by simp [isPart], rfl⟩
  · -- complete
    simp at h; rcases h with ⟨rfl, rfl⟩
    exact ⟨⟨rfl, rfl, rfl⟩, by simp, by simp [isPart], by simp [isPart], rfl⟩

theorem nextEvent_ok {d d' : Decoder} {ev : Event} (h : nextEvent d = .ok (ev, d')) :
    step d = .ok (ev, d') := by
  unfold nextEvent at h
  split at h
  · simp at h
  · rename_i ev0 d0 hs
    split at h
    · simp at h
    · simp at h; rcases h with ⟨rfl, rfl⟩; exact hs

/-! ### every operation sequence -/

/-- the decoder configurations reachable from `d0` by any sequence of the two public operations
`receive_data` / `next_event` (non-raising calls), with the events delivered so far -/
inductive Reach (d0 : Decoder) : Decoder → List Event → Prop
  | init : Reach d0 d0 []
  | recv {d d' : Decoder} {evs : List Event} {c : Option Bytes} :
      Reach d0 d evs → receive d c = .ok d' → Reach d0 d' evs
  | next {d d' : Decoder} {evs : List Event} {ev : Event} :
      Reach d0 d evs → nextEvent d = .ok (ev, d') → Reach d0 d' (evs ++ [ev])

theorem countParts_append (a b : List Event) : countParts (a ++ b) = countParts a + countParts b := by
  simp [countParts]

theorem reach_invariant {d0 d : Decoder} {evs : List Event} (h : Reach d0 d evs) :
    SameConfig d0 d ∧
    (∀ m, d0.maxMem = some m → d0.buffer.length ≤ m → d.buffer.length ≤ m) ∧
    d.partsDecoded = d0.partsDecoded + countParts evs ∧
    (∀ m, d0.maxParts = some m → d0.partsDecoded ≤ m → d.partsDecoded ≤ m) := by
  induction h with
  | init => exact ⟨⟨rfl, rfl, rfl⟩, fun _ _ h => h, by simp [countParts], fun _ _ h => h⟩
  | recv _ hr ih =>
    rcases ih with ⟨⟨c1, c2, c3⟩, ib, ip, iq⟩
    rcases receive_ok hr with ⟨⟨r1, r2, r3⟩, rp, rb⟩
    refine ⟨⟨r1.trans c1, r2.trans c2, r3.trans c3⟩, ?_, by rw [rp, ip], ?_⟩
    · intro m hm h0
      exact rb m (c2.trans hm) (ib m hm h0)
    · intro m hm h0; rw [rp]; exact iq m hm h0
  | @next dd dd' evs0 ev _ hn ih =>
    rcases ih with ⟨⟨c1, c2, c3⟩, ib, ip, iq⟩
    rcases step_ok (nextEvent_ok hn) with ⟨⟨s1, s2, s3⟩, sb, sp, sq, _⟩
    refine ⟨⟨s1.trans c1, s2.trans c2, s3.trans c3⟩, ?_, ?_, ?_⟩
    · intro m hm h0
      exact Nat.le_trans sb (ib m hm h0)
    · rw [sp, ip, countParts_append]
      simp only [countParts, List.filter_cons, List.filter_nil]
      split <;> simp <;> omega
    · intro m hm h0
      cases hp : isPart ev with
      | true => exact sq m (c3.trans hm) hp
      | false => rw [sp, hp]; simpa using iq m hm h0

/-! ### the model's own loops stay inside `Reach` -/

theorem reach_drain {d0 : Decoder} (fuel : Nat) :
    ∀ (d : Decoder) (evs acc : List Event), Reach d0 d evs →
      ∃ evs', Reach d0 (drain fuel d acc).dec evs' := by
  induction fuel with
  | zero => intro d evs acc h; exact ⟨evs, by simpa [drain] using h⟩
  | succ fuel ih =>
    intro d evs acc h
    simp only [drain]
    cases hn : nextEvent d with
    | error e => exact ⟨evs, by simpa using h⟩
    | ok v =>
      rcases v with ⟨ev, d'⟩
      have h' := Reach.next h hn
      cases ev with
      | needData => exact ⟨_, by simpa using h'⟩
      | epilogue x => exact ⟨_, by simpa using h'⟩
      | preamble x => exact ih d' _ _ h'
      | field n hd => exact ih d' _ _ h'
      | file n f hd => exact ih d' _ _ h'
      | data x m => exact ih d' _ _ h'

theorem reach_feed {d0 d : Decoder} {evs : List Event} (c : Option Bytes) (h : Reach d0 d evs) :
    ∃ evs', Reach d0 (feed d c).dec evs' := by
  unfold feed
  cases hr : receive d c with
  | error e => exact ⟨evs, by simpa using h⟩
  | ok d' => exact reach_drain _ d' evs [] (Reach.recv h hr)

theorem reach_feedAll {d0 : Decoder} (chunks : List Bytes) :
    ∀ (d : Decoder) (evs : List Event), Reach d0 d evs →
      ∃ evs', Reach d0 (feedAll d chunks).dec evs' := by
  induction chunks with
  | nil => intro d evs h; exact reach_feed none h
  | cons c cs ih =>
    intro d evs h
    simp only [feedAll]
    rcases reach_feed (some c) h with ⟨evs1, h1⟩
    split
    · exact ⟨evs1, h1⟩
    · rcases ih _ evs1 h1 with ⟨evs2, h2⟩
      exact ⟨evs2, by simpa using h2⟩

end Wz.Multipart
