import WzVerif.Lemmas.Http
set_option linter.unusedSimpArgs false
namespace Wz.Http
open Wz

/-! ### decimal integers -/

theorem catching_ok {α : Type} (cl : List String) (a : α) (h : α) :
    catching cl (Except.ok a) h = .ok a := rfl

theorem plainDigit_tbl : Gen.Http.plainIntHigh = false ∧
    ∀ n, n < 256 → tbl Gen.Http.plainIntDigit n = (decide (48 ≤ n) && decide (n ≤ 57)) := by
  refine ⟨by decide, ?_⟩
  decide +kernel

theorem isPlainDigit_of_isDigit {c : Char} (h : c.isDigit = true) : isPlainDigit c = true := by
  simp only [Char.isDigit, Bool.and_eq_true, decide_eq_true_eq] at h
  have hlt : c.toNat < 256 := by
    have : c.val.toNat ≤ 57 := by
      have := h.2
      exact UInt32.le_iff_toNat_le.mp this
    show c.val.toNat < 256
    omega
  simp only [isPlainDigit, cls, hlt, if_true, plainDigit_tbl.2 _ hlt]
  have h1 : 48 ≤ c.toNat := UInt32.le_iff_toNat_le.mp h.1
  have h2 : c.toNat ≤ 57 := UInt32.le_iff_toNat_le.mp h.2
  simp [h1, h2]

theorem natText_all_digit (n : Nat) : (natText n).all Char.isDigit = true := by
  rw [List.all_eq_true]
  intro c hc
  exact Nat.isDigit_of_mem_toDigits (by decide) (by decide) hc

theorem natText_ne_nil (n : Nat) : natText n ≠ [] := Nat.toDigits_ne_nil

theorem isDigit_not_space {c : Char} (h : c.isDigit = true) : Py.isSpace c = false := by
  simp only [Char.isDigit, Bool.and_eq_true, decide_eq_true_eq] at h
  have h1 : 48 ≤ c.toNat := UInt32.le_iff_toNat_le.mp h.1
  have h2 : c.toNat ≤ 57 := UInt32.le_iff_toNat_le.mp h.2
  simp [Py.isSpace]
  omega

theorem isDigit_ne {c d : Char} (h : c.isDigit = true) (hd : d.isDigit = false) : c ≠ d := by
  intro e; subst e; simp [h] at hd

theorem digits_tight {ds : Str} (h : ds.all Char.isDigit = true) : Tight ds := by
  rw [List.all_eq_true] at h
  exact ⟨fun c hc => isDigit_not_space (h c (List.mem_of_head? hc)),
         fun c hc => isDigit_not_space (h c (List.mem_of_getLast? hc))⟩

theorem digits_not_mem {ds : Str} {d : Char} (h : ds.all Char.isDigit = true) (hd : d.isDigit = false) : d ∉ ds := by
  intro hm
  exact isDigit_ne ((List.all_eq_true.mp h) d hm) hd rfl

theorem digitsVal_natText (n : Nat) : digitsVal (natText n) = n := Nat.ofDigitChars_ten_toDigits

theorem signSplit_digits {ds : Str} (h : ds.all Char.isDigit = true) : signSplit ds = (false, ds) := by
  unfold signSplit
  split
  · next r =>
    have : ('-' : Char) ∈ ('-' :: r) := by simp
    exact absurd this (digits_not_mem h (by decide))
  · rfl

theorem plainInt_digits (ds : Str) (h : ds.all Char.isDigit = true) (hne : ds ≠ []) :
    plainInt ds = .ok (digitsVal ds : Int) := by
  unfold plainInt
  rw [strip_tight (digits_tight h), signSplit_digits h]
  have hall : ds.all isPlainDigit = true := by
    rw [List.all_eq_true] at h ⊢
    exact fun c hc => isPlainDigit_of_isDigit (h c hc)
  have hemp : ds.isEmpty = false := by
    cases ds with
    | nil => exact absurd rfl hne
    | cons _ _ => rfl
  simp [hall, hemp]

theorem plainInt_intText (i : Int) : plainInt (intText i) = .ok i := by
  cases i with
  | ofNat n =>
    simp only [intText]
    rw [plainInt_digits _ (natText_all_digit n) (natText_ne_nil n), digitsVal_natText]
    rfl
  | negSucc n =>
    simp only [intText]
    unfold plainInt
    have ht : Tight ('-' :: natText (n + 1)) := by
      have := digits_tight (natText_all_digit (n + 1))
      refine ⟨fun c hc => by simp at hc; subst hc; decide, fun c hc => ?_⟩
      have hne := natText_ne_nil (n + 1)
      cases hq : natText (n + 1) with
      | nil => exact absurd hq hne
      | cons a t =>
        rw [hq, List.getLast?_cons_cons] at hc
        rw [hq] at this
        exact this.2 c hc
    rw [strip_tight ht]
    have hall : (natText (n + 1)).all isPlainDigit = true := by
      have h := natText_all_digit (n + 1)
      rw [List.all_eq_true] at h ⊢
      exact fun c hc => isPlainDigit_of_isDigit (h c hc)
    have hemp : (natText (n + 1)).isEmpty = false := by
      cases hq : natText (n + 1) with
      | nil => exact absurd hq (natText_ne_nil _)
      | cons _ _ => rfl
    simp only [signSplit, hall, hemp, digitsVal_natText]
    simp
    rfl

end Wz.Http
