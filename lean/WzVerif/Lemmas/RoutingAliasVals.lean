/-
The values carried by `RequestAliasRedirect` (and by an ordinary match): converted URL values with
the rule's `defaults` merged in (`dict.update`).
-/
import WzVerif.Lemmas.RoutingMatchBuild
namespace Wz.Routing

theorem lookupVal_none_of_not_any (k : Str) : ∀ (d : List (Str × Value)), d.any (·.1 == k) = false → lookupVal k d = none := by
  intro d
  induction d with
  | nil => intro _; rfl
  | cons x t ih =>
    intro h
    obtain ⟨k', v'⟩ := x
    simp only [List.any_cons, Bool.or_eq_false_iff] at h
    simp only [lookupVal, h.1, Bool.false_eq_true, if_false]
    exact ih h.2

theorem lookupVal_map_set_self (k : Str) (v : Value) : ∀ (d : List (Str × Value)), d.any (·.1 == k) = true →
    lookupVal k (d.map (fun e => if e.1 == k then (k, v) else e)) = some v := by
  intro d
  induction d with
  | nil => intro h; cases h
  | cons x t ih =>
    intro h
    obtain ⟨k', v'⟩ := x
    simp only [List.map_cons]
    by_cases hk : (k' == k) = true
    · simp [hk, lookupVal]
    · simp only [List.any_cons, hk, Bool.false_or] at h
      simp only [hk, Bool.false_eq_true, if_false, lookupVal]
      exact ih h

theorem lookupVal_dictSet_self (d : List (Str × Value)) (k : Str) (v : Value) :
    lookupVal k (dictSet d k v) = some v := by
  simp only [dictSet]
  split
  · rename_i h; exact lookupVal_map_set_self k v d h
  · rename_i h
    have h' : d.any (·.1 == k) = false := by
      cases hh : d.any (·.1 == k) with
      | false => rfl
      | true => exact absurd hh h
    rw [lookupVal_append, lookupVal_none_of_not_any k d h']
    simp [lookupVal]

theorem lookupVal_none_of_not_mem_keys (k : Str) : ∀ (u : List (Str × Value)), k ∉ u.map (·.1) → lookupVal k u = none := by
  intro u
  induction u with
  | nil => intro _; rfl
  | cons x t ih =>
    intro h
    obtain ⟨k', v'⟩ := x
    simp only [List.map_cons, List.mem_cons, not_or] at h
    have : ¬ (k' == k) = true := by simpa using fun h' => h.1 h'.symm
    simp only [lookupVal, this, Bool.false_eq_true, if_false]
    exact ih h.2

/-- after `d.update(u)` every entry of `u` (distinct keys: a Python dict) is in the result -/
theorem lookupVal_dictUpdate_mem : ∀ (u d : List (Str × Value)), (u.map (·.1)).Nodup →
    ∀ k v, (k, v) ∈ u → lookupVal k (dictUpdate d u) = some v := by
  intro u
  induction u with
  | nil => intro d _ k v h; cases h
  | cons x t ih =>
    intro d hnd k v hmem
    obtain ⟨k0, v0⟩ := x
    simp only [List.map_cons, List.nodup_cons] at hnd
    have hstep : dictUpdate d ((k0, v0) :: t) = dictUpdate (dictSet d k0 v0) t := by
      simp [dictUpdate]
    rw [hstep]
    rcases List.mem_cons.1 hmem with h | h
    · injection h with h1 h2
      subst h1; subst h2
      rw [lookupVal_dictUpdate_notin k t _ (lookupVal_none_of_not_mem_keys k t hnd.1)]
      exact lookupVal_dictSet_self d k v
    · exact ih _ hnd.2 k v h

/-- the tail of `StateMachineMatcher.match`: what an alias redirect (or a match) carries -/
theorem finishMatch_values {rd : Bool} {r : Rule} {vs ms : List Str} {wsm : Bool} :
    (∀ r' vals, finishMatch rd r vs ms wsm = .aliasRedirect r' vals →
      r' = r ∧ r.alias = true ∧ rd = true ∧ ∃ conv, convertValues r.convs vs = some conv ∧ vals = dictUpdate conv r.defaults) ∧
    (∀ r' vals, finishMatch rd r vs ms wsm = .ok r' vals →
      r' = r ∧ ∃ conv, convertValues r.convs vs = some conv ∧ vals = dictUpdate conv r.defaults) := by
  simp only [finishMatch]
  cases hc : convertValues r.convs vs with
  | none => constructor <;> (intro r' vals h; cases h)
  | some conv =>
    simp only
    by_cases ha : (r.alias && rd) = true
    · simp only [ha, if_true]
      constructor
      · intro r' vals h
        injection h with h1 h2
        simp only [Bool.and_eq_true] at ha
        exact ⟨h1.symm, ha.1, ha.2, conv, rfl, h2.symm⟩
      · intro r' vals h; cases h
    · simp only [ha]
      constructor
      · intro r' vals h; cases h
      · intro r' vals h
        injection h with h1 h2
        exact ⟨h1.symm, conv, rfl, h2.symm⟩

end Wz.Routing
