/-
`_unquote_partial` (C15): token-level specification of the scanner and the one-step fixpoint of
`uri_to_iri` on each component. Core Lean only.
-/
import WzVerif.Lemmas.UrlDecode
namespace Wz.Url
open Wz

/-- `s` parses into literal characters other than `%` and escapes `%XY` whose byte is not in the
keep table ("well-formed, nothing kept") -/
def wfk (keep : List Bool) : Str → Bool
  | [] => true
  | c :: x :: y :: t =>
    if c = '%' then
      match hexVal? x, hexVal? y with
      | some hi, some lo => !tbl keep (16 * hi + lo) && wfk keep t
      | _, _ => false
    else wfk keep (x :: y :: t)
  | c :: t => if c = '%' then false else wfk keep t

/-- every `%` starts a two-hex-digit escape (the property's `%XX` grammar) -/
def wellFormed (s : Str) : Bool := wfk [] s

/-- token-level reading of the `_unquote_partial` scanner -/
def upSpec (keep : List Bool) : Str → Str → Str
  | [], seg => unquote seg.reverse
  | c :: x :: y :: t, seg =>
    if c = '%' then
      match hexVal? x, hexVal? y with
      | some hi, some lo =>
        if tbl keep (16 * hi + lo) then unquote seg.reverse ++ c :: x :: y :: upSpec keep t []
        else upSpec keep t (y :: x :: c :: seg)
      | _, _ => upSpec keep (x :: y :: t) (c :: seg)
    else upSpec keep (x :: y :: t) (c :: seg)
  | c :: t, seg => upSpec keep t (c :: seg)

theorem hexVal_ne_pct {x : Char} {v : Nat} (h : hexVal? x = some v) : x ≠ '%' := by
  intro e; subst e; simp [hexVal?] at h

theorem keptEscape_false_of_ne {keep : List Bool} {c : Char} (h : c ≠ '%') (t : Str) :
    keptEscape keep (c :: t) = false := by
  match t with
  | [] => simp [keptEscape]
  | [_] => simp [keptEscape]
  | x :: y :: t => simp [keptEscape, h]

/-- the scanner computes the token-level specification -/
theorem unquotePartialAux_eq (keep : List Bool) : ∀ (fuel : Nat) (s seg : Str), s.length < fuel →
    unquotePartialAux keep fuel s seg = upSpec keep s seg
  | 0, _, _, h => by omega
  | fuel + 1, [], seg, _ => by simp [unquotePartialAux, upSpec]
  | fuel + 1, [c], seg, h => by
    have h0 : keptEscape keep [c] = false := by simp [keptEscape]
    cases fuel with
    | zero => simp at h
    | succ f => simp [unquotePartialAux, upSpec, h0]
  | fuel + 1, [c, x], seg, h => by
    have h0 : keptEscape keep [c, x] = false := by simp [keptEscape]
    have h1 : keptEscape keep [x] = false := by simp [keptEscape]
    match fuel, h with
    | f + 2, _ => simp [unquotePartialAux, upSpec, h0, h1]
  | fuel + 1, c :: x :: y :: t, seg, h => by
    simp only [List.length_cons] at h
    by_cases hc : c = '%'
    · subst hc
      cases hx : hexVal? x with
      | none =>
        have hk : keptEscape keep ('%' :: x :: y :: t) = false := by simp [keptEscape, hx]
        simp only [unquotePartialAux, hk, upSpec, hx, if_true]
        exact unquotePartialAux_eq keep fuel _ _ (by simp; omega)
      | some hi =>
        cases hy : hexVal? y with
        | none =>
          have hk : keptEscape keep ('%' :: x :: y :: t) = false := by simp [keptEscape, hx, hy]
          simp only [unquotePartialAux, hk, upSpec, hx, hy, if_true]
          exact unquotePartialAux_eq keep fuel _ _ (by simp; omega)
        | some lo =>
          by_cases hk : tbl keep (16 * hi + lo) = true
          · have hk' : keptEscape keep ('%' :: x :: y :: t) = true := by simp [keptEscape, hx, hy, hk]
            simp only [unquotePartialAux, hk', upSpec, hx, hy, hk, if_true, List.take, List.drop]
            rw [unquotePartialAux_eq keep fuel t [] (by omega)]
            simp
          · have hk' : keptEscape keep ('%' :: x :: y :: t) = false := by simp [keptEscape, hx, hy, hk]
            have hxk := keptEscape_false_of_ne (keep := keep) (hexVal_ne_pct hx) (y :: t)
            have hyk := keptEscape_false_of_ne (keep := keep) (hexVal_ne_pct hy) t
            match fuel, h with
            | f + 2, h =>
              simp only [unquotePartialAux, hk', hxk, hyk, upSpec, hx, hy, hk, if_true]
              exact unquotePartialAux_eq keep f t _ (by omega)
    · have hk := keptEscape_false_of_ne (keep := keep) hc (x :: y :: t)
      simp only [unquotePartialAux, hk, upSpec, hc, if_false]
      exact unquotePartialAux_eq keep fuel _ _ (by simp; omega)

theorem unquotePartial_eq (keep : List Bool) (s : Str) : unquotePartial keep s = upSpec keep s [] :=
  unquotePartialAux_eq keep _ s [] (Nat.lt_succ_self _)

/-! ### parsing lemmas -/

theorem wfk_cons_ne {keep : List Bool} {c : Char} (h : c ≠ '%') (Y : Str) :
    wfk keep (c :: Y) = wfk keep Y := by
  match Y with
  | [] => simp [wfk, h]
  | [_] => simp [wfk, h]
  | x :: y :: t => simp [wfk, h]

theorem upSpec_cons_ne {keep : List Bool} {c : Char} (h : c ≠ '%') (Y seg : Str) :
    upSpec keep (c :: Y) seg = upSpec keep Y (c :: seg) := by
  match Y with
  | [] => simp [upSpec]
  | [_] => simp [upSpec]
  | x :: y :: t => simp [upSpec, h]

theorem wfk_append {keep : List Bool} : ∀ (X Y : Str), wfk keep X = true →
    wfk keep (X ++ Y) = wfk keep Y
  | [], _, _ => rfl
  | [c], Y, h => by
    have hc : c ≠ '%' := by intro e; simp [wfk, e] at h
    exact wfk_cons_ne hc Y
  | [c, x], Y, h => by
    have hc : c ≠ '%' := by intro e; simp [wfk, e] at h
    rw [wfk_cons_ne hc] at h
    have hx : x ≠ '%' := by intro e; simp [wfk, e] at h
    simp only [List.cons_append, List.nil_append]
    rw [wfk_cons_ne hc, wfk_cons_ne hx]
  | c :: x :: y :: t, Y, h => by
    by_cases hc : c = '%'
    · subst hc
      simp only [wfk, if_true] at h
      simp only [List.cons_append, wfk, if_true]
      cases hx : hexVal? x <;> cases hy : hexVal? y <;> simp only [hx, hy] at h ⊢ <;> try (simp at h; done)
      simp only [Bool.and_eq_true] at h
      rw [wfk_append t Y h.2, h.1]; simp
    · rw [wfk_cons_ne hc] at h
      simp only [List.cons_append]
      rw [wfk_cons_ne hc]
      exact wfk_append (x :: y :: t) Y h

/-- scanning across well-formed text without kept escapes only accumulates -/
theorem upSpec_append {keep : List Bool} : ∀ (X rest seg : Str), wfk keep X = true →
    upSpec keep (X ++ rest) seg = upSpec keep rest (X.reverse ++ seg)
  | [], _, _, _ => rfl
  | [c], rest, seg, h => by
    have hc : c ≠ '%' := by intro e; simp [wfk, e] at h
    simpa using upSpec_cons_ne hc rest seg
  | [c, x], rest, seg, h => by
    have hc : c ≠ '%' := by intro e; simp [wfk, e] at h
    rw [wfk_cons_ne hc] at h
    have hx : x ≠ '%' := by intro e; simp [wfk, e] at h
    simp only [List.cons_append, List.nil_append]
    rw [upSpec_cons_ne hc, upSpec_cons_ne hx]
    simp
  | c :: x :: y :: t, rest, seg, h => by
    by_cases hc : c = '%'
    · subst hc
      simp only [wfk, if_true] at h
      simp only [List.cons_append, upSpec, if_true]
      cases hx : hexVal? x <;> cases hy : hexVal? y <;> simp only [hx, hy] at h ⊢ <;> try (simp at h; done)
      simp only [Bool.and_eq_true, Bool.not_eq_true'] at h
      rw [h.1]
      simp only [Bool.false_eq_true, if_false]
      rw [upSpec_append t rest _ h.2]
      simp
    · rw [wfk_cons_ne hc] at h
      simp only [List.cons_append]
      rw [upSpec_cons_ne hc]
      have := upSpec_append (x :: y :: t) rest (c :: seg) h
      simp only [List.cons_append] at this
      rw [this]
      simp

theorem hexVal_nonascii {c : Char} (h : 128 ≤ c.toNat) : hexVal? c = none := by
  unfold hexVal?
  have h1 : ¬ c ≤ '9' := by
    intro hle
    have : c.toNat ≤ '9'.toNat := hle
    have h9 : '9'.toNat = 57 := by decide
    omega
  have h2 : ¬ c ≤ 'f' := by
    intro hle
    have : c.toNat ≤ 'f'.toNat := hle
    have h9 : 'f'.toNat = 102 := by decide
    omega
  have h3 : ¬ c ≤ 'F' := by
    intro hle
    have : c.toNat ≤ 'F'.toNat := hle
    have h9 : 'F'.toNat = 70 := by decide
    omega
  simp [h1, h2, h3]

theorem ne_pct_of_nonascii {c : Char} (h : 128 ≤ c.toNat) : c ≠ '%' := by
  intro e; subst e; revert h; decide

/-- a non-ASCII character is always a token boundary -/
theorem wfk_split {keep : List Bool} {c : Char} (hc : 128 ≤ c.toNat) (r : Str) :
    ∀ (a : Str), wfk keep (a ++ c :: r) = true → wfk keep a = true ∧ wfk keep r = true
  | [], h => by
    simp only [List.nil_append] at h
    rw [wfk_cons_ne (ne_pct_of_nonascii hc)] at h
    exact ⟨rfl, h⟩
  | [d], h => by
    by_cases hd : d = '%'
    · subst hd
      exfalso
      cases r with
      | nil => simp [wfk] at h
      | cons y t => simp [wfk, hexVal_nonascii hc] at h
    · simp only [List.cons_append, List.nil_append] at h
      rw [wfk_cons_ne hd, wfk_cons_ne (ne_pct_of_nonascii hc)] at h
      exact ⟨by simp [wfk, hd], h⟩
  | [d, x], h => by
    by_cases hd : d = '%'
    · subst hd
      exfalso
      simp only [List.cons_append, List.nil_append, wfk, if_true, hexVal_nonascii hc] at h
      cases hexVal? x <;> simp at h
    · simp only [List.cons_append, List.nil_append] at h
      rw [wfk_cons_ne hd] at h
      have := wfk_split hc r [x] h
      exact ⟨by rw [wfk_cons_ne hd]; exact this.1, this.2⟩
  | d :: x :: y :: t, h => by
    by_cases hd : d = '%'
    · subst hd
      simp only [List.cons_append, wfk, if_true] at h ⊢
      cases hx : hexVal? x <;> cases hy : hexVal? y <;> simp only [hx, hy] at h ⊢ <;> try (simp at h; done)
      simp only [Bool.and_eq_true] at h ⊢
      have := wfk_split hc r t h.2
      exact ⟨⟨h.1, this.1⟩, this.2⟩
    · simp only [List.cons_append] at h
      rw [wfk_cons_ne hd] at h
      have := wfk_split hc r (x :: y :: t) h
      exact ⟨by rw [wfk_cons_ne hd]; exact this.1, this.2⟩

/-! ### no raw `%` byte reaches the decoder -/

/-- what the argument needs of a keep table: `%` itself is kept, no byte ≥ 0x80 is -/
def KeepOK (keep : List Bool) : Prop :=
  tbl keep 0x25 = true ∧ ∀ n, 128 ≤ n → n < 256 → tbl keep n = false

theorem hexVal_lt {x : Char} {v : Nat} (h : hexVal? x = some v) : v < 16 := by
  unfold hexVal? at h
  split at h
  · rename_i h1
    cases h
    have : x.toNat ≤ '9'.toNat := h1.2
    have h9 : '9'.toNat = 57 := by decide
    omega
  · split at h
    · rename_i h1
      cases h
      have : x.toNat ≤ 'f'.toNat := h1.2
      have h9 : 'f'.toNat = 102 := by decide
      omega
    · split at h
      · rename_i h1
        cases h
        have : x.toNat ≤ 'F'.toNat := h1.2
        have h9 : 'F'.toNat = 70 := by decide
        omega
      · cases h

theorem byte_ne_pct {c : Char} (ha : c.toNat < 128) (hc : c ≠ '%') : UInt8.ofNat c.toNat ≠ 0x25 := by
  intro e
  have := congrArg UInt8.toNat e
  rw [uint8_toNat_ofNat_lt (by omega)] at this
  apply hc
  rw [← Char.ofNat_toNat c, this]
  rfl

theorem char_of_byte {c : Char} (ha : c.toNat < 128) : Char.ofNat (UInt8.ofNat c.toNat).toNat = c := by
  rw [uint8_toNat_ofNat_lt (by omega), Char.ofNat_toNat]

theorem no_pct_byte {keep : List Bool} (hk : tbl keep 0x25 = true) : ∀ (a : Str),
    (∀ c ∈ a, c.toNat < 128) → wfk keep a = true → (0x25 : UInt8) ∉ unquoteBytes (toBytes a)
  | [], _, _ => by simp [toBytes, unquoteBytes]
  | [c], ha, h => by
    have hc : c ≠ '%' := by intro e; simp [wfk, e] at h
    have := byte_ne_pct (ha c (by simp)) hc
    simp [toBytes, unquoteBytes, Ne.symm this]
  | [c, x], ha, h => by
    have hc : c ≠ '%' := by intro e; simp [wfk, e] at h
    rw [wfk_cons_ne hc] at h
    have hx : x ≠ '%' := by intro e; simp [wfk, e] at h
    have h1 := byte_ne_pct (ha c (by simp)) hc
    have h2 := byte_ne_pct (ha x (by simp)) hx
    simp [toBytes, unquoteBytes, Ne.symm h1, Ne.symm h2]
  | c :: x :: y :: t, ha, h => by
    have hat : ∀ d ∈ t, d.toNat < 128 := fun d hd => ha d (by simp [hd])
    by_cases hc : c = '%'
    · subst hc
      simp only [wfk, if_true] at h
      cases hx : hexVal? x <;> cases hy : hexVal? y <;> simp only [hx, hy] at h <;> try (simp at h; done)
      rename_i hi lo
      simp only [Bool.and_eq_true, Bool.not_eq_true'] at h
      have h0 : UInt8.ofNat '%'.toNat = 0x25 := by decide
      have ih := no_pct_byte hk t hat h.2
      simp only [toBytes, List.map_cons, unquoteBytes, h0, if_true,
        char_of_byte (ha x (by simp)), char_of_byte (ha y (by simp)), hx, hy] at ih ⊢
      intro hm
      rcases List.mem_cons.mp hm with e | hm
      · have hlt : 16 * hi + lo < 256 := by have := hexVal_lt hx; have := hexVal_lt hy; omega
        have := congrArg UInt8.toNat e
        rw [uint8_toNat_ofNat_lt hlt] at this
        have h37 : (0x25 : UInt8).toNat = 37 := by decide
        rw [h37] at this
        rw [← this, hk] at h
        exact absurd h.1 (by simp)
      · exact ih hm
    · have hb := byte_ne_pct (ha c (by simp)) hc
      rw [wfk_cons_ne hc] at h
      have ih := no_pct_byte hk (x :: y :: t) (fun d hd => ha d (List.mem_cons_of_mem _ hd)) h
      have : toBytes (c :: x :: y :: t) = UInt8.ofNat c.toNat :: toBytes (x :: y :: t) := rfl
      rw [this, unquoteBytes_cons_ne hb]
      intro hm
      rcases List.mem_cons.mp hm with e | hm
      · exact hb e.symm
      · exact ih hm

/-! ### unquote is idempotent on well-formed text without kept escapes -/

theorem unquoteAux_append_nonascii {c : Char} (hc : 128 ≤ c.toNat) (Y : Str) : ∀ (X : Str) (acc : Bytes),
    unquoteAux (X ++ c :: Y) acc = unquoteAux X acc ++ c :: unquoteAux Y []
  | [], acc => by simp [unquoteAux_nonascii c Y acc hc, unquoteAux]
  | x :: X, acc => by
    simp only [List.cons_append, unquoteAux]
    split
    · exact unquoteAux_append_nonascii hc Y X _
    · rw [unquoteAux_append_nonascii hc Y X []]; simp

theorem unquote_append_nonascii {c : Char} (hc : 128 ≤ c.toNat) (X Y : Str) :
    unquote (X ++ c :: Y) = unquote X ++ c :: unquote Y :=
  unquoteAux_append_nonascii hc Y X []

theorem unquote_ascii {a : Str} (ha : ∀ c ∈ a, c.toNat < 128) :
    unquote a = (its (unquoteBytes (toBytes a))).flatMap render := by
  have := unquoteAux_ascii a [] [] ha
  simp only [List.append_nil] at this
  rw [unquote, this]
  simp only [unquoteAux, List.reverse_reverse, unquoteRun]
  exact decodeQ_eq (Nat.le_succ _)

/-- every string is an ASCII prefix followed by nothing or by a non-ASCII character -/
theorem ascii_span (G : Str) : ∃ a rest, G = a ++ rest ∧ (∀ c ∈ a, c.toNat < 128) ∧
    (rest = [] ∨ ∃ c r, rest = c :: r ∧ 128 ≤ c.toNat) := by
  induction G with
  | nil => exact ⟨[], [], rfl, by simp, Or.inl rfl⟩
  | cons g G ih =>
    by_cases hg : g.toNat < 128
    · obtain ⟨a, rest, h1, h2, h3⟩ := ih
      refine ⟨g :: a, rest, by rw [h1]; rfl, ?_, h3⟩
      intro c hc
      rcases List.mem_cons.mp hc with rfl | hc
      · exact hg
      · exact h2 c hc
    · exact ⟨[], g :: G, rfl, by simp, Or.inr ⟨g, G, rfl, by omega⟩⟩

theorem unquote_idem_aux {keep : List Bool} (hk : KeepOK keep) : ∀ (n : Nat) (G : Str), G.length ≤ n →
    wfk keep G = true → unquote (unquote G) = unquote G := by
  intro n
  induction n with
  | zero =>
    intro G hl _
    have : G = [] := List.eq_nil_of_length_eq_zero (by omega)
    subst this
    decide
  | succ n ih =>
    intro G hl hw
    obtain ⟨a, rest, h1, h2, h3⟩ := ascii_span G
    have hrun : ∀ (a : Str), (∀ c ∈ a, c.toNat < 128) → wfk keep a = true →
        unquote (unquote a) = unquote a := by
      intro a ha hwa
      rw [unquote_ascii ha]
      exact unquote_decodeQ _ (no_pct_byte hk.1 a ha hwa)
    rcases h3 with h3 | ⟨c, r, h3, hc⟩
    · subst h3
      simp only [List.append_nil] at h1
      subst h1
      exact hrun G h2 hw
    · subst h3
      subst h1
      obtain ⟨hwa, hwr⟩ := wfk_split hc r a hw
      rw [unquote_append_nonascii hc, unquote_append_nonascii hc, hrun a h2 hwa,
        ih r (by simp at hl; omega) hwr]

theorem unquote_idem {keep : List Bool} (hk : KeepOK keep) (G : Str) (h : wfk keep G = true) :
    unquote (unquote G) = unquote G :=
  unquote_idem_aux hk G.length G (Nat.le_refl _) h

/-! ### the output of unquote is again well-formed without kept escapes -/

/-- every item of `its B` is the front item at some position of `B` -/
theorem mem_its : ∀ (n : Nat) (B : Bytes), B.length ≤ n → ∀ I ∈ its B,
    ∃ b0 t, I = firstItem b0 t ∧ b0 ∈ B
  | _, [], _, I, h => by simp [its_nil] at h
  | 0, _ :: _, h, _, _ => by simp at h
  | n + 1, b0 :: t, hl, I, h => by
    rw [its_cons] at h
    rcases List.mem_cons.mp h with rfl | h
    · exact ⟨b0, t, rfl, by simp⟩
    · obtain ⟨b1, t1, h1, h2⟩ := mem_its n _ (by simp at hl ⊢; omega) I h
      exact ⟨b1, t1, h1, List.mem_cons_of_mem _ (List.mem_of_mem_drop h2)⟩

theorem hexVal_hexU' : ∀ d, d < 16 → hexVal? (hexU d) = some d := by decide

theorem wfk_pct {keep : List Bool} (hk : KeepOK keep) {b : UInt8} (hb : 0x80 ≤ b) (Y : Str) :
    wfk keep (pct b ++ Y) = wfk keep Y := by
  have hlt := b.toNat_lt
  have hge : 128 ≤ b.toNat := by rw [UInt8.le_iff_toNat_le] at hb; simpa using hb
  have h1 := hexVal_hexU' (b.toNat / 16) (by omega)
  have h2 := hexVal_hexU' (b.toNat % 16) (Nat.mod_lt _ (by decide))
  have hv : 16 * (b.toNat / 16) + b.toNat % 16 = b.toNat := by omega
  simp only [pct, List.cons_append, List.nil_append, wfk, if_true, h1, h2, hv, hk.2 b.toNat hge hlt]
  simp

theorem wfk_render {keep : List Bool} (hk : KeepOK keep) {B : Bytes} (h25 : (0x25 : UInt8) ∉ B)
    {I : Item} (hI : I ∈ its B) (Y : Str) : wfk keep (render I ++ Y) = wfk keep Y := by
  obtain ⟨b0, t, rfl, hb0⟩ := mem_its B.length B (Nat.le_refl _) I hI
  rcases firstItem_cases b0 t with ⟨hb, hI⟩ | ⟨span, hI, hs⟩ | ⟨c, raw, hI, hc, _⟩
  · rw [hI]
    simp only [render, List.cons_append, List.nil_append]
    apply wfk_cons_ne
    intro e
    apply h25
    have hlt : b0.toNat < 128 := by rw [UInt8.lt_iff_toNat_lt] at hb; simpa using hb
    have := congrArg Char.toNat e
    rw [char_toNat_ofNat_lt (by omega)] at this
    have h37 : '%'.toNat = 37 := by decide
    have : b0 = 0x25 := by apply UInt8.toNat_inj.mp; rw [this, h37]; rfl
    rw [← this]; exact hb0
  · rw [hI]
    simp only [render]
    rw [requote_bad hs]
    clear hI
    induction span with
    | nil => rfl
    | cons b s ih =>
      simp only [List.flatMap_cons, List.append_assoc]
      rw [wfk_pct hk (hs b (by simp))]
      exact ih (fun x hx => hs x (List.mem_cons_of_mem _ hx))
  · rw [hI]
    simp only [render, List.cons_append, List.nil_append]
    exact wfk_cons_ne (ne_pct_of_nonascii hc) Y

theorem wfk_renders {keep : List Bool} (hk : KeepOK keep) {B : Bytes} (h25 : (0x25 : UInt8) ∉ B) :
    ∀ (Is : List Item), (∀ I ∈ Is, I ∈ its B) → wfk keep (Is.flatMap render) = true
  | [], _ => rfl
  | I :: Is, h => by
    simp only [List.flatMap_cons]
    rw [wfk_render hk h25 (h I (by simp))]
    exact wfk_renders hk h25 Is (fun J hJ => h J (List.mem_cons_of_mem _ hJ))

theorem wfk_unquote_aux {keep : List Bool} (hk : KeepOK keep) : ∀ (n : Nat) (G : Str), G.length ≤ n →
    wfk keep G = true → wfk keep (unquote G) = true := by
  intro n
  induction n with
  | zero =>
    intro G hl _
    have : G = [] := List.eq_nil_of_length_eq_zero (by omega)
    subst this
    rfl
  | succ n ih =>
    intro G hl hw
    obtain ⟨a, rest, h1, h2, h3⟩ := ascii_span G
    have hrun : ∀ (a : Str), (∀ c ∈ a, c.toNat < 128) → wfk keep a = true →
        wfk keep (unquote a) = true := by
      intro a ha hwa
      rw [unquote_ascii ha]
      exact wfk_renders hk (no_pct_byte hk.1 a ha hwa) _ (fun I hI => hI)
    rcases h3 with h3 | ⟨c, r, h3, hc⟩
    · subst h3
      simp only [List.append_nil] at h1
      subst h1
      exact hrun G h2 hw
    · subst h3
      subst h1
      obtain ⟨hwa, hwr⟩ := wfk_split hc r a hw
      rw [unquote_append_nonascii hc, wfk_append _ _ (hrun a h2 hwa),
        wfk_cons_ne (ne_pct_of_nonascii hc)]
      exact ih r (by simp at hl; omega) hwr

theorem wfk_unquote {keep : List Bool} (hk : KeepOK keep) (G : Str) (h : wfk keep G = true) :
    wfk keep (unquote G) = true :=
  wfk_unquote_aux hk G.length G (Nat.le_refl _) h

/-! ### the fixpoint -/

theorem wellFormed_cons_ne {c : Char} (h : c ≠ '%') (Y : Str) : wellFormed (c :: Y) = wellFormed Y :=
  wfk_cons_ne h Y

theorem upSpec_fix {keep : List Bool} (hk : KeepOK keep) : ∀ (s seg : Str),
    wfk keep seg.reverse = true → wellFormed s = true →
    upSpec keep (upSpec keep s seg) [] = upSpec keep s seg
  | [], seg, hseg, _ => by
    simp only [upSpec]
    have := upSpec_append (unquote seg.reverse) [] [] (wfk_unquote hk _ hseg)
    simp only [List.append_nil] at this
    rw [this]
    simp only [upSpec, List.reverse_reverse]
    exact unquote_idem hk _ hseg
  | [c], seg, hseg, hs => by
    have hc : c ≠ '%' := by intro e; simp [wellFormed, wfk, e] at hs
    rw [upSpec_cons_ne hc]
    apply upSpec_fix hk [] (c :: seg) _ rfl
    simp only [List.reverse_cons]
    rw [wfk_append _ _ hseg]
    simp [wfk, hc]
  | [c, x], seg, hseg, hs => by
    have hc : c ≠ '%' := by intro e; simp [wellFormed, wfk, e] at hs
    rw [wellFormed_cons_ne hc] at hs
    rw [upSpec_cons_ne hc]
    apply upSpec_fix hk [x] (c :: seg) _ hs
    simp only [List.reverse_cons]
    rw [wfk_append _ _ hseg]
    simp [wfk, hc]
  | c :: x :: y :: t, seg, hseg, hs => by
    by_cases hc : c = '%'
    · subst hc
      simp only [wellFormed, wfk, if_true] at hs
      cases hx : hexVal? x <;> cases hy : hexVal? y <;> simp only [hx, hy] at hs <;> try (simp at hs; done)
      rename_i hi lo
      simp only [Bool.and_eq_true] at hs
      have hst : wellFormed t = true := hs.2
      simp only [upSpec, if_true, hx, hy]
      by_cases hkept : tbl keep (16 * hi + lo) = true
      · simp only [hkept, if_true]
        rw [upSpec_append (unquote seg.reverse) _ [] (wfk_unquote hk _ hseg)]
        simp only [List.append_nil, upSpec, if_true, hx, hy, hkept, List.reverse_reverse]
        rw [unquote_idem hk _ hseg, upSpec_fix hk t [] rfl hst]
      · simp only [hkept, Bool.false_eq_true, if_false]
        apply upSpec_fix hk t _ _ hst
        simp only [List.reverse_cons, List.append_assoc, List.cons_append, List.nil_append]
        rw [wfk_append _ _ hseg]
        simp [wfk, hx, hy, hkept]
    · rw [wellFormed_cons_ne hc] at hs
      rw [upSpec_cons_ne hc]
      apply upSpec_fix hk (x :: y :: t) (c :: seg) _ hs
      simp only [List.reverse_cons]
      rw [wfk_append _ _ hseg]
      simp [wfk, hc]

/-- **`_unquote_partial` is a fixpoint after one step** on text whose every `%` starts a two-hex-digit
escape, for every keep table that keeps `%` and no byte ≥ 0x80. -/
theorem unquotePartial_fix {keep : List Bool} (hk : KeepOK keep) (s : Str) (hs : wellFormed s = true) :
    unquotePartial keep (unquotePartial keep s) = unquotePartial keep s := by
  rw [unquotePartial_eq keep s, unquotePartial_eq]
  exact upSpec_fix hk s [] rfl hs

end Wz.Url
