/-
The front half of the environ round trip (C15): what `EnvironBuilder.__init__` / `get_environ` make
of their `path` and `base_url` arguments (`urlsplit(path)`, `iri_to_uri`, the base_url setter, the
unquoting of the script root and the path, the latin-1 dances). Core Lean only.
-/
import WzVerif.Lemmas.UrlDenote
namespace Wz.Url
open Wz

/-! ### the `path` argument -/

/-- a `path` argument inside the property's domain: it starts with exactly one `/` ("paths not
starting with '//'"), and it is a URL *path* - no `?` (query), no `#` (fragment) - without TAB / CR /
LF (known finding F15c: `urlsplit` deletes them) -/
structure PathArg (p : Str) : Prop where
  slash : p.head? = some '/'
  single : (p.drop 1).head? ≠ some '/'
  noq : '?' ∉ p
  noh : '#' ∉ p
  notab : noTab p

theorem PathArg.cons {p : Str} (h : PathArg p) : ∃ q, p = '/' :: q ∧ q.head? ≠ some '/' := by
  cases p with
  | nil => have := h.slash; simp at this
  | cons x q =>
    have h1 := h.slash
    simp only [List.head?_cons, Option.some.injEq] at h1
    subst h1
    exact ⟨q, rfl, by simpa using h.single⟩

/-- **`urlsplit` of a path argument**: no scheme, no netloc, no query, no fragment - the text is
the path component. -/
theorem urlsplit_path_only (o : UrlOpaque) {p : Str} (h : PathArg p) :
    urlsplit o p = .ok ⟨[], [], p, [], []⟩ := by
  obtain ⟨q, rfl, hq⟩ := h.cons
  have hclean : cleanUrl ('/' :: q) = '/' :: q := by
    unfold cleanUrl
    have : ('/' :: q).dropWhile isC0OrSpace = '/' :: q := by
      simp [List.dropWhile, show isC0OrSpace '/' = false by decide]
    rw [this]
    exact filter_noTab h.notab
  have hscheme : splitScheme ('/' :: q) = ([], '/' :: q) := by
    unfold splitScheme
    rcases partitionChar_spec (d := ':') ('/' :: q) with ⟨a, b, h1, h2, _⟩ | ⟨h1, _⟩
    · rw [h1]
      simp only
      have hv : validScheme a = false := by
        cases a with
        | nil => rfl
        | cons x a' =>
          simp only [List.cons_append, List.cons.injEq] at h2
          rw [← h2.1]
          simp [validScheme, show isAsciiAlpha '/' = false by decide]
      simp [hv]
    · rw [h1]
  have hnet : splitNetloc ('/' :: q) = ([], '/' :: q) := by
    unfold splitNetloc
    have : (['/', '/'] : Str).isPrefixOf ('/' :: q) = false := by
      cases q with
      | nil => rfl
      | cons y q' =>
        have : '/' ≠ y := by
          intro e; apply hq; simp [← e]
        simp [List.isPrefixOf, this]
    rw [this]
    simp
  unfold urlsplit
  simp only [hclean, hscheme, hnet]
  rw [splitFirst_none _ h.noh]
  simp only
  rw [splitFirst_none _ h.noq]
  simp [bracketsOk, netlocOk]

/-- `iri_to_uri` of a path argument only quotes it (`self.path = iri_to_uri(request_uri.path)`) -/
theorem iriToUriText_path (o : UrlOpaque) {p : Str} (h : PathArg p) :
    iriToUriText o p = .ok (quote Gen.UrlTables.iriPathSafe p) := by
  rw [iriToUriText_unfold, urlsplit_path_only o h]
  have hp : partsOf o.hostToAscii ⟨[], [], p, [], []⟩ = .ok { path := p } := rfl
  simp only [hp]
  simp [Conv.apply, iriConv, urlunsplit, netloc, truthy, quote, quoteBytes, utf8Enc]

/-! ### the `base_url` argument -/

/-- a `base_url` argument of the property's grammar, given by its parts: scheme, raw host text
(ASCII, IDN, IPv4 or an IPv6 literal without its brackets), optional port and root path -/
structure BaseArg (o : UrlOpaque) (scheme h : Str) (port : Option Nat) (root : Str) : Prop where
  scheme : validScheme scheme = true ∧ scheme.map asciiLower = scheme ∧ noTab scheme
  host_ne : h ≠ []
  host_chars : ∀ c ∈ h, hostChar c = true
  port : ∀ k, port = some k → k ≤ 65535
  bracket : h.contains ':' = true → o.bracketOk h = true
  root_form : root = [] ∨ root.head? = some '/'
  root_chars : '?' ∉ root ∧ '#' ∉ root ∧ noTab root

/-- the text of the base URL: `scheme://host[:port]root` (an IPv6 host in brackets) -/
def baseText (scheme h : Str) (port : Option Nat) (root : Str) : Str :=
  scheme ++ "://".toList ++ (hostBr h ++ portText port) ++ root

/-- **What `EnvironBuilder` reads from `base_url`**: `iri_to_uri(base_url)` succeeds and splits into
the scheme, the IDNA-encoded host with the same port, and the quoted root path; no query, no
fragment. -/
theorem builder_base_split {o : UrlOpaque} (laws : HostLaws o) {scheme h ha root : Str} {port : Option Nat}
    (b : BaseArg o scheme h port root) (hconv : o.hostToAscii h = some ha) :
    ∃ B, iriToUriText o (baseText scheme h port root) = .ok B ∧
      urlsplit o B = .ok ⟨scheme, hostBr ha ++ portText port, quote Gen.UrlTables.iriPathSafe root, [], []⟩ := by
  let p0 : Parts := { scheme := scheme, host := h, port := port }
  let F0 : Conv :=
    { fu := id, fp := id, fpath := fun _ => root, fquery := fun _ => [], ffrag := fun _ => [] }
  have np0 : NetlocParts F0.fu F0.fp p0 :=
    ⟨b.host_ne, b.host_chars, fun u hu => by simp [p0, truthy] at hu, fun u hu => by simp [p0, truthy] at hu,
      b.port⟩
  have g0 : GoodSplit o (F0.apply p0) :=
    good_apply np0 b.scheme b.bracket (netlocOk_of_law laws.nfkc _)
      ⟨b.root_form, b.root_chars.1, b.root_chars.2.1, b.root_chars.2.2⟩
      ⟨by simp [F0], fun c hc => by cases hc⟩ (fun c hc => by cases hc)
  have hnet0 : netloc F0.fu F0.fp p0 = hostBr h ++ portText port := by
    rw [netloc_eq]; simp [authText, p0, truthy]
  have htext : baseText scheme h port root = urlunsplit (F0.apply p0) := by
    rw [urlunsplit_good g0]
    simp [baseText, Conv.apply, hnet0, tailOf, F0, p0, List.append_assoc]
  obtain ⟨s1, r1⟩ := pass_reparse (conv' := o.hostToAscii) (h' := ha) g0 np0 hconv
  have b1 : PartsBase (reparsed F0 p0 ha) :=
    ⟨b.scheme, (laws.a_chars _ _ hconv).1, (laws.a_chars _ _ hconv).2, by
      intro k hk
      simp only [reparsed, p0] at hk
      cases hp : port with
      | none => simp [hp] at hk
      | some j =>
        cases j with
        | zero => simp [hp] at hk
        | succ j => simp only [hp, Option.some.injEq] at hk; rw [← hk]; exact b.port _ hp,
      b.root_form⟩
  obtain ⟨np1, g1⟩ := iri_pass laws b1 (laws.bracket_a _ _ hconv)
  refine ⟨urlunsplit (iriConv.apply (reparsed F0 p0 ha)), ?_, ?_⟩
  · rw [htext, iriToUriText_unfold, s1]
    simp only [r1]
  · rw [urlsplit_urlunsplit g1]
    have hnet1 : netloc iriConv.fu iriConv.fp (reparsed F0 p0 ha) = hostBr ha ++ portText port := by
      rw [netloc_eq]
      have : portText (reparsed F0 p0 ha).port = portText port := portText_norm port
      rw [this]
      simp [authText, reparsed, p0, truthy]
    simp only [Conv.apply, hnet1]
    rfl

/-! ### `rstrip("/")` commutes with quoting -/

/-- an ASCII byte in the UTF-8 encoding of a character is that character -/
theorem utf8EncodeChar_ascii_mem {c : Char} {b : UInt8} (hb : b < 0x80) (hm : b ∈ String.utf8EncodeChar c) :
    c = Char.ofNat b.toNat := by
  obtain ⟨b0, cs, h1, h2⟩ := firstItem_encode c []
  rw [h1] at hm
  simp only [List.append_nil] at h2
  by_cases hc : c.toNat < 128
  · have := utf8EncodeChar_ascii hc
    rw [this] at h1
    simp only [List.cons.injEq] at h1
    rw [← h1.1, ← h1.2] at hm
    simp only [List.mem_singleton] at hm
    rw [hm, uint8_toNat_ofNat_lt (by omega), Char.ofNat_toNat]
  · exfalso
    have := raw_ge_of_nonascii h2 (by omega) b hm
    rw [UInt8.le_iff_toNat_le] at this
    rw [UInt8.lt_iff_toNat_lt] at hb
    simp at this hb
    omega

/-- `quote` produces a `/` only from a `/` -/
theorem slash_mem_quote {safe : Str} {c : Char} (hc : c ≠ '/') : '/' ∉ quote safe [c] := by
  intro hm
  simp only [quote, quoteBytes, utf8Enc, List.flatMap_cons, List.flatMap_nil, List.append_nil] at hm
  obtain ⟨b, hb, hq⟩ := List.mem_flatMap.mp hm
  unfold quoteByte at hq
  split at hq
  · rename_i hs
    have hlt : b.toNat < 128 := by
      simp only [isSafe, Bool.and_eq_true, decide_eq_true_eq] at hs; exact hs.1
    simp only [List.mem_singleton] at hq
    have hb' : b < 0x80 := by rw [UInt8.lt_iff_toNat_lt]; simpa using hlt
    have := utf8EncodeChar_ascii_mem hb' hb
    exact hc (this.trans hq.symm)
  · have hex : ∀ d, d < 16 → hexU d ≠ '/' := by decide
    simp only [pct, List.mem_cons, List.mem_nil_iff, or_false] at hq
    rcases hq with h | h | h
    · exact absurd h (by decide)
    · exact hex _ (by have := b.toNat_lt; omega) h.symm
    · exact hex _ (Nat.mod_lt _ (by decide)) h.symm

theorem rstripSlash_append (a b : Str) :
    rstripSlash (a ++ b) = if rstripSlash b = [] then rstripSlash a else a ++ rstripSlash b := by
  unfold rstripSlash
  rw [List.reverse_append, List.dropWhile_append]
  by_cases h : (List.dropWhile (fun x => x == '/') b.reverse).isEmpty = true
  · have : List.dropWhile (fun x => x == '/') b.reverse = [] := List.isEmpty_iff.mp h
    simp [this]
  · have hne : List.dropWhile (fun x => x == '/') b.reverse ≠ [] := fun e => h (by simp [e])
    simp [h, hne]

theorem rstripSlash_noslash {a : Str} (h : '/' ∉ a) : rstripSlash a = a := by
  unfold rstripSlash
  have : a.reverse.dropWhile (fun x => x == '/') = a.reverse := by
    apply dropWhile_self
    intro c hc
    have hm : c ∈ a := by
      have := List.mem_of_mem_head? hc
      simpa using this
    simp only [beq_eq_false_iff_ne]
    intro e; exact h (e ▸ hm)
  rw [this, List.reverse_reverse]

/-- `rstrip("/")` commutes with `quote` whenever `/` is in the safe set (it always is, here) -/
theorem rstripSlash_quote {safe : Str} (hs : Fixed safe '/') : ∀ (s : Str),
    rstripSlash (quote safe s) = quote safe (rstripSlash s)
  | [] => rfl
  | c :: t => by
    have ih := rstripSlash_quote hs t
    have e1 : quote safe (c :: t) = quote safe [c] ++ quote safe t := by rw [← quote_append]; rfl
    have e2 : rstripSlash (c :: t) = if rstripSlash t = [] then rstripSlash [c] else [c] ++ rstripSlash t :=
      rstripSlash_append [c] t
    rw [e1, rstripSlash_append, ih, e2]
    by_cases ht : rstripSlash t = []
    · rw [if_pos ht, if_pos (by rw [ht]; rfl)]
      by_cases hc : c = '/'
      · subst hc
        rw [quote_of_fixed ['/'] (by intro x hx; simp at hx; subst hx; exact hs)]
        rfl
      · rw [rstripSlash_noslash (slash_mem_quote hc), rstripSlash_noslash (by simpa using fun e => hc e.symm)]
    · rw [if_neg ht, if_neg (fun e => quote_ne ht e), quote_append]

/-! ### `get_host` on an assembled host: the scheme's default port is dropped, nothing else -/

/-- the port `get_host` leaves in the host text -/
def dropDefaultPort (scheme : Str) (port : Option Nat) : Option Nat :=
  if (scheme = "http".toList ∨ scheme = "ws".toList) ∧ port = some 80 then none
  else if (scheme = "https".toList ∨ scheme = "wss".toList) ∧ port = some 443 then none
  else port

theorem digits_inj {a b : Nat} (h : (toString a).toList = (toString b).toList) : a = b := by
  have h1 := (digits_spec a).2.2
  have h2 := (digits_spec b).2.2
  rw [h] at h1
  exact h1.symm.trans h2

/-- an assembled `host[:port]` ends with `:<k>` only when its port is `k` -/
theorem endsWith_hostport (ha : Str) (port : Option Nat) (k : Nat)
    (h : endsWith (hostBr ha ++ portText port) (':' :: (toString k).toList) = true) :
    port = some k := by
  obtain ⟨dne, ddig, _⟩ := digits_spec k
  have hcolon : ':' ∉ (toString k).toList := fun hm => (digit_facts (ddig _ hm)).2.1 rfl
  have key : ∀ j, j ≠ 0 → portText (some j) = ':' :: (toString j).toList := by
    intro j hj; cases j with
    | zero => exact absurd rfl hj
    | succ j => rfl
  -- without a port text the host would have to end with `:<k>`
  have nohost : endsWith (hostBr ha) (':' :: (toString k).toList) = true → False := by
    intro h0
    unfold endsWith at h0
    obtain ⟨w, hw⟩ := List.isPrefixOf_iff_prefix.mp h0
    by_cases hc : ha.contains ':' = true
    · -- bracketed: the last character is `]`, not a digit
      have hb : (hostBr ha).reverse = ']' :: (ha.reverse ++ ['[']) := by
        unfold hostBr; rw [if_pos hc]; simp
      rw [hb] at hw
      cases hd : (toString k).toList.reverse with
      | nil => exact dne (by simp at hd)
      | cons d ds =>
        simp only [List.reverse_cons, hd, List.cons_append, List.cons.injEq] at hw
        have hdm : d ∈ (toString k).toList := by
          have : d ∈ (toString k).toList.reverse := by rw [hd]; simp
          simpa using this
        have := (hostChar_ne (digit_facts (ddig d hdm)).1).2.2.1
        exact this hw.1
    · have hnc : ':' ∉ ha := by simpa using hc
      have hb : hostBr ha = ha := by unfold hostBr; rw [if_neg hc]
      rw [hb] at hw
      apply hnc
      have : ':' ∈ ha.reverse := by rw [← hw]; simp
      simpa using this
  cases port with
  | none => exact (nohost (by simpa [portText] using h)).elim
  | some j =>
    by_cases hj : j = 0
    · subst hj; exact (nohost (by simpa [portText] using h)).elim
    · rw [key j hj] at h
      have hs := endsWith_split h
      have hcj : ':' ∉ (toString j).toList := fun hm => (digit_facts ((digits_spec j).2.1 _ hm)).2.1 rfl
      have r1 := rpartitionChar_append (hostBr ha) _ hcj
      rw [hs, rpartitionChar_append _ _ hcolon] at r1
      simp only [Prod.mk.injEq, Option.some.injEq] at r1
      rw [digits_inj r1.2]

/-- **`get_host` on `host[:port]`**: the result is the host with the port, unless the port is the
scheme's default (80 for http / ws, 443 for https / wss), which is dropped - for every host text
(names ending in digits, IPv6 literals) and every port. -/
theorem getHost_hostport (ha scheme : Str) (port : Option Nat) :
    getHost scheme (hostBr ha ++ portText port) = hostBr ha ++ portText (dropDefaultPort scheme port) := by
  have e80 : (":80".toList : Str) = ':' :: (toString 80).toList := by decide
  have e443 : (":443".toList : Str) = ':' :: (toString 443).toList := by decide
  have p80 : portText (some 80) = ":80".toList := by decide
  have p443 : portText (some 443) = ":443".toList := by decide
  by_cases h1 : (scheme = "http".toList ∨ scheme = "ws".toList) ∧ port = some 80
  · rw [dropDefaultPort, if_pos h1, h1.2, p80, (getHost_spec scheme []).2.1 _ h1.1]
    simp [portText]
  · by_cases h2 : (scheme = "https".toList ∨ scheme = "wss".toList) ∧ port = some 443
    · rw [dropDefaultPort, if_neg h1, if_pos h2, h2.2, p443, (getHost_spec scheme []).2.2 _ h2.1]
      simp [portText]
    · rw [dropDefaultPort, if_neg h1, if_neg h2]
      unfold getHost
      have c1 : ((scheme == "http".toList || scheme == "ws".toList) &&
          endsWith (hostBr ha ++ portText port) ":80".toList) = false := by
        apply Bool.eq_false_iff.mpr
        intro hc
        simp only [Bool.and_eq_true, Bool.or_eq_true, beq_iff_eq] at hc
        rw [e80] at hc
        exact h1 ⟨hc.1, endsWith_hostport ha port 80 hc.2⟩
      have c2 : ((scheme == "https".toList || scheme == "wss".toList) &&
          endsWith (hostBr ha ++ portText port) ":443".toList) = false := by
        apply Bool.eq_false_iff.mpr
        intro hc
        simp only [Bool.and_eq_true, Bool.or_eq_true, beq_iff_eq] at hc
        rw [e443] at hc
        exact h2 ⟨hc.1, endsWith_hostport ha port 443 hc.2⟩
      simp only [c1, c2, Bool.false_eq_true, if_false]

/-! ### the environ the builder produces -/

/-- **`EnvironBuilder(path, base_url, query_string).get_environ()`** for arguments of the property's
domain: SCRIPT_NAME / PATH_INFO are the dances of the unquoted (quoted) root path and path,
QUERY_STRING the dance of the query string, HTTP_HOST the IDNA-encoded host with its port. -/
theorem builderEnviron_eq {o : UrlOpaque} (laws : HostLaws o) {scheme h ha root p : Str} {port : Option Nat}
    (qs : Str) (b : BaseArg o scheme h port root) (hp : PathArg p) (hconv : o.hostToAscii h = some ha) :
    ∃ e, builderEnviron o p (baseText scheme h port root) qs = .ok e ∧
      e.scriptName = encodingDance (unquoteReplace (quote Gen.UrlTables.iriPathSafe (rstripSlash root))) ∧
      e.pathInfo = encodingDance (unquoteReplace (quote Gen.UrlTables.iriPathSafe p)) ∧
      e.queryString = encodingDance qs ∧ e.httpHost = hostBr ha ++ portText port ∧ e.urlScheme = scheme := by
  obtain ⟨B, hB, hsB⟩ := builder_base_split laws b hconv
  have h1 : p.contains '?' = false := by simpa using hp.noq
  refine ⟨{ scriptName := encodingDance (unquoteReplace (rstripSlash (quote Gen.UrlTables.iriPathSafe root)))
            pathInfo := encodingDance (unquoteReplace (quote Gen.UrlTables.iriPathSafe p))
            queryString := encodingDance qs
            httpHost := hostBr ha ++ portText port
            urlScheme := scheme }, ?_, ?_, rfl, rfl, rfl, rfl⟩
  · unfold builderEnviron
    simp only [h1, urlsplit_path_only o hp, iriToUriText_path o hp, hB, hsB]
    rfl
  · simp only
    rw [rstripSlash_quote (show Fixed Gen.UrlTables.iriPathSafe '/' from ⟨by decide, by decide⟩)]

theorem requestView_host {o : UrlOpaque} {e : Environ} {rv : RequestView} (h : requestView o e = .ok rv) :
    rv.host = getHost e.urlScheme e.httpHost := by
  unfold requestView at h
  split at h
  · simp only at h
    split at h
    · cases h
    · simp only [Except.ok.injEq] at h
      rw [← h]
  · cases h

/-- `Request` looks at HTTP_HOST only through `get_host` -/
theorem requestView_getHost (o : UrlOpaque) (scheme H H' root p qs : Str)
    (h : getHost scheme H = getHost scheme H') :
    (requestView o (danceEnviron scheme H root p qs)).map (fun r => (r.path, r.rootPath, r.host, r.url)) =
    (requestView o (danceEnviron scheme H' root p qs)).map (fun r => (r.path, r.rootPath, r.host, r.url)) := by
  unfold requestView danceEnviron
  simp only [h]

theorem dropDefaultPort_cases (scheme : Str) (port : Option Nat) :
    dropDefaultPort scheme port = none ∨ dropDefaultPort scheme port = port := by
  unfold dropDefaultPort
  split
  · exact Or.inl rfl
  · split
    · exact Or.inl rfl
    · exact Or.inr rfl

theorem dropDefaultPort_idem (scheme : Str) (port : Option Nat) :
    dropDefaultPort scheme (dropDefaultPort scheme port) = dropDefaultPort scheme port := by
  rcases dropDefaultPort_cases scheme port with h | h
  · rw [h]; simp [dropDefaultPort]
  · rw [h, h]

theorem rstripSlash_form {root : Str} (h : root = [] ∨ root.head? = some '/') :
    rstripSlash root = [] ∨ (rstripSlash root).head? = some '/' := by
  cases hr : rstripSlash root with
  | nil => exact Or.inl rfl
  | cons x xs =>
    right
    obtain ⟨w, hw⟩ := rstripSlash_prefix root
    rw [hr] at hw
    rcases h with h | h
    · rw [h] at hw; cases hw
    · rw [← hw] at h; simpa using h

theorem lstripSlash_pathArg {p : Str} (h : PathArg p) : '/' :: lstripSlash p = p := by
  obtain ⟨q, rfl, hq⟩ := h.cons
  unfold lstripSlash
  simp only [List.dropWhile_cons, beq_self_eq_true, if_true]
  congr 1
  apply dropWhile_self
  intro c hc
  simp only [beq_eq_false_iff_ne]
  intro e; apply hq; rw [hc, e]

/-- **The environ round trip, from the builder's arguments to the request.** -/
theorem builder_request_roundtrip {o : UrlOpaque} (laws : HostLaws o)
    (kt : KeepOK Gen.UrlTables.keepPath ∧ KeepOK Gen.UrlTables.keepQuery ∧
      KeepOK Gen.UrlTables.keepFragment ∧ KeepOK Gen.UrlTables.keepUser)
    {scheme h ha hu root p qs : Str} {port : Option Nat}
    (b : BaseArg o scheme h port root) (hp : PathArg p) (hpp : '%' ∉ p) (hrp : '%' ∉ root)
    (hq : wellFormed (quoteBytes Gen.UrlTables.curQuerySafe (utf8Enc qs)) = true)
    (hconv : o.hostToAscii h = some ha) (hconvu : o.hostToUnicode ha = some hu) :
    ∃ e rv t, builderEnviron o p (baseText scheme h port root) qs = .ok e ∧ requestView o e = .ok rv ∧
      rv.path = p ∧ rv.rootPath = rstripSlash root ∧
      rv.host = hostBr ha ++ portText (dropDefaultPort scheme port) ∧
      urlsplit o rv.url = .ok t ∧ t.scheme = scheme ∧
      t.netloc = hostBr hu ++ portText (dropDefaultPort scheme port) ∧
      unquote t.path = rstripSlash root ++ p ∧
      unquote t.query = unquote (quote Gen.UrlTables.curQuerySafe qs) ∧ t.fragment = [] := by
  obtain ⟨e, he, e1, e2, e3, e4, e5⟩ := builderEnviron_eq laws qs b hp hconv
  have hrp' : '%' ∉ rstripSlash root := fun hm => hrp ((rstripSlash_prefix root).subset hm)
  rw [unquoteReplace_quote _ _ hrp'] at e1
  rw [unquoteReplace_quote _ _ hpp] at e2
  have hE : e = danceEnviron scheme (hostBr ha ++ portText port) (rstripSlash root) p qs := by
    cases e
    simp only at e1 e2 e3 e4 e5
    simp only [danceEnviron, e1, e2, e3, e4, e5]
  let port' := dropDefaultPort scheme port
  have hgh : getHost scheme (hostBr ha ++ portText port') = hostBr ha ++ portText port' := by
    rw [getHost_hostport, dropDefaultPort_idem]
  have ci : CurInput o scheme ha port' (rstripSlash (rstripSlash root)) (utf8Enc qs) :=
    ⟨b.scheme, (laws.a_chars _ _ hconv).1, (laws.a_chars _ _ hconv).2, by
      intro k hk
      rcases dropDefaultPort_cases scheme port with h0 | h0
      · rw [show port' = none from h0] at hk; cases hk
      · rw [show port' = port from h0] at hk; exact b.port k hk,
      laws.bracket_a _ _ hconv, rstripSlash_form (rstripSlash_form b.root_form), hq⟩
  obtain ⟨rv0, t, g1, g2, g3, g4, g5, g6, g7, g8, g9⟩ :=
    request_url_denotes laws kt (root := rstripSlash root) (p := p) ci hconvu hgh
  have hsame := requestView_getHost o scheme (hostBr ha ++ portText port) (hostBr ha ++ portText port')
    (rstripSlash root) p qs (by rw [getHost_hostport, hgh])
  rw [g1] at hsame
  cases hrv : requestView o (danceEnviron scheme (hostBr ha ++ portText port) (rstripSlash root) p qs) with
  | error x => rw [hrv] at hsame; cases hsame
  | ok rv =>
    rw [hrv] at hsame
    simp only [Except.map, Except.ok.injEq, Prod.mk.injEq] at hsame
    obtain ⟨s1, s2, s3, s4⟩ := hsame
    have hhost := requestView_host g1
    simp only [danceEnviron] at hhost
    refine ⟨e, rv, t, he, by rw [hE]; exact hrv, ?_, ?_, ?_, by rw [s4]; exact g4, g5, g6, ?_, g8, g9⟩
    · rw [s1, g2]; exact lstripSlash_pathArg hp
    · rw [s2, g3, rstripSlash_idem]
    · rw [s3, hhost, hgh]
    · rw [g7, g2, g3, rstripSlash_idem, lstripSlash_pathArg hp]

end Wz.Url
