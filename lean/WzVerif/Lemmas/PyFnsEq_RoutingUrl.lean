/-
PyFnsEq_RoutingUrl — the URL-producing methods of `werkzeug.routing.map.MapAdapter` *as regenerated
from the source* by `tools/py2lean.py` (`Gen/PyFns_RoutingUrl.lean`, rewritten on every check run:
`get_host`, `encode_query_args`, `make_redirect_url`, `make_alias_redirect_url`) are equal, for all
inputs, to the hand-written model the C12 theorems are about (`Model/RoutingUrl.lean`: `getHost`,
`encodeQueryArgs`, `effQa`, `makeRedirectUrl`; `Model/RoutingAdapter.lean`: the `.aliasRedirect` arm of
`matchAdapter`). A change of the Python source changes the generated definition and breaks these
obligations.

Main theorems: `adapter_get_host_eq`, `encode_query_args_str_eq`, `encode_query_args_pairs_eq`,
`make_redirect_url_str_eq`, `make_redirect_url_pairs_eq`, `make_alias_redirect_url_str_eq`,
`make_alias_redirect_url_pairs_eq` (+ `_none_eq`, `_error`), the necessity witnesses
`make_alias_redirect_url_str_assert` / `make_alias_redirect_url_pairs_assert`, and the reachability
analysis of the `assert url != path` of `make_alias_redirect_url`: `alias_url_ne_path`,
`make_alias_redirect_url_str_in_match`, `make_alias_redirect_url_pairs_in_match` (the assertion cannot
fire from `MapAdapter.match` when the matched domain part contains no `/`) and
`alias_assert_reachable_witness` (it can when the domain part contains `/`; replayed on the real code).

The only difference between translation and model is that `assert`: the model's alias arm has no
`AssertionError` outcome. Everything else is a plain equality without side conditions.

The translation has one definition per class of `query_args` (`str` / mapping handed over as its list
of pairs, each possibly `None`); the model has one sum type `QueryArgs`. `qaStr` / `qaPairs` read a
`QueryArgs` as the argument of the `str` / pairs translation.

Section 1 holds helpers that mention no generated definition (candidates for the shared library).
-/
import WzVerif.Gen.PyFns_RoutingUrl
import WzVerif.Model.RoutingAdapter
import WzVerif.Lemmas.PyFns_Prelude
namespace Wz.PyFnsEq.RoutingUrl
open Wz Wz.Routing
open Gen.PyFns_RoutingUrl

/-! ## 1. helpers: `strip` / `lstrip` / `rstrip` by one character, `sep.join` of a pair, text inequality -/

/-- `x in c` for a one-character text `c` is `x == c` -/
theorem contains_singleton_char (c x : Char) : ([c] : List Char).contains x = (x == c) := by
  cases h : x == c <;> simp_all

/-- `s.lstrip(c)` of the prelude (set of characters) for a one-character `c` is the model's `lstripChar` -/
theorem lstripChars_singleton (c : Char) (s : Str) : Pre.lstripChars s [c] = lstripChar c s := by
  simp only [Pre.lstripChars, lstripChar, contains_singleton_char]

/-- `s.rstrip(c)` of the prelude for a one-character `c` is the model's `rstripChar` -/
theorem rstripChars_singleton (c : Char) (s : Str) : Pre.rstripChars s [c] = rstripChar c s := by
  simp only [Pre.rstripChars, rstripChar, contains_singleton_char]

/-- `s.strip(c)` of the prelude for a one-character `c` is the model's `stripChar` -/
theorem stripChars_singleton (c : Char) (s : Str) : Pre.stripChars s [c] = stripChar c s := by
  simp only [Pre.stripChars, stripChar, lstripChars_singleton, rstripChars_singleton]

/-- `sep.join((x, y))` is `x + sep + y` -/
theorem join_pair (sep x y : List α) : Pre.join sep [x, y] = x ++ sep ++ y := by
  simp [Pre.join]

/-- `"/".join((x, y))` is `x + "/" + y` -/
theorem join_slash_pair (x y : Str) : Pre.join ['/'] [x, y] = x ++ '/' :: y := by
  simp [Pre.join]

/-- the literal `"http"` as a list of characters -/
theorem http_lit : "http".toList = ['h', 't', 't', 'p'] := rfl

/-- a text whose first `/` comes before any `|` differs from every text `dom + "|" + pp` whose `dom`
contains no `/` -/
theorem ne_of_sep_before (pre rest dom pp : Str) (hd : '/' ∉ dom) (hp : '|' ∉ pre) :
    pre ++ '/' :: rest ≠ dom ++ '|' :: pp := by
  induction pre generalizing dom with
  | nil =>
    cases dom with
    | nil => simp
    | cons d ds => intro h; simp at h; simp [← h.1] at hd
  | cons x xs ih =>
    cases dom with
    | nil => intro h; simp at h; simp [h.1] at hp
    | cons d ds =>
      intro h
      simp at h
      simp at hd hp
      exact ih ds hd.2 hp.2 h.2

/-- the model's `MapAdapter.build(..., force_external=True)`, when it succeeds, returns a text of the
form `pre + "/" + rest` where `pre` (empty or `"http:"`, `"https:"`, `"ws:"`, `"wss:"`) contains no `|` -/
theorem adapterBuild_external_shape {cfg : MapCfg} {a : Routing.Adapter} {rules : List Rule} {ep : Str}
    {vals : List (Str × Value)} {method : Option Str} {au : Bool} {url : Str}
    (h : adapterBuild cfg a rules ep vals method true au = .ok url) :
    ∃ pre rest, url = pre ++ '/' :: rest ∧ '|' ∉ pre := by
  unfold adapterBuild at h
  split at h
  · cases h
  · cases h
  · rename_i dpart path ws _
    simp only [Bool.true_or, Bool.not_true, Bool.false_and, Bool.false_eq_true, if_false,
      Except.ok.injEq] at h
    have key : ∀ sch : Str, '|' ∉ sch → ∀ r1 r2 r3 : Str,
        ∃ pre rest, (sch ++ '/' :: '/' :: r1 ++ r2 ++ r3 : Str) = pre ++ '/' :: rest ∧ '|' ∉ pre :=
      fun sch hs r1 r2 r3 => ⟨sch, '/' :: r1 ++ r2 ++ r3, by simp, hs⟩
    rw [← h]
    apply key
    cases ws <;> cases a.urlScheme.isEmpty <;>
      cases (a.urlScheme == "https".toList || a.urlScheme == "wss".toList) <;> simp

/-- the redirect target of the model's alias arm (`build(..., force_external=True)` plus the query
string) differs from `f"{domain_part}|{path_part}"` whenever `domain_part` contains no `/` -/
theorem alias_url_ne_path {cfg : MapCfg} {a : Routing.Adapter} {rules : List Rule} {ep : Str}
    {vals : List (Str × Value)} {method : Option Str} {au : Bool} {url : Str}
    (hb : adapterBuild cfg a rules ep vals method true au = .ok url)
    (qa : Routing.QueryArgs) (dom pp : Str) (hd : '/' ∉ dom) :
    (if qa.truthy then url ++ '?' :: Routing.encodeQueryArgs qa else url) ≠ dom ++ '|' :: pp := by
  obtain ⟨pre, rest, rfl, hp⟩ := adapterBuild_external_shape hb
  split
  · have := ne_of_sep_before pre (rest ++ '?' :: Routing.encodeQueryArgs qa) dom pp hd hp
    simpa using this
  · exact ne_of_sep_before pre rest dom pp hd hp

/-! ## 2. `get_host`, `encode_query_args` -/

/-- `MapAdapter.get_host(domain_part)`, as translated from the source, returns the model's `getHost`
for every adapter, both settings of `host_matching` and every `domain_part` (including `None`) -/
theorem adapter_get_host_eq (hm : Bool) (a : Routing.Adapter) (dp : Option Str) :
    adapter_get_host hm a.serverName a.subdomain dp = Routing.getHost hm a dp := by
  unfold adapter_get_host Routing.getHost
  cases hm <;> cases dp <;> cases a.subdomain <;> simp <;> split <;> simp_all

/-- `MapAdapter.encode_query_args(query_args)` for a `str` returns it unchanged, as the model says -/
theorem encode_query_args_str_eq (s : Str) :
    encode_query_args_str s = Routing.encodeQueryArgs (.text s) := rfl

/-- `MapAdapter.encode_query_args(query_args)` for a mapping returns `_urlencode(query_args)`, as the
model says -/
theorem encode_query_args_pairs_eq (l : List (Str × Str)) :
    encode_query_args_pairs Routing.urlencode l = Routing.encodeQueryArgs (.pairs l) := rfl

/-! ## 3. `make_redirect_url` -/

/-- a `QueryArgs` as the argument of the `str` translations: `None`, or a `str`; not a mapping -/
def qaStr : Routing.QueryArgs → Option (Option Str)
  | .none => some none
  | .text s => some (some s)
  | .pairs _ => none

/-- a `QueryArgs` as the argument of the mapping translations: `None`, or the list of pairs; not a `str` -/
def qaPairs : Routing.QueryArgs → Option (Option (List (Str × Str)))
  | .none => some none
  | .text _ => none
  | .pairs l => some (some l)

/-- `MapAdapter.make_redirect_url(path_info, query_args, domain_part)`, as translated from the source for
`str` query arguments, returns the model's `makeRedirectUrl`: for every adapter bound with
`query_args=None` or a `str`, every call with `query_args=None` or a `str` (all four combinations, empty
strings included), every `path_info`, `domain_part`, `host_matching` -/
theorem make_redirect_url_str_eq (hm : Bool) (a : Routing.Adapter) (pathInfo : Str)
    (qa : Routing.QueryArgs) (dp : Option Str) (sq cq : Option Str)
    (ha : qaStr a.queryArgs = some sq) (hq : qaStr qa = some cq) :
    make_redirect_url_str Routing.urlunsplit Routing.urlencode hm a.serverName a.subdomain a.urlScheme
      a.scriptName sq pathInfo cq dp = Routing.makeRedirectUrl hm a pathInfo qa dp := by
  unfold make_redirect_url_str Routing.makeRedirectUrl
  simp only [adapter_get_host_eq, stripChars_singleton, lstripChars_singleton, join_slash_pair,
    encode_query_args_str_eq, http_lit]
  cases qa <;> cases haq : a.queryArgs <;>
    simp only [qaStr, haq, Option.some.injEq, reduceCtorEq] at ha hq <;>
    subst ha hq <;>
    simp [Routing.effQa, Routing.QueryArgs.truthy, Routing.encodeQueryArgs, haq] <;>
    cases a.urlScheme <;> simp <;> split <;> simp_all

/-- `MapAdapter.make_redirect_url(path_info, query_args, domain_part)`, as translated from the source for
mapping query arguments, returns the model's `makeRedirectUrl`: for every adapter bound with
`query_args=None` or a mapping, every call with `query_args=None` or a mapping (all four combinations,
empty mappings included), every `path_info`, `domain_part`, `host_matching` -/
theorem make_redirect_url_pairs_eq (hm : Bool) (a : Routing.Adapter) (pathInfo : Str)
    (qa : Routing.QueryArgs) (dp : Option Str) (sq cq : Option (List (Str × Str)))
    (ha : qaPairs a.queryArgs = some sq) (hq : qaPairs qa = some cq) :
    make_redirect_url_pairs Routing.urlunsplit Routing.urlencode hm a.serverName a.subdomain a.urlScheme
      a.scriptName sq pathInfo cq dp = Routing.makeRedirectUrl hm a pathInfo qa dp := by
  unfold make_redirect_url_pairs Routing.makeRedirectUrl
  simp only [adapter_get_host_eq, stripChars_singleton, lstripChars_singleton, join_slash_pair,
    encode_query_args_pairs_eq, http_lit]
  cases qa <;> cases haq : a.queryArgs <;>
    simp only [qaPairs, haq, Option.some.injEq, reduceCtorEq] at ha hq <;>
    subst ha hq <;>
    simp [Routing.effQa, Routing.QueryArgs.truthy, Routing.encodeQueryArgs, haq] <;>
    cases a.urlScheme <;> simp <;> split <;> simp_all

/-! ## 4. `make_alias_redirect_url` -/

/-- `MapAdapter.make_alias_redirect_url(path, ..., query_args)` for a `str` `query_args`, when
`self.build(...)` returned `url` and the final text differs from `path`: returns exactly the text of the
model's alias arm (`url`, plus `"?" + query_args` when `query_args` is not empty) -/
theorem make_alias_redirect_url_str_eq (url path s : Str) (en va me : Unit)
    (h : (if (Routing.QueryArgs.text s).truthy then url ++ '?' :: Routing.encodeQueryArgs (.text s) else url) ≠ path) :
    make_alias_redirect_url_str (.ok url) path en va me s
      = .ok (if (Routing.QueryArgs.text s).truthy then url ++ '?' :: Routing.encodeQueryArgs (.text s) else url) := by
  unfold make_alias_redirect_url_str
  simp only [encode_query_args_str_eq]
  simp only [Routing.QueryArgs.truthy, Routing.encodeQueryArgs] at h ⊢
  cases s <;> simp_all

/-- necessity of the hypothesis of `make_alias_redirect_url_str_eq`: when the final text equals `path`
the `assert url != path` of the source fires (`AssertionError`); the model has no such outcome -/
theorem make_alias_redirect_url_str_assert (url path s : Str) (en va me : Unit)
    (h : (if (Routing.QueryArgs.text s).truthy then url ++ '?' :: Routing.encodeQueryArgs (.text s) else url) = path) :
    make_alias_redirect_url_str (.ok url) path en va me s = .error "AssertionError" := by
  unfold make_alias_redirect_url_str
  simp only [encode_query_args_str_eq]
  simp only [Routing.QueryArgs.truthy, Routing.encodeQueryArgs] at h ⊢
  cases s <;> simp_all

/-- an exception raised by `self.build(...)` escapes `make_alias_redirect_url` unchanged (`str` case) -/
theorem make_alias_redirect_url_str_error (e : String) (path s : Str) (en va me : Unit) :
    make_alias_redirect_url_str (.error e) path en va me s = .error e := rfl

/-- `MapAdapter.make_alias_redirect_url(path, ..., query_args)` for a mapping `query_args`, when
`self.build(...)` returned `url` and the final text differs from `path`: returns exactly the text of the
model's alias arm (`url`, plus `"?" + _urlencode(query_args)` when the mapping is not empty) -/
theorem make_alias_redirect_url_pairs_eq (url path : Str) (l : List (Str × Str)) (en va me : Unit)
    (h : (if (Routing.QueryArgs.pairs l).truthy then url ++ '?' :: Routing.encodeQueryArgs (.pairs l) else url) ≠ path) :
    make_alias_redirect_url_pairs (.ok url) Routing.urlencode path en va me l
      = .ok (if (Routing.QueryArgs.pairs l).truthy then url ++ '?' :: Routing.encodeQueryArgs (.pairs l) else url) := by
  unfold make_alias_redirect_url_pairs
  simp only [encode_query_args_pairs_eq]
  simp only [Routing.QueryArgs.truthy, Routing.encodeQueryArgs] at h ⊢
  cases l <;> simp_all

/-- necessity of the hypothesis of `make_alias_redirect_url_pairs_eq`: when the final text equals
`path` the `assert url != path` of the source fires (`AssertionError`); the model has no such outcome -/
theorem make_alias_redirect_url_pairs_assert (url path : Str) (l : List (Str × Str)) (en va me : Unit)
    (h : (if (Routing.QueryArgs.pairs l).truthy then url ++ '?' :: Routing.encodeQueryArgs (.pairs l) else url) = path) :
    make_alias_redirect_url_pairs (.ok url) Routing.urlencode path en va me l = .error "AssertionError" := by
  unfold make_alias_redirect_url_pairs
  simp only [encode_query_args_pairs_eq]
  simp only [Routing.QueryArgs.truthy, Routing.encodeQueryArgs] at h ⊢
  cases l <;> simp_all

/-- an exception raised by `self.build(...)` escapes `make_alias_redirect_url` unchanged (mapping case) -/
theorem make_alias_redirect_url_pairs_error (e : String) (path : Str) (l : List (Str × Str))
    (en va me : Unit) :
    make_alias_redirect_url_pairs (.error e) Routing.urlencode path en va me l = .error e := rfl

/-- the model's `QueryArgs.none` in the alias arm: `MapAdapter.match` hands `self.query_args or {}` to
`make_alias_redirect_url`, i.e. the empty mapping when no query arguments are bound or given; the
translation then returns `url` itself, which is the model's text for `.none` -/
theorem make_alias_redirect_url_none_eq (url path : Str) (en va me : Unit)
    (h : (if Routing.QueryArgs.none.truthy then url ++ '?' :: Routing.encodeQueryArgs .none else url) ≠ path) :
    make_alias_redirect_url_pairs (.ok url) Routing.urlencode path en va me []
      = .ok (if Routing.QueryArgs.none.truthy then url ++ '?' :: Routing.encodeQueryArgs .none else url) := by
  have := make_alias_redirect_url_pairs_eq url path [] en va me
  simp only [Routing.QueryArgs.truthy, Routing.encodeQueryArgs] at this h ⊢
  exact this h

/-! ### the assertion seen from `MapAdapter.match`

`match` calls `make_alias_redirect_url(f"{domain_part}|{path_part}", ...)` and `build(...,
force_external=True)` returns `[scheme:]//host...`. If `domain_part` (the bound subdomain, or the server
name) contains no `/`, the first `/` of the URL comes before any `|`, while `path` has a `|` before any
`/`: the assertion cannot fire and the translated function is the model's alias arm. -/

/-- `make_alias_redirect_url` as called by `MapAdapter.match` (`str` query arguments), with the model's
`build(..., force_external=True)` as `self.build`: when the domain part contains no `/` the result is the
model's alias arm — the redirect text, or the exception of `build`; never `AssertionError` -/
theorem make_alias_redirect_url_str_in_match (cfg : MapCfg) (a : Routing.Adapter) (rules : List Rule)
    (ep : Str) (vals : List (Str × Value)) (method : Option Str) (au : Bool) (dom pp s : Str)
    (en va me : Unit) (hd : '/' ∉ dom) :
    make_alias_redirect_url_str (adapterBuild cfg a rules ep vals method true au) (dom ++ '|' :: pp) en va me s
      = (adapterBuild cfg a rules ep vals method true au).map fun url =>
          if (Routing.QueryArgs.text s).truthy then url ++ '?' :: Routing.encodeQueryArgs (.text s) else url := by
  cases hb : adapterBuild cfg a rules ep vals method true au with
  | error e => rfl
  | ok url =>
    rw [make_alias_redirect_url_str_eq url _ s en va me (alias_url_ne_path hb (.text s) dom pp hd)]
    rfl

/-- `make_alias_redirect_url` as called by `MapAdapter.match` (mapping query arguments), with the
model's `build(..., force_external=True)` as `self.build`: when the domain part contains no `/` the
result is the model's alias arm — the redirect text, or the exception of `build`; never `AssertionError` -/
theorem make_alias_redirect_url_pairs_in_match (cfg : MapCfg) (a : Routing.Adapter) (rules : List Rule)
    (ep : Str) (vals : List (Str × Value)) (method : Option Str) (au : Bool) (dom pp : Str)
    (l : List (Str × Str)) (en va me : Unit) (hd : '/' ∉ dom) :
    make_alias_redirect_url_pairs (adapterBuild cfg a rules ep vals method true au) Routing.urlencode
        (dom ++ '|' :: pp) en va me l
      = (adapterBuild cfg a rules ep vals method true au).map fun url =>
          if (Routing.QueryArgs.pairs l).truthy then url ++ '?' :: Routing.encodeQueryArgs (.pairs l) else url := by
  cases hb : adapterBuild cfg a rules ep vals method true au with
  | error e => rfl
  | ok url =>
    rw [make_alias_redirect_url_pairs_eq url _ l en va me (alias_url_ne_path hb (.pairs l) dom pp hd)]
    rfl

/-- the hypothesis `'/' ∉ dom` of the two theorems above cannot be dropped: with the domain part
`http://b.server/canon?z`, the built URL `http://b.server/canon`, path part `/alias` and the query string
`z|/alias`, the final text is `f"{domain_part}|{path_part}"` and the assertion fires. (Replayed on the
real code: `Map([Rule("/canon", endpoint="e", subdomain="b"), Rule("/alias", endpoint="e",
subdomain='<any("a", "http://b.server/canon?z"):s>', alias=True)]).bind("server",
subdomain="http://b.server/canon?z", url_scheme="http").match("/alias", query_args="z|/alias")` raises
`AssertionError`, where the model's alias arm has a redirect.) -/
theorem alias_assert_reachable_witness (en va me : Unit) :
    make_alias_redirect_url_str (.ok "http://b.server/canon".toList)
      ("http://b.server/canon?z".toList ++ '|' :: "/alias".toList) en va me "z|/alias".toList
      = .error "AssertionError" := by
  apply make_alias_redirect_url_str_assert
  decide

end Wz.PyFnsEq.RoutingUrl
