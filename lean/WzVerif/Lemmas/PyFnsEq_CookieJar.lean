/-
PyFnsEq_CookieJar — three methods of the test client's `Cookie` dataclass (src/werkzeug/test.py:
`Cookie._matches_request`, `Cookie._should_delete`, `Cookie._storage_key`) *as regenerated from
werkzeug's source* by `tools/py2lean.py` (`Gen/PyFns_CookieJar.lean`, rewritten on every check run:
`cookie_matches_request`, `cookie_should_delete`, `cookie_storage_key`) are equal, for all inputs,
to the hand-written model functions of `Model/CookieJar.lean` (`JarCookie.matchesRequest` with its
halves `domainMatch` / `pathMatch`, `shouldDelete`, `JarCookie.storageKey`) that the C13 theorems
are about. A change of the Python source changes the generated definitions and breaks these
obligations.

How the two sides are related.
* `str.endswith` / `str.startswith` of the prelude are the model's `endsWith` / `List.isPrefixOf`
  (`endswith_eq`, `startswith_eq`); `x.startswith("/")` is the model's test on the first character
  (`startswith_slash_head`).
* `server_name[: -len(domain)]`: for a non-empty domain the negative bound counts from the end
  (`take (len s - len d)`, empty when the domain is longer than the server name); for the empty
  domain `-0` is `0` and `s[:0]` is the empty string. The model has exactly this case distinction
  (`slice_neg_len`).
* `path[len(cpath) - cpath.endswith("/") :]`: the bound is never negative, because `cpath` ends
  with `"/"` only if it is non-empty; so the slice is a plain `drop` (`slice_len_sub_slash`).

Main theorems: `cookie_domain_half_eq`, `cookie_path_half_eq`, `cookie_matches_request_eq`,
`cookie_should_delete_eq`, `cookie_should_delete_jar_eq`, `cookie_storage_key_eq`.
The equalities are exact and hold for all inputs; no input was found on which translation and
model differ, nothing is weakened.
-/
import WzVerif.Gen.PyFns_CookieJar
import WzVerif.Model.CookieJar
import WzVerif.Lemmas.PyFns_Prelude
namespace Wz.PyFnsEq.CookieJar
open Wz Wz.Gen.PyFns_CookieJar

/-! ## helpers (no generated definition involved) -/

/-- the prelude's `s.endswith(t)` is the model's `endsWith s t` -/
theorem endswith_eq (s t : Wz.Cookie.Str) : Pre.endswith s t = Wz.Cookie.endsWith s t := rfl

/-- the prelude's `s.startswith(t)` is `t.isPrefixOf s` -/
theorem startswith_eq (s t : Wz.Cookie.Str) : Pre.startswith s t = t.isPrefixOf s := rfl

/-- `x.startswith("/")` says that the first character of `x` exists and is `/` -/
theorem startswith_slash_head (x : Wz.Cookie.Str) :
    Pre.startswith x ['/'] = (x.head? == some '/') := by
  cases x with
  | nil => rfl
  | cons c t =>
    rw [Pre.startswith_singleton_cons]
    by_cases h : c = '/'
    · subst h; rfl
    · have h1 : ('/' == c) = false := by simpa using fun h' => h h'.symm
      have h2 : ((c :: t).head? == some '/') = false := by simpa using h
      rw [h1, h2]

/-- a string that ends with a one-character suffix is not empty -/
theorem length_pos_of_endsWith_singleton (s : Wz.Cookie.Str) (c : Char)
    (h : Wz.Cookie.endsWith s [c] = true) : 0 < s.length := by
  cases s with
  | nil => simp [Wz.Cookie.endsWith] at h
  | cons x t => simp

/-- `s[: -len(d)]`: everything but the last `len d` characters for a non-empty `d` (nothing when
`d` is longer than `s`), and the empty string for the empty `d` (Python's `s[:-0]` is `s[:0]`) -/
theorem slice_neg_len (s d : Wz.Cookie.Str) :
    Pre.slice s none (some (-(Int.ofNat d.length))) =
      (if d.isEmpty then [] else s.take (s.length - d.length)) := by
  cases d with
  | nil =>
    have : (-(Int.ofNat ([] : Wz.Cookie.Str).length)) = ((0 : Nat) : Int) := by simp
    rw [this, Pre.slice_none_nat]
    simp
  | cons x t =>
    have h := Pre.slice_none_neg s (x :: t).length (by simp)
    simpa using h

/-- `p[len(c) - c.endswith("/") :]`: the lower bound `len(c) - (1 if c ends with "/" else 0)` is
never negative (a string ending with `/` has at least one character), so the slice drops that
many characters -/
theorem slice_len_sub_slash (p c : Wz.Cookie.Str) :
    Pre.slice p (some ((Int.ofNat c.length) - (if Pre.endswith c ['/'] then 1 else 0))) none =
      p.drop (c.length - (if Wz.Cookie.endsWith c ['/'] then 1 else 0)) := by
  rw [endswith_eq]
  by_cases h : Wz.Cookie.endsWith c ['/'] = true
  · have hp := length_pos_of_endsWith_singleton c '/' h
    have : (Int.ofNat c.length - (1 : Int)) = ((c.length - 1 : Nat) : Int) := by
      simp only [Int.ofNat_eq_natCast]; omega
    simp only [h, if_true]
    rw [this, Pre.slice_nat_none]
  · have : (Int.ofNat c.length - (0 : Int)) = ((c.length - 0 : Nat) : Int) := by
      simp only [Int.ofNat_eq_natCast]; omega
    simp only [h]
    rw [if_neg (by simp), if_neg (by simp), this, Pre.slice_nat_none]

/-! ## `Cookie._matches_request` -/

/-- the first conjunct of the translated `_matches_request` (the test on the server name) is the
model's `domainMatch` -/
theorem cookie_domain_half_eq (d : Wz.Cookie.Str) (oo : Bool) (s : Wz.Cookie.Str) :
    ((s == d) || ((!oo) && (Pre.endswith s d) &&
        (Pre.endswith (Pre.slice s none (some (-(Int.ofNat d.length)))) ['.']))) =
      Wz.Cookie.domainMatch d oo s := by
  unfold Wz.Cookie.domainMatch
  rw [slice_neg_len, endswith_eq, endswith_eq]

/-- the second conjunct of the translated `_matches_request` (the test on the request path) is the
model's `pathMatch` -/
theorem cookie_path_half_eq (c p : Wz.Cookie.Str) :
    ((p == c) || ((Pre.startswith p c) &&
        (Pre.startswith (Pre.slice p (some ((Int.ofNat c.length) -
          (if Pre.endswith c ['/'] then 1 else 0))) none) ['/']))) =
      Wz.Cookie.pathMatch c p := by
  unfold Wz.Cookie.pathMatch
  rw [slice_len_sub_slash, startswith_slash_head, startswith_eq]

/-- the translated `Cookie._matches_request`, applied to the domain, origin-only flag and path of a
jar cookie, decides exactly what the model's `matchesRequest` decides, for every server name and
request path -/
theorem cookie_matches_request_eq (c : Wz.Cookie.JarCookie) (serverName reqPath : Wz.Cookie.Str) :
    cookie_matches_request c.domain c.originOnly c.path serverName reqPath =
      c.matchesRequest serverName reqPath := by
  unfold cookie_matches_request Wz.Cookie.JarCookie.matchesRequest
  rw [cookie_domain_half_eq, cookie_path_half_eq]

/-! ## `Cookie._should_delete` -/

/-- the translated `Cookie._should_delete` (max-age is 0, or there is an expiry date whose timestamp
is 0) is the model's `shouldDelete`, for every max-age and expiry timestamp -/
theorem cookie_should_delete_eq (ma ex : Option Int) :
    cookie_should_delete ma ex = Wz.Cookie.shouldDelete ma ex := by
  unfold cookie_should_delete Wz.Cookie.shouldDelete
  cases ex with
  | none => simp
  | some e => simp

/-- the same for the fields of a jar cookie -/
theorem cookie_should_delete_jar_eq (c : Wz.Cookie.JarCookie) :
    cookie_should_delete c.maxAge c.expires = c.shouldDelete :=
  cookie_should_delete_eq c.maxAge c.expires

/-! ## `Cookie._storage_key` -/

/-- the translated `Cookie._storage_key` is the model's key (domain, path, decoded name) -/
theorem cookie_storage_key_eq (c : Wz.Cookie.JarCookie) :
    cookie_storage_key c.domain c.path c.decodedKey = c.storageKey := rfl

end Wz.PyFnsEq.CookieJar
