/-
Helper lemmas for Props/C17T (translated `Accept` / `LanguageAccept` methods against the hand-written
model of `Model/Accept.lean`): facts about the model's selection loop that do not mention the
generated definitions.
-/
import WzVerif.Lemmas.Accept
import WzVerif.Lemmas.PyFns_Prelude
namespace Wz.PyFnsAccept
open Wz Wz.Accept

variable {σ κ : Type} (N : Neg σ κ)

/-- the relation between the model's loop state and the three loop variables of the code -/
def Rel (dflt : Option (List Char)) (st : BestState σ κ) (r : Option (List Char)) (bq : κ) (bs : σ) : Prop :=
  match st with
  | none => r = dflt ∧ N.qle bq N.zero = true
  | some (o, q, s) => r = some o ∧ bq = q ∧ bs = s ∧ N.qle q N.zero = false


theorem bestStep_fst (self : List (List Char × κ)) (st : BestState σ κ) (o : List Char)
    (x : List Char × κ × σ) (h : bestStep N self st o = some x) : x.1 = o ∨ st = some x := by
  unfold bestStep at h
  cases hb : bestSingle N self o with
  | none => rw [hb] at h; right; exact h
  | some m =>
    obtain ⟨ci, q⟩ := m
    rw [hb] at h
    simp only at h
    by_cases hz : N.qle q N.zero = true
    · simp only [hz, if_true] at h; right; exact h
    · simp only [hz, Bool.false_eq_true, if_false] at h
      cases st with
      | none => simp only [Option.some.injEq] at h; left; rw [← h]
      | some s3 =>
        obtain ⟨o', bq, bs⟩ := s3
        simp only at h
        by_cases h1 : (!(N.qle bq q)) = true
        · simp only [h1, if_true] at h; right; exact h
        · simp only [h1, Bool.false_eq_true, if_false] at h
          by_cases h2 : (!(N.qle q bq) || !(N.sle (N.spec ci) bs)) = true
          · simp only [h2, if_true, Option.some.injEq] at h; left; rw [← h]
          · simp only [h2, Bool.false_eq_true, if_false] at h; right; exact h

theorem foldl_bestStep_mem (self : List (List Char × κ)) (L offers : List (List Char))
    (hsub : ∀ o ∈ offers, o ∈ L) :
    ∀ (st : BestState σ κ), (∀ x, st = some x → x.1 ∈ L) →
      ∀ x, offers.foldl (bestStep N self) st = some x → x.1 ∈ L := by
  induction offers with
  | nil => intro st hst x h; exact hst x (by simpa using h)
  | cons o t ih =>
    intro st hst x h
    simp only [List.foldl_cons] at h
    refine ih (fun o' ho' => hsub o' (List.mem_cons_of_mem _ ho')) (bestStep N self st o) ?_ x h
    intro y hy
    rcases bestStep_fst N self st o y hy with h1 | h1
    · rw [h1]; exact hsub o List.mem_cons_self
    · exact hst y h1

theorem bestMatch_mem (self : List (List Char × κ)) (offers : List (List Char)) (r : List Char)
    (h : bestMatch N self offers = some r) : r ∈ offers := by
  unfold bestMatch at h
  cases hf : List.foldl (bestStep N self) none offers with
  | none => simp [hf] at h
  | some x =>
    rw [hf] at h
    simp only [Option.map_some, Option.some.injEq] at h
    rw [← h]
    exact foldl_bestStep_mem N self offers offers (fun _ h => h) none (fun _ h => by cases h) x hf

theorem mem_zip_map {α β : Type} (f : α → β) (l : List α) (x : α) (h : x ∈ l) :
    (x, f x) ∈ l.zip (l.map f) := by
  induction l with
  | nil => cases h
  | cons a t ih =>
    rcases List.mem_cons.mp h with rfl | h
    · simp
    · simp only [List.map_cons, List.zip_cons_cons, List.mem_cons]; right; exact ih h

theorem lang_filter_eq (self : List (List Char × Q)) (offers : List (List Char)) (p : List Char → Bool)
    (hp : ∀ o, p o = (match bestSingle langNeg self o with
        | none => true
        | some (_, q) => !(Q.le q Q.zero))) :
    offers.filter p = langNotRefused self offers := by
  unfold langNotRefused
  congr 1
  funext o
  exact hp o

end Wz.PyFnsAccept
