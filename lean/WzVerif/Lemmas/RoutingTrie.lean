/-
Routing lemmas, part 1: the trie (`State`) — induction principle, what it stores (`InTrie`),
well-formedness (`WF`: static keys are distinct, the dynamic list holds dynamic parts only), and
how `add`, `update` and `buildRoot` act on both.
-/
import WzVerif.Model.RoutingSpec
namespace Wz.Routing
open State

/-! ### induction over the nested trie -/

mutual
theorem State.induct_aux {P : State → Prop}
    (h : ∀ rs ss ds, (∀ k s, (k, s) ∈ ss → P s) → (∀ p s, (p, s) ∈ ds → P s) → P (.node rs ss ds)) :
    ∀ st, P st
  | .node rs ss ds => h rs ss ds (State.induct_auxS h ss) (State.induct_auxD h ds)
theorem State.induct_auxS {P : State → Prop}
    (h : ∀ rs ss ds, (∀ k s, (k, s) ∈ ss → P s) → (∀ p s, (p, s) ∈ ds → P s) → P (.node rs ss ds)) :
    ∀ (ss : List (Str × State)) k s, (k, s) ∈ ss → P s
  | [], _, _, hm => by cases hm
  | (k', s') :: t, k, s, hm => by
    rcases List.mem_cons.1 hm with heq | hm
    · cases heq; exact State.induct_aux h s'
    · exact State.induct_auxS h t k s hm
theorem State.induct_auxD {P : State → Prop}
    (h : ∀ rs ss ds, (∀ k s, (k, s) ∈ ss → P s) → (∀ p s, (p, s) ∈ ds → P s) → P (.node rs ss ds)) :
    ∀ (ds : List (Part × State)) p s, (p, s) ∈ ds → P s
  | [], _, _, hm => by cases hm
  | (p', s') :: t, p, s, hm => by
    rcases List.mem_cons.1 hm with heq | hm
    · cases heq; exact State.induct_aux h s'
    · exact State.induct_auxD h t p s hm
end

/-- structural induction on a state: the children are the states reachable through `statics` / `dynamics` -/
@[elab_as_elim]
theorem State.induct {P : State → Prop} (st : State)
    (h : ∀ rs ss ds, (∀ k s, (k, s) ∈ ss → P s) → (∀ p s, (p, s) ∈ ds → P s) → P (.node rs ss ds)) : P st :=
  State.induct_aux h st

/-! ### what a trie stores -/

def Part.isDyn : Part → Bool
  | .dyn .. => true
  | .static _ => false

/-- rule `r` is stored in the state reached from `st` along the parts `ps` -/
inductive InTrie : State → List Part → Rule → Prop
  | here {rs ss ds r} : r ∈ rs → InTrie (.node rs ss ds) [] r
  | viaStatic {rs ss ds k s ps r} : (k, s) ∈ ss → InTrie s ps r → InTrie (.node rs ss ds) (.static k :: ps) r
  | viaDyn {rs ss ds p s ps r} : (p, s) ∈ ds → p.isDyn = true → InTrie s ps r → InTrie (.node rs ss ds) (p :: ps) r

theorem InTrie.nil_iff {rs ss ds r} : InTrie (.node rs ss ds) [] r ↔ r ∈ rs := by
  constructor
  · intro h; cases h; assumption
  · exact InTrie.here

/-- well-formed: static keys pairwise distinct, dynamic entries are dynamic parts, recursively -/
inductive WF : State → Prop
  | node {rs ss ds} : (ss.map (·.1)).Nodup → (ds.map (·.1)).Nodup → (∀ p s, (p, s) ∈ ds → p.isDyn = true) →
      (∀ k s, (k, s) ∈ ss → WF s) → (∀ p s, (p, s) ∈ ds → WF s) → WF (.node rs ss ds)

theorem WF.empty : WF State.empty :=
  .node (by simp) (by simp) (by intro _ _ h; cases h) (by intro _ _ h; cases h) (by intro _ _ h; cases h)

theorem lookupStatic_of_mem {ss : List (Str × State)} {k s} (hnd : (ss.map (·.1)).Nodup) (hm : (k, s) ∈ ss) :
    lookupStatic k ss = some s := by
  induction ss with
  | nil => cases hm
  | cons x t ih =>
    obtain ⟨k', s'⟩ := x
    simp only [List.map_cons, List.nodup_cons] at hnd
    rcases List.mem_cons.1 hm with heq | hm
    · cases heq; simp [lookupStatic]
    · have hne : k' ≠ k := by
        intro h; subst h
        exact hnd.1 (List.mem_map.2 ⟨(k', s), hm, rfl⟩)
      simp [lookupStatic, hne, ih hnd.2 hm]

theorem mem_of_lookupStatic {ss : List (Str × State)} {k s} (h : lookupStatic k ss = some s) : (k, s) ∈ ss := by
  induction ss with
  | nil => simp [lookupStatic] at h
  | cons x t ih =>
    obtain ⟨k', s'⟩ := x
    simp only [lookupStatic] at h
    split at h
    · rename_i hk
      have : k' = k := by simpa using hk
      subst this; cases h; simp
    · exact List.mem_cons_of_mem _ (ih h)

/-! ### association lists with distinct keys, `updAssoc` -/

def lookupA {κ} [DecidableEq κ] (k : κ) : List (κ × State) → Option State
  | [] => none
  | (k', s) :: t => if k' = k then some s else lookupA k t

theorem lookupStatic_eq (k : Str) (ss : List (Str × State)) : lookupStatic k ss = lookupA k ss := by
  induction ss with
  | nil => rfl
  | cons x t ih => obtain ⟨k', s⟩ := x; simp [lookupStatic, lookupA, ih]

theorem lookupA_of_mem {κ} [DecidableEq κ] {l : List (κ × State)} {k s} (hnd : (l.map (·.1)).Nodup) (hm : (k, s) ∈ l) :
    lookupA k l = some s := by
  induction l with
  | nil => cases hm
  | cons x t ih =>
    obtain ⟨k', s'⟩ := x
    simp only [List.map_cons, List.nodup_cons] at hnd
    rcases List.mem_cons.1 hm with heq | hm
    · cases heq; simp [lookupA]
    · have hne : k' ≠ k := by
        intro h; subst h
        exact hnd.1 (List.mem_map.2 ⟨(k', s), hm, rfl⟩)
      simp [lookupA, hne, ih hnd.2 hm]

theorem mem_of_lookupA {κ} [DecidableEq κ] {l : List (κ × State)} {k s} (h : lookupA k l = some s) : (k, s) ∈ l := by
  induction l with
  | nil => simp [lookupA] at h
  | cons x t ih =>
    obtain ⟨k', s'⟩ := x
    simp only [lookupA] at h
    split at h
    · rename_i hk; subst hk; cases h; simp
    · exact List.mem_cons_of_mem _ (ih h)

theorem lookupA_none {κ} [DecidableEq κ] {l : List (κ × State)} {k} (h : lookupA k l = none) : ∀ s, (k, s) ∉ l := by
  induction l with
  | nil => simp
  | cons x t ih =>
    obtain ⟨k', s'⟩ := x
    simp only [lookupA] at h
    split at h
    · cases h
    · rename_i hk
      intro s hm
      rcases List.mem_cons.1 hm with heq | hm
      · cases heq; exact hk rfl
      · exact ih h s hm

theorem keys_updAssoc {κ} [BEq κ] [LawfulBEq κ] [DecidableEq κ] (k : κ) (f : State → State) (l : List (κ × State)) :
    (updAssoc k f l).map (·.1) = if k ∈ l.map (·.1) then l.map (·.1) else l.map (·.1) ++ [k] := by
  induction l with
  | nil => simp [updAssoc]
  | cons x t ih =>
    obtain ⟨k', s⟩ := x
    by_cases hk : k' = k
    · subst hk; simp [updAssoc]
    · have hk' : ¬ k = k' := fun h => hk h.symm
      simp only [updAssoc, beq_iff_eq, hk, if_false, List.map_cons, ih, List.mem_cons, hk', false_or]
      split <;> simp

theorem nodup_keys_updAssoc {κ} [BEq κ] [LawfulBEq κ] [DecidableEq κ] {k : κ} {f : State → State} {l : List (κ × State)}
    (h : (l.map (·.1)).Nodup) : ((updAssoc k f l).map (·.1)).Nodup := by
  rw [keys_updAssoc]
  split
  · exact h
  · rename_i hk
    exact List.nodup_append.2 ⟨h, by simp, by
      intro a ha b hb
      simp at hb; subst hb
      intro hab; subst hab; exact hk ha⟩

theorem mem_updAssoc {κ} [BEq κ] [LawfulBEq κ] [DecidableEq κ] {k : κ} {f : State → State} {l : List (κ × State)}
    (hnd : (l.map (·.1)).Nodup) {k' s'} :
    (k', s') ∈ updAssoc k f l ↔
      (k' ≠ k ∧ (k', s') ∈ l) ∨ (k' = k ∧ s' = f ((lookupA k l).getD State.empty)) := by
  induction l with
  | nil =>
    simp only [updAssoc, List.mem_singleton, Prod.mk.injEq, lookupA, Option.getD_none]
    constructor
    · rintro ⟨h1, h2⟩; exact .inr ⟨h1, h2⟩
    · rintro (⟨_, h⟩ | h)
      · cases h
      · exact h
  | cons x t ih =>
    obtain ⟨k1, s1⟩ := x
    simp only [List.map_cons, List.nodup_cons] at hnd
    by_cases hk : k1 = k
    · subst hk
      simp only [updAssoc, beq_self_eq_true, if_true, List.mem_cons, Prod.mk.injEq, lookupA, Option.getD_some]
      constructor
      · rintro (⟨h1, h2⟩ | hm)
        · exact .inr ⟨h1, h2⟩
        · have : k' ≠ k1 := by
            intro h; subst h
            exact hnd.1 (List.mem_map.2 ⟨(k', s'), hm, rfl⟩)
          exact .inl ⟨this, .inr hm⟩
      · rintro (⟨hne, (⟨h1, _⟩ | hm)⟩ | ⟨h1, h2⟩)
        · exact absurd h1 hne
        · exact .inr hm
        · exact .inl ⟨h1, h2⟩
    · simp only [updAssoc, beq_iff_eq, hk, if_false, List.mem_cons, Prod.mk.injEq, lookupA, ih hnd.2]
      constructor
      · rintro (⟨h1, h2⟩ | ⟨hne, hm⟩ | ⟨he, hs⟩)
        · subst h1 h2; exact .inl ⟨hk, .inl ⟨rfl, rfl⟩⟩
        · exact .inl ⟨hne, .inr hm⟩
        · exact .inr ⟨he, hs⟩
      · rintro (⟨hne, (⟨h1, h2⟩ | hm)⟩ | ⟨he, hs⟩)
        · exact .inl ⟨h1, h2⟩
        · exact .inr (.inl ⟨hne, hm⟩)
        · exact .inr (.inr ⟨he, hs⟩)


/-! ### `add` -/

theorem InTrie.not_empty {ps r} : ¬ InTrie State.empty ps r := by
  intro h
  cases h with
  | here h => cases h
  | viaStatic h _ => cases h
  | viaDyn h _ _ => cases h

theorem add_nil (r : Rule) (rs ss ds) : State.add [] r (.node rs ss ds) = .node (rs ++ [r]) ss ds := by
  simp [State.add]

theorem add_static (c : Str) (ps : List Part) (r : Rule) (rs ss ds) :
    State.add (.static c :: ps) r (.node rs ss ds) = .node rs (updAssoc c (State.add ps r) ss) ds := by
  simp [State.add]

theorem add_dyn (pre kind post final suffixed w) (ps : List Part) (r : Rule) (rs ss ds) :
    State.add (.dyn pre kind post final suffixed w :: ps) r (.node rs ss ds) =
      .node rs ss (updAssoc (.dyn pre kind post final suffixed w) (State.add ps r) ds) := by
  simp [State.add]

theorem WF.add {ps : List Part} {r : Rule} : ∀ {st : State}, WF st → WF (State.add ps r st) := by
  induction ps with
  | nil =>
    intro st h
    cases h with
    | node h1 h2 h3 h4 h5 => rw [add_nil]; exact .node h1 h2 h3 h4 h5
  | cons p ps ih =>
    intro st h
    cases h with
    | @node rs ss ds h1 h2 h3 h4 h5 =>
      cases p with
      | static c =>
        rw [add_static]
        refine .node (nodup_keys_updAssoc h1) h2 h3 ?_ h5
        intro k s hm
        rcases (mem_updAssoc h1).1 hm with ⟨_, hm⟩ | ⟨_, hs⟩
        · exact h4 k s hm
        · subst hs
          apply ih
          cases hl : lookupA c ss with
          | none => exact WF.empty
          | some s0 => exact h4 c s0 (mem_of_lookupA hl)
      | dyn pre kind post final suffixed w =>
        rw [add_dyn]
        refine .node h1 (nodup_keys_updAssoc h2) ?_ h4 ?_
        · intro p s hm
          rcases (mem_updAssoc h2).1 hm with ⟨_, hm⟩ | ⟨hp, _⟩
          · exact h3 p s hm
          · subst hp; rfl
        · intro p s hm
          rcases (mem_updAssoc h2).1 hm with ⟨_, hm⟩ | ⟨_, hs⟩
          · exact h5 p s hm
          · subst hs
            apply ih
            cases hl : lookupA _ ds with
            | none => exact WF.empty
            | some s0 => exact h5 _ s0 (mem_of_lookupA hl)

theorem inTrie_add {ps : List Part} {r : Rule} : ∀ {st : State}, WF st → ∀ {ps' r'},
    (InTrie (State.add ps r st) ps' r' ↔ InTrie st ps' r' ∨ (r' = r ∧ ps' = ps)) := by
  induction ps with
  | nil =>
    intro st h ps' r'
    cases st with
    | node rs ss ds =>
      rw [add_nil]
      constructor
      · intro hi
        cases hi with
        | here hm =>
          rcases List.mem_append.1 hm with hm | hm
          · exact .inl (.here hm)
          · simp at hm; exact .inr ⟨hm, rfl⟩
        | viaStatic hm hi => exact .inl (.viaStatic hm hi)
        | viaDyn hm hd hi => exact .inl (.viaDyn hm hd hi)
      · rintro (hi | ⟨rfl, rfl⟩)
        · cases hi with
          | here hm => exact .here (List.mem_append_left _ hm)
          | viaStatic hm hi => exact .viaStatic hm hi
          | viaDyn hm hd hi => exact .viaDyn hm hd hi
        · exact .here (by simp)
  | cons p ps ih =>
    intro st h ps' r'
    cases h with
    | @node rs ss ds h1 h2 h3 h4 h5 =>
      cases p with
      | static c =>
        rw [add_static]
        have hchild : WF ((lookupA c ss).getD State.empty) := by
          cases hl : lookupA c ss with
          | none => exact WF.empty
          | some s0 => exact h4 c s0 (mem_of_lookupA hl)
        constructor
        · intro hi
          cases hi with
          | here hm => exact .inl (.here hm)
          | viaDyn hm hd hi => exact .inl (.viaDyn hm hd hi)
          | @viaStatic _ _ _ k s ps'' _ hm hi =>
            rcases (mem_updAssoc h1).1 hm with ⟨_, hm⟩ | ⟨hk, hs⟩
            · exact .inl (.viaStatic hm hi)
            · subst hk hs
              rcases (ih hchild).1 hi with hi | ⟨rfl, rfl⟩
              · cases hl : lookupA k ss with
                | none => rw [hl] at hi; exact absurd hi InTrie.not_empty
                | some s0 => rw [hl] at hi; exact .inl (.viaStatic (mem_of_lookupA hl) hi)
              · exact .inr ⟨rfl, rfl⟩
        · rintro (hi | ⟨rfl, rfl⟩)
          · cases hi with
            | here hm => exact .here hm
            | viaDyn hm hd hi => exact .viaDyn hm hd hi
            | @viaStatic _ _ _ k s ps'' _ hm hi =>
              by_cases hk : k = c
              · subst hk
                have hl := lookupA_of_mem h1 hm
                refine .viaStatic ((mem_updAssoc h1).2 (.inr ⟨rfl, rfl⟩)) ?_
                rw [hl]
                exact (ih (h4 k s hm)).2 (.inl hi)
              · exact .viaStatic ((mem_updAssoc h1).2 (.inl ⟨hk, hm⟩)) hi
          · refine .viaStatic ((mem_updAssoc h1).2 (.inr ⟨rfl, rfl⟩)) ?_
            exact (ih hchild).2 (.inr ⟨rfl, rfl⟩)
      | dyn pre kind post final suffixed w =>
        rw [add_dyn]
        have hchild : WF ((lookupA (Part.dyn pre kind post final suffixed w) ds).getD State.empty) := by
          cases hl : lookupA (Part.dyn pre kind post final suffixed w) ds with
          | none => exact WF.empty
          | some s0 => exact h5 _ s0 (mem_of_lookupA hl)
        constructor
        · intro hi
          cases hi with
          | here hm => exact .inl (.here hm)
          | viaStatic hm hi => exact .inl (.viaStatic hm hi)
          | @viaDyn _ _ _ p' s ps'' _ hm hd hi =>
            rcases (mem_updAssoc h2).1 hm with ⟨_, hm⟩ | ⟨hk, hs⟩
            · exact .inl (.viaDyn hm hd hi)
            · subst hk hs
              rcases (ih hchild).1 hi with hi | ⟨rfl, rfl⟩
              · cases hl : lookupA (Part.dyn pre kind post final suffixed w) ds with
                | none => rw [hl] at hi; exact absurd hi InTrie.not_empty
                | some s0 => rw [hl] at hi; exact .inl (.viaDyn (mem_of_lookupA hl) hd hi)
              · exact .inr ⟨rfl, rfl⟩
        · rintro (hi | ⟨rfl, rfl⟩)
          · cases hi with
            | here hm => exact .here hm
            | viaStatic hm hi => exact .viaStatic hm hi
            | @viaDyn _ _ _ p' s ps'' _ hm hd hi =>
              by_cases hk : p' = Part.dyn pre kind post final suffixed w
              · subst hk
                have hl := lookupA_of_mem h2 hm
                refine .viaDyn ((mem_updAssoc h2).2 (.inr ⟨rfl, rfl⟩)) rfl ?_
                rw [hl]
                exact (ih (h5 _ s hm)).2 (.inl hi)
              · exact .viaDyn ((mem_updAssoc h2).2 (.inl ⟨hk, hm⟩)) hd hi
          · refine .viaDyn ((mem_updAssoc h2).2 (.inr ⟨rfl, rfl⟩)) rfl ?_
            exact (ih hchild).2 (.inr ⟨rfl, rfl⟩)

end Wz.Routing
