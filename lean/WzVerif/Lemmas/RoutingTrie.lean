/-
Routing lemmas, part 1: the trie (`State`) — induction principle, what it stores (`InTrie`),
well-formedness (`WF`: static keys are distinct, the dynamic list holds dynamic parts only), and
how `add`, `update` and `buildRoot` act on both.
-/
import WzVerif.Model.RoutingSpec
namespace Wz.Routing
open State

/-! ### induction over the nested trie -/

mutual
theorem State.induct_aux {P : State → Prop}
    (h : ∀ rs ss ds, (∀ k s, (k, s) ∈ ss → P s) → (∀ p s, (p, s) ∈ ds → P s) → P (.node rs ss ds)) :
    ∀ st, P st
  | .node rs ss ds => h rs ss ds (State.induct_auxS h ss) (State.induct_auxD h ds)
theorem State.induct_auxS {P : State → Prop}
    (h : ∀ rs ss ds, (∀ k s, (k, s) ∈ ss → P s) → (∀ p s, (p, s) ∈ ds → P s) → P (.node rs ss ds)) :
    ∀ (ss : List (Str × State)) k s, (k, s) ∈ ss → P s
  | [], _, _, hm => by cases hm
  | (k', s') :: t, k, s, hm => by
    rcases List.mem_cons.1 hm with heq | hm
    · cases heq; exact State.induct_aux h s'
    · exact State.induct_auxS h t k s hm
theorem State.induct_auxD {P : State → Prop}
    (h : ∀ rs ss ds, (∀ k s, (k, s) ∈ ss → P s) → (∀ p s, (p, s) ∈ ds → P s) → P (.node rs ss ds)) :
    ∀ (ds : List (Part × State)) p s, (p, s) ∈ ds → P s
  | [], _, _, hm => by cases hm
  | (p', s') :: t, p, s, hm => by
    rcases List.mem_cons.1 hm with heq | hm
    · cases heq; exact State.induct_aux h s'
    · exact State.induct_auxD h t p s hm
end

/-- structural induction on a state: the children are the states reachable through `statics` / `dynamics` -/
@[elab_as_elim]
theorem State.induct {P : State → Prop} (st : State)
    (h : ∀ rs ss ds, (∀ k s, (k, s) ∈ ss → P s) → (∀ p s, (p, s) ∈ ds → P s) → P (.node rs ss ds)) : P st :=
  State.induct_aux h st

/-! ### what a trie stores -/

def Part.isDyn : Part → Bool
  | .dyn .. => true
  | .static _ => false

/-- rule `r` is stored in the state reached from `st` along the parts `ps` -/
inductive InTrie : State → List Part → Rule → Prop
  | here {rs ss ds r} : r ∈ rs → InTrie (.node rs ss ds) [] r
  | viaStatic {rs ss ds k s ps r} : (k, s) ∈ ss → InTrie s ps r → InTrie (.node rs ss ds) (.static k :: ps) r
  | viaDyn {rs ss ds p s ps r} : (p, s) ∈ ds → p.isDyn = true → InTrie s ps r → InTrie (.node rs ss ds) (p :: ps) r

theorem InTrie.nil_iff {rs ss ds r} : InTrie (.node rs ss ds) [] r ↔ r ∈ rs := by
  constructor
  · intro h; cases h; assumption
  · exact InTrie.here

/-- well-formed: static keys pairwise distinct, dynamic entries are dynamic parts, recursively -/
inductive WF : State → Prop
  | node {rs ss ds} : (ss.map (·.1)).Nodup → (∀ p s, (p, s) ∈ ds → p.isDyn = true) →
      (∀ k s, (k, s) ∈ ss → WF s) → (∀ p s, (p, s) ∈ ds → WF s) → WF (.node rs ss ds)

theorem WF.empty : WF State.empty :=
  .node (by simp) (by intro _ _ h; cases h) (by intro _ _ h; cases h) (by intro _ _ h; cases h)

theorem lookupStatic_of_mem {ss : List (Str × State)} {k s} (hnd : (ss.map (·.1)).Nodup) (hm : (k, s) ∈ ss) :
    lookupStatic k ss = some s := by
  induction ss with
  | nil => cases hm
  | cons x t ih =>
    obtain ⟨k', s'⟩ := x
    simp only [List.map_cons, List.nodup_cons] at hnd
    rcases List.mem_cons.1 hm with heq | hm
    · cases heq; simp [lookupStatic]
    · have hne : k' ≠ k := by
        intro h; subst h
        exact hnd.1 (List.mem_map.2 ⟨(k', s), hm, rfl⟩)
      simp [lookupStatic, hne, ih hnd.2 hm]

theorem mem_of_lookupStatic {ss : List (Str × State)} {k s} (h : lookupStatic k ss = some s) : (k, s) ∈ ss := by
  induction ss with
  | nil => simp [lookupStatic] at h
  | cons x t ih =>
    obtain ⟨k', s'⟩ := x
    simp only [lookupStatic] at h
    split at h
    · rename_i hk
      have : k' = k := by simpa using hk
      subst this; cases h; simp
    · exact List.mem_cons_of_mem _ (ih h)

/-! ### `updAssoc` -/

theorem mem_updAssoc {κ} [DecidableEq κ] {k : κ} {f : State → State} {l : List (κ × State)} {k' s'} :
    (k', s') ∈ updAssoc k f l →
      ((k', s') ∈ l ∧ k' ≠ k) ∨ (k' = k ∧ ∃ s, (((k, s) ∈ l) ∨ (s = State.empty ∧ ∀ x, (k, x) ∉ l)) ∧ s' = f s) ∨ ((k', s') ∈ l ∧ k' = k) := by
  induction l with
  | nil =>
    intro h
    simp only [updAssoc, List.mem_singleton, Prod.mk.injEq] at h
    exact .inr (.inl ⟨h.1, State.empty, .inr ⟨rfl, by simp⟩, h.2⟩)
  | cons x t ih =>
    obtain ⟨k1, s1⟩ := x
    intro h
    simp only [updAssoc] at h
    split at h
    · rename_i hk
      have hk : k1 = k := by simpa using hk
      subst hk
      rcases List.mem_cons.1 h with heq | hm
      · cases heq
        exact .inr (.inl ⟨rfl, s1, .inl (by simp), rfl⟩)
      · by_cases hkk : k' = k1
        · exact .inr (.inr ⟨List.mem_cons_of_mem _ hm, hkk⟩)
        · exact .inl ⟨List.mem_cons_of_mem _ hm, hkk⟩
    · rename_i hk
      have hk : k1 ≠ k := by simpa using hk
      rcases List.mem_cons.1 h with heq | hm
      · cases heq
        exact .inl ⟨by simp, hk⟩
      · rcases ih hm with ⟨hm', hne⟩ | ⟨he, s, hs, hs'⟩ | ⟨hm', he⟩
        · exact .inl ⟨List.mem_cons_of_mem _ hm', hne⟩
        · refine .inr (.inl ⟨he, s, ?_, hs'⟩)
          rcases hs with hs | ⟨hs, hall⟩
          · exact .inl (List.mem_cons_of_mem _ hs)
          · refine .inr ⟨hs, ?_⟩
            intro x hx
            rcases List.mem_cons.1 hx with heq | hx
            · cases heq; exact hk rfl
            · exact hall x hx
        · exact .inr (.inr ⟨List.mem_cons_of_mem _ hm', he⟩)

end Wz.Routing
