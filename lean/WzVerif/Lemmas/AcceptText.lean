/-
C17, header-text level: the lexer (`parse_list_header`, `parse_options_header`,
`dump_options_header`) on the property's grammar of Accept-style headers —
comma-separated elements `value(;key=token)*(;q=token)?`. Core Lean only.
-/
import WzVerif.Lemmas.Accept
namespace Wz.Accept
open Wz

/-! ### parameter keys -/

/-- a parameter key as clients write it: lower-case ASCII letters -/
def IsKey (k : Str) : Prop := k ≠ [] ∧ ∀ c ∈ k, c.isLower = true

theorem lower_isTokChar {c : Char} (h : c.isLower = true) : isTokChar c = true := by
  simp [isTokChar, Char.isAlphanum, Char.isAlpha, h]

theorem lower_range {c : Char} (h : c.isLower = true) : 97 ≤ c.toNat ∧ c.toNat ≤ 122 := by
  simp only [Char.isLower, Bool.and_eq_true, decide_eq_true_eq] at h
  have h1 : (97 : UInt32) ≤ c.val := h.1
  have h2 : c.val ≤ (122 : UInt32) := h.2
  rw [UInt32.le_iff_toNat_le] at h1 h2
  exact ⟨h1, h2⟩

theorem lower_toLower {c : Char} (h : c.isLower = true) : c.toLower = c := by
  have hr := lower_range h
  simp only [Char.toLower]
  split
  · rename_i hc
    have h2 : c.val ≤ (90 : UInt32) := hc.2
    rw [UInt32.le_iff_toNat_le] at h2
    have : c.val.toNat = c.toNat := rfl
    have : (90 : UInt32).toNat = 90 := rfl
    omega
  · rfl

theorem IsKey.token {k : Str} (h : IsKey k) : IsToken k := ⟨h.1, fun c hc => lower_isTokChar (h.2 c hc)⟩

theorem IsKey.lower {k : Str} (h : IsKey k) : lowerA k = k := by
  unfold lowerA
  have : ∀ (l : Str), (∀ c ∈ l, c.isLower = true) → l.map Char.toLower = l := by
    intro l
    induction l with
    | nil => intro _; rfl
    | cons a t ih =>
      intro hl
      simp only [List.map_cons]
      rw [lower_toLower (hl a (by simp)), ih (fun c hc => hl c (by simp [hc]))]
  exact this k h.2

theorem IsKey.concat {k : Str} (h : IsKey k) : ∃ init last, k = init ++ [last] ∧ last.isLower = true := by
  have hne := h.1
  refine ⟨k.dropLast, k.getLast hne, (List.dropLast_concat_getLast hne).symm, ?_⟩
  exact h.2 _ (List.getLast_mem hne)

theorem IsKey.noStar {k : Str} (h : IsKey k) : (k.getLast? == some '*') = false := by
  obtain ⟨init, last, rfl, hl⟩ := h.concat
  have : last ≠ '*' := by
    intro e; subst e; revert hl; decide
  simp [this]

theorem IsKey.noContinuation {k : Str} (h : IsKey k) : continuationBase k = none := by
  obtain ⟨init, last, rfl, hl⟩ := h.concat
  have hd : isDigitA last = false := by
    have hr := lower_range hl
    simp only [isDigitA, Bool.and_eq_false_iff, decide_eq_false_iff_not]
    right
    intro hc
    have : last.toNat ≤ 57 := hc
    omega
  simp [continuationBase, hd]

/-! ### parameters -/

abbrev Param := Str × Str

/-- `;key=value` for every parameter -/
def semiParams (l : List Param) : Str := l.flatMap fun p => ';' :: (p.1 ++ '=' :: p.2)

/-- keys and values are tokens -/
def TokParams (l : List Param) : Prop := ∀ p ∈ l, IsToken p.1 ∧ IsToken p.2

theorem semiParams_head (l : List Param) : l ≠ [] → ∃ t, semiParams l = ';' :: t := by
  intro h
  cases l with
  | nil => exact absurd rfl h
  | cons p t => exact ⟨_, by simp only [semiParams, List.flatMap_cons, List.cons_append]; rfl⟩

theorem paramParts_list (l : List Param) (k val : Str) (hk : IsToken k) (hv : IsToken val)
    (hl : TokParams l) (fuel : Nat) (hf : l.length ≤ fuel) :
    paramParts (fuel + 1) (k ++ '=' :: (val ++ semiParams l)) =
      (lowerA k, val) :: l.map fun p => (lowerA p.1, p.2) := by
  induction l generalizing k val fuel with
  | nil =>
    have he : isTokChar '=' = false := by decide
    have e0 : semiParams ([] : List Param) = [] := rfl
    rw [e0, List.append_nil]
    have tk := takeWhile_all_then (p := isTokChar) k '=' val hk.2 he
    have tv := takeWhile_all (p := isTokChar) val hv.2
    have hke : k.isEmpty = false := by
      cases k with
      | nil => exact absurd rfl hk.1
      | cons _ _ => rfl
    have hve : val.isEmpty = false := by
      cases val with
      | nil => exact absurd rfl hv.1
      | cons _ _ => rfl
    have hns : val.contains ';' = false := by
      simp only [List.contains_eq_mem, decide_eq_false_iff_not]
      intro hm
      have := hv.2 ';' hm
      revert this; decide
    rw [paramParts]
    simp only [tk.1, tk.2, hke, Bool.not_false, List.head?_cons, BEq.rfl, Bool.and_self, ↓reduceIte,
      List.drop_succ_cons, List.drop_zero, tv.1, hve, hns, Bool.false_eq_true, List.map_nil]
  | cons p rest ih =>
    have he : isTokChar '=' = false := by decide
    have hs : isTokChar ';' = false := by decide
    have e : semiParams (p :: rest) = ';' :: (p.1 ++ '=' :: (p.2 ++ semiParams rest)) := by
      simp [semiParams]
    have tk := takeWhile_all_then (p := isTokChar) k '=' (val ++ semiParams (p :: rest)) hk.2 he
    rw [e] at tk
    have tv := takeWhile_all_then (p := isTokChar) val ';' (p.1 ++ '=' :: (p.2 ++ semiParams rest)) hv.2 hs
    have hvs : ∀ y ∈ val, (y != ';') = true := by
      intro y hy
      have := (isTokChar_props y (hv.2 y hy)).2.2.2.1
      simpa using this
    have hsemi : ((';' : Char) != ';') = false := by decide
    have dv := takeWhile_all_then (p := fun c => c != ';') val ';' (p.1 ++ '=' :: (p.2 ++ semiParams rest)) hvs hsemi
    have hke : k.isEmpty = false := by
      cases k with
      | nil => exact absurd rfl hk.1
      | cons _ _ => rfl
    have hve : val.isEmpty = false := by
      cases val with
      | nil => exact absurd rfl hv.1
      | cons _ _ => rfl
    have hp := hl p (by simp)
    have hnsp : (p.1 ++ '=' :: (p.2 ++ semiParams rest)).dropWhile Py.isSpace
        = p.1 ++ '=' :: (p.2 ++ semiParams rest) := by
      apply dropWhile_head_false''
      intro c hc
      cases hp1 : p.1 with
      | nil => exact absurd hp1 hp.1.1
      | cons a t =>
        rw [hp1] at hc
        simp only [List.cons_append, List.head?_cons, Option.some.injEq] at hc
        subst hc
        exact (isTokChar_props a (hp.1.2 a (by rw [hp1]; simp))).1
    cases fuel with
    | zero => simp at hf
    | succ f =>
      have ih' := ih p.1 p.2 hp.1 hp.2 (fun q hq => hl q (by simp [hq])) f (by simpa using hf)
      rw [paramParts]
      simp only [e, tk.1, tk.2, hke, Bool.not_false, List.head?_cons, BEq.rfl, Bool.and_self, ↓reduceIte,
        List.drop_succ_cons, List.drop_zero, tv.1, hve]
      have hc : (val ++ ';' :: (p.1 ++ '=' :: (p.2 ++ semiParams rest))).contains ';' = true := by simp
      simp only [hc, ↓reduceIte, dv.2, List.drop_succ_cons, List.drop_zero, hnsp, ih', List.map_cons,
        List.singleton_append]

/-- a parameter that the second loop of `parse_options_header` stores as it is: no RFC 2231
star / continuation key, no quoted value -/
def SimpleParam (p : Param) : Prop :=
  (p.1.getLast? == some '*') = false ∧ continuationBase p.1 = none ∧ (p.2.head? == some '"') = false

theorem dictSet_new (d : List Param) (k v : Str) (h : ∀ a ∈ d, a.1 ≠ k) : dictSet d k v = d ++ [(k, v)] := by
  unfold dictSet
  have : d.any (fun x => x.1 == k) = false := by
    rw [List.any_eq_false]
    intro a ha
    simpa using h a ha
  simp [this]

theorem processParts_simple (l acc : List Param) (hl : ∀ p ∈ l, SimpleParam p)
    (hnd : (l.map (·.1)).Nodup) (hdis : ∀ p ∈ l, ∀ a ∈ acc, a.1 ≠ p.1) :
    processParts l acc = .ok (acc ++ l) := by
  induction l generalizing acc with
  | nil => simp [processParts]
  | cons p t ih =>
    obtain ⟨pk, pv⟩ := p
    have hp := hl (pk, pv) (by simp)
    simp only [List.map_cons, List.nodup_cons] at hnd
    rw [processParts]
    simp only [hp.1, Bool.false_eq_true, ↓reduceIte, hp.2.2, Bool.false_and, hp.2.1]
    rw [dictSet_new acc pk pv (fun a ha => hdis (pk, pv) (by simp) a ha)]
    rw [ih (acc ++ [(pk, pv)]) (fun q hq => hl q (by simp [hq])) hnd.2]
    · simp
    · intro q hq a ha
      rcases List.mem_append.mp ha with ha | ha
      · exact hdis q (by simp [hq]) a ha
      · simp only [List.mem_singleton] at ha
        subst ha
        intro e
        apply hnd.1
        simp only [List.mem_map]
        exact ⟨q, hq, e.symm⟩

theorem token_simple_value {v : Str} (h : IsToken v) : (v.head? == some '"') = false := by
  have : v.head? ≠ some '"' := by
    intro e
    have := h.2 '"' (List.mem_of_mem_head? e)
    revert this; decide
  simpa using this

theorem qKey_isKey : IsKey qKey := by
  refine ⟨by decide, ?_⟩
  intro c hc
  have : c = 'q' := by simpa [qKey] using hc
  subst this
  decide

theorem key_token_simple {p : Param} (hk : IsKey p.1) (hv : IsToken p.2) : SimpleParam p :=
  ⟨hk.noStar, hk.noContinuation, token_simple_value hv⟩

/-! ### header elements -/

/-- one element of an Accept-style header: `value(;key=token)*(;q=token)?` -/
structure Elem where
  v : Str
  ps : List Param
  q : Option Str

/-- the parameters as `parse_options_header` sees them -/
def Elem.opts (e : Elem) : List Param :=
  e.ps ++ (match e.q with
    | none => []
    | some qs => [(qKey, qs)])

/-- the element as header text -/
def Elem.text (e : Elem) : Str := e.v ++ semiParams e.opts

/-- well-formed: the value is made of token characters and `/`, parameter keys are distinct
lower-case words other than `q`, parameter values and the q text are non-empty tokens -/
structure Elem.WF (e : Elem) : Prop where
  value : IsValueText e.v
  params : ∀ p ∈ e.ps, IsKey p.1 ∧ p.1 ≠ qKey ∧ IsToken p.2
  nodup : (e.ps.map (·.1)).Nodup
  qtok : ∀ qs, e.q = some qs → IsToken qs

/-- the item text `parse_accept_header` rebuilds: `value; key=token; …` -/
def Elem.itemText (e : Elem) : Str := e.v ++ e.ps.flatMap fun p => ';' :: ' ' :: (p.1 ++ '=' :: p.2)

/-- what the element contributes to the parsed list -/
def Elem.item (e : Elem) : Option (Str × Q) :=
  match e.q with
  | none => some (e.itemText, Q.one)
  | some qs => (parseQ qs).map fun q => (e.itemText, q)

theorem Elem.WF.opts_ok {e : Elem} (h : e.WF) : ∀ p ∈ e.opts, IsKey p.1 ∧ IsToken p.2 := by
  intro p hp
  unfold Elem.opts at hp
  rcases List.mem_append.mp hp with hp | hp
  · exact ⟨(h.params p hp).1, (h.params p hp).2.2⟩
  · cases hq : e.q with
    | none => rw [hq] at hp; simp at hp
    | some qs =>
      rw [hq] at hp
      simp only [List.mem_singleton] at hp
      subst hp
      exact ⟨qKey_isKey, h.qtok qs hq⟩

theorem Elem.WF.opts_nodup {e : Elem} (h : e.WF) : (e.opts.map (·.1)).Nodup := by
  unfold Elem.opts
  cases hq : e.q with
  | none => simpa using h.nodup
  | some qs =>
    simp only [List.map_append, List.map_cons, List.map_nil]
    rw [List.nodup_append]
    refine ⟨h.nodup, by simp, ?_⟩
    intro a ha b hb
    simp only [List.mem_singleton] at hb
    subst hb
    obtain ⟨p, hp, rfl⟩ := List.mem_map.mp ha
    exact (h.params p hp).2.1

theorem semiParams_length (l : List Param) : l.length ≤ (semiParams l).length := by
  induction l with
  | nil => simp [semiParams]
  | cons p t ih =>
    have e : semiParams (p :: t) = ';' :: (p.1 ++ '=' :: p.2) ++ semiParams t := by simp [semiParams]
    rw [e]
    simp only [List.length_append, List.length_cons]
    omega

theorem semiParams_chars (l : List Param) (hl : ∀ p ∈ l, IsToken p.1 ∧ IsToken p.2) :
    ∀ c ∈ semiParams l, Py.isSpace c = false ∧ c ≠ ',' ∧ c ≠ '"' := by
  intro c hc
  simp only [semiParams, List.mem_flatMap] at hc
  obtain ⟨p, hp, hc⟩ := hc
  simp only [List.mem_cons, List.mem_append] at hc
  rcases hc with rfl | hc | rfl | hc
  · decide
  · have := isTokChar_props c ((hl p hp).1.2 c hc); exact ⟨this.1, this.2.1, this.2.2.1⟩
  · decide
  · have := isTokChar_props c ((hl p hp).2.2 c hc); exact ⟨this.1, this.2.1, this.2.2.1⟩

theorem Elem.WF.text_chars {e : Elem} (h : e.WF) :
    ∀ c ∈ e.text, Py.isSpace c = false ∧ c ≠ ',' ∧ c ≠ '"' := by
  intro c hc
  unfold Elem.text at hc
  rcases List.mem_append.mp hc with hc | hc
  · have := valueChar_props c (h.value.2 c hc); exact ⟨this.1, this.2.1, this.2.2.1⟩
  · exact semiParams_chars _ (fun p hp => ⟨(h.opts_ok p hp).1.token, (h.opts_ok p hp).2⟩) c hc

theorem Elem.WF.text_ne {e : Elem} (h : e.WF) : e.text ≠ [] := by
  unfold Elem.text
  cases hv : e.v with
  | nil => exact absurd hv h.value.1
  | cons _ _ => simp

theorem parseOptionsHeader_elem (e : Elem) (h : e.WF) : parseOptionsHeader e.text = .ok (e.v, e.opts) := by
  have hvs : ∀ c ∈ e.v, (c != ';') = true := by
    intro c hc
    have := (valueChar_props c (h.value.2 c hc)).2.2.2
    simpa using this
  have hsv := strip_noSpace' e.v (fun c hc => (valueChar_props c (h.value.2 c hc)).1)
  have hve : e.v.isEmpty = false := by
    cases hv : e.v with
    | nil => exact absurd hv h.value.1
    | cons _ _ => rfl
  unfold parseOptionsHeader Elem.text
  cases ho : e.opts with
  | nil =>
    have tw := takeWhile_all (p := fun c => c != ';') e.v hvs
    have hs0 : Py.strip [] = [] := by decide
    simp [semiParams, tw.1, tw.2, hsv, hs0]
  | cons p rest =>
    have hok : ∀ x ∈ p :: rest, IsKey x.1 ∧ IsToken x.2 := by rw [← ho]; exact h.opts_ok
    have hnd : ((p :: rest).map (·.1)).Nodup := by rw [← ho]; exact h.opts_nodup
    have e1 : semiParams (p :: rest) = ';' :: (p.1 ++ '=' :: (p.2 ++ semiParams rest)) := by
      simp [semiParams]
    have hsemi : ((';' : Char) != ';') = false := by decide
    have tw := takeWhile_all_then (p := fun c => c != ';') e.v ';' (p.1 ++ '=' :: (p.2 ++ semiParams rest)) hvs hsemi
    have hrest : ∀ c ∈ p.1 ++ '=' :: (p.2 ++ semiParams rest), Py.isSpace c = false := by
      intro c hc
      have : c ∈ semiParams (p :: rest) := by rw [e1]; simp [hc]
      exact (semiParams_chars _ (fun x hx => ⟨(hok x hx).1.token, (hok x hx).2⟩) c this).1
    have hsr := strip_noSpace' _ hrest
    have hne : (p.1 ++ '=' :: (p.2 ++ semiParams rest)).isEmpty = false := by
      cases hp1 : p.1 <;> simp
    have hp := hok p (by simp)
    have hfuel : rest.length ≤ (p.1 ++ '=' :: (p.2 ++ semiParams rest)).length := by
      have := semiParams_length rest
      simp only [List.length_append, List.length_cons]
      omega
    have hpp := paramParts_list rest p.1 p.2 hp.1.token hp.2
      (fun x hx => ⟨(hok x (by simp [hx])).1.token, (hok x (by simp [hx])).2⟩) _ hfuel
    have hlow : (lowerA p.1, p.2) :: rest.map (fun x => (lowerA x.1, x.2)) = p :: rest := by
      rw [hp.1.lower]
      congr 1
      have : ∀ (l : List Param), (∀ x ∈ l, IsKey x.1) → l.map (fun x => (lowerA x.1, x.2)) = l := by
        intro l
        induction l with
        | nil => intro _; rfl
        | cons a t ih =>
          intro hl
          simp only [List.map_cons]
          rw [(hl a (by simp)).lower, ih (fun x hx => hl x (by simp [hx]))]
      exact this rest (fun x hx => (hok x (by simp [hx])).1)
    rw [e1]
    simp only [tw.1, tw.2, List.drop_succ_cons, List.drop_zero, hsv, hsr, hve, hne, Bool.or_self,
      Bool.false_eq_true, ↓reduceIte, hpp, hlow]
    rw [processParts_simple (p :: rest) [] (fun x hx => key_token_simple (hok x hx).1 (hok x hx).2) hnd
      (by intro _ _ a ha; simp at ha)]
    simp

theorem quoteHeaderValue_token {v : Str} (h : IsToken v) : quoteHeaderValue v = v := by
  have hne : v.isEmpty = false := by
    cases v with
    | nil => exact absurd rfl h.1
    | cons _ _ => rfl
  have hall : v.all isTokChar = true := List.all_eq_true.mpr h.2
  simp [quoteHeaderValue, hne, hall]

theorem intercalate_cons (sep a : Str) (l : List Str) :
    sep.intercalate (a :: l) = a ++ l.flatMap (fun x => sep ++ x) := by
  induction l generalizing a with
  | nil => simp [List.intercalate]
  | cons b t ih =>
    have := ih b
    simp only [List.intercalate, List.intersperse_cons_cons, List.flatten_cons, List.flatMap_cons] at this ⊢
    rw [this]
    simp

theorem dumpOptionsHeader_params (v : Str) (ps : List Param)
    (h : ∀ p ∈ ps, IsKey p.1 ∧ IsToken p.2) :
    dumpOptionsHeader v ps = v ++ ps.flatMap fun p => ';' :: ' ' :: (p.1 ++ '=' :: p.2) := by
  unfold dumpOptionsHeader
  rw [intercalate_cons]
  congr 1
  induction ps with
  | nil => rfl
  | cons p t ih =>
    have hp := h p (by simp)
    simp only [List.map_cons, List.flatMap_cons]
    rw [ih (fun x hx => h x (by simp [hx]))]
    simp [hp.1.noStar, quoteHeaderValue_token hp.2]

theorem acceptItem_elem (e : Elem) (h : e.WF) : acceptItem e.v e.opts = e.item := by
  have hps : ∀ p ∈ e.ps, IsKey p.1 ∧ IsToken p.2 := fun p hp => ⟨(h.params p hp).1, (h.params p hp).2.2⟩
  have hnq : ∀ p ∈ e.ps, (p.1 == qKey) = false := by
    intro p hp
    simpa using (h.params p hp).2.1
  have hfind : e.ps.find? (fun x => x.1 == qKey) = none := by
    rw [List.find?_eq_none]
    intro p hp
    simp [hnq p hp]
  have hfilt : e.ps.filter (fun x => x.1 != qKey) = e.ps := by
    rw [List.filter_eq_self]
    intro p hp
    have := (h.params p hp).2.1
    simpa using this
  have hdump : (if e.ps.isEmpty then e.v else dumpOptionsHeader e.v e.ps) = e.itemText := by
    unfold Elem.itemText
    cases hp : e.ps with
    | nil => simp
    | cons a t =>
      rw [← hp, dumpOptionsHeader_params e.v e.ps hps]
      simp [hp]
  unfold acceptItem Elem.item Elem.opts dictGet
  cases hq : e.q with
  | none =>
    simp only [List.append_nil, hfind, Option.map_none]
    rw [hdump]
  | some qs =>
    have hs : Py.strip qs = qs :=
      strip_noSpace' qs (fun c hc => (isTokChar_props c ((h.qtok qs hq).2 c hc)).1)
    simp only [List.find?_append, hfind, List.find?_cons_of_pos, BEq.rfl, Option.none_or,
      Option.map_some, hs, List.filter_append, hfilt]
    cases parseQ qs with
    | none => rfl
    | some q =>
      simp only [Option.map_some]
      have : List.filter (fun x => x.1 != qKey) [(qKey, qs)] = [] := by simp
      rw [this, List.append_nil, hdump]

/-! ### the whole header -/

/-- elements joined by commas -/
def headerText : List Elem → Str
  | [] => []
  | [e] => e.text
  | e :: rest => e.text ++ ',' :: headerText rest

theorem httpList_comma (x rest part : Str) (h : ∀ c ∈ x, c ≠ ',' ∧ c ≠ '"') :
    httpList (x ++ ',' :: rest) part false false = (part.reverse ++ x) :: httpList rest [] false false := by
  induction x generalizing part with
  | nil => simp [httpList]
  | cons c t ih =>
    have hc := h c (by simp)
    have h1 : (c == ',') = false := by simpa using hc.1
    have h2 : (c == '"') = false := by simpa using hc.2
    simp only [List.cons_append, httpList, Bool.false_eq_true, ↓reduceIte, h1, h2]
    rw [ih (c :: part) (fun y hy => h y (by simp [hy]))]
    simp

theorem httpList_header (es : List Elem) (hne : es ≠ []) (h : ∀ e ∈ es, e.WF) :
    httpList (headerText es) [] false false = es.map Elem.text := by
  induction es with
  | nil => exact absurd rfl hne
  | cons e rest ih =>
    have he := h e (by simp)
    have hch : ∀ c ∈ e.text, c ≠ ',' ∧ c ≠ '"' := fun c hc => ⟨(he.text_chars c hc).2.1, (he.text_chars c hc).2.2⟩
    cases rest with
    | nil =>
      simp only [headerText, List.map_cons, List.map_nil]
      rw [httpList_plain _ [] hch (by simpa using he.text_ne)]
      simp
    | cons e2 rest2 =>
      have : headerText (e :: e2 :: rest2) = e.text ++ ',' :: headerText (e2 :: rest2) := rfl
      rw [this, httpList_comma _ _ [] hch, ih (by simp) (fun x hx => h x (by simp [hx]))]
      simp

theorem parseListHeader_header (es : List Elem) (hne : es ≠ []) (h : ∀ e ∈ es, e.WF) :
    parseListHeader (headerText es) = es.map Elem.text := by
  unfold parseListHeader
  rw [httpList_header es hne h, List.map_map]
  apply List.map_congr_left
  intro e he
  have hw := h e he
  simp only [Function.comp]
  rw [strip_noSpace' _ (fun c hc => (hw.text_chars c hc).1)]
  have hh : e.text.head? ≠ some '"' := by
    intro e'
    exact (hw.text_chars '"' (List.mem_of_mem_head? e')).2.2 rfl
  have : (e.text.head? == some '"') = false := by simpa using hh
  simp [this]

theorem lexHeader_header (es : List Elem) (hne : es ≠ []) (h : ∀ e ∈ es, e.WF) :
    lexHeader (headerText es) = .ok (es.map fun e => (e.v, e.opts)) := by
  unfold lexHeader
  rw [parseListHeader_header es hne h]
  clear hne
  induction es with
  | nil => rfl
  | cons e rest ih =>
    simp only [List.map_cons, List.mapM_cons]
    rw [parseOptionsHeader_elem e (h e (by simp)), ih (fun x hx => h x (by simp [hx]))]
    rfl

/-- `parse_accept_header` on the property's grammar: the list handed to the Accept class is the list
of items of the elements, in header order, without the elements whose q text is invalid -/
theorem parseAcceptRaw_header (es : List Elem) (hne : es ≠ []) (h : ∀ e ∈ es, e.WF) :
    parseAcceptRaw (headerText es) = .ok (es.filterMap Elem.item) := by
  have hte : (headerText es).isEmpty = false := by
    cases es with
    | nil => exact absurd rfl hne
    | cons e rest =>
      have := (h e (by simp)).text_ne
      cases rest with
      | nil => simpa [headerText] using this
      | cons e2 r2 =>
        have e' : headerText (e :: e2 :: r2) = e.text ++ ',' :: headerText (e2 :: r2) := rfl
        rw [e']
        cases ht : e.text <;> simp
  unfold parseAcceptRaw
  simp only [hte, Bool.false_eq_true, ↓reduceIte, lexHeader_header es hne h]
  show Except.ok (acceptItems (es.map fun e => (e.v, e.opts))) = _
  congr 1
  unfold acceptItems
  rw [List.filterMap_map]
  clear hne hte
  induction es with
  | nil => rfl
  | cons e rest ih =>
    simp only [List.filterMap_cons, Function.comp]
    rw [acceptItem_elem e (h e (by simp)), ih (fun x hx => h x (by simp [hx]))]

/-! ### q texts -/

/-- the texts `_q_value_re` (`-?\d+(\.\d+)?`) accepts, with the value they denote, restricted to
what the range check lets through (`0 ≤ q ≤ 1`; a minus sign only in front of zero) -/
def QText (s : Str) (q : Q) : Prop :=
  ∃ (neg : Bool) (ip fr : Str), ip ≠ [] ∧ (∀ c ∈ ip, isDigitA c = true) ∧ (∀ c ∈ fr, isDigitA c = true) ∧
    s = (if neg then ['-'] else []) ++ ip ++ (if fr.isEmpty then [] else '.' :: fr) ∧
    q = ⟨digitsVal (ip ++ fr), fr.length⟩ ∧ q.num ≤ 10 ^ q.scale ∧ (neg = true → q.num = 0)

theorem parseQBody_complete (neg : Bool) (ip fr : Str) (hne : ip ≠ [])
    (hip : ∀ c ∈ ip, isDigitA c = true) (hfr : ∀ c ∈ fr, isDigitA c = true)
    (hle : digitsVal (ip ++ fr) ≤ 10 ^ fr.length) (hneg : neg = true → digitsVal (ip ++ fr) = 0) :
    parseQBody neg (ip ++ (if fr.isEmpty then [] else '.' :: fr)) = some ⟨digitsVal (ip ++ fr), fr.length⟩ := by
  have hdot : isDigitA '.' = false := by decide
  have hipe : ip.isEmpty = false := by
    cases ip with
    | nil => exact absurd rfl hne
    | cons _ _ => rfl
  have hqle : Q.le ⟨digitsVal (ip ++ fr), fr.length⟩ Q.one = true := by
    simpa [Q.le, Q.one] using hle
  have hng : (neg && (digitsVal (ip ++ fr) != 0)) = false := by
    cases neg with
    | true => simp [hneg rfl]
    | false => rfl
  unfold parseQBody
  cases hfe : fr.isEmpty with
  | true =>
    have hfr0 : fr = [] := by simpa using hfe
    subst hfr0
    have tw := takeWhile_all (p := isDigitA) ip hip
    simp only [List.append_nil] at hqle hng ⊢
    have hqle' : Q.le ⟨digitsVal ip, 0⟩ Q.one = true := by simpa using hqle
    simp only [Bool.false_eq_true, ↓reduceIte, List.append_nil, tw.1, tw.2, hipe, hng, hqle',
      List.length_nil]
  | false =>
    have tw := takeWhile_all_then (p := isDigitA) ip '.' fr hip hdot
    have hall : fr.all isDigitA = true := List.all_eq_true.mpr hfr
    simp only [Bool.false_eq_true, ↓reduceIte, tw.1, tw.2, hipe, hfe, Bool.not_false, hall, Bool.and_self,
      hng, hqle]

theorem parseQ_complete (s : Str) (q : Q) (h : QText s q) : parseQ s = some q := by
  obtain ⟨neg, ip, fr, hne, hip, hfr, hs, hq, hle, hneg⟩ := h
  have hd : ip.head? ≠ some '-' := by
    intro e
    have := hip '-' (List.mem_of_mem_head? e)
    revert this; decide
  have hbody : (s.head? == some '-') = neg ∧
      (if (s.head? == some '-') then s.drop 1 else s) = ip ++ (if fr.isEmpty then [] else '.' :: fr) := by
    subst hs
    cases neg with
    | true => simp
    | false =>
      cases ip with
      | nil => exact absurd rfl hne
      | cons a t =>
        have : a ≠ '-' := by simpa using hd
        simp [this]
  unfold parseQ
  simp only
  rw [hbody.2, hbody.1, hq]
  subst hq
  exact parseQBody_complete neg ip fr hne hip hfr hle hneg

theorem mem_takeWhile_holds {p : Char → Bool} {c : Char} : ∀ {l : Str}, c ∈ l.takeWhile p → p c = true := by
  intro l
  induction l with
  | nil => intro h; simp at h
  | cons a t ih =>
    intro h
    rw [List.takeWhile_cons] at h
    split at h
    · rename_i hp
      rcases List.mem_cons.mp h with rfl | h
      · exact hp
      · exact ih h
    · simp at h

theorem parseQBody_sound (neg : Bool) (body : Str) (q : Q) (h : parseQBody neg body = some q) :
    ∃ ip fr, ip ≠ [] ∧ (∀ c ∈ ip, isDigitA c = true) ∧ (∀ c ∈ fr, isDigitA c = true) ∧
      body = ip ++ (if fr.isEmpty then [] else '.' :: fr) ∧
      q = ⟨digitsVal (ip ++ fr), fr.length⟩ ∧ q.num ≤ 10 ^ q.scale ∧ (neg = true → q.num = 0) := by
  unfold parseQBody at h
  simp only at h
  have hsplit := List.takeWhile_append_dropWhile (p := isDigitA) (l := body)
  have hipd : ∀ c ∈ body.takeWhile isDigitA, isDigitA c = true := by
    intro c hc
    exact mem_takeWhile_holds hc
  split at h
  · cases h
  · rename_i hipe
    have hipne : body.takeWhile isDigitA ≠ [] := by
      intro e; simp [e] at hipe
    cases hrest : body.dropWhile isDigitA with
    | nil =>
      rw [hrest] at h hsplit
      simp only [List.append_nil] at h hsplit
      split at h
      · cases h
      · rename_i hng
        split at h
        · rename_i hle
          simp only [Option.some.injEq] at h
          refine ⟨body.takeWhile isDigitA, [], hipne, hipd, by simp, by simpa using hsplit.symm,
            by simpa using h.symm, ?_, ?_⟩
          · subst h; simpa [Q.le, Q.one] using hle
          · intro hn; subst h; simpa [hn] using hng
        · cases h
    | cons c fr =>
      rw [hrest] at h hsplit
      split at h
      · cases h
      · rename_i fr' heq
        split at heq
        · rename_i hnil; cases hnil
        · rename_i fr2 hcons
          simp only [List.cons.injEq] at hcons
          obtain ⟨rfl, rfl⟩ := hcons
          by_cases hfr : (!fr.isEmpty && fr.all isDigitA) = true
          · simp only [hfr, ↓reduceIte, Option.some.injEq] at heq
            subst heq
            split at h
            · cases h
            · rename_i hng
              split at h
              · rename_i hle
                simp only [Option.some.injEq] at h
                simp only [Bool.and_eq_true, Bool.not_eq_eq_eq_not, Bool.not_true] at hfr
                refine ⟨body.takeWhile isDigitA, fr, hipne, hipd, List.all_eq_true.mp hfr.2, ?_, h.symm, ?_, ?_⟩
                · simp only [hfr.1, Bool.false_eq_true, ↓reduceIte]; exact hsplit.symm
                · subst h; simpa [Q.le, Q.one] using hle
                · intro hn; subst h; simpa [hn] using hng
              · cases h
          · simp only [hfr, Bool.false_eq_true, ↓reduceIte] at heq
            cases heq
        · cases heq

theorem parseQ_sound (s : Str) (q : Q) (h : parseQ s = some q) : QText s q := by
  unfold parseQ at h
  simp only at h
  obtain ⟨ip, fr, h1, h2, h3, hb, h5, h6, h7⟩ := parseQBody_sound _ _ q h
  refine ⟨(s.head? == some '-'), ip, fr, h1, h2, h3, ?_, h5, h6, h7⟩
  cases hneg : (s.head? == some '-') with
  | true =>
    rw [hneg] at hb
    simp only [↓reduceIte] at hb
    cases s with
    | nil => simp at hneg
    | cons a t =>
      simp only [List.head?_cons, beq_iff_eq, Option.some.injEq] at hneg
      subst hneg
      simp only [List.drop_succ_cons, List.drop_zero] at hb
      simp [hb]
  | false =>
    rw [hneg] at hb
    simpa using hb

theorem parseQ_iff (s : Str) (q : Q) : parseQ s = some q ↔ QText s q :=
  ⟨parseQ_sound s q, parseQ_complete s q⟩

end Wz.Accept
