/-
Helper lemmas for C16: the generic coherence argument (a view family = getter + on_update writer +
view mutators that report whether they notified) and the notification-completeness of each family.
-/
import WzVerif.Model.Views
import WzVerif.Lemmas.Containers
namespace Wz.C16L
open Wz Hdr

/-- a live view family of a response -/
structure Family (σ ο : Type) where
  /-- the property getter: parse the headers into a fresh view -/
  load : HList → σ
  /-- what the getter does to the headers (identity, except `content_range`) -/
  refetchH : HList → HList
  /-- the `on_update` closure: serialise the view back into the headers -/
  write : HList → σ → HList
  /-- a mutator of the view object: new state, and whether `on_update` was called -/
  vstep : σ → ο → σ × Bool

/-- events of a history -/
inductive Ev (ο : Type) where
  /-- a mutator called on the held view object -/
  | view (op : ο)
  /-- the property is read again and the new object is held -/
  | refetch
  /-- anything that only touches the headers: direct edits, whole-property assignment, `del` -/
  | edit (f : HList → HList)

/-- headers, the held view, and whether the held view is known to be in sync with the headers -/
structure S (σ : Type) where
  h : HList
  v : σ
  synced : Bool

variable {σ ο : Type}

def next (F : Family σ ο) (s : S σ) : Ev ο → S σ
  | .view op =>
    let r := F.vstep s.v op
    ⟨if r.2 then F.write s.h r.1 else s.h, r.1, if r.2 then true else s.synced⟩
  | .refetch => ⟨F.refetchH s.h, F.load s.h, true⟩
  | .edit f => ⟨f s.h, s.v, false⟩

def run (F : Family σ ο) (s : S σ) : List (Ev ο) → S σ
  | [] => s
  | e :: t => run F (next F s e) t

/-- side conditions of a history: every mutator call is admissible, every fetched view satisfies the
family invariant, and every view that writes itself back round-trips through the header codec
(`E` is the equality of views: plain equality, or equality up to the order of an unordered part) -/
def okHist (F : Family σ ο) (E : σ → σ → Bool) (I : σ → Bool) (adm : σ → ο → Bool) (s : S σ) : List (Ev ο) → Bool
  | [] => true
  | .view op :: t =>
    adm s.v op &&
    (let r := F.vstep s.v op; !r.2 || E (F.load (F.write s.h r.1)) r.1) &&
    okHist F E I adm (next F s (.view op)) t
  | .refetch :: t =>
    I (F.load s.h) && E (F.load (F.refetchH s.h)) (F.load s.h) && okHist F E I adm (next F s .refetch) t
  | .edit f :: t => okHist F E I adm (next F s (.edit f)) t

/-- the generic coherence argument -/
theorem coherent (F : Family σ ο) (E : σ → σ → Bool) (I : σ → Bool) (adm : σ → ο → Bool)
    (hstep : ∀ v op, I v = true → adm v op = true → I (F.vstep v op).1 = true)
    (hquiet : ∀ v op, I v = true → adm v op = true → (F.vstep v op).2 = false → (F.vstep v op).1 = v)
    (evs : List (Ev ο)) (s : S σ) (hI : I s.v = true) (hs : s.synced = true → E (F.load s.h) s.v = true)
    (hok : okHist F E I adm s evs = true) :
    I (run F s evs).v = true ∧
    ((run F s evs).synced = true → E (F.load (run F s evs).h) (run F s evs).v = true) := by
  induction evs generalizing s with
  | nil => exact ⟨hI, hs⟩
  | cons e t ih =>
    cases e with
    | view op =>
      simp only [okHist, Bool.and_eq_true, Bool.or_eq_true, Bool.not_eq_true'] at hok
      obtain ⟨⟨hadm, hrt⟩, hrest⟩ := hok
      apply ih (next F s (.view op)) (hstep _ _ hI hadm) _ hrest
      simp only [next]
      cases hn : (F.vstep s.v op).2 with
      | true =>
        intro _
        rcases hrt with h | h
        · rw [hn] at h; exact absurd h (by simp)
        · simpa [hn] using h
      | false =>
        intro hsy
        simp only [Bool.false_eq_true, if_false] at hsy ⊢
        rw [hquiet _ _ hI hadm hn]
        exact hs hsy
    | refetch =>
      simp only [okHist, Bool.and_eq_true] at hok
      obtain ⟨⟨hi, hrt⟩, hrest⟩ := hok
      exact ih (next F s .refetch) hi (fun _ => hrt) hrest
    | edit f =>
      simp only [okHist] at hok
      exact ih (next F s (.edit f)) hI (fun h => by simp [next] at h) hok

/-- plain equality as a view equality -/
def eqB [DecidableEq σ] (a b : σ) : Bool := decide (a = b)

theorem eqB_iff [DecidableEq σ] (a b : σ) : eqB a b = true ↔ a = b := by simp [eqB]

/-- an effective mutation (the view changed) always notifies, hence the headers are rewritten from
the new view -/
theorem effective_writes (F : Family σ ο) (I : σ → Bool) (adm : σ → ο → Bool)
    (hquiet : ∀ v op, I v = true → adm v op = true → (F.vstep v op).2 = false → (F.vstep v op).1 = v)
    (s : S σ) (op : ο) (hI : I s.v = true) (hadm : adm s.v op = true)
    (hne : (F.vstep s.v op).1 ≠ s.v) :
    (next F s (.view op)).h = F.write s.h (F.vstep s.v op).1 := by
  cases hn : (F.vstep s.v op).2 with
  | false => exact absurd (hquiet _ _ hI hadm hn) hne
  | true => simp [next, hn]

/-! ### notification completeness per family -/
open Views

theorem dstep_quiet {β : Type} (d : PyDict.Dict Str β) (op : DOp β) (h : (dstep d op).notified = false) :
    (dstep d op).st = d := by
  cases op with
  | setitem k v => simp [dstep] at h
  | delitem k => simp only [dstep] at h ⊢; split <;> simp_all
  | clear => simp [dstep] at h
  | popitem => simp only [dstep] at h ⊢; split <;> simp_all
  | update l => simp [dstep] at h
  | setdefault k v => simp only [dstep] at h ⊢; split <;> simp_all
  | pop k dflt =>
    simp only [dstep] at h ⊢
    split
    · simp_all
    · split <;> rfl

theorem cc_quiet (d : ODict) (op : CC.Op) (h : (CC.step d op).notified = false) : (CC.step d op).st = d := by
  cases op with
  | dict op => exact dstep_quiet d op h
  | delattr key => simp only [CC.step, CC.delValue] at h ⊢; split <;> simp_all
  | attr key ty v =>
    simp only [CC.step, CC.setValue] at h ⊢
    repeat' split
    all_goals simp_all

theorem csp_quiet (d : CSP.St) (op : CSP.Op) (h : (CSP.step d op).notified = false) : (CSP.step d op).st = d := by
  cases op with
  | dict op => exact dstep_quiet d op h
  | delattr key => simp only [CSP.step, CSP.delValue] at h ⊢; split <;> simp_all
  | attr key v =>
    simp only [CSP.step, CSP.setValue] at h ⊢
    repeat' split
    all_goals simp_all

theorem cr_quiet (c : CR.St) (op : CR.Op) (h : (CR.step c op).notified = false) : (CR.step c op).st = c := by
  cases op <;> simp only [CR.step] at h ⊢ <;> first | (simp at h) | (split <;> simp_all)

theorem auth_quiet (c : Auth.St) (op : Auth.Op) (h : (Auth.step c op).notified = false) : (Auth.step c op).st = c := by
  cases op with
  | setType s => simp [Auth.step] at h
  | setToken t => simp [Auth.step] at h
  | setParams d => simp [Auth.step] at h
  | setitem k v => cases v <;> simp [Auth.step] at h
  | delitem k => simp only [Auth.step] at h ⊢; split <;> simp_all
  | pdict op =>
    simp only [Auth.step] at h ⊢
    rw [dstep_quiet c.params op h]

theorem updateLoop_quiet (c : HS.St) (hs : List Str) (h : (HS.updateLoop c hs).2 = false) :
    (HS.updateLoop c hs).1 = c := by
  induction hs generalizing c with
  | nil => rfl
  | cons x t ih =>
    cases hc : c.set.contains (lower x) with
    | true =>
      have hm : lower x ∈ c.set := by simpa using hc
      simp only [HS.updateLoop, hc, if_true] at h ⊢
      exact ih c h
    | false =>
      have hm : lower x ∉ c.set := by simpa using hc
      simp [HS.updateLoop, hm] at h

theorem hs_quiet (c : HS.St) (hI : HS.Inv c) (op : HS.Op) (h : (HS.step c op).notified = false) :
    (HS.step c op).st = c := by
  cases op with
  | add x => exact updateLoop_quiet c [x] h
  | update l => exact updateLoop_quiet c l h
  | clear => simp [HS.step] at h
  | remove x => simp only [HS.step, HS.remove] at h ⊢; split <;> simp_all
  | discard x => simp only [HS.step, HS.discard, HS.remove] at h ⊢; split <;> simp_all
  | delitem i =>
    simp only [HS.step, HS.delitem] at h ⊢
    cases hp : pyIdx c.headers.length i with
    | none => rfl
    | some n =>
      simp only [hp] at h ⊢
      cases hg : c.headers[n]? with
      | none => rfl
      | some rv =>
        simp only [hg] at h ⊢
        have hc : c.set.contains (lower rv) = true := by
          rw [List.contains_iff_mem, hI.2.2]
          exact List.mem_map_of_mem (List.mem_of_getElem? hg)
        simp only [hc, if_true] at h
        exact absurd h (by simp)
  | setitem i v =>
    simp only [HS.step, HS.setitem] at h ⊢
    cases hp : pyIdx c.headers.length i with
    | none => rfl
    | some n =>
      simp only [hp] at h ⊢
      cases hg : c.headers[n]? with
      | none => rfl
      | some old =>
        simp only [hg] at h ⊢
        split <;> simp_all

end Wz.C16L

/-! ### what `on_update` leaves in the header list -/
namespace Wz.C16L
open Wz Hdr Views Wz.C08L

theorem keyEq_congr {k k' : Str} (h : lower k = lower k') : keyEq k = keyEq k' := by
  funext p; simp [keyEq, h]

theorem getlist_congr (l : HList) {k k' : Str} (h : lower k = lower k') : getlist l k = getlist l k' := by
  simp [getlist, keyEq_congr h]

theorem set_getlist (l : HList) (k v : Str) (hv : hasNL v = false) : getlist (Hdr.set l k v).1 k = [v] := by
  rcases set_cases l k v hv with ⟨r, hs, he⟩ | ⟨hnone, he⟩
  · rw [he]; simp [getlist, setLoop_filter_self k v l r hs]
  · rw [he]
    simp [getlist, List.filter_append, filter_keyEq_none k l hnone, keyEq_self]

theorem set_getlist' (l : HList) (k k' v : Str) (hk : lower k = lower k') (hv : hasNL v = false) :
    getlist (Hdr.set l k' v).1 k = [v] := by
  rw [getlist_congr _ hk]; exact set_getlist l k' v hv

theorem delKey_getlist (l : HList) (k : Str) : getlist (delKey l k) k = [] := by
  simp only [getlist, delKey, List.filter_filter]
  have : (l.filter fun a => keyEq k a && !keyEq k a) = [] := by
    rw [List.filter_eq_nil_iff]; intro a _; cases keyEq k a <;> simp
  simp [this]

theorem not_contains_getlist (l : HList) (k : Str) (h : Hdr.contains l k = false) : getlist l k = [] := by
  unfold Hdr.contains at h
  have hf : l.find? (keyEq k) = none := by
    cases hh : l.find? (keyEq k) with
    | none => rfl
    | some p => simp [hh] at h
  rw [List.find?_eq_none] at hf
  simp only [getlist]
  have : l.filter (keyEq k) = [] := by
    rw [List.filter_eq_nil_iff]; intro a ha; exact hf a ha
  simp [this]

theorem absent_pattern (l : HList) (k : Str) :
    getlist (if Hdr.contains l k then delKey l k else l) k = [] := by
  cases hc : Hdr.contains l k with
  | true => simp only [if_true]; exact delKey_getlist l k
  | false => simp only [Bool.false_eq_true, if_false]; exact not_contains_getlist l k hc

/-! ### decimal text round trip -/

theorem digitsVal_natText (n : Nat) : CC.digitsVal (CC.natText n) = some n := by
  unfold CC.digitsVal CC.natText
  have h1 : (Nat.toDigits 10 n).isEmpty = false := by
    cases h : Nat.toDigits 10 n with
    | nil => exact absurd h Nat.toDigits_ne_nil
    | cons _ _ => rfl
  have h2 : (Nat.toDigits 10 n).all Char.isDigit = true := by
    rw [List.all_eq_true]
    intro c hc
    exact Nat.isDigit_of_mem_toDigits (by decide) (by decide) hc
  simp [h1, h2, Nat.ofDigitChars_ten_toDigits]

theorem natText_head_digit (n : Nat) : ∃ c t, CC.natText n = c :: t ∧ c.isDigit = true := by
  unfold CC.natText
  cases h : Nat.toDigits 10 n with
  | nil => exact absurd h Nat.toDigits_ne_nil
  | cons c t =>
    refine ⟨c, t, rfl, ?_⟩
    exact Nat.isDigit_of_mem_toDigits (b := 10) (n := n) (by decide) (by decide) (by rw [h]; exact List.mem_cons_self)

theorem pyInt_natText (n : Nat) : CC.pyInt (CC.natText n) = some (n : Int) := by
  obtain ⟨c, t, he, hd⟩ := natText_head_digit n
  have hv := digitsVal_natText n
  rw [he] at hv
  have h1 : c ≠ '-' := by intro e; subst e; simp [Char.isDigit] at hd
  have h2 : c ≠ '+' := by intro e; subst e; simp [Char.isDigit] at hd
  rw [he]
  unfold CC.pyInt
  split
  · rename_i d heq; cases heq; exact absurd rfl h1
  · rename_i d heq; cases heq; exact absurd rfl h2
  · simp [hv]

theorem pyInt_intText (i : Int) : CC.pyInt (CC.intText i) = some i := by
  cases i with
  | ofNat n => exact pyInt_natText n
  | negSucc n =>
    simp only [CC.intText, CC.pyInt, digitsVal_natText, Option.map_some]
    rfl

theorem natText_noNL (n : Nat) : hasNL (CC.natText n) = false := by
  unfold hasNL CC.natText
  rw [Bool.eq_false_iff]
  intro hc
  rw [List.any_eq_true] at hc
  obtain ⟨c, hm, hnl⟩ := hc
  have hd := Nat.isDigit_of_mem_toDigits (b := 10) (by decide) (by decide) hm
  simp only [isNL, Bool.or_eq_true, beq_iff_eq] at hnl
  rcases hnl with e | e <;> (subst e; simp [Char.isDigit] at hd)

theorem intText_noNL (i : Int) : hasNL (CC.intText i) = false := by
  cases i with
  | ofNat n => exact natText_noNL n
  | negSucc n =>
    have := natText_noNL (n + 1)
    simp only [CC.intText, hasNL, List.any_cons] at this ⊢
    simp [isNL, this]

end Wz.C16L

/-! ### histories whose written views are known to round-trip -/
namespace Wz.C16L
open Wz Hdr Views
variable {σ ο : Type}

/-- like `okHist`, with the round-trip check replaced by a predicate `good` on the written view -/
def okHistGood (F : Family σ ο) (E : σ → σ → Bool) (I : σ → Bool) (adm : σ → ο → Bool) (good : HList → σ → Bool)
    (s : S σ) : List (Ev ο) → Bool
  | [] => true
  | .view op :: t =>
    adm s.v op && (let r := F.vstep s.v op; !r.2 || good s.h r.1) &&
    okHistGood F E I adm good (next F s (.view op)) t
  | .refetch :: t =>
    I (F.load s.h) && E (F.load (F.refetchH s.h)) (F.load s.h) && okHistGood F E I adm good (next F s .refetch) t
  | .edit f :: t => okHistGood F E I adm good (next F s (.edit f)) t

theorem okHist_of_good (F : Family σ ο) (E : σ → σ → Bool) (I : σ → Bool) (adm : σ → ο → Bool) (good : HList → σ → Bool)
    (hstep : ∀ v op, I v = true → adm v op = true → I (F.vstep v op).1 = true)
    (hrt : ∀ h v, I v = true → good h v = true → E (F.load (F.write h v)) v = true)
    (evs : List (Ev ο)) (s : S σ) (hI : I s.v = true) (hok : okHistGood F E I adm good s evs = true) :
    okHist F E I adm s evs = true := by
  induction evs generalizing s with
  | nil => rfl
  | cons e t ih =>
    cases e with
    | view op =>
      simp only [okHistGood, Bool.and_eq_true, Bool.or_eq_true, Bool.not_eq_true'] at hok
      obtain ⟨⟨hadm, hg⟩, hrest⟩ := hok
      simp only [okHist, Bool.and_eq_true, Bool.or_eq_true, Bool.not_eq_true']
      refine ⟨⟨hadm, ?_⟩, ih _ (hstep _ _ hI hadm) hrest⟩
      rcases hg with h | h
      · exact Or.inl h
      · exact Or.inr (hrt _ _ (hstep _ _ hI hadm) h)
    | refetch =>
      simp only [okHistGood, Bool.and_eq_true] at hok
      simp only [okHist, Bool.and_eq_true]
      exact ⟨hok.1, ih _ hok.1.1 hok.2⟩
    | edit f =>
      simp only [okHistGood] at hok
      simp only [okHist]
      exact ih _ hI hok

theorem set_getKey (l : HList) (k v : Str) (hv : hasNL v = false) : getKey (Hdr.set l k v).1 k = .ok v := by
  have hg : getlist (Hdr.set l k v).1 k = [v] := set_getlist l k v hv
  simp only [getlist] at hg
  simp only [getKey]
  cases hf : (Hdr.set l k v).1.find? (keyEq k) with
  | none =>
    rw [List.find?_eq_none] at hf
    have : (Hdr.set l k v).1.filter (keyEq k) = [] := by
      rw [List.filter_eq_nil_iff]; intro a ha; exact hf a ha
    simp [this] at hg
  | some p =>
    have hp := List.find?_eq_some_iff_append.1 hf
    obtain ⟨hk, as, bs, hl, hnot⟩ := hp
    have hfa : as.filter (keyEq k) = [] := by
      rw [List.filter_eq_nil_iff]; intro a ha; simpa using hnot a ha
    rw [hl, List.filter_append, hfa, List.filter_cons] at hg
    simp only [hk, if_true, List.nil_append, List.map_cons] at hg
    have := (List.cons.inj hg).1
    simp [this]

theorem absent_getKey (l : HList) (k : Str) :
    getKey (if Hdr.contains l k then delKey l k else l) k = .error "BadRequestKeyError" := by
  have := absent_pattern l k
  simp only [getlist] at this
  simp only [getKey]
  cases hf : (if Hdr.contains l k then delKey l k else l).find? (keyEq k) with
  | none => rfl
  | some p =>
    have hm := List.mem_of_find?_eq_some hf
    have hkp := List.find?_some hf
    have : p ∈ (if Hdr.contains l k then delKey l k else l).filter (keyEq k) := List.mem_filter.2 ⟨hm, hkp⟩
    simp_all

end Wz.C16L
