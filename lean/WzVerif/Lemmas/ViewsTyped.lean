/-
Helper lemmas for the typed (non-view) properties of C16: date text, mimetype, set-valued
access-control headers.
-/
import WzVerif.Lemmas.ViewsCodec
import WzVerif.Lemmas.Date
import WzVerif.Lemmas.DateText
import WzVerif.Lemmas.HttpEtag
namespace Wz.C16L
open Wz Hdr Views

theorem hasNL_toDigits (n : Nat) : hasNL (Nat.toDigits 10 n) = false := natText_noNL n

theorem hasNL_pad2 (n : Nat) : hasNL (Date.pad2 n) = false := by
  unfold Date.pad2
  split
  · rw [hasNL_cons, hasNL_toDigits]; rfl
  · exact hasNL_toDigits n

theorem hasNL_replicate0 (k : Nat) : hasNL (List.replicate k '0') = false := by
  induction k with
  | zero => rfl
  | succ k ih => rw [List.replicate_succ, hasNL_cons, ih]; rfl

theorem hasNL_pad4 (n : Nat) : hasNL (Date.pad4 n) = false := by
  unfold Date.pad4
  simp only [hasNL_append, hasNL_replicate0, hasNL_toDigits, Bool.or_self]

theorem hasNL_getD (l : List Str) (hl : l.all (fun s => !hasNL s) = true) (i : Nat) : hasNL (l.getD i []) = false := by
  rw [List.getD_eq_getElem?_getD]
  cases h : l[i]? with
  | none => rfl
  | some s =>
    have := List.all_eq_true.1 hl s (List.mem_of_getElem? h)
    simpa using this

/-- the IMF-fixdate text `http_date` produces never contains CR or LF (so `Headers` stores it) -/
theorem httpDate_noNL (t : Nat) : hasNL (Date.httpDate t) = false := by
  unfold Date.httpDate Date.formatCivil
  simp only [hasNL_append, hasNL_cons, hasNL_pad2, hasNL_pad4,
    hasNL_getD Date.dayNames (by decide), hasNL_getD Date.monthNames (by decide)]
  decide

/-! ### `str.split(";")[0]` -/

theorem splitGo_head (c : Char) (a : Str) (hc : ∀ x ∈ a, (x == c) = false) (rest cur : Str) :
    (splitCh.go c (a ++ c :: rest) cur).head? = some (cur.reverse ++ a) ∧
    (splitCh.go c a cur).head? = some (cur.reverse ++ a) := by
  induction a generalizing cur with
  | nil => simp [splitCh.go]
  | cons x t ih =>
    have hx : (x == c) = false := hc x List.mem_cons_self
    have ht : ∀ y ∈ t, (y == c) = false := fun y hy => hc y (List.mem_cons_of_mem _ hy)
    simp only [List.cons_append, splitCh.go, hx, Bool.false_eq_true, if_false]
    have := ih ht (x :: cur)
    simpa using this

theorem splitCh_head (c : Char) (a : Str) (hc : ∀ x ∈ a, (x == c) = false) (rest : Str) :
    (splitCh c (a ++ c :: rest)).head! = a ∧ (splitCh c a).head! = a := by
  have := splitGo_head c a hc rest []
  unfold splitCh
  constructor
  · cases h : splitCh.go c (a ++ c :: rest) [] with
    | nil => rw [h] at this; simp at this
    | cons y r => rw [h] at this; show y = a; simpa using this.1
  · cases h : splitCh.go c a [] with
    | nil => rw [h] at this; simp at this
    | cons y r => rw [h] at this; show y = a; simpa using this.2

theorem getContentType_cases (m : Str) :
    Scalar.getContentType m = m ∨ Scalar.getContentType m = m ++ ';' :: " charset=utf-8".toList := by
  unfold Scalar.getContentType
  split
  · right; rfl
  · left; rfl

/-- reading `mimetype` after assigning it -/
theorem mimetype_get_set (h : HList) (m : Str) (hne : m ≠ []) (hsc : ∀ x ∈ m, (x == ';') = false)
    (hstrip : Views.strip m = m) (hnl : hasNL m = false) :
    MP.mimetype (Scalar.mimetypeSet h m).1 = some m := by
  have hnl' : hasNL (Scalar.getContentType m) = false := by
    rcases getContentType_cases m with e | e <;> rw [e]
    · exact hnl
    · rw [hasNL_append, hnl]; decide
  unfold MP.mimetype Scalar.mimetypeSet
  rw [set_getlist_key]
  · have hne' : (Scalar.getContentType m).isEmpty = false := by
      rcases getContentType_cases m with e | e <;> rw [e] <;> cases m <;> simp_all
    simp only [hne', Bool.false_eq_true, if_false]
    rcases getContentType_cases m with e | e <;> rw [e]
    · rw [(splitCh_head ';' m hsc []).2, hstrip]
    · rw [(splitCh_head ';' m hsc _).1, hstrip]
  · exact hnl'
where
  set_getlist_key : ∀ {l : HList} {v : Str}, hasNL v = false →
      getKey (Hdr.set l "Content-Type".toList v).1 "content-type".toList = .ok v := by
    intro l v hv
    have := set_getKey l "Content-Type".toList v hv
    simp only [getKey] at this ⊢
    rw [keyEq_congr (k := "content-type".toList) (k' := "Content-Type".toList) (by decide)]
    exact this

/-- `parse_set_header(dump_header(items)) ` has the item list `items` -/
theorem parseSet_dumpList (items : List Str) : Http.parseSetHeader (Http.dumpHeaderList items) = items := by
  unfold Http.parseSetHeader
  have h := Http.parseList_dump_any items
  split
  · next he =>
    cases items with
    | nil => rfl
    | cons v vs =>
      exfalso
      rw [List.isEmpty_iff] at he
      rw [he] at h
      simp [Http.parseListHeader, Http.parseHttpList, Http.httpListGo] at h
  · exact h

theorem pyInt_none_of_head (c : Char) (r : Str) (h1 : c ≠ '-') (h2 : c ≠ '+') (h3 : c.isDigit = false) :
    CC.pyInt (c :: r) = none := by
  unfold CC.pyInt
  split
  · rename_i d heq; cases heq; exact absurd rfl h1
  · rename_i d heq; cases heq; exact absurd rfl h2
  · simp [CC.digitsVal, h3]

def dayHeadOk (i : Nat) : Bool :=
  match Date.dayNames.getD i [] with
  | c :: _ => c != '-' && c != '+' && !c.isDigit
  | [] => false

theorem dayHeadOk_all : ∀ i, i < 7 → dayHeadOk i = true := by decide

/-- an IMF-fixdate text is not an integer literal (its first character is a letter of a day name) -/
theorem httpDate_not_int (t : Nat) : CC.pyInt (Date.httpDate t) = none := by
  unfold Date.httpDate Date.formatCivil
  generalize Date.civilOfSeconds t = c
  have hw : Date.weekday (Date.ymd2ord c.y c.mo c.d) < 7 := by unfold Date.weekday; omega
  have := dayHeadOk_all _ hw
  unfold dayHeadOk at this
  cases hd : Date.dayNames.getD (Date.weekday (Date.ymd2ord c.y c.mo c.d)) [] with
  | nil => rw [hd] at this; cases this
  | cons x r =>
    rw [hd] at this
    simp only [Bool.and_eq_true, bne_iff_ne, ne_eq, Bool.not_eq_true'] at this
    simp only [List.cons_append]
    exact pyInt_none_of_head x _ this.1.1 this.1.2 this.2

end Wz.C16L
