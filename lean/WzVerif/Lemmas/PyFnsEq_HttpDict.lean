/-
PyFnsEq_HttpDict — `parse_csp_header`, `dump_csp_header`, `parse_dict_header` and
`parse_cache_control_header` of `werkzeug.http` *as regenerated from the source* by
`tools/py2lean.py` (`Gen/PyFns_HttpDict.lean`, rewritten on every check run) are equal, for all
inputs, to the hand-written model functions of `Model/Http.lean` (`parseCsp`, `dumpCsp`,
`parseDictHeader`, `parseCacheControl`) that the C06 / C16 theorems are about.

Main theorems: `parse_csp_header_loop_eq`, `parse_csp_header_eq`, `parse_csp_header_none`,
`dump_csp_header_eq`, `parse_dict_header_step`, `parse_dict_header_loop_fall`,
`parse_dict_header_loop_eq`, `parse_dict_header_eq`, `parse_dict_header_ok`,
`parse_cache_control_header_eq`. Nothing is weakened: the equalities are exact (values and errors).

Helper lemmas that do not mention generated definitions (`strip_strip`, `splitOn_singleton`,
`partition_singleton`, `http_partition_eq`, `slice_none_neg_one`, `lowerChar_of_charset`,
`encOfNameDict_spec`, `dictItem_eq`, `foldlM_dictStep`) are candidates for the shared libraries
Lemmas/PyFns_Prelude.lean / Lemmas/PyFns_HttpDict.lean.
-/
import WzVerif.Props.C06T
import WzVerif.Gen.PyFns_HttpDict
import WzVerif.Lemmas.PyFns_HttpDict
import WzVerif.Lemmas.PyFns_Range
namespace Wz.PyFnsEq.HttpDict
open Wz Wz.Pre Wz.PyFnsHttp

/-! ### `str.strip()` twice, `str.split(c)`, `str.partition(c)` -/

/-- a prefix of a `dropWhile p` result starts (if non-empty) with an element that fails `p` -/
theorem dropWhile_prefix_of_dropWhile {α : Type} (p : α → Bool) (s pre post : List α)
    (h : s.dropWhile p = pre ++ post) : pre.dropWhile p = pre := by
  cases pre with
  | nil => rfl
  | cons x r =>
    have := List.head?_dropWhile_not p s
    rw [h] at this
    simp only [List.cons_append, List.head?_cons] at this
    simp [this]

theorem dropWhile_dropWhile {α : Type} (p : α → Bool) (s : List α) :
    (s.dropWhile p).dropWhile p = s.dropWhile p :=
  dropWhile_prefix_of_dropWhile p s _ [] (by simp)

/-- `s.strip().strip() == s.strip()` -/
theorem strip_strip (s : Str) : Py.strip (Py.strip s) = Py.strip s := by
  unfold Py.strip Py.rstripBy
  obtain ⟨w, hw⟩ := List.dropWhile_suffix (l := (s.dropWhile Py.isSpace).reverse) Py.isSpace
  have h1 : s.dropWhile Py.isSpace = ((s.dropWhile Py.isSpace).reverse.dropWhile Py.isSpace).reverse ++ w.reverse := by
    rw [← List.reverse_append, hw, List.reverse_reverse]
  rw [dropWhile_prefix_of_dropWhile _ _ _ _ h1, List.reverse_reverse, dropWhile_dropWhile]

/-- `s.split(c)` for a one-character separator: the prelude's scanner is the model's `splitOnChar.go` -/
theorem splitOnAux_singleton (c : Char) (s cur : Str) :
    splitOnAux [c] s 0 cur = Http.splitOnChar.go c s cur := by
  induction s generalizing cur with
  | nil => rfl
  | cons x t ih =>
    simp only [splitOnAux, isPrefixOf_singleton, List.length_singleton, Nat.sub_self, Http.splitOnChar.go, ih]
    by_cases h : c = x
    · subst h; simp
    · have h1 : (c == x) = false := by simpa using h
      have h2 : (x == c) = false := by simpa using fun h' => h h'.symm
      simp [h1, h2]

/-- `s.split(c)`: the prelude's is the model's `splitOnChar` -/
theorem splitOn_singleton (c : Char) (s : Str) : splitOn s [c] = Http.splitOnChar c s :=
  splitOnAux_singleton c s []

/-- `s.partition(c)` for a one-character separator, all three components -/
theorem partition_singleton [BEq α] [LawfulBEq α] (s : List α) (c : α) :
    Pre.partition s [c] =
      (s.takeWhile (· != c), if s.contains c then [c] else [], (s.dropWhile (· != c)).drop 1) := by
  rcases split_at_first c s with ⟨h1, h2, h3⟩ | ⟨pre, post, h1, h2, h3, h4⟩
  · have hc : s.contains c = false := by simpa using h1
    rw [h2, h3, hc]
    simp [Pre.partition, findIdx?_singleton_not_mem c s h1]
  · have hc : s.contains c = true := by simp [h1]
    rw [h3, h4, hc]
    simp [Pre.partition, h1, findIdx?_singleton_append c pre post h2]

/-- the model's `partition`, all three components -/
theorem http_partition_eq (c : Char) (s : Str) :
    Http.partition c s = (s.takeWhile (· != c), s.contains c, (s.dropWhile (· != c)).drop 1) := by
  by_cases h : c ∈ s
  · have hc : s.contains c = true := by simpa using h
    rw [partition_eq_of_mem c s h, hc]
  · have hc : s.contains c = false := by simpa using h
    rcases split_at_first c s with ⟨_, h2, h3⟩ | ⟨pre, post, h1, _, _, _⟩
    · rw [partition_eq_of_not_mem c s h, hc, h2, h3]; rfl
    · exact absurd (h1 ▸ (by simp : c ∈ pre ++ c :: post)) h

/-! ### Content-Security-Policy -/

/-- the dict a `dict(items)` / `cls(items)` constructor builds from an item list (later items win,
first insertion fixes the position) -/
def dictOf {ν : Type} (items : List (Str × ν)) : Http.Dict ν :=
  items.foldl (fun d kv => Http.dictSet d kv.1 kv.2) []

/-- what one `policy` of the `;`-separated value contributes: `(directive, value)` or nothing -/
def cspItem (policy : Str) : Option (Str × Str) :=
  let p := Py.strip policy
  if p.contains ' ' then
    some (Py.strip (p.takeWhile (· != ' ')), Py.strip ((p.dropWhile (· != ' ')).drop 1))
  else none

/-- what the loop body leaves in the (re-assigned) parameter `value` -/
def cspValue (value policy : Str) : Str :=
  let p := Py.strip policy
  if p.contains ' ' then (p.dropWhile (· != ' ')).drop 1 else value

/-- the body of the model's fold -/
def cspStep (d : Http.Dict Str) (policy : Str) : Http.Dict Str :=
  match cspItem policy with
  | some (k, v) => Http.dictSet d k v
  | none => d

theorem parseCsp_spec (v : Str) : Http.parseCsp v = (Http.splitOnChar ';' v).foldl cspStep [] := by
  unfold Http.parseCsp
  congr 1
  funext d policy
  simp only [cspStep, cspItem, Http.strip, http_partition_eq]
  by_cases h : ' ' ∈ Py.strip policy <;> simp [h]

theorem foldl_cspItem (ps : List Str) : ∀ d : Http.Dict Str,
    (ps.filterMap cspItem).foldl (fun d kv => Http.dictSet d kv.1 kv.2) d = ps.foldl cspStep d := by
  induction ps with
  | nil => intro d; rfl
  | cons p t ih =>
    intro d
    cases h : cspItem p with
    | none => simp [h, cspStep, ih]
    | some kv => simp [h, cspStep, ih]

/-- The `for policy in value.split(";")` loop of `parse_csp_header`, as translated from the current
source (`policy.strip()`, the `" " in policy` test, `policy.strip().split(" ", 1)` - the second
`strip` is redundant -, the append of the stripped pair; the loop re-assigns the parameter `value`,
hence the second state component): never raises (`split(" ", 1)` is only reached when a space
occurs, so the unpacking cannot fail), appends `cspItem policy` for every policy that contains a
space, for every list of policies, every accumulator and every incoming `value`. -/
theorem parse_csp_header_loop_eq (ps : List Str) : ∀ (items : List (Str × Str)) (value : Str),
    Gen.PyFns_HttpDict.parse_csp_header.loop1 ps items value
      = .fall (items ++ ps.filterMap cspItem, ps.foldl cspValue value) := by
  induction ps with
  | nil => intro items value; simp [Gen.PyFns_HttpDict.parse_csp_header.loop1]
  | cons p t ih =>
    intro items value
    unfold Gen.PyFns_HttpDict.parse_csp_header.loop1
    simp only [ih, Pre.strip, strip_strip, contains_singleton, List.filterMap_cons, List.foldl_cons,
      cspItem, cspValue]
    by_cases h : ' ' ∈ Py.strip p
    · simp [h, PyFnsRange.splitOnce_singleton_mem _ ' ' h]
    · simp [h]

/-- `parse_csp_header(value)` for a `str` value, as translated from the current source
(`value.split(";")`, the loop above, `cls(items)`; the translation returns the item list handed to
the `ContentSecurityPolicy` constructor, duplicates included), never raises, and the dict built from
these items (`dictOf`: assignment in order) is exactly the model's `parseCsp` - the function C16's
CSP round-trip theorems are about -, for every text. -/
theorem parse_csp_header_eq (v : List Char) :
    (Gen.PyFns_HttpDict.parse_csp_header (some v) () ()).map dictOf = .ok (Http.parseCsp v) := by
  unfold Gen.PyFns_HttpDict.parse_csp_header
  simp only [parse_csp_header_loop_eq, splitOn_singleton, List.nil_append, id, Except.map, dictOf,
    foldl_cspItem, parseCsp_spec]

/-- `parse_csp_header(None)` is the empty policy object. -/
theorem parse_csp_header_none : Gen.PyFns_HttpDict.parse_csp_header none () () = .ok [] := rfl

/-- `dump_csp_header(header)`, as translated from the current source (`"; ".join` of
`f"{key} {value}"` over `header.items()`), prints exactly the model's `dumpCsp`, for every policy
dict (given as its item list). -/
theorem dump_csp_header_eq (d : List (List Char × List Char)) :
    Gen.PyFns_HttpDict.dump_csp_header d = Http.dumpCsp d := by
  unfold Gen.PyFns_HttpDict.dump_csp_header Http.dumpCsp
  have e : ([';', ' '] : Str) = "; ".toList := by decide
  rw [e, join_intercalate]
  simp [Pre.dictItems]

/-! ### `parse_dict_header`: charset names, `str.lower()` on a charset name -/

/-- On the characters `_charset_value_re` allows in a charset name (`[\w!#$%&*+\-.^`|~]` under
`re.ASCII`: nothing above U+00FF, table regenerated from the live pattern) the model's table-driven
`str.lower()` is ASCII lower-casing. `decide` over the complete 256-row tables. -/
theorem lower_tbl : Gen.Http.charsetHigh = false ∧
    ∀ n, n < 256 → Http.tbl Gen.Http.charsetCls n = true →
      Char.ofNat (Gen.Http.lowerTbl.getD n n) = (Char.ofNat n).toLower := by
  refine ⟨by decide, ?_⟩
  decide +kernel

theorem lowerChar_of_charset (c : Char) (h : Http.isCharsetCh c = true) :
    Http.lowerChar c = c.toLower := by
  unfold Http.isCharsetCh Http.cls at h
  unfold Http.lowerChar
  by_cases hlt : c.toNat < 256
  · simp only [hlt, if_true] at h ⊢
    rw [lower_tbl.2 _ hlt h, Char.ofNat_toNat]
  · simp only [hlt, if_false, lower_tbl.1] at h
    cases h

/-- the charset group of a `_charset_value_re` match lower-cases the same way in the model
(`pyLower`) and in the translation (`Pre.lower`) -/
theorem charsetValue?_lower (value e v : Str) (h : Http.charsetValue? value = some (e, v)) :
    Http.pyLower e = Pre.lower e := by
  have he : e = value.takeWhile Http.isCharsetCh := by
    unfold Http.charsetValue? at h
    simp only [] at h
    split at h
    · split at h
      · split at h
        · cases h
        · cases h; rfl
      · cases h
    · cases h
  unfold Http.pyLower Pre.lower
  apply List.map_congr_left
  intro c hc
  rw [he] at hc
  exact lowerChar_of_charset c (List.all_eq_true.mp List.all_takeWhile c hc)

theorem ofList_beq (n : List Char) (s : String) : (String.ofList n == s) = (n == s.toList) := by
  by_cases h : n = s.toList
  · subst h; simp
  · have : String.ofList n ≠ s := by
      intro e; apply h; rw [← e]; simp
    rw [beq_eq_false_iff_ne.mpr this, beq_eq_false_iff_ne.mpr h]

/-- the model's charset-name lookup for `parse_dict_header` (two regenerated literal sets), spelled
as comparisons with the four names -/
theorem encOfNameDict_spec (n : Str) : Http.encOfNameDict n =
    if n == ['u', 't', 'f', '-', '8'] then some .utf8
    else if n == ['i', 's', 'o', '-', '8', '8', '5', '9', '-', '1'] then some .latin1
    else if n == ['a', 's', 'c', 'i', 'i'] || n == ['u', 's', '-', 'a', 's', 'c', 'i', 'i'] then some .ascii
    else none := by
  have h1 : Gen.Http.safeEncodingsOptions = [["ascii", "iso-8859-1", "us-ascii", "utf-8"]] := by decide
  have h2 : Gen.Http.safeEncodingsDict = [["ascii", "iso-8859-1", "us-ascii", "utf-8"]] := by decide
  have e1 : "utf-8".toList = ['u', 't', 'f', '-', '8'] := by decide
  have e2 : "iso-8859-1".toList = ['i', 's', 'o', '-', '8', '8', '5', '9', '-', '1'] := by decide
  have e3 : "ascii".toList = ['a', 's', 'c', 'i', 'i'] := by decide
  have e4 : "us-ascii".toList = ['u', 's', '-', 'a', 's', 'c', 'i', 'i'] := by decide
  unfold Http.encOfNameDict Http.encOfName
  simp only [h1, h2, List.any_cons, List.any_nil, Bool.or_false, List.contains_cons, List.contains_nil,
    ofList_beq, e1, e2, e3, e4]
  generalize (n == ['u', 't', 'f', '-', '8']) = a
  generalize (n == ['i', 's', 'o', '-', '8', '8', '5', '9', '-', '1']) = b
  generalize (n == ['a', 's', 'c', 'i', 'i']) = c
  generalize (n == ['u', 's', '-', 'a', 's', 'c', 'i', 'i']) = d
  cases a <;> cases b <;> cases c <;> cases d <;> rfl

/-- the literal `{"ascii", "us-ascii", "utf-8", "iso-8859-1"}` of `parse_dict_header` -/
def SafeName (enc : Str) : Prop :=
  enc = ['a', 's', 'c', 'i', 'i'] ∨ enc = ['u', 's', '-', 'a', 's', 'c', 'i', 'i'] ∨
  enc = ['u', 't', 'f', '-', '8'] ∨ enc = ['i', 's', 'o', '-', '8', '8', '5', '9', '-', '1']

/-- the value after the RFC 2231 step of the model: percent-decoded when the (lower-cased) charset
name is one of the four, untouched otherwise -/
def decVal (enc value : Str) : Str :=
  match Http.encOfNameDict enc with
  | some e => Http.pctUnquote e value
  | none => value

/-- under the guard `encoding in {"ascii", "us-ascii", "utf-8", "iso-8859-1"}` the translated
`unquote(value, encoding=encoding)` never reaches its "encoding outside the model" marker error and
is the model's percent-decoding -/
theorem unquoteEnc_safe (enc value : Str) (h : SafeName enc) :
    Gen.PyFns_HttpDict.unquoteEnc value enc = .ok (decVal enc value) := by
  have e1 : "utf-8".toList = ['u', 't', 'f', '-', '8'] := by decide
  have e2 : "iso-8859-1".toList = ['i', 's', 'o', '-', '8', '8', '5', '9', '-', '1'] := by decide
  have e3 : "ascii".toList = ['a', 's', 'c', 'i', 'i'] := by decide
  have e4 : "us-ascii".toList = ['u', 's', '-', 'a', 's', 'c', 'i', 'i'] := by decide
  unfold Gen.PyFns_HttpDict.unquoteEnc decVal
  rw [encOfNameDict_spec, e1, e2, e3, e4]
  rcases h with h | h | h | h <;> subst h <;> rfl

theorem decVal_other (enc value : Str) (h : ¬ SafeName enc) : decVal enc value = value := by
  unfold decVal
  rw [encOfNameDict_spec]
  simp only [SafeName, not_or] at h
  obtain ⟨h1, h2, h3, h4⟩ := h
  simp [h1, h2, h3, h4]

/-! ### `parse_dict_header`: one item -/

/-- `key[:-1]` -/
theorem slice_none_neg_one {α : Type} (s : List α) : Pre.slice s none (some (-1)) = s.dropLast := by
  have := slice_none_neg s 1 (by omega)
  simpa [List.dropLast_eq_take] using this

/-- what one item of the comma list contributes to the dict: `none` = skipped (empty key, or a
key that is just `*`), `some (key, none)` = a bare key, `some (key, some value)` otherwise - written
with the primitives the two sides share -/
def itemOf (item : Str) : Option (Str × Option Str) :=
  let key := Py.strip (item.takeWhile (· != '='))
  let value := Py.strip ((item.dropWhile (· != '=')).drop 1)
  if key.isEmpty then none
  else if item.contains '=' then
    match key.getLast? with
    | none => none
    | some l =>
      if l == '*' then
        if key.dropLast.isEmpty then none
        else
          match Http.charsetValue? value with
          | none => some (key.dropLast, some (unq value))
          | some m => some (key.dropLast, some (unq (decVal (Pre.lower m.1) m.2)))
      else some (key, some (unq value))
  else some (key, none)

/-- the loop body on the dict -/
def dictStepP (d : Http.Dict (Option Str)) (item : Str) : Http.Dict (Option Str) :=
  match itemOf item with
  | none => d
  | some kv => Http.dictSet d kv.1 kv.2

/-- the model's `dictItem` never raises (`key[-1]` is only reached for a non-empty key) and is `itemOf` -/
theorem dictItem_eq (item : Str) : Http.dictItem item = .ok (itemOf item) := by
  unfold Http.dictItem itemOf
  rw [http_partition_eq]
  simp only [Http.strip, last!_eq]
  by_cases hk : (Py.strip (item.takeWhile (· != '='))).isEmpty = true
  · simp [hk, pure, Except.pure]
  · by_cases hc : item.contains '=' = true
    · simp only [hk, hc, Bool.false_eq_true, if_false, if_true, Bool.not_true]
      cases hl : (Py.strip (item.takeWhile (· != '='))).getLast? with
      | none =>
        rw [List.getLast?_eq_none_iff] at hl
        rw [hl] at hk; simp at hk
      | some l =>
        by_cases hs : l = '*'
        · subst hs
          by_cases hd : (Py.strip (item.takeWhile (· != '='))).dropLast.isEmpty = true
          · simp [hd, bind, Except.bind, pure, Except.pure]
          · cases hm : Http.charsetValue? (Py.strip ((item.dropWhile (· != '=')).drop 1)) with
            | none => simp [hd, bind, Except.bind, pure, Except.pure, unq]
            | some m =>
              obtain ⟨e, v⟩ := m
              simp [hd, bind, Except.bind, pure, Except.pure, unq, decVal, charsetValue?_lower _ e v hm]
              rfl
        · simp [hs, bind, Except.bind, pure, Except.pure, unq]
    · have hc' : '=' ∉ item := by simpa using hc
      simp [hk, hc', pure, Except.pure]

theorem dictStep_eq (d : Http.Dict (Option Str)) (item : Str) :
    Http.dictStep d item = .ok (dictStepP d item) := by
  unfold Http.dictStep dictStepP
  rw [dictItem_eq]
  cases itemOf item with
  | none => rfl
  | some kv => rfl

/-- the model's fold never raises -/
theorem foldlM_dictStep (items : List Str) : ∀ d : Http.Dict (Option Str),
    items.foldlM Http.dictStep d = .ok (items.foldl dictStepP d) := by
  induction items with
  | nil => intro d; rfl
  | cons item rest ih =>
    intro d
    simp only [List.foldlM_cons, List.foldl_cons, dictStep_eq, bind, Except.bind, ih]

/-! ### `parse_dict_header`: the translated loop -/

/-- "this outcome of the loop body is: go on with the remaining items and the dict `r`" (whatever
the body left in the re-assigned parameter `value`) -/
def Continues (rest : List Str) (r : List (Str × Option Str))
    (x : Pre.Loop (Except String (List (Str × Option Str))) (Str × List (Str × Option Str))) : Prop :=
  ∃ value', x = Gen.PyFns_HttpDict.parse_dict_header.loop1 rest value' r

theorem continues_rfl (rest : List Str) (r : List (Str × Option Str)) (v : Str) :
    Continues rest r (Gen.PyFns_HttpDict.parse_dict_header.loop1 rest v r) := ⟨v, rfl⟩

/-- the tail `if len(value) >= 2 and value[0] == value[-1] == '"': value = value[1:-1]` /
`result[key] = value` of the loop body, as the translator emits it -/
theorem continues_dq (rest : List Str) (result : List (Str × Option Str)) (key v : Str) :
    Continues rest (Http.dictSet result key (some (unq v)))
      (if decide (Int.ofNat v.length ≥ 2) then
        match Pre.getItemStr v 0 with
        | .error x => .ret (.error x)
        | .ok a =>
          match Pre.getItemStr v (-1) with
          | .error x => .ret (.error x)
          | .ok b =>
            if (a == b) && (b == ['"']) then
              Gen.PyFns_HttpDict.parse_dict_header.loop1 rest (Pre.slice v (some 1) (some (-1)))
                (Pre.dictSet result key (some (Pre.slice v (some 1) (some (-1)))))
            else Gen.PyFns_HttpDict.parse_dict_header.loop1 rest v (Pre.dictSet result key (some v))
      else Gen.PyFns_HttpDict.parse_dict_header.loop1 rest v (Pre.dictSet result key (some v))) :=
  ⟨unq v, dq_step v (fun v => Gen.PyFns_HttpDict.parse_dict_header.loop1 rest v (Pre.dictSet result key (some v)))
    (fun x => .ret (.error x))⟩

/-- One turn of the `for item in parse_list_header(value)` loop of `parse_dict_header`, as
translated from the current source: it never leaves the function, and continues with the dict
updated by `dictStepP` (and with whatever the body left in the re-assigned parameter `value`). -/
theorem parse_dict_header_step (item : Str) (rest : List Str) (value : Str)
    (result : List (Str × Option Str)) :
    Continues rest (dictStepP result item)
      (Gen.PyFns_HttpDict.parse_dict_header.loop1 (item :: rest) value result) := by
  rw [Gen.PyFns_HttpDict.parse_dict_header.loop1]
  simp only [partition_singleton, Pre.strip, slice_none_neg_one, dictStepP, itemOf, id]
  by_cases hk : (Py.strip (item.takeWhile (· != '='))).isEmpty = true
  · simp only [hk, if_true]; exact continues_rfl _ _ _
  · by_cases hc : item.contains '=' = true
    · simp only [hk, hc, Bool.false_eq_true, if_false, if_true, List.isEmpty_cons]
      cases hl : (Py.strip (item.takeWhile (· != '='))).getLast? with
      | none =>
        rw [List.getLast?_eq_none_iff] at hl
        rw [hl] at hk; simp at hk
      | some l =>
        have hg : Pre.getItemStr (Py.strip (item.takeWhile (· != '='))) (-1) = .ok [l] := by
          rw [getItemStr_neg_one, hl]
        simp only [hg]
        by_cases hs : l = '*'
        · subst hs
          simp only [beq_self_eq_true, if_true]
          by_cases hd : (Py.strip (item.takeWhile (· != '='))).dropLast.isEmpty = true
          · simp only [hd, if_true]; exact continues_rfl _ _ _
          · simp only [hd, Bool.false_eq_true, if_false]
            cases hm : Http.charsetValue? (Py.strip ((item.dropWhile (· != '=')).drop 1)) with
            | none => exact continues_dq _ _ _ _
            | some m =>
              simp only []
              split
              · rename_i hgd
                have hsafe : SafeName (Pre.lower m.1) := by
                  simp only [Bool.or_eq_true, beq_iff_eq] at hgd
                  rcases hgd with ((h | h) | h) | h <;> simp [SafeName, h]
                rw [unquoteEnc_safe _ _ hsafe]
                exact continues_dq _ _ _ _
              · rename_i hgd
                have hns : ¬ SafeName (Pre.lower m.1) := by
                  intro hsafe; apply hgd
                  rcases hsafe with h | h | h | h <;> rw [h] <;> decide
                rw [decVal_other _ _ hns]
                exact continues_dq _ _ _ _
        · have hs' : (([l] : Str) == ['*']) = false := by simpa using hs
          have hs'' : (l == '*') = false := by simpa using hs
          simp only [hs', hs'', Bool.false_eq_true, if_false]
          exact continues_dq _ _ _ _
    · simp only [hk, hc, Bool.false_eq_true, if_false, List.isEmpty_nil, if_true]
      exact continues_rfl _ _ _

/-- The `for item in parse_list_header(value)` loop of `parse_dict_header`, as translated from the
current source (`item.partition("=")`, the two `continue`s, `key[-1] == "*"`, `key[:-1]`,
`_charset_value_re.match`, `encoding.lower()`, the guarded `unquote(value, encoding=encoding)`, the
quote-stripping idiom, `result[key] = value`; the loop re-assigns the parameter `value`, hence the
first state component): it never leaves the function - no `IndexError` from `key[-1]` / `value[0]` /
`value[-1]`, and the translator's "encoding outside the model" marker is unreachable behind the
`encoding in {...}` guard - and ends with the dict folded by `dictStepP`, for every list of items,
every incoming `value` and every dict. -/
theorem parse_dict_header_loop_fall (items : List Str) : ∀ (value : Str) (result : List (Str × Option Str)),
    ∃ value', Gen.PyFns_HttpDict.parse_dict_header.loop1 items value result
      = .fall (value', items.foldl dictStepP result) := by
  induction items with
  | nil => intro value result; exact ⟨value, by simp [Gen.PyFns_HttpDict.parse_dict_header.loop1]⟩
  | cons item rest ih =>
    intro value result
    obtain ⟨v1, h1⟩ := parse_dict_header_step item rest value result
    obtain ⟨v2, h2⟩ := ih v1 (dictStepP result item)
    exact ⟨v2, by rw [h1, h2, List.foldl_cons]⟩

/-- The same loop against the model's own fold (`Http.dictStep`, in the `Except` monad): the loop
falls through with the model's dict, or - never, see `foldlM_dictStep` - returns the model's error. -/
theorem parse_dict_header_loop_eq (items : List Str) (value : Str) (result : List (Str × Option Str)) :
    ∃ value', Gen.PyFns_HttpDict.parse_dict_header.loop1 items value result =
      match items.foldlM Http.dictStep result with
      | .ok r => .fall (value', r)
      | .error e => .ret (.error e) := by
  obtain ⟨v, h⟩ := parse_dict_header_loop_fall items value result
  exact ⟨v, by rw [h, foldlM_dictStep]⟩

/-- `parse_dict_header(value)`, as translated from the current source (`parse_list_header` - itself
translated, `Props/C06T.parse_list_header_eq` -, then the loop above), equals the model's
`parseDictHeader` - the function C06's dict round-trip theorems are about - for every text; in
particular the real function, like the model, never raises on a `str`. -/
theorem parse_dict_header_eq (v : List Char) :
    Gen.PyFns_HttpDict.parse_dict_header v = Http.parseDictHeader v := by
  unfold Gen.PyFns_HttpDict.parse_dict_header Http.parseDictHeader
  rw [Wz.Props.C06T.parse_list_header_eq, foldlM_dictStep]
  obtain ⟨v', h⟩ := parse_dict_header_loop_fall (Http.parseListHeader v) v []
  simp only [h]

/-- `parse_dict_header` never raises. -/
theorem parse_dict_header_ok (v : List Char) :
    Gen.PyFns_HttpDict.parse_dict_header v = .ok ((Http.parseListHeader v).foldl dictStepP []) := by
  rw [parse_dict_header_eq]; exact foldlM_dictStep _ _

/-- `parse_cache_control_header(value)`, as translated from the current source (a missing or empty
value gives the empty object, anything else `cls(parse_dict_header(value))`; the translation
returns the dict handed to the `RequestCacheControl` / `ResponseCacheControl` constructor), equals
the model's `parseCacheControl` - the function C16's cache-control theorems start from - for every
value including `None`. -/
theorem parse_cache_control_header_eq (value : Option (List Char)) :
    Gen.PyFns_HttpDict.parse_cache_control_header value () () =
      match value with
      | none => .ok []
      | some v => Http.parseCacheControl v := by
  cases value with
  | none => rfl
  | some v =>
    unfold Gen.PyFns_HttpDict.parse_cache_control_header Http.parseCacheControl
    simp only [parse_dict_header_eq, id]
    by_cases h : v.isEmpty = true
    · simp [h]
    · simp only [h, Bool.false_eq_true, if_false]
      cases Http.parseDictHeader v <;> rfl

end Wz.PyFnsEq.HttpDict
