/-
Helper lemmas for the `parse_options_header` model (C02). Core Lean only.
-/
import WzVerif.Model.FormOptions
namespace Wz.FormOptions
open Wz

/-- does `pat` occur in `s`? -/
def hasSub (pat : List Char) : List Char → Bool
  | [] => pat.isEmpty
  | c :: t => pat.isPrefixOf (c :: t) || hasSub pat t

/-- the names / filenames the multipart header syntax can carry unescaped: no double quote, no
backslash and not the literal sequence `%22` -/
def NameOk (n : List Char) : Prop :=
  '"' ∉ n ∧ '\\' ∉ n ∧ hasSub ['%', '2', '2'] n = false

instance (n : List Char) : Decidable (NameOk n) := by unfold NameOk; infer_instance

/-! ### str.replace without an occurrence -/

theorem replaceAll_no_sub {pat rep : List Char} (fuel : Nat) (s : List Char) (_hp : pat ≠ [])
    (h : hasSub pat s = false) : replaceAll pat rep fuel s = s := by
  induction fuel generalizing s with
  | zero => rfl
  | succ fuel ih =>
    cases s with
    | nil => rfl
    | cons c t =>
      simp only [hasSub, Bool.or_eq_false_iff] at h
      simp only [replaceAll, h.1, Bool.false_eq_true, if_false]
      rw [ih t h.2]

theorem replace_no_sub {pat rep s : List Char} (hp : pat ≠ []) (h : hasSub pat s = false) :
    replace pat rep s = s := replaceAll_no_sub _ s hp h

theorem hasSub_of_not_mem {a b : Char} {s : List Char} (h : a ∉ s) : hasSub [a, b] s = false := by
  induction s with
  | nil => rfl
  | cons c t ih =>
    simp only [hasSub, Bool.or_eq_false_iff]
    constructor
    · have : (a == c) = false := by
        simp; intro he; subst he; exact h (by simp)
      simp [List.isPrefixOf, this]
    · exact ih (fun hm => h (by simp [hm]))

theorem unquoteValue_quoted {n : List Char} (h : NameOk n) : unquoteValue ('"' :: (n ++ ['"'])) = n := by
  rcases h with ⟨_, h2, h3⟩
  have hh : ('"' :: (n ++ ['"'])).head? = some '"' := rfl
  have hl : ('"' :: (n ++ ['"'])).getLast? = some '"' := by
    have : '"' :: (n ++ ['"']) = ('"' :: n) ++ ['"'] := rfl
    rw [this, List.getLast?_append]; simp
  have hd : (('"' :: (n ++ ['"'])).drop 1).dropLast = n := by simp
  unfold unquoteValue
  rw [hh, hl, hd]
  simp only [beq_self_eq_true, Bool.and_self, if_true]
  rw [replace_no_sub (by simp) (hasSub_of_not_mem h2), replace_no_sub (by simp) (hasSub_of_not_mem h2),
    replace_no_sub (by simp) h3]

/-! ### the closing quote -/

theorem closeQuote_cons (c : Char) (t : List Char) :
    closeQuote (c :: t) =
      if c == '\\' then
        match t with
        | d :: t2 =>
          if d == '\\' || d == '"' then (closeQuote t2).map fun (b, r) => (c :: d :: b, r)
          else (closeQuote t).map fun (b, r) => (c :: b, r)
        | [] => none
      else if c == '"' then some ([], t)
      else (closeQuote t).map fun (b, r) => (c :: b, r) := by
  cases t <;> rfl

theorem closeQuote_plain {n : List Char} (T : List Char) (h1 : '"' ∉ n) (h2 : '\\' ∉ n) :
    closeQuote (n ++ '"' :: T) = some (n, T) := by
  induction n with
  | nil => rw [List.nil_append, closeQuote_cons]; simp
  | cons c t ih =>
    have hc1 : (c == '"') = false := by simp; intro he; subst he; exact h1 (by simp)
    have hc2 : (c == '\\') = false := by simp; intro he; subst he; exact h2 (by simp)
    have ih' := ih (fun hm => h1 (by simp [hm])) (fun hm => h2 (by simp [hm]))
    rw [List.cons_append, closeQuote_cons]
    simp only [hc1, hc2, Bool.false_eq_true, if_false, ih']
    rfl

/-! ### one `key="value"` section -/

theorem takeWhile_token_key {K : List Char} (R : List Char) (hK : ∀ c ∈ K, isTokenCh c = true) :
    (K ++ '=' :: R).takeWhile isTokenCh = K ∧ (K ++ '=' :: R).dropWhile isTokenCh = '=' :: R := by
  have h1 : isTokenCh '=' = false := by decide
  constructor
  · rw [List.takeWhile_append_of_pos hK]; simp [h1]
  · rw [List.dropWhile_append_of_pos hK]; simp [h1]

/-- one iteration of the collecting loop on `key="n"` followed by `T` -/
theorem collectParts_quoted {K n : List Char} (T : List Char) (fuel : Nat) (hK : ∀ c ∈ K, isTokenCh c = true)
    (hKne : K ≠ []) (hn : NameOk n) :
    collectParts (fuel + 1) (K ++ '=' :: '"' :: n ++ '"' :: T) =
      match afterSemi T with
      | none => [(lowerAscii K, '"' :: n ++ ['"'])]
      | some r => (lowerAscii K, '"' :: n ++ ['"']) :: collectParts fuel (lstrip r) := by
  rcases takeWhile_token_key ('"' :: n ++ '"' :: T) hK with ⟨h1, h2⟩
  have hq : isTokenCh '"' = false := by decide
  have htok : ('"' :: n ++ '"' :: T).takeWhile isTokenCh = [] := by simp [hq]
  have hcq := closeQuote_plain T hn.1 hn.2.1
  cases K with
  | nil => exact absurd rfl hKne
  | cons k0 K' =>
    have e1 : ((k0 :: K') ++ '=' :: '"' :: n ++ '"' :: T) = (k0 :: K') ++ '=' :: ('"' :: n ++ '"' :: T) := by simp
    rw [e1]
    simp only [collectParts, h1, h2, htok, List.isEmpty_nil, Bool.not_true, Bool.false_eq_true, if_false]
    have e2 : ('"' :: n ++ '"' :: T) = '"' :: (n ++ '"' :: T) := rfl
    rw [e2]
    simp only [hcq]
    cases afterSemi T with
    | none => rfl
    | some r => rfl

/-! ### the Content-Disposition value written by the encoder -/

def kFormData : List Char := ['f', 'o', 'r', 'm', '-', 'd', 'a', 't', 'a']
def kName : List Char := ['n', 'a', 'm', 'e']
def kFilename : List Char := ['f', 'i', 'l', 'e', 'n', 'a', 'm', 'e']

/-- `form-data; name="n"` followed by `; filename="f"` when there is a filename -/
def dispositionValue (n : List Char) (f : Option (List Char)) : List Char :=
  kFormData ++ ';' :: ' ' :: (kName ++ '=' :: '"' :: n ++ '"' ::
    (match f with
     | none => []
     | some f => ';' :: ' ' :: (kFilename ++ '=' :: '"' :: f ++ ['"'])))

theorem rstripBy_last {p : Char → Bool} (xs : List Char) {c : Char} (hc : p c = false) :
    Py.rstripBy p (xs ++ [c]) = xs ++ [c] := by
  simp [Py.rstripBy, hc]

theorem strip_kFormData : Py.strip kFormData = kFormData := by decide

/-- the section after the first `;`, stripped -/
def dispositionRest (n : List Char) (f : Option (List Char)) : List Char :=
  kName ++ '=' :: '"' :: n ++ '"' ::
    (match f with
     | none => []
     | some f => ';' :: ' ' :: (kFilename ++ '=' :: '"' :: f ++ ['"']))

theorem dispositionRest_last (n : List Char) (f : Option (List Char)) :
    ∃ xs, dispositionRest n f = xs ++ ['"'] := by
  cases f with
  | none => exact ⟨kName ++ '=' :: '"' :: n, by simp [dispositionRest]⟩
  | some f =>
    exact ⟨kName ++ '=' :: '"' :: n ++ '"' :: ';' :: ' ' :: (kFilename ++ '=' :: '"' :: f), by
      simp [dispositionRest]⟩

theorem disposition_split (n : List Char) (f : Option (List Char)) :
    Py.strip ((dispositionValue n f).takeWhile (· != ';')) = kFormData ∧
    Py.strip (((dispositionValue n f).dropWhile (· != ';')).drop 1) = dispositionRest n f := by
  have hall : ∀ c ∈ kFormData, (c != ';') = true := by decide
  have hsemi : ((';' : Char) != ';') = false := by decide
  constructor
  · unfold dispositionValue
    rw [List.takeWhile_append_of_pos hall]
    simp only [List.takeWhile, hsemi, List.append_nil]
    exact strip_kFormData
  · unfold dispositionValue
    rw [List.dropWhile_append_of_pos hall]
    simp only [List.dropWhile, hsemi, List.drop_succ_cons, List.drop_zero]
    -- ' ' :: dispositionRest
    have hsp : Py.isSpace ' ' = true := by decide
    have hn : Py.isSpace 'n' = false := by decide
    have e : (' ' :: (kName ++ '=' :: '"' :: n ++ '"' ::
        (match f with
         | none => []
         | some f => ';' :: ' ' :: (kFilename ++ '=' :: '"' :: f ++ ['"'])))).dropWhile Py.isSpace =
        dispositionRest n f := by
      simp [hsp, kName, hn, dispositionRest]
    unfold Py.strip
    rw [e]
    rcases dispositionRest_last n f with ⟨xs, hxs⟩
    rw [hxs]
    exact rstripBy_last xs (by decide)

theorem processParts_two {n f : List Char} (hn : NameOk n) (hf : NameOk f) :
    processParts [(kName, '"' :: (n ++ ['"'])), (kFilename, '"' :: (f ++ ['"']))] [] =
      .ok [(kName, n), (kFilename, f)] := by
  have c1 : continuationKey kName = none := by decide
  have c2 : continuationKey kFilename = none := by decide
  have g1 : (kName.getLast? == some '*') = false := by decide
  have g2 : (kFilename.getLast? == some '*') = false := by decide
  have ne : (kName == kFilename) = false := by decide
  simp [processParts, g1, g2, c1, c2, unquoteValue_quoted hn, unquoteValue_quoted hf, assign, ne]

theorem processParts_one {n : List Char} (hn : NameOk n) :
    processParts [(kName, '"' :: (n ++ ['"']))] [] = .ok [(kName, n)] := by
  have c1 : continuationKey kName = none := by decide
  have g1 : (kName.getLast? == some '*') = false := by decide
  simp [processParts, g1, c1, unquoteValue_quoted hn, assign]

theorem kName_token : ∀ c ∈ kName, isTokenCh c = true := by decide
theorem kFilename_token : ∀ c ∈ kFilename, isTokenCh c = true := by decide

/-- the `filename` option, when there is one -/
def filenameOpt : Option (List Char) → List (List Char × List Char)
  | none => []
  | some x => [(kFilename, x)]

/-- **parse_options_header on the encoder's Content-Disposition.** -/
theorem parseOptions_disposition_lemma (n : List Char) (f : Option (List Char)) (hn : NameOk n)
    (hf : ∀ x, f = some x → NameOk x) :
    parseOptionsHeader (dispositionValue n f) = .ok (kFormData, (kName, n) :: filenameOpt f) := by
  rcases disposition_split n f with ⟨h1, h2⟩
  unfold parseOptionsHeader
  simp only [h1, h2]
  have hne1 : kFormData.isEmpty = false := by decide
  have hne2 : (dispositionRest n f).isEmpty = false := by simp [dispositionRest, kName]
  simp only [hne1, hne2, Bool.or_self, Bool.false_eq_true, if_false]
  cases f with
  | none =>
    have hcp : collectParts ((dispositionRest n none).length + 1) (dispositionRest n none) =
        [(kName, '"' :: n ++ ['"'])] := by
      have := collectParts_quoted (K := kName) (n := n) [] (dispositionRest n none).length kName_token
        (by decide) hn
      simpa [dispositionRest, afterSemi, lowerAscii, kName] using this
    rw [hcp]
    have := processParts_one hn
    simp only [List.cons_append] at this ⊢
    rw [this]; rfl
  | some x =>
    have hx := hf x rfl
    have key : ∀ fuel, collectParts (fuel + 2) (dispositionRest n (some x)) =
        [(kName, '"' :: n ++ ['"']), (kFilename, '"' :: x ++ ['"'])] := by
      intro fuel
      have s1 := collectParts_quoted (K := kName) (n := n)
        (';' :: ' ' :: (kFilename ++ '=' :: '"' :: x ++ ['"'])) (fuel + 1) kName_token (by decide) hn
      have s2 := collectParts_quoted (K := kFilename) (n := x) [] fuel kFilename_token (by decide) hx
      have hlow1 : lowerAscii kName = kName := by decide
      have hlow2 : lowerAscii kFilename = kFilename := by decide
      have hls : lstrip (' ' :: (kFilename ++ '=' :: '"' :: x ++ ['"'])) =
          kFilename ++ '=' :: '"' :: x ++ '"' :: [] := by
        have hsp : Py.isSpace ' ' = true := by decide
        have hfch : Py.isSpace 'f' = false := by decide
        simp [lstrip, List.dropWhile, hsp, kFilename, hfch]
      simp only [afterSemi, beq_self_eq_true, if_true, hls, hlow1] at s1
      simp only [afterSemi, hlow2] at s2
      rw [s2] at s1
      simpa [dispositionRest] using s1
    have hcp : collectParts ((dispositionRest n (some x)).length + 1) (dispositionRest n (some x)) =
        [(kName, '"' :: n ++ ['"']), (kFilename, '"' :: x ++ ['"'])] := by
      have hk : (dispositionRest n (some x)).length + 1 = ((dispositionRest n (some x)).length - 1) + 2 := by
        simp [dispositionRest, kName]
      rw [hk]; exact key _
    rw [hcp]
    have := processParts_two hn hx
    simp only [List.cons_append] at this ⊢
    rw [this]; rfl

end Wz.FormOptions
