/-
Helper lemmas for the URL-encoding model (C02). Core Lean only.
-/
import WzVerif.Model.Urlencode
import WzVerif.Lemmas.Utf8Facts
namespace Wz.Urlencode
open Wz

/-! ### characters and bytes -/

theorem char_ofNat_toNat_small (n : Nat) (h : n < 256) : (Char.ofNat n).toNat = n := by
  have hv : n.isValidChar := Or.inl (by omega)
  simp [Char.ofNat, hv, Char.ofNatAux, Char.toNat]

theorem byteChar_toNat (b : UInt8) : (Char.ofNat b.toNat).toNat = b.toNat :=
  char_ofNat_toNat_small _ b.toNat_lt

theorem byteChar_inj {a b : UInt8} (h : Char.ofNat a.toNat = Char.ofNat b.toNat) : a = b := by
  have := congrArg Char.toNat h
  rw [byteChar_toNat, byteChar_toNat] at this
  exact UInt8.toNat_inj.1 this

/-- `+` -> space on bytes (what `str.replace('+', ' ')` does to ASCII text) -/
def p2s (b : UInt8) : UInt8 := if b == 43 then 32 else b

/-- the per-byte encoder that `quote_plus` amounts to -/
def encPlus (safe : Bytes) (b : UInt8) : Bytes :=
  if b == 32 then [43] else if kept safe b then [b] else pct b

/-- what the round trips need from the `safe` set: `%`, `+`, `&`, `=` are always escaped -/
def SafeOk (safe : Bytes) : Prop :=
  kept safe 37 = false ∧ kept safe 43 = false ∧ kept safe 38 = false ∧ kept safe 61 = false

instance (safe : Bytes) : Decidable (SafeOk safe) := by unfold SafeOk; infer_instance

theorem hexUpper_facts : ∀ n, n < 16 →
    hexVal? (hexUpper n) = some n ∧ hexUpper n ≠ 32 ∧ hexUpper n ≠ 43 ∧ hexUpper n ≠ 38 ∧
    hexUpper n ≠ 61 ∧ hexUpper n ≠ 37 ∧ hexUpper n < 128 := by
  decide

theorem pct_eq (b : UInt8) : pct b = [37, hexUpper (b.toNat / 16), hexUpper (b.toNat % 16)] := rfl

theorem div16_lt (b : UInt8) : b.toNat / 16 < 16 := by
  have := b.toNat_lt; omega

theorem mod16_lt (b : UInt8) : b.toNat % 16 < 16 := Nat.mod_lt _ (by omega)

/-- every byte written by the encoder is ASCII and is none of `&`, `=` -/
theorem encPlus_bytes {safe : Bytes} (hs : SafeOk safe) (b x : UInt8) (hx : x ∈ encPlus safe b) :
    x ≠ 38 ∧ x ≠ 61 ∧ x < 128 := by
  unfold encPlus at hx
  split at hx
  · simp at hx; subst hx; decide
  · split at hx
    · rename_i hk
      simp at hx; subst hx
      refine ⟨?_, ?_, ?_⟩
      · intro h; subst h; rw [hs.2.2.1] at hk; simp at hk
      · intro h; subst h; rw [hs.2.2.2] at hk; simp at hk
      · -- kept bytes are ASCII: always-safe ones by the table, the others by definition
        unfold kept at hk
        simp only [Bool.or_eq_true, Bool.and_eq_true, decide_eq_true_eq] at hk
        rcases hk with hk | hk
        · have : ∀ n, n < 256 → Gen.Urlencode.alwaysSafe.getD n false = true → n < 128 := by
            decide +kernel
          have h2 := this x.toNat x.toNat_lt hk
          exact UInt8.lt_iff_toNat_lt.2 (by simpa using h2)
        · exact hk.1
    · rw [pct_eq] at hx
      have h1 := hexUpper_facts _ (div16_lt b)
      have h2 := hexUpper_facts _ (mod16_lt b)
      simp at hx
      rcases hx with rfl | rfl | rfl
      · decide
      · exact ⟨h1.2.2.2.1, h1.2.2.2.2.1, h1.2.2.2.2.2.2⟩
      · exact ⟨h2.2.2.2.1, h2.2.2.2.2.1, h2.2.2.2.2.2.2⟩

/-! ### quote_plus is a per-byte encoder -/

theorem kept_append_space {safe : Bytes} {b : UInt8} (hb : b ≠ 32) :
    kept (safe ++ [32]) b = kept safe b := by
  unfold kept
  have : (safe ++ [32]).contains b = safe.contains b := by
    simp [List.contains_eq_mem, hb]
  rw [this]

theorem kept_space (safe : Bytes) : kept (safe ++ [32]) 32 = true := by
  unfold kept; simp

theorem quotePlus_eq_flatMap (safe bs : Bytes) : quotePlus safe bs = bs.flatMap (encPlus safe) := by
  unfold quotePlus
  split
  · unfold quoteFromBytes
    rw [List.map_flatMap]
    congr 1
    funext b
    unfold encPlus
    by_cases hb : b = 32
    · subst hb; simp [kept_space]
    · have hb' : (b == 32) = false := by simp [hb]
      rw [kept_append_space hb, hb']
      simp only [Bool.false_eq_true, if_false]
      split
      · simp [hb]
      · rw [pct_eq]
        have h1 := hexUpper_facts _ (div16_lt b)
        have h2 := hexUpper_facts _ (mod16_lt b)
        simp [h1.2.1, h2.2.1]
  · rename_i hc
    unfold quoteFromBytes
    have hall : ∀ b ∈ bs, b ≠ 32 := by
      intro b hb h; subst h
      exact hc (List.contains_iff_mem.2 hb)
    clear hc
    induction bs with
    | nil => rfl
    | cons b t ih =>
      simp only [List.flatMap_cons]
      rw [ih (fun x hx => hall x (by simp [hx]))]
      congr 1
      unfold encPlus
      have : (b == 32) = false := by simp [hall b (by simp)]
      rw [this]; simp

/-! ### unquoting what was quoted -/

theorem unquoteBytes_cons_ne {c : UInt8} (rest : Bytes) (h : c ≠ 37) :
    unquoteBytes (c :: rest) = c :: unquoteBytes rest := by
  have hc : (c == 37) = false := by simp [h]
  match rest with
  | [] => simp [unquoteBytes]
  | [a] => simp [unquoteBytes]
  | a :: b :: t => simp [unquoteBytes, hc]

theorem unquoteBytes_pct {a b : UInt8} {x y : Nat} (t : Bytes) (ha : hexVal? a = some x)
    (hb : hexVal? b = some y) :
    unquoteBytes (37 :: a :: b :: t) = UInt8.ofNat (16 * x + y) :: unquoteBytes t := by
  simp [unquoteBytes, ha, hb]

theorem p2s_map_encPlus {safe : Bytes} (hs : SafeOk safe) (b : UInt8) (rest : Bytes) :
    unquoteBytes ((encPlus safe b).map p2s ++ rest) = b :: unquoteBytes rest := by
  unfold encPlus
  by_cases hb : b = 32
  · subst hb; simp [p2s, unquoteBytes_cons_ne]
  · have hb' : (b == 32) = false := by simp [hb]
    rw [hb']
    simp only [Bool.false_eq_true, if_false]
    split
    · rename_i hk
      have h37 : b ≠ 37 := by intro h; subst h; rw [hs.1] at hk; simp at hk
      have h43 : b ≠ 43 := by intro h; subst h; rw [hs.2.1] at hk; simp at hk
      simp [p2s, h43, unquoteBytes_cons_ne _ h37]
    · rw [pct_eq]
      have h1 := hexUpper_facts _ (div16_lt b)
      have h2 := hexUpper_facts _ (mod16_lt b)
      simp only [List.map_cons, List.map_nil, List.cons_append, List.nil_append]
      have e1 : p2s 37 = 37 := by decide
      have e2 : p2s (hexUpper (b.toNat / 16)) = hexUpper (b.toNat / 16) := by
        simp [p2s, h1.2.2.1]
      have e3 : p2s (hexUpper (b.toNat % 16)) = hexUpper (b.toNat % 16) := by
        simp [p2s, h2.2.2.1]
      rw [e1, e2, e3, unquoteBytes_pct _ h1.1 h2.1, Nat.div_add_mod]
      simp

/-- **percent-encoding round trip on bytes** -/
theorem unquoteBytes_quotePlus {safe : Bytes} (hs : SafeOk safe) (bs : Bytes) :
    unquoteBytes ((quotePlus safe bs).map p2s) = bs := by
  rw [quotePlus_eq_flatMap]
  induction bs with
  | nil => simp [unquoteBytes]
  | cons b t ih =>
    simp only [List.flatMap_cons, List.map_append]
    rw [p2s_map_encPlus hs, ih]

theorem quotePlus_bytes {safe : Bytes} (hs : SafeOk safe) (bs : Bytes) (x : UInt8)
    (hx : x ∈ quotePlus safe bs) : x ≠ 38 ∧ x ≠ 61 ∧ x < 128 := by
  rw [quotePlus_eq_flatMap] at hx
  rcases List.mem_flatMap.1 hx with ⟨b, _, hb⟩
  exact encPlus_bytes hs b x hb

/-! ### text level -/

theorem asciiStr_cons (b : UInt8) (t : Bytes) : asciiStr (b :: t) = Char.ofNat b.toNat :: asciiStr t := rfl
theorem asciiStr_append (a b : Bytes) : asciiStr (a ++ b) = asciiStr a ++ asciiStr b := by
  simp [asciiStr]

theorem decodeUrlQuote_nil : decodeUrlQuote [] = [] := by decide

theorem decodeUrlQuote_utf8Enc (s : Str) : decodeUrlQuote (utf8Enc s) = s := by
  simp [decodeUrlQuote, utf8Dec_utf8Enc]

theorem unquoteGo_ascii (bs : Bytes) : ∀ acc : Bytes, (∀ x ∈ bs, x < 128) →
    unquoteGo acc (asciiStr bs) = flushRun (bs.reverse ++ acc) := by
  induction bs with
  | nil => intro acc _; simp [asciiStr, unquoteGo]
  | cons b t ih =>
    intro acc h
    have hb : b < 128 := h b (by simp)
    have hlt : (Char.ofNat b.toNat).toNat < 128 := by
      rw [byteChar_toNat]; exact UInt8.lt_iff_toNat_lt.1 hb
    rw [asciiStr_cons]
    simp only [unquoteGo, hlt, if_true]
    rw [byteChar_toNat, UInt8.ofNat_toNat, ih _ (fun x hx => h x (by simp [hx]))]
    simp

theorem unquote_ascii (bs : Bytes) (h : ∀ x ∈ bs, x < 128) :
    unquote (asciiStr bs) = decodeUrlQuote (unquoteBytes bs) := by
  unfold unquote
  rw [unquoteGo_ascii bs [] h]
  simp only [List.append_nil, flushRun]
  cases bs with
  | nil => simp [unquoteBytes, decodeUrlQuote_nil]
  | cons b t => simp

theorem plusToSpace_ascii (bs : Bytes) : plusToSpace (asciiStr bs) = asciiStr (bs.map p2s) := by
  induction bs with
  | nil => rfl
  | cons b t ih =>
    simp only [asciiStr_cons, plusToSpace, List.map_cons] at ih ⊢
    rw [ih]
    congr 1
    by_cases hb : b = 43
    · subst hb; decide
    · have hne : Char.ofNat b.toNat ≠ '+' := by
        intro h
        have : Char.ofNat b.toNat = Char.ofNat (43 : UInt8).toNat := by rw [h]; decide
        exact hb (byteChar_inj this)
      simp [hne, p2s, hb]

theorem p2s_lt {x : UInt8} (h : x < 128) : p2s x < 128 := by
  unfold p2s; split
  · decide
  · exact h

/-- **one quoted string comes back**: `unquote(quote_plus(s).replace('+', ' ')) == s` -/
theorem unquote_quotePlusStr {safe : Bytes} (hs : SafeOk safe) (s : Str) :
    unquote (plusToSpace (asciiStr (quotePlusStr safe s))) = s := by
  rw [plusToSpace_ascii, unquote_ascii]
  · unfold quotePlusStr
    rw [unquoteBytes_quotePlus hs, decodeUrlQuote_utf8Enc]
  · intro x hx
    rcases List.mem_map.1 hx with ⟨y, hy, rfl⟩
    exact p2s_lt (quotePlus_bytes hs _ y hy).2.2

/-! ### splitting what was joined -/

def joinS (sep : Char) : List Str → Str
  | [] => []
  | [x] => x
  | x :: y :: t => x ++ sep :: joinS sep (y :: t)

theorem splitOn_no_sep {sep : Char} {x : Str} (h : sep ∉ x) : splitOn sep x = [x] := by
  induction x with
  | nil => rfl
  | cons c t ih =>
    have hc : (c == sep) = false := by
      simp; intro he; subst he; exact h (by simp)
    simp only [splitOn, hc]
    rw [ih (fun hm => h (by simp [hm]))]
    simp

theorem splitOn_append_sep {sep : Char} {x : Str} (r : Str) (h : sep ∉ x) :
    splitOn sep (x ++ sep :: r) = x :: splitOn sep r := by
  induction x with
  | nil => simp [splitOn]
  | cons c t ih =>
    have hc : (c == sep) = false := by
      simp; intro he; subst he; exact h (by simp)
    simp only [List.cons_append, splitOn, hc]
    rw [ih (fun hm => h (by simp [hm]))]
    simp

theorem splitOn_joinS {sep : Char} (ps : List Str) (hne : ps ≠ []) (h : ∀ p ∈ ps, sep ∉ p) :
    splitOn sep (joinS sep ps) = ps := by
  induction ps with
  | nil => exact absurd rfl hne
  | cons x t ih =>
    cases t with
    | nil => simpa [joinS] using splitOn_no_sep (h x (by simp))
    | cons y t =>
      simp only [joinS]
      rw [splitOn_append_sep _ (h x (by simp)), ih (by simp) (fun p hp => h p (by simp [hp]))]

theorem asciiStr_joinWith (ps : List Bytes) :
    asciiStr (joinWith 38 ps) = joinS '&' (ps.map asciiStr) := by
  induction ps with
  | nil => rfl
  | cons x t ih =>
    cases t with
    | nil => rfl
    | cons y t =>
      simp only [joinWith, List.map_cons, joinS] at ih ⊢
      rw [asciiStr_append, asciiStr_cons, ih]
      rfl

theorem mem_asciiStr {c : Char} {bs : Bytes} (h : c ∈ asciiStr bs) : ∃ b ∈ bs, c = Char.ofNat b.toNat := by
  simp only [asciiStr, List.mem_map] at h
  rcases h with ⟨b, hb, rfl⟩
  exact ⟨b, hb, rfl⟩

theorem amp_not_mem {bs : Bytes} (h : ∀ x ∈ bs, x ≠ 38) : '&' ∉ asciiStr bs := by
  intro hm
  rcases mem_asciiStr hm with ⟨b, hb, he⟩
  have : Char.ofNat b.toNat = Char.ofNat (38 : UInt8).toNat := by rw [← he]; decide
  exact h b hb (byteChar_inj this)

theorem takeWhile_ne_eq (a b : Bytes) (h : ∀ x ∈ a, x ≠ 61) :
    (asciiStr (a ++ 61 :: b)).takeWhile (· != '=') = asciiStr a ∧
    (asciiStr (a ++ 61 :: b)).dropWhile (· != '=') = '=' :: asciiStr b := by
  induction a with
  | nil => constructor <;> simp [asciiStr] <;> decide
  | cons x t ih =>
    have hx : (Char.ofNat x.toNat != '=') = true := by
      simp
      intro he
      have : Char.ofNat x.toNat = Char.ofNat (61 : UInt8).toNat := by rw [he]; decide
      exact h x (by simp) (byteChar_inj this)
    rcases ih (fun y hy => h y (by simp [hy])) with ⟨i1, i2⟩
    constructor
    · simp only [List.cons_append, asciiStr_cons, List.takeWhile, hx]; rw [i1]
    · simp only [List.cons_append, asciiStr_cons, List.dropWhile, hx]; rw [i2]

/-- **parse_qsl ∘ urlencode = id** -/
theorem parseQsl_urlencode_lemma {safe : Bytes} (hs : SafeOk safe) (items : List (Str × Str)) :
    parseQsl true (asciiStr (urlencode safe items)) = items := by
  cases items with
  | nil => simp [urlencode, joinWith, asciiStr, parseQsl]
  | cons it rest =>
    -- the pieces
    let piece : Str × Str → Bytes := fun kv => quotePlusStr safe kv.1 ++ 61 :: quotePlusStr safe kv.2
    have hpieces : urlencode safe (it :: rest) = joinWith 38 ((it :: rest).map piece) := by
      simp only [urlencode]; rfl
    have hno38 : ∀ kv : Str × Str, ∀ x ∈ piece kv, x ≠ 38 := by
      intro kv x hx
      simp only [piece, List.mem_append, List.mem_cons] at hx
      rcases hx with hx | rfl | hx
      · exact (quotePlus_bytes hs _ x hx).1
      · decide
      · exact (quotePlus_bytes hs _ x hx).1
    have hne : (asciiStr (urlencode safe (it :: rest))).isEmpty = false := by
      rw [hpieces]
      cases rest with
      | nil => simp [joinWith, piece, asciiStr]
      | cons y t => simp [joinWith, piece, asciiStr]
    unfold parseQsl
    rw [hne]
    simp only [Bool.false_eq_true, if_false]
    rw [hpieces, asciiStr_joinWith, splitOn_joinS _ (by simp)]
    · -- every piece parses back to its item
      have hf : ∀ kv : Str × Str, parsePair true (asciiStr (piece kv)) = some kv := by
        intro kv
        rcases kv with ⟨k, v⟩
        have hk : ∀ x ∈ quotePlusStr safe k, x ≠ 61 := fun x hx => (quotePlus_bytes hs _ x hx).2.1
        rcases takeWhile_ne_eq (quotePlusStr safe k) (quotePlusStr safe v) hk with ⟨h1, h2⟩
        have hne' : (asciiStr (piece (k, v))).isEmpty = false := by simp [piece, asciiStr]
        unfold parsePair
        simp only [hne', Bool.false_eq_true, if_false, piece, h1, h2, Bool.or_true, if_true]
        rw [unquote_quotePlusStr hs, unquote_quotePlusStr hs]
      have : ∀ l : List (Str × Str),
          (l.map (fun kv => asciiStr (piece kv))).filterMap (parsePair true) = l := by
        intro l
        induction l with
        | nil => rfl
        | cons a t ih => simp only [List.map_cons, List.filterMap_cons, hf a]; rw [ih]
      have h2 := this (it :: rest)
      rw [List.map_map]
      exact h2
    · intro p hp
      simp only [List.map_map, List.mem_map] at hp
      rcases hp with ⟨kv, _, rfl⟩
      exact amp_not_mem (hno38 kv)

/-! ### the url-encoded body as the form parser reads it -/

theorem utf8Enc_asciiStr (bs : Bytes) (h : ∀ x ∈ bs, x < 128) : utf8Enc (asciiStr bs) = bs := by
  induction bs with
  | nil => rfl
  | cons b t ih =>
    have hb : b < 128 := h b (by simp)
    have hlt : (Char.ofNat b.toNat).toNat < 128 := by
      rw [byteChar_toNat]; exact UInt8.lt_iff_toNat_lt.1 hb
    rw [asciiStr_cons, Utf8Facts.utf8Enc_cons, Utf8Facts.utf8EncodeChar_ascii _ hlt, byteChar_toNat, UInt8.ofNat_toNat,
      ih (fun x hx => h x (by simp [hx]))]
    rfl

theorem mem_joinWith {sep x : UInt8} : ∀ {ps : List Bytes}, x ∈ joinWith sep ps → x = sep ∨ ∃ p ∈ ps, x ∈ p
  | [], h => by simp [joinWith] at h
  | [p], h => Or.inr ⟨p, by simp, by simpa [joinWith] using h⟩
  | p :: q :: t, h => by
    simp only [joinWith, List.mem_append, List.mem_cons] at h
    rcases h with h | rfl | h
    · exact Or.inr ⟨p, by simp, h⟩
    · exact Or.inl rfl
    · rcases mem_joinWith (ps := q :: t) h with h | ⟨r, hr, hx⟩
      · exact Or.inl h
      · exact Or.inr ⟨r, by simp [hr], hx⟩

theorem urlencode_ascii {safe : Bytes} (hs : SafeOk safe) (items : List (Str × Str)) :
    ∀ x ∈ urlencode safe items, x < 128 := by
  intro x hx
  unfold urlencode at hx
  rcases mem_joinWith hx with rfl | ⟨p, hp, hxp⟩
  · decide
  · rcases List.mem_map.1 hp with ⟨kv, _, rfl⟩
    simp only [List.mem_append, List.mem_cons] at hxp
    rcases hxp with h | rfl | h
    · exact (quotePlus_bytes hs _ x h).2.2
    · decide
    · exact (quotePlus_bytes hs _ x h).2.2

/-- `_parse_urlencoded` (no limit) applied to what `_urlencode` writes returns the items -/
theorem parseUrlencoded_urlencode {safe : Bytes} (hs : SafeOk safe) (items : List (Str × Str))
    (cl : Option Nat) (sched : List Nat) :
    parseUrlencoded none cl sched (urlencode safe items) = .ok items := by
  have hdec : utf8Dec? (urlencode safe items) = some (asciiStr (urlencode safe items)) := by
    have := utf8Enc_asciiStr _ (urlencode_ascii hs items)
    rw [← this, utf8Dec_utf8Enc, this]
  simp only [parseUrlencoded, urlencodedRead, hdec, parseQsl_urlencode_lemma hs items]

end Wz.Urlencode
