/-
Routing lemmas, part 15 (C04): `parse_render_admits` with one trailing path converter — after a
slash-consuming part the rest of the rule is literal text and slashes, kept in the part's own pattern.
-/
import WzVerif.Lemmas.RoutingRender2
import WzVerif.Lemmas.RoutingRedirect
namespace Wz.Routing

/-- literal text and slashes only -/
def TailToks : List Tok → Prop
  | [] => True
  | .slash :: t => TailToks t
  | .lit _ :: t => TailToks t
  | .var .. :: _ => False

/-- the property's grammar: isolating converters, literals without '/', optionally one path converter
after which only literal text and slashes follow -/
def GramToks : List Tok → Prop
  | [] => True
  | .slash :: t => GramToks t
  | .lit s :: t => noSlash s ∧ GramToks t
  | .var c _ :: t => (c.partIsolating = true ∧ GramToks t) ∨ (c = .path ∧ TailToks t)

theorem joinWith_splitOn (c : Char) (s : Str) : joinWith c (splitOn c s) = s := by
  induction s with
  | nil => simp [splitOn, joinWith]
  | cons x t ih =>
    simp only [splitOn]
    split
    · rename_i hx
      have hx : x = c := by simpa using hx
      subst hx
      cases hs : splitOn x t with
      | nil => exact absurd hs (splitOn_ne_nil _ _)
      | cons a b => rw [hs] at ih; simp [joinWith, ih]
    · cases hs : splitOn c t with
      | nil => exact absurd hs (splitOn_ne_nil _ _)
      | cons a b =>
        rw [hs] at ih
        cases b with
        | nil => simp only [joinWith] at ih ⊢; rw [ih]
        | cons b1 b2 => simp only [joinWith, List.cons_append] at ih ⊢; rw [ih]

/-- after a slash-consuming converter, `_parse_rule` only extends the part's literal suffix -/
theorem parseToks_final : ∀ (toks : List Tok) (p : PState) (c : Conv) (n : Str) {parts convs text},
    p.final = true → p.conv = some (c, n) →
    parseToks toks p = some (parts, convs) → renderToks toks [] = some text →
    ∃ w, parts = (if endsWithChar (p.post ++ text) '/'
                  then [.dyn p.pre c.kind (p.post ++ text).dropLast true true w, .static []]
                  else [.dyn p.pre c.kind (p.post ++ text) true false w]) := by
  intro toks
  induction toks with
  | nil =>
    intro p c n parts convs text hf hc hparse hrender
    simp only [renderToks, Option.some.injEq] at hrender
    subst hrender
    simp only [parseToks, hf, Bool.true_and, Option.some.injEq, Prod.mk.injEq] at hparse
    obtain ⟨rfl, _⟩ := hparse
    simp only [List.append_nil]
    cases hs : endsWithChar p.post '/' with
    | true =>
      refine ⟨?_, ?_⟩
      rotate_left
      · simp only [PState.emit, hc, if_true]; rfl
    | false =>
      refine ⟨?_, ?_⟩
      rotate_left
      · simp only [PState.emit, hc, hf, Bool.false_eq_true, if_false]; rfl
  | cons t toks ih =>
    intro p c n parts convs text hf hc hparse hrender
    cases t with
    | lit s =>
      simp only [renderToks, Option.map_eq_some_iff] at hrender
      obtain ⟨text', hr', rfl⟩ := hrender
      simp only [parseToks, hc] at hparse
      obtain ⟨w, hw⟩ := ih _ c n (by simpa using hf) (by simp) hparse hr'
      exact ⟨w, by simpa [List.append_assoc] using hw⟩
    | slash =>
      simp only [renderToks, Option.map_eq_some_iff] at hrender
      obtain ⟨text', hr', rfl⟩ := hrender
      simp only [parseToks, hf, if_true] at hparse
      obtain ⟨w, hw⟩ := ih _ c n (by simp) (by simpa using hc) hparse hr'
      exact ⟨w, by simpa [List.append_assoc] using hw⟩
    | var c' n' =>
      simp [parseToks, hc] at hparse

/-- the slash-consuming part (and the empty part after it, for a branch rule) admits the rest of the
path: `pre ++ value ++ literal rest` -/
theorem final_part_admits (pre : Str) (kind : RKind) (post v : Str) (w : Weighting)
    (hacc : kind.accepts v = true)
    (hsfx : endsWithChar post '/' = true → endsWithChar (pre ++ v ++ post.dropLast) '/' = false) :
    walkVia .direct
      (if endsWithChar post '/' then [.dyn pre kind post.dropLast true true w, .static []]
       else [.dyn pre kind post true false w])
      (splitOn '/' (pre ++ v ++ post)) = some [v] := by
  cases hsp : splitOn '/' (pre ++ v ++ post) with
  | nil => exact absurd hsp (splitOn_ne_nil _ _)
  | cons x xs =>
    have hj : joinWith '/' (x :: xs) = pre ++ v ++ post := by rw [← hsp, joinWith_splitOn]
    cases he : endsWithChar post '/' with
    | false =>
      simp only [Bool.false_eq_true, if_false]
      have hs : step (.dyn pre kind post true false w) (x :: xs) = some ([v], []) := by
        simp only [step, if_true, hj, matchDyn_render pre kind post v hacc, Bool.false_and, Bool.false_eq_true, if_false]
      have := walkVia_cons_of_step (via := .direct) (ps := []) hs (by simp [walkVia] : walkVia .direct [] [] = some [])
      simpa using this
    | true =>
      simp only [if_true]
      have hpost : post = post.dropLast ++ ['/'] := by
        cases hr : post.reverse with
        | nil => simp [List.reverse_eq_nil_iff] at hr; subst hr; simp [endsWithChar] at he
        | cons c t =>
          have hp : post = t.reverse ++ [c] := by
            have := congrArg List.reverse hr
            simpa using this
          have hc : c = '/' := by
            rw [hp] at he
            simpa [endsWithChar] using he
          subst hc
          rw [hp]; simp
      have hm : matchDyn pre kind post.dropLast true (pre ++ v ++ post) = some (v, true) := by
        have hfull : pre ++ v ++ post = (pre ++ v ++ post.dropLast) ++ ['/'] := by
          rw [List.append_assoc (pre ++ v), ← hpost]
        rw [hfull]
        unfold matchDyn
        simp only [endsWithChar_append, Bool.and_self, if_true, List.dropLast_concat, hsfx he, Bool.and_false,
          Bool.false_eq_true, if_false]
        simp [matchCore, List.append_assoc, stripPrefix_append, stripSuffix_append, hacc]
      have hs : step (.dyn pre kind post.dropLast true true w) (x :: xs) = some ([v], [[]]) := by
        simp only [step, if_true, hj, hm, Bool.and_self]
      have h2 : walkVia .direct [.static []] [[]] = some [] := by simp [walkVia, step_static]
      have := walkVia_cons_of_step (via := .direct) hs h2
      simpa using this

end Wz.Routing
