/-
Routing lemmas, part 15 (C04): `parse_render_admits` with one trailing path converter — after a
slash-consuming part the rest of the rule is literal text and slashes, kept in the part's own pattern.
-/
import WzVerif.Lemmas.RoutingRender2
import WzVerif.Lemmas.RoutingRedirect
namespace Wz.Routing

/-- literal text and slashes only -/
def TailToks : List Tok → Prop
  | [] => True
  | .slash :: t => TailToks t
  | .lit _ :: t => TailToks t
  | .var .. :: _ => False

/-- the property's grammar: isolating converters, literals without '/', optionally one path converter
after which only literal text and slashes follow -/
def GramToks : List Tok → Prop
  | [] => True
  | .slash :: t => GramToks t
  | .lit s :: t => noSlash s ∧ GramToks t
  | .var c _ :: t => (c.partIsolating = true ∧ GramToks t) ∨ (c = .path ∧ TailToks t)

theorem joinWith_splitOn (c : Char) (s : Str) : joinWith c (splitOn c s) = s := by
  induction s with
  | nil => simp [splitOn, joinWith]
  | cons x t ih =>
    simp only [splitOn]
    split
    · rename_i hx
      have hx : x = c := by simpa using hx
      subst hx
      cases hs : splitOn x t with
      | nil => exact absurd hs (splitOn_ne_nil _ _)
      | cons a b => rw [hs] at ih; simp [joinWith, ih]
    · cases hs : splitOn c t with
      | nil => exact absurd hs (splitOn_ne_nil _ _)
      | cons a b =>
        rw [hs] at ih
        cases b with
        | nil => simp only [joinWith] at ih ⊢; rw [ih]
        | cons b1 b2 => simp only [joinWith, List.cons_append] at ih ⊢; rw [ih]

/-- after a slash-consuming converter, `_parse_rule` only extends the part's literal suffix -/
theorem parseToks_final : ∀ (toks : List Tok) (p : PState) (c : Conv) (n : Str) {parts convs text},
    p.final = true → p.conv = some (c, n) →
    parseToks toks p = some (parts, convs) → renderToks toks [] = some text →
    ∃ w, parts = (if endsWithChar (p.post ++ text) '/'
                  then [.dyn p.pre c.kind (p.post ++ text).dropLast true true w, .static []]
                  else [.dyn p.pre c.kind (p.post ++ text) true false w]) := by
  intro toks
  induction toks with
  | nil =>
    intro p c n parts convs text hf hc hparse hrender
    simp only [renderToks, Option.some.injEq] at hrender
    subst hrender
    simp only [parseToks, hf, Bool.true_and, Option.some.injEq, Prod.mk.injEq] at hparse
    obtain ⟨rfl, _⟩ := hparse
    simp only [List.append_nil]
    cases hs : endsWithChar p.post '/' with
    | true =>
      refine ⟨?_, ?_⟩
      rotate_left
      · simp only [PState.emit, hc, if_true]; rfl
    | false =>
      refine ⟨?_, ?_⟩
      rotate_left
      · simp only [PState.emit, hc, hf, Bool.false_eq_true, if_false]; rfl
  | cons t toks ih =>
    intro p c n parts convs text hf hc hparse hrender
    cases t with
    | lit s =>
      simp only [renderToks, Option.map_eq_some_iff] at hrender
      obtain ⟨text', hr', rfl⟩ := hrender
      simp only [parseToks, hc] at hparse
      obtain ⟨w, hw⟩ := ih _ c n (by simpa using hf) (by simp) hparse hr'
      exact ⟨w, by simpa [List.append_assoc] using hw⟩
    | slash =>
      simp only [renderToks, Option.map_eq_some_iff] at hrender
      obtain ⟨text', hr', rfl⟩ := hrender
      simp only [parseToks, hf, if_true] at hparse
      obtain ⟨w, hw⟩ := ih _ c n (by simp) (by simpa using hc) hparse hr'
      exact ⟨w, by simpa [List.append_assoc] using hw⟩
    | var c' n' =>
      simp [parseToks, hc] at hparse

/-- the slash-consuming part (and the empty part after it, for a branch rule) admits the rest of the
path: `pre ++ value ++ literal rest` -/
theorem final_part_admits (pre : Str) (kind : RKind) (post v : Str) (w : Weighting)
    (hacc : kind.accepts v = true)
    (hsfx : endsWithChar post '/' = true → endsWithChar (pre ++ v ++ post.dropLast) '/' = false) :
    walkVia .direct
      (if endsWithChar post '/' then [.dyn pre kind post.dropLast true true w, .static []]
       else [.dyn pre kind post true false w])
      (splitOn '/' (pre ++ v ++ post)) = some [v] := by
  cases hsp : splitOn '/' (pre ++ v ++ post) with
  | nil => exact absurd hsp (splitOn_ne_nil _ _)
  | cons x xs =>
    have hj : joinWith '/' (x :: xs) = pre ++ v ++ post := by rw [← hsp, joinWith_splitOn]
    cases he : endsWithChar post '/' with
    | false =>
      simp only [Bool.false_eq_true, if_false]
      have hs : step (.dyn pre kind post true false w) (x :: xs) = some ([v], []) := by
        simp only [step, if_true, hj, matchDyn_render pre kind post v hacc, Bool.false_and, Bool.false_eq_true, if_false]
      have := walkVia_cons_of_step (via := .direct) (ps := []) hs (by simp [walkVia] : walkVia .direct [] [] = some [])
      simpa using this
    | true =>
      simp only [if_true]
      have hpost : post = post.dropLast ++ ['/'] := by
        cases hr : post.reverse with
        | nil => simp [List.reverse_eq_nil_iff] at hr; subst hr; simp [endsWithChar] at he
        | cons c t =>
          have hp : post = t.reverse ++ [c] := by
            have := congrArg List.reverse hr
            simpa using this
          have hc : c = '/' := by
            rw [hp] at he
            simpa [endsWithChar] using he
          subst hc
          rw [hp]; simp
      have hm : matchDyn pre kind post.dropLast true (pre ++ v ++ post) = some (v, true) := by
        have hfull : pre ++ v ++ post = (pre ++ v ++ post.dropLast) ++ ['/'] := by
          rw [List.append_assoc (pre ++ v), ← hpost]
        rw [hfull]
        unfold matchDyn
        simp only [endsWithChar_append, Bool.and_self, if_true, List.dropLast_concat, hsfx he, Bool.and_false,
          Bool.false_eq_true, if_false]
        simp [matchCore, List.append_assoc, stripPrefix_append, stripSuffix_append, hacc]
      have hs : step (.dyn pre kind post.dropLast true true w) (x :: xs) = some ([v], [[]]) := by
        simp only [step, if_true, hj, hm, Bool.and_self]
      have h2 : walkVia .direct [.static []] [[]] = some [] := by simp [walkVia, step_static]
      have := walkVia_cons_of_step (via := .direct) hs h2
      simpa using this

end Wz.Routing

namespace Wz.Routing

/-- the condition on a path value: when the rule goes on after the path converter and ends in '/',
the text in front of that final slash must not end in '/' itself (werkzeug's `(?<!/)`) -/
def PathTailOK : List Tok → List Str → Prop
  | [], _ => True
  | .slash :: t, vs => PathTailOK t vs
  | .lit _ :: t, vs => PathTailOK t vs
  | .var c _ :: t, v :: vs =>
    if c = .path then
      ∀ post, renderToks t [] = some post → endsWithChar post '/' = true → endsWithChar (v ++ post.dropLast) '/' = false
    else PathTailOK t vs
  | .var _ _ :: _, [] => True

/-- values of isolating converters contain no '/' (a path value may) -/
def IsoNoSlash : List Tok → List Str → Prop
  | [], _ => True
  | .slash :: t, vs => IsoNoSlash t vs
  | .lit _ :: t, vs => IsoNoSlash t vs
  | .var c _ :: t, v :: vs => (c.partIsolating = true → noSlash v) ∧ IsoNoSlash t vs
  | .var _ _ :: _, [] => True

theorem tail_render_nil : ∀ (toks : List Tok) (vs : List Str) {text}, TailToks toks → renderToks toks vs = some text → vs = []
  | [], [], _, _, _ => rfl
  | [], _ :: _, _, _, h => by simp [renderToks] at h
  | .slash :: t, vs, _, ht, h => by
    simp only [renderToks, Option.map_eq_some_iff] at h
    obtain ⟨_, h', _⟩ := h
    exact tail_render_nil t vs ht h'
  | .lit _ :: t, vs, _, ht, h => by
    simp only [renderToks, Option.map_eq_some_iff] at h
    obtain ⟨_, h', _⟩ := h
    exact tail_render_nil t vs ht h'
  | .var .. :: _, _, _, ht, _ => ht.elim

theorem endsWithChar_append_right (a b : Str) (c : Char) (hb : b ≠ []) : endsWithChar (a ++ b) c = endsWithChar b c := by
  simp only [endsWithChar, List.getLast?_append]
  cases hl : b.getLast? with
  | none => exact absurd (List.getLast?_eq_none_iff.1 hl) hb
  | some x => simp

/-- **the rule's own parts admit what the rule renders** (the property's grammar: isolating
converters and optionally one trailing path converter) -/
theorem parse_render_admits_gram : ∀ (toks : List Tok) (p : PState) (pv : Option Str) (vs : List Str)
    {parts convs text}, PendOK p pv → GramToks toks → PathTailOK toks vs →
    parseToks toks p = some (parts, convs) → renderToks toks vs = some text →
    IsoNoSlash toks vs → AllAccept ((tokConvs toks).map Conv.kind) vs →
    walkVia .direct parts (splitOn '/' (pendText p pv ++ text)) = some (pv.toList ++ vs) := by
  intro toks
  induction toks with
  | nil =>
    intro p pv vs parts convs text hp _ _ hparse hrender _ _
    cases vs with
    | cons v vs => simp [renderToks] at hrender
    | nil =>
      simp only [renderToks, Option.some.injEq] at hrender
      subst hrender
      simp only [parseToks, hp.notFinal, Bool.false_and, Bool.false_eq_true, if_false, Option.some.injEq, Prod.mk.injEq] at hparse
      obtain ⟨rfl, _⟩ := hparse
      rw [List.append_nil, splitOn_noSlash _ (pendText_noSlash hp)]
      have hw : walkVia .direct [] [] = some [] := by simp [walkVia]
      have := walkVia_cons_of_step (via := .direct) (step_emit hp []) hw
      simpa using this
  | cons t toks ih =>
    intro p pv vs parts convs text hp hiso htail hparse hrender hns hacc
    cases t with
    | lit s =>
      simp only [GramToks] at hiso
      simp only [renderToks, Option.map_eq_some_iff] at hrender
      obtain ⟨text', hr', rfl⟩ := hrender
      simp only [parseToks] at hparse
      split at hparse
      · rename_i hc
        have hpv : pv = none := by
          have := hp.conv_iff; rw [hc] at this
          cases pv with
          | none => rfl
          | some v => cases this
        have hp' : PendOK { p with pre := p.pre ++ s, staticWeights := p.staticWeights ++ [((p.staticWeights.length : Int), -(s.length : Int))] } pv :=
          ⟨hp.notFinal, hp.conv_iff, hp.accepts, noSlash_append hp.pre_ns hiso.1, hp.post_ns, hp.pv_ns, hp.post_nil⟩
        have := ih _ pv vs hp' hiso.2 (by simpa [PathTailOK] using htail) hparse hr' (by simpa [IsoNoSlash] using hns) (by simpa [tokConvs] using hacc)
        subst hpv
        simpa [pendText, hp.post_nil hc, List.append_assoc] using this
      · rename_i cn hc
        have hp' : PendOK { p with post := p.post ++ s, staticWeights := p.staticWeights ++ [((p.staticWeights.length : Int), -(s.length : Int))] } pv :=
          ⟨hp.notFinal, hp.conv_iff, hp.accepts, hp.pre_ns, noSlash_append hp.post_ns hiso.1, hp.pv_ns,
            fun h => by rw [hc] at h; cases h⟩
        have := ih _ pv vs hp' hiso.2 (by simpa [PathTailOK] using htail) hparse hr' (by simpa [IsoNoSlash] using hns) (by simpa [tokConvs] using hacc)
        simpa [pendText, List.append_assoc] using this
    | var c n =>
      simp only [GramToks] at hiso
      cases vs with
      | nil => simp [renderToks] at hrender
      | cons v vs' =>
        simp only [renderToks, Option.map_eq_some_iff] at hrender
        obtain ⟨text', hr', rfl⟩ := hrender
        simp only [parseToks] at hparse
        split at hparse
        · cases hparse
        · rename_i hc
          have hpv : pv = none := by
            have := hp.conv_iff; rw [hc] at this
            cases pv with
            | none => rfl
            | some v => cases this
          subst hpv
          simp only [tokConvs, List.map_cons, AllAccept] at hacc
          simp only [IsoNoSlash] at hns
          rcases hiso with ⟨hisoc, hiso'⟩ | ⟨hpath, htailt⟩
          · have hp' : PendOK { p with conv := some (c, n), final := p.final || !c.partIsolating,
                                       argWeights := p.argWeights ++ [(c.weight : Int)] } (some v) := by
              refine ⟨by simp [hp.notFinal, hisoc], rfl, ?_, hp.pre_ns, hp.post_ns, ?_, ?_⟩
              · intro c' n' v' h1 h2
                cases h1; cases h2; exact hacc.1
              · intro v' h
                cases h; exact hns.1 hisoc
              · intro h; cases h
            have hnp : c ≠ .path := by intro h; subst h; cases hisoc
            have htail' : PathTailOK toks vs' := by simpa [PathTailOK, hnp] using htail
            have := ih _ (some v) vs' hp' hiso' htail' hparse hr' hns.2 hacc.2
            simpa [pendText, hp.post_nil hc, List.append_assoc] using this
          · subst hpath
            have hvs' : vs' = [] := tail_render_nil toks vs' htailt hr'
            subst hvs'
            have hpost : p.post = [] := hp.post_nil hc
            obtain ⟨w, hw⟩ := parseToks_final toks _ .path n (by simp [Conv.partIsolating]) rfl hparse hr'
            simp only [hpost, List.nil_append] at hw
            subst hw
            simp only [PathTailOK, if_true] at htail
            have hv1 : v ≠ [] := by
              intro hv; subst hv
              have := hacc.1; simp [Conv.kind, RKind.accepts] at this
            have hsfx : endsWithChar text' '/' = true → endsWithChar (p.pre ++ v ++ text'.dropLast) '/' = false := by
              intro he
              have := htail text' hr' he
              rw [List.append_assoc, endsWithChar_append_right _ _ _ (by simp [hv1])]
              exact this
            have := final_part_admits p.pre (Conv.kind .path) text' v w hacc.1 hsfx
            simpa [pendText, hpost, List.append_assoc] using this
    | slash =>
      simp only [GramToks] at hiso
      simp only [renderToks, Option.map_eq_some_iff] at hrender
      obtain ⟨text', hr', rfl⟩ := hrender
      simp only [parseToks, hp.notFinal, Bool.false_eq_true, if_false] at hparse
      cases hrec : parseToks toks {} with
      | none => simp [hrec] at hparse
      | some pc =>
        obtain ⟨parts', convs'⟩ := pc
        simp only [hrec, Option.some.injEq, Prod.mk.injEq] at hparse
        obtain ⟨rfl, _⟩ := hparse
        have hp0 : PendOK {} none := by
          refine ⟨rfl, rfl, ?_, ?_, ?_, ?_, ?_⟩
          · intro _ _ _ h; cases h
          · simp [noSlash]
          · simp [noSlash]
          · intro _ h; cases h
          · intro _; rfl
        have hrest := ih {} none vs hp0 hiso (by simpa [PathTailOK] using htail) hrec hr' (by simpa [IsoNoSlash] using hns) (by simpa [tokConvs] using hacc)
        simp only [pendText, List.nil_append, Option.getD_none, List.append_nil, Option.toList_none] at hrest
        rw [splitOn_append_slash _ _ (pendText_noSlash hp)]
        exact walkVia_cons_of_step (step_emit hp _) hrest


end Wz.Routing

namespace Wz.Routing

/-! ### decidable forms (for concrete examples) -/

def tailToksB : List Tok → Bool
  | [] => true
  | .slash :: t => tailToksB t
  | .lit _ :: t => tailToksB t
  | .var .. :: _ => false

theorem tailToksB_sound : ∀ toks, tailToksB toks = true → TailToks toks
  | [], _ => trivial
  | .slash :: t, h => tailToksB_sound t h
  | .lit _ :: t, h => tailToksB_sound t h
  | .var .. :: _, h => by cases h

def gramToksB : List Tok → Bool
  | [] => true
  | .slash :: t => gramToksB t
  | .lit s :: t => !s.contains '/' && gramToksB t
  | .var c _ :: t => (c.partIsolating && gramToksB t) || (c == .path && tailToksB t)

theorem gramToksB_sound : ∀ toks, gramToksB toks = true → GramToks toks
  | [], _ => trivial
  | .slash :: t, h => gramToksB_sound t h
  | .lit s :: t, h => by
    simp only [gramToksB, Bool.and_eq_true, Bool.not_eq_true', List.contains_eq_mem, decide_eq_false_iff_not] at h
    exact ⟨h.1, gramToksB_sound t h.2⟩
  | .var c _ :: t, h => by
    simp only [gramToksB, Bool.or_eq_true, Bool.and_eq_true, beq_iff_eq] at h
    rcases h with h | h
    · exact .inl ⟨h.1, gramToksB_sound t h.2⟩
    · exact .inr ⟨h.1, tailToksB_sound t h.2⟩

def pathTailOKB : List Tok → List Str → Bool
  | [], _ => true
  | .slash :: t, vs => pathTailOKB t vs
  | .lit _ :: t, vs => pathTailOKB t vs
  | .var c _ :: t, v :: vs =>
    if c = .path then
      (match renderToks t [] with
       | some post => !endsWithChar post '/' || !endsWithChar (v ++ post.dropLast) '/'
       | none => true)
    else pathTailOKB t vs
  | .var _ _ :: _, [] => true

theorem pathTailOKB_sound : ∀ toks vs, pathTailOKB toks vs = true → PathTailOK toks vs
  | [], _, _ => trivial
  | .slash :: t, vs, h => pathTailOKB_sound t vs h
  | .lit _ :: t, vs, h => pathTailOKB_sound t vs h
  | .var _ _ :: _, [], _ => trivial
  | .var c _ :: t, v :: vs, h => by
    simp only [pathTailOKB] at h
    simp only [PathTailOK]
    split
    · rename_i hc
      simp only [hc, if_true] at h
      intro post hp he
      simp only [hp, he, Bool.not_true, Bool.false_or, Bool.not_eq_true'] at h
      exact h
    · rename_i hc
      simp only [hc, if_false] at h
      exact pathTailOKB_sound t vs h

def isoNoSlashB : List Tok → List Str → Bool
  | [], _ => true
  | .slash :: t, vs => isoNoSlashB t vs
  | .lit _ :: t, vs => isoNoSlashB t vs
  | .var c _ :: t, v :: vs => (!c.partIsolating || !v.contains '/') && isoNoSlashB t vs
  | .var _ _ :: _, [] => true

theorem isoNoSlashB_sound : ∀ toks vs, isoNoSlashB toks vs = true → IsoNoSlash toks vs
  | [], _, _ => trivial
  | .slash :: t, vs, h => isoNoSlashB_sound t vs h
  | .lit _ :: t, vs, h => isoNoSlashB_sound t vs h
  | .var _ _ :: _, [], _ => trivial
  | .var c _ :: t, v :: vs, h => by
    simp only [isoNoSlashB, Bool.and_eq_true, Bool.or_eq_true, Bool.not_eq_true', List.contains_eq_mem,
      decide_eq_false_iff_not] at h
    refine ⟨?_, isoNoSlashB_sound t vs h.2⟩
    intro hc
    rcases h.1 with h1 | h1
    · rw [hc] at h1; cases h1
    · exact h1

/-- all hypotheses of `rule_build_match_partial` about the rule and the values, as one computation -/
def buildDomainGB (r : Rule) (values : List (Str × Value)) : Bool :=
  gramToksB r.pathToks && urlsClosedB r values r.pathToks &&
  (match valueTexts r values r.pathToks with
   | some ts => isoNoSlashB r.pathToks ts && pathTailOKB r.pathToks ts &&
                allAcceptB ((tokConvs r.pathToks).map Conv.kind) ts
   | none => true)

theorem buildDomainGB_sound (r : Rule) (values : List (Str × Value)) (h : buildDomainGB r values = true) :
    GramToks r.pathToks ∧ UrlsClosed r values r.pathToks ∧
    (∀ ts, valueTexts r values r.pathToks = some ts →
      IsoNoSlash r.pathToks ts ∧ PathTailOK r.pathToks ts ∧ AllAccept ((tokConvs r.pathToks).map Conv.kind) ts) := by
  simp only [buildDomainGB, Bool.and_eq_true] at h
  refine ⟨gramToksB_sound _ h.1.1, urlsClosedB_sound r values _ h.1.2, ?_⟩
  intro ts hts
  have h2 := h.2
  simp only [hts, Bool.and_eq_true] at h2
  exact ⟨isoNoSlashB_sound _ _ h2.1.1, pathTailOKB_sound _ _ h2.1.2, allAcceptB_sound _ _ h2.2⟩

end Wz.Routing
