import WzVerif.Util.Bytes
import WzVerif.Util.Py
namespace Wz.Utf8Facts
open Wz

/-! Elementary facts about `String.utf8EncodeChar` / `Wz.utf8Enc` (ASCII vs. non-ASCII bytes). -/

/-- a character below 128 is encoded as the single byte with the same value -/
theorem utf8EncodeChar_ascii (c : Char) (h : c.toNat < 128) :
    String.utf8EncodeChar c = [UInt8.ofNat c.toNat] := by
  have h' : c.val.toNat ≤ 127 := by
    simp only [Char.toNat] at h; omega
  simp only [String.utf8EncodeChar, h', if_true, Char.toNat]

/-- every byte of the encoding of a character >= 128 is >= 128 -/
theorem utf8EncodeChar_high (c : Char) (h : 128 ≤ c.toNat) :
    ∀ b ∈ String.utf8EncodeChar c, 128 ≤ b.toNat := by
  have h' : ¬ c.val.toNat ≤ 127 := by
    simp only [Char.toNat] at h; omega
  intro b hb
  simp only [String.utf8EncodeChar, h', if_false] at hb
  split at hb
  · simp only [List.mem_cons, List.not_mem_nil, or_false] at hb
    rcases hb with rfl | rfl <;> simp only [UInt8.toNat_ofNat'] <;> omega
  · split at hb
    · simp only [List.mem_cons, List.not_mem_nil, or_false] at hb
      rcases hb with rfl | rfl | rfl <;> simp only [UInt8.toNat_ofNat'] <;> omega
    · simp only [List.mem_cons, List.not_mem_nil, or_false] at hb
      rcases hb with rfl | rfl | rfl | rfl <;> simp only [UInt8.toNat_ofNat'] <;> omega

/-- the encoding of a character is never empty -/
theorem utf8EncodeChar_ne_nil (c : Char) : String.utf8EncodeChar c ≠ [] :=
  String.utf8EncodeChar_ne_nil

theorem utf8Enc_nil : utf8Enc [] = [] := rfl

theorem utf8Enc_cons (c : Char) (t : List Char) :
    utf8Enc (c :: t) = String.utf8EncodeChar c ++ utf8Enc t := by
  simp [utf8Enc]

theorem utf8Enc_append (a b : List Char) : utf8Enc (a ++ b) = utf8Enc a ++ utf8Enc b := by
  simp [utf8Enc]

theorem toNat_ofNat_of_lt (n : Nat) (h : n < 256) : (Char.ofNat n).toNat = n := by
  have hv : n.isValidChar := Or.inl (by omega)
  simp [Char.ofNat, hv, Char.ofNatAux, Char.toNat]

/-- a byte below 128 occurs in the encoding of a single character iff it *is* that character -/
theorem mem_utf8EncodeChar_ascii (c : Char) (b : UInt8) (hb : b.toNat < 128) :
    b ∈ String.utf8EncodeChar c ↔ Char.ofNat b.toNat = c := by
  by_cases hc : c.toNat < 128
  · rw [utf8EncodeChar_ascii c hc, List.mem_singleton]
    constructor
    · intro e
      subst e
      have : (UInt8.ofNat c.toNat).toNat = c.toNat := by
        simp only [UInt8.toNat_ofNat']; omega
      rw [this, Char.ofNat_toNat]
    · intro e
      subst e
      rw [toNat_ofNat_of_lt _ (by omega), UInt8.ofNat_toNat]
  · constructor
    · intro hm
      have := utf8EncodeChar_high c (by omega) b hm
      omega
    · intro e
      subst e
      rw [toNat_ofNat_of_lt _ (by omega)] at hc
      omega

/-- a byte value below 128 occurs in the encoding of a text iff the corresponding character occurs -/
theorem mem_utf8Enc_ascii (cs : List Char) (b : UInt8) (hb : b.toNat < 128) :
    b ∈ utf8Enc cs ↔ Char.ofNat b.toNat ∈ cs := by
  simp only [utf8Enc, List.mem_flatMap, mem_utf8EncodeChar_ascii _ b hb]
  constructor
  · rintro ⟨c, hc, rfl⟩; exact hc
  · intro h; exact ⟨_, h, rfl⟩

/-- first byte of the encoding of a single character -/
theorem utf8EncodeChar_head (c : Char) :
    ∃ b r, String.utf8EncodeChar c = b :: r ∧
      (if c.toNat < 128 then b = UInt8.ofNat c.toNat else 128 ≤ b.toNat) := by
  by_cases hc : c.toNat < 128
  · exact ⟨_, [], utf8EncodeChar_ascii c hc, by simp [hc]⟩
  · cases hE : String.utf8EncodeChar c with
    | nil => exact absurd hE (utf8EncodeChar_ne_nil c)
    | cons b r =>
      refine ⟨b, r, rfl, ?_⟩
      simp only [hc, if_false]
      exact utf8EncodeChar_high c (by omega) b (by simp [hE])

/-- last byte of the encoding of a single character -/
theorem utf8EncodeChar_last (c : Char) :
    ∃ r b, String.utf8EncodeChar c = r ++ [b] ∧
      (if c.toNat < 128 then b = UInt8.ofNat c.toNat else 128 ≤ b.toNat) := by
  by_cases hc : c.toNat < 128
  · exact ⟨[], _, utf8EncodeChar_ascii c hc, by simp [hc]⟩
  · have hne := utf8EncodeChar_ne_nil c
    refine ⟨(String.utf8EncodeChar c).dropLast, (String.utf8EncodeChar c).getLast hne,
      (List.dropLast_concat_getLast hne).symm, ?_⟩
    simp only [hc, if_false]
    exact utf8EncodeChar_high c (by omega) _ (List.getLast_mem hne)

/-- first byte: for a non-empty text whose first character is `c`, the first byte of the encoding is
`c` itself when `c < 128` and is >= 128 otherwise -/
theorem utf8Enc_head (c : Char) (t : List Char) :
    ∃ b r, utf8Enc (c :: t) = b :: r ∧
      (if c.toNat < 128 then b = UInt8.ofNat c.toNat else 128 ≤ b.toNat) := by
  obtain ⟨b, r, hE, hP⟩ := utf8EncodeChar_head c
  exact ⟨b, r ++ utf8Enc t, by rw [utf8Enc_cons, hE]; rfl, hP⟩

/-- last byte: likewise for the last character -/
theorem utf8Enc_last (t : List Char) (c : Char) :
    ∃ r b, utf8Enc (t ++ [c]) = r ++ [b] ∧
      (if c.toNat < 128 then b = UInt8.ofNat c.toNat else 128 ≤ b.toNat) := by
  obtain ⟨r, b, hE, hP⟩ := utf8EncodeChar_last c
  refine ⟨utf8Enc t ++ r, b, ?_, hP⟩
  rw [utf8Enc_append, utf8Enc_cons, utf8Enc_nil, List.append_nil, hE, List.append_assoc]

end Wz.Utf8Facts
