/-
Helper lemmas for Props/C06T, second part (translated `parse_list_header`, `dump_header`,
`dump_options_header`, `quote_etag`, `parse_set_header` against `Model/Http.lean`): the idiom
`len(v) >= 2 and v[0] == v[-1] == '"'` / `v[1:-1]` against the model's `stripDq?`, `key[-1]` against
`last!`, the prelude's dict primitives against the model's. Nothing here mentions generated definitions.
-/
import WzVerif.Model.Http
import WzVerif.Lemmas.PyFns_Prelude
import WzVerif.Lemmas.PyFns_Http
namespace Wz.PyFnsHttp
open Wz Wz.Pre

/-! ### indexing a text at `0` and `-1` -/

theorem getItemStr_zero_nil {α : Type} : getItemStr ([] : List α) 0 = .error "IndexError" := by
  simp [getItemStr, getItem]

theorem getItemStr_neg_one_nil {α : Type} : getItemStr ([] : List α) (-1) = .error "IndexError" := by
  simp [getItemStr, getItem]

theorem getItemStr_neg_one_cons {α : Type} (x : α) (t : List α) :
    getItemStr (x :: t) (-1) = .ok [(x :: t).getLast (by simp)] := by
  simp [getItemStr, getItem_neg_one_cons]

/-- `s[-1]` in terms of `getLast?` -/
theorem getItemStr_neg_one {α : Type} (s : List α) :
    getItemStr s (-1) = match s.getLast? with
      | some c => .ok [c]
      | none => .error "IndexError" := by
  cases s with
  | nil => simp [getItemStr_neg_one_nil]
  | cons x t =>
    rw [getItemStr_neg_one_cons, List.getLast?_eq_some_getLast (by simp)]

/-- `s[0]` in terms of `head?` -/
theorem getItemStr_zero {α : Type} (s : List α) :
    getItemStr s 0 = match s.head? with
      | some c => .ok [c]
      | none => .error "IndexError" := by
  cases s with
  | nil => simp [getItemStr_zero_nil]
  | cons x t => simp [getItemStr_zero_cons]

/-- the model's `last!` is `s[-1]` -/
theorem last!_eq (s : Str) : Http.last! s = match s.getLast? with
    | some c => .ok c
    | none => .error "IndexError" := by
  unfold Http.last!; cases s.getLast? <;> rfl

/-! ### the quoted-value idiom -/

/-- the value the idiom `if len(v) >= 2 and v[0] == v[-1] == '"': v = v[1:-1]` leaves in `v` -/
def unq (v : Str) : Str := (Http.stripDq? v).getD v

/-- the test `len(v) >= 2 and v[0] == v[-1] == '"'` -/
def isDq (v : Str) : Bool := (Http.stripDq? v).isSome

theorem stripDq?_nil : Http.stripDq? [] = none := rfl

theorem stripDq?_single (x : Char) : Http.stripDq? [x] = none := by
  unfold Http.stripDq?
  split <;> simp_all

/-- for a text of at least two characters: the model's `stripDq?` is the test on the first and
last character, and `v[1:-1]` -/
theorem stripDq?_cons2 (x y : Char) (t : Str) :
    Http.stripDq? (x :: y :: t) =
      if x = '"' ∧ (y :: t).getLast (by simp) = '"' then some (slice (x :: y :: t) (some 1) (some (-1))) else none := by
  have hl2 : (y :: t).getLast? = some ((y :: t).getLast (by simp)) := List.getLast?_eq_some_getLast (by simp)
  rw [slice_one_neg_one]
  unfold Http.stripDq?
  by_cases hx : x = '"'
  · subst hx
    simp only [hl2, true_and]
    by_cases hz : (y :: t).getLast (by simp) = '"'
    · simp [hz]
    · simp [hz]
  · simp [hx]

/-- the two comparisons `v[0] == v[-1]` and `v[-1] == '"'` on one-character texts -/
theorem dq_cmp (a b : Char) : (([a] : Str) == [b] && ([b] : Str) == ['"']) = (decide (a = '"' ∧ b = '"')) := by
  by_cases ha : a = '"' <;> by_cases hb : b = '"' <;> simp [ha, hb]

/-- the idiom `if len(v) >= 2 and v[0] == v[-1] == '"': v = v[1:-1]` followed by anything that
uses `v` (`f`), as the translator emits it (evaluation order made explicit; `e` = what an IndexError
would lead to: never reached): `f` applied to the unquoted value. Stated for an arbitrary
continuation so that every translated function containing the idiom can use it
(`have := dq_step …; simp at this ⊢; exact this` - the `match`es agree up to unfolding). -/
theorem dq_step {β : Type} (item : Str) (f : Str → β) (e : String → β) :
    (if decide (Int.ofNat item.length ≥ 2) then
      match Pre.getItemStr item 0 with
      | .error x => e x
      | .ok a =>
        match Pre.getItemStr item (-1) with
        | .error x => e x
        | .ok b => if (a == b) && (b == ['"']) then f (Pre.slice item (some 1) (some (-1))) else f item
    else f item) = f (unq item) := by
  unfold unq
  match item with
  | [] => simp [stripDq?_nil]
  | [x] => simp [stripDq?_single]
  | x :: y :: t =>
    have hlen : decide (Int.ofNat (x :: y :: t).length ≥ 2) = true := by simp; omega
    rw [stripDq?_cons2]
    simp only [hlen, if_true, getItemStr_zero_cons, getItemStr_neg_one_cons, dq_cmp]
    have hl : (x :: y :: t).getLast (by simp) = (y :: t).getLast (by simp) := by simp
    rw [hl]
    by_cases h : x = '"' ∧ (y :: t).getLast (by simp) = '"' <;> simp [h]

/-- `key[-1] == "*"` followed by two alternatives, as the translator emits it -/
theorem star_step {β : Type} (key : Str) (a b : β) (e : String → β) :
    (match Pre.getItemStr key (-1) with
      | .error x => e x
      | .ok l => if l == ['*'] then a else b) =
    (match key.getLast? with
      | none => e "IndexError"
      | some l => if l == '*' then a else b) := by
  rw [getItemStr_neg_one]
  cases key.getLast? with
  | none => rfl
  | some l => by_cases h : l = '*' <;> simp [h]

/-! ### `key=value` items of `dump_header` / `dump_options_header` -/

/-- what `dump_header` / `dump_options_header` print for one `key: value` (value not None):
`key[-1]` raises IndexError for an empty key, a key ending in `*` keeps the value unquoted -/
def kvText (key v : Str) : Except String Str :=
  match key.getLast? with
  | none => .error "IndexError"
  | some l => if l == '*' then .ok (key ++ '=' :: v) else .ok (key ++ '=' :: Http.quoteHeaderValue v)

/-- one item of `dump_header(dict)` -/
def dictItemText (kv : Str × Option Str) : Except String Str :=
  match kv.2 with
  | none => .ok kv.1
  | some v => kvText kv.1 v

theorem kvText_eq (key v : Str) :
    kvText key v = (do
      let l ← Http.last! key
      if l == '*' then pure (key ++ '=' :: v) else pure (key ++ '=' :: Http.quoteHeaderValue v)) := by
  unfold kvText
  rw [last!_eq]
  cases key.getLast? with
  | none => rfl
  | some l => by_cases h : l = '*' <;> simp [h, bind, Except.bind, pure, Except.pure]

/-- the model's `dumpHeaderDict` with its per-item function named -/
theorem dumpHeaderDict_spec (d : List (Str × Option Str)) :
    Http.dumpHeaderDict d = (do let items ← d.mapM dictItemText; pure (Http.join ", " items)) := by
  unfold Http.dumpHeaderDict
  congr 2
  funext x
  obtain ⟨key, value⟩ := x
  cases value with
  | none => rfl
  | some v => simp only [dictItemText, kvText_eq]

/-- the model's `optionSegment` through `kvText` -/
theorem optionSegment_eq (kv : Str × Option Str) :
    Http.optionSegment kv = match kv.2 with
      | none => .ok none
      | some v => (kvText kv.1 v).map some := by
  unfold Http.optionSegment
  cases kv.2 with
  | none => rfl
  | some v =>
    simp only [kvText, last!_eq]
    cases kv.1.getLast? with
    | none => rfl
    | some l => by_cases h : l = '*' <;> simp [h, bind, Except.bind, pure, Except.pure, Except.map]

/-! ### dicts -/

theorem dictHas_eq {ν : Type} (d : Http.Dict ν) (k : Str) : Pre.dictHas d k = Http.dictHas d k := rfl
theorem dictGet?_eq {ν : Type} (d : Http.Dict ν) (k : Str) : Pre.dictGet? d k = Http.dictGet? d k := rfl
theorem dictSet_eq {ν : Type} (d : Http.Dict ν) (k : Str) (v : ν) : Pre.dictSet d k v = Http.dictSet d k v := rfl
theorem dictDel_eq {ν : Type} (d : Http.Dict ν) (k : Str) : Pre.dictDel d k = Http.dictPop d k := rfl

end Wz.PyFnsHttp
