/-
`iri_to_uri` on whole URL text (C15): ASCII and idempotent for URLs of the grammar. Core Lean only.
-/
import WzVerif.Lemmas.UrlText
namespace Wz.Url
open Wz

theorem truthy_some_ne {s : Str} (h : s ≠ []) : truthy (some s) = some s := by
  cases s with
  | nil => exact absurd rfl h
  | cons _ _ => rfl

theorem truthy_ne {o : Option Str} {u : Str} (h : truthy o = some u) : u ≠ [] := by
  intro e; subst e
  cases o with
  | none => simp [truthy] at h
  | some v => cases v <;> simp [truthy] at h

theorem portText_norm (port : Option Nat) :
    portText (match port with | some 0 => none | some k => some k | none => none) = portText port := by
  cases port with
  | none => rfl
  | some k => cases k <;> rfl

/-- a second pass with an idempotent family reproduces the tuple -/
theorem apply_reparsed {F : Conv} {p : Parts}
    (hu : ∀ u, truthy p.username = some u → F.fu u ≠ [] ∧ F.fu (F.fu u) = F.fu u)
    (hpw : ∀ pw, truthy p.password = some pw → F.fp pw ≠ [] ∧ F.fp (F.fp pw) = F.fp pw)
    (hpath : F.fpath (F.fpath p.path) = F.fpath p.path)
    (hquery : F.fquery (F.fquery p.query) = F.fquery p.query)
    (hfrag : F.ffrag (F.ffrag p.fragment) = F.ffrag p.fragment) :
    F.apply (reparsed F p p.host) = F.apply p := by
  unfold Conv.apply
  have hnet : netloc F.fu F.fp (reparsed F p p.host) = netloc F.fu F.fp p := by
    rw [netloc_eq, netloc_eq]
    have hport : portText (reparsed F p p.host).port = portText p.port := portText_norm p.port
    have hhost : (reparsed F p p.host).host = p.host := rfl
    rw [hport, hhost]
    congr 1
    unfold authText reparsed
    cases hx : truthy p.username with
    | none => simp [truthy]
    | some u =>
      obtain ⟨h1, h2⟩ := hu u hx
      simp only [Option.map_some, truthy_some_ne h1, h2]
      cases hy : truthy p.password with
      | none => simp [truthy]
      | some pw =>
        obtain ⟨g1, g2⟩ := hpw pw hy
        simp only [Option.map_some, truthy_some_ne g1, g2]
  rw [hnet]
  simp only [reparsed, hpath, hquery, hfrag]

/-- `iri_to_uri` on URL text is `convText` with the quoting family -/
theorem iriToUriText_unfold (o : UrlOpaque) (url : Str) :
    iriToUriText o url =
      (match urlsplit o url with
       | .error e => .error e
       | .ok sp =>
         match partsOf o.hostToAscii sp with
         | .error e => .error e
         | .ok p => .ok (urlunsplit (iriConv.apply p))) := rfl

/-- **`iri_to_uri` is idempotent on URL text** for every URL of the grammar (it splits, has a scheme
and a host), under the laws assumed of the opaque IDNA step. -/
theorem iriToUriText_idem {o : UrlOpaque} (laws : AsciiHostLaws o) {url r : Str}
    (hg : InGrammar o url) (h : iriToUriText o url = .ok r) : iriToUriText o r = .ok r := by
  obtain ⟨sp, hsp, hsch, hraw⟩ := hg
  rw [iriToUriText_unfold, hsp] at h
  simp only at h
  cases hp : partsOf o.hostToAscii sp with
  | error e => rw [hp] at h; cases h
  | ok p =>
    rw [hp] at h
    simp only [Except.ok.injEq] at h
    subst h
    obtain ⟨np, g, hfix, _⟩ := iri_first_pass laws hsp hp hsch hraw
    obtain ⟨h1, h2⟩ := pass_reparse g np hfix
    rw [iriToUriText_unfold, h1]
    simp only [h2]
    have hpU : Gen.UrlTables.iriUserSafe.contains '%' = true := by decide
    have hpP : Gen.UrlTables.iriPasswordSafe.contains '%' = true := by decide
    rw [apply_reparsed (F := iriConv)
      (fun u hu => ⟨quote_ne (truthy_ne hu), quote_idem hpU u⟩)
      (fun pw hpw => ⟨quote_ne (truthy_ne hpw), quote_idem hpP pw⟩)
      (quote_idem (by decide) _) (quote_idem (by decide) _) (quote_idem (by decide) _)]

/-- **`iri_to_uri` yields pure ASCII text** for every URL of the grammar. -/
theorem iriToUriText_ascii {o : UrlOpaque} (laws : AsciiHostLaws o) {url r : Str}
    (hg : InGrammar o url) (h : iriToUriText o url = .ok r) : ∀ c ∈ r, c.toNat < 128 := by
  obtain ⟨sp, hsp, hsch, hraw⟩ := hg
  rw [iriToUriText_unfold, hsp] at h
  simp only at h
  cases hp : partsOf o.hostToAscii sp with
  | error e => rw [hp] at h; cases h
  | ok p =>
    rw [hp] at h
    simp only [Except.ok.injEq] at h
    subst h
    obtain ⟨np, g, _, hascii⟩ := iri_first_pass laws hsp hp hsch hraw
    rw [urlunsplit_good g]
    have hscheme : ∀ c ∈ p.scheme, c.toNat < 128 := by
      intro c hc
      have hv := g.scheme_valid
      simp only [validScheme, Bool.and_eq_true, List.all_eq_true] at hv
      have hsc := hv.2 c hc
      have key : ∀ c : Char, isSchemeChar c = true → c.toNat < 128 := by
        intro c h
        simp only [isSchemeChar, isAsciiAlpha, isAsciiDigit, Bool.or_eq_true, Bool.and_eq_true,
          decide_eq_true_eq, beq_iff_eq] at h
        have hz : 'z'.toNat = 122 := by decide
        have hZ : 'Z'.toNat = 90 := by decide
        have h9 : '9'.toNat = 57 := by decide
        rcases h with ((((h | h) | h) | h) | h) | h
        · have : c.toNat ≤ 'z'.toNat := h.2; omega
        · have : c.toNat ≤ 'Z'.toNat := h.2; omega
        · have : c.toNat ≤ '9'.toNat := h.2; omega
        · subst h; decide
        · subst h; decide
        · subst h; decide
      exact key c hsc
    intro c hc
    simp only [List.mem_append, List.mem_cons] at hc
    rcases hc with (hc | rfl | rfl | rfl | hc) | hc
    · exact hscheme c hc
    · decide
    · decide
    · decide
    · exact hascii c hc
    · unfold tailOf at hc
      rcases List.mem_append.mp hc with hc | hc
      · rcases List.mem_append.mp hc with hc | hc
        · exact quoteBytes_ascii _ _ c hc
        · split at hc
          · cases hc
          · rcases List.mem_cons.mp hc with rfl | hc
            · decide
            · exact quoteBytes_ascii _ _ c hc
      · split at hc
        · cases hc
        · rcases List.mem_cons.mp hc with rfl | hc
          · decide
          · exact quoteBytes_ascii _ _ c hc

end Wz.Url
