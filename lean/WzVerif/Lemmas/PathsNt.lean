/-
Lemmas for the platform-parametric `secure_filename` model (`secureAsciiWith seps nt`,
Model/Paths.lean): charset, no leading dot, idempotence for every separator list that avoids
`[A-Za-z0-9_.-]` and both values of `os.name == "nt"`; the device-file branch.
-/
import WzVerif.Lemmas.Paths
namespace Wz.Paths

/-- on the generating platform (`os.sep/altsep` as generated, not Windows) the parametric model is
the model the correspondence stream and Props/C14T use -/
theorem secureAsciiWith_here (s : Str) : secureAsciiWith Gen.Paths.osSeps false s = secureAscii s := by
  simp [secureAsciiWith, secureBase, secureAscii, replaceSepsWith, replaceSeps]

theorem secureBase_allowed (seps : List Char) (s : Str) : ∀ c ∈ secureBase seps s, allowed c = true := by
  intro c hc
  unfold secureBase at hc
  have := mem_stripOf hc
  have := (List.mem_filter.mp this).2
  exact (not_stripped_iff c).mp (by simpa using this)

/-- on a name made of allowed characters only, everything before the final strip is the identity -/
theorem secureBase_of_allowed {seps : List Char} (hs : ∀ c ∈ seps, allowed c = false) {r : Str}
    (ha : ∀ c ∈ r, allowed c = true) : secureBase seps r = stripOf Gen.Paths.stripChars r := by
  have h1 : replaceSepsWith seps r = r := by
    unfold replaceSepsWith
    conv => rhs; rw [← List.map_id r]
    apply List.map_congr_left
    intro c hc
    have : seps.contains c = false := by
      cases hcc : seps.contains c with
      | false => rfl
      | true =>
        have := hs c (by simpa using hcc)
        rw [ha c hc] at this; cases this
    simp only [this, Bool.false_eq_true, if_false, id]
  have h2 : joinWith Gen.Paths.joinChars (pyWords r) = r := by
    rw [pyWords_nospace r (fun c hc => allowed_not_space (ha c hc))]
    by_cases hr : r = []
    · simp [hr, joinWith]
    · simp [hr, joinWith]
  have h3 : r.filter (fun c => !stripped c) = r := by
    apply List.filter_eq_self.mpr
    intro c hc
    simp [(not_stripped_iff c).mpr (ha c hc)]
  unfold secureBase
  rw [h1, h2, h3]

theorem secureBase_head (seps : List Char) (s : Str) {c : Char}
    (h : (secureBase seps s).head? = some c) : Gen.Paths.stripChars.contains c = false :=
  head_stripOf h

theorem secureBase_last (seps : List Char) (s : Str) {c : Char}
    (h : (secureBase seps s).getLast? = some c) : Gen.Paths.stripChars.contains c = false :=
  last_stripOf h

theorem secureBase_idem {seps : List Char} (hs : ∀ c ∈ seps, allowed c = false) (s : Str) :
    secureBase seps (secureBase seps s) = secureBase seps s := by
  rw [secureBase_of_allowed hs (secureBase_allowed seps s)]
  exact stripOf_id (fun _ h => secureBase_head seps s h) (fun _ h => secureBase_last seps s h)

theorem stripOf_cons_of_mem {chars : Str} {x : Char} (hx : chars.contains x = true) (r : Str) :
    stripOf chars (x :: r) = stripOf chars r := by
  unfold stripOf
  rw [List.dropWhile_cons_of_pos (by simpa using hx)]

/-- the name the device branch produces sanitises back to the name it was built from -/
theorem secureBase_underscore {seps : List Char} (hs : ∀ c ∈ seps, allowed c = false) (s : Str) :
    secureBase seps ('_' :: secureBase seps s) = secureBase seps s := by
  have ha : ∀ c ∈ '_' :: secureBase seps s, allowed c = true := by
    intro c hc
    rcases List.mem_cons.mp hc with rfl | hc
    · decide
    · exact secureBase_allowed seps s c hc
  rw [secureBase_of_allowed hs ha, stripOf_cons_of_mem (by decide)]
  exact stripOf_id (fun _ h => secureBase_head seps s h) (fun _ h => secureBase_last seps s h)

theorem secureAsciiWith_allowed (seps : List Char) (nt : Bool) (s : Str) :
    ∀ c ∈ secureAsciiWith seps nt s, allowed c = true := by
  intro c hc
  unfold secureAsciiWith at hc
  simp only at hc
  split at hc
  · rcases List.mem_cons.mp hc with rfl | hc
    · decide
    · exact secureBase_allowed seps s c hc
  · exact secureBase_allowed seps s c hc

theorem secureAsciiWith_head (seps : List Char) (nt : Bool) (s : Str) :
    (secureAsciiWith seps nt s).head? ≠ some '.' := by
  unfold secureAsciiWith
  simp only
  split
  · simp
  · intro h; exact absurd (secureBase_head seps s h) (by decide)

theorem secureAsciiWith_idem {seps : List Char} (hs : ∀ c ∈ seps, allowed c = false) (nt : Bool)
    (s : Str) : secureAsciiWith seps nt (secureAsciiWith seps nt s) = secureAsciiWith seps nt s := by
  unfold secureAsciiWith
  simp only
  have hidem := secureBase_idem hs s
  have hund := secureBase_underscore hs s
  generalize secureBase seps s = r at hidem hund
  by_cases hc : (nt && !r.isEmpty && isDevice r) = true
  · rw [if_pos hc, hund, if_pos hc]
  · rw [if_neg hc, hidem, if_neg hc]

/-- no entry of `_windows_device_files` starts with an underscore -/
theorem device_no_underscore : ∀ d ∈ Gen.Paths.windowsDeviceFiles, d.toList.head? ≠ some '_' := by
  decide

theorem isDevice_underscore (r : Str) : isDevice ('_' :: r) = false := by
  unfold isDevice
  rw [List.any_eq_false]
  intro d hd hbeq
  have hne := device_no_underscore d hd
  have heq : d.toList = (beforeDot ('_' :: r)).map upperChar := by simpa using hbeq
  have hb : beforeDot ('_' :: r) = '_' :: beforeDot r := by
    simp [beforeDot, List.takeWhile]
  rw [hb] at heq
  apply hne
  rw [heq]
  simp [upperChar]

/-- with the Windows branch on, the result is never one of the device names -/
theorem secureAsciiWith_nt_not_device (seps : List Char) (s : Str) :
    isDevice (secureAsciiWith seps true s) = false ∨ secureAsciiWith seps true s = [] := by
  unfold secureAsciiWith
  simp only
  by_cases hc : (true && !(secureBase seps s).isEmpty && isDevice (secureBase seps s)) = true
  · left; simp only [hc, if_true]; exact isDevice_underscore _
  · rw [if_neg hc]
    simp only [Bool.true_and, Bool.and_eq_true, Bool.not_eq_true', not_and, Bool.not_eq_true,
      List.isEmpty_eq_false_iff] at hc
    by_cases he : secureBase seps s = []
    · right; exact he
    · left; exact hc he

end Wz.Paths
