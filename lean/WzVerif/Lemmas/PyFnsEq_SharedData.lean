/-
PyFnsEq_SharedData — `SharedDataMiddleware.__call__` up to the decision which file is served
(`werkzeug/middleware/shared_data.py`) *as regenerated from werkzeug's source* by `tools/py2lean.py`
(`Gen/PyFns_Paths.lean`: `shared_data_select` with its `for search_path, loader in self.exports` loop) is
equal, for all inputs, to `Paths.findExport` / `Paths.sharedData` of `Model/StaticFiles.lean`, the
hand-written model the C14 theorems are about. The generated definition is rewritten on every check
run; a change of the Python source changes it and breaks these obligations.

Main theorems: `shared_data_select_general`, `shared_data_select_not_unbound`, `shared_data_select_eq`,
`shared_data_select_served`. Helper `endswith_singleton` is a candidate for a shared library.
-/
import WzVerif.Gen.PyFns_Paths
import WzVerif.Model.StaticFiles
import WzVerif.Lemmas.PyFns_Prelude
import WzVerif.Lemmas.PyFnsEq_MwHelpers
namespace Wz.PyFnsEq.Middleware
open Wz Wz.Pre

/-! ## `SharedDataMiddleware.__call__` -/

/-- `s.endswith(c)` for a one-character `c`: the last character is `c` -/
theorem endswith_singleton {α : Type} [BEq α] [LawfulBEq α] (s : List α) (c : α) :
    endswith s [c] = (s.getLast? == some c) := by
  unfold endswith List.isSuffixOf
  rw [← List.head?_reverse]
  cases s.reverse with
  | nil => simp
  | cons x t => simp [isPrefixOf_singleton, BEq.comm]

/-- `if not search_path.endswith("/"): search_path += "/"` -/
theorem withSlash_eq (s : Str) :
    (if !(endswith s ['/']) then s ++ ['/'] else s) = Paths.withSlash s := by
  unfold Paths.withSlash
  rw [endswith_singleton]
  by_cases h : s.getLast? = some '/' <;> simp [h]

section shared
open Gen.PyFns_Paths
variable {Ldr Fld : Type}

/-- the answer `(real_filename, file_loader)` of a loader call, read as the loop reads it:
`some` = `file_loader is not None` (the loop `break`s), `none` = go on -/
def hit (r : Option Str × Option Fld) : Option (Option Str × Fld) :=
  match r.2 with
  | some fl => some (r.1, fl)
  | none => none

/-- one iteration of the export loop for an arbitrary loader: the exact-match call `loader(None)`
when `search_path == path`, else / after it the prefix call `loader(path[len(search_path'):])` with
`search_path' = search_path` + `/` if missing, when `path` starts with `search_path'` -/
def tryLoader (call : Ldr → Option Str → Option Str × Option Fld) (path search : Str) (ldr : Ldr) :
    Option (Option Str × Fld) :=
  match (if search = path then hit (call ldr none) else none) with
  | some r => some r
  | none =>
    if Paths.startsWith path (Paths.withSlash search) then
      hit (call ldr (some (path.drop (Paths.withSlash search).length)))
    else none

/-- the first export, in order, one of whose (at most two) loader calls answers a file loader -/
def firstLoader (call : Ldr → Option Str → Option Str × Option Fld) (path : Str) :
    List (Str × Ldr) → Option (Option Str × Fld)
  | [] => none
  | (search, ldr) :: rest =>
    match tryLoader call path search ldr with
    | some r => some r
    | none => firstLoader call path rest

/-- **The `for search_path, loader in self.exports` loop** of `SharedDataMiddleware.__call__`, as
translated from the current source, for **arbitrary** loaders (`call` is `loader(path)`), entered
with `file_loader = None` and `real_filename` in any state (unbound or bound): it is left by `break`
exactly when some export's loader answers a non-`None` file loader - for the first such export in
the order of `self.exports`, with the `(real_filename, file_loader)` of that call (`firstLoader`) -
and otherwise runs to its end with `file_loader` still `None`. It never returns from inside. -/
theorem shared_data_loop_eq (pinfo : Str) (call : Ldr → Option Str → Option Str × Option Fld)
    (allowed : Str → Bool) (path : Str) : ∀ (exports : List (Str × Ldr)) (rf : Option (Option Str)),
    (∀ r, firstLoader call path exports = some r →
      shared_data_select.loop1 pinfo call allowed path exports rf none = .brk (some r.1, some r.2)) ∧
    (firstLoader call path exports = none →
      ∃ rf', shared_data_select.loop1 pinfo call allowed path exports rf none = .fall (rf', none)) := by
  intro exports
  induction exports with
  | nil => intro rf; exact ⟨fun r h => by simp [firstLoader] at h, fun _ => ⟨rf, rfl⟩⟩
  | cons x rest ih =>
    intro rf
    obtain ⟨search, ldr⟩ := x
    unfold shared_data_select.loop1 firstLoader tryLoader
    simp only [withSlash_eq, Int.ofNat_eq_natCast, slice_nat_none, startswith, Paths.startsWith,
      beq_iff_eq]
    by_cases hs : search = path
    · simp only [hs, if_true]
      cases h1 : call ldr none with
      | mk a b =>
        cases b with
        | some fl => simp [hit]
        | none =>
          by_cases hp : (Paths.withSlash path).isPrefixOf path = true
          · simp only [hp, if_true, hit]
            cases h2 : call ldr (some (path.drop (Paths.withSlash path).length)) with
            | mk a2 b2 =>
              cases b2 with
              | some fl => simp
              | none => simpa using ih (some a2)
          · simp only [hp, Bool.false_eq_true, if_false, hit]
            simpa using ih (some a)
    · simp only [hs, if_false]
      by_cases hp : (Paths.withSlash search).isPrefixOf path = true
      · simp only [hp, if_true, hit]
        cases h2 : call ldr (some (path.drop (Paths.withSlash search).length)) with
        | mk a2 b2 =>
          cases b2 with
          | some fl => simp
          | none => simpa using ih (some a2)
      · simp only [hp, Bool.false_eq_true, if_false]
        simpa using ih rf

/-- what `__call__` does with the loop's answer: `file_loader is None or not
self.is_allowed(real_filename)` sends the request to the wrapped application (`none`) -/
def selected (allowed : Str → Bool) : Option (Option Str × Fld) → Except String (Option (Str × Fld))
  | none => .ok none
  | some (none, _) => .error "TypeError"
  | some (some name, fl) => if allowed name then .ok (some (name, fl)) else .ok none

/-- **`SharedDataMiddleware.__call__` up to the decision which file is served**, as translated from
the current source (the export loop, then `if file_loader is None or not
self.is_allowed(real_filename): return self.app(…)`), for **arbitrary** loaders, every `is_allowed`
predicate, every export list and every request path: the request goes to the wrapped application
(`none`) when no export's loader answers a file loader, or when `is_allowed` rejects the
`real_filename` of the first one that does; otherwise that `(real_filename, file_loader)` is served.
The only error arm that can be reached is `is_allowed(None)` ("TypeError": a loader answered
`(None, file_loader)` with a file loader - none of werkzeug's three loaders does, see
`shared_data_select_eq`). -/
theorem shared_data_select_general (path : Str) (call : Ldr → Option Str → Option Str × Option Fld)
    (allowed : Str → Bool) (exports : List (Str × Ldr)) :
    shared_data_select path call allowed exports () ()
      = selected allowed (firstLoader call path exports) := by
  unfold shared_data_select
  dsimp only
  obtain ⟨hb, hf⟩ := shared_data_loop_eq path call allowed path exports none
  cases h : firstLoader call path exports with
  | none =>
    obtain ⟨rf', hl⟩ := hf h
    rw [hl]; rfl
  | some r =>
    obtain ⟨n, fl⟩ := r
    rw [hb _ h]
    cases n with
    | none => rfl
    | some name => cases ha : allowed name <;> simp [selected, ha]

/-- `real_filename` is declared by its first assignment inside the loop, and read after the loop;
the translation therefore has an "UnboundLocalError" arm. It is **unreachable for every loader**:
`real_filename` is only read when `file_loader is not None`, and both are assigned together. -/
theorem shared_data_select_not_unbound (path : Str)
    (call : Ldr → Option Str → Option Str × Option Fld) (allowed : Str → Bool)
    (exports : List (Str × Ldr)) :
    shared_data_select path call allowed exports () () ≠ .error "UnboundLocalError" := by
  rw [shared_data_select_general]
  cases firstLoader call path exports with
  | none => simp [selected]
  | some r =>
    obtain ⟨n, fl⟩ := r
    cases n with
    | none => simp [selected]
    | some name => cases ha : allowed name <;> simp [selected, ha]

/-! ### werkzeug's own loaders -/

/-- `loader(path)` for the loader `__init__` chose for an export (`Paths.loaderOf`: directory, single
file or package loader); the file-loader object is represented by the path it opens -/
def callOf (isfile : Str → Bool) : Paths.Export → Option Str → Option Str × Option Str :=
  fun ex p =>
    match Paths.loaderOf isfile ex p with
    | some (name, f) => (some name, some f)
    | none => (none, none)

/-- a model answer as the generic loop sees it: the `real_filename` is never `None` -/
def lift : Str × Str → Option Str × Str := fun r => (some r.1, r.2)

theorem hit_callOf (isfile : Str → Bool) (ex : Paths.Export) (p : Option Str) :
    hit (callOf isfile ex p) = (Paths.loaderOf isfile ex p).map lift := by
  unfold callOf hit
  cases Paths.loaderOf isfile ex p with
  | none => rfl
  | some r => obtain ⟨a, b⟩ := r; rfl

theorem tryLoader_callOf (isfile : Str → Bool) (path search : Str) (ex : Paths.Export) :
    tryLoader (callOf isfile) path search ex = (Paths.tryExport isfile search ex path).map lift := by
  unfold tryLoader Paths.tryExport
  simp only [hit_callOf]
  by_cases hs : search = path
  · simp only [hs, if_true]
    cases Paths.loaderOf isfile ex none with
    | some r => rfl
    | none =>
      simp only [Option.map_none]
      split <;> rfl
  · simp only [hs, if_false]
    split <;> rfl

theorem firstLoader_callOf (isfile : Str → Bool) (path : Str) (exports : List (Str × Paths.Export)) :
    firstLoader (callOf isfile) path exports = (Paths.findExport isfile exports path).map lift := by
  induction exports with
  | nil => rfl
  | cons x rest ih =>
    obtain ⟨search, ex⟩ := x
    unfold firstLoader Paths.findExport
    rw [tryLoader_callOf, ih]
    cases Paths.tryExport isfile search ex path <;> rfl

/-- **`SharedDataMiddleware.__call__` with werkzeug's own loaders**, as translated from the current
source, for every file system (`isfile`), every `is_allowed` predicate, every export list as
`__init__` builds it (directory / single-file / package exports, in the order of `self.exports`) and
every request path: the function **never raises** - no `UnboundLocalError` and no `TypeError` arm is
reachable, because these loaders answer `(None, None)` or `(basename, opener)` - and it decides
exactly as C14's model: the first export whose loader finds a file (`Paths.findExport`), served iff
`is_allowed(real_filename)`. The answer is `(real_filename, path that is opened)`, `none` = the
wrapped application is called. No input was found on which code and model differ. -/
theorem shared_data_select_eq (isfile allowed : Str → Bool) (exports : List (Str × Paths.Export))
    (path : Str) :
    shared_data_select path
        (fun ex p => match Paths.loaderOf isfile ex p with
          | some (name, f) => (some name, some f)
          | none => (none, none))
        allowed exports () ()
      = .ok ((Paths.findExport isfile exports path).bind fun (name, f) =>
          if allowed name then some (name, f) else none) := by
  have h := shared_data_select_general path (callOf isfile) allowed exports
  rw [firstLoader_callOf] at h
  refine Eq.trans h ?_
  cases Paths.findExport isfile exports path with
  | none => rfl
  | some r =>
    obtain ⟨name, f⟩ := r
    cases ha : allowed name <;> simp [selected, lift, ha]

/-- **The file that is served**: the path opened by the file loader the translated `__call__`
selects is exactly C14's `Paths.sharedData` (the function the C14 containment theorems are about),
for every file system, `is_allowed`, export list and request path. -/
theorem shared_data_select_served (isfile allowed : Str → Bool) (exports : List (Str × Paths.Export))
    (path : Str) :
    (shared_data_select path
        (fun ex p => match Paths.loaderOf isfile ex p with
          | some (name, f) => (some name, some f)
          | none => (none, none))
        allowed exports () ()).map (Option.map (·.2))
      = .ok (Paths.sharedData isfile allowed exports path) := by
  rw [shared_data_select_eq]
  unfold Paths.sharedData
  cases Paths.findExport isfile exports path with
  | none => rfl
  | some r =>
    obtain ⟨name, f⟩ := r
    cases ha : allowed name <;> simp [Except.map, ha]

/-- a directory export and a single-file export on a file system with the two files
`/srv/static/a.txt` and `/srv/one.txt`: the directory loader joins safely, the file loader ignores
what follows its key (replayed on CPython: `/one.txt/zzz` serves `one.txt`), `..` falls through -/
example :
    let isfile : Str → Bool := fun p => p == "/srv/static/a.txt".toList || p == "/srv/one.txt".toList
    let exports := [("/static".toList, Paths.Export.dir "/srv/static".toList),
      ("/one.txt".toList, Paths.Export.file "/srv/one.txt".toList)]
    let run := fun (p : String) => (shared_data_select p.toList (callOf isfile) (fun _ => true) exports () ()).toOption
    run "/static/a.txt" = some (some ("a.txt".toList, "/srv/static/a.txt".toList))
    ∧ run "/one.txt/zzz" = some (some ("one.txt".toList, "/srv/one.txt".toList))
    ∧ run "/static/../one.txt" = some none
    ∧ run "/static" = some none := by decide

end shared

end Wz.PyFnsEq.Middleware
