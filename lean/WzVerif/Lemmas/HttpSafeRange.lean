import WzVerif.Lemmas.HttpSafeOpt
set_option linter.unusedSimpArgs false
namespace Wz.Http
open Wz

/-! ### Range / Content-Range / Age / Cache-Control / Authorization -/

theorem catching_plainInt_safe (s : Str) : Safe (catching ["ValueError"] ((plainInt s).map some) none) :=
  catching_safe (onlyRaises_map _ (plainInt_onlyRaises s))

/-- every range the item loop accepts satisfies what the `Range` constructor checks -/
def GoodRange (r : Int × Option Int) : Prop := badRange r = false

theorem signSplit_noDash {v : Str} (h : '-' ∉ v) : signSplit v = (false, v) := by
  unfold signSplit
  split
  · next r => exact absurd (by simp) h
  · rfl

theorem strip_subset (s : Str) : ∀ c ∈ strip s, c ∈ s := by
  intro c hc
  simp only [strip, Py.strip, Py.rstripBy, List.mem_reverse] at hc
  have h1 := (List.dropWhile_sublist _).subset hc
  simp only [List.mem_reverse] at h1
  exact (List.dropWhile_sublist _).subset h1

theorem plainInt_nonneg_of_noDash {s : Str} {v : Int} (h : '-' ∉ s) (hv : plainInt s = .ok v) : 0 ≤ v := by
  unfold plainInt at hv
  have hs : '-' ∉ strip s := fun hc => h (strip_subset s _ hc)
  simp only [signSplit_noDash hs] at hv
  split at hv
  · simp only [Bool.false_eq_true, if_false, Except.ok.injEq] at hv
    rw [← hv]; exact Int.natCast_nonneg _
  · simp at hv

theorem partition_fst_noSep (c : Char) (s : Str) : c ∉ (partition c s).1 := by
  unfold partition
  simp only
  have : ∀ x ∈ s.takeWhile (· != c), x ≠ c := by
    intro x hx
    induction s with
    | nil => simp at hx
    | cons a t ih =>
      rw [List.takeWhile_cons] at hx
      split at hx
      · next ha =>
        simp only [List.mem_cons] at hx
        rcases hx with rfl | hx
        · simpa using ha
        · exact ih hx
      · simp at hx
  split <;> exact fun hm => this c hm rfl

theorem rangeItems_good (items : List Str) (lastEnd : Int) (acc : List (Int × Option Int))
    (hacc : ∀ r ∈ acc, GoodRange r) :
    ∃ res, rangeItems items lastEnd acc = .ok res ∧ ∀ rs, res = some rs → ∀ r ∈ rs, GoodRange r := by
  induction items generalizing lastEnd acc with
  | nil =>
    refine ⟨some acc.reverse, by simp [rangeItems], ?_⟩
    intro rs hrs r hr
    simp only [Option.some.injEq] at hrs
    rw [← hrs] at hr
    exact hacc r (by simpa using hr)
  | cons item0 more ih =>
    rw [rangeItems]
    simp only
    split
    · exact ⟨none, rfl, by simp⟩
    · split
      · -- suffix form
        split
        · exact ⟨none, rfl, by simp⟩
        · obtain ⟨ob, hob⟩ := catching_plainInt_safe (strip item0)
          rw [hob]
          simp only [ok_bind]
          cases ob with
          | none => exact ⟨none, rfl, by simp⟩
          | some b =>
            simp only
            split
            · exact ⟨none, rfl, by simp⟩
            · exact ih (-1) ((b, none) :: acc) (by
                intro r hr
                simp only [List.mem_cons] at hr
                rcases hr with rfl | hr
                · simp [GoodRange, badRange]
                · exact hacc r hr)
      · generalize hp : partition '-' (strip item0) = p
        obtain ⟨bs, f, es⟩ := p
        simp only
        obtain ⟨ob, hob⟩ := catching_plainInt_safe (strip bs)
        rw [hob]
        simp only [ok_bind]
        cases ob with
        | none => exact ⟨none, rfl, by simp⟩
        | some b =>
          simp only
          have hb0 : 0 ≤ b := by
            have hnd : '-' ∉ bs := by
              have := partition_fst_noSep '-' (strip item0)
              rw [hp] at this; exact this
            have hnd' : '-' ∉ strip bs := fun hc => hnd (strip_subset bs _ hc)
            unfold catching at hob
            cases hpi : plainInt (strip bs) with
            | ok v =>
              rw [hpi] at hob
              simp only [Except.map, Except.ok.injEq, Option.some.injEq] at hob
              rw [← hob]
              exact plainInt_nonneg_of_noDash hnd' hpi
            | error e =>
              rw [hpi] at hob
              simp only [Except.map] at hob
              split at hob <;> simp at hob
          split
          · exact ⟨none, rfl, by simp⟩
          · split
            · obtain ⟨oe, hoe⟩ := catching_plainInt_safe (strip es)
              rw [hoe]
              simp only [ok_bind]
              cases oe with
              | none => exact ⟨none, rfl, by simp⟩
              | some e1 =>
                simp only
                split
                · exact ⟨none, rfl, by simp⟩
                · next hge =>
                  exact ih (e1 + 1) ((b, some (e1 + 1)) :: acc) (by
                    intro r hr
                    simp only [List.mem_cons] at hr
                    rcases hr with rfl | hr
                    · simp only [GoodRange, badRange, Bool.or_eq_false_iff, decide_eq_false_iff_not]
                      constructor <;> omega
                    · exact hacc r hr)
            · exact ih (-1) ((b, none) :: acc) (by
                intro r hr
                simp only [List.mem_cons] at hr
                rcases hr with rfl | hr
                · simp [GoodRange, badRange]
                · exact hacc r hr)

theorem parseRangeHeader_safe (s : Str) : Safe (parseRangeHeader s) := by
  unfold parseRangeHeader
  split
  · exact ⟨none, rfl⟩
  · generalize partition '=' s = p
    obtain ⟨u, f, rng⟩ := p
    simp only
    obtain ⟨res, hres, hgood⟩ := rangeItems_good (splitOnChar ',' rng) 0 [] (by simp)
    rw [hres]
    simp only [ok_bind]
    cases res with
    | none => exact ⟨none, rfl⟩
    | some rs =>
      simp only
      have : rangeCtor (pyLower (strip u)) rs = .ok ⟨pyLower (strip u), rs⟩ := by
        unfold rangeCtor
        have : rs.any badRange = false := by
          rw [List.any_eq_false]
          intro r hr
          have := hgood rs rfl r hr
          simp [GoodRange] at this
          simp [this]
        simp [this]
      rw [this]
      exact ⟨_, rfl⟩

end Wz.Http
