import WzVerif.Lemmas.Date
set_option linter.unusedSimpArgs false
namespace Wz.Date

theorem pad2_table : ∀ n, n < 100 → pad2 n = [Nat.digitChar (n / 10), Nat.digitChar (n % 10)] := by
  decide +kernel

theorem digitChar_isDigit : ∀ a, a < 10 → (Nat.digitChar a).isDigit = true := by decide

theorem toDigits_step (n : Nat) (h : 10 ≤ n) :
    Nat.toDigits 10 n = Nat.toDigits 10 (n / 10) ++ [Nat.digitChar (n % 10)] :=
  Nat.toDigits_of_base_le (by decide) h

theorem toDigits_small (n : Nat) (h : n < 10) : Nat.toDigits 10 n = [Nat.digitChar n] :=
  Nat.toDigits_of_lt_base h

theorem pad4_table (n : Nat) (h : n < 10000) :
    pad4 n = [Nat.digitChar (n / 1000), Nat.digitChar (n / 100 % 10), Nat.digitChar (n / 10 % 10), Nat.digitChar (n % 10)]
    ∧ num? [Nat.digitChar (n / 1000), Nat.digitChar (n / 100 % 10), Nat.digitChar (n / 10 % 10), Nat.digitChar (n % 10)] = some n := by
  constructor
  · unfold pad4
    by_cases h1 : n < 10
    · have e1 : n / 1000 = 0 := by omega
      have e2 : n / 100 % 10 = 0 := by omega
      have e3 : n / 10 % 10 = 0 := by omega
      have e4 : n % 10 = n := by omega
      simp [toDigits_small n h1, e1, e2, e3, e4, List.replicate]
    · by_cases h2 : n < 100
      · have e1 : n / 1000 = 0 := by omega
        have e2 : n / 100 % 10 = 0 := by omega
        have e3 : n / 10 % 10 = n / 10 := by omega
        simp [toDigits_step n (by omega), toDigits_small (n / 10) (by omega), e1, e2, e3, List.replicate]
      · by_cases h3 : n < 1000
        · have e1 : n / 1000 = 0 := by omega
          have e2 : n / 100 % 10 = n / 10 / 10 := by omega
          have e3 : n / 10 % 10 = n / 10 % 10 := rfl
          simp [toDigits_step n (by omega), toDigits_step (n / 10) (by omega),
            toDigits_small (n / 10 / 10) (by omega), e1, e2, List.replicate]
        · have e1 : n / 1000 = n / 10 / 10 / 10 := by omega
          have e2 : n / 100 % 10 = n / 10 / 10 % 10 := by omega
          simp [toDigits_step n (by omega), toDigits_step (n / 10) (by omega),
            toDigits_step (n / 10 / 10) (by omega), toDigits_small (n / 10 / 10 / 10) (by omega), e1, e2,
            List.replicate]
  · have d1 := digitChar_isDigit (n / 1000) (by omega)
    have d2 := digitChar_isDigit (n / 100 % 10) (by omega)
    have d3 := digitChar_isDigit (n / 10 % 10) (by omega)
    have d4 := digitChar_isDigit (n % 10) (by omega)
    simp only [num?, List.isEmpty_cons, Bool.not_false, List.all_cons, d1, d2, d3, d4, List.all_nil,
      Bool.and_self, if_true]
    rw [Nat.ofDigitChars_cons_digitChar_of_lt_ten (by omega), Nat.ofDigitChars_cons_digitChar_of_lt_ten (by omega),
      Nat.ofDigitChars_cons_digitChar_of_lt_ten (by omega), Nat.ofDigitChars_cons_digitChar_of_lt_ten (by omega)]
    simp only [Nat.ofDigitChars_nil]
    congr 1
    omega

theorem num2_table : ∀ a, a < 10 → ∀ b, b < 10 → num? [Nat.digitChar a, Nat.digitChar b] = some (10 * a + b) := by
  decide +kernel

def dayOk (w : Nat) : Bool :=
  match dayNames.getD w [] with
  | [x, y, z] => x.isAlpha && y.isAlpha && z.isAlpha
  | _ => false

theorem day_table : ∀ w, w < 7 → dayOk w = true := by decide +kernel

def monthOk (m : Nat) : Bool :=
  match monthNames.getD m [] with
  | [x, y, z] => monthIndex? [x, y, z] == some (m + 1)
  | _ => false

theorem month_table : ∀ m, m < 12 → monthOk m = true := by decide +kernel

theorem day_shape (w : Nat) (h : w < 7) :
    ∃ x y z, dayNames.getD w [] = [x, y, z] ∧ x.isAlpha = true ∧ y.isAlpha = true ∧ z.isAlpha = true := by
  have := day_table w h
  unfold dayOk at this
  split at this
  · next x y z heq => exact ⟨x, y, z, heq, by simpa [Bool.and_eq_true, and_assoc] using this⟩
  · simp at this

theorem month_shape (m : Nat) (h : m < 12) :
    ∃ x y z, monthNames.getD m [] = [x, y, z] ∧ monthIndex? [x, y, z] = some (m + 1) := by
  have := month_table m h
  unfold monthOk at this
  split at this
  · next x y z heq => exact ⟨x, y, z, heq, by simpa using this⟩
  · simp at this

/-- formatting and re-reading the civil fields -/
theorem parse_format (c : Civil) (hv : c.valid = true) (hy : 100 ≤ c.y) :
    parseImfFixdate (formatCivil c) = some c := by
  obtain ⟨y, mo, d, hh, mi, ss⟩ := c
  simp only [Civil.valid, Bool.and_eq_true, decide_eq_true_eq] at hv
  obtain ⟨⟨⟨⟨⟨⟨⟨⟨hy1, hy2⟩, hm1⟩, hm2⟩, hd1⟩, hd2⟩, hh24⟩, hmi⟩, hss⟩ := hv
  simp only at hy
  have hd31 : d < 100 := by
    have : daysInMonth (isLeap y) mo ≤ 31 := by
      unfold daysInMonth; split <;> (try split) <;> omega
    omega
  obtain ⟨w1, w2, w3, hw, a1, a2, a3⟩ := day_shape (weekday (ymd2ord y mo d)) (by unfold weekday; omega)
  obtain ⟨m1, m2, m3, hmn, hmi'⟩ := month_shape (mo - 1) (by omega)
  have hfmt : formatCivil ⟨y, mo, d, hh, mi, ss⟩ =
      [w1, w2, w3, ',', ' ', Nat.digitChar (d / 10), Nat.digitChar (d % 10), ' ', m1, m2, m3, ' ',
        Nat.digitChar (y / 1000), Nat.digitChar (y / 100 % 10), Nat.digitChar (y / 10 % 10), Nat.digitChar (y % 10), ' ',
        Nat.digitChar (hh / 10), Nat.digitChar (hh % 10), ':', Nat.digitChar (mi / 10), Nat.digitChar (mi % 10), ':',
        Nat.digitChar (ss / 10), Nat.digitChar (ss % 10), ' ', 'G', 'M', 'T'] := by
    simp only [formatCivil, hw, hmn, pad2_table d hd31, pad2_table hh (by omega), pad2_table mi (by omega),
      pad2_table ss (by omega), (pad4_table y (by omega)).1]
    have s1 : ", ".toList = [',', ' '] := by decide
    have s2 : " GMT".toList = [' ', 'G', 'M', 'T'] := by decide
    simp [s1, s2]
  rw [hfmt]
  simp only [parseImfFixdate, a1, a2, a3, Bool.and_self, Bool.not_true, Bool.false_eq_true, if_false]
  rw [num2_table _ (by omega) _ (by omega), hmi', (pad4_table y (by omega)).2,
    num2_table _ (by omega) _ (by omega), num2_table _ (by omega) _ (by omega), num2_table _ (by omega) _ (by omega)]
  have e1 : 10 * (d / 10) + d % 10 = d := by omega
  have e2 : 10 * (hh / 10) + hh % 10 = hh := by omega
  have e3 : 10 * (mi / 10) + mi % 10 = mi := by omega
  have e4 : 10 * (ss / 10) + ss % 10 = ss := by omega
  have e5 : mo - 1 + 1 = mo := by omega
  have hy100 : ¬ (y < 100) := by omega
  simp [e1, e2, e3, e4, e5, hy100, Civil.valid, hy1, hy2, hm1, hm2, hd1, hd2, hh24, hmi, hss]

end Wz.Date
namespace Wz.Date

/-- 0100-01-01T00:00:00 (smallest year email.utils does not re-century) -/
def tMin : Nat := (ymd2ord 100 1 1 - 1) * 86400
/-- 9999-12-31T23:59:59 -/
def tMax : Nat := ymd2ord 9999 12 31 * 86400 - 1

theorem tMin_val : tMin = 36159 * 86400 := by decide
theorem tMax_val : tMax = 3652059 * 86400 - 1 := by decide

theorem dby_succ (y : Nat) (hy : 1 ≤ y) : daysBeforeYear (y + 1) = daysBeforeYear y + 365 + (isLeap y).toNat := by
  obtain ⟨q, rfl⟩ : ∃ q, y = q + 1 := ⟨y - 1, by omega⟩
  have e1 : daysBeforeYear (q + 1 + 1) = (q + 1) * 365 + (q + 1) / 4 - (q + 1) / 100 + (q + 1) / 400 := rfl
  have e2 : daysBeforeYear (q + 1) = q * 365 + q / 4 - q / 100 + q / 400 := rfl
  rw [e1, e2]
  have g1 : q / 100 ≤ q / 4 := by omega
  have g2 : (q + 1) / 100 ≤ (q + 1) / 4 := by omega
  by_cases c4 : (q + 1) % 4 = 0
  · by_cases c100 : (q + 1) % 100 = 0
    · by_cases c400 : (q + 1) % 400 = 0
      · have hl : isLeap (q + 1) = true := by rw [isLeap_iff]; omega
        rw [hl]; simp only [Bool.toNat_true]; omega
      · have hl : isLeap (q + 1) = false := by
          have : ¬ isLeap (q + 1) = true := by rw [isLeap_iff]; omega
          simpa using this
        rw [hl]; simp only [Bool.toNat_false]; omega
    · have hl : isLeap (q + 1) = true := by rw [isLeap_iff]; omega
      rw [hl]; simp only [Bool.toNat_true]; omega
  · have hl : isLeap (q + 1) = false := by
      have : ¬ isLeap (q + 1) = true := by rw [isLeap_iff]; omega
      simpa using this
    rw [hl]; simp only [Bool.toNat_false]; omega

theorem month_span : ∀ leap : Bool, ∀ m, m < 13 → daysBeforeMonth leap m + daysInMonth leap m ≤ 365 + leap.toNat := by
  decide

theorem dby_ge_hi (y : Nat) (h : 10000 ≤ y) : 3652059 ≤ daysBeforeYear y := by
  simp only [daysBeforeYear]; omega

theorem dby_le_lo (y : Nat) (h : y ≤ 100) : daysBeforeYear y ≤ 36159 := by
  simp only [daysBeforeYear]; omega

theorem date_roundtrip_any (t : Nat) (h1 : tMin ≤ t) (h2 : t ≤ tMax) : parseDate (httpDate t) = some t := by
  rw [tMin_val] at h1
  rw [tMax_val] at h2
  have hn1 : 1 ≤ t / 86400 + 1 := by omega
  have spec := ord2ymd_spec (t / 86400 + 1) hn1
  unfold parseDate httpDate
  generalize hr : ord2ymd (t / 86400 + 1) = r at spec
  obtain ⟨y, mo, d⟩ := r
  obtain ⟨y1, m1, m12, d1, dmax, hord, ylo⟩ := spec
  simp only at y1 m1 m12 d1 dmax hord ylo
  have hc : civilOfSeconds t = ⟨y, mo, d, t % 86400 / 3600, t % 86400 % 3600 / 60, t % 86400 % 60⟩ := by
    simp [civilOfSeconds, hr]
  have hy9999 : y ≤ 9999 := by
    by_cases h : y ≤ 9999
    · exact h
    · have := dby_ge_hi y (by omega); omega
  have hy100 : 100 ≤ y := by
    by_cases h : 100 ≤ y
    · exact h
    · exfalso
      have hs := dby_succ y y1
      have hm := month_span (isLeap y) mo (by omega)
      have hle := dby_le_lo (y + 1) (by omega)
      simp only [ymd2ord] at hord
      omega
  have hvalid : (civilOfSeconds t).valid = true := by
    rw [hc]
    simp only [Civil.valid, Bool.and_eq_true, decide_eq_true_eq]
    refine ⟨⟨⟨⟨⟨⟨⟨⟨y1, hy9999⟩, m1⟩, m12⟩, d1⟩, dmax⟩, ?_⟩, ?_⟩, ?_⟩ <;> omega
  rw [parse_format _ hvalid (by rw [hc]; exact hy100), hc]
  simp only [Option.map_some, secondsOfCivil, hord]
  congr 1
  omega

end Wz.Date
