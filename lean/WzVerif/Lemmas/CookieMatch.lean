/-
Domain / path matching of the test client's jar (`Cookie._matches_request`) and the jar container.
-/
import WzVerif.Lemmas.CookieJar
namespace Wz.Cookie
open Wz

/-! ### `str.endswith` / `str.startswith` -/

theorem endsWith_iff (s suf : Str) : endsWith s suf = true ↔ ∃ pre, s = pre ++ suf := by
  unfold endsWith
  rw [List.isPrefixOf_iff_prefix]
  constructor
  · rintro ⟨t, ht⟩
    refine ⟨t.reverse, ?_⟩
    have := congrArg List.reverse ht
    simpa using this.symm
  · rintro ⟨pre, rfl⟩
    exact ⟨pre.reverse, by simp⟩

theorem endsWith_single (s : Str) (c : Char) : endsWith s [c] = true ↔ s.getLast? = some c := by
  rw [endsWith_iff]
  constructor
  · rintro ⟨pre, rfl⟩; simp
  · intro h
    cases hs : s.reverse with
    | nil => simp_all
    | cons x t =>
      have : s = t.reverse ++ [x] := by
        have := congrArg List.reverse hs; simpa using this
      subst this
      simp at h
      exact ⟨t.reverse, by rw [h]⟩

/-- **domain matching**: the request host equals the cookie domain, or — only when the response
carried a `Domain` attribute — it is a true subdomain (`<anything>.<domain>`) -/
theorem domainMatch_iff (cd : Str) (oo : Bool) (sn : Str) :
    domainMatch cd oo sn = true ↔
      sn = cd ∨ (oo = false ∧ cd ≠ [] ∧ ∃ pre, sn = pre ++ '.' :: cd) := by
  unfold domainMatch
  simp only [Bool.or_eq_true, beq_iff_eq, Bool.and_eq_true, Bool.not_eq_true']
  constructor
  · rintro (h | ⟨⟨hoo, hend⟩, hdot⟩)
    · exact Or.inl h
    · right
      by_cases hcd : cd = []
      · subst hcd; simp [endsWith] at hdot
      · obtain ⟨pre, rfl⟩ := (endsWith_iff sn cd).mp hend
        have hne : cd.isEmpty = false := by cases cd <;> simp_all
        rw [hne] at hdot
        simp only [Bool.false_eq_true, if_false, List.length_append, Nat.add_sub_cancel,
          List.take_left' rfl] at hdot
        obtain ⟨p2, rfl⟩ := (endsWith_iff pre ['.']).mp hdot
        exact ⟨hoo, hcd, p2, by simp⟩
  · rintro (h | ⟨hoo, hcd, pre, rfl⟩)
    · exact Or.inl h
    · right
      have hne : cd.isEmpty = false := by cases cd <;> simp_all
      refine ⟨⟨hoo, (endsWith_iff _ _).mpr ⟨pre ++ ['.'], by simp⟩⟩, ?_⟩
      rw [hne]
      simp only [Bool.false_eq_true, if_false]
      have : (pre ++ '.' :: cd).length - cd.length = (pre ++ ['.']).length := by simp; omega
      rw [this]
      have : pre ++ '.' :: cd = (pre ++ ['.']) ++ cd := by simp
      rw [this, List.take_left' rfl]
      exact (endsWith_iff _ _).mpr ⟨pre, rfl⟩

/-- **path matching**: the request path equals the cookie path, or the cookie path is a prefix that
ends at a segment boundary (it ends with `/`, or the next character of the request path is `/`) -/
theorem pathMatch_iff (cp rp : Str) :
    pathMatch cp rp = true ↔
      rp = cp ∨ ∃ rest, rp = cp ++ rest ∧ (cp.getLast? = some '/' ∨ rest.head? = some '/') := by
  unfold pathMatch
  simp only [Bool.or_eq_true, beq_iff_eq, Bool.and_eq_true, List.isPrefixOf_iff_prefix]
  constructor
  · rintro (h | ⟨⟨rest, rfl⟩, hh⟩)
    · exact Or.inl h
    · right
      refine ⟨rest, rfl, ?_⟩
      by_cases he : endsWith cp ['/'] = true
      · exact Or.inl ((endsWith_single cp '/').mp he)
      · right
        simp only [he, Bool.false_eq_true, if_false, Nat.sub_zero, List.drop_left' rfl] at hh
        simpa using hh
  · rintro (h | ⟨rest, rfl, h⟩)
    · exact Or.inl h
    · right
      refine ⟨⟨rest, rfl⟩, ?_⟩
      by_cases he : endsWith cp ['/'] = true
      · obtain ⟨pre, rfl⟩ := (endsWith_iff cp ['/']).mp he
        simp only [he, if_true, List.length_append, List.length_cons, List.length_nil,
          Nat.add_sub_cancel]
        have : pre ++ ['/'] ++ rest = pre ++ ('/' :: rest) := by simp
        rw [this, List.drop_left' rfl]
        simp
      · rcases h with h | h
        · exact absurd ((endsWith_single cp '/').mpr h) he
        · simp only [he, Bool.false_eq_true, if_false, Nat.sub_zero, List.drop_left' rfl]
          simpa using h

example : domainMatch "a.com".toList false "b.a.com".toList = true ∧
    domainMatch "a.com".toList false "xa.com".toList = false ∧
    domainMatch "a.com".toList true "b.a.com".toList = false := by decide

example : pathMatch "/a".toList "/a/b".toList = true ∧ pathMatch "/a".toList "/ab".toList = false ∧
    pathMatch "/a/".toList "/a/b".toList = true ∧ pathMatch "/a/".toList "/a".toList = false := by decide

/-! ### the default path always covers the URL that set the cookie -/

theorem rpartitionHead_spec (s : Str) :
    (∀ c ∈ s, c ≠ '/') ∧ rpartitionHead '/' s = [] ∨
    ∃ t, s = rpartitionHead '/' s ++ '/' :: t := by
  unfold rpartitionHead
  cases hd : s.reverse.dropWhile (· != '/') with
  | nil =>
    left
    refine ⟨?_, rfl⟩
    intro c hc e
    subst e
    have hmem : '/' ∈ s.reverse := by simpa using hc
    have hall : ∀ l : Str, l.dropWhile (· != '/') = [] → ∀ x ∈ l, x ≠ '/' := by
      intro l
      induction l with
      | nil => intro _ x hx; simp at hx
      | cons a t ih =>
        intro hl x hx
        by_cases ha : a = '/'
        · subst ha; simp [List.dropWhile] at hl
        · rw [List.dropWhile_cons_of_pos (by simpa using ha)] at hl
          simp only [List.mem_cons] at hx
          rcases hx with rfl | hx
          · exact ha
          · exact ih hl x hx
    exact hall _ hd '/' hmem rfl
  | cons x revHead =>
    right
    have hx : x = '/' := by
      have := List.head?_dropWhile_not (· != '/') s.reverse
      rw [hd] at this
      simpa using this
    subst hx
    refine ⟨(s.reverse.takeWhile (· != '/')).reverse, ?_⟩
    have := List.takeWhile_append_dropWhile (p := (· != '/')) (l := s.reverse)
    rw [hd] at this
    have h2 := congrArg List.reverse this
    simp only [List.reverse_append, List.reverse_cons, List.reverse_reverse, List.append_assoc,
      List.singleton_append] at h2
    exact h2.symm

/-- a cookie stored under the default path is sent back to the URL whose response set it -/
theorem defaultPath_matches (rp : Str) (h : rp.head? = some '/') : pathMatch (defaultPath rp) rp = true := by
  rw [pathMatch_iff]
  unfold defaultPath
  rcases rpartitionHead_spec rp with ⟨hno, _⟩ | ⟨t, ht⟩
  · cases rp with
    | nil => simp at h
    | cons c r => simp at h; subst h; exact absurd rfl (hno '/' (by simp))
  · by_cases he : (rpartitionHead '/' rp).isEmpty = true
    · simp only [he, if_true]
      right
      cases rp with
      | nil => simp at h
      | cons c r =>
        simp at h; subst h
        exact ⟨r, rfl, Or.inl rfl⟩
    · simp only [he, Bool.false_eq_true, if_false]
      right
      exact ⟨'/' :: t, ht, Or.inr rfl⟩

end Wz.Cookie
