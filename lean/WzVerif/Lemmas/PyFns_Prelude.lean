/-
Facts about the CPython primitives of `Util/PyPrelude.lean`, used by the equivalence proofs
between translated functions (`Gen/PyFns_*.lean`) and the hand-written models.
-/
import WzVerif.Util.PyPrelude
namespace Wz.Pre

/-! ### slicing with non-negative bounds -/

theorem clamp_natCast (n i : Nat) : clamp n (i : Int) = min i n := by
  unfold clamp
  have : ¬ ((i : Int) < 0) := by omega
  simp [this]

theorem clamp_of_nonneg (n : Nat) (i : Int) (h : 0 ≤ i) : clamp n i = min i.toNat n := by
  unfold clamp
  have : ¬ (i < 0) := by omega
  simp [this]

theorem slice_nat (s : List α) (a b : Nat) :
    slice s (some (a : Int)) (some (b : Int)) = (s.take b).drop a := by
  simp only [slice, clamp_natCast]
  rw [← List.take_eq_take_min]
  rcases Nat.le_total a s.length with h | h
  · rw [Nat.min_eq_left h]
  · rw [Nat.min_eq_right h, List.drop_eq_nil_of_le (by simp; omega),
      List.drop_eq_nil_of_le (by simp; omega)]

theorem slice_none_nat (s : List α) (b : Nat) : slice s none (some (b : Int)) = s.take b := by
  simp only [slice, clamp_natCast, List.drop_zero]
  rw [← List.take_eq_take_min]

theorem slice_nat_none (s : List α) (a : Nat) : slice s (some (a : Int)) none = s.drop a := by
  simp only [slice, clamp_natCast, List.take_length]
  rcases Nat.le_total a s.length with h | h
  · rw [Nat.min_eq_left h]
  · rw [Nat.min_eq_right h, List.drop_eq_nil_of_le (by omega), List.drop_eq_nil_of_le (by omega)]

/-! ### single-character search -/

theorem isPrefixOf_singleton [BEq α] (c x : α) (t : List α) :
    [c].isPrefixOf (x :: t) = (c == x) := by
  simp [List.isPrefixOf]

theorem startswith_singleton_cons [BEq α] (c x : α) (t : List α) :
    startswith (x :: t) [c] = (c == x) := by
  simp [startswith, List.isPrefixOf]

theorem startswith_singleton_nil [BEq α] (c : α) : startswith ([] : List α) [c] = false := by
  simp [startswith, List.isPrefixOf]

theorem findIdx?_singleton_cons [BEq α] (c x : α) (t : List α) :
    findIdx? [c] (x :: t) = if c == x then some 0 else (findIdx? [c] t).map (· + 1) := by
  simp only [findIdx?, isPrefixOf_singleton]

theorem findIdx?_singleton_nil [BEq α] (c : α) : findIdx? [c] ([] : List α) = none := by
  simp [findIdx?]

section search
variable [BEq α] [LawfulBEq α]

/-- `s.find(c)` for a one-character `c` that does not occur -/
theorem findIdx?_singleton_not_mem (c : α) (s : List α) (h : c ∉ s) : findIdx? [c] s = none := by
  induction s with
  | nil => exact findIdx?_singleton_nil c
  | cons x t ih =>
    have hx : (c == x) = false := by
      simp only [List.mem_cons, not_or] at h
      simpa using h.1
    have ht : c ∉ t := fun hm => h (List.mem_cons_of_mem _ hm)
    simp [findIdx?_singleton_cons, hx, ih ht]

/-- `s.find(c)` is the length of the longest `c`-free prefix -/
theorem findIdx?_singleton_append (c : α) (pre post : List α) (h : c ∉ pre) :
    findIdx? [c] (pre ++ c :: post) = some pre.length := by
  induction pre with
  | nil => simp [findIdx?_singleton_cons]
  | cons x t ih =>
    have hx : (c == x) = false := by
      simp only [List.mem_cons, not_or] at h
      simpa using h.1
    have ht : c ∉ t := fun hm => h (List.mem_cons_of_mem _ hm)
    simp [findIdx?_singleton_cons, hx, ih ht]

end search

/-- every list splits at the first occurrence of `c` -/
theorem split_at_first [BEq α] [LawfulBEq α] (c : α) (s : List α) :
    (c ∉ s ∧ s.takeWhile (· != c) = s ∧ s.dropWhile (· != c) = []) ∨
    ∃ pre post, s = pre ++ c :: post ∧ c ∉ pre ∧ s.takeWhile (· != c) = pre ∧
      s.dropWhile (· != c) = c :: post := by
  induction s with
  | nil => left; simp
  | cons x t ih =>
    by_cases hx : x = c
    · right; exact ⟨[], t, by simp [hx], by simp, by simp [hx], by simp [hx]⟩
    · have hne : (x != c) = true := by simpa using hx
      rcases ih with ⟨h1, h2, h3⟩ | ⟨pre, post, h1, h2, h3, h4⟩
      · left
        refine ⟨?_, ?_, ?_⟩
        · simp only [List.mem_cons, not_or]; exact ⟨fun h => hx h.symm, h1⟩
        · simp [hne, h2]
        · simp [hne, h3]
      · right
        refine ⟨x :: pre, post, by simp [h1], ?_, ?_, ?_⟩
        · simp only [List.mem_cons, not_or]; exact ⟨fun h => hx h.symm, h2⟩
        · simp [hne, h3]
        · simp [hne, h4]

/-- `s.partition(c)[0]` for a one-character separator: everything before the first `c` -/
theorem partition_singleton_fst [BEq α] [LawfulBEq α] (s : List α) (c : α) :
    (partition s [c]).1 = s.takeWhile (· != c) := by
  rcases split_at_first c s with ⟨h1, h2, _⟩ | ⟨pre, post, h1, h2, h3, _⟩
  · simp [partition, findIdx?_singleton_not_mem c s h1, h2]
  · rw [h3]
    simp [partition, h1, findIdx?_singleton_append c pre post h2]

/-- `c in s` for a one-character `c` is list membership -/
theorem contains_singleton [BEq α] [LawfulBEq α] (s : List α) (c : α) :
    contains s [c] = s.contains c := by
  induction s with
  | nil => simp [contains, findIdx?_singleton_nil]
  | cons x t ih =>
    simp only [contains, findIdx?_singleton_cons, List.contains_cons] at ih ⊢
    by_cases h : c = x
    · subst h; simp
    · have h' : (c == x) = false := by simpa using h
      rw [← ih]; simp [h']


/-- `s.startswith("/")` -/
theorem startswith_slash (f : Str) : startswith f ['/'] = decide (f.head? = some '/') := by
  cases f with
  | nil => simp [startswith_singleton_nil]
  | cons x t =>
    rw [startswith_singleton_cons]
    by_cases h : x = '/'
    · subst h; simp
    · have : ('/' == x) = false := by simpa using fun h' => h h'.symm
      simp [this, h]


/-! ### `replace` of one character by one character is a `map` -/

theorem replaceAux_singleton [BEq α] [LawfulBEq α] (c d : α) (s : List α) :
    replaceAux [c] [d] s 0 = s.map (fun x => if x == c then d else x) := by
  induction s with
  | nil => rfl
  | cons x t ih =>
    simp only [replaceAux, isPrefixOf_singleton, List.length_singleton, Nat.sub_self, ih, List.map_cons]
    by_cases h : c = x
    · subst h; simp
    · have h1 : (c == x) = false := by simpa using h
      have h2 : (x == c) = false := by simpa using fun h' => h h'.symm
      simp [h1, h2]

theorem replace_singleton [BEq α] [LawfulBEq α] (c d : α) (s : List α) :
    replace s [c] [d] = s.map (fun x => if x == c then d else x) := by
  simp [replace, replaceAux_singleton]

/-! ### `replace` of one character by a text is a `flatMap`; indexing and slicing of a non-empty list -/

theorem replaceAux_single [BEq α] [LawfulBEq α] (c : α) (r : List α) (s : List α) :
    replaceAux [c] r s 0 = s.flatMap (fun x => if x == c then r else [x]) := by
  induction s with
  | nil => rfl
  | cons x t ih =>
    simp only [replaceAux, isPrefixOf_singleton, List.length_singleton, Nat.sub_self, ih, List.flatMap_cons]
    by_cases h : c = x
    · subst h; simp
    · have h1 : (c == x) = false := by simpa using h
      have h2 : (x == c) = false := by simpa using fun h' => h h'.symm
      simp [h1, h2]

theorem replace_single [BEq α] [LawfulBEq α] (c : α) (r s : List α) :
    replace s [c] r = s.flatMap (fun x => if x == c then r else [x]) := by
  simp [replace, replaceAux_single]

theorem getItem_zero_cons (x : α) (t : List α) : getItem (x :: t) 0 = .ok x := by
  simp [getItem]

theorem getItem_neg_one_cons (x : α) (t : List α) :
    getItem (x :: t) (-1) = .ok ((x :: t).getLast (by simp)) := by
  unfold getItem
  have h1 : ((-1 : Int) < 0) := by omega
  have h2 : ¬ ((-1 : Int) + ((x :: t).length : Nat) < 0) := by simp; omega
  have h3 : ((-1 : Int) + ((x :: t).length : Nat)).toNat = t.length := by simp; omega
  simp only [h1, if_true, h2, if_false, h3]
  rw [List.getLast_eq_getElem]
  simp

theorem slice_one_neg_one (x : α) (t : List α) :
    slice (x :: t) (some 1) (some (-1)) = t.dropLast := by
  unfold slice clamp
  simp
  have h : (-1 + ((t.length : Int) + 1)).toNat = t.length := by omega
  rw [h, List.dropLast_eq_take]
  cases t with
  | nil => simp
  | cons y t' => simp [List.take_succ_cons]

/-! ### `s[-1:]` and `s[1:-1]` -/

/-- `s[-1:]`: the last element as a list, or the empty list -/
def lastAsList (s : List α) : List α :=
  match s.getLast? with
  | some c => [c]
  | none => []

theorem slice_neg_one_none (s : List α) : slice s (some (-1)) none = lastAsList s := by
  unfold lastAsList
  cases s with
  | nil => simp [slice, clamp]
  | cons x t =>
    have hl : (x :: t).getLast? = some ((x :: t).getLast (by simp)) := List.getLast?_eq_some_getLast (by simp)
    rw [hl]
    simp only [slice, clamp]
    have h1 : ((-1 : Int) < 0) := by omega
    have h3 : ((-1 : Int) + ((x :: t).length : Nat)).toNat = t.length := by simp; omega
    simp only [h1, if_true, h3, List.take_length]
    rw [List.getLast_eq_getElem]
    simp
    rw [List.drop_eq_getElem_cons (by simp)]
    simp

theorem slice_one_neg_one' (s : List α) : slice s (some 1) (some (-1)) = (s.drop 1).dropLast := by
  cases s with
  | nil => simp [slice, clamp]
  | cons x t => simpa using slice_one_neg_one x t

theorem quoted_test (g : List Char) :
    ((g.take 1 == lastAsList g) && (lastAsList g == ['"']))
    = (g.head? == some '"' && g.getLast? == some '"') := by
  unfold lastAsList
  cases g with
  | nil => simp
  | cons x t =>
    have hl : (x :: t).getLast? = some ((x :: t).getLast (by simp)) := List.getLast?_eq_some_getLast (by simp)
    rw [hl]
    generalize (x :: t).getLast (by simp) = z
    by_cases hz : z = '"'
    · subst hz; simp
    · have hzb : (z == '"') = false := by simpa using hz
      simp [hz, hzb]

/-! ### `s[:-k]`, `s[0]`, `str(n)` -/

theorem slice_none_neg (s : List α) (k : Nat) (hk : 0 < k) :
    slice s none (some (-(k : Int))) = s.take (s.length - k) := by
  unfold slice clamp
  have h1 : (-(k : Int)) < 0 := by omega
  have h2 : (-(k : Int) + (s.length : Int)).toNat = s.length - k := by omega
  simp [h1, h2, hk]

theorem getItemStr_zero_cons (x : α) (t : List α) : getItemStr (x :: t) 0 = .ok [x] := by
  simp [getItemStr, getItem]

theorem strOfInt_nat (p : Nat) : strOfInt (p : Int) = (toString p).toList := rfl


/-! ### `next(x for x in xs if p)` -/

theorem nextOf_filter_map {α β : Type} (p : α → Bool) (g : α → β) (l : List α) :
    nextOf ((l.filter p).map g) =
      match l.find? p with
      | some x => .ok (g x)
      | none => .error "StopIteration" := by
  induction l with
  | nil => rfl
  | cons x t ih =>
    by_cases h : p x = true
    · simp [List.filter_cons, h, nextOf, List.find?_cons]
    · have h' : p x = false := by simpa using h
      simp only [List.filter_cons, h', Bool.false_eq_true, if_false, ih, List.find?_cons]

/-! ### item assignment / deletion inside the list, `enumerate` -/

theorem setItem_lt {α : Type} (L : List α) (n : Nat) (v : α) (h : n < L.length) :
    setItem L (n : Int) v = .ok (L.set n v) := by
  unfold setItem pyIndex
  have h1 : ¬ ((n : Int) < 0) := by omega
  simp [h1, h]

theorem delItem_lt {α : Type} (L : List α) (n : Nat) (h : n < L.length) :
    delItem L (n : Int) = .ok (L.eraseIdx n) := by
  unfold delItem pyIndex
  have h1 : ¬ ((n : Int) < 0) := by omega
  simp [h1, h]

theorem enumerateFrom_map_snd {α : Type} (t : List α) (i : Int) :
    (enumerateFrom i t).map (fun p_ => p_.2) = t := by
  induction t generalizing i with
  | nil => rfl
  | cons x t ih => simp [enumerateFrom, ih]

/-- `sep.join(ws)` of the prelude is `List.intercalate` -/
theorem join_eq_intercalate' {α : Type} (sep : List α) (ws : List (List α)) :
    Pre.join sep ws = sep.intercalate ws := by
  induction ws with
  | nil => rfl
  | cons w t ih =>
    cases t with
    | nil => simp [Pre.join, List.intercalate]
    | cons w2 t2 =>
      simp only [Pre.join] at ih ⊢
      rw [ih]
      simp [List.intercalate, List.intersperse]

end Wz.Pre
