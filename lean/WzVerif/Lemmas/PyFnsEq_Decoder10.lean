/-
PyFnsEq_Decoder10 — the C10 theorems about `MultipartDecoder.next_event` (`Props/C10.lean`:
`nextEvent_never_grows`, the step behind `parts_bounded`) restated on the method *as regenerated from
werkzeug's source* (`Gen/PyFns_Decoder.lean`), through `next_event_eq` of PyFnsEq_Decoder.lean. Kept apart
from that file so that the C01 check does not depend on the C10 proofs.
-/
import WzVerif.Lemmas.PyFnsEq_Decoder
import WzVerif.Props.C10
namespace Wz.PyFnsEq.Decoder
open Wz Wz.Multipart Wz.Gen.PyFns_Decoder

/-! ## C10 theorems on the translated `next_event` -/

/-- `Props.C10.nextEvent_never_grows` on the translated method: a `next_event()` call that returns
leaves at most as many bytes in `self.buffer` as it found -/
theorem next_event_never_grows_translated (d : Decoder) (ev : Event) (h : (nextEventT d).2 = .ok ev) :
    (nextEventT d).1.1.length ≤ d.buffer.length := by
  rw [next_event_eq] at h ⊢
  cases hn : nextEvent d with
  | error e => rw [hn] at h; cases h
  | ok r =>
    rcases r with ⟨ev', d'⟩
    exact (Props.C10.nextEvent_never_grows hn).1

/-- the same for every call, returning or raising: `next_event()` never grows `self.buffer` -/
theorem next_event_never_grows_always (d : Decoder) :
    (nextEventT d).1.1.length ≤ d.buffer.length := by
  rw [next_event_eq]
  cases hn : nextEvent d with
  | error e => exact raisedSt_buffer_le d
  | ok r =>
    rcases r with ⟨ev', d'⟩
    exact (Props.C10.nextEvent_never_grows hn).1

/-- the step behind `Props.C10.parts_bounded` on the translated method: with `max_parts = m`, a
`next_event()` call that returns a Field or File event leaves `_parts_decoded ≤ m` -/
theorem next_event_parts_bounded_translated (d : Decoder) (m : Nat) (hm : d.maxParts = some m)
    (ev : Event) (h : (nextEventT d).2 = .ok ev) (hp : isPart ev = true) :
    (nextEventT d).1.2.2.2 ≤ (m : Int) := by
  rw [next_event_eq] at h ⊢
  cases hn : nextEvent d with
  | error e => rw [hn] at h; cases h
  | ok r =>
    rcases r with ⟨ev', d'⟩
    rw [hn] at h
    have hev : ev' = ev := by simpa [view] using h
    subst hev
    rcases step_ok (nextEvent_ok hn) with ⟨_, _, _, h4, _⟩
    have := h4 m hm hp
    simp only [view, toSt]
    omega


end Wz.PyFnsEq.Decoder
