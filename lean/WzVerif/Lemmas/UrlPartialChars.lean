/-
What `_unquote_partial` cannot do to a component (C15, towards the URL-text theorems): it never
introduces a raw character of its keep set, never empties a non-empty text, and keeps a leading `/`.
Core Lean only.
-/
import WzVerif.Lemmas.UrlStable
namespace Wz.Url
open Wz

/-- where the bytes of a run come from: a raw character of the text, or a non-kept escape -/
theorem run_bytes_origin {keep : List Bool} : ∀ (a : Str), (∀ c ∈ a, c.toNat < 128) →
    wfk keep a = true → ∀ b ∈ unquoteBytes (toBytes a),
      (∃ c ∈ a, UInt8.ofNat c.toNat = b) ∨ tbl keep b.toNat = false
  | [], _, _ => by simp [toBytes, unquoteBytes]
  | [c], _, _ => by
    intro b hb
    simp only [toBytes, List.map_cons, List.map_nil, unquoteBytes, List.mem_singleton] at hb
    exact Or.inl ⟨c, by simp, hb.symm⟩
  | [c, x], _, _ => by
    intro b hb
    simp only [toBytes, List.map_cons, List.map_nil, unquoteBytes, List.mem_cons, List.mem_nil_iff,
      or_false] at hb
    rcases hb with rfl | rfl
    · exact Or.inl ⟨c, by simp, rfl⟩
    · exact Or.inl ⟨x, by simp, rfl⟩
  | c :: x :: y :: t, ha, h => by
    have hat : ∀ d ∈ t, d.toNat < 128 := fun d hd => ha d (by simp [hd])
    by_cases hc : c = '%'
    · subst hc
      simp only [wfk, if_true] at h
      cases hx : hexVal? x <;> cases hy : hexVal? y <;> simp only [hx, hy] at h <;> try (simp at h; done)
      rename_i hi lo
      simp only [Bool.and_eq_true, Bool.not_eq_true'] at h
      have h0 : UInt8.ofNat '%'.toNat = 0x25 := by decide
      have ih := run_bytes_origin t hat h.2
      simp only [toBytes, List.map_cons, unquoteBytes, h0, if_true,
        char_of_byte (ha x (by simp)), char_of_byte (ha y (by simp)), hx, hy] at ih ⊢
      intro b hb
      rcases List.mem_cons.mp hb with rfl | hb
      · right
        have hlt : 16 * hi + lo < 256 := by have := hexVal_lt hx; have := hexVal_lt hy; omega
        rw [uint8_toNat_ofNat_lt hlt]; exact h.1
      · rcases ih b hb with ⟨d, hd, e⟩ | e
        · exact Or.inl ⟨d, by simp [hd], e⟩
        · exact Or.inr e
    · have hb := byte_ne_pct (ha c (by simp)) hc
      rw [wfk_cons_ne hc] at h
      have ih := run_bytes_origin (x :: y :: t) (fun d hd => ha d (List.mem_cons_of_mem _ hd)) h
      have : toBytes (c :: x :: y :: t) = UInt8.ofNat c.toNat :: toBytes (x :: y :: t) := rfl
      rw [this, unquoteBytes_cons_ne hb]
      intro b hb'
      rcases List.mem_cons.mp hb' with rfl | hb'
      · exact Or.inl ⟨c, by simp, rfl⟩
      · rcases ih b hb' with ⟨d, hd, e⟩ | e
        · exact Or.inl ⟨d, List.mem_cons_of_mem _ hd, e⟩
        · exact Or.inr e

/-- a kept character that is neither `%` nor a hex digit -/
structure KeptChar (keep : List Bool) (d : Char) : Prop where
  ascii : d.toNat < 128
  kept : tbl keep d.toNat = true
  not_hex : hexVal? d = none
  not_pct : d ≠ '%'

theorem mem_pct {b : UInt8} {d : Char} (h : d ∈ pct b) : d = '%' ∨ ∃ v, hexVal? d = some v := by
  have hb := b.toNat_lt
  simp only [pct, List.mem_cons, List.mem_nil_iff, or_false] at h
  rcases h with rfl | rfl | rfl
  · exact Or.inl rfl
  · exact Or.inr ⟨_, hexVal_hexU' _ (by omega)⟩
  · exact Or.inr ⟨_, hexVal_hexU' _ (Nat.mod_lt _ (by decide))⟩

theorem kept_mem_run {keep : List Bool} {d : Char} (hd : KeptChar keep d) {a : Str}
    (ha : ∀ c ∈ a, c.toNat < 128) (hw : wfk keep a = true)
    (h : d ∈ (its (unquoteBytes (toBytes a))).flatMap render) : d ∈ a := by
  obtain ⟨I, hI, hdI⟩ := List.mem_flatMap.mp h
  obtain ⟨b0, t, rfl, hb0⟩ := mem_its _ _ (Nat.le_refl _) I hI
  rcases firstItem_cases b0 t with ⟨hb, hIe⟩ | ⟨span, hIe, hs⟩ | ⟨c, raw, hIe, hc, _⟩
  · rw [hIe] at hdI
    simp only [render, List.mem_singleton] at hdI
    have hlt : b0.toNat < 128 := by rw [UInt8.lt_iff_toNat_lt] at hb; simpa using hb
    rcases run_bytes_origin a ha hw b0 hb0 with ⟨c, hca, e⟩ | e
    · have : c = d := by
        rw [hdI, ← e, uint8_toNat_ofNat_lt (by have := ha c hca; omega), Char.ofNat_toNat]
      rw [← this]; exact hca
    · exfalso
      have : d.toNat = b0.toNat := by rw [hdI, char_toNat_ofNat_lt (by omega)]
      rw [← this, hd.kept] at e
      cases e
  · exfalso
    rw [hIe] at hdI
    simp only [render] at hdI
    rw [requote_bad hs] at hdI
    obtain ⟨b, _, hb⟩ := List.mem_flatMap.mp hdI
    rcases mem_pct hb with e | ⟨v, e⟩
    · exact hd.not_pct e
    · rw [hd.not_hex] at e; cases e
  · exfalso
    rw [hIe] at hdI
    simp only [render, List.mem_singleton] at hdI
    have := hd.ascii
    rw [hdI] at this
    omega

theorem kept_mem_unquote {keep : List Bool} (_hk : KeepOK keep) {d : Char} (hd : KeptChar keep d) :
    ∀ (n : Nat) (G : Str), G.length ≤ n → wfk keep G = true → d ∈ unquote G → d ∈ G := by
  intro n
  induction n with
  | zero =>
    intro G hl _ h
    have : G = [] := List.eq_nil_of_length_eq_zero (by omega)
    subst this
    have : unquote ([] : Str) = [] := rfl
    rw [this] at h; cases h
  | succ n ih =>
    intro G hl hw h
    obtain ⟨a, rest, h1, h2, h3⟩ := ascii_span G
    rcases h3 with h3 | ⟨c, r, h3, hc⟩
    · subst h3
      simp only [List.append_nil] at h1
      subst h1
      rw [unquote_ascii h2] at h
      exact kept_mem_run hd h2 hw h
    · subst h3
      subst h1
      obtain ⟨hwa, hwr⟩ := wfk_split hc r a hw
      rw [unquote_append_nonascii hc] at h
      rcases List.mem_append.mp h with h | h
      · rw [unquote_ascii h2] at h
        exact List.mem_append_left _ (kept_mem_run hd h2 hwa h)
      · rcases List.mem_cons.mp h with e | h
        · rw [e]; simp
        · exact List.mem_append_right _ (List.mem_cons_of_mem _ (ih r (by simp at hl; omega) hwr h))

theorem kept_mem_upSpec {keep : List Bool} (hk : KeepOK keep) {d : Char} (hd : KeptChar keep d) :
    ∀ (s seg : Str), wfk keep seg.reverse = true → wellFormed s = true →
    d ∈ upSpec keep s seg → d ∈ seg ∨ d ∈ s
  | [], seg, hseg, _, h => by
    simp only [upSpec] at h
    left
    have := kept_mem_unquote hk hd _ _ (Nat.le_refl _) hseg h
    simpa using this
  | [c], seg, hseg, hs, h => by
    have hc : c ≠ '%' := by intro e; simp [wellFormed, wfk, e] at hs
    rw [upSpec_cons_ne hc] at h
    have hw : wfk keep (c :: seg).reverse = true := by
      simp only [List.reverse_cons]; rw [wfk_append _ _ hseg]; simp [wfk, hc]
    rcases kept_mem_upSpec hk hd [] (c :: seg) hw rfl h with h | h
    · rcases List.mem_cons.mp h with e | h
      · right; simp [e]
      · left; exact h
    · cases h
  | [c, x], seg, hseg, hs, h => by
    have hc : c ≠ '%' := by intro e; simp [wellFormed, wfk, e] at hs
    rw [wellFormed_cons_ne hc] at hs
    rw [upSpec_cons_ne hc] at h
    have hw : wfk keep (c :: seg).reverse = true := by
      simp only [List.reverse_cons]; rw [wfk_append _ _ hseg]; simp [wfk, hc]
    rcases kept_mem_upSpec hk hd [x] (c :: seg) hw hs h with h | h
    · rcases List.mem_cons.mp h with e | h
      · right; simp [e]
      · left; exact h
    · right; exact List.mem_cons_of_mem _ h
  | c :: x :: y :: t, seg, hseg, hs, h => by
    by_cases hc : c = '%'
    · subst hc
      simp only [wellFormed, wfk, if_true] at hs
      cases hx : hexVal? x <;> cases hy : hexVal? y <;> simp only [hx, hy] at hs <;> try (simp at hs; done)
      rename_i hi lo
      simp only [Bool.and_eq_true] at hs
      have hst : wellFormed t = true := hs.2
      simp only [upSpec, if_true, hx, hy] at h
      by_cases hkept : tbl keep (16 * hi + lo) = true
      · simp only [hkept, if_true] at h
        rcases List.mem_append.mp h with h | h
        · left
          have := kept_mem_unquote hk hd _ _ (Nat.le_refl _) hseg h
          simpa using this
        · right
          simp only [List.mem_cons] at h
          rcases h with e | e | e | h
          · simp [e]
          · simp [e]
          · simp [e]
          · rcases kept_mem_upSpec hk hd t [] rfl hst h with h | h
            · cases h
            · simp [h]
      · simp only [hkept, Bool.false_eq_true, if_false] at h
        have hw : wfk keep (y :: x :: '%' :: seg).reverse = true := by
          simp only [List.reverse_cons, List.append_assoc, List.cons_append, List.nil_append]
          rw [wfk_append _ _ hseg]
          simp [wfk, hx, hy, hkept]
        rcases kept_mem_upSpec hk hd t _ hw hst h with h | h
        · simp only [List.mem_cons] at h
          rcases h with e | e | e | h
          · right; simp [e]
          · right; simp [e]
          · right; simp [e]
          · left; exact h
        · right; simp [h]
    · rw [wellFormed_cons_ne hc] at hs
      rw [upSpec_cons_ne hc] at h
      have hw : wfk keep (c :: seg).reverse = true := by
        simp only [List.reverse_cons]; rw [wfk_append _ _ hseg]; simp [wfk, hc]
      rcases kept_mem_upSpec hk hd (x :: y :: t) (c :: seg) hw hs h with h | h
      · rcases List.mem_cons.mp h with e | h
        · right; simp [e]
        · left; exact h
      · right; exact List.mem_cons_of_mem _ h

/-- **`_unquote_partial` never introduces a raw character of its keep set** (other than by copying
it): delimiters that were quoted stay quoted. -/
theorem kept_mem_unquotePartial {keep : List Bool} (hk : KeepOK keep) {d : Char} (hd : KeptChar keep d)
    {s : Str} (hs : wellFormed s = true) (h : d ∈ unquotePartial keep s) : d ∈ s := by
  rw [unquotePartial_eq] at h
  rcases kept_mem_upSpec hk hd s [] rfl hs h with h | h
  · cases h
  · exact h

/-! ### non-empty stays non-empty -/

theorem unquoteBytes_ne : ∀ {B : Bytes}, B ≠ [] → unquoteBytes B ≠ []
  | [], h => absurd rfl h
  | [b], _ => by simp [unquoteBytes]
  | [b, x], _ => by simp [unquoteBytes]
  | b :: x :: y :: t, _ => by
    simp only [unquoteBytes]
    split
    · split <;> simp
    · simp

theorem render_ne (b0 : UInt8) (t : Bytes) : render (firstItem b0 t) ≠ [] := by
  rcases firstItem_cases b0 t with ⟨_, hI⟩ | ⟨span, hI, hs⟩ | ⟨c, raw, hI, _, _⟩
  · rw [hI]; simp [render]
  · rw [hI]
    simp only [render]
    rw [requote_bad hs]
    obtain ⟨cs, hr, _⟩ := firstItem_raw b0 t
    rw [hI] at hr
    simp only [Item.raw] at hr
    rw [hr]
    simp [pct]
  · rw [hI]; simp [render]

theorem unquote_ne {G : Str} (h : G ≠ []) : unquote G ≠ [] := by
  obtain ⟨a, rest, h1, h2, h3⟩ := ascii_span G
  rcases h3 with h3 | ⟨c, r, h3, hc⟩
  · subst h3
    simp only [List.append_nil] at h1
    subst h1
    rw [unquote_ascii h2]
    have hB : unquoteBytes (toBytes G) ≠ [] := by
      apply unquoteBytes_ne
      cases G with
      | nil => exact absurd rfl h
      | cons _ _ => simp [toBytes]
    cases hb : unquoteBytes (toBytes G) with
    | nil => exact absurd hb hB
    | cons b0 t =>
      rw [its_cons, List.flatMap_cons]
      intro he
      exact render_ne b0 t (List.append_eq_nil_iff.mp he).1
  · subst h3; subst h1
    rw [unquote_append_nonascii hc]
    simp

theorem upSpec_ne {keep : List Bool} : ∀ (s seg : Str), s ≠ [] ∨ seg ≠ [] → upSpec keep s seg ≠ []
  | [], seg, h => by
    simp only [upSpec]
    apply unquote_ne
    rcases h with h | h
    · exact absurd rfl h
    · simpa using h
  | [c], seg, _ => by
    simp only [upSpec]
    exact unquote_ne (by simp)
  | [c, x], seg, _ => by
    simp only [upSpec]
    exact unquote_ne (by simp)
  | c :: x :: y :: t, seg, _ => by
    simp only [upSpec]
    split
    · split
      · split
        · simp
        · exact upSpec_ne t _ (Or.inr (by simp))
      · exact upSpec_ne (x :: y :: t) _ (Or.inl (by simp))
    · exact upSpec_ne (x :: y :: t) _ (Or.inl (by simp))

theorem unquotePartial_ne {keep : List Bool} {s : Str} (h : s ≠ []) : unquotePartial keep s ≠ [] := by
  rw [unquotePartial_eq]
  exact upSpec_ne s [] (Or.inl h)

/-! ### a leading slash stays -/

theorem unquoteRun_slash (R : Bytes) : unquoteRun (0x2F :: R) = '/' :: unquoteRun R := by
  unfold unquoteRun
  simp only
  rw [unquoteBytes_cons_ne (by decide), decodeQ_eq (Nat.le_succ _), decodeQ_eq (Nat.le_succ _), its_cons]
  have : firstItem 0x2F (unquoteBytes R) = .chr '/' [0x2F] := by
    simp [firstItem]
  rw [this]
  simp [render, Item.raw]

theorem unquoteAux_slash : ∀ (G : Str) (acc : Bytes),
    unquoteAux G (acc ++ [0x2F]) = '/' :: unquoteAux G acc
  | [], acc => by simp [unquoteAux, unquoteRun_slash]
  | c :: t, acc => by
    simp only [unquoteAux]
    split
    · have := unquoteAux_slash t (UInt8.ofNat c.toNat :: acc)
      simpa using this
    · simp [unquoteRun_slash]

theorem unquote_slash (G : Str) : unquote ('/' :: G) = '/' :: unquote G := by
  have h : unquote ('/' :: G) = unquoteAux G [0x2F] := by
    simp only [unquote, unquoteAux]
    have : ('/' : Char).toNat < 128 := by decide
    simp
  rw [h]
  exact unquoteAux_slash G []

theorem upSpec_slash {keep : List Bool} : ∀ (s seg : Str),
    upSpec keep s (seg ++ ['/']) = '/' :: upSpec keep s seg
  | [], seg => by simp [upSpec, unquote_slash]
  | [c], seg => by
    simp only [upSpec]
    have : (c :: (seg ++ ['/'])).reverse = '/' :: (c :: seg).reverse := by simp
    rw [this, unquote_slash]
  | [c, x], seg => by
    simp only [upSpec]
    have : (x :: c :: (seg ++ ['/'])).reverse = '/' :: (x :: c :: seg).reverse := by simp
    rw [this, unquote_slash]
  | c :: x :: y :: t, seg => by
    simp only [upSpec]
    split
    · split
      · split
        · simp [unquote_slash]
        · exact upSpec_slash t (y :: x :: c :: seg)
      · exact upSpec_slash (x :: y :: t) (c :: seg)
    · exact upSpec_slash (x :: y :: t) (c :: seg)

theorem unquotePartial_slash (keep : List Bool) (s : Str) :
    unquotePartial keep ('/' :: s) = '/' :: unquotePartial keep s := by
  rw [unquotePartial_eq, unquotePartial_eq, upSpec_cons_ne (by decide)]
  exact upSpec_slash s []

end Wz.Url
