/-
C15 on whole URL text: netloc assembly / re-parsing, and the lifts of the component theorems
through urlsplit / urlunsplit for URLs of the property's grammar. Core Lean only.
-/
import WzVerif.Lemmas.UrlSplit
namespace Wz.Url
open Wz

/-- characters a converted host may contain (`:` allowed: IPv6 literals) -/
def hostChar (c : Char) : Bool :=
  !(isNetlocDelim c || c == '@' || c == '[' || c == ']' || isTabCrLf c)

/-- characters of converted user / password text -/
def plainChar (c : Char) : Bool := hostChar c && c != ':'

def portText : Option Nat → Str
  | some 0 => []
  | some k => ':' :: (toString k).toList
  | none => []

def hostBr (h : Str) : Str := if h.contains ':' then '[' :: h ++ [']'] else h

def authText (fu fp : Str → Str) (p : Parts) : Str :=
  match truthy p.username with
  | some u => (fu u ++ match truthy p.password with | some pw => ':' :: fp pw | none => []) ++ ['@']
  | none => []

theorem netloc_eq (fu fp : Str → Str) (p : Parts) :
    netloc fu fp p = authText fu fp p ++ (hostBr p.host ++ portText p.port) := by
  unfold netloc authText hostBr portText
  cases hu : truthy p.username with
  | none =>
    simp only [List.nil_append]
    cases hp : p.port with
    | none => simp
    | some k => cases k <;> simp
  | some u =>
    simp only
    cases hpw : truthy p.password <;> cases hp : p.port with
    | none => simp
    | some k => cases k <;> simp

theorem digits_spec (k : Nat) : (toString k).toList ≠ [] ∧ (∀ c ∈ (toString k).toList, isAsciiDigit c = true) ∧
    digitsToNat (toString k).toList = k := by
  rw [Nat.toString_eq_repr, Nat.toList_repr]
  refine ⟨Nat.toDigits_ne_nil, ?_, Nat.ofDigitChars_ten_toDigits⟩
  intro c hc
  have := Char.isDigit_iff_toNat.mp (Nat.isDigit_of_mem_toDigits (by decide) (by decide) hc)
  simp only [isAsciiDigit, Bool.and_eq_true, decide_eq_true_eq]
  exact ⟨this.1, this.2⟩

theorem digit_facts {c : Char} (h : isAsciiDigit c = true) :
    hostChar c = true ∧ c ≠ ':' ∧ c.toNat < 128 := by
  have key : ∀ n, n < 128 → isAsciiDigit (Char.ofNat n) = true →
      hostChar (Char.ofNat n) = true ∧ Char.ofNat n ≠ ':' := by decide +kernel
  have hlt : c.toNat < 128 := by
    simp only [isAsciiDigit, Bool.and_eq_true, decide_eq_true_eq] at h
    have : c.toNat ≤ '9'.toNat := h.2
    have h9 : '9'.toNat = 57 := by decide
    omega
  have := key c.toNat hlt (by rw [Char.ofNat_toNat]; exact h)
  rw [Char.ofNat_toNat] at this
  exact ⟨this.1, this.2, hlt⟩

/-- what is known about the pieces of an assembled netloc -/
structure NetlocParts (fu fp : Str → Str) (p : Parts) : Prop where
  host_ne : p.host ≠ []
  host_chars : ∀ c ∈ p.host, hostChar c = true
  user : ∀ u, truthy p.username = some u → fu u ≠ [] ∧ ∀ c ∈ fu u, plainChar c = true
  pass : ∀ pw, truthy p.password = some pw → fp pw ≠ [] ∧ ∀ c ∈ fp pw, plainChar c = true
  port : ∀ k, p.port = some k → k ≤ 65535

theorem hostChar_ne {c : Char} (h : hostChar c = true) :
    c ≠ '@' ∧ c ≠ '[' ∧ c ≠ ']' ∧ isNetlocDelim c = false ∧ isTabCrLf c = false := by
  simp only [hostChar, Bool.not_eq_true', Bool.or_eq_false_iff, beq_eq_false_iff_ne] at h
  exact ⟨h.1.1.1.2, h.1.1.2, h.1.2, h.1.1.1.1, h.2⟩

theorem plainChar_ne {c : Char} (h : plainChar c = true) : hostChar c = true ∧ c ≠ ':' := by
  simp only [plainChar, Bool.and_eq_true, bne_iff_ne] at h
  exact h

theorem portText_chars (port : Option Nat) : ∀ c ∈ portText port, hostChar c = true ∧ c.toNat < 128 := by
  intro c hc
  unfold portText at hc
  split at hc
  · cases hc
  · rcases List.mem_cons.mp hc with rfl | hc
    · exact ⟨by decide, by decide⟩
    · have := digit_facts ((digits_spec _).2.1 c hc)
      exact ⟨this.1, this.2.2⟩
  · cases hc

theorem hostBr_chars {h : Str} (hh : ∀ c ∈ h, hostChar c = true) :
    ∀ c ∈ hostBr h, c ≠ '@' ∧ isNetlocDelim c = false ∧ isTabCrLf c = false := by
  intro c hc
  unfold hostBr at hc
  split at hc
  · simp only [List.cons_append, List.mem_cons, List.mem_append, List.mem_nil_iff, or_false] at hc
    rcases hc with rfl | hc | rfl
    · exact ⟨by decide, by decide, by decide⟩
    · have := hostChar_ne (hh c hc); exact ⟨this.1, this.2.2.2.1, this.2.2.2.2⟩
    · exact ⟨by decide, by decide, by decide⟩
  · have := hostChar_ne (hh c hc); exact ⟨this.1, this.2.2.2.1, this.2.2.2.2⟩

/-- the host / port half of an assembled netloc parses back -/
theorem hostinfo_tail {h : Str} (hh : ∀ c ∈ h, hostChar c = true) (port : Option Nat) :
    let hi := hostBr h ++ portText port
    hostPortOf hi =
      (h, match port with | some 0 => [] | some k => (toString k).toList | none => []) := by
  intro hi
  unfold hostPortOf
  have hpt : ∀ c ∈ portText port, c ≠ '[' := fun c hc => (hostChar_ne (portText_chars port c hc).1).2.1
  have hnb : '[' ∉ h := fun hm => (hostChar_ne (hh _ hm)).2.1 rfl
  have hnr : ']' ∉ h := fun hm => (hostChar_ne (hh _ hm)).2.2.1 rfl
  by_cases hc : h.contains ':' = true
  · have hcm : ':' ∈ h := by simpa using hc
    have e : hi = [] ++ '[' :: (h ++ ']' :: portText port) := by simp [hi, hostBr, hcm]
    rw [e, partitionChar_append [] _ (by simp)]
    simp only
    rw [partitionChar_append h _ hnr]
    simp only [Option.getD_some]
    unfold portText
    split
    · simp [partitionChar]
    · simp [partitionChar]
    · simp [partitionChar]
  · have hcolon : ':' ∉ h := by simpa using hc
    have e : hi = h ++ portText port := by simp [hi, hostBr, hcolon]
    have hnb' : '[' ∉ h ++ portText port := by
      intro hm
      rcases List.mem_append.mp hm with hm | hm
      · exact hnb hm
      · exact hpt _ hm rfl
    rw [e, partitionChar_none _ hnb']
    simp only
    unfold portText
    split
    · simp [partitionChar_none h hcolon]
    · rw [partitionChar_append h _ hcolon]; simp
    · simp [partitionChar_none h hcolon]

theorem authText_spec {fu fp : Str → Str} {p : Parts} (np : NetlocParts fu fp p) :
    (authText fu fp p = [] ∧ truthy p.username = none) ∨
    (∃ X u, authText fu fp p = X ++ ['@'] ∧ '@' ∉ X ∧ truthy p.username = some u ∧
      X = fu u ++ (match truthy p.password with | some pw => ':' :: fp pw | none => []) ∧
      (∀ c ∈ X, isNetlocDelim c = false ∧ isTabCrLf c = false ∧ c ≠ '[' ∧ c ≠ ']')) := by
  unfold authText
  cases hu : truthy p.username with
  | none => left; exact ⟨rfl, rfl⟩
  | some u =>
    right
    obtain ⟨_, huc⟩ := np.user u hu
    refine ⟨_, u, rfl, ?_, rfl, rfl, ?_⟩
    · intro hm
      rcases List.mem_append.mp hm with hm | hm
      · exact (hostChar_ne (plainChar_ne (huc _ hm)).1).1 rfl
      · cases hpw : truthy p.password with
        | none => simp [hpw] at hm
        | some pw =>
          simp only [hpw, List.mem_cons] at hm
          rcases hm with e | hm
          · exact absurd e (by decide)
          · exact (hostChar_ne (plainChar_ne ((np.pass pw hpw).2 _ hm)).1).1 rfl
    · intro c hm
      have hplain : ∀ c, plainChar c = true → isNetlocDelim c = false ∧ isTabCrLf c = false ∧ c ≠ '[' ∧ c ≠ ']' := by
        intro c hc
        have := hostChar_ne (plainChar_ne hc).1
        exact ⟨this.2.2.2.1, this.2.2.2.2, this.2.1, this.2.2.1⟩
      rcases List.mem_append.mp hm with hm | hm
      · exact hplain c (huc _ hm)
      · cases hpw : truthy p.password with
        | none => simp [hpw] at hm
        | some pw =>
          simp only [hpw, List.mem_cons] at hm
          rcases hm with rfl | hm
          · exact ⟨by decide, by decide, by decide, by decide⟩
          · exact hplain c ((np.pass pw hpw).2 _ hm)

theorem hostTail_no_at {h : Str} (hh : ∀ c ∈ h, hostChar c = true) (port : Option Nat) :
    '@' ∉ hostBr h ++ portText port := by
  intro hm
  rcases List.mem_append.mp hm with hm | hm
  · exact (hostBr_chars hh _ hm).1 rfl
  · exact (hostChar_ne (portText_chars port _ hm).1).1 rfl

/-- `rpartition("@")` of an assembled netloc -/
theorem rpartition_netloc {fu fp : Str → Str} {p : Parts} (np : NetlocParts fu fp p) :
    (rpartitionChar '@' (netloc fu fp p)).2 = hostBr p.host ++ portText p.port ∧
    (rpartitionChar '@' (netloc fu fp p)).1 =
      (match truthy p.username with
        | some u => some (fu u ++ match truthy p.password with | some pw => ':' :: fp pw | none => [])
        | none => none) := by
  rw [netloc_eq]
  have hno := hostTail_no_at np.host_chars p.port
  rcases authText_spec np with ⟨h1, h2⟩ | ⟨X, u, h1, _, h3, h4, _⟩
  · rw [h1, h2, List.nil_append, rpartitionChar_none _ hno]
    exact ⟨rfl, rfl⟩
  · rw [h1, h3]
    have : X ++ ['@'] ++ (hostBr p.host ++ portText p.port) = X ++ '@' :: (hostBr p.host ++ portText p.port) := by
      simp
    rw [this, rpartitionChar_append _ _ hno, h4]
    exact ⟨rfl, rfl⟩

theorem netloc_hostinfo {fu fp : Str → Str} {p : Parts} (np : NetlocParts fu fp p) :
    hostinfo (netloc fu fp p) =
      (p.host, match p.port with | some 0 => none | some k => some (toString k).toList | none => none) := by
  unfold hostinfo
  simp only [(rpartition_netloc np).1]
  have := hostinfo_tail np.host_chars p.port
  simp only at this
  rw [this]
  cases hp : p.port with
  | none => simp
  | some k =>
    cases k with
    | zero => simp
    | succ k =>
      have := (digits_spec (k + 1)).1
      cases hd : (toString (k + 1)).toList with
      | nil => exact absurd hd this
      | cons a b => simp

theorem netloc_port {fu fp : Str → Str} {p : Parts} (np : NetlocParts fu fp p) :
    portOf (netloc fu fp p) = .ok (match p.port with | some 0 => none | some k => some k | none => none) := by
  unfold portOf
  rw [netloc_hostinfo np]
  cases hp : p.port with
  | none => rfl
  | some k =>
    cases k with
    | zero => rfl
    | succ k =>
      obtain ⟨_, h2, h3⟩ := digits_spec (k + 1)
      have hall : (toString (k + 1)).toList.all isAsciiDigit = true := by
        simp only [List.all_eq_true]; exact h2
      have hle := np.port _ hp
      simp only [hall, if_true, h3, hle]

theorem netloc_userinfo {fu fp : Str → Str} {p : Parts} (np : NetlocParts fu fp p) :
    userinfo (netloc fu fp p) =
      (match truthy p.username with
        | some u => (some (fu u), (truthy p.password).map fp)
        | none => (none, none)) := by
  unfold userinfo
  obtain ⟨_, h2⟩ := rpartition_netloc np
  generalize rpartitionChar '@' (netloc fu fp p) = r at h2
  obtain ⟨r1, r2⟩ := r
  simp only at h2
  subst h2
  cases hu : truthy p.username with
  | none => rfl
  | some u =>
    simp only
    have hnc : ':' ∉ fu u := fun hm => (plainChar_ne ((np.user u hu).2 _ hm)).2 rfl
    cases hpw : truthy p.password with
    | none => simp [partitionChar_none _ hnc]
    | some pw => simp [partitionChar_append _ _ hnc]

theorem netloc_chars {fu fp : Str → Str} {p : Parts} (np : NetlocParts fu fp p) :
    netloc fu fp p ≠ [] ∧ ∀ c ∈ netloc fu fp p, isNetlocDelim c = false ∧ isTabCrLf c = false := by
  rw [netloc_eq]
  refine ⟨?_, ?_⟩
  · intro he
    have := List.append_eq_nil_iff.mp he
    have h2 := (List.append_eq_nil_iff.mp this.2).1
    unfold hostBr at h2
    split at h2
    · cases h2
    · exact np.host_ne h2
  · intro c hc
    rcases List.mem_append.mp hc with hc | hc
    · rcases authText_spec np with ⟨h1, _⟩ | ⟨X, u, h1, _, _, _, h5⟩
      · rw [h1] at hc; cases hc
      · rw [h1] at hc
        rcases List.mem_append.mp hc with hc | hc
        · exact ⟨(h5 c hc).1, (h5 c hc).2.1⟩
        · simp at hc; subst hc; exact ⟨by decide, by decide⟩
    · rcases List.mem_append.mp hc with hc | hc
      · exact (hostBr_chars np.host_chars c hc).2
      · have := hostChar_ne (portText_chars p.port c hc).1
        exact ⟨this.2.2.2.1, this.2.2.2.2⟩

theorem netloc_brackets (o : UrlOpaque) {fu fp : Str → Str} {p : Parts} (np : NetlocParts fu fp p) :
    bracketsOk o (netloc fu fp p) = (if p.host.contains ':' then o.bracketOk p.host else true) := by
  rw [netloc_eq]
  have hauth : ∀ c ∈ authText fu fp p, c ≠ '[' ∧ c ≠ ']' := by
    intro c hc
    rcases authText_spec np with ⟨h1, _⟩ | ⟨X, u, h1, _, _, _, h5⟩
    · rw [h1] at hc; cases hc
    · rw [h1] at hc
      rcases List.mem_append.mp hc with hc | hc
      · exact (h5 c hc).2.2
      · simp at hc; subst hc; exact ⟨by decide, by decide⟩
  have hport : ∀ c ∈ portText p.port, c ≠ '[' ∧ c ≠ ']' := fun c hc =>
    ⟨(hostChar_ne (portText_chars p.port c hc).1).2.1, (hostChar_ne (portText_chars p.port c hc).1).2.2.1⟩
  have hh : ∀ c ∈ p.host, c ≠ '[' ∧ c ≠ ']' := fun c hc =>
    ⟨(hostChar_ne (np.host_chars c hc)).2.1, (hostChar_ne (np.host_chars c hc)).2.2.1⟩
  unfold bracketsOk hostBr
  by_cases hc : p.host.contains ':' = true
  · have hcm : ':' ∈ p.host := by simpa using hc
    simp only [hc, if_true]
    have e : authText fu fp p ++ ('[' :: p.host ++ [']'] ++ portText p.port)
        = authText fu fp p ++ '[' :: (p.host ++ ']' :: portText p.port) := by simp
    rw [e]
    have h1 : (authText fu fp p ++ '[' :: (p.host ++ ']' :: portText p.port)).contains '[' = true := by simp
    have h2 : (authText fu fp p ++ '[' :: (p.host ++ ']' :: portText p.port)).contains ']' = true := by simp
    simp only [h1, h2, bne_self_eq_false, Bool.false_eq_true, if_false, if_true]
    rw [partitionChar_append _ _ (fun hm => (hauth _ hm).1 rfl)]
    simp only [Option.getD_some]
    rw [partitionChar_append _ _ (fun hm => (hh _ hm).2 rfl)]
  · simp only [hc, Bool.false_eq_true, if_false]
    have h1 : (authText fu fp p ++ (p.host ++ portText p.port)).contains '[' = false := by
      simp only [List.contains_eq_mem, decide_eq_false_iff_not, List.mem_append, not_or]
      exact ⟨fun hm => (hauth _ hm).1 rfl, fun hm => (hh _ hm).1 rfl, fun hm => (hport _ hm).1 rfl⟩
    have h2 : (authText fu fp p ++ (p.host ++ portText p.port)).contains ']' = false := by
      simp only [List.contains_eq_mem, decide_eq_false_iff_not, List.mem_append, not_or]
      exact ⟨fun hm => (hauth _ hm).2 rfl, fun hm => (hh _ hm).2 rfl, fun hm => (hport _ hm).2 rfl⟩
    simp only [h1, h2, bne_self_eq_false, Bool.false_eq_true, if_false]

/-! ### one conversion pass over URL text -/

/-- the component functions of a conversion (`iri_to_uri`: quote, `uri_to_iri`: partial unquote) -/
structure Conv where
  fu : Str → Str
  fp : Str → Str
  fpath : Str → Str
  fquery : Str → Str
  ffrag : Str → Str

def Conv.apply (F : Conv) (p : Parts) : Split :=
  { scheme := p.scheme, netloc := netloc F.fu F.fp p, path := F.fpath p.path,
    query := F.fquery p.query, fragment := F.ffrag p.fragment }

def iriConv : Conv :=
  { fu := quote Gen.UrlTables.iriUserSafe, fp := quote Gen.UrlTables.iriPasswordSafe,
    fpath := quote Gen.UrlTables.iriPathSafe, fquery := quote Gen.UrlTables.iriQuerySafe,
    ffrag := quote Gen.UrlTables.iriFragmentSafe }

def uriConv : Conv :=
  { fu := unquotePartial Gen.UrlTables.keepUser, fp := unquotePartial Gen.UrlTables.keepUser,
    fpath := unquotePartial Gen.UrlTables.keepPath, fquery := unquotePartial Gen.UrlTables.keepQuery,
    ffrag := unquotePartial Gen.UrlTables.keepFragment }

theorem iriToUri_eq (p : Parts) : iriToUri p = iriConv.apply p := rfl
theorem uriToIri_eq (p : Parts) : uriToIri p = uriConv.apply p := rfl

/-- what a following pass reads back from the URL a pass produced -/
def reparsed (F : Conv) (p : Parts) (h' : Str) : Parts :=
  { scheme := p.scheme
    username := (truthy p.username).map F.fu
    password := match truthy p.username with
      | some _ => (truthy p.password).map F.fp
      | none => none
    host := h'
    port := match p.port with | some 0 => none | some k => some k | none => none
    path := F.fpath p.path
    query := F.fquery p.query
    fragment := F.ffrag p.fragment }

/-- **Pass lemma.** Splitting the URL text a pass produced gives its 5-tuple back, and the
attributes read from it are the converted ones. -/
theorem pass_reparse {o : UrlOpaque} {F : Conv} {p : Parts} (g : GoodSplit o (F.apply p))
    (np : NetlocParts F.fu F.fp p) {conv' : Str → Option Str} {h' : Str} (hconv : conv' p.host = some h') :
    urlsplit o (urlunsplit (F.apply p)) = .ok (F.apply p) ∧
    partsOf conv' (F.apply p) = .ok (reparsed F p h') := by
  refine ⟨urlsplit_urlunsplit g, ?_⟩
  unfold partsOf
  have hne : p.host.isEmpty = false := by
    cases h : p.host with
    | nil => exact absurd h np.host_ne
    | cons _ _ => rfl
  simp only [Conv.apply, netloc_hostinfo np, hne, Bool.false_eq_true, if_false, hconv, netloc_port np,
    netloc_userinfo np]
  unfold reparsed
  cases hu : truthy p.username <;> simp

/-- assembling `GoodSplit` for the tuple a pass produces -/
theorem good_apply {o : UrlOpaque} {F : Conv} {p : Parts} (np : NetlocParts F.fu F.fp p)
    (hs : validScheme p.scheme = true ∧ p.scheme.map asciiLower = p.scheme ∧ noTab p.scheme)
    (hb : p.host.contains ':' = true → o.bracketOk p.host = true)
    (hn : netlocOk o (netloc F.fu F.fp p) = true)
    (hpath : (F.fpath p.path = [] ∨ (F.fpath p.path).head? = some '/') ∧ '?' ∉ F.fpath p.path ∧
      '#' ∉ F.fpath p.path ∧ noTab (F.fpath p.path))
    (hquery : '#' ∉ F.fquery p.query ∧ noTab (F.fquery p.query))
    (hfrag : noTab (F.ffrag p.fragment)) : GoodSplit o (F.apply p) := by
  obtain ⟨n1, n2⟩ := netloc_chars np
  refine ⟨hs.1, hs.2.1, n1, fun c hc => (n2 c hc).1, ?_, hn, hpath.1, ⟨hpath.2.1, hpath.2.2.1⟩, hquery.1,
    ⟨hs.2.2, fun c hc => (n2 c hc).2, hpath.2.2.2, hquery.2, hfrag⟩⟩
  show bracketsOk o (netloc F.fu F.fp p) = true
  rw [netloc_brackets o np]
  split
  · rename_i h; exact hb h
  · rfl

/-! ### facts about a first pass -/

theorem partsOf_spec {conv : Str → Option Str} {sp : Split} {p : Parts} (h : partsOf conv sp = .ok p)
    (hraw : (hostinfo sp.netloc).1 ≠ []) :
    p.scheme = sp.scheme ∧ p.path = sp.path ∧ p.query = sp.query ∧ p.fragment = sp.fragment ∧
    conv (hostinfo sp.netloc).1 = some p.host ∧ (∀ k, p.port = some k → k ≤ 65535) := by
  unfold partsOf at h
  have hne : (hostinfo sp.netloc).1.isEmpty = false := by
    cases h' : (hostinfo sp.netloc).1 with
    | nil => exact absurd h' hraw
    | cons _ _ => rfl
  simp only [hne, Bool.false_eq_true, if_false] at h
  cases hc : conv (hostinfo sp.netloc).1 with
  | none => simp [hc] at h
  | some hh =>
    simp only [hc] at h
    cases hp : portOf sp.netloc with
    | error e => simp [hp] at h
    | ok port =>
      simp only [hp, Except.ok.injEq] at h
      subst h
      refine ⟨rfl, rfl, rfl, rfl, rfl, ?_⟩
      intro k hk
      simp only at hk
      subst hk
      unfold portOf at hp
      split at hp
      · cases hp
      · split at hp
        · simp only at hp
          split at hp
          · simp only [Except.ok.injEq, Option.some.injEq] at hp
            rename_i hle
            rw [← hp]; exact hle
          · cases hp
        · cases hp

theorem quote_ne {safe s : Str} (h : s ≠ []) : quote safe s ≠ [] := by
  cases s with
  | nil => exact absurd rfl h
  | cons c t =>
    have : quote safe (c :: t) = quote safe [c] ++ quote safe t := by rw [← quote_append]; rfl
    rw [this]
    intro he
    have h1 := (List.append_eq_nil_iff.mp he).1
    simp only [quote, quoteBytes, utf8Enc, List.flatMap_cons, List.flatMap_nil, List.append_nil] at h1
    have hne := @String.utf8EncodeChar_ne_nil c
    cases hb : String.utf8EncodeChar c with
    | nil => exact hne hb
    | cons b bs =>
      rw [hb] at h1
      simp only [List.flatMap_cons, List.append_eq_nil_iff] at h1
      have := h1.1
      unfold quoteByte at this
      split at this <;> simp [pct] at this

theorem quote_fixed {safe : Str} (hp : safe.contains '%' = true) (s : Str) : ∀ c ∈ quote safe s, Fixed safe c := by
  intro c hc
  obtain ⟨b, _, hb⟩ := List.mem_flatMap.mp hc
  exact quoteByte_fixed hp b c hb

theorem quote_cons_fixed {safe : Str} {c : Char} (hc : Fixed safe c) (s : Str) :
    quote safe (c :: s) = c :: quote safe s := by
  have : quote safe (c :: s) = quote safe [c] ++ quote safe s := by rw [← quote_append]; rfl
  rw [this, quote_of_fixed [c] (by intro x hx; simp at hx; subst hx; exact hc)]
  rfl

/-- the characters `quote` lets through for the userinfo sets are plain, for the path set they are
not `?`, `#`, TAB, CR, LF, ... (regenerated safe sets, all 128 ASCII codes) -/
theorem safe_user_plain : ∀ n, n < 128 →
    (isSafe Gen.UrlTables.iriUserSafe (UInt8.ofNat n) = true → plainChar (Char.ofNat n) = true) ∧
    (isSafe Gen.UrlTables.iriPasswordSafe (UInt8.ofNat n) = true → plainChar (Char.ofNat n) = true) := by
  decide +kernel

theorem safe_path_ok : ∀ n, n < 128 → isSafe Gen.UrlTables.iriPathSafe (UInt8.ofNat n) = true →
    Char.ofNat n ≠ '?' ∧ Char.ofNat n ≠ '#' ∧ isTabCrLf (Char.ofNat n) = false := by decide +kernel

theorem safe_query_ok : ∀ n, n < 128 → isSafe Gen.UrlTables.iriQuerySafe (UInt8.ofNat n) = true →
    Char.ofNat n ≠ '#' ∧ isTabCrLf (Char.ofNat n) = false := by decide +kernel

theorem safe_frag_ok : ∀ n, n < 128 → isSafe Gen.UrlTables.iriFragmentSafe (UInt8.ofNat n) = true →
    isTabCrLf (Char.ofNat n) = false := by decide +kernel

theorem fixed_transfer {safe : Str} {P : Char → Prop}
    (tbl : ∀ n, n < 128 → isSafe safe (UInt8.ofNat n) = true → P (Char.ofNat n)) {c : Char}
    (hc : Fixed safe c) : P c := by
  have := tbl c.toNat hc.1 hc.2
  rwa [Char.ofNat_toNat] at this

/-- laws assumed of the opaque `hostname.lower()` + IDNA encoding -/
structure AsciiHostLaws (o : UrlOpaque) : Prop where
  chars : ∀ h r, o.hostToAscii h = some r → r ≠ [] ∧ ∀ c ∈ r, hostChar c = true ∧ c.toNat < 128
  fixed : ∀ h r, o.hostToAscii h = some r → o.hostToAscii r = some r
  bracket : ∀ h r, o.hostToAscii h = some r → r.contains ':' = true → o.bracketOk r = true

/-- a URL of the property's grammar: it splits, has a scheme and a host -/
def InGrammar (o : UrlOpaque) (url : Str) : Prop :=
  ∃ sp, urlsplit o url = .ok sp ∧ sp.scheme ≠ [] ∧ (hostinfo sp.netloc).1 ≠ []

theorem allAscii_iff {s : Str} : allAscii s = true ↔ ∀ c ∈ s, c.toNat < 128 := by
  simp [allAscii]

/-- everything known about the parts of a grammar URL after the first `iri_to_uri` pass -/
theorem iri_first_pass {o : UrlOpaque} (laws : AsciiHostLaws o) {url : Str} {sp : Split} {p : Parts}
    (hsp : urlsplit o url = .ok sp) (hp : partsOf o.hostToAscii sp = .ok p) (hsch : sp.scheme ≠ [])
    (hraw : (hostinfo sp.netloc).1 ≠ []) :
    NetlocParts iriConv.fu iriConv.fp p ∧ GoodSplit o (iriConv.apply p) ∧
    o.hostToAscii p.host = some p.host ∧ (∀ c ∈ netloc iriConv.fu iriConv.fp p, c.toNat < 128) := by
  have shape := urlsplit_shape hsp
  obtain ⟨e1, e2, e3, e4, hconv, hport⟩ := partsOf_spec hp hraw
  obtain ⟨hne, hchars⟩ := laws.chars _ _ hconv
  have hpU : Gen.UrlTables.iriUserSafe.contains '%' = true := by decide
  have hpP : Gen.UrlTables.iriPasswordSafe.contains '%' = true := by decide
  have np : NetlocParts iriConv.fu iriConv.fp p := by
    refine ⟨hne, fun c hc => (hchars c hc).1, ?_, ?_, hport⟩
    · intro u hu
      have hune : u ≠ [] := by
        intro e; subst e
        cases hx : p.username with
        | none => simp [truthy, hx] at hu
        | some v => cases v <;> simp [truthy, hx] at hu
      exact ⟨quote_ne hune, fun c hc =>
        fixed_transfer (P := fun c => plainChar c = true) (fun n hn h => (safe_user_plain n hn).1 h)
          (quote_fixed hpU u c hc)⟩
    · intro pw hpw
      have hpne : pw ≠ [] := by
        intro e; subst e
        cases hx : p.password with
        | none => simp [truthy, hx] at hpw
        | some v => cases v <;> simp [truthy, hx] at hpw
      exact ⟨quote_ne hpne, fun c hc =>
        fixed_transfer (P := fun c => plainChar c = true) (fun n hn h => (safe_user_plain n hn).2 h)
          (quote_fixed hpP pw c hc)⟩
  have hascii : ∀ c ∈ netloc iriConv.fu iriConv.fp p, c.toNat < 128 := by
    intro c hc
    rw [netloc_eq] at hc
    rcases List.mem_append.mp hc with hc | hc
    · unfold authText at hc
      cases hu : truthy p.username with
      | none => simp [hu] at hc
      | some u =>
        simp only [hu] at hc
        rcases List.mem_append.mp hc with hc | hc
        · rcases List.mem_append.mp hc with hc | hc
          · exact quoteBytes_ascii _ _ c hc
          · cases hpw : truthy p.password with
            | none => simp [hpw] at hc
            | some pw =>
              simp only [hpw, List.mem_cons] at hc
              rcases hc with rfl | hc
              · decide
              · exact quoteBytes_ascii _ _ c hc
        · simp at hc; subst hc; decide
    · rcases List.mem_append.mp hc with hc | hc
      · unfold hostBr at hc
        split at hc
        · simp only [List.cons_append, List.mem_cons, List.mem_append, List.mem_nil_iff, or_false] at hc
          rcases hc with rfl | hc | rfl
          · decide
          · exact (hchars c hc).2
          · decide
        · exact (hchars c hc).2
      · exact (portText_chars p.port c hc).2
  have hscheme : validScheme p.scheme = true ∧ p.scheme.map asciiLower = p.scheme ∧ noTab p.scheme := by
    rw [e1]
    rcases shape.scheme with h | h
    · exact absurd h hsch
    · exact ⟨h.1, h.2, shape.tabs.1⟩
  have hnetne : sp.netloc ≠ [] := by
    intro e
    apply hraw
    rw [e]; rfl
  have hpF : Gen.UrlTables.iriPathSafe.contains '%' = true := by decide
  have hqF : Gen.UrlTables.iriQuerySafe.contains '%' = true := by decide
  have hfF : Gen.UrlTables.iriFragmentSafe.contains '%' = true := by decide
  have g : GoodSplit o (iriConv.apply p) := by
    apply good_apply np hscheme (laws.bracket _ _ hconv)
    · simp only [netlocOk, Bool.or_eq_true]
      exact Or.inl (Or.inr (allAscii_iff.mpr hascii))
    · refine ⟨?_, ?_, ?_, ?_⟩
      · show quote Gen.UrlTables.iriPathSafe p.path = [] ∨ _
        rw [e2]
        rcases shape.path_form hnetne with h | h
        · left; rw [h]; rfl
        · right
          cases hpath : sp.path with
          | nil => rw [hpath] at h; cases h
          | cons x xs =>
            rw [hpath] at h
            simp at h
            subst h
            show (quote Gen.UrlTables.iriPathSafe ('/' :: xs)).head? = some '/'
            rw [quote_cons_fixed (show Fixed Gen.UrlTables.iriPathSafe '/' from ⟨by decide, by decide⟩)]
            rfl
      · intro hm
        exact (fixed_transfer (P := fun c => c ≠ '?' ∧ c ≠ '#' ∧ isTabCrLf c = false) safe_path_ok
          (quote_fixed hpF p.path _ hm)).1 rfl
      · intro hm
        exact (fixed_transfer (P := fun c => c ≠ '?' ∧ c ≠ '#' ∧ isTabCrLf c = false) safe_path_ok
          (quote_fixed hpF p.path _ hm)).2.1 rfl
      · intro c hc
        exact (fixed_transfer (P := fun c => c ≠ '?' ∧ c ≠ '#' ∧ isTabCrLf c = false) safe_path_ok
          (quote_fixed hpF p.path _ hc)).2.2
    · refine ⟨?_, ?_⟩
      · intro hm
        exact (fixed_transfer (P := fun c => c ≠ '#' ∧ isTabCrLf c = false) safe_query_ok
          (quote_fixed hqF p.query _ hm)).1 rfl
      · intro c hc
        exact (fixed_transfer (P := fun c => c ≠ '#' ∧ isTabCrLf c = false) safe_query_ok
          (quote_fixed hqF p.query _ hc)).2
    · intro c hc
      exact fixed_transfer (P := fun c => isTabCrLf c = false) safe_frag_ok (quote_fixed hfF p.fragment _ hc)
  exact ⟨np, g, laws.fixed _ _ hconv, hascii⟩

end Wz.Url
