/-
C15 on whole URL text: netloc assembly / re-parsing, and the lifts of the component theorems
through urlsplit / urlunsplit for URLs of the property's grammar. Core Lean only.
-/
import WzVerif.Lemmas.UrlSplit
namespace Wz.Url
open Wz

/-- characters a converted host may contain (`:` allowed: IPv6 literals) -/
def hostChar (c : Char) : Bool :=
  !(isNetlocDelim c || c == '@' || c == '[' || c == ']' || isTabCrLf c)

/-- characters of converted user / password text -/
def plainChar (c : Char) : Bool := hostChar c && c != ':'

def portText : Option Nat → Str
  | some 0 => []
  | some k => ':' :: (toString k).toList
  | none => []

def hostBr (h : Str) : Str := if h.contains ':' then '[' :: h ++ [']'] else h

def authText (fu fp : Str → Str) (p : Parts) : Str :=
  match truthy p.username with
  | some u => (fu u ++ match truthy p.password with | some pw => ':' :: fp pw | none => []) ++ ['@']
  | none => []

theorem netloc_eq (fu fp : Str → Str) (p : Parts) :
    netloc fu fp p = authText fu fp p ++ (hostBr p.host ++ portText p.port) := by
  unfold netloc authText hostBr portText
  cases hu : truthy p.username with
  | none =>
    simp only [List.nil_append]
    cases hp : p.port with
    | none => simp
    | some k => cases k <;> simp
  | some u =>
    simp only
    cases hpw : truthy p.password <;> cases hp : p.port with
    | none => simp
    | some k => cases k <;> simp

theorem digits_spec (k : Nat) : (toString k).toList ≠ [] ∧ (∀ c ∈ (toString k).toList, isAsciiDigit c = true) ∧
    digitsToNat (toString k).toList = k := by
  rw [Nat.toString_eq_repr, Nat.toList_repr]
  refine ⟨Nat.toDigits_ne_nil, ?_, Nat.ofDigitChars_ten_toDigits⟩
  intro c hc
  have := Char.isDigit_iff_toNat.mp (Nat.isDigit_of_mem_toDigits (by decide) (by decide) hc)
  simp only [isAsciiDigit, Bool.and_eq_true, decide_eq_true_eq]
  exact ⟨this.1, this.2⟩

theorem digit_facts {c : Char} (h : isAsciiDigit c = true) :
    hostChar c = true ∧ c ≠ ':' ∧ c.toNat < 128 := by
  have key : ∀ n, n < 128 → isAsciiDigit (Char.ofNat n) = true →
      hostChar (Char.ofNat n) = true ∧ Char.ofNat n ≠ ':' := by decide +kernel
  have hlt : c.toNat < 128 := by
    simp only [isAsciiDigit, Bool.and_eq_true, decide_eq_true_eq] at h
    have : c.toNat ≤ '9'.toNat := h.2
    have h9 : '9'.toNat = 57 := by decide
    omega
  have := key c.toNat hlt (by rw [Char.ofNat_toNat]; exact h)
  rw [Char.ofNat_toNat] at this
  exact ⟨this.1, this.2, hlt⟩

/-- what is known about the pieces of an assembled netloc -/
structure NetlocParts (fu fp : Str → Str) (p : Parts) : Prop where
  host_ne : p.host ≠ []
  host_chars : ∀ c ∈ p.host, hostChar c = true
  user : ∀ u, truthy p.username = some u → fu u ≠ [] ∧ ∀ c ∈ fu u, plainChar c = true
  pass : ∀ pw, truthy p.password = some pw → fp pw ≠ [] ∧ ∀ c ∈ fp pw, plainChar c = true
  port : ∀ k, p.port = some k → k ≤ 65535

theorem hostChar_ne {c : Char} (h : hostChar c = true) :
    c ≠ '@' ∧ c ≠ '[' ∧ c ≠ ']' ∧ isNetlocDelim c = false ∧ isTabCrLf c = false := by
  simp only [hostChar, Bool.not_eq_true', Bool.or_eq_false_iff, beq_eq_false_iff_ne] at h
  exact ⟨h.1.1.1.2, h.1.1.2, h.1.2, h.1.1.1.1, h.2⟩

theorem plainChar_ne {c : Char} (h : plainChar c = true) : hostChar c = true ∧ c ≠ ':' := by
  simp only [plainChar, Bool.and_eq_true, bne_iff_ne] at h
  exact h

theorem portText_chars (port : Option Nat) : ∀ c ∈ portText port, hostChar c = true ∧ c.toNat < 128 := by
  intro c hc
  unfold portText at hc
  split at hc
  · cases hc
  · rcases List.mem_cons.mp hc with rfl | hc
    · exact ⟨by decide, by decide⟩
    · have := digit_facts ((digits_spec _).2.1 c hc)
      exact ⟨this.1, this.2.2⟩
  · cases hc

theorem hostBr_chars {h : Str} (hh : ∀ c ∈ h, hostChar c = true) :
    ∀ c ∈ hostBr h, c ≠ '@' ∧ isNetlocDelim c = false ∧ isTabCrLf c = false := by
  intro c hc
  unfold hostBr at hc
  split at hc
  · simp only [List.cons_append, List.mem_cons, List.mem_append, List.mem_nil_iff, or_false] at hc
    rcases hc with rfl | hc | rfl
    · exact ⟨by decide, by decide, by decide⟩
    · have := hostChar_ne (hh c hc); exact ⟨this.1, this.2.2.2.1, this.2.2.2.2⟩
    · exact ⟨by decide, by decide, by decide⟩
  · have := hostChar_ne (hh c hc); exact ⟨this.1, this.2.2.2.1, this.2.2.2.2⟩

/-- the host / port half of an assembled netloc parses back -/
theorem hostinfo_tail {h : Str} (hh : ∀ c ∈ h, hostChar c = true) (port : Option Nat) :
    let hi := hostBr h ++ portText port
    (match partitionChar '[' hi with
      | (_, some bracketed) =>
        let r := partitionChar ']' bracketed
        (r.1, ((partitionChar ':' (r.2.getD [])).2).getD [])
      | (_, none) =>
        let r := partitionChar ':' hi
        (r.1, r.2.getD [])) =
      (h, match port with | some 0 => [] | some k => (toString k).toList | none => []) := by
  intro hi
  have hpt : ∀ c ∈ portText port, c ≠ '[' := fun c hc => (hostChar_ne (portText_chars port c hc).1).2.1
  have hnb : '[' ∉ h := fun hm => (hostChar_ne (hh _ hm)).2.1 rfl
  have hnr : ']' ∉ h := fun hm => (hostChar_ne (hh _ hm)).2.2.1 rfl
  by_cases hc : h.contains ':' = true
  · have hcm : ':' ∈ h := by simpa using hc
    have e : hi = [] ++ '[' :: (h ++ ']' :: portText port) := by simp [hi, hostBr, hcm]
    rw [e, partitionChar_append [] _ (by simp)]
    simp only
    rw [partitionChar_append h _ hnr]
    simp only [Option.getD_some]
    unfold portText
    split
    · simp [partitionChar]
    · simp [partitionChar]
    · simp [partitionChar]
  · have hcolon : ':' ∉ h := by simpa using hc
    have e : hi = h ++ portText port := by simp [hi, hostBr, hcolon]
    have hnb' : '[' ∉ h ++ portText port := by
      intro hm
      rcases List.mem_append.mp hm with hm | hm
      · exact hnb hm
      · exact hpt _ hm rfl
    rw [e, partitionChar_none _ hnb']
    simp only
    unfold portText
    split
    · simp [partitionChar_none h hcolon]
    · rw [partitionChar_append h _ hcolon]; simp
    · simp [partitionChar_none h hcolon]

theorem authText_spec {fu fp : Str → Str} {p : Parts} (np : NetlocParts fu fp p) :
    (authText fu fp p = [] ∧ truthy p.username = none) ∨
    (∃ X u, authText fu fp p = X ++ ['@'] ∧ '@' ∉ X ∧ truthy p.username = some u ∧
      X = fu u ++ (match truthy p.password with | some pw => ':' :: fp pw | none => []) ∧
      (∀ c ∈ X, isNetlocDelim c = false ∧ isTabCrLf c = false ∧ c ≠ '[' ∧ c ≠ ']')) := by
  unfold authText
  cases hu : truthy p.username with
  | none => left; exact ⟨rfl, rfl⟩
  | some u =>
    right
    obtain ⟨_, huc⟩ := np.user u hu
    refine ⟨_, u, rfl, ?_, rfl, rfl, ?_⟩
    · intro hm
      rcases List.mem_append.mp hm with hm | hm
      · exact (hostChar_ne (plainChar_ne (huc _ hm)).1).1 rfl
      · cases hpw : truthy p.password with
        | none => simp [hpw] at hm
        | some pw =>
          simp only [hpw, List.mem_cons] at hm
          rcases hm with e | hm
          · exact absurd e (by decide)
          · exact (hostChar_ne (plainChar_ne ((np.pass pw hpw).2 _ hm)).1).1 rfl
    · intro c hm
      have hplain : ∀ c, plainChar c = true → isNetlocDelim c = false ∧ isTabCrLf c = false ∧ c ≠ '[' ∧ c ≠ ']' := by
        intro c hc
        have := hostChar_ne (plainChar_ne hc).1
        exact ⟨this.2.2.2.1, this.2.2.2.2, this.2.1, this.2.2.1⟩
      rcases List.mem_append.mp hm with hm | hm
      · exact hplain c (huc _ hm)
      · cases hpw : truthy p.password with
        | none => simp [hpw] at hm
        | some pw =>
          simp only [hpw, List.mem_cons] at hm
          rcases hm with rfl | hm
          · exact ⟨by decide, by decide, by decide, by decide⟩
          · exact hplain c ((np.pass pw hpw).2 _ hm)

theorem hostTail_no_at {h : Str} (hh : ∀ c ∈ h, hostChar c = true) (port : Option Nat) :
    '@' ∉ hostBr h ++ portText port := by
  intro hm
  rcases List.mem_append.mp hm with hm | hm
  · exact (hostBr_chars hh _ hm).1 rfl
  · exact (hostChar_ne (portText_chars port _ hm).1).1 rfl

/-- `rpartition("@")` of an assembled netloc -/
theorem rpartition_netloc {fu fp : Str → Str} {p : Parts} (np : NetlocParts fu fp p) :
    (rpartitionChar '@' (netloc fu fp p)).2 = hostBr p.host ++ portText p.port ∧
    (rpartitionChar '@' (netloc fu fp p)).1 =
      (match truthy p.username with
        | some u => some (fu u ++ match truthy p.password with | some pw => ':' :: fp pw | none => [])
        | none => none) := by
  rw [netloc_eq]
  have hno := hostTail_no_at np.host_chars p.port
  rcases authText_spec np with ⟨h1, h2⟩ | ⟨X, u, h1, _, h3, h4, _⟩
  · rw [h1, h2, List.nil_append, rpartitionChar_none _ hno]
    exact ⟨rfl, rfl⟩
  · rw [h1, h3]
    have : X ++ ['@'] ++ (hostBr p.host ++ portText p.port) = X ++ '@' :: (hostBr p.host ++ portText p.port) := by
      simp
    rw [this, rpartitionChar_append _ _ hno, h4]
    exact ⟨rfl, rfl⟩

theorem netloc_hostinfo {fu fp : Str → Str} {p : Parts} (np : NetlocParts fu fp p) :
    hostinfo (netloc fu fp p) =
      (p.host, match p.port with | some 0 => none | some k => some (toString k).toList | none => none) := by
  unfold hostinfo
  simp only [(rpartition_netloc np).1]
  have := hostinfo_tail np.host_chars p.port
  simp only at this
  rw [this]
  cases hp : p.port with
  | none => simp
  | some k =>
    cases k with
    | zero => simp
    | succ k =>
      have := (digits_spec (k + 1)).1
      cases hd : (toString (k + 1)).toList with
      | nil => exact absurd hd this
      | cons a b => simp

theorem netloc_port {fu fp : Str → Str} {p : Parts} (np : NetlocParts fu fp p) :
    portOf (netloc fu fp p) = .ok (match p.port with | some 0 => none | some k => some k | none => none) := by
  unfold portOf
  rw [netloc_hostinfo np]
  cases hp : p.port with
  | none => rfl
  | some k =>
    cases k with
    | zero => rfl
    | succ k =>
      obtain ⟨_, h2, h3⟩ := digits_spec (k + 1)
      have hall : (toString (k + 1)).toList.all isAsciiDigit = true := by
        simp only [List.all_eq_true]; exact h2
      have hle := np.port _ hp
      simp only [hall, if_true, h3, hle]

theorem netloc_userinfo {fu fp : Str → Str} {p : Parts} (np : NetlocParts fu fp p) :
    userinfo (netloc fu fp p) =
      (match truthy p.username with
        | some u => (some (fu u), (truthy p.password).map fp)
        | none => (none, none)) := by
  unfold userinfo
  rw [(rpartition_netloc np).2]
  cases hu : truthy p.username with
  | none => rfl
  | some u =>
    simp only
    have hnc : ':' ∉ fu u := fun hm => (plainChar_ne ((np.user u hu).2 _ hm)).2 rfl
    cases hpw : truthy p.password with
    | none => simp [partitionChar_none _ hnc]
    | some pw => simp [partitionChar_append _ _ hnc]

theorem netloc_chars {fu fp : Str → Str} {p : Parts} (np : NetlocParts fu fp p) :
    netloc fu fp p ≠ [] ∧ ∀ c ∈ netloc fu fp p, isNetlocDelim c = false ∧ isTabCrLf c = false := by
  rw [netloc_eq]
  refine ⟨?_, ?_⟩
  · intro he
    have := List.append_eq_nil_iff.mp he
    have h2 := (List.append_eq_nil_iff.mp this.2).1
    unfold hostBr at h2
    split at h2
    · cases h2
    · exact np.host_ne h2
  · intro c hc
    rcases List.mem_append.mp hc with hc | hc
    · rcases authText_spec np with ⟨h1, _⟩ | ⟨X, u, h1, _, _, _, h5⟩
      · rw [h1] at hc; cases hc
      · rw [h1] at hc
        rcases List.mem_append.mp hc with hc | hc
        · exact ⟨(h5 c hc).1, (h5 c hc).2.1⟩
        · simp at hc; subst hc; exact ⟨by decide, by decide⟩
    · rcases List.mem_append.mp hc with hc | hc
      · exact (hostBr_chars np.host_chars c hc).2
      · have := hostChar_ne (portText_chars p.port c hc).1
        exact ⟨this.2.2.2.1, this.2.2.2.2⟩

theorem netloc_brackets (o : UrlOpaque) {fu fp : Str → Str} {p : Parts} (np : NetlocParts fu fp p) :
    bracketsOk o (netloc fu fp p) = (if p.host.contains ':' then o.bracketOk p.host else true) := by
  rw [netloc_eq]
  have hauth : ∀ c ∈ authText fu fp p, c ≠ '[' ∧ c ≠ ']' := by
    intro c hc
    rcases authText_spec np with ⟨h1, _⟩ | ⟨X, u, h1, _, _, _, h5⟩
    · rw [h1] at hc; cases hc
    · rw [h1] at hc
      rcases List.mem_append.mp hc with hc | hc
      · exact (h5 c hc).2.2
      · simp at hc; subst hc; exact ⟨by decide, by decide⟩
  have hport : ∀ c ∈ portText p.port, c ≠ '[' ∧ c ≠ ']' := fun c hc =>
    ⟨(hostChar_ne (portText_chars p.port c hc).1).2.1, (hostChar_ne (portText_chars p.port c hc).1).2.2.1⟩
  have hh : ∀ c ∈ p.host, c ≠ '[' ∧ c ≠ ']' := fun c hc =>
    ⟨(hostChar_ne (np.host_chars c hc)).2.1, (hostChar_ne (np.host_chars c hc)).2.2.1⟩
  unfold bracketsOk hostBr
  by_cases hc : p.host.contains ':' = true
  · have hcm : ':' ∈ p.host := by simpa using hc
    simp only [hc, if_true]
    have e : authText fu fp p ++ ('[' :: p.host ++ [']'] ++ portText p.port)
        = authText fu fp p ++ '[' :: (p.host ++ ']' :: portText p.port) := by simp
    rw [e]
    have h1 : (authText fu fp p ++ '[' :: (p.host ++ ']' :: portText p.port)).contains '[' = true := by simp
    have h2 : (authText fu fp p ++ '[' :: (p.host ++ ']' :: portText p.port)).contains ']' = true := by simp
    simp only [h1, h2, bne_self_eq_false, Bool.false_eq_true, if_false, if_true]
    rw [partitionChar_append _ _ (fun hm => (hauth _ hm).1 rfl)]
    simp only [Option.getD_some]
    rw [partitionChar_append _ _ (fun hm => (hh _ hm).2 rfl)]
  · simp only [hc, Bool.false_eq_true, if_false]
    have h1 : (authText fu fp p ++ (p.host ++ portText p.port)).contains '[' = false := by
      simp only [List.contains_eq_mem, decide_eq_false_iff_not, List.mem_append, not_or]
      exact ⟨fun hm => (hauth _ hm).1 rfl, fun hm => (hh _ hm).1 rfl, fun hm => (hport _ hm).1 rfl⟩
    have h2 : (authText fu fp p ++ (p.host ++ portText p.port)).contains ']' = false := by
      simp only [List.contains_eq_mem, decide_eq_false_iff_not, List.mem_append, not_or]
      exact ⟨fun hm => (hauth _ hm).2 rfl, fun hm => (hh _ hm).2 rfl, fun hm => (hport _ hm).2 rfl⟩
    simp [h1, h2]

end Wz.Url
