/-
Routing lemmas, part 19 (C12): no second defaults redirect — `get_default_redirect` takes the FIRST
rule of the endpoint that provides defaults for the matched rule and is suitable; a rule in front of
it that would be suitable after the redirect would already have been suitable before it.
-/
import WzVerif.Lemmas.RoutingAlias
namespace Wz.Routing

/-! ### Python `==` on the model's values is transitive -/

theorem Dec.eq_of_le_le {x y : Dec} (h1 : x.le y = true) (h2 : y.le x = true) :
    x.m * (10 : Int) ^ y.e = y.m * (10 : Int) ^ x.e := by
  simp only [Dec.le, decide_eq_true_eq] at h1 h2
  omega

theorem Dec.le_of_eq {x y : Dec} (h : x.m * (10 : Int) ^ y.e = y.m * (10 : Int) ^ x.e) : x.le y = true ∧ y.le x = true := by
  simp only [Dec.le, decide_eq_true_eq]
  omega

theorem pow10_pos (n : Nat) : (0 : Int) < (10 : Int) ^ n := Int.pow_pos (by omega)

theorem Dec.eq_trans {x y z : Dec} (h1 : x.m * (10 : Int) ^ y.e = y.m * (10 : Int) ^ x.e)
    (h2 : y.m * (10 : Int) ^ z.e = z.m * (10 : Int) ^ y.e) : x.m * (10 : Int) ^ z.e = z.m * (10 : Int) ^ x.e := by
  have hy := pow10_pos y.e
  have key : (x.m * (10 : Int) ^ z.e) * (10 : Int) ^ y.e = (z.m * (10 : Int) ^ x.e) * (10 : Int) ^ y.e := by
    calc (x.m * (10 : Int) ^ z.e) * (10 : Int) ^ y.e
        = (x.m * (10 : Int) ^ y.e) * (10 : Int) ^ z.e := by
          rw [Int.mul_assoc, Int.mul_assoc, Int.mul_comm ((10 : Int) ^ z.e)]
      _ = (y.m * (10 : Int) ^ x.e) * (10 : Int) ^ z.e := by rw [h1]
      _ = (y.m * (10 : Int) ^ z.e) * (10 : Int) ^ x.e := by
          rw [Int.mul_assoc, Int.mul_assoc, Int.mul_comm ((10 : Int) ^ x.e)]
      _ = (z.m * (10 : Int) ^ y.e) * (10 : Int) ^ x.e := by rw [h2]
      _ = (z.m * (10 : Int) ^ x.e) * (10 : Int) ^ y.e := by
          rw [Int.mul_assoc, Int.mul_assoc, Int.mul_comm ((10 : Int) ^ y.e)]
  exact Int.eq_of_mul_eq_mul_right (by omega) key

theorem Value.pyEq_refl (a : Value) : a.pyEq a = true := by
  simp only [Value.pyEq]
  cases h : a.dec? with
  | none => simp
  | some x => simp [Dec.le]

theorem Value.pyEq_trans {a b c : Value} (h1 : a.pyEq b = true) (h2 : b.pyEq c = true) : a.pyEq c = true := by
  simp only [Value.pyEq] at h1 h2 ⊢
  cases ha : a.dec? with
  | none =>
    cases hb : b.dec? with
    | some y => simp [ha, hb] at h1
    | none =>
      cases hc : c.dec? with
      | some z => simp [hb, hc] at h2
      | none =>
        simp only [ha, hb, hc, beq_iff_eq] at h1 h2 ⊢
        rw [h1, h2]
  | some x =>
    cases hb : b.dec? with
    | none => simp [ha, hb] at h1
    | some y =>
      cases hc : c.dec? with
      | none => simp [hb, hc] at h2
      | some z =>
        simp only [ha, hb, hc, Bool.and_eq_true] at h1 h2 ⊢
        exact Dec.le_of_eq (Dec.eq_trans (Dec.eq_of_le_le h1.1 h1.2) (Dec.eq_of_le_le h2.1 h2.2))

/-! ### `sameSet` -/

theorem sameSet_trans {a b c : List Str} (h1 : sameSet a b = true) (h2 : sameSet b c = true) : sameSet a c = true := by
  simp only [sameSet, Bool.and_eq_true, List.all_eq_true, List.contains_eq_mem, decide_eq_true_eq] at h1 h2 ⊢
  exact ⟨fun x hx => h2.1 x (h1.1 x hx), fun x hx => h1.2 x (h2.2 x hx)⟩

theorem sameSet_mem {a b : List Str} (h : sameSet a b = true) {x : Str} (hx : x ∈ a) : x ∈ b := by
  simp only [sameSet, Bool.and_eq_true, List.all_eq_true, List.contains_eq_mem, decide_eq_true_eq] at h
  exact h.1 x hx

/-! ### the first rule that provides defaults -/

theorem getDefaultRedirect_first {m : RMap} {a : Adapter} {rule : Rule} {meth : Str} {vals : List (Str × Value)}
    {qa : QueryArgs} {url : Str} : ∀ {l : List Rule},
    getDefaultRedirect m a rule meth vals qa l = .ok (some url) →
    ∃ l1 r0 l2, l = l1 ++ r0 :: l2 ∧
      (∀ x ∈ l1, x.idx ≠ rule.idx ∧ (providesDefaultsFor m.cfg x rule && x.suitableFor vals (some meth)) = false) ∧
      r0.idx ≠ rule.idx ∧ providesDefaultsFor m.cfg r0 rule = true ∧ r0.suitableFor vals (some meth) = true := by
  intro l
  induction l with
  | nil => intro h; simp [getDefaultRedirect] at h
  | cons r t ih =>
    intro h
    simp only [getDefaultRedirect] at h
    split at h
    · cases h
    · rename_i hidx
      have hidx : r.idx ≠ rule.idx := by simpa using hidx
      split at h
      · rename_i hcond
        simp only [Bool.and_eq_true] at hcond
        exact ⟨[], r, t, rfl, by simp, hidx, hcond.1, hcond.2⟩
      · rename_i hcond
        obtain ⟨l1, r0, l2, hl, h1, h2⟩ := ih h
        refine ⟨r :: l1, r0, l2, by simp [hl], ?_, h2⟩
        intro x hx
        rcases List.mem_cons.1 hx with rfl | hx
        · exact ⟨hidx, by simpa using hcond⟩
        · exact h1 x hx

/-- the loop stops with "no redirect" when it reaches the rule itself and nothing before it qualifies -/
theorem getDefaultRedirect_none {m : RMap} {a : Adapter} {rule : Rule} {meth : Str} {vals : List (Str × Value)}
    {qa : QueryArgs} : ∀ (l1 : List Rule) (l2 : List Rule),
    (∀ x ∈ l1, x.idx ≠ rule.idx ∧ (providesDefaultsFor m.cfg x rule && x.suitableFor vals (some meth)) = false) →
    getDefaultRedirect m a rule meth vals qa (l1 ++ rule :: l2) = .ok none := by
  intro l1
  induction l1 with
  | nil => intro l2 _; simp [getDefaultRedirect]
  | cons x t ih =>
    intro l2 h
    have hx := h x (by simp)
    simp only [List.cons_append, getDefaultRedirect]
    rw [if_neg (by simpa using hx.1), if_neg (by simp [hx.2])]
    exact ih l2 (fun y hy => h y (List.mem_cons_of_mem _ hy))

/-- do the values after the redirect agree (Python `==`) with the values before it, key by key? -/
def valsAgree (vals0 vals : List (Str × Value)) : Bool :=
  vals.all fun kv => match lookupVal kv.1 vals0 with
    | some v0 => v0.pyEq kv.2
    | none => false

theorem mem_of_lookupVal {k : Str} {v : Value} : ∀ {l : List (Str × Value)}, lookupVal k l = some v → (k, v) ∈ l := by
  intro l
  induction l with
  | nil => intro h; simp [lookupVal] at h
  | cons x t ih =>
    intro h
    obtain ⟨k', v'⟩ := x
    simp only [lookupVal] at h
    split at h
    · rename_i hk
      have hk : k' = k := by simpa using hk
      cases h; subst hk; simp
    · exact List.mem_cons_of_mem _ (ih h)

theorem any_key_of_lookupVal {k : Str} {v : Value} {l : List (Str × Value)} (h : lookupVal k l = some v) :
    l.any (·.1 == k) = true := by
  simp only [List.any_eq_true]
  exact ⟨(k, v), mem_of_lookupVal h, by simp⟩

/-- a rule that is suitable for the values after the redirect was suitable for the values before it -/
theorem suitableFor_of_agree {x : Rule} {vals0 vals : List (Str × Value)} {mth : Option Str}
    (hagree : valsAgree vals0 vals = true)
    (hkeys : ∀ k ∈ x.arguments, vals.any (·.1 == k) = true)
    (h : x.suitableFor vals0 mth = true) : x.suitableFor vals mth = true := by
  simp only [Rule.suitableFor, Bool.and_eq_true, List.all_eq_true, Bool.or_eq_true] at h ⊢
  refine ⟨⟨h.1.1, fun k hk => .inr (hkeys k hk)⟩, ?_⟩
  intro kd hkd
  have hx := h.2 kd hkd
  obtain ⟨k, d⟩ := kd
  simp only at hx ⊢
  cases hv : lookupVal k vals with
  | none => rfl
  | some v =>
    simp only
    simp only [valsAgree, List.all_eq_true] at hagree
    have := hagree (k, v) (mem_of_lookupVal hv)
    simp only at this
    cases hv0 : lookupVal k vals0 with
    | none => simp [hv0] at this
    | some v0 =>
      simp only [hv0] at this hx
      exact Value.pyEq_trans hx this

/-- **no second defaults redirect** -/
theorem no_second_defaults_redirect {m : RMap} {a : Adapter} {rule : Rule} {meth : Str} {vals : List (Str × Value)}
    {qa : QueryArgs} {url : Str} {l : List Rule}
    (hidx : (l.map (·.idx)).Nodup)
    (htrace : ∀ x ∈ l, x.idx ≠ rule.idx → x.trace m.cfg ≠ rule.trace m.cfg)
    (hkeys : ∀ k ∈ rule.arguments, vals.any (·.1 == k) = true)
    (h : getDefaultRedirect m a rule meth vals qa l = .ok (some url)) :
    ∃ r0 ∈ l, providesDefaultsFor m.cfg r0 rule = true ∧ r0.suitableFor vals (some meth) = true ∧
      (∀ (vals0 : List (Str × Value)) (qa' : QueryArgs), valsAgree vals0 vals = true →
        getDefaultRedirect m a r0 meth vals0 qa' l = .ok none) := by
  obtain ⟨l1, r0, l2, hl, hl1, hr0idx, hprov, hsuit⟩ := getDefaultRedirect_first h
  refine ⟨r0, by rw [hl]; simp, hprov, hsuit, ?_⟩
  intro vals0 qa' hagree
  rw [hl]
  apply getDefaultRedirect_none
  intro x hx
  have hxl : x ∈ l := by rw [hl]; exact List.mem_append_left _ hx
  -- idx of an earlier entry differs from r0's
  have hne : x.idx ≠ r0.idx := by
    rw [hl, List.map_append, List.map_cons] at hidx
    have := (List.nodup_append.1 hidx).2.2 x.idx (List.mem_map.2 ⟨x, hx, rfl⟩) r0.idx (by simp)
    exact this
  refine ⟨hne, ?_⟩
  cases hc : (providesDefaultsFor m.cfg x r0 && x.suitableFor vals0 (some meth)) with
  | false => rfl
  | true =>
    exfalso
    simp only [Bool.and_eq_true] at hc
    obtain ⟨hp0, hs0⟩ := hc
    obtain ⟨hxidx, hfirst⟩ := hl1 x hx
    -- x provides defaults for the originally matched rule as well
    have hp : providesDefaultsFor m.cfg x rule = true := by
      obtain ⟨hbo, hdne, hep, hss⟩ := providesDefaultsFor_facts hp0
      obtain ⟨_, _, hep0, hss0⟩ := providesDefaultsFor_facts hprov
      simp only [providesDefaultsFor, Bool.and_eq_true, Bool.not_eq_true', beq_iff_eq, bne_iff_ne, ne_eq]
      refine ⟨⟨⟨⟨hbo, ?_⟩, hep.trans hep0⟩, htrace x hxl hxidx⟩, sameSet_trans hss hss0⟩
      cases hd : x.defaults with
      | nil => exact absurd hd hdne
      | cons y t => rfl
    have hsx : x.suitableFor vals (some meth) = true := by
      apply suitableFor_of_agree hagree _ hs0
      intro k hk
      obtain ⟨_, _, _, hss⟩ := providesDefaultsFor_facts hp
      exact hkeys k (sameSet_mem hss hk)
    rw [hp, hsx] at hfirst
    cases hfirst

end Wz.Routing
